/-!
# `ScriptDirectory._rev_path`: the file name of a generated revision

    slug = "_".join(_slug_re.findall(message or "")).lower()          # _slug_re = \w+
    if len(slug) > self.truncate_slug_length:
        slug = slug[: self.truncate_slug_length].rsplit("_", 1)[0] + "_"
    filename = "%s.py" % (self.file_template % {rev, slug, epoch, year, month, day, hour, minute, second})

and the pattern `Script._from_filename` accepts: `(?!\.\#|__init__\.)(.*\.py)$` (`re.match`).
`\w` and `str.lower` depend on the Unicode database: they are parameters (`isWord`, `lower`).
The `%`-formatting subset: `%%`, `%(name)s`, `%(name)d`, with an optional `0` flag and width.
-/
namespace Model.Gen

/-- `re.findall(r"\w+", s)`: maximal runs of word characters -/
def wordsAux (isWord : Char → Bool) : List Char → List Char → List (List Char)
  | [], cur => if cur.isEmpty then [] else [cur.reverse]
  | c :: r, cur =>
    if isWord c then wordsAux isWord r (c :: cur)
    else if cur.isEmpty then wordsAux isWord r []
    else cur.reverse :: wordsAux isWord r []

def words (isWord : Char → Bool) (s : List Char) : List (List Char) := wordsAux isWord s []

def joinUnderscore : List (List Char) → List Char
  | [] => []
  | [x] => x
  | x :: r => x ++ '_' :: joinUnderscore r

/-- `s.rsplit("_", 1)[0]`: the text before the last `_` (all of it when there is none) -/
def beforeLastUnderscore (s : List Char) : List Char :=
  match (s.reverse.dropWhile (· != '_')) with
  | [] => s
  | _ :: r => r.reverse

def slugOf (isWord : Char → Bool) (lower : Char → List Char) (trunc : Nat) (message : List Char) : List Char :=
  let slug := (joinUnderscore (words isWord message)).flatMap lower
  if slug.length > trunc then beforeLastUnderscore (slug.take trunc) ++ ['_'] else slug

structure Fields where
  rev : List Char
  slug : List Char
  epoch : Nat
  year : Nat
  month : Nat
  day : Nat
  hour : Nat
  minute : Nat
  second : Nat

inductive Tok where
  | lit (c : Char)
  | field (name : List Char) (zero : Bool) (width : Nat) (prec : Option Nat) (conv : Char)
  deriving Repr, DecidableEq

inductive TSt where
  | normal
  | pct
  | name (acc : List Char)
  | spec (name : List Char) (zero : Bool) (seenDigit : Bool) (width : Nat)
  | prec (name : List Char) (zero : Bool) (width : Nat) (p : Nat)

/-- tokenizer of the `%`-format string; `none` = outside the modelled subset / a `ValueError` -/
def parseTemplate : TSt → List Char → Option (List Tok)
  | .normal, [] => some []
  | _, [] => none
  | .normal, c :: r =>
    if c = '%' then parseTemplate .pct r
    else (parseTemplate .normal r).map (Tok.lit c :: ·)
  | .pct, c :: r =>
    if c = '%' then (parseTemplate .normal r).map (Tok.lit '%' :: ·)
    else if c = '(' then parseTemplate (.name []) r
    else none
  | .name acc, c :: r =>
    if c = ')' then parseTemplate (.spec acc.reverse false false 0) r
    else parseTemplate (.name (c :: acc)) r
  | .spec nm zero seen w, c :: r =>
    if c = 's' ∨ c = 'd' then (parseTemplate .normal r).map (Tok.field nm zero w none c :: ·)
    else if c = '.' then parseTemplate (.prec nm zero w 0) r
    else if c = '0' ∧ !seen ∧ !zero then parseTemplate (.spec nm true false w) r
    else if c.isDigit then parseTemplate (.spec nm zero true (w * 10 + (c.toNat - 48))) r
    else none
  | .prec nm zero w p, c :: r =>
    if c = 's' ∨ c = 'd' then (parseTemplate .normal r).map (Tok.field nm zero w (some p) c :: ·)
    else if c.isDigit then parseTemplate (.prec nm zero w (p * 10 + (c.toNat - 48))) r
    else none

def padLeft (c : Char) (w : Nat) (s : List Char) : List Char := List.replicate (w - s.length) c ++ s

def natChars (n : Nat) : List Char := (toString n).toList

def renderTok (f : Fields) : Tok → Option (List Char)
  | .lit c => some [c]
  | .field nm zero w prec conv =>
    let str? : Option (List Char) :=
      if nm = "rev".toList then some f.rev else if nm = "slug".toList then some f.slug else none
    let nat? : Option Nat :=
      if nm = "epoch".toList then some f.epoch else if nm = "year".toList then some f.year
      else if nm = "month".toList then some f.month else if nm = "day".toList then some f.day
      else if nm = "hour".toList then some f.hour else if nm = "minute".toList then some f.minute
      else if nm = "second".toList then some f.second else none
    let asStr (s : List Char) : List Char :=
      padLeft ' ' w (match prec with | some p => s.take p | none => s)
    match str?, nat? with
    | some s, _ => if conv = 's' then some (asStr s) else none               -- `%d` of a str: TypeError
    | none, some n =>
      if conv = 's' then some (asStr (natChars n))
      else
        let digits := match prec with | some p => padLeft '0' p (natChars n) | none => natChars n
        some (padLeft (if zero then '0' else ' ') w digits)
    | none, none => none                                                     -- KeyError

def renderToks (f : Fields) : List Tok → Option (List Char)
  | [] => some []
  | t :: r =>
    match renderTok f t, renderToks f r with
    | some a, some b => some (a ++ b)
    | _, _ => none

/-- `"%s.py" % (file_template % fields)` -/
def fileName (template : List Char) (f : Fields) : Option (List Char) :=
  match parseTemplate .normal template with
  | none => none
  | some toks => (renderToks f toks).map (· ++ ".py".toList)

/-- `_only_source_rev_file.match(name)`: `(?!\.\#|__init__\.)(.*\.py)$` -/
def isRevFile (name : List Char) : Bool :=
  !(".#".toList.isPrefixOf name) && !("__init__.".toList.isPrefixOf name) &&
  ".py".toList.isSuffixOf name && !name.contains '\n'

end Model.Gen
