import Model.Py.Repr
/-!
# The values of the four identifier assignments of `script.py.mako`

`revision = ${repr(up_revision)}`, `down_revision = ${repr(down_revision)}`,
`branch_labels = ${repr(branch_labels)}`, `depends_on = ${repr(depends_on)}`: each value is
`None`, a `str`, or a `tuple` of `str` (`tuple_rev_as_scalar` / `util.to_tuple`).
`reprVal` mirrors CPython's `repr` for these (`tuplerepr`: `()`, `('a',)`, `('a', 'b')`);
`parseVal` is the literal parser for exactly this grammar, built on `parseStrLit`.
-/
namespace Model.Gen
open Model.Py

inductive PyVal where
  | none
  | str (s : List Char)
  | tuple (xs : List (List Char))
  deriving Repr, DecidableEq, Inhabited

/-- the elements of a non-empty tuple after the first: `, 'b', 'c'` -/
def reprTail (isP : Char → Bool) : List (List Char) → List Char
  | [] => []
  | x :: r => ',' :: ' ' :: (pyRepr isP x ++ reprTail isP r)

def reprVal (isP : Char → Bool) : PyVal → List Char
  | .none => "None".toList
  | .str s => pyRepr isP s
  | .tuple [] => "()".toList
  | .tuple [x] => '(' :: (pyRepr isP x ++ ",)".toList)
  | .tuple (x :: r) => '(' :: (pyRepr isP x ++ reprTail isP r ++ [')'])

/-- after an element: `)` ends, `,)` ends (trailing comma), `, ` continues.  `fuel` bounds the
    number of elements (the text length suffices). -/
def parseTail : Nat → List Char → Option (List (List Char) × List Char)
  | 0, _ => none
  | _ + 1, ')' :: rest => some ([], rest)
  | _ + 1, ',' :: ')' :: rest => some ([], rest)
  | fuel + 1, ',' :: ' ' :: t =>
    match parseStrLit t with
    | some (s, t') =>
      match parseTail fuel t' with
      | some (xs, rest) => some (s :: xs, rest)
      | none => none
    | none => none
  | _ + 1, _ => none

def parseValPrefix (t : List Char) : Option (PyVal × List Char) :=
  match t with
  | 'N' :: 'o' :: 'n' :: 'e' :: rest => some (.none, rest)
  | '(' :: ')' :: rest => some (.tuple [], rest)
  | '(' :: t' =>
    match parseStrLit t' with
    | some (s, t'') =>
      match parseTail (t''.length + 1) t'' with
      | some (xs, rest) => some (.tuple (s :: xs), rest)
      | none => none
    | none => none
  | _ =>
    match parseStrLit t with
    | some (s, rest) => some (.str s, rest)
    | none => none

/-- the whole text is one value -/
def parseVal (t : List Char) : Option PyVal :=
  match parseValPrefix t with
  | some (v, []) => some v
  | _ => none

/-- what `Script.__init__` makes of a module attribute: `util.to_tuple(x, default=())` -/
def toTuple : PyVal → List (List Char)
  | .none => []
  | .str s => [s]
  | .tuple xs => xs

/-- `tuple_rev_as_scalar` -/
def asScalar : List (List Char) → PyVal
  | [] => .none
  | [x] => .str x
  | xs => .tuple xs

/-- `util.to_tuple(branch_labels)` as the template receives it -/
def labelsVal : List (List Char) → PyVal
  | [] => .none
  | xs => .tuple xs

end Model.Gen
