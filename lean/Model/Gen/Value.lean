import Model.Py.Repr
/-!
# The values of the four identifier assignments of `script.py.mako`

`revision = ${repr(up_revision)}`, `down_revision = ${repr(down_revision)}`,
`branch_labels = ${repr(branch_labels)}`, `depends_on = ${repr(depends_on)}`: each value is
`None`, a `str`, or a `tuple` of `str` (`tuple_rev_as_scalar` / `util.to_tuple`).
`reprVal` mirrors CPython's `repr` for these (`tuplerepr`: `()`, `('a',)`, `('a', 'b')`);
`parseVal` is the literal parser for exactly this grammar, built on `parseStrLit`.
-/
namespace Model.Gen
open Model.Py

inductive PyVal where
  | none
  | str (s : List Char)
  | tuple (xs : List (List Char))
  | list (xs : List (List Char))
  deriving Repr, DecidableEq, Inhabited

/-- the elements after the first: `, 'b', 'c'` -/
def reprTail (isP : Char → Bool) : List (List Char) → List Char
  | [] => []
  | x :: r => ',' :: ' ' :: (pyRepr isP x ++ reprTail isP r)

def reprVal (isP : Char → Bool) : PyVal → List Char
  | .none => "None".toList
  | .str s => pyRepr isP s
  | .tuple [] => "()".toList
  | .tuple [x] => '(' :: (pyRepr isP x ++ ",)".toList)
  | .tuple (x :: r) => '(' :: (pyRepr isP x ++ reprTail isP r ++ [')'])
  | .list [] => "[]".toList
  | .list (x :: r) => '[' :: (pyRepr isP x ++ reprTail isP r ++ [']'])

/-- after an element of a sequence closed by `cl`: `cl` ends, `,cl` ends (trailing comma),
    `, ` continues.  `fuel` bounds the number of elements (the text length suffices). -/
def parseTail (cl : Char) : Nat → List Char → Option (List (List Char) × List Char)
  | 0, _ => none
  | _ + 1, [] => none
  | fuel + 1, c :: rest =>
    if c = cl then some ([], rest)
    else if c = ',' then
      match rest with
      | [] => none
      | c2 :: rest2 =>
        if c2 = cl then some ([], rest2)
        else if c2 = ' ' then
          match parseStrLit rest2 with
          | some (s, t') =>
            match parseTail cl fuel t' with
            | some (xs, r) => some (s :: xs, r)
            | none => none
          | none => none
        else none
    else none

def parseValPrefix (t : List Char) : Option (PyVal × List Char) :=
  match t with
  | 'N' :: 'o' :: 'n' :: 'e' :: rest => some (.none, rest)
  | '(' :: ')' :: rest => some (.tuple [], rest)
  | '[' :: ']' :: rest => some (.list [], rest)
  | '(' :: t' =>
    match parseStrLit t' with
    | some (s, t'') =>
      match t'' with
      | ')' :: _ => none          -- `('a')` is a parenthesised string, not a tuple: outside the grammar
      | _ =>
        match parseTail ')' (t''.length + 1) t'' with
        | some (xs, rest) => some (.tuple (s :: xs), rest)
        | none => none
    | none => none
  | '[' :: t' =>
    match parseStrLit t' with
    | some (s, t'') =>
      match parseTail ']' (t''.length + 1) t'' with
      | some (xs, rest) => some (.list (s :: xs), rest)
      | none => none
    | none => none
  | _ =>
    match parseStrLit t with
    | some (s, rest) => some (.str s, rest)
    | none => none

/-- the whole text is one value -/
def parseVal (t : List Char) : Option PyVal :=
  match parseValPrefix t with
  | some (v, []) => some v
  | _ => none

/-- what `Script.__init__` makes of a module attribute: `util.to_tuple(x, default=())` -/
def toTuple : PyVal → List (List Char)
  | .none => []
  | .str s => [s]
  | .tuple xs => xs
  | .list xs => xs

/-- `tuple_rev_as_scalar` of a tuple (`down_revision`) -/
def asScalar : List (List Char) → PyVal
  | [] => .none
  | [x] => .str x
  | xs => .tuple xs

/-- `tuple_rev_as_scalar` of a list (`depends_on`: `resolved_depends_on` is a list) -/
def asScalarList : List (List Char) → PyVal
  | [] => .none
  | [x] => .str x
  | xs => .list xs

/-- `util.to_tuple(branch_labels)` as the template receives it -/
def labelsVal : List (List Char) → PyVal
  | [] => .none
  | xs => .tuple xs

end Model.Gen
