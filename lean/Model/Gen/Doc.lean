/-!
# The module docstring of a generated revision file

`script.py.mako` starts with

    """${message}

    Revision ID: ${up_revision}
    Revises: ${down_revision | comma,n}
    Create Date: ${create_date}

    """

The substituted texts are pasted verbatim (no escaping).  `docScan` is the Python tokenizer's
view of the body of a `"""` string literal: where it ends, and whether every backslash escape
in it is well formed (`\xHH`, `\uHHHH`, `\UHHHHHHHH` with a value ≤ 0x10ffff; `\N{...}` is
outside the modelled subset and counted as malformed; octal escapes, backslash-newline and
unknown escapes are accepted by Python 3.12).  The decoded content is irrelevant here: the
property only needs the file to load.
-/
namespace Model.Gen

inductive DSt where
  | normal
  | esc
  | hex (k : Nat) (acc : Nat)
  deriving DecidableEq, Repr

def hexVal? (c : Char) : Option Nat :=
  let n := c.toNat
  if 48 ≤ n ∧ n ≤ 57 then some (n - 48)
  else if 97 ≤ n ∧ n ≤ 102 then some (n - 87)
  else if 65 ≤ n ∧ n ≤ 70 then some (n - 55)
  else none

/-- the text after the closing `"""`; `none` = not a well-formed literal -/
def docScan : DSt → List Char → Option (List Char)
  | _, [] => none
  | .normal, c :: r =>
    if c = '"' then
      match r with
      | '"' :: '"' :: rest => some rest
      | _ => docScan .normal r
    else if c.toNat = 0 then none
    else if c = '\\' then docScan .esc r
    else docScan .normal r
  | .esc, e :: r =>
    if e = 'x' then docScan (.hex 2 0) r
    else if e = 'u' then docScan (.hex 4 0) r
    else if e = 'U' then docScan (.hex 8 0) r
    else if e = 'N' ∨ e.toNat = 0 then none
    else docScan .normal r
  | .hex 0 _, _ :: _ => none
  | .hex (k + 1) acc, c :: r =>
    match hexVal? c with
    | none => none
    | some d =>
      if k = 0 then (if acc * 16 + d ≤ 0x10ffff then docScan .normal r else none)
      else docScan (.hex k (acc * 16 + d)) r

/-- `util.format_as_comma` of the down revisions -/
def commaJoin : List (List Char) → List Char
  | [] => []
  | [x] => x
  | x :: r => x ++ ',' :: ' ' :: commaJoin r

/-- the text between the opening `"""` and the closing `"""` of the template -/
def docBody (message revid : List Char) (down : List (List Char)) (createDate : List Char) : List Char :=
  message ++ "\n\nRevision ID: ".toList ++ revid ++ "\nRevises: ".toList ++ commaJoin down ++
    "\nCreate Date: ".toList ++ createDate ++ "\n\n".toList

/-- the docstring closes exactly where the template closes it -/
def docOk (message revid : List Char) (down : List (List Char)) (createDate : List Char) : Bool :=
  docScan .normal (docBody message revid down createDate ++ "\"\"\"\n".toList) == some ['\n']

/-- characters that can be pasted into a `"""` literal without any effect on its extent -/
def safeDocChar (c : Char) : Bool := !(c = '"' || c = '\\' || c.toNat = 0)

end Model.Gen
