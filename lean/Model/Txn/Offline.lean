/-!
# Offline (`--sql`) transaction framing

Mirror of the control flow of (alembic/runtime/migration.py)

* `MigrationContext.begin_transaction` (`as_sql` branches),
* `MigrationContext.autocommit_block` (`as_sql` branches),
* `MigrationContext.run_migrations` (per-step block, CREATE of the version table when the
  head set is empty, `-- Running` line, migration body, version bookkeeping, final DROP),

under the `env.py` shape `with context.begin_transaction(): context.run_migrations()`.
The output buffer is abstracted to a list of tokens.
-/
namespace Model.Txn

/-- What ends up in the output buffer, abstracted. `i` is the index of the migration step. -/
inductive Tok where
  | begin                 -- `impl.emit_begin()`
  | commit                -- `impl.emit_commit()`
  | createVT              -- `self._version.create(...)`
  | dropVT                -- `self._version.drop(...)`
  | running (i : Nat)     -- `-- Running <step.short_log>`
  | stmt (i : Nat)        -- statement of migration `i` outside an autocommit block
  | auto (i : Nat)        -- statement of migration `i` inside an autocommit block
  | version (i : Nat)     -- version-table statement emitted by `update_to_step`
  deriving DecidableEq, Repr

/-- A migration body is a sequence of segments. -/
inductive Seg where
  | plain (n : Nat)       -- `n` ordinary statements
  | auto (n : Nat)        -- `with ctx.autocommit_block():` containing `n` statements
  deriving DecidableEq, Repr

structure Mig where
  segs : List Seg
  /-- number of statements `HeadMaintainer.update_to_step` emits for this step -/
  nver : Nat
  /-- `not head_maintainer.heads` when the step starts (offline CREATE TABLE) -/
  createVT : Bool
  deriving Repr

structure Cfg where
  /-- `impl.transactional_ddl` after the `transactional_ddl` override has been applied -/
  tddl : Bool
  /-- `transaction_per_migration` -/
  perMig : Bool
  /-- the context was configured with a live connection that is already inside a transaction.
      `MigrationContext.__init__` sets `_in_external_transaction = False` in `as_sql` mode whatever
      the connection says, so this field is deliberately not consulted below. -/
  connInTxn : Bool := false
  deriving Repr

/-- `self._in_external_transaction` as computed by `__init__` for an offline context -/
def inExternalTransaction (_c : Cfg) : Bool := false

/-- `begin_transaction(_per_migration)` in `as_sql` mode: does it emit BEGIN … COMMIT? -/
def emitsBlock (c : Cfg) (perMigrationCall : Bool) : Bool :=
  -- if self._in_external_transaction: return nullcontext()
  if inExternalTransaction c then false else
  -- if self.impl.transactional_ddl: transaction_now = _per_migration == self._transaction_per_migration
  -- else: transaction_now = _per_migration is True   -> but `as_sql` returns nullcontext()
  if c.tddl then perMigrationCall == c.perMig else false

/-- `autocommit_block` in `as_sql` mode around `n` statements of migration `i`. -/
def segToks (c : Cfg) (i : Nat) : Seg → List Tok
  | .plain n => List.replicate n (.stmt i)
  | .auto n =>
    (if c.tddl then [Tok.commit] else []) ++ List.replicate n (.auto i) ++
    (if c.tddl then [Tok.begin] else [])

def bodyToks (c : Cfg) (i : Nat) : List Seg → List Tok
  | [] => []
  | s :: r => segToks c i s ++ bodyToks c i r

/-- what one loop iteration emits inside `with self.begin_transaction(_per_migration=True):` -/
def innerToks (c : Cfg) (i : Nat) (m : Mig) : List Tok :=
  (if m.createVT then [Tok.createVT] else []) ++ [Tok.running i] ++ bodyToks c i m.segs ++
    List.replicate m.nver (.version i)

/-- one iteration of the `for step in …` loop of `run_migrations` -/
def migToks (c : Cfg) (i : Nat) (m : Mig) : List Tok :=
  if emitsBlock c true then [Tok.begin] ++ innerToks c i m ++ [Tok.commit] else innerToks c i m

def loopToks (c : Cfg) : Nat → List Mig → List Tok
  | _, [] => []
  | i, m :: r => migToks c i m ++ loopToks c (i + 1) r

/-- `with context.begin_transaction(): context.run_migrations()`; `dropVT` is
    `as_sql and not head_maintainer.heads` after the loop. -/
def runToks (c : Cfg) (migs : List Mig) (dropVT : Bool) : List Tok :=
  let body := loopToks c 0 migs ++ (if dropVT then [Tok.dropVT] else [])
  if emitsBlock c false then [Tok.begin] ++ body ++ [Tok.commit] else body

end Model.Txn
