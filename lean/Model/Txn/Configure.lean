import Model.Txn.Offline
import Model.Online.Run
/-!
# Several `configure()` calls of one env.py run (the multidb template), offline

`EnvironmentContext.configure` writes into `self.context_opts`, one dict shared by every call of
the run (`Model.Online.configureCall`): `transactional_ddl` is overwritten only when the argument
is given, `transaction_per_migration` always.  The context a call makes reads the dict.
-/
namespace Model.Txn
open Model.Online (ConfigureArgs CtxOpts configureCall configureAll effective)

/-- the configuration of the context the last of several `configure()` calls of one env.py run makes,
    for a dialect whose own `transactional_ddl` is `dflt` -/
def lastCfg (dflt : Bool) (calls : List ConfigureArgs) (a : ConfigureArgs) : Cfg :=
  let e := effective dflt (configureAll {} (calls ++ [a]))
  { tddl := e.1, perMig := e.2 }

end Model.Txn
