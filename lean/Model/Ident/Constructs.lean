import Model.Ident.Quote
/-!
# Every DDL construct Alembic compiles itself (`alembic/ddl/{base,mysql,mssql,oracle,postgresql,sqlite}.py`)
as a function to the statement text, mirroring the `@compiles` visitors *as they are*
(MSSQL: names embedded in `'…'` literals go through `_quote_in_literal`).
Type, default, comment-literal and column-specification texts are rendered by SQLAlchemy and
are opaque parameters here.
-/
namespace Model.Ident

/-- table name + optional schema (`AlterTable.table_name`, `.schema`) -/
structure Tgt where
  t : Name
  schema : Option Name := none
  deriving DecidableEq, Repr

/-- arguments of `alembic.ddl.mysql._mysql_colspec`, texts already rendered -/
structure ColSpec where
  ty : Str
  nullable : Bool
  autoinc : Bool := false
  default : Option Str := none
  comment : Option Str := none
  deriving DecidableEq, Repr

inductive DropKind | check | fk | pk | unique
  deriving DecidableEq, Repr

inductive Construct
  | renameTable (g : Tgt) (new : Name)
  | addColumn (g : Tgt) (col : Name) (spec : Str)
  | dropColumn (g : Tgt) (col : Name)
  | columnNullable (g : Tgt) (col : Name) (nullable : Bool) (existingType : Str)
  | columnType (g : Tgt) (col : Name) (ty : Str) (usng : Option Str)
  | columnName (g : Tgt) (col new : Name)
  | columnDefault (g : Tgt) (col : Name) (default : Option Str)
  | columnComment (g : Tgt) (col : Name) (comment : Option Str)
  | identity (g : Tgt) (col : Name) (tail : Str)
  | mysqlAlterDefault (g : Tgt) (col : Name) (default : Option Str)
  | mysqlModify (g : Tgt) (col : Name) (cs : ColSpec)
  | mysqlChange (g : Tgt) (col new : Name) (cs : ColSpec)
  | mysqlDropConstraint (g : Tgt) (cname : Name) (kind : DropKind)
  | mssqlDropConstraint (g : Tgt) (col : Str) (type_ : Str)
  | mssqlDropFK (g : Tgt) (col : Str)
  deriving Repr

section
variable (k : Kind) (r : Str → Bool)

/-- `mssql._quote_in_literal`: `str(value).replace("'", "''")` -/
def quoteInLiteral (s : Str) : Str := escapeClose '\'' s

/-- SQLAlchemy's `preparer.format_table`: the schema is quoted as ONE name (no splitting on dots) -/
def formatTableSA (name : Name) (schema : Option Name) : Str :=
  match schemaGiven schema with
  | some s => quoteName k r s ++ '.' :: quoteName k r name
  | none => quoteName k r name

/-- `base.alter_table` -/
def alterTable (g : Tgt) : Str := "ALTER TABLE ".toList ++ formatTableName k r g.t g.schema

/-- `base.alter_column`, overridden in `oracle.py` (`MODIFY`) -/
def alterColumn (col : Name) : Str :=
  match k with
  | .oracle => "MODIFY ".toList ++ formatColumnName k r col
  | _ => "ALTER COLUMN ".toList ++ formatColumnName k r col

/-- `mysql._mysql_colspec` -/
def mysqlColspec (cs : ColSpec) : Str :=
  cs.ty ++ (if cs.nullable then " NULL".toList else " NOT NULL".toList) ++
  (if cs.autoinc then " AUTO_INCREMENT".toList else []) ++
  (match cs.default with
   | some d => " DEFAULT ".toList ++ d
   | none => []) ++
  (match cs.comment with
   | some c => " COMMENT ".toList ++ c
   | none => [])

/-- the body shared by `mssql._exec_drop_col_constraint` and `_exec_drop_col_fk_constraint`
    after the `from …` clause -/
def mssqlDropTail (pfx : String) (g : Tgt) (col : Str) : Str :=
  ("where " ++ pfx ++ "parent_object_id = object_id('").toList ++
  (match schemaGiven g.schema with
   | some s => quoteInLiteral s.s ++ ['.']
   | none => []) ++
  quoteInLiteral g.t.s ++ "')\nand col_name(".toList ++ pfx.toList ++ "parent_object_id, ".toList ++ pfx.toList ++
  "parent_column_id) = '".toList ++ quoteInLiteral col ++
  "'\nexec('alter table ".toList ++ quoteInLiteral (formatTableName k r g.t g.schema) ++
  " drop constraint ' + @const_name)".toList

/-- The text returned by the `@compiles` visitor selected for dialect `k`
    (`none`: the construct has no visitor on that dialect / the visitor raises). -/
def render : Construct → Option Str
  | .renameTable g new =>
    match k with
    | .mssql => some ("EXEC sp_rename '".toList ++ quoteInLiteral (formatTableName k r g.t g.schema) ++ "', ".toList ++
                      formatTableName k r new none)
    | .mysql | .mariadb =>   -- base visitor: the new name is schema-qualified as well
      some (alterTable k r g ++ " RENAME TO ".toList ++ formatTableName k r new g.schema)
    | _ => some (alterTable k r g ++ " RENAME TO ".toList ++ formatTableName k r new none)
  | .addColumn g col spec =>
    match k with
    | .mssql | .oracle => some (alterTable k r g ++ " ADD ".toList ++ formatColumnName k r col ++ ' ' :: spec)
    | _ => some (alterTable k r g ++ " ADD COLUMN ".toList ++ formatColumnName k r col ++ ' ' :: spec)
  | .dropColumn g col => some (alterTable k r g ++ " DROP COLUMN ".toList ++ formatColumnName k r col)
  | .columnNullable g col nullable ety =>
    match k with
    | .mysql | .mariadb => none
    | .mssql => some (alterTable k r g ++ ' ' :: alterColumn k r col ++ ' ' :: ety ++
                      (if nullable then " NULL".toList else " NOT NULL".toList))
    | .oracle => some (alterTable k r g ++ ' ' :: alterColumn k r col ++
                       (if nullable then " NULL".toList else " NOT NULL".toList))
    | _ => some (alterTable k r g ++ ' ' :: alterColumn k r col ++
                 (if nullable then " DROP NOT NULL".toList else " SET NOT NULL".toList))
  | .columnType g col ty usng =>
    match k with
    | .mysql | .mariadb => none
    | .mssql | .oracle => some (alterTable k r g ++ ' ' :: alterColumn k r col ++ ' ' :: ty)
    | .postgresql =>   -- PostgresqlColumnType: "%s %s %s %s" with an empty last piece when no USING
      some (alterTable k r g ++ ' ' :: alterColumn k r col ++ " TYPE ".toList ++ ty ++ ' ' ::
            (match usng with
             | some u => if u.isEmpty then [] else "USING ".toList ++ u
             | none => []))
    | .sqlite => some (alterTable k r g ++ ' ' :: alterColumn k r col ++ " TYPE ".toList ++ ty)
  | .columnName g col new =>
    match k with
    | .mysql | .mariadb => none
    | .mssql => some ("EXEC sp_rename '".toList ++ quoteInLiteral (formatTableName k r g.t g.schema) ++ '.' ::
                      quoteInLiteral (formatColumnName k r col) ++ "', ".toList ++ formatColumnName k r new ++
                      ", 'COLUMN'".toList)
    | .postgresql => some (alterTable k r g ++ " RENAME ".toList ++ formatColumnName k r col ++
                           " TO ".toList ++ formatColumnName k r new)
    | _ => some (alterTable k r g ++ " RENAME COLUMN ".toList ++ formatColumnName k r col ++
                 " TO ".toList ++ formatColumnName k r new)
  | .columnDefault g col default =>
    match k with
    | .mysql | .mariadb => none
    | .mssql =>
      match default with
      | some d => some (alterTable k r g ++ " ADD DEFAULT ".toList ++ d ++ " FOR ".toList ++ formatColumnName k r col)
      | none => none
    | .oracle => some (alterTable k r g ++ ' ' :: alterColumn k r col ++
                       (match default with
                        | some d => " DEFAULT ".toList ++ d
                        | none => " DEFAULT NULL".toList))
    | _ => some (alterTable k r g ++ ' ' :: alterColumn k r col ++
                 (match default with
                  | some d => " SET DEFAULT ".toList ++ d
                  | none => " DROP DEFAULT".toList))
  | .columnComment g col comment =>
    match k with
    | .postgresql =>
      some ("COMMENT ON COLUMN ".toList ++ formatTableName k r g.t g.schema ++ '.' :: formatColumnName k r col ++
            " IS ".toList ++ (match comment with | some c => c | none => "NULL".toList))
    | .oracle =>   -- the comment is always rendered (`''` for None)
      some ("COMMENT ON COLUMN ".toList ++ formatTableName k r g.t g.schema ++ '.' :: formatColumnName k r col ++
            " IS ".toList ++ (match comment with | some c => c | none => "''".toList))
    | _ => none
  | .identity g col tail =>
    match k with
    | .postgresql | .oracle => some (alterTable k r g ++ ' ' :: alterColumn k r col ++ ' ' :: tail)
    | _ => none
  | .mysqlAlterDefault g col default =>
    match k with
    | .mysql | .mariadb =>
      some (alterTable k r g ++ " ALTER COLUMN ".toList ++ formatColumnName k r col ++
            (match default with
             | some d => " SET DEFAULT ".toList ++ d
             | none => " DROP DEFAULT".toList))
    | _ => none
  | .mysqlModify g col cs =>
    match k with
    | .mysql | .mariadb =>
      some (alterTable k r g ++ " MODIFY ".toList ++ formatColumnName k r col ++ ' ' :: mysqlColspec cs)
    | _ => none
  | .mysqlChange g col new cs =>
    match k with
    | .mysql | .mariadb =>
      some (alterTable k r g ++ " CHANGE ".toList ++ formatColumnName k r col ++ ' ' ::
            formatColumnName k r new ++ ' ' :: mysqlColspec cs)
    | _ => none
  | .mysqlDropConstraint g cname kind =>
    let tbl := formatTableSA k r g.t g.schema
    match k, kind with
    | .mysql, .check => some ("ALTER TABLE ".toList ++ tbl ++ " DROP CHECK ".toList ++ quoteName k r cname)
    | .mariadb, .check => some ("ALTER TABLE ".toList ++ tbl ++ " DROP CONSTRAINT ".toList ++ quoteName k r cname)
    | .mysql, .fk | .mariadb, .fk =>
      some ("ALTER TABLE ".toList ++ tbl ++ " DROP FOREIGN KEY ".toList ++ quoteName k r cname)
    | .mysql, .unique | .mariadb, .unique =>
      some ("ALTER TABLE ".toList ++ tbl ++ " DROP INDEX ".toList ++ quoteName k r cname)
    | .mysql, .pk | .mariadb, .pk => some ("ALTER TABLE ".toList ++ tbl ++ " DROP PRIMARY KEY ".toList)
    | _, _ => none
  | .mssqlDropConstraint g col type_ =>
    match k with
    | .mssql =>
      some ("declare @const_name varchar(256)\nselect @const_name = QUOTENAME([name]) from ".toList ++ type_ ++
            '\n' :: mssqlDropTail k r "" g col)
    | _ => none
  | .mssqlDropFK g col =>
    match k with
    | .mssql =>
      some (("declare @const_name varchar(256)\nselect @const_name = QUOTENAME([name]) from\n" ++
             "sys.foreign_keys fk join sys.foreign_key_columns fkc\n" ++
             "on fk.object_id=fkc.constraint_object_id\n").toList ++ mssqlDropTail k r "fkc." g col)
    | _ => none

end

/-- `impl.command_terminator` -/
def terminator : Kind → Str
  | .oracle => []
  | _ => [';']

def expandTabs : Str → Str
  | [] => []
  | c :: r => if c == '\t' then ' ' :: ' ' :: ' ' :: ' ' :: expandTabs r else c :: expandTabs r

def stripR (s : Str) : Str := (s.reverse.dropWhile isPySpace).reverse
def strip (s : Str) : Str := stripR (s.dropWhile isPySpace)

/-- What `DefaultImpl._exec` writes in `as_sql` mode for a compiled statement `s`:
    `str(compiled).replace("\t", "    ").strip() + self.command_terminator` -/
def emit (k : Kind) (s : Str) : Str := strip (expandTabs s) ++ terminator k

end Model.Ident
