/-!
# Identifier quoting as SQLAlchemy's `IdentifierPreparer` does it, and the name-formatting
helpers of `alembic/ddl/base.py` (`quote_dotted`, `format_table_name`, `format_column_name`).

Everything is over `List Char` (`Str`).  The per-dialect constants below (delimiters, escape
character, `%` doubling, illegal initial characters) are re-validated against the live
dialect objects on every run of the check (`ident.params`); the reserved-word set is a
parameter `reserved : Str → Bool` ("the lower-cased name is in `preparer.reserved_words`").
-/
namespace Model.Ident

abbrev Str := List Char

inductive Kind
  | sqlite | postgresql | mysql | mariadb | mssql | oracle
  deriving DecidableEq, Repr

/-- `preparer.initial_quote` -/
def openQ : Kind → Char
  | .mysql => '`'
  | .mariadb => '`'
  | .mssql => '['
  | _ => '"'

/-- `preparer.final_quote` -/
def closeQ : Kind → Char
  | .mysql => '`'
  | .mariadb => '`'
  | .mssql => ']'
  | _ => '"'

/-- `preparer._double_percents` (paramstyle `format`/`pyformat`) *and* `_escape_identifier`
    not overridden (MSSQL overrides it and never doubles `%`). -/
def dblPercent : Kind → Bool
  | .postgresql => true
  | .mysql => true
  | .mariadb => true
  | _ => false

/-- `value[0] in preparer.illegal_initial_characters` -/
def illegalInitial (k : Kind) (c : Char) : Bool :=
  c.isDigit || c == '$' || (k == .oracle && c == '_')

/-- one character of `LEGAL_CHARACTERS = re.compile(r"^[A-Z0-9_$]+$", re.I)`; with `re.I` on a
    `str` pattern the class `[A-Z]` also matches U+0130, U+0131, U+017F and U+212A. -/
def isLegalChar (c : Char) : Bool :=
  c.isAlphanum || c == '_' || c == '$' ||
  c == '\u0130' || c == '\u0131' || c == '\u017f' || c == '\u212a'

/-- `legal_characters.match(value)`: one or more legal characters; Python's `$` also matches just
    before one trailing newline. -/
def legalChars : Str → Bool
  | [] => false
  | [c] => isLegalChar c
  | [c, '\n'] => isLegalChar c
  | c :: r => isLegalChar c && legalChars r

/-- `value.lower() != value` restricted to the characters that can pass `legalChars`. -/
def isUpperCh (c : Char) : Bool := c.isUpper || c == '\u0130' || c == '\u212a'

def hasUpper (n : Str) : Bool := n.any isUpperCh

/-- `IdentifierPreparer._requires_quotes` (the empty name raises `IndexError` in Python; the
    driver reports that case as an error before calling the model). -/
def requiresQuotes (k : Kind) (reserved : Str → Bool) (n : Str) : Bool :=
  reserved n ||
  (match n with
   | [] => true
   | c :: _ => illegalInitial k c) ||
  !legalChars n || hasUpper n

/-- `value.replace(q, q + q)` -/
def escapeClose (q : Char) : Str → Str
  | [] => []
  | c :: r => if c == q then q :: q :: escapeClose q r else c :: escapeClose q r

/-- `value.replace("%", "%%")` -/
def dblPct : Str → Str
  | [] => []
  | c :: r => if c == '%' then '%' :: '%' :: dblPct r else c :: dblPct r

/-- `preparer._escape_identifier` -/
def escapeIdent (k : Kind) (n : Str) : Str :=
  if dblPercent k then dblPct (escapeClose (closeQ k) n) else escapeClose (closeQ k) n

/-- `preparer.quote_identifier` -/
def quoteIdent (k : Kind) (n : Str) : Str := openQ k :: (escapeIdent k n ++ [closeQ k])

/-- `preparer.quote` for a plain `str` -/
def quote (k : Kind) (reserved : Str → Bool) (n : Str) : Str :=
  if requiresQuotes k reserved n then quoteIdent k n else n

/-- A name as the visitors receive it: a plain `str` (`qn = none`) or
    `sqlalchemy.sql.elements.quoted_name(s, quote=q)` (`qn = some q`). -/
structure Name where
  s : Str
  qn : Option (Option Bool) := none
  deriving DecidableEq, Repr

/-- `preparer.quote(name)` honouring `quoted_name.quote` -/
def quoteName (k : Kind) (reserved : Str → Bool) (n : Name) : Str :=
  match n.qn with
  | some (some true) => quoteIdent k n.s
  | some (some false) => n.s
  | _ => quote k reserved n.s

/-- `str.split(".")` (always non-empty) -/
def splitDot : Str → List Str
  | [] => [[]]
  | c :: r =>
    match splitDot r with
    | [] => [[c]]
    | p :: ps => if c == '.' then [] :: p :: ps else (c :: p) :: ps

/-- `".".join(parts)` -/
def joinDot : List Str → Str
  | [] => []
  | [p] => p
  | p :: ps => p ++ '.' :: joinDot ps

/-- `alembic.ddl.base.quote_dotted` -/
def quoteDotted (k : Kind) (reserved : Str → Bool) (n : Name) : Str :=
  match n.qn with
  | some _ => quoteName k reserved n
  | none => joinDot ((splitDot n.s).map (quote k reserved))

/-- Python truthiness of `schema` in `if schema:` -/
def schemaGiven : Option Name → Option Name
  | some n => if n.s.isEmpty then none else some n
  | none => none

/-- `alembic.ddl.base.format_table_name` -/
def formatTableName (k : Kind) (reserved : Str → Bool) (name : Name) (schema : Option Name) : Str :=
  match schemaGiven schema with
  | some s => quoteDotted k reserved s ++ '.' :: quoteName k reserved name
  | none => quoteName k reserved name

/-- `alembic.ddl.base.format_column_name` -/
def formatColumnName (k : Kind) (reserved : Str → Bool) (name : Name) : Str := quoteName k reserved name

/-- A correctly escaped SQL string literal for `s` (single quotes doubled).  Alembic's MSSQL visitors
    do NOT do this (they write `'` ++ s ++ `'`); this is the candidate fix referred to by F7. -/
def sqlLiteral (s : Str) : Str := '\'' :: (escapeClose '\'' s ++ ['\''])

/-- Python `str.isspace` for one character (used by `str.strip()` in `DefaultImpl._exec`) -/
def isPySpace (c : Char) : Bool :=
  c == ' ' || (9 ≤ c.val && c.val ≤ 13) || (28 ≤ c.val && c.val ≤ 31) || c.val == 0x85 || c.val == 0xa0 ||
  c.val == 0x1680 || (0x2000 ≤ c.val && c.val ≤ 0x200a) || c.val == 0x2028 || c.val == 0x2029 ||
  c.val == 0x202f || c.val == 0x205f || c.val == 0x3000

end Model.Ident
