import Model.Py.Ast
/-!
# The renderers of `alembic/autogenerate/render.py`

`renderOp : Ctx → Op → PyAst` mirrors, renderer by renderer, how an operation object is turned
into the text of an `op.<directive>(…)` call: which arguments are positional, which keyword
arguments appear under which condition (`if schema:` = truthiness, `is not None`, `is not
False`), how names are embedded (`%r` = `PyAst.str`; every renderer uses `%r` since the F8 fix,
`PyAst.sq` = the naive `'%s'` embedding is no longer produced), the
`op.f()` wrapper of `_render_gen_name` for `conv` names, the batch / non-batch templates,
and the white space (`Layout`).

Outside the model (opaque `PyAst` values supplied with the operation): what SQLAlchemy
renders, i.e. `repr(type)`, server-default expressions (`_render_server_default`,
`_render_potential_expr` → `sa.text('…')`), dialect keyword values.
-/
namespace Model.Render
open Model.Py

def S (s : String) : List Char := s.toList

abbrev Str := List Char
abbrev Kw := List (Str × PyAst)

structure Ctx where
  /-- `autogen_context._has_batch` -/
  batch : Bool
  /-- `alembic_module_prefix` (`op.`) -/
  opPrefix : Str
  /-- `sqlalchemy_module_prefix` (`sa.`) -/
  saPrefix : Str
  /-- `str.isprintable` for non-ASCII code points (parameter of `repr`) -/
  isP : Char → Bool

/-- `_alembic_autogenerate_prefix` -/
def Ctx.op (c : Ctx) : Str := if c.batch then S "batch_op." else c.opPrefix

/-- a constraint / index name as `_render_gen_name` sees it -/
inductive GenName where
  | none
  | plain (s : Str)
  | conv (s : Str)      -- `sqlalchemy.sql.elements.conv`: produced by a naming convention
  deriving DecidableEq, Repr

def pos (v : PyAst) : Item := (none, v)
def kw (k : String) (v : PyAst) : Item := (some (S k), v)
def pyNone : PyAst := .name (S "None")
def pyBool (b : Bool) : PyAst := .name (S (if b then "True" else "False"))
def strList (l : List Str) : PyAst := .list (l.map fun s => pos (.str s))
def kwItems (l : Kw) : List Item := l.map fun p => (some p.1, p.2)

/-- Python truthiness of an optional string (`if op.schema:`) -/
def truthy : Option Str → Option Str
  | some (c :: r) => some (c :: r)
  | _ => none

def optItem (k : String) : Option PyAst → List Item
  | some v => [kw k v]
  | none => []

/-- `repr(_render_gen_name(ctx, name))` -/
def genName (c : Ctx) : GenName → PyAst
  | .none => pyNone
  | .plain s => .str s
  | .conv s => .call (c.op ++ S "f") Layout.inline [pos (.str s)]

/-- `if constraint.name:` then `name=repr(_render_gen_name(..))` -/
def genNameOpt (c : Ctx) : GenName → List Item
  | .none => []
  | .plain [] => []
  | n => [kw "name" (genName c n)]

/-! ## columns and the constraints inside `create_table` -/

structure Col where
  name : Str
  type : PyAst
  /-- rendered server default, `none` when absent or rendered falsy -/
  sdefault : Option PyAst
  /-- Computed / Identity are positional -/
  sdPositional : Bool
  /-- `autoincrement`, when not `"auto"` -/
  autoinc : Option PyAst
  nullable : Option Bool
  system : Bool
  comment : Option Str
  kwargs : Kw

/-- `_render_column` -/
def renderCol (c : Ctx) (col : Col) : PyAst :=
  let args : List Item := match col.sdefault, col.sdPositional with
    | some d, true => [pos d]
    | _, _ => []
  let opts : List Item :=
    (match col.sdefault, col.sdPositional with
      | some d, false => [kw "server_default" d]
      | _, _ => []) ++
    optItem "autoincrement" col.autoinc ++
    optItem "nullable" (col.nullable.map pyBool) ++
    (if col.system then [kw "system" (pyBool true)] else []) ++
    optItem "comment" ((truthy col.comment).map .str) ++
    kwItems col.kwargs
  .call (c.saPrefix ++ S "Column") ⟨[], [' '], [], opts.isEmpty⟩
    ([pos (.str col.name), pos col.type] ++ args ++ opts)

inductive Cons where
  | pk (name : GenName) (cols : List Str)
  | fk (name : GenName) (cols refcols : List Str) (opts : Kw)
  | uq (name : GenName) (cols : List Str) (deferrable initially : Option PyAst) (kwargs : Kw)
  | ck (name : GenName) (sqltext : Str)

/-- `_render_primary_key`, `_render_foreign_key`, `_uq_constraint(alter=False)`, `_render_check_constraint`;
`none` = not rendered (`if not constraint.columns: return None`) -/
def renderCons (c : Ctx) : Cons → Option PyAst
  | .pk _ [] => none
  | .pk n cols => some (.call (c.saPrefix ++ S "PrimaryKeyConstraint") Layout.inline
      (cols.map (fun s => pos (.str s)) ++ genNameOpt c n))
  | .fk n cols refcols opts =>
    let o := genNameOpt c n ++ kwItems opts
    some (.call (c.saPrefix ++ S "ForeignKeyConstraint") ⟨[], [' '], [], o.isEmpty⟩
      ([pos (strList cols), pos (strList refcols)] ++ o))
  | .uq n cols d i kws => some (.call (c.saPrefix ++ S "UniqueConstraint") Layout.inline
      (cols.map (fun s => pos (.str s)) ++ optItem "deferrable" d ++ optItem "initially" i ++
        genNameOpt c n ++ kwItems kws))
  | .ck n sqltext => some (.call (c.saPrefix ++ S "CheckConstraint") Layout.inline
      ([pos (.str sqltext)] ++ genNameOpt c n))

/-- Python's `str` ordering (code points, lexicographic) -/
def ltChars : List Char → List Char → Bool
  | [], [] => false
  | [], _ :: _ => true
  | _ :: _, [] => false
  | a :: r, b :: s => if a.toNat < b.toNat then true else if b.toNat < a.toNat then false else ltChars r s

def insertBy (key : PyAst → List Char) (x : PyAst) : List PyAst → List PyAst
  | [] => [x]
  | y :: r => if ltChars (key x) (key y) then x :: y :: r else y :: insertBy key x r

/-- `sorted(rendered constraint strings)` (insertion sort from the right: stable) -/
def sortBy (key : PyAst → List Char) : List PyAst → List PyAst
  | [] => []
  | x :: r => insertBy key x (sortBy key r)

/-! ## operations -/

structure Alter where
  table : Str
  column : Str
  schema : Option Str
  existingType : Option PyAst
  /-- `modify_server_default`: `none` = `False` (untouched), `some none` = `None`, `some (some d)` = rendered -/
  serverDefault : Option (Option PyAst)
  newName : Option Str
  type_ : Option PyAst
  nullable : Option Bool
  /-- `modify_comment`: `none` = `False` (untouched), `some none` = `None` -/
  comment : Option (Option Str)
  existingComment : Option Str
  existingNullable : Option Bool
  autoinc : Option PyAst
  /-- rendered `existing_server_default` when truthy -/
  existingServerDefault : Option PyAst

structure FKKw where
  sourceSchema : Option PyAst
  referentSchema : Option PyAst
  onupdate : Option PyAst
  ondelete : Option PyAst
  initially : Option PyAst
  deferrable : Option PyAst
  useAlter : Option PyAst
  match_ : Option PyAst

inductive IdxElem where
  | col (name : Str)
  | expr (e : PyAst)

inductive Op where
  | createTable (name : Str) (schema : Option Str) (cols : List Col) (cons : List Cons)
      (comment : Option Str) (kws : Kw) (ifNotExists : Option Bool)
  | dropTable (name : Str) (schema : Option Str) (ifExists : Option Bool)
  | addColumn (table : Str) (schema : Option Str) (col : Col)
  | dropColumn (table : Str) (schema : Option Str) (col : Str)
  | alterColumn (a : Alter)
  | createIndex (name : GenName) (table : Str) (schema : Option Str) (elems : List IdxElem)
      (unique : Bool) (kws : Kw) (ifNotExists : Option Bool)
  | dropIndex (name : GenName) (table : Str) (schema : Option Str) (kws : Kw) (ifExists : Option Bool)
  | createUnique (name : GenName) (table : Str) (schema : Option Str) (cols : List Str)
      (deferrable initially : Option PyAst) (kws : Kw)
  | createFK (name : GenName) (source referent : Str) (lcols rcols : List Str) (k : FKKw)
  | dropConstraint (name : GenName) (table : Str) (schema : Option Str) (type_ : Option Str)
  | createTableComment (table : Str) (comment existing schema : Option Str)
  | dropTableComment (table : Str) (existing schema : Option Str)

def optStr : Option Str → PyAst
  | some s => .str s
  | none => pyNone

def schemaKw (schema : Option Str) : List Item := optItem "schema" ((truthy schema).map .str)

def alterLayout : Layout := ⟨[], '\n' :: List.replicate 11 ' ', [], false⟩
def tableLayout : Layout := ⟨[], ['\n'], ['\n'], false⟩
def commentLayout : Layout := ⟨'\n' :: List.replicate 4 ' ', '\n' :: List.replicate 4 ' ', ['\n'], false⟩

def idxElem : IdxElem → Item
  | .col n => pos (.str n)
  | .expr e => pos e

def renderOp (c : Ctx) : Op → PyAst
  | .createTable name schema cols cons comment kws ine =>
    -- _add_table
    .call (c.op ++ S "create_table") tableLayout
      ([pos (.str name)] ++ (cols.map fun col => pos (renderCol c col)) ++
        ((sortBy (pp c.isP) (cons.filterMap (renderCons c))).map pos) ++
        schemaKw schema ++ optItem "comment" ((truthy comment).map .str) ++ kwItems kws ++
        optItem "if_not_exists" (ine.map pyBool))
  | .dropTable name schema ie =>
    -- _drop_table
    .call (c.op ++ S "drop_table") Layout.inline
      ([pos (.str name)] ++ schemaKw schema ++ optItem "if_exists" (ie.map pyBool))
  | .addColumn table schema col =>
    -- _add_column
    if c.batch then .call (c.op ++ S "add_column") Layout.inline [pos (renderCol c col)]
    else .call (c.op ++ S "add_column") Layout.inline ([pos (.str table), pos (renderCol c col)] ++ schemaKw schema)
  | .dropColumn table schema col =>
    -- _drop_column
    if c.batch then .call (c.op ++ S "drop_column") Layout.inline [pos (.str col)]
    else .call (c.op ++ S "drop_column") Layout.inline ([pos (.str table), pos (.str col)] ++ schemaKw schema)
  | .alterColumn a =>
    -- _alter_column
    .call (c.op ++ S "alter_column") alterLayout
      ((if c.batch then [pos (.str a.column)] else [pos (.str a.table), pos (.str a.column)]) ++
        optItem "existing_type" a.existingType ++
        (match a.serverDefault with
          | none => []
          | some none => [kw "server_default" pyNone]
          | some (some d) => [kw "server_default" d]) ++
        optItem "new_column_name" (a.newName.map .str) ++
        optItem "type_" a.type_ ++
        optItem "nullable" (a.nullable.map pyBool) ++
        (match a.comment with
          | none => []
          | some cm => [kw "comment" (optStr cm)]) ++
        optItem "existing_comment" (a.existingComment.map .str) ++
        (if a.nullable.isNone then optItem "existing_nullable" (a.existingNullable.map pyBool) else []) ++
        optItem "autoincrement" a.autoinc ++
        (if a.serverDefault.isNone then optItem "existing_server_default" a.existingServerDefault else []) ++
        (if c.batch then [] else schemaKw a.schema))
  | .createIndex name table schema elems unique kws ine =>
    -- _add_index
    let cols : PyAst := .list (elems.map idxElem)
    let tail := [kw "unique" (pyBool unique)] ++ (if c.batch then [] else schemaKw schema) ++ kwItems kws ++
      optItem "if_not_exists" (ine.map pyBool)
    if c.batch then .call (c.op ++ S "create_index") Layout.inline ([pos (genName c name), pos cols] ++ tail)
    else .call (c.op ++ S "create_index") Layout.inline ([pos (genName c name), pos (.str table), pos cols] ++ tail)
  | .dropIndex name table schema kws ie =>
    -- _drop_index
    if c.batch then .call (c.op ++ S "drop_index") Layout.inline
      ([pos (genName c name)] ++ kwItems kws ++ optItem "if_exists" (ie.map pyBool))
    else .call (c.op ++ S "drop_index") Layout.inline
      ([pos (genName c name), kw "table_name" (.str table)] ++ schemaKw schema ++ kwItems kws ++
        optItem "if_exists" (ie.map pyBool))
  | .createUnique name table schema cols d i kws =>
    -- _uq_constraint(alter=True)
    .call (c.op ++ S "create_unique_constraint") Layout.inline
      ([pos (genName c name)] ++ (if c.batch then [] else [pos (.str table)]) ++ [pos (strList cols)] ++
        optItem "deferrable" d ++ optItem "initially" i ++ (if c.batch then [] else schemaKw schema) ++ kwItems kws)
  | .createFK name source referent lcols rcols k =>
    -- _add_fk_constraint
    .call (c.op ++ S "create_foreign_key") Layout.inline
      ([pos (genName c name)] ++ (if c.batch then [] else [pos (.str source)]) ++
        [pos (.str referent), pos (strList lcols), pos (strList rcols)] ++
        (if c.batch then [] else optItem "source_schema" k.sourceSchema) ++
        optItem "referent_schema" k.referentSchema ++ optItem "onupdate" k.onupdate ++
        optItem "ondelete" k.ondelete ++ optItem "initially" k.initially ++
        optItem "deferrable" k.deferrable ++ optItem "use_alter" k.useAlter ++ optItem "match" k.match_)
  | .dropConstraint name table schema type_ =>
    -- _drop_constraint
    .call (c.op ++ S "drop_constraint") Layout.inline
      ([pos (genName c name)] ++ (if c.batch then [] else [pos (.str table)] ++ schemaKw schema) ++
        optItem "type_" ((truthy type_).map .str))
  | .createTableComment table comment existing schema =>
    -- _render_create_table_comment: `"%r" % _ident(op.table_name)`, `"%r" % _ident(op.schema) if op.schema is not None else None`
    if c.batch then .call (c.op ++ S "create_table_comment") commentLayout
      [pos (optStr comment), kw "existing_comment" (optStr existing)]
    else .call (c.op ++ S "create_table_comment") commentLayout
      [pos (.str table), pos (optStr comment), kw "existing_comment" (optStr existing), kw "schema" (optStr schema)]
  | .dropTableComment table existing schema =>
    -- _render_drop_table_comment
    if c.batch then .call (c.op ++ S "drop_table_comment") commentLayout
      [kw "existing_comment" (optStr existing)]
    else .call (c.op ++ S "drop_table_comment") commentLayout
      [pos (.str table), kw "existing_comment" (optStr existing), kw "schema" (optStr schema)]

/-! ## containers: `_render_modify_table` -/

inductive Top where
  | single (o : Op)
  | modify (table : Str) (schema : Option Str) (ops : List Op)

inductive Line where
  | expr (e : PyAst)
  /-- `with <call> as batch_op:` -/
  | withBatch (e : PyAst)
  | blank

/-- the call in the header `with op.batch_alter_table(%r, schema=%r) as batch_op:` -/
def batchHeader (c : Ctx) (table : Str) (schema : Option Str) : PyAst :=
  .call (c.opPrefix ++ S "batch_alter_table") Layout.inline [pos (.str table), kw "schema" (optStr schema)]

/-- `render_op` of a top-level operation; `asBatch` = `render_as_batch` -/
def renderTop (c : Ctx) (asBatch : Bool) : Top → List Line
  | .single o => [.expr (renderOp { c with batch := false } o)]
  | .modify _ _ [] => []
  | .modify table schema ops =>
    if asBatch then
      [.withBatch (batchHeader c table schema)] ++ ops.map (fun o => .expr (renderOp { c with batch := true } o)) ++ [.blank]
    else ops.map (fun o => .expr (renderOp { c with batch := false } o))

def ppLine (isP : Char → Bool) : Line → List Char
  | .expr e => pp isP e
  | .withBatch e => S "with " ++ pp isP e ++ S " as batch_op:"
  | .blank => []

/-- `render_op_text`: lines joined by `\n` -/
def joinLines : List (List Char) → List Char
  | [] => []
  | [l] => l
  | l :: r => l ++ '\n' :: joinLines r

def renderText (c : Ctx) (asBatch : Bool) (t : Top) : List Char :=
  joinLines ((renderTop c asBatch t).map (ppLine c.isP))

/-- the expressions whose syntax matters -/
def lineAsts : List Line → List PyAst
  | [] => []
  | .expr e :: r => e :: lineAsts r
  | .withBatch e :: r => e :: lineAsts r
  | .blank :: r => lineAsts r

end Model.Render
