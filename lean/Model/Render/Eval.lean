import Model.Render.Ops
/-!
# Evaluating a rendered call: what `Operations.<directive>(…)` builds from the arguments

`evalCall` binds the positional and keyword arguments of a rendered call the way the
`ops.*Op.<classmethod>` constructors behind `op.<directive>` / `batch_op.<directive>` do and
returns the operation. It inspects only the structure (function name, positional order,
keyword names); layouts are ignored, opaque fragments are copied.

In batch mode the table name and the schema are not arguments: `BatchOperations` supplies
them from the `with op.batch_alter_table(table, schema=…)` header (`ECtx.table/schema`).
-/
namespace Model.Render
open Model.Py

def posArgs : List Item → List PyAst
  | [] => []
  | (none, v) :: r => v :: posArgs r
  | (some _, _) :: r => posArgs r

def kwArg (n : Str) : List Item → Option PyAst
  | [] => none
  | (none, _) :: r => kwArg n r
  | (some k, v) :: r => if k = n then some v else kwArg n r

/-- the keyword arguments whose name is not one of `known`, in order (`**kw`) -/
def otherKw (known : List Str) : List Item → Kw
  | [] => []
  | (none, _) :: r => otherKw known r
  | (some k, v) :: r => if known.contains k then otherKw known r else (k, v) :: otherKw known r

def stripPrefix (p : Str) (w : Str) : Option Str :=
  if p.isPrefixOf w then some (w.drop p.length) else none

structure ECtx where
  c : Ctx
  /-- `with op.batch_alter_table(table, schema=schema) as batch_op:` -/
  table : Str
  schema : Option Str

def evalStr : PyAst → Option Str
  | .str s => some s
  | _ => none

/-- `None` or a string -/
def evalOptStr : PyAst → Option (Option Str)
  | .str s => some (some s)
  | .name n => if n = S "None" then some none else none
  | _ => none

def evalBool : PyAst → Option Bool
  | .name n => if n = S "True" then some true else if n = S "False" then some false else none
  | _ => none

def evalStrList : PyAst → Option (List Str)
  | .list items => items.mapM fun p => match p with
    | (none, .str s) => some s
    | _ => none
  | _ => none

/-- a constraint / index name: `None`, a string, or `op.f('name')` -/
def evalGenName (c : Ctx) : PyAst → Option GenName
  | .str s => some (.plain s)
  | .name n => if n = S "None" then some .none else none
  | .call fn _ [(none, .str s)] => if fn = c.op ++ S "f" then some (.conv s) else none
  | _ => none

/-- optional keyword argument read with `f` -/
def kwOptV {α : Type} (v : Option PyAst) (f : PyAst → Option α) : Option (Option α) :=
  match v with
  | none => some none
  | some v => (f v).map some

def kwOpt {α : Type} (items : List Item) (n : String) (f : PyAst → Option α) : Option (Option α) :=
  kwOptV (kwArg (S n) items) f

end Model.Render

namespace Model.Render
open Model.Py

inductive Directive where
  | createTable | dropTable | addColumn | dropColumn | alterColumn | createIndex | dropIndex
  | createUnique | createFK | dropConstraint | createTableComment | dropTableComment
  deriving DecidableEq, Repr

def directiveOf (w : Str) : Option Directive :=
  if w = S "create_table" then some .createTable
  else if w = S "drop_table" then some .dropTable
  else if w = S "add_column" then some .addColumn
  else if w = S "drop_column" then some .dropColumn
  else if w = S "alter_column" then some .alterColumn
  else if w = S "create_index" then some .createIndex
  else if w = S "drop_index" then some .dropIndex
  else if w = S "create_unique_constraint" then some .createUnique
  else if w = S "create_foreign_key" then some .createFK
  else if w = S "drop_constraint" then some .dropConstraint
  else if w = S "create_table_comment" then some .createTableComment
  else if w = S "drop_table_comment" then some .dropTableComment
  else none

def evalIdxElems : PyAst → Option (List IdxElem)
  | .list items => items.mapM fun p => match p with
    | (none, .str n) => some (.col n)
    | (none, e) => some (.expr e)
    | _ => none
  | _ => none

def evalDropTable (items : List Item) : Option Op :=
  match posArgs items with
  | [.str name] => do
    let schema ← kwOpt items "schema" evalStr
    let ie ← kwOpt items "if_exists" evalBool
    pure (.dropTable name schema ie)
  | _ => none

def evalDropColumn (ec : ECtx) (items : List Item) : Option Op :=
  if ec.c.batch then
    match posArgs items with
    | [.str col] => some (.dropColumn ec.table ec.schema col)
    | _ => none
  else
    match posArgs items with
    | [.str table, .str col] => do
      let schema ← kwOpt items "schema" evalStr
      pure (.dropColumn table schema col)
    | _ => none

def evalDropConstraint (ec : ECtx) (items : List Item) : Option Op :=
  if ec.c.batch then
    match posArgs items with
    | [n] => do
      let name ← evalGenName ec.c n
      let ty ← kwOpt items "type_" evalStr
      pure (.dropConstraint name ec.table ec.schema ty)
    | _ => none
  else
    match posArgs items with
    | [n, .str table] => do
      let name ← evalGenName ec.c n
      let schema ← kwOpt items "schema" evalStr
      let ty ← kwOpt items "type_" evalStr
      pure (.dropConstraint name table schema ty)
    | _ => none

def evalDropIndex (ec : ECtx) (items : List Item) : Option Op :=
  match posArgs items with
  | [n] => do
    let name ← evalGenName ec.c n
    let ie ← kwOpt items "if_exists" evalBool
    if ec.c.batch then
      pure (.dropIndex name ec.table ec.schema (otherKw [S "if_exists"] items) ie)
    else do
      let table ← (kwArg (S "table_name") items).bind evalStr
      let schema ← kwOpt items "schema" evalStr
      pure (.dropIndex name table schema (otherKw [S "table_name", S "schema", S "if_exists"] items) ie)
  | _ => none

def evalCreateIndex (ec : ECtx) (items : List Item) : Option Op := do
  let unique ← (kwArg (S "unique") items).bind evalBool
  let ine ← kwOpt items "if_not_exists" evalBool
  if ec.c.batch then
    match posArgs items with
    | [n, cols] => do
      let name ← evalGenName ec.c n
      let elems ← evalIdxElems cols
      pure (.createIndex name ec.table ec.schema elems unique (otherKw [S "unique", S "if_not_exists"] items) ine)
    | _ => none
  else
    match posArgs items with
    | [n, .str table, cols] => do
      let name ← evalGenName ec.c n
      let elems ← evalIdxElems cols
      let schema ← kwOpt items "schema" evalStr
      pure (.createIndex name table schema elems unique (otherKw [S "unique", S "schema", S "if_not_exists"] items) ine)
    | _ => none

def evalCreateUnique (ec : ECtx) (items : List Item) : Option Op :=
  let d := kwArg (S "deferrable") items
  let i := kwArg (S "initially") items
  if ec.c.batch then
    match posArgs items with
    | [n, cols] => do
      let name ← evalGenName ec.c n
      let cs ← evalStrList cols
      pure (.createUnique name ec.table ec.schema cs d i (otherKw [S "deferrable", S "initially"] items))
    | _ => none
  else
    match posArgs items with
    | [n, .str table, cols] => do
      let name ← evalGenName ec.c n
      let cs ← evalStrList cols
      let schema ← kwOpt items "schema" evalStr
      pure (.createUnique name table schema cs d i (otherKw [S "deferrable", S "initially", S "schema"] items))
    | _ => none

def evalFKKw (batch : Bool) (items : List Item) : FKKw :=
  { sourceSchema := if batch then none else kwArg (S "source_schema") items,
    referentSchema := kwArg (S "referent_schema") items, onupdate := kwArg (S "onupdate") items,
    ondelete := kwArg (S "ondelete") items, initially := kwArg (S "initially") items,
    deferrable := kwArg (S "deferrable") items, useAlter := kwArg (S "use_alter") items,
    match_ := kwArg (S "match") items }

def evalCreateFK (ec : ECtx) (items : List Item) : Option Op :=
  if ec.c.batch then
    match posArgs items with
    | [n, .str referent, l, r] => do
      let name ← evalGenName ec.c n
      let lc ← evalStrList l
      let rc ← evalStrList r
      pure (.createFK name ec.table referent lc rc (evalFKKw true items))
    | _ => none
  else
    match posArgs items with
    | [n, .str source, .str referent, l, r] => do
      let name ← evalGenName ec.c n
      let lc ← evalStrList l
      let rc ← evalStrList r
      pure (.createFK name source referent lc rc (evalFKKw false items))
    | _ => none

def evalCreateTableComment (ec : ECtx) (items : List Item) : Option Op := do
  let existing ← (kwArg (S "existing_comment") items).bind evalOptStr
  if ec.c.batch then
    match posArgs items with
    | [cm] => do
      let comment ← evalOptStr cm
      pure (.createTableComment ec.table comment existing ec.schema)
    | _ => none
  else
    match posArgs items with
    | [.str table, cm] => do
      let comment ← evalOptStr cm
      let schema ← (kwArg (S "schema") items).bind evalOptStr
      pure (.createTableComment table comment existing schema)
    | _ => none

def evalDropTableComment (ec : ECtx) (items : List Item) : Option Op := do
  let existing ← (kwArg (S "existing_comment") items).bind evalOptStr
  if ec.c.batch then
    match posArgs items with
    | [] => pure (.dropTableComment ec.table existing ec.schema)
    | _ => none
  else
    match posArgs items with
    | [.str table] => do
      let schema ← (kwArg (S "schema") items).bind evalOptStr
      pure (.dropTableComment table existing schema)
    | _ => none

end Model.Render

namespace Model.Render
open Model.Py

def isPyNone : PyAst → Bool
  | .name n => n = S "None"
  | _ => false

def colKnown : List Str := [S "server_default", S "autoincrement", S "nullable", S "system", S "comment"]

/-- `sa.Column(name, type_, [Computed/Identity,] server_default=…, autoincrement=…, nullable=…, system=…, comment=…, **kw)` -/
def evalCol (c : Ctx) : PyAst → Option Col
  | .call fn _ items =>
    if fn = c.saPrefix ++ S "Column" then
      match kwOpt items "nullable" evalBool, kwOpt items "system" evalBool, kwOpt items "comment" evalStr with
      | some nullable, some system, some comment =>
        let mk (name : Str) (ty : PyAst) (sd : Option PyAst) (p : Bool) : Col :=
          { name := name, type := ty, sdefault := sd, sdPositional := p, autoinc := kwArg (S "autoincrement") items,
            nullable := nullable, system := system.getD false, comment := comment, kwargs := otherKw colKnown items }
        match posArgs items with
        | [.str name, ty] => some (mk name ty (kwArg (S "server_default") items) false)
        | [.str name, ty, d] => some (mk name ty (some d) true)
        | _ => none
      | _, _, _ => none
    else none
  | _ => none

def evalAddColumn (ec : ECtx) (items : List Item) : Option Op :=
  if ec.c.batch then
    match posArgs items with
    | [cl] => (evalCol ec.c cl).map fun col => .addColumn ec.table ec.schema col
    | _ => none
  else
    match posArgs items with
    | [.str table, cl] => do
      let col ← evalCol ec.c cl
      let schema ← kwOpt items "schema" evalStr
      pure (.addColumn table schema col)
    | _ => none

def evalAlterColumn (ec : ECtx) (items : List Item) : Option Op :=
  match kwOpt items "nullable" evalBool, kwOpt items "existing_nullable" evalBool,
        kwOpt items "new_column_name" evalStr, kwOpt items "existing_comment" evalStr,
        kwOpt items "comment" evalOptStr, kwOpt items "schema" evalStr with
  | some nullable, some en, some newName, some exc, some comment, some schema =>
    let mk (table column : Str) (sch : Option Str) : Op := .alterColumn
      { table := table, column := column, schema := sch,
        existingType := kwArg (S "existing_type") items,
        serverDefault := (kwArg (S "server_default") items).map fun v => if isPyNone v then none else some v,
        newName := newName, type_ := kwArg (S "type_") items, nullable := nullable, comment := comment,
        existingComment := exc, existingNullable := en, autoinc := kwArg (S "autoincrement") items,
        existingServerDefault := kwArg (S "existing_server_default") items }
    if ec.c.batch then
      match posArgs items with
      | [.str column] => some (mk ec.table column ec.schema)
      | _ => none
    else
      match posArgs items with
      | [.str table, .str column] => some (mk table column schema)
      | _ => none
  | _, _, _, _, _, _ => none

/-- what `op.<directive>(…)` / `batch_op.<directive>(…)` builds (`create_table`: see `Lemmas`, not covered) -/
def evalCall (ec : ECtx) : PyAst → Option Op
  | .call fn _ items =>
    match stripPrefix ec.c.op fn with
    | some w =>
      match directiveOf w with
      | some .dropTable => evalDropTable items
      | some .addColumn => evalAddColumn ec items
      | some .dropColumn => evalDropColumn ec items
      | some .alterColumn => evalAlterColumn ec items
      | some .createIndex => evalCreateIndex ec items
      | some .dropIndex => evalDropIndex ec items
      | some .createUnique => evalCreateUnique ec items
      | some .createFK => evalCreateFK ec items
      | some .dropConstraint => evalDropConstraint ec items
      | some .createTableComment => evalCreateTableComment ec items
      | some .dropTableComment => evalDropTableComment ec items
      | _ => none
    | none => none
  | _ => none

/-! ## `normalize`: the operation up to what rendering cannot (and `invoke` does not) distinguish

* a falsy (empty) schema / `type_` / column comment is `None`;
* in batch mode table and schema are those of the `with op.batch_alter_table(…)` header, and
  `source_schema` of a foreign key is not passed;
* `existing_nullable` is dropped when `nullable` is given (the implementations read
  `nullable if nullable is not None else existing_nullable`);
* `existing_server_default` is dropped when `server_default` is given. **MSSQL's `alter_column`
  does read it in that case** (finding C08-N5): this is the one erased field `invoke` can see;
* a positional flag without a server default is meaningless.
-/

def normCol (col : Col) : Col :=
  { col with sdPositional := col.sdefault.isSome && col.sdPositional, comment := truthy col.comment }

def normalize (ec : ECtx) : Op → Op
  | .createTable n s cols cons cm kws ine => .createTable n s cols cons cm kws ine
  | .dropTable n s ie => .dropTable n (truthy s) ie
  | .addColumn t s col =>
    if ec.c.batch then .addColumn ec.table ec.schema (normCol col) else .addColumn t (truthy s) (normCol col)
  | .dropColumn t s col => if ec.c.batch then .dropColumn ec.table ec.schema col else .dropColumn t (truthy s) col
  | .alterColumn a => .alterColumn
      { a with
        table := if ec.c.batch then ec.table else a.table,
        schema := if ec.c.batch then ec.schema else truthy a.schema,
        existingNullable := if a.nullable.isNone then a.existingNullable else none,
        existingServerDefault := if a.serverDefault.isNone then a.existingServerDefault else none }
  | .createIndex n t s e u kws ine =>
    if ec.c.batch then .createIndex n ec.table ec.schema e u kws ine else .createIndex n t (truthy s) e u kws ine
  | .dropIndex n t s kws ie =>
    if ec.c.batch then .dropIndex n ec.table ec.schema kws ie else .dropIndex n t (truthy s) kws ie
  | .createUnique n t s cols d i kws =>
    if ec.c.batch then .createUnique n ec.table ec.schema cols d i kws else .createUnique n t (truthy s) cols d i kws
  | .createFK n src ref l r k =>
    if ec.c.batch then .createFK n ec.table ref l r { k with sourceSchema := none } else .createFK n src ref l r k
  | .dropConstraint n t s ty =>
    if ec.c.batch then .dropConstraint n ec.table ec.schema (truthy ty) else .dropConstraint n t (truthy s) (truthy ty)
  | .createTableComment t cm ex s =>
    if ec.c.batch then .createTableComment ec.table cm ex ec.schema else .createTableComment t cm ex s
  | .dropTableComment t ex s =>
    if ec.c.batch then .dropTableComment ec.table ex ec.schema else .dropTableComment t ex s

end Model.Render

/-! ## `create_table`: columns, inline constraints, table-level keywords -/

namespace Model.Render
open Model.Py

inductive ConsKind where
  | pk | fk | uq | ck
  deriving DecidableEq, Repr

def consKindOf (w : Str) : Option ConsKind :=
  if w = S "PrimaryKeyConstraint" then some .pk
  else if w = S "ForeignKeyConstraint" then some .fk
  else if w = S "UniqueConstraint" then some .uq
  else if w = S "CheckConstraint" then some .ck
  else none

/-- `name=…` of an inline constraint: absent = unnamed -/
def evalNameKw (c : Ctx) (items : List Item) : Option GenName :=
  match kwArg (S "name") items with
  | none => some .none
  | some v => evalGenName c v

/-- `sa.PrimaryKeyConstraint('a', …, name=…)`, `sa.ForeignKeyConstraint([..], [..], name=…, **opts)`,
`sa.UniqueConstraint('a', …, deferrable=…, initially=…, name=…, **kw)`, `sa.CheckConstraint('sql', name=…)` -/
def evalCons (c : Ctx) : PyAst → Option Cons
  | .call fn _ items =>
    match stripPrefix c.saPrefix fn with
    | some w =>
      match consKindOf w, evalNameKw c items with
      | some .pk, some n => ((posArgs items).mapM evalStr).map fun cols => .pk n cols
      | some .fk, some n =>
        match posArgs items with
        | [l, r] =>
          match evalStrList l, evalStrList r with
          | some lc, some rc => some (.fk n lc rc (otherKw [S "name"] items))
          | _, _ => none
        | _ => none
      | some .uq, some n =>
        ((posArgs items).mapM evalStr).map fun cols =>
          .uq n cols (kwArg (S "deferrable") items) (kwArg (S "initially") items)
            (otherKw [S "deferrable", S "initially", S "name"] items)
      | some .ck, some n =>
        match posArgs items with
        | [.str sqltext] => some (.ck n sqltext)
        | _ => none
      | _, _ => none
    | none => none
  | _ => none

def isColumnCall (c : Ctx) : PyAst → Bool
  | .call fn _ _ => fn = c.saPrefix ++ S "Column"
  | _ => false

/-- the positional arguments after the table name: `sa.Column(...)` items and constraint items, in any order -/
def evalTableArgs (c : Ctx) : List PyAst → Option (List Col × List Cons)
  | [] => some ([], [])
  | e :: r =>
    match evalTableArgs c r with
    | none => none
    | some (cs, ks) =>
      if isColumnCall c e then (evalCol c e).map fun col => (col :: cs, ks)
      else (evalCons c e).map fun k => (cs, k :: ks)

def tableKnown : List Str := [S "schema", S "comment", S "if_not_exists"]

def evalCreateTable (ec : ECtx) (items : List Item) : Option Op :=
  match posArgs items with
  | .str name :: rest =>
    match evalTableArgs ec.c rest, kwOpt items "schema" evalStr, kwOpt items "comment" evalStr,
          kwOpt items "if_not_exists" evalBool with
    | some (cols, cons), some schema, some comment, some ine =>
      some (.createTable name schema cols cons comment (otherKw tableKnown items) ine)
    | _, _, _, _ => none
  | _ => none

/-- `evalCall` extended with `create_table` -/
def evalCallT (ec : ECtx) : PyAst → Option Op
  | .call fn lay items =>
    match stripPrefix ec.c.op fn with
    | some w =>
      match directiveOf w with
      | some .createTable => evalCreateTable ec items
      | _ => evalCall ec (.call fn lay items)
    | none => none
  | e => evalCall ec e

/-! ### `normalize` for `create_table`

* columns as `normCol`;
* a constraint name that is falsy (`''`) is no name; a primary key constraint without columns is not rendered;
* the inline constraints come back **in the order of their rendered text** (`sorted(...)` in `_add_table`): the
  *set* of constraints is the same, the order of the constraint clauses of CREATE TABLE is not part of what
  `invoke` means (SQLAlchemy orders them itself), and the exec-vs-invoke oracle compares them as a set;
* falsy schema / comment are `None`. -/

def normName : GenName → GenName
  | .plain [] => .none
  | n => n

def normCons : Cons → Cons
  | .pk n cols => .pk (normName n) cols
  | .fk n l r opts => .fk (normName n) l r opts
  | .uq n cols d i kws => .uq (normName n) cols d i kws
  | .ck n s => .ck (normName n) s

def consRenders : Cons → Bool
  | .pk _ [] => false
  | _ => true

/-- total version of `renderCons` (equal to it on every constraint that is rendered) -/
def renderConsD (c : Ctx) (k : Cons) : PyAst := (renderCons c k).getD pyNone

def insertByG {α : Type} (key : α → List Char) (x : α) : List α → List α
  | [] => [x]
  | y :: r => if ltChars (key x) (key y) then x :: y :: r else y :: insertByG key x r

def sortByG {α : Type} (key : α → List Char) : List α → List α
  | [] => []
  | x :: r => insertByG key x (sortByG key r)

def normalizeT (ec : ECtx) : Op → Op
  | .createTable n s cols cons cm kws ine =>
    .createTable n (truthy s) (cols.map normCol)
      ((sortByG (fun k => pp ec.c.isP (renderConsD ec.c k)) (cons.filter consRenders)).map normCons)
      (truthy cm) kws ine
  | o => normalize ec o

end Model.Render

/-! ## containers: evaluating what `_render_modify_table` emits -/

namespace Model.Render
open Model.Py

/-- `op.batch_alter_table(table, schema=…)` of a `with … as batch_op:` header -/
def evalHeader (c : Ctx) : PyAst → Option (Str × Option Str)
  | .call fn _ items =>
    if fn = c.opPrefix ++ S "batch_alter_table" then
      match posArgs items, (kwArg (S "schema") items).bind evalOptStr with
      | [.str table], some schema => some (table, schema)
      | _, _ => none
    else none
  | _ => none

/-- the statements of a block, in order (blank lines are not statements) -/
def evalBody (ec : ECtx) : List Line → Option (List Op)
  | [] => some []
  | .expr e :: r =>
    match evalCallT ec e, evalBody ec r with
    | some o, some os => some (o :: os)
    | _, _ => none
  | .blank :: r => evalBody ec r
  | .withBatch _ :: _ => none

/-- a rendered top-level operation: either a `with op.batch_alter_table(...)` block, whose statements are evaluated as
`batch_op.*` calls on the header's table / schema, or plain `op.*` statements -/
def evalLines (c : Ctx) : List Line → Option (List Op)
  | .withBatch h :: r =>
    match evalHeader c h with
    | some (t, s) => evalBody { c := { c with batch := true }, table := t, schema := s } r
    | none => none
  | ls => evalBody { c := { c with batch := false }, table := [], schema := none } ls

/-- the operations a rendered top-level operation stands for: the members of the group, in order, each normalised
with respect to the context it is rendered in (inside a batch block: the header's table and schema) -/
def normTop (c : Ctx) (asBatch : Bool) : Top → List Op
  | .single o => [normalizeT { c := { c with batch := false }, table := [], schema := none } o]
  | .modify table schema ops =>
    if asBatch then ops.map (normalizeT { c := { c with batch := true }, table := table, schema := schema })
    else ops.map (normalizeT { c := { c with batch := false }, table := [], schema := none })

def topOps : Top → List Op
  | .single o => [o]
  | .modify _ _ ops => ops

end Model.Render
