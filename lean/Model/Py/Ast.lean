import Model.Py.Repr
/-!
# A small Python call-expression AST, its printer and its parser

`PyAst` is what `alembic/autogenerate/render.py` emits: calls `fn(arg, …, key=value, …)` whose
arguments are string literals, dotted names / constants / numbers, lists and nested calls.

* `str s` is printed with `repr` (`%r` in render.py);
* `sq s` is printed as `'` ++ s ++ `'` (`'%s'` / `'{tname}'` in render.py: the table-comment
  renderers);
* a `call` carries its `Layout` (the white space render.py puts after `(`, after each `,`,
  before `)`, and whether a trailing `, ` is emitted, e.g. `sa.ForeignKeyConstraint([..], [..], )`),
  so that the printed text can be compared with the implementation's character by character.

`pExpr` is a recursive-descent parser of that expression subset of Python (white space =
blank and newline inside brackets, trailing commas allowed, positional arguments and
`key=value`). It returns the AST with the layout erased and with every literal decoded:
`canon` is that normal form. Fuel makes the parser total; `Lemmas/Py/Ast.lean` proves that
`size e` is enough.
-/
namespace Model.Py

structure Layout where
  /-- white space after `(` -/
  opn : List Char
  /-- white space after each `,` -/
  sep : List Char
  /-- white space before `)` -/
  cls : List Char
  /-- a trailing `,` ++ sep before `cls` -/
  trail : Bool
  deriving DecidableEq, Repr

def Layout.inline : Layout := ⟨[], [' '], [], false⟩

inductive PyAst where
  | str (s : List Char)
  | sq (s : List Char)
  | name (n : List Char)
  | call (fn : List Char) (lay : Layout) (items : List (Option (List Char) × PyAst))
  | list (items : List (Option (List Char) × PyAst))      -- keys are `none` in a well-formed list
  deriving Repr

abbrev Item := Option (List Char) × PyAst

def isWs (c : Char) : Bool := c = ' ' || c = '\n'

def wordChar (c : Char) : Bool := c.isAlphanum || c = '_' || c = '.'

/-! ## printer -/

mutual
def pp (isP : Char → Bool) : PyAst → List Char
  | .str s => pyRepr isP s
  | .sq s => naiveQuote s
  | .name n => n
  | .call fn lay items =>
    fn ++ '(' :: (lay.opn ++ (ppItems isP lay.sep items ++
      ((if lay.trail then ',' :: lay.sep else []) ++ (lay.cls ++ [')']))))
  | .list items => '[' :: (ppItems isP [' '] items ++ [']'])
def ppItems (isP : Char → Bool) (sep : List Char) : List (Option (List Char) × PyAst) → List Char
  | [] => []
  | x :: r => ppItem isP x ++ ppTail isP sep r
def ppTail (isP : Char → Bool) (sep : List Char) : List (Option (List Char) × PyAst) → List Char
  | [] => []
  | x :: r => ',' :: (sep ++ (ppItem isP x ++ ppTail isP sep r))
def ppItem (isP : Char → Bool) : Option (List Char) × PyAst → List Char
  | (none, e) => pp isP e
  | (some k, e) => k ++ '=' :: pp isP e
end

/-! ## normal form: layout erased, naive embeddings replaced by what they are meant to denote -/

mutual
def canon : PyAst → PyAst
  | .str s => .str s
  | .sq s => .str s
  | .name n => .name n
  | .call fn _ items => .call fn Layout.inline (canonItems items)
  | .list items => .list (canonItems items)
def canonItems : List (Option (List Char) × PyAst) → List (Option (List Char) × PyAst)
  | [] => []
  | x :: r => canonItem x :: canonItems r
def canonItem : Option (List Char) × PyAst → Option (List Char) × PyAst
  | (k, e) => (k, canon e)
end

/-! ## fuel needed by the parser -/

mutual
def size : PyAst → Nat
  | .str _ => 1
  | .sq _ => 1
  | .name _ => 1
  | .call _ _ items => 2 + sizeItems items
  | .list items => 2 + sizeItems items
def sizeItems : List (Option (List Char) × PyAst) → Nat
  | [] => 1
  | x :: r => 1 + sizeItem x + sizeItems r
def sizeItem : Option (List Char) × PyAst → Nat
  | (_, e) => 1 + size e
end

/-! ## parser -/

def skipWs : List Char → List Char
  | [] => []
  | c :: r => if isWs c then skipWs r else c :: r

def readWord : List Char → List Char × List Char
  | [] => ([], [])
  | c :: r => if wordChar c then ((c :: (readWord r).1), (readWord r).2) else ([], c :: r)

mutual
/-- an expression; `t` has no leading white space -/
def pExpr : Nat → List Char → Option (PyAst × List Char)
  | 0, _ => none
  | _ + 1, [] => none
  | f + 1, c :: r =>
    if c = '\'' ∨ c = '"' then
      match parseStrLit (c :: r) with
      | some (s, r') => some (.str s, r')
      | none => none
    else if c = '[' then
      match pItems f false ']' r with
      | some (xs, r') => some (.list xs, r')
      | none => none
    else if wordChar c then
      match (readWord (c :: r)).2 with
      | '(' :: r' =>
        match pItems f true ')' r' with
        | some (xs, r'') => some (.call (readWord (c :: r)).1 Layout.inline xs, r'')
        | none => none
      | r' => some (.name (readWord (c :: r)).1, r')
    else none
/-- the items of a bracket, just after the opening bracket, up to and including the closing `cl` -/
def pItems : Nat → Bool → Char → List Char → Option (List (Option (List Char) × PyAst) × List Char)
  | 0, _, _, _ => none
  | f + 1, kw, cl, t =>
    match skipWs t with
    | [] => none
    | c :: r =>
      if c = cl then some ([], r)
      else
        match pItem f kw (c :: r) with
        | some (x, r') =>
          match pTail f kw cl r' with
          | some (xs, r'') => some (x :: xs, r'')
          | none => none
        | none => none
/-- after an item: `)` | `,` `)` | `,` item … -/
def pTail : Nat → Bool → Char → List Char → Option (List (Option (List Char) × PyAst) × List Char)
  | 0, _, _, _ => none
  | f + 1, kw, cl, t =>
    match skipWs t with
    | [] => none
    | c :: r =>
      if c = cl then some ([], r)
      else if c = ',' then
        match skipWs r with
        | [] => none
        | c2 :: r2 =>
          if c2 = cl then some ([], r2)
          else
            match pItem f kw (c2 :: r2) with
            | some (x, r') =>
              match pTail f kw cl r' with
              | some (xs, r'') => some (x :: xs, r'')
              | none => none
            | none => none
      else none
/-- `key=expr` (only when `kw`) or `expr`; `t` has no leading white space -/
def pItem : Nat → Bool → List Char → Option ((Option (List Char) × PyAst) × List Char)
  | 0, _, _ => none
  | f + 1, kw, t =>
    match (readWord t).2 with
    | '=' :: r =>
      if kw && !(readWord t).1.isEmpty then
        match pExpr f r with
        | some (e, r') => some ((some (readWord t).1, e), r')
        | none => none
      else none
    | _ =>
      match pExpr f t with
      | some (e, r') => some ((none, e), r')
      | none => none
end

/-- the whole text is one expression -/
def parse (t : List Char) : Option PyAst :=
  match pExpr (3 * t.length) t with
  | some (e, []) => some e
  | _ => none

/-! ## well-formedness of what is printed -/

def validWord (w : List Char) : Bool := !w.isEmpty && w.all wordChar

def wsOnly (w : List Char) : Bool := w.all isWs

def Layout.ok (l : Layout) : Bool := wsOnly l.opn && wsOnly l.sep && wsOnly l.cls

mutual
/-- names are words, layouts are white space, list elements have no key;
`plainSq`: additionally every naive embedding holds a plain string -/
def wf (plainSq : Bool) : PyAst → Bool
  | .str _ => true
  | .sq s => !plainSq || plainStr s
  | .name n => validWord n
  | .call fn lay items =>
    validWord fn && lay.ok && (!lay.trail || !items.isEmpty) && wfItems plainSq true items
  | .list items => wfItems plainSq false items
def wfItems (plainSq : Bool) (kw : Bool) : List (Option (List Char) × PyAst) → Bool
  | [] => true
  | x :: r => wfItem plainSq kw x && wfItems plainSq kw r
def wfItem (plainSq : Bool) (kw : Bool) : Option (List Char) × PyAst → Bool
  | (none, e) => wf plainSq e
  | (some k, e) => kw && validWord k && wf plainSq e
end

end Model.Py
