/-!
# Python `repr(str)` and the string-literal parser

`pyRepr` mirrors CPython's `unicode_repr` (Objects/unicodeobject.c):

* quote choice: `'` unless the string contains `'` and no `"`;
* `\\` and the chosen quote are backslash-escaped; `\t \n \r` by name;
* other C0 controls and DEL as `\xNN`; printable ASCII verbatim;
* a non-ASCII code point verbatim iff `Py_UNICODE_ISPRINTABLE` (here the parameter
  `isP : Char → Bool`: the Unicode database is not modelled), otherwise
  `\xNN` (≤ 0xff), `\uNNNN` (≤ 0xffff), `\UNNNNNNNN`, lower-case hex.

`pyParseStr` is the decoder of a single- or double-quoted, non-prefixed, non-triple-quoted
Python string literal: the subset of the tokenizer / `ast.literal_eval` needed for anything
`repr` can emit, plus the other one-character escapes and Python's "unknown escape keeps
the backslash" rule, so that it can also judge text that was *not* produced by `repr`
(the naive `'%s'` embeddings of C08/F8). Octal escapes, `\N{…}` and backslash-newline are
outside the subset (`none`).

Strings are `List Char`; a Lean `Char` is a Unicode scalar value, so lone surrogates (which a
Python `str` may contain) are outside the model.
-/
namespace Model.Py

/-- lower-case hex digit of `n % 16` -/
def hexDigit (n : Nat) : Char :=
  let d := n % 16
  if d < 10 then Char.ofNat (48 + d) else Char.ofNat (87 + d)

def hexVal (c : Char) : Option Nat :=
  let n := c.toNat
  if 48 ≤ n ∧ n ≤ 57 then some (n - 48)
  else if 97 ≤ n ∧ n ≤ 102 then some (n - 87)
  else if 65 ≤ n ∧ n ≤ 70 then some (n - 55)
  else none

def hex2 (n : Nat) : List Char := [hexDigit (n / 16), hexDigit n]
def hex4 (n : Nat) : List Char := [hexDigit (n / 4096), hexDigit (n / 256), hexDigit (n / 16), hexDigit n]
def hex8 (n : Nat) : List Char :=
  [hexDigit (n / 268435456), hexDigit (n / 16777216), hexDigit (n / 1048576), hexDigit (n / 65536),
   hexDigit (n / 4096), hexDigit (n / 256), hexDigit (n / 16), hexDigit n]

/-- the text `repr` emits for one character inside a literal quoted with `q` -/
def escChar (isP : Char → Bool) (q : Char) (c : Char) : List Char :=
  if c = q ∨ c = '\\' then ['\\', c]
  else if c = '\t' then ['\\', 't']
  else if c = '\n' then ['\\', 'n']
  else if c = '\r' then ['\\', 'r']
  else if c.toNat < 32 ∨ c.toNat = 127 then '\\' :: 'x' :: hex2 c.toNat
  else if c.toNat < 127 then [c]
  else if isP c then [c]
  else if c.toNat ≤ 255 then '\\' :: 'x' :: hex2 c.toNat
  else if c.toNat ≤ 65535 then '\\' :: 'u' :: hex4 c.toNat
  else '\\' :: 'U' :: hex8 c.toNat

/-- `'` unless the string contains `'` and no `"` -/
def chooseQuote (s : List Char) : Char :=
  if s.contains '\'' && !s.contains '"' then '"' else '\''

def reprBody (isP : Char → Bool) (q : Char) : List Char → List Char
  | [] => []
  | c :: s => escChar isP q c ++ reprBody isP q s

/-- `repr(s)` -/
def pyRepr (isP : Char → Bool) (s : List Char) : List Char :=
  let q := chooseQuote s
  q :: (reprBody isP q s ++ [q])

/-- the naive embedding `"'%s'" % s` / `f"'{s}'"` (what F8 is about) -/
def naiveQuote (s : List Char) : List Char := '\'' :: (s ++ ['\''])

/-- characters for which the naive embedding is harmless: no `'`, no backslash, no line break, no NUL -/
def plainChar (c : Char) : Bool := !(c = '\'' || c = '\\' || c = '\n' || c = '\r' || c.toNat = 0)

def plainStr (s : List Char) : Bool := s.all plainChar

/-- a scalar value from a hex escape; `none` when it is not one (surrogate / > 0x10ffff) -/
def charOfNat? (n : Nat) : Option Char :=
  if n.isValidChar then some (Char.ofNat n) else none

def consTo (c : Char) : Option (List Char × List Char) → Option (List Char × List Char)
  | some (s, r) => some (c :: s, r)
  | none => none

/-- scanner state inside a literal: plain text, just after a backslash, or inside a
`\x`/`\u`/`\U` escape with `k` hex digits still to read and value `acc` so far -/
inductive St where
  | normal
  | esc
  | hex (k : Nat) (acc : Nat)
  deriving DecidableEq, Repr

/-- body of a literal opened with `q`: decoded content and the text after the closing quote -/
def scan (q : Char) : St → List Char → Option (List Char × List Char)
  | _, [] => none
  | .normal, c :: r =>
    if c = q then some ([], r)
    else if c = '\n' ∨ c = '\r' then none          -- unterminated string literal
    else if c.toNat = 0 then none                  -- source code cannot contain NUL
    else if c = '\\' then scan q .esc r
    else consTo c (scan q .normal r)
  | .esc, e :: r =>
    if e = '\\' ∨ e = '\'' ∨ e = '"' then consTo e (scan q .normal r)
    else if e = 'n' then consTo '\n' (scan q .normal r)
    else if e = 't' then consTo '\t' (scan q .normal r)
    else if e = 'r' then consTo '\r' (scan q .normal r)
    else if e = 'a' then consTo '\x07' (scan q .normal r)
    else if e = 'b' then consTo '\x08' (scan q .normal r)
    else if e = 'f' then consTo '\x0c' (scan q .normal r)
    else if e = 'v' then consTo '\x0b' (scan q .normal r)
    else if e = 'x' then scan q (.hex 2 0) r
    else if e = 'u' then scan q (.hex 4 0) r
    else if e = 'U' then scan q (.hex 8 0) r
    else if e = 'N' ∨ e = '\n' ∨ e = '\r' ∨ (48 ≤ e.toNat ∧ e.toNat ≤ 55) ∨ e.toNat = 0 then none   -- outside the subset
    else consTo '\\' (consTo e (scan q .normal r))   -- unknown escape: the backslash is kept
  | .hex 0 _, _ :: _ => none
  | .hex (k + 1) acc, c :: r =>
    match hexVal c with
    | none => none
    | some d =>
      if k = 0 then
        match charOfNat? (acc * 16 + d) with
        | some ch => consTo ch (scan q .normal r)
        | none => none
      else scan q (.hex k (acc * 16 + d)) r

def parseBody (q : Char) (t : List Char) : Option (List Char × List Char) := scan q .normal t

/-- a string literal and what follows it -/
def parseStrLit : List Char → Option (List Char × List Char)
  | [] => none
  | q :: r => if q = '\'' ∨ q = '"' then parseBody q r else none

/-- the whole text is one string literal -/
def pyParseStr (t : List Char) : Option (List Char) :=
  match parseStrLit t with
  | some (s, []) => some s
  | _ => none

end Model.Py
