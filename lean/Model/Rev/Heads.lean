import Model.Rev.Plan
/-!
# Version-table bookkeeping: `HeadMaintainer`, `RevisionStep`, `StampStep`, `_stamp_revs`

The table is a list of rows without duplicates (`HeadMaintainer.heads` is a `set`; every
statement is checked to hit exactly one row, so table and set stay equal).
-/
namespace Model.Rev

inductive Stmt where
  | ins (v : Id)
  | del (v : Id)
  | upd (a b : Id)
  deriving Repr, DecidableEq

/-- `_insert_version`: `assert version not in self.heads` -/
def insertVersion (rows : List Id) (v : Id) : Except Err (List Id) :=
  if v ∈ rows then .error .assertion else .ok (rows ++ [v])

/-- `_delete_version`: `self.heads.remove(version)` raises `KeyError` when absent -/
def deleteVersion (rows : List Id) (v : Id) : Except Err (List Id) :=
  if v ∈ rows then .ok (rows.filter (· != v)) else .error .keyError

/-- `_update_version` -/
def updateVersion (rows : List Id) (a b : Id) : Except Err (List Id) :=
  if b ∈ rows then .error .assertion
  else if a ∈ rows then .ok (rows.filter (· != a) ++ [b])
  else .error .keyError

def applyStmt (rows : List Id) : Stmt → Except Err (List Id)
  | .ins v => insertVersion rows v
  | .del v => deleteVersion rows v
  | .upd a b => updateVersion rows a b

def applyStmts (rows : List Id) : List Stmt → Except Err (List Id)
  | [] => .ok rows
  | s :: r => match applyStmt rows s with
    | .error e => .error e
    | .ok rows' => applyStmts rows' r

/-- a migration step -/
inductive Step where
  | rev (id : Id) (isUpgrade : Bool)                                        -- `RevisionStep`
  | stamp (from_ to_ : List Id) (isUpgrade : Bool) (branchMove : Bool)      -- `StampStep`
  deriving Repr, DecidableEq

/-- `RevisionStep._unmerge_to_revisions` (downgrade: `to_revisions` = normalized down revisions):
    drop what the other heads imply, then what another re-inserted revision implies -/
def unmergeToRevisions (m : LMap) (rows : List Id) (r : Id) : List Id :=
  let to := m.normDownOf r
  let other := rows.filter (· != r)
  let to1 := if !other.isEmpty then to.filter (· ∉ m.ancestors other) else to
  let anc := to1.flatMap (fun t => (m.ancestors [t]).filter (· != t))
  to1.filter (· ∉ anc)

/-- `RevisionStep.merge_branch_idents`: the `from_revisions` that really are rows to fold -/
def mergeFromRevisions (m : LMap) (rows : List Id) (r : Id) : List Id :=
  let from_ := m.normDownOf r
  let other := rows.filter (· ∉ from_)
  let from1 := if !other.isEmpty then from_.filter (· ∉ m.ancestors other) else from_
  from1.filter (· ∈ rows)

/-- statements `HeadMaintainer.update_to_step` issues for a step (decision order: delete,
    create, merge, unmerge, update) -/
def stepStmts (m : LMap) (rows : List Id) : Step → Except Err (List Stmt)
  | .rev r true =>
    let downs := m.normDownOf r
    if downs.isEmpty || !(rows.any (· ∈ downs)) then .ok [.ins r]
    else if downs.length > 1 && (dedupe (rows.filter (· ∈ downs))).length > 1 then
      let from_ := mergeFromRevisions m rows r
      match from_.reverse with
      | [] => .error .keyError          -- IndexError on `from_revisions[-1]`
      | last :: initRev => .ok (initRev.reverse.map .del ++ [.upd last r])
    else
      if downs.length == 1 then .ok [.upd (downs.headD "") r]
      else
        match dedupe (rows.filter (· ∈ downs)) with
        | [d] => .ok [.upd d r]
        | _ => .error .assertion
  | .rev r false =>
    let downs := m.normDownOf r
    let to := unmergeToRevisions m rows r
    if r ∈ rows && (downs.isEmpty || to.isEmpty) then .ok [.del r]
    else if r ∈ rows && downs.length > 1 then
      match to.reverse with
      | [] => .error .keyError
      | last :: initRev => .ok (initRev.reverse.map .ins ++ [.upd r last])
    else
      if downs.length == 1 then .ok [.upd r (downs.headD "")]
      else
        match dedupe (rows.filter (· ∈ downs)) with
        | [d] => .ok [.upd r d]
        | _ => .error .assertion
  | .stamp from_ to_ isUp branchMove =>
    if !isUp && branchMove then
      match from_ with | [f] => .ok [.del f] | _ => .error .assertion
    else if isUp && (branchMove || from_.any (· ∉ rows)) && to_.any (· ∉ rows) then
      match to_ with | [t] => .ok [.ins t] | _ => .error .assertion
    else if from_.length > 1 then
      match from_.reverse, to_ with
      | last :: initRev, t :: _ => .ok (initRev.reverse.map .del ++ [.upd last t])
      | _, _ => .error .keyError
    else if to_.length > 1 then
      match from_, to_.reverse with
      | f :: _, last :: initRev => .ok (initRev.reverse.map .ins ++ [.upd f last])
      | _, _ => .error .keyError
    else
      match from_, to_ with
      | [f], [t] => .ok [.upd f t]
      | _, _ => .error .assertion

/-- `HeadMaintainer.update_to_step` -/
def updateToStep (m : LMap) (rows : List Id) (s : Step) : Except Err (List Id × List Stmt) :=
  match stepStmts m rows s with
  | .error e => .error e
  | .ok st => match applyStmts rows st with
    | .error e => .error e
    | .ok rows' => .ok (rows', st)

/-- run a plan: rows after each step -/
def runSteps (m : LMap) : List Id → List Step → Except Err (List (List Id))
  | _, [] => .ok []
  | rows, s :: rest =>
    match updateToStep m rows s with
    | .error e => .error e
    | .ok (rows', _) =>
      match runSteps m rows' rest with
      | .error e => .error e
      | .ok tr => .ok (rows' :: tr)

/-! ## `ScriptDirectory._stamp_revs` -/

/-- one destination of `_stamp_revs`, given the heads it may move -/
def stampDest (m : LMap) (filtered : List Id) : Option Id → Except Err (List Step)
  | none => pure (filtered.map (fun h => Step.stamp [h] [] false true))
  | some dest =>
    if dest ∈ filtered then pure []
    else
      let desc := m.descendants [dest]
      let anc := m.ancestors [dest]
      if filtered.any (· ∈ desc) then
        -- `assert not ancestors.intersection(filtered_heads)`
        if filtered.any (· ∈ anc) then throw Err.assertion
        else pure [Step.stamp filtered [dest] false false]
      else if filtered.any (· ∈ anc) then pure [Step.stamp filtered [dest] true false]
      else pure [Step.stamp [] [dest] true true]

/-- the `for dest in dests` loop: each destination claims the remaining heads that share a
    lineage with it (with the revision itself, not merely with the branch label it was named
    by); `base` (`none`) takes whatever is left -/
def stampLoop (m : LMap) : List Id → List (Option Id) → Except Err (List Step)
  | _, [] => pure []
  | remaining, d :: rest => do
    let (filtered, remaining') ← match d with
      | some dest => do
        let f ← filterForLineage m remaining dest true
        pure (f, remaining.filter (· ∉ f))
      | none => pure (remaining, remaining)
    let s ← stampDest m filtered d
    let r ← stampLoop m remaining' rest
    pure (s ++ r)

def stampRevs (m : LMap) (targets : List String) (rows : List Id) : Except Err (List Step) := do
  let headsRevs ← getRevisionsMany m rows
  let headsRevs := headsRevs.filterMap id
  let targets := if targets.isEmpty then ["base"] else targets
  let fh ← targets.mapM (fun t => if t.isEmpty then pure [] else filterForLineage m headsRevs t true)
  let filtered := dedupe fh.flatten
  let dests ← getRevisionsMany m targets
  let dests := if dests.isEmpty then [none] else dests
  stampLoop m filtered dests

/-- `command.stamp` without `--purge`: steps then bookkeeping -/
def stamp (m : LMap) (targets : List String) (rows : List Id) : Except Err (List Id) := do
  let steps ← stampRevs m targets rows
  let tr ← runSteps m rows steps
  pure (tr.getLastD rows)

end Model.Rev
