import Model.Rev.Load
/-!
# Resolving revision identifiers

`_resolve_revision_number`, `_revision_for_ident`, `_resolve_branch`, `get_revisions`,
`get_revision`, `get_current_head`, `filter_for_lineage`, `_shares_lineage`, `_walk`,
the `_relative_destination` regular expression, `_parse_upgrade_target`,
`_parse_downgrade_target`.

A resolved revision is `Option Id` (`none` = base, Python's `None`).
-/
namespace Model.Rev

/-- Python's `id_.split("@", 1)` when `"@" in id_` (written over character lists so that it
    reduces in the kernel) -/
def splitFirstAt (s : String) : Option String × String :=
  match s.toList.span (· != '@') with
  | (_, []) => (none, s)
  | (pre, _ :: post) => (some (String.ofList pre), String.ofList post)

/-- `str.startswith` -/
def startsWithL (s p : String) : Bool := p.toList.isPrefixOf s.toList

/-- keys of `_revision_map` in iteration order: revision ids, then branch labels -/
def LMap.keys (m : LMap) : List (String × Id) := m.ids.map (fun i => (i, i)) ++ m.labelKeys

/-- `self._revision_map[k]` -/
def LMap.lookup (m : LMap) (k : String) : Option Id := (m.keys.find? (·.1 == k)).map (·.2)

def LMap.labelsOf (m : LMap) (i : Id) : List String := ((m.get? i).map (·.labels)).getD []

/-- `_shares_lineage(target, test_against_revs, include_dependencies)` on resolved ids -/
def sharesLineage (m : LMap) (target : Id) (against : List Id) (inclDeps : Bool) : Bool :=
  if against.isEmpty then true
  else
    let desc := if inclDeps then m.descendants [target] else m.descendantsNoDeps [target]
    let anc := if inclDeps then m.ancestors [target] else m.ancestorsNoDeps [target]
    against.any (fun a => a ∈ desc || a ∈ anc)

mutual
/-- `_revision_for_ident(resolved_id, check_branch)`; `fuel` bounds the mutual recursion through
    `_resolve_branch` / `filter_for_lineage` (depth ≤ 3 in practice) -/
def revisionForIdent (m : LMap) : Nat → String → Option String → Except Err (Option Id)
  | 0, _, _ => .error .outOfFuel
  | fuel + 1, rid, checkBranch => do
    let branchRev ← match checkBranch with
      | some b => if b.isEmpty then pure none else resolveBranch m fuel b
      | none => pure none
    let revision ← match m.lookup rid with
      | some i => pure i
      | none =>
        -- partial lookup over the keys of the map that are revision ids (branch-label keys are skipped)
        let cands := (m.keys.filter (fun k => k.1.length > 3 && startsWithL k.1 rid && k.2 == k.1)).map (·.1)
        let cands ← match branchRev, checkBranch with
          | some _, some b => filterForLineageKeys m fuel cands b false
          | _, _ => pure cands
        match cands with
        | [] => throw .resolution
        | [k] => match m.lookup k with
          | some i => pure i
          | none => throw .keyError
        | _ => throw .resolution
    match checkBranch, branchRev with
    | some b, some br =>
      if b.isEmpty then pure (some revision)
      else if sharesLineage m revision [br] false then pure (some revision) else throw .resolution
    | _, _ => pure (some revision)

/-- `_resolve_branch` -/
def resolveBranch (m : LMap) : Nat → String → Except Err (Option Id)
  | 0, _ => .error .outOfFuel
  | fuel + 1, b =>
    match m.lookup b with
    | some i => .ok (some i)
    | none =>
      match revisionForIdent m fuel b none with
      | .ok r => .ok r
      | .error .resolution => .error .resolution
      | .error e => .error e

/-- `filter_for_lineage(targets, check_against)` where the targets are map keys (strings) -/
def filterForLineageKeys (m : LMap) : Nat → List String → String → Bool → Except Err (List String)
  | 0, _, _, _ => .error .outOfFuel
  | fuel + 1, targets, against, inclDeps => do
    let shares ← resolveShares m fuel against
    targets.filterM (fun t => do
      if shares.isEmpty then pure true
      else
        let rt ← revisionForIdent m fuel t none
        match rt with
        | none => throw .assertion
        | some i => pure (sharesLineage m i shares inclDeps))

/-- the `shares` list of `filter_for_lineage`: `[branch_label] + id_`, each resolved through
    `_revision_for_ident` -/
def resolveShares (m : LMap) : Nat → String → Except Err (List Id)
  | 0, _ => .error .outOfFuel
  | fuel + 1, against => do
    let (ids, label) ← resolveRevisionNumber m fuel against
    let names := (match label with | some l => (if l.isEmpty then [] else [l]) | none => []) ++ ids
    let rs ← names.mapM (fun n => revisionForIdent m fuel n none)
    pure (rs.filterMap id)

/-- `_resolve_revision_number`: symbolic names to id tuples plus the branch label -/
def resolveRevisionNumber (m : LMap) : Nat → String → Except Err (List String × Option String)
  | 0, _ => .error .outOfFuel
  | fuel + 1, ident => do
    let (label, rest) : Option String × String := splitFirstAt ident
    if rest == "heads" then
      match label with
      | some l =>
        if l.isEmpty then pure (m.realHeads, label)
        else do
          let hs ← filterForLineageKeys m fuel m.heads l false
          pure (hs, label)
      | none => pure (m.realHeads, label)
    else if rest == "head" then do
      let h ← currentHead m fuel label
      match h with
      | some i => pure ([i], label)
      | none => pure ([], label)
    else if rest == "base" then pure ([], label)
    else pure ([rest], label)

/-- `get_current_head(branch_label)` -/
def currentHead (m : LMap) : Nat → Option String → Except Err (Option Id)
  | 0, _ => .error .outOfFuel
  | fuel + 1, label => do
    let hs ← match label with
      | some l => if l.isEmpty then pure m.heads else filterForLineageKeys m fuel m.heads l false
      | none => pure m.heads
    match hs with
    | [] => pure none
    | [h] => pure (some h)
    | _ => throw .multipleHeads
end

def resolveFuel : Nat := 12

/-- `filter_for_lineage` on resolved revision ids -/
def filterForLineage (m : LMap) (targets : List Id) (against : String) (inclDeps : Bool) : Except Err (List Id) :=
  if targets.isEmpty then do
    -- `[tg for tg in targets if self._shares_lineage(tg, shares, …)]`: `_resolve_revision_number` runs first,
    -- but the names in `shares` are resolved inside `_shares_lineage`, i.e. only when there is a target
    let _ ← resolveRevisionNumber m (resolveFuel - 1) against
    pure []
  else do
    let shares ← resolveShares m resolveFuel against
    pure (targets.filter (fun t => sharesLineage m t shares inclDeps))

/-- one step; `cur = none` is base. Result `none` = ran off the tree. `"base"` as a separate
    value is folded into `none` (walking down from base gives no children). -/
def walkStep (m : LMap) (up : Bool) (label : Option String) (cur : Option Id) (atBaseMarker : Bool) :
    Except Err (Option (Option Id × Bool)) := do
  if up then
    let start := match cur with
      | none => m.bases
      | some i => m.nextrev i
    let children ← match label with
      | some l => if l.isEmpty then pure start else filterForLineage m start l false
      | none => pure start
    match children with
    | [] => pure none
    | [c] => pure (some (some c, false))
    | _ => throw .revisionError       -- "Ambiguous walk"
  else
    if atBaseMarker then pure none
    else
      let children := match cur with
        | none => m.heads
        | some i => m.downOf i
      match children with
      | [] => pure (some (none, true))   -- children = ("base",)
      | [c] => pure (some (some c, false))
      | _ => throw .revisionError

/-- `_walk(start, steps, branch_label, no_overwalk)`: `none` = the Python `None` return for an
    overwalk; `some none` = base -/
def walk (m : LMap) (start : Option Id) (steps : Int) (label : Option String) (noOverwalk : Bool) :
    Except Err (Option (Option Id)) :=
  let rec go : Nat → Option Id → Bool → Except Err (Option (Option Id))
    | 0, cur, _ => .ok (some cur)
    | n + 1, cur, marker => do
      match ← walkStep m (steps > 0) label cur marker with
      | none => pure (if noOverwalk then none else some cur)
      | some (nxt, mk) => go n nxt mk
  go steps.natAbs start false

/-- value of a string of ASCII digits (`int("007") = 7`) -/
def digitsVal (ds : List Char) : Nat := ds.foldl (fun a c => a * 10 + (c.toNat - '0'.toNat)) 0

/-- a resolved identifier that Python's `int()` reads as a negative number (`-3`); only the plain
    ASCII spelling is modelled -/
def negInt? (s : String) : Option Nat :=
  match s.toList with
  | '-' :: ds => if !ds.isEmpty && ds.all Char.isDigit then some (digitsVal ds) else none
  | _ => none

/-- `get_revisions(id_)` for a single string.  A bare negative number (`-2`, `label@-2`) means
    "that many steps below each head (of the labelled branch)": `_walk(head, steps=-n)` for every
    real head; a walk that ends exactly at base yields the string `"base"`, one that overshoots
    yields `None`. -/
def getRevisions (m : LMap) (ident : String) : Except Err (List (Option Id)) := do
  let (ids, label) ← resolveRevisionNumber m resolveFuel ident
  let plain := ids.mapM (fun i => revisionForIdent m resolveFuel i label)
  match ids with
  | [one] =>
    match negInt? one with
    | some n =>
      if n > 0 then do
        let heads ← m.realHeads.mapM (fun i => revisionForIdent m resolveFuel i none)
        let heads := heads.filterMap id
        let sel := match label with
          | some l => heads.filter (fun h => decide (l ∈ m.labelsOf h))
          | none => heads
        sel.mapM (fun h => do
          let r ← walk m (some h) (-(n : Int)) none true
          pure (match r with
            | none => none
            | some none => some "base"
            | some (some x) => some x))
      else plain
    | none => plain
  | _ => plain

/-- `get_revisions` of a tuple of identifiers (`sum(..., ())`) -/
def getRevisionsMany (m : LMap) (idents : List String) : Except Err (List (Option Id)) := do
  let rs ← idents.mapM (getRevisions m)
  pure rs.flatten

/-- `get_revision(id_)` -/
def getRevision (m : LMap) (ident : String) : Except Err (Option Id) := do
  let (ids, label) ← resolveRevisionNumber m resolveFuel ident
  match ids with
  | [] =>
    -- `_revision_for_ident((), branch_label)`: `_revision_map[()]` is None
    match label with
    | some l => if l.isEmpty then pure none else do let _ ← resolveBranch m resolveFuel l; pure none
    | none => pure none
  | [i] => revisionForIdent m resolveFuel i label
  | _ => throw .multipleHeads

/-! ## the regular expression `(?:(.+?)@)?(\w+)?((?:\+|-)\d+)` used with `re.match` -/

def isWordChar (c : Char) : Bool := c.isAlphanum || c == '_'

/-- `(\w+)?((?:\+|-)\d+)` anchored at the start of `s` (prefix match); greedy `\w+` never needs
    to give characters back because `+`/`-` are not word characters -/
def matchSymRel (s : List Char) : Option (Option String × Int) :=
  let w := s.takeWhile isWordChar
  let rest := s.dropWhile isWordChar
  let tryRel (r : List Char) : Option Int :=
    match r with
    | sign :: ds =>
      if sign == '+' || sign == '-' then
        let digits := ds.takeWhile Char.isDigit
        if digits.isEmpty then none
        else
          let n := digitsVal digits
          some (if sign == '-' then - (n : Int) else (n : Int))
      else none
    | [] => none
  match tryRel rest with
  | some rel => some (if w.isEmpty then none else some (String.ofList w), rel)
  | none => none

/-- positions of `@` tried left to right (lazy `.+?` needs at least one character) -/
def matchRelativeAux (pre : List Char) : List Char → Option (Option String × Option String × Int)
  | [] => none
  | c :: r =>
    if c == '@' && !pre.isEmpty then
      match matchSymRel r with
      | some (sym, rel) => some (some (String.ofList pre.reverse), sym, rel)
      | none => matchRelativeAux (c :: pre) r
    else matchRelativeAux (c :: pre) r

/-- `_relative_destination.match(target)`: `(branch_label, symbol, relative)` -/
def matchRelative (t : String) : Option (Option String × Option String × Int) :=
  match matchRelativeAux [] t.toList with
  | some r => some r
  | none =>
    match matchSymRel t.toList with
    | some (sym, rel) => some (none, sym, rel)
    | none => none

/-! ## `_walk` -/

end Model.Rev
