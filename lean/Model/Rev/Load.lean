import Model.Rev.Basic
/-!
# Loading a history: `RevisionMap._revision_map`

`_map_branch_labels`, `_add_depends_on`, `add_nextrev`, `_normalize_depends_on`,
`_detect_cycles`, heads/bases, `_add_branches`.
-/
namespace Model.Rev

/-- a revision after loading -/
structure LRev where
  id : Id
  down : List Id            -- `_versioned_down_revisions`
  rdeps : List Id           -- `_resolved_dependencies`
  ndeps : List Id           -- `_normalized_resolved_dependencies` (a set in Python; order given)
  origLabels : List String  -- `_orig_branch_labels`
  labels : List String      -- `branch_labels` after `_add_branches` (a set)
  deriving Repr, DecidableEq, Inhabited

/-- `_all_down_revisions` -/
def LRev.allDown (r : LRev) : List Id := dedupe (r.down ++ r.rdeps)
/-- `_normalized_down_revisions` -/
def LRev.normDown (r : LRev) : List Id := dedupe (r.down ++ r.ndeps)

structure LMap where
  revs : List LRev                 -- in map order
  labelKeys : List (String × Id)   -- branch-label keys of `_revision_map`, in insertion order
  heads : List Id
  realHeads : List Id
  bases : List Id
  realBases : List Id
  deriving Repr, Inhabited

def LMap.get? (m : LMap) (i : Id) : Option LRev := m.revs.find? (·.id == i)
def LMap.ids (m : LMap) : List Id := m.revs.map (·.id)
def LMap.downOf (m : LMap) (i : Id) : List Id := ((m.get? i).map (·.down)).getD []
def LMap.allDownOf (m : LMap) (i : Id) : List Id := ((m.get? i).map LRev.allDown).getD []
def LMap.normDownOf (m : LMap) (i : Id) : List Id := ((m.get? i).map LRev.normDown).getD []
/-- `nextrev` (children by `down_revision`), in map order -/
def LMap.nextrev (m : LMap) (i : Id) : List Id := (m.revs.filter (fun r => i ∈ r.down)).map (·.id)
/-- `_all_nextrev` (children by `down_revision` or dependency) -/
def LMap.allNextrev (m : LMap) (i : Id) : List Id := (m.revs.filter (fun r => i ∈ r.allDown)).map (·.id)

def LMap.closure (m : LMap) (succ : Id → List Id) (targets : List Id) : List Id :=
  closureOf succ m.ids targets

/-- `_get_ancestor_nodes(include_dependencies=True)` -/
def LMap.ancestors (m : LMap) (targets : List Id) : List Id := m.closure m.normDownOf targets
/-- `_get_ancestor_nodes(include_dependencies=False)` -/
def LMap.ancestorsNoDeps (m : LMap) (targets : List Id) : List Id := m.closure m.downOf targets
/-- `_get_descendant_nodes(include_dependencies=True)` -/
def LMap.descendants (m : LMap) (targets : List Id) : List Id := m.closure m.allNextrev targets
/-- `_get_descendant_nodes(include_dependencies=False)` -/
def LMap.descendantsNoDeps (m : LMap) (targets : List Id) : List Id := m.closure m.nextrev targets

/-- `_iterate_related_revisions(..., check=True)`: the traversal target by target; a target met
    while traversing from another target is an "overlap" (`RevisionError`). -/
def iterCheckOne (succ : Id → List Id) (targets : List Id) (target : Id) :
    Nat → List Id → List Id → Except Err (List Id)
  | 0, _, seen => .ok seen
  | _ + 1, [], seen => .ok seen
  | fuel + 1, x :: todo, seen =>
    if x ≠ target ∧ x ∈ targets then .error .revisionError
    else if x ∈ seen then iterCheckOne succ targets target fuel todo seen
    else iterCheckOne succ targets target fuel ((succ x).reverse ++ todo) (x :: seen)

def iterCheck (succ : Id → List Id) (fuel : Nat) (targets : List Id) : List Id → List Id → Except Err (List Id)
  | [], seen => .ok seen
  | t :: rest, seen =>
    match iterCheckOne succ targets t fuel [t] seen with
    | .error e => .error e
    | .ok seen' => iterCheck succ fuel targets rest seen'

def LMap.ancestorsCheck (m : LMap) (targets : List Id) : Except Err (List Id) :=
  iterCheck m.normDownOf (closureFuel m.normDownOf m.ids targets) targets targets []

/-! ## the load itself -/

def illegalChars : List Char := ['@', '-', '+']

/-- `Revision.__init__`: self-loop checks and `verify_rev_id` -/
def checkRev (r : Rev) : Except Err Unit :=
  if r.down ≠ [] ∧ r.id ∈ r.down then .error .loop
  else if r.id ∈ r.deps then .error .depLoop
  else if r.id.toList.any (· ∈ illegalChars) then .error .revisionError
  else .ok ()

/-- `_map_branch_labels`: label keys are added to the map; a label equal to an existing key
    (revision id or earlier label) is a `RevisionError` -/
def mapBranchLabels (ids : List Id) : List Rev → List (String × Id) → Except Err (List (String × Id))
  | [], acc => .ok acc
  | r :: rest, acc =>
    let rec addLabels : List String → List (String × Id) → Except Err (List (String × Id))
      | [], acc => .ok acc
      | l :: ls, acc =>
        if l ∈ ids ∨ (acc.any (·.1 == l)) then .error .revisionError
        else addLabels ls (acc ++ [(l, r.id)])
    match addLabels r.labels acc with
    | .error e => .error e
    | .ok acc' => mapBranchLabels ids rest acc'

/-- `map_[key]` on the interim map (revision ids and branch labels) -/
def lookupKey (ids : List Id) (labelKeys : List (String × Id)) (k : String) : Option Id :=
  if k ∈ ids then some k else (labelKeys.find? (·.1 == k)).map (·.2)

/-- `_add_depends_on` for one revision (every name is known to resolve when this is used) -/
def resolveDeps (ids : List Id) (labelKeys : List (String × Id)) (deps : List String) : List Id :=
  deps.filterMap (lookupKey ids labelKeys)

def removeAll (l : List Id) (xs : List Id) : List Id := l.filter (fun x => x ∉ xs)

/-- is `given` a duplicate-free rearrangement of `computed`? (the harness passes the order in
    which Python iterated the `set`; the model checks that it is only an order) -/
def isPermOf (given computed : List Id) : Bool :=
  given.length == computed.length && given.all (· ∈ computed) && computed.all (· ∈ given)

structure LoadOpts where
  /-- observed iteration order of `_normalized_resolved_dependencies` per revision -/
  normOrder : List (Id × List Id) := []

/-- the revision objects after `_add_depends_on` -/
def phase1Revs (h : Hist) (labelKeys : List (String × Id)) : List LRev :=
  h.map (fun r =>
    ({ id := r.id, down := r.down, rdeps := resolveDeps (h.map (·.id)) labelKeys r.deps, ndeps := [],
       origLabels := r.labels, labels := r.labels } : LRev))

/-- first phase: everything up to and including `add_nextrev`/heads/bases (no `ndeps` yet) -/
def loadPhase1 (h : Hist) : Except Err LMap := do
  h.forM checkRev
  let ids := h.map (·.id)
  let labelKeys ← mapBranchLabels ids (h.filter (fun r => r.labels ≠ [])) []
  -- `map_[dep]` / `map_[downrev]` raise KeyError for a reference that is not present
  if h.any (fun r => (r.down ++ r.deps).any (fun d => (lookupKey ids labelKeys d).isNone)) then
    throw .keyError
  let revs := phase1Revs h labelKeys
  let m0 : LMap := { revs := revs, labelKeys := labelKeys, heads := [], realHeads := [], bases := [], realBases := [] }
  pure { m0 with
    heads := (revs.filter (fun r => (m0.nextrev r.id).isEmpty)).map (·.id)
    realHeads := (revs.filter (fun r => (m0.allNextrev r.id).isEmpty)).map (·.id)
    bases := (h.filter (fun r => r.down.isEmpty)).map (·.id)
    realBases := (h.filter (fun r => r.down.isEmpty ∧ r.deps.isEmpty)).map (·.id) }

/-- `_normalize_depends_on` for one revision: dependencies that are dependencies of a proper
    `down_revision`-ancestor are dropped -/
def normalizeOne (m : LMap) (r : LRev) : List Id :=
  if r.rdeps.isEmpty then []
  else
    let anc := (m.ancestorsNoDeps [r.id]).filter (· != r.id)
    let drop := anc.flatMap (fun a => ((m.get? a).map (·.rdeps)).getD [])
    removeAll (dedupe r.rdeps) drop

/-- the order in which Python iterated the set, if one was observed and it is only an order -/
def orderedNorm (o : LoadOpts) (i : Id) (computed : List Id) : List Id :=
  match o.normOrder.find? (·.1 == i) with
  | none => computed
  | some (_, given) => if isPermOf given computed then given else computed

/-- an observed order that is not a rearrangement of the computed set is a disagreement -/
def normOrderOk (o : LoadOpts) (m : LMap) : Bool :=
  m.revs.all (fun r =>
    match o.normOrder.find? (·.1 == r.id) with
    | none => true
    | some (_, given) => isPermOf given (normalizeOne m r))

/-- second phase: `_normalize_depends_on` for every revision -/
def withNorm (o : LoadOpts) (m1 : LMap) : LMap :=
  { m1 with revs := m1.revs.map (fun r => { r with ndeps := orderedNorm o r.id (normalizeOne m1 r) }) }

/-- one pass of `_revisions_in_cycles`: drop every revision none of whose down revisions remain -/
def peelOnce (succ : Id → List Id) (remaining : List Id) : List Id :=
  remaining.filter (fun r => (succ r).any (· ∈ remaining))

/-- `_revisions_in_cycles`: peel until nothing changes (at most one pass per revision) -/
def peel (succ : Id → List Id) : Nat → List Id → List Id
  | 0, remaining => remaining
  | fuel + 1, remaining =>
    let next := peelOnce succ remaining
    if next.length == remaining.length then remaining else peel succ fuel next

/-- `_detect_cycles` -/
def detectCycles (m : LMap) : Except Err Unit :=
  if m.revs.isEmpty then .ok ()
  else if m.heads.isEmpty ∨ m.bases.isEmpty then .error .cycle
  else
    let up := m.closure m.downOf m.heads
    let dn := m.closure m.nextrev m.bases
    if m.ids.any (fun i => ¬ (i ∈ up ∧ i ∈ dn)) then .error .cycle
    else if m.realHeads.isEmpty ∨ m.realBases.isEmpty then .error .depCycle
    else
      let up := m.closure m.allDownOf m.realHeads
      let dn := m.closure m.allNextrev m.realBases
      if m.ids.any (fun i => ¬ (i ∈ up ∧ i ∈ dn)) then .error .depCycle
      else if !(peel m.downOf m.ids.length m.ids).isEmpty then .error .cycle
      else if !(peel m.allDownOf m.ids.length m.ids).isEmpty then .error .depCycle
      else .ok ()

def isRealBranchPoint (m : LMap) (i : Id) : Bool := (m.allNextrev i).length > 1
def isMergePoint (m : LMap) (i : Id) : Bool := (m.downOf i).length > 1

/-- the `while parent and not parent._is_real_branch_point and not parent.is_merge_point` walk
    of `_add_branches`; returns the revisions that receive the labels -/
def walkDownLabels (m : LMap) : Nat → Id → List Id
  | 0, _ => []
  | fuel + 1, p =>
    if isRealBranchPoint m p || isMergePoint m p then []
    else
      match m.downOf p with
      | [d] => p :: walkDownLabels m fuel d
      | _ => [p]

/-- `_add_branches` for one labelled revision: all `down_revision`-descendants, then the walk
    down from the last node the traversal yielded -/
def branchMembers (m : LMap) (i : Id) : List Id :=
  let desc := m.descendantsNoDeps [i]       -- most recently visited first
  let last := desc.head?.getD i
  desc ++ walkDownLabels m (m.revs.length + 1) last

def addBranches (m : LMap) : LMap :=
  let labelled := m.revs.filter (fun r => r.origLabels ≠ [])
  let adds : List (Id × List String) :=
    labelled.flatMap (fun r => (branchMembers m r.id).map (fun x => (x, r.origLabels)))
  { m with revs := m.revs.map (fun r =>
      { r with labels := dedupe (r.origLabels ++ (adds.filter (·.1 == r.id)).flatMap (·.2)) }) }

def load (h : Hist) (o : LoadOpts := {}) : Except Err LMap := do
  let m1 ← loadPhase1 h
  if !normOrderOk o m1 then throw .assertion
  let m2 := withNorm o m1
  detectCycles m2
  pure (addBranches m2)

end Model.Rev
