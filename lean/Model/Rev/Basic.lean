/-!
# Revision histories: basic types and graph closures

Mirror of the data model of `alembic/script/revision.py` (`Revision`, `RevisionMap`).
-/
namespace Model.Rev

abbrev Id := String

/-- a revision file as written: `revision`, `down_revision`, `depends_on`, `branch_labels`
    (each already through `util.to_tuple`) -/
structure Rev where
  id : Id
  down : List Id
  deps : List String
  labels : List String
  deriving Repr, DecidableEq, Inhabited

/-- load order (the `OrderedDict` insertion order) -/
abbrev Hist := List Rev

/-- exception classes, as a small enum -/
inductive Err where
  | cycle | depCycle | loop | depLoop
  | multipleHeads | rangeNotAncestor | resolution | revisionError
  | keyError | assertion | commandError | outOfFuel
  deriving Repr, DecidableEq, Inhabited

def Err.name : Err → String
  | .cycle => "cycle" | .depCycle => "depCycle" | .loop => "loop" | .depLoop => "depLoop"
  | .multipleHeads => "multipleHeads" | .rangeNotAncestor => "rangeNotAncestor"
  | .resolution => "resolution" | .revisionError => "revisionError"
  | .keyError => "keyError" | .assertion => "assertion" | .commandError => "commandError"
  | .outOfFuel => "outOfFuel"

/-- `util.dedupe_tuple` / `unique_list`: keep first occurrences -/
def dedupe : List String → List String
  | [] => []
  | x :: r => x :: (dedupe r).filter (· != x)

/-! ## worklist closure (`RevisionMap._iterate_related_revisions`)

`todo` is the stack (head = top), `seen` the visited set in visiting order (most recent
first).  Python pushes `fn(rev)` left to right and pops from the right, so the successors are
pushed reversed.  The loop takes fuel; `closureFuel` is proved sufficient in `Lemmas/Rev`. -/
def iter (succ : Id → List Id) : Nat → List Id → List Id → List Id
  | 0, _, seen => seen
  | _ + 1, [], seen => seen
  | fuel + 1, x :: todo, seen =>
    if x ∈ seen then iter succ fuel todo seen
    else iter succ fuel ((succ x).reverse ++ todo) (x :: seen)

/-- same loop, also returning what is left on the stack (`[]` = the loop finished) -/
def iter' (succ : Id → List Id) : Nat → List Id → List Id → List Id × List Id
  | 0, todo, seen => (todo, seen)
  | _ + 1, [], seen => ([], seen)
  | fuel + 1, x :: todo, seen =>
    if x ∈ seen then iter' succ fuel todo seen
    else iter' succ fuel ((succ x).reverse ++ todo) (x :: seen)

/-- one unit per node plus one per outgoing edge: a bound on the number of loop iterations of
    `_iterate_related_revisions` (each node is expanded at most once, each stack entry popped once) -/
def costSum (succ : Id → List Id) : List Id → Nat
  | [] => 0
  | n :: r => (succ n).length + 1 + costSum succ r

def closureFuel (succ : Id → List Id) (nodes : List Id) (targets : List Id) : Nat :=
  targets.length + costSum succ nodes + 1

/-- the set of nodes reachable from `targets` along `succ` -/
def closureOf (succ : Id → List Id) (nodes targets : List Id) : List Id :=
  iter succ (closureFuel succ nodes targets) targets []

end Model.Rev
