import Model.Rev.Load

/-!
# The lazily loaded revision map as a state machine

`RevisionMap._revision_map`, `heads`, `bases`, `_real_heads`, `_real_bases` are
`memoized_property` attributes: the first read runs the load (`_revision_map`), which publishes the
four tuples as instance attributes *after* the cycle check; a load that raises publishes nothing,
so the next read runs the load again.  `ScriptDirectory.get_heads()`, `get_bases()` and
`get_current_head()` only read those attributes.

State = what has been published so far; one operation = one read of any of these accessors.
-/

namespace Model.Rev

/-- what a `RevisionMap` object holds between two reads: nothing, or the loaded map -/
structure Memo where
  loaded : Option LMap := none

inductive Accessor where
  | revisionMap | heads | bases | realHeads | realBases
  deriving DecidableEq, Repr

/-- the answer of one accessor on a loaded map (`revisionMap`: the revision ids) -/
def Accessor.read (a : Accessor) (m : LMap) : List Id :=
  match a with
  | .revisionMap => m.ids
  | .heads => m.heads
  | .bases => m.bases
  | .realHeads => m.realHeads
  | .realBases => m.realBases

/-- one read: served from what is published, otherwise the load runs and publishes only on success -/
def Memo.step (h : Hist) (o : LoadOpts) (s : Memo) (a : Accessor) : Memo × Except Err (List Id) :=
  match s.loaded with
  | some m => (s, .ok (a.read m))
  | none =>
    match load h o with
    | .ok m => ({ loaded := some m }, .ok (a.read m))
    | .error e => (s, .error e)

/-- a sequence of reads on one object; the answers in order -/
def Memo.run (h : Hist) (o : LoadOpts) : Memo → List Accessor → List (Except Err (List Id))
  | _, [] => []
  | s, a :: rest =>
    let (s', r) := Memo.step h o s a
    r :: Memo.run h o s' rest

end Model.Rev
