import Model.Rev.Resolve
/-!
# Choosing the migrations: `_parse_upgrade_target`, `_parse_downgrade_target`,
`_collect_upgrade_revisions`, `_collect_downgrade_revisions`, `_topological_sort`,
`ScriptDirectory._upgrade_revs/_downgrade_revs`
-/
namespace Model.Rev

def maximalBy (m : LMap) (s : List Id) : List Id :=
  s.filter (fun r => !(s.any (fun d => d != r && d ∈ m.descendantsNoDeps [r])))

/-- `_get_all_current` + `_filter_into_branch_heads` -/
def getAllCurrent (m : LMap) (rows : List Id) : List Id :=
  let top := dedupe (rows ++ m.ancestors rows)
  maximalBy m top

/-- `_parse_upgrade_target(current_revisions, target, assert_relative_length=True)`;
    `.ok [none]`-style results (`None`/`"base"` from an overwalk) make the caller's
    `is_revision` assertion fail, which is reported as `assertion`. -/
def parseUpgradeTarget (m : LMap) (rows : List Id) (target : String) : Except Err (List Id) := do
  match matchRelative target with
  | none =>
    let rs ← getRevisions m target
    rs.mapM (fun r => match r with | some i => pure i | none => throw .assertion)
  | some (label, symbol, rel) =>
    let unwrap (w : Option (Option Id)) : Except Err (List Id) :=
      match w with
      | some (some i) => pure [i]
      | _ => throw .assertion
    if rel > 0 then
      match symbol with
      | none => do
        let start : Option Id ← do
          match label with
          | none =>
            match rows with
            | [] => pure none
            | [r] => do
              -- `_walk(start=<str>)` resolves through `get_revision`
              let r' ← getRevision m r
              pure r'
            | _ => throw .revisionError
          | some l =>
            if l.isEmpty then
              match rows with
              | [] => pure none
              | [r] => getRevision m r
              | _ => throw .revisionError
            else do
              let cur ← getRevisionsMany m rows
              let cur := cur.filterMap id
              let s1 ← filterForLineage m cur l false
              let s2 ← if !s1.isEmpty then pure s1 else do
                let act ← filterForLineage m (m.ancestors cur).reverse l false
                let downs := act.flatMap m.normDownOf
                pure (dedupe (act.filter (· ∉ downs)))
              match s2 with
              | [] => pure none
              | [r] => pure (some r)
              | _ => throw .revisionError
        let w ← walk m start rel label true
        match w with
        | none => throw .revisionError
        | some none => throw .assertion
        | some (some i) => pure [i]
      | some sym => do
        let st ← getRevision m sym
        let w ← walk m st rel label true
        unwrap w
    else
      match symbol with
      | none => throw .revisionError
      | some sym => do
        let st ← match label with
          | none => getRevision m sym
          | some l => getRevision m (l ++ "@" ++ sym)
        let w ← walk m st rel none true
        -- a walk that ends on the `"base"` marker or `None` is not a revision
        match w with
        | some (some i) =>
          -- reaching base by walking down yields the string "base" (assertion), a revision otherwise
          pure [i]
        | _ => throw .assertion

/-- Python's `str.rpartition("@")`: `(before, after)` of the last `@`, `("", s)` if none -/
def rpartitionAt (s : String) : String × String :=
  let cs := s.toList
  match cs.reverse.span (· != '@') with
  | (afterRev, []) => ("", String.ofList afterRev.reverse)
  | (afterRev, _ :: beforeRev) => (String.ofList beforeRev.reverse, String.ofList afterRev.reverse)

/-- `_parse_downgrade_target(current_revisions, target, True)`: `(branch_label, target)`,
    `target = none` is base -/
def parseDowngradeTarget (m : LMap) (rows : List Id) (target : String) :
    Except Err (Option String × Option Id) := do
  match matchRelative target with
  | some (label, symbol, rel) =>
    if rel ≥ 0 then
      match symbol with
      | none => throw .revisionError
      | some sym => do
        let st ← getRevision m sym
        let w ← walk m st rel label true
        match w with
        | none => throw .revisionError
        | some r => pure (label, r)
    else do
      let (label', sym) : Option String × String ← do
        match symbol with
        | some s => pure (label, s)
        | none =>
          match label with
          | some l =>
            if l.isEmpty then
              match rows with
              | [] => throw .revisionError
              | r :: _ => pure (some r, r)
            else do
              let s1 ← filterForLineage m rows l false
              let s2 ← if !s1.isEmpty then pure s1 else filterForLineage m (getAllCurrent m rows) l false
              match s2 with
              | [s] => pure (label, s)
              | _ => throw .assertion
          | none =>
            match rows with
            | [] => throw .revisionError
            | r :: _ => pure (some r, r)
      let st ← match label' with
        | none => getRevision m sym
        | some l => getRevision m (l ++ "@" ++ sym)
      let w ← walk m st rel none true
      match w with
      | none => throw .revisionError
      | some r => pure (label', r)
  | none =>
    let (b, sym) := rpartitionAt target
    let r ← getRevision m sym
    pure (if b.isEmpty then none else some b, r)

/-! ## `_topological_sort`

The loop is written once, generically in the three things it reads from the revision map:
`nd` (`_normalized_down_revisions`), `ancOf` (`get_ancestors`: the ancestor set of one
revision, itself included) and `simple` (the test `not _normalized_resolved_dependencies and
len(_versioned_down_revisions) == 1` that licenses the in-place `discard`). -/

structure TopoState where
  todo : List Id
  heads : List Id
  ancs : List (List Id)
  idx : Nat
  output : List Id
  deriving Repr

/-- the `for check_head_index, ancestors in enumerate(ancestors_by_idx)` scan: first other
    head whose ancestor set contains the candidate -/
def findBlocking (cand : Id) (idx : Nat) : Nat → List (List Id) → Option Nat
  | _, [] => none
  | j, a :: rest => if j != idx && cand ∈ a then some j else findBlocking cand idx (j + 1) rest

def topoStepG (nd : Id → List Id) (ancOf : Id → List Id) (simple : Id → Bool) (s : TopoState) : TopoState :=
  match s.heads[s.idx]? with
  | none => s   -- unreachable: `idx` always indexes `heads`
  | some cand =>
    match findBlocking cand s.idx 0 s.ancs with
    | some j => { s with idx := j }
    | none =>
      let todo' := if cand ∈ s.todo then s.todo.filter (· != cand) else s.todo
      let out' := if cand ∈ s.todo then s.output ++ [cand] else s.output
      let toAdd := (nd cand).filter (fun x => x ∈ todo' && x ∉ s.heads)
      match toAdd with
      | [] =>
        { todo := todo', output := out', heads := s.heads.eraseIdx s.idx, ancs := s.ancs.eraseIdx s.idx,
          idx := s.idx - 1 }
      | h0 :: rest =>
        if simple cand then
          { todo := todo', output := out', heads := s.heads.set s.idx h0,
            ancs := s.ancs.set s.idx (((s.ancs[s.idx]?).getD []).filter (· != cand)), idx := s.idx }
        else
          { todo := todo', output := out', heads := s.heads.set s.idx h0 ++ rest,
            ancs := s.ancs.set s.idx (ancOf h0) ++ rest.map ancOf,
            idx := s.idx }

def topoLoopG (nd : Id → List Id) (ancOf : Id → List Id) (simple : Id → Bool) : Nat → TopoState → Except Err (List Id)
  | 0, _ => .error .outOfFuel
  | fuel + 1, s =>
    if s.heads.isEmpty then (if s.todo.isEmpty then .ok s.output else .error .assertion)
    else topoLoopG nd ancOf simple fuel (topoStepG nd ancOf simple s)

/-- fuel: every iteration either emits a revision or moves to a head of strictly higher rank -/
def topoFuel (todo : List Id) : Nat := (todo.length + 2) * (todo.length + 2)

def simpleRev (m : LMap) (c : Id) : Bool :=
  match m.get? c with
  | none => false
  | some r => r.ndeps.isEmpty && r.down.length == 1

/-- position in `list(self._revision_map)` -/
def mapIndex (m : LMap) (i : Id) : Nat := (m.ids.findIdx? (· == i)).getD m.ids.length

def insertSorted (m : LMap) (x : Id) : List Id → List Id
  | [] => [x]
  | y :: r => if mapIndex m x ≤ mapIndex m y then x :: y :: r else y :: insertSorted m x r

def sortByMap (m : LMap) (l : List Id) : List Id := l.foldr (insertSorted m) []

def topoInit (m : LMap) (revisions heads : List Id) : TopoState :=
  let todo := dedupe revisions
  let hs := sortByMap m (dedupe (heads.filter (· ∈ todo)))
  { todo := todo, heads := hs, ancs := hs.map (fun x => m.ancestors [x]), idx := 0, output := [] }

def topoSort (m : LMap) (revisions : List Id) (heads : List Id) : Except Err (List Id) :=
  let s := topoInit m revisions heads
  topoLoopG m.normDownOf (fun x => m.ancestors [x]) (simpleRev m) (topoFuel s.todo) s

/-! ## collecting -/

/-- `get_revisions(<rows of the version table>)`; a row that resolves to `None` trips `is_revision` -/
def resolveRows (m : LMap) (rows : List Id) : Except Err (List Id) := do
  let cur ← getRevisionsMany m rows
  cur.mapM (fun r => match r with | some i => pure i | none => throw Err.assertion)

/-- the set part of `_collect_upgrade_revisions(inclusive=False, implicit_base=True)`:
    `required_node_set - current_node_set` -/
def upgradeNeeds (m : LMap) (rows : List Id) (targets : List Id) : Except Err (List Id × List Id) := do
  let anc ← m.ancestorsCheck targets
  let cur ← resolveRows m rows
  let curAnc ← iterCheck m.normDownOf (closureFuel m.normDownOf m.ids cur) cur cur []
  pure ((dedupe (anc ++ targets)).filter (· ∉ curAnc ++ cur), cur)

/-- `_collect_upgrade_revisions(upper=target, lower=rows, inclusive=False, implicit_base=True)` -/
def collectUpgrade (m : LMap) (rows : List Id) (target : String) : Except Err (List Id × List Id) := do
  let targets ← parseUpgradeTarget m rows target
  let (needs, _) ← upgradeNeeds m rows targets
  pure (needs, targets)

/-- `ScriptDirectory._upgrade_revs`: the plan, first migration first -/
def upgradeRevs (m : LMap) (rows : List Id) (target : String) : Except Err (List Id) := do
  let (needs, targets) ← collectUpgrade m rows target
  let sorted ← topoSort m needs targets
  pure sorted.reverse

/-- the roots of a downgrade: the revisions that are removed first -/
def downgradeRoots (m : LMap) (label : Option String) (tgt : Option Id) : Except Err (List Id) := do
  let roots0 : List Id := match tgt with
    | none => (m.keys.filter (fun k => (m.downOf k.2).isEmpty)).map (·.2)
    | some t => m.nextrev t
  match label with
  | some l =>
    if !l.isEmpty && roots0.length > 1 then do
      let br ← resolveBranch m resolveFuel l
      let anc := match br with | some b => m.ancestorsNoDeps [b] | none => []
      let rs := dedupe (roots0.filter (· ∈ anc))
      if rs.isEmpty then throw .revisionError else pure rs
    else pure roots0
  | none => pure roots0

/-- the set part of `_collect_downgrade_revisions`: applied descendants of the roots -/
def downgradeSet (m : LMap) (roots heads : List Id) : List Id :=
  dedupe ((m.descendants roots).filter (· ∈ m.ancestors heads))

/-- `_collect_downgrade_revisions(upper=rows, lower=target, inclusive=False, implicit_base=False)` -/
def collectDowngrade (m : LMap) (rows : List Id) (target : String) : Except Err (List Id × List Id) := do
  let (label, tgt) ← parseDowngradeTarget m rows target
  let roots ← downgradeRoots m label tgt
  let heads ← resolveRows m rows
  let dg := downgradeSet m roots heads
  match tgt with
  | some t => if dg.isEmpty && t ∉ heads then throw .rangeNotAncestor else pure (dg, heads)
  | none => pure (dg, heads)

/-- `ScriptDirectory._downgrade_revs` -/
def downgradeRevs (m : LMap) (rows : List Id) (target : String) : Except Err (List Id) := do
  let (dg, heads) ← collectDowngrade m rows target
  topoSort m dg heads

end Model.Rev
