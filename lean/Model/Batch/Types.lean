/-!
# Vocabulary of the batch ("move and copy") model

Abstract SQLite tables (schema + rows), the batch operations of
`alembic/operations/batch.py`, and the error enum.  Names of types (`ty`), defaults and CHECK
texts are opaque tokens; `aff` is the token `SQLiteImpl.cast_for_batch_migrate` compares
(`type._type_affinity`, `"JSON"` for JSON types).
-/
namespace Model.Batch

/-- A value stored in a SQLite cell.  `real` carries the Python `repr` plus `floor`/`frac` so that
    CHECK comparisons against integer literals are exact.  `conv` is the marker for "converted by
    SQLite to column type `ty`" (`viaCast` = an explicit `CAST(.. AS ty)` was emitted); it is resolved
    through the conversion table supplied by the harness (SQLite's own CAST), and stays a marker
    where the table has no entry. -/
inductive Value where
  | null
  | int (n : Int)
  | real (repr : String) (floor : Int) (frac : Bool)
  | text (s : String)
  | blob (hex : String)
  | conv (ty : String) (viaCast : Bool) (v : Value)
  deriving DecidableEq, Repr, Inhabited

abbrev Row := List Value

structure ColDef where
  name : String
  ty : String
  aff : String
  nullable : Bool
  default : Option String
  /-- value SQLite stores when the column is omitted from an INSERT (`null` without default) -/
  dval : Value
  pk : Bool
  /-- `Column(index=True)`: the `Table()` constructor makes an index `ix_<table>_<col>` -/
  index : Bool := false
  /-- `Column(unique=True)` given to `add_column`: `toimpl.add_column` forwards the column's unnamed UniqueConstraint
      to `add_constraint`, which rejects it ("Constraint must have a name") -/
  unique : Bool := false
  /-- generated column (`Computed(...)` / `GENERATED ALWAYS AS (expr)`): the expression text, an opaque token -/
  computed : Option String := none
  /-- `STORED` (persisted) or `VIRTUAL` -/
  persisted : Bool := false
  /-- column names the generating expression reads (SQLite rejects `CREATE TABLE` when one is missing) -/
  computedMentions : List String := []
  deriving DecidableEq, Repr, Inhabited

inductive CmpOp where
  | gt | ge | lt | le | eq | ne
  deriving DecidableEq, Repr

/-- the "simple CHECK" fragment the model can evaluate on rows: `col op k` -/
structure Pred where
  col : String
  op : CmpOp
  k : Int
  deriving DecidableEq, Repr

inductive ConstKind where
  | pk | unique | check | fk
  deriving DecidableEq, Repr

/-- A table constraint.  `cols` = column keys (`_columns_for_constraint`; empty for a CHECK whose
    text is a `text()` clause).  `text`/`mentions`/`pred` only for CHECK; `rtable`/`rcols` only for FK.
    `isTablePk` marks the object `table.primary_key` (mutated by `drop_column`). -/
structure Const where
  kind : ConstKind
  name : Option String
  cols : List String
  text : String := ""
  mentions : List String := []
  pred : Option Pred := none
  rtable : String := ""
  rcols : List String := []
  isTablePk : Bool := false
  /-- FK added inside a batch on a table in a named schema *without* `referent_schema`: the copy is re-pointed at
      `<schema>.<referent>` while `_setup_referent` stubs the unqualified table → `NoReferencedTableError` at CREATE TABLE -/
  unresolvedReferent : Bool := false
  deriving DecidableEq, Repr

structure Index where
  name : String
  cols : List String
  unique : Bool
  /-- partial index: the text after `WHERE` (`sqlite_where=text(...)`), an opaque token carried verbatim -/
  where_ : Option String := none
  /-- column names the predicate mentions (SQLite rejects `CREATE INDEX` when one is missing) -/
  whereMentions : List String := []
  /-- the predicate in the `col op k` fragment, when it is one (to evaluate partial UNIQUE indexes on rows) -/
  wherePred : Option Pred := none
  deriving DecidableEq, Repr

/-- Schema of one table as SQLite holds it. -/
structure Schema where
  cols : List ColDef
  pk : Option Const
  uniques : List Const
  checks : List Const
  fks : List Const
  indexes : List Index
  deriving DecidableEq, Repr

structure Tbl where
  schema : Schema
  rows : List Row
  deriving DecidableEq, Repr

/-- `server_default` argument of `alter_column`: `False` (leave), `None` (remove), a new default. -/
inductive DefaultChange where
  | keep
  | drop
  | set (text : String) (dval : Value)
  deriving DecidableEq, Repr

inductive BatchOp where
  | addColumn (col : ColDef) (before after : Option String) (clauseDefault : Bool)
  | dropColumn (name : String)
  | alterColumn (name : String) (newName : Option String) (newType : Option (String × String))
      (nullable : Option Bool) (default : DefaultChange)
  | addConstraint (c : Const)
  | dropConstraint (name : String)
  | createIndex (ix : Index)
  | dropIndex (name : String)
  /-- not an operation of its own: the `alter_column` / `drop_column` call that follows was given
      `existing_type=` a schema type (Boolean / Enum with `create_constraint=True`) whose CHECK constraint is
      called `name`; the flags say whether that call renames the column, changes its type, or drops it -/
  | existingTypeConst (name : String) (renames retypes drops : Bool)
  /-- `create_table_comment` / `drop_table_comment`: a no-op in `ApplyBatchImpl` (SQLite has no comments) that still
      counts as an operation for `requires_recreate_in_batch` -/
  | tableComment
  deriving DecidableEq, Repr

inductive Err where
  -- Python-level
  | commandError | keyError | valueError | noSuchConstraint | noSuchIndex | needName | circular
  | duplicateColumnPy | noReferencedTable | noReferencedColumn
  -- SQLite
  | alreadyExists | noSuchColumn | noSuchTable | noSuchIndexDb | notNull | unique | check | addNotNull
  | duplicateColumn
  | generatedColumn      -- SQLite: "error in generated column" (a generated column with a DEFAULT)
  | injected
  deriving DecidableEq, Repr

def Err.toString : Err → String
  | .commandError => "commandError" | .keyError => "keyError" | .valueError => "valueError"
  | .noSuchConstraint => "noSuchConstraint" | .noSuchIndex => "noSuchIndex" | .needName => "needName"
  | .circular => "circular" | .duplicateColumnPy => "duplicateColumnPy" | .noReferencedTable => "noReferencedTable"
  | .noReferencedColumn => "noReferencedColumn"
  | .alreadyExists => "alreadyExists" | .noSuchColumn => "noSuchColumn" | .noSuchTable => "noSuchTable"
  | .noSuchIndexDb => "noSuchIndexDb"
  | .notNull => "notNull" | .unique => "unique" | .check => "check" | .addNotNull => "addNotNull"
  | .duplicateColumn => "duplicateColumn" | .generatedColumn => "generatedColumn" | .injected => "injected"

/-! ## association lists with Python `dict` semantics (insertion ordered) -/

def alookup {α : Type} (k : String) : List (String × α) → Option α
  | [] => none
  | (k', v) :: r => if k' == k then some v else alookup k r

/-- `d[k] = v`: replaces in place when the key exists, appends otherwise -/
def aset {α : Type} (k : String) (v : α) : List (String × α) → List (String × α)
  | [] => [(k, v)]
  | (k', v') :: r => if k' == k then (k, v) :: r else (k', v') :: aset k v r

/-- `del d[k]` (caller checks membership) -/
def adel {α : Type} (k : String) (l : List (String × α)) : List (String × α) :=
  l.filter (fun p => p.1 != k)

def akeys {α : Type} (l : List (String × α)) : List String := l.map (·.1)

def ahas {α : Type} (k : String) (l : List (String × α)) : Bool := (akeys l).contains k

/-- `list.remove(x)`: first occurrence -/
def removeFirst (x : String) : List String → List String
  | [] => []
  | y :: r => if y == x then r else y :: removeFirst x r

def distinct : List String → Bool
  | [] => true
  | x :: r => !r.contains x && distinct r

end Model.Batch
