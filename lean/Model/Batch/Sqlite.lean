import Model.Batch.State
/-!
# Abstract SQLite: the two tables a batch recreate touches

`Db` holds the table under its original name and under the temporary name.  Statement semantics
(`applyStmt`) cover what the recreate sequence can run into on SQLite: `CREATE TABLE` rejects a
CHECK mentioning an unknown column and an existing table name; `INSERT … SELECT` projects the rows
through the transfers and evaluates NOT NULL / CHECK / UNIQUE+PK of the new table row by row;
`CREATE INDEX` rejects a duplicate index name, an unknown column and (UNIQUE) duplicate keys.
Type conversions (explicit `CAST` and storing into a column of another declared type) are SQLite's:
they are looked up in a conversion table computed by the harness on a real SQLite, and remain
`Value.conv` markers where the table has no entry.  Validated against real SQLite by the
correspondence check; trusted as a description of SQLite.
-/
namespace Model.Batch

structure Db where
  orig : Option Tbl
  tmp : Option Tbl
  deriving DecidableEq, Repr

/-- graph of SQLite's conversions on the values that occur: `(ty, viaCast, v, result)` -/
abbrev ConvTable := List (String × Bool × Value × Value)

def convert (ct : ConvTable) (ty : String) (viaCast : Bool) (v : Value) : Value :=
  if v == .null then .null else       -- CAST(NULL AS t) = NULL, NULL is stored as NULL in every column
  match ct.find? (fun e => e.1 == ty && e.2.1 == viaCast && e.2.2.1 == v) with
  | some e => e.2.2.2
  | none => .conv ty viaCast v

def colIndex (cols : List ColDef) (name : String) : Option Nat :=
  let i := (cols.map (·.name)).idxOf name
  if i < cols.length then some i else none

def cell (cols : List ColDef) (row : Row) (name : String) : Value :=
  match colIndex cols name with
  | some i => row.getD i .null
  | none => .null

def evalExpr (ct : ConvTable) (oldCols : List ColDef) (row : Row) : Expr → Value
  | .col k => cell oldCols row k
  | .cast e ty => convert ct ty true (evalExpr ct oldCols row e)

def srcType (oldCols : List ColDef) (k : String) : Option String :=
  (oldCols.find? (·.name == k)).map (·.ty)

/-- value of one column of the new table for one old row: the transfer expression (stored into a
    column whose declared type may differ), or the column default when the column is not fed -/
def generatedValue : Value := .text "<generated>"

def feedValue (ct : ConvTable) (oldCols : List ColDef) (row : Row) (f : ColDef × Option Expr) : Value :=
  -- a generated column: SQLite evaluates the (opaque) expression on the inserted row; the model writes a placeholder
  if f.1.computed.isSome then generatedValue else
  match f.2 with
  | some e =>
    let v := evalExpr ct oldCols row e
    if srcType oldCols e.base == some f.1.ty then v else convert ct f.1.ty false v
  | none => convert ct f.1.ty false f.1.dval     -- the column default, stored into the column's (final) declared type

def project (ct : ConvTable) (oldCols : List ColDef) (feeds : List (ColDef × Option Expr)) (row : Row) : Row :=
  feeds.map (feedValue ct oldCols row)

/-! ## constraint evaluation on rows -/

def cmpInt (op : CmpOp) (x k : Int) : Bool :=
  match op with
  | .gt => x > k | .ge => x ≥ k | .lt => x < k | .le => x ≤ k | .eq => x == k | .ne => x != k

/-- SQLite comparison `v op k` for an integer literal `k`; NULL makes a CHECK pass; text and blobs
    sort after every number -/
def evalPred (p : Pred) (v : Value) : Bool :=
  match v with
  | .null => true
  | .int n => cmpInt p.op n p.k
  | .real _ fl frac =>
    if frac then
      match p.op with
      | .gt => fl ≥ p.k | .ge => fl ≥ p.k | .lt => fl < p.k | .le => fl < p.k | .eq => false | .ne => true
    else cmpInt p.op fl p.k
  | .text _ => p.op == .gt || p.op == .ge || p.op == .ne
  | .blob _ => p.op == .gt || p.op == .ge || p.op == .ne
  | .conv _ _ _ => true

def isPrefixL : List Char → List Char → Bool
  | [], _ => true
  | _ :: _, [] => false
  | a :: as, b :: bs => a == b && isPrefixL as bs

/-- `sub` occurs in `s` (structural, so that concrete instances reduce in the kernel) -/
def hasSubL (sub : List Char) : List Char → Bool
  | [] => sub.isEmpty
  | c :: cs => isPrefixL sub (c :: cs) || hasSubL sub cs

def hasSub (s sub : String) : Bool := hasSubL sub.toList (s.toList.map Char.toUpper)

/-- SQLite gives a column TEXT affinity when its declared type contains CHAR, CLOB or TEXT (and not INT, which wins) -/
def textAffinity (ty : String) : Bool :=
  !hasSub ty "INT" && (hasSub ty "CHAR" || hasSub ty "CLOB" || hasSub ty "TEXT")

/-- bytewise (= code point) lexicographic order of two texts -/
def ltL : List Char → List Char → Bool
  | _, [] => false
  | [], _ :: _ => true
  | a :: as, b :: bs => a.toNat < b.toNat || (a.toNat == b.toNat && ltL as bs)

def cmpStr (op : CmpOp) (a b : String) : Bool :=
  let lt := ltL a.toList b.toList
  let gt := ltL b.toList a.toList
  match op with
  | .gt => gt | .ge => !lt | .lt => lt | .le => !gt | .eq => a == b | .ne => a != b

/-- `col op k` on a column of declared type `ty`.  Comparing a TEXT-affinity column with a numeric literal applies TEXT affinity to
    the literal: the stored text is compared with the literal's text, bytewise (= code point order for UTF-8); every other column
    compares as `evalPred` says. -/
def evalPredCol (ty : String) (p : Pred) (v : Value) : Bool :=
  if textAffinity ty then
    match v with
    | .null => true
    | .text s => cmpStr p.op s (toString p.k)
    | .blob _ => p.op == .gt || p.op == .ge || p.op == .ne      -- a BLOB sorts after every TEXT
    | _ => evalPred p v
  else evalPred p v

def colType (cols : List ColDef) (name : String) : String :=
  match cols.find? (·.name == name) with
  | some c => c.ty
  | none => ""

def uniqueKeys (s : Schema) : List (List String) :=
  ((match s.pk with
   | some p => if p.cols.isEmpty then [] else [p.cols]
   | none => []) ++ s.uniques.map (·.cols) ++
   -- UNIQUE indexes already on the table (e.g. the one `Column(unique=True, index=True)` puts on the temporary table)
   ((s.indexes.filter (fun i => i.unique && i.where_.isNone)).map (·.cols))).filter (fun key =>
     -- keys over a generated column cannot be evaluated on the placeholder (not generated by the harness)
     !key.any (fun k => s.cols.any (fun c => c.name == k && c.computed.isSome)))

def keyOf (cols : List ColDef) (key : List String) (r : Row) : List Value := key.map (cell cols r)

def keyClash (cols : List ColDef) (key : List String) (inserted : List Row) (r : Row) : Bool :=
  let k := keyOf cols key r
  !k.contains .null && inserted.any (fun r' => keyOf cols key r' == k)

/-- first violation SQLite reports for row `r` (order: NOT NULL, CHECK, uniqueness) -/
def rowViolation (s : Schema) (inserted : List Row) (r : Row) : Option Err :=
  if s.cols.any (fun c => !c.nullable && cell s.cols r c.name == .null) then some .notNull
  else if s.checks.any (fun c => match c.pred with
      | some p => (colIndex s.cols p.col).isSome && !evalPredCol (colType s.cols p.col) p (cell s.cols r p.col)
      | none => false) then some .check
  else if (uniqueKeys s).any (fun k => keyClash s.cols k inserted r) then some .unique
  else none

def insertRows (s : Schema) : List Row → List Row → Except Err (List Row)
  | acc, [] => .ok acc
  | acc, r :: rest =>
    match rowViolation s acc r with
    | some e => .error e
    | none => insertRows s (acc ++ [r]) rest

/-! ## statements -/

inductive Stmt where
  | createTmp (s : Schema)
  | createTmpIndex (ix : Index)
  | insertSelect (feeds : List (ColDef × Option Expr))
  | dropOld
  | dropTmp
  | renameTmp
  | createIndex (ix : Index)
  | alterAdd (c : ColDef)
  | dropIndex (name : String)
  deriving DecidableEq, Repr

def Stmt.isDml : Stmt → Bool
  | .insertSelect _ => true
  | _ => false

def indexNames (db : Db) : List String :=
  (match db.orig with
   | some t => t.schema.indexes.map (·.name)
   | none => []) ++
  (match db.tmp with
   | some t => t.schema.indexes.map (·.name)
   | none => [])

def checkMentionsOk (s : Schema) : Bool :=
  s.checks.all (fun c => c.mentions.all (fun m => (s.cols.map (·.name)).contains m)) &&
  -- the expression of a generated column must only read columns of the table
  s.cols.all (fun c => c.computedMentions.all (fun m => (s.cols.map (·.name)).contains m))

/-- does the row belong to the (partial) index?  SQL `WHERE`: a NULL operand makes the predicate not true -/
def rowInIndex (cols : List ColDef) (ix : Index) (r : Row) : Bool :=
  match ix.wherePred with
  | some p => cell cols r p.col != .null && evalPredCol (colType cols p.col) p (cell cols r p.col)
  | none => true

/-- `CREATE [UNIQUE] INDEX … [WHERE …]` on table `t` in database `db` -/
def addIndex (db : Db) (t : Tbl) (ix : Index) : Except Err Tbl :=
  if (indexNames db).contains ix.name then .error .alreadyExists
  else if !ix.cols.all (fun c => (colIndex t.schema.cols c).isSome) ||
          !ix.whereMentions.all (fun c => (colIndex t.schema.cols c).isSome) then .error .noSuchColumn
  else if ix.unique && (insertRows { t.schema with pk := none, uniques := [{ kind := .unique, name := none, cols := ix.cols }],
                                                    checks := [], cols := t.schema.cols.map (fun c => { c with nullable := true }) }
                                  [] (t.rows.filter (rowInIndex t.schema.cols ix))).toOption.isNone then .error .unique
  else .ok { t with schema := { t.schema with indexes := t.schema.indexes ++ [ix] } }

def applyStmt (ct : ConvTable) (db : Db) : Stmt → Except Err Db
  | .createTmp s =>
    if db.tmp.isSome then .error .alreadyExists
    else if s.cols.any (fun c => c.computed.isSome && c.default.isSome) then .error .generatedColumn
    else if !checkMentionsOk s then .error .noSuchColumn
    else .ok { db with tmp := some { schema := s, rows := [] } }
  | .createTmpIndex ix =>
    match db.tmp with
    | none => .error .noSuchTable
    | some t => (addIndex db t ix).map (fun t' => { db with tmp := some t' })
  | .insertSelect feeds =>
    match db.orig, db.tmp with
    | some o, some t =>
      (insertRows t.schema t.rows (o.rows.map (project ct o.schema.cols feeds))).map
        (fun rows => { db with tmp := some { t with rows := rows } })
    | _, _ => .error .noSuchTable
  | .dropOld =>
    match db.orig with
    | some _ => .ok { db with orig := none }
    | none => .error .noSuchTable
  | .dropTmp =>
    match db.tmp with
    | some _ => .ok { db with tmp := none }
    | none => .error .noSuchTable
  | .renameTmp =>
    match db.tmp, db.orig with
    | some t, none => .ok { orig := some t, tmp := none }
    | some _, some _ => .error .alreadyExists
    | none, _ => .error .noSuchTable
  | .createIndex ix =>
    match db.orig with
    | none => .error .noSuchTable
    | some t => (addIndex db t ix).map (fun t' => { db with orig := some t' })
  | .alterAdd c =>
    match db.orig with
    | none => .error .noSuchTable
    | some t =>
      if (colIndex t.schema.cols c.name).isSome then .error .duplicateColumn
      else if !c.nullable && c.default.isNone && !t.rows.isEmpty then .error .addNotNull   -- only on a non-empty table
      else .ok { db with orig := some { schema := { t.schema with cols := t.schema.cols ++ [c] },
                                        rows := t.rows.map (· ++ [c.dval]) } }
  | .dropIndex n =>
    match db.orig with
    | none => .error .noSuchIndexDb
    | some t =>
      if (t.schema.indexes.map (·.name)).contains n then
        .ok { db with orig := some { t with schema := { t.schema with indexes := t.schema.indexes.filter (·.name != n) } } }
      else .error .noSuchIndexDb

/-! ## connection: who opens a transaction

Three ways a SQLAlchemy connection to SQLite runs (all validated against the real driver):

* **pysqlite legacy** (default): `sqlite3` opens a transaction implicitly before DML only; DDL neither opens nor
  commits one; SQLAlchemy's `Connection.begin()` emits nothing, its `commit()/rollback()` end whatever the
  driver opened.  (`implicitBegin = true`, starts outside a transaction.)
* **AUTOCOMMIT** (`isolation_level="AUTOCOMMIT"`): every statement is committed on its own, `rollback()` undoes
  nothing.  (`implicitBegin = false`, starts outside a transaction.)
* **the BEGIN recipe** (driver `isolation_level=None` + `BEGIN` emitted on SQLAlchemy's `begin` event): the whole
  scope is one real transaction, DDL included.  (starts inside a transaction.) -/

inductive ConnMode where
  | pysqliteLegacy | autocommit | explicitBegin
  deriving DecidableEq, Repr

structure Conn where
  committed : Db
  working : Db
  inTxn : Bool
  /-- the driver opens a transaction before DML (pysqlite legacy mode) -/
  implicitBegin : Bool := true
  deriving Repr

def Conn.fresh (db : Db) : Conn := { committed := db, working := db, inTxn := false }

def Conn.start (mode : ConnMode) (db : Db) : Conn :=
  match mode with
  | .pysqliteLegacy => { committed := db, working := db, inTxn := false, implicitBegin := true }
  | .autocommit => { committed := db, working := db, inTxn := false, implicitBegin := false }
  | .explicitBegin => { committed := db, working := db, inTxn := true, implicitBegin := false }

/-- execute one statement; a failing DML statement has already opened the implicit transaction -/
def Conn.exec (ct : ConvTable) (c : Conn) (s : Stmt) : Conn × Option Err :=
  let c1 := if s.isDml && c.implicitBegin then { c with inTxn := true } else c
  match applyStmt ct c1.working s with
  | .error e => (c1, some e)
  | .ok db => (if c1.inTxn then { c1 with working := db } else { c1 with working := db, committed := db }, none)

def Conn.commit (c : Conn) : Conn := { c with committed := c.working, working := c.working, inTxn := false }
def Conn.rollback (c : Conn) : Conn := { c with committed := c.committed, working := c.committed, inTxn := false }

end Model.Batch
