import Model.Batch.Sqlite
/-!
# `ApplyBatchImpl._create` and `BatchOperationsImpl.flush`

```
self._transfer_elements_to_new_table()
op_impl.create_table(self.new_table)          # CREATE TABLE, then CREATE INDEX for table.indexes: outside the try
try:
    op_impl._exec(insert … from_select …)
    op_impl.drop_table(self.table)
except:
    op_impl.drop_table(self.new_table)
    raise
else:
    op_impl.rename_table(temp, name)
    for idx in self._gather_indexes_from_both_tables(): op_impl.create_index(idx)
```
executed on the abstract connection of `Model.Batch.Sqlite`, with a failure oracle: `fault = some k`
makes the `k`-th executed statement (0-based, counting every statement that reaches the cursor,
the clean-up `DROP` included) raise before it runs (what the harness does through
`before_cursor_execute`); natural failures come from `applyStmt`.
-/
namespace Model.Batch

/-- Python class of the exception a failing statement raises.  The handler in `_create` is a bare `except:`, which
    catches every `BaseException`; so the kind is carried but **never consulted**: no function of the model reads
    it, and every theorem (quantified over all plans) visibly holds for each kind. -/
inductive FailKind where
  | exception          -- an `Exception` (DBAPI errors, …)
  | keyboardInterrupt  -- `KeyboardInterrupt`
  | systemExit         -- `SystemExit`
  | baseException      -- any other `BaseException` that is not an `Exception` (`asyncio.CancelledError`, `GeneratorExit`)
  deriving DecidableEq, Repr

/-- everything `_create` needs from the `ApplyBatchImpl` state -/
structure Plan where
  newSchema : Schema
  tmpIndexes : List Index
  feeds : List (ColDef × Option Expr)
  /-- `_gather_indexes_from_both_tables()`, evaluated after the rename -/
  gather : Except Err (List Index)
  /-- `impl.transactional_ddl` (dialect default or the `transactional_ddl` option of the context).  `_create` does
      not consult it: no function below reads this field, so every theorem holds for both values. -/
  transactionalDdl : Bool := false
  /-- class of the exception the failing statement raises; see `FailKind`: not read by `_create`'s bare `except:` -/
  failKind : FailKind := .exception

def State.plan (st : State) : Plan :=
  { newSchema := st.newSchema, tmpIndexes := st.tmpIndexes, feeds := st.feeds, gather := st.gatherIndexes }

structure Run where
  conn : Conn
  /-- number of statements that reached the cursor so far -/
  n : Nat
  trace : List Stmt

def Run.start (c : Conn) : Run := { conn := c, n := 0, trace := [] }

/-- one statement through `before_cursor_execute` (fault injection) and the cursor -/
def step (ct : ConvTable) (fault : Option Nat) (r : Run) (s : Stmt) : Run × Option Err :=
  if fault == some r.n then ({ r with n := r.n + 1, trace := r.trace ++ [s] }, some .injected)
  else
    let (c, e) := r.conn.exec ct s
    ({ conn := c, n := r.n + 1, trace := r.trace ++ [s] }, e)

/-- statements in sequence, stopping at the first exception -/
def execAll (ct : ConvTable) (fault : Option Nat) : Run → List Stmt → Run × Option Err
  | r, [] => (r, none)
  | r, s :: rest =>
    match step ct fault r s with
    | (r', some e) => (r', some e)
    | (r', none) => execAll ct fault r' rest

/-- `except: op_impl.drop_table(self.new_table); raise` (an exception of the clean-up replaces the original one) -/
def cleanup (ct : ConvTable) (fault : Option Nat) (r : Run) (e : Err) : Run × Option Err :=
  match step ct fault r .dropTmp with
  | (r, some e2) => (r, some e2)
  | (r, none) => (r, some e)

/-- `else: op_impl.rename_table(...); for idx in self._gather_indexes_from_both_tables(): op_impl.create_index(idx)` -/
def elseBranch (ct : ConvTable) (fault : Option Nat) (p : Plan) (r : Run) : Run × Option Err :=
  match step ct fault r .renameTmp with
  | (r, some e) => (r, some e)
  | (r, none) =>
    match p.gather with
    | .error e => (r, some e)
    | .ok ixs => execAll ct fault r (ixs.map .createIndex)

/-- `try: INSERT … SELECT; DROP original   except: …   else: …` -/
def tryBlock (ct : ConvTable) (fault : Option Nat) (p : Plan) (r : Run) : Run × Option Err :=
  match execAll ct fault r [.insertSelect p.feeds, .dropOld] with
  | (r, some e) => cleanup ct fault r e
  | (r, none) => elseBranch ct fault p r

/-- `ApplyBatchImpl._create` after `_transfer_elements_to_new_table` -/
def create (ct : ConvTable) (fault : Option Nat) (p : Plan) (r : Run) : Run × Option Err :=
  -- op_impl.create_table(self.new_table): CREATE TABLE, then CREATE INDEX for table.indexes -- before the try
  match execAll ct fault r (.createTmp p.newSchema :: p.tmpIndexes.map .createTmpIndex) with
  | (r, some e) => (r, some e)
  | (r, none) => tryBlock ct fault p r

/-- how the enclosing scope ends: `_ensure_scope_for_ddl` / the caller's `with conn.begin()` roll back
    on an exception; `commitOnError` = the caller swallowed the exception and committed -/
def finish (commitOnError : Bool) (x : Run × Option Err) : Conn :=
  if x.2.isNone || commitOnError then x.1.conn.commit else x.1.conn.rollback

/-! ## flush -/

/-- `toimpl.add_column`: a `Column(index=True)` is followed by `create_index(ix_<table>_<col>)` -/
def expandOps (tableName : String) : List BatchOp → List BatchOp
  | [] => []
  | .addColumn c b a cd :: r =>
    -- impl.add_column; then add_constraint for every non-PK constraint of the column's table; then create_index
    .addColumn c b a cd ::
      -- `Column(unique=True)` alone makes an (unnamed) UniqueConstraint; together with `index=True` a UNIQUE index instead
      ((if c.unique && !c.index then [BatchOp.addConstraint { kind := .unique, name := none, cols := [c.name] }] else []) ++
       (if c.index then [BatchOp.createIndex { name := "ix_" ++ tableName ++ "_" ++ c.name, cols := [c.name], unique := c.unique }] else []) ++
       expandOps tableName r)
  | o :: r => o :: expandOps tableName r

/-- Resolution of foreign keys added without `referent_schema` on a table in a named schema.  `_setup_referent` stubs the
    referent table of every kept FK *as its original spec names it*; the copy of an unqualified FK is re-pointed at
    `<schema>.<referent>`, which exists in the new MetaData only if another (qualified / reflected) kept FK refers to the same
    table — and then must find its column there.  First offending FK decides (compile time of CREATE TABLE). -/
def referentError (ks : List Const) : Option Err :=
  let fks := ks.filter (·.kind == .fk)
  let resolved := fks.filter (!·.unresolvedReferent)
  (fks.filter (·.unresolvedReferent)).findSome? (fun u =>
    let same := resolved.filter (·.rtable == u.rtable)
    if same.isEmpty then some .noReferencedTable
    else if u.rcols.all (fun c => same.any (·.rcols.contains c)) then none
    else some .noReferencedColumn)

/-- `BatchOperationsImpl.add_column`: position arguments need a recreate *at the time of the call* -/
def queueError (always : Bool) : List BatchOp → List BatchOp → Bool
  | _, [] => false
  | sofar, .addColumn c b a cd :: r =>
    ((b.isSome || a.isSome) && !shouldRecreate always sofar) || queueError always (sofar ++ [.addColumn c b a cd]) r
  | sofar, o :: r => queueError always (sofar ++ [o]) r

/-- the non-recreate branch of `flush`: each queued op goes to the plain SQLite impl -/
def directStmts : List BatchOp → List Stmt
  | [] => []
  | .addColumn c _ _ _ :: r => .alterAdd c :: directStmts r
  | .createIndex ix :: r => .createIndex ix :: directStmts r
  | .dropIndex n :: r => .dropIndex n :: directStmts r
  | _ :: r => directStmts r

/-- Does the batch take the move-and-copy path?  The rule the harness uses to decide whether a failed run is a failed *recreate*
    (C11's subject): `recreate='always'`, or under `'auto'` some queued operation other than `create_index` / `drop_index` / an
    `add_column` without a clause default — evaluated on the queue as `toimpl` fills it (`expandOps`). -/
def recreates (tableName : String) (always : Bool) (ops : List BatchOp) : Bool :=
  always || (expandOps tableName ops).any opForcesRecreate

structure Outcome where
  recreated : Bool
  trace : List Stmt
  err : Option Err
  final : Db

/-- `with op.batch_alter_table(t, recreate=…, copy_from=…) as b: ops` on a connection whose database is `db` -/
def runBatch (ct : ConvTable) (tableName : String) (reflected always : Bool) (ops : List BatchOp)
    (fault : Option Nat) (commitOnError : Bool) (db : Db) (mode : ConnMode := .pysqliteLegacy)
    (transactionalDdl : Bool := false) (copyFrom : Option Schema := none) (failKind : FailKind := .exception)
    (partialReordering : List (List String) := []) (schemaLabel : String := "") : Outcome :=
  -- `toimpl.add_column` names the index of `Column(index=True)` after "<schema>_<table>"
  let ops := expandOps (schemaLabel ++ tableName) ops
  let c0 := Conn.start mode db
  if queueError always [] ops then { recreated := false, trace := [], err := some .commandError, final := db }
  else if !shouldRecreate always ops then
    let x := execAll ct fault (Run.start c0) (directStmts ops)
    { recreated := false, trace := x.1.trace, err := x.2, final := (finish commitOnError x).committed }
  else
    -- `copy_from=` a Table object (no reflection, the table need not exist), else reflect the table under the original name
    let src : Option Schema := match copyFrom with
      | some s => some s
      | none => db.orig.map (·.schema)
    match src with
    | none => { recreated := true, trace := [], err := some .noSuchTable, final := db }
    | some schema =>
      match ((State.init tableName reflected schema partialReordering schemaLabel).applyOps ops).bind State.reorder with
      | .error e => { recreated := true, trace := [], err := some e, final := db }
      | .ok st =>
        if !distinct (st.columns.map (·.2.name)) then
          { recreated := true, trace := [], err := some .duplicateColumnPy, final := db }
        else if (referentError st.keptConsts).isSome then
          -- compiling CREATE TABLE: the foreign key's referent table / column is not in the MetaData (before any statement)
          { recreated := true, trace := [], err := referentError st.keptConsts, final := db }
        else
          let x := create ct fault { st.plan with transactionalDdl := transactionalDdl, failKind := failKind } (Run.start c0)
          { recreated := true, trace := x.1.trace, err := x.2, final := (finish commitOnError x).committed }

end Model.Batch
