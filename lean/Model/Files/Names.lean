/-!
# File-name matchers and `version_locations` splitting (C19)

Mirror of the module-level regexes of `alembic/script/base.py`

    _sourceless_rev_file  = re.compile(r"(?!\.\#|__init__\.)(.*\.py)(c|o)?$")
    _only_source_rev_file = re.compile(r"(?!\.\#|__init__\.)(.*\.py)$")
    _legacy_rev           = re.compile(r"([a-f0-9]+)\.py$")
    _split_on_space_comma = re.compile(r", *|(?: +)")

as hand-written matchers over `List Char`, and of the `version_locations` splitting in
`ScriptDirectory.from_config`.

File names are assumed to contain no newline character (then `.` matches every character
and `$` means "end of string", so `re.match` of `(.*\.py)(c|o)?$` succeeds exactly when the
name ends in `.py`, `.pyc` or `.pyo`, with group 1 = the name up to and including `.py`).
-/
namespace Model.Files

abbrev Name := List Char

def startsWith (pre s : Name) : Bool := pre.isPrefixOf s
def endsWith (suf s : Name) : Bool := suf.isSuffixOf s

def dotPy : Name := ['.', 'p', 'y']
def dotPyc : Name := ['.', 'p', 'y', 'c']
def dotPyo : Name := ['.', 'p', 'y', 'o']
def lockPrefix : Name := ['.', '#']
def initPrefix : Name := ['_', '_', 'i', 'n', 'i', 't', '_', '_']
def pycacheName : Name := ['_', '_', 'p', 'y', 'c', 'a', 'c', 'h', 'e', '_', '_']

/-- which alternative of `(c|o)?` matched -/
inductive Kind where
  | py | pyc | pyo
deriving DecidableEq, Repr

/-- the negative look-ahead `(?!\.\#|__init__\.)`: true = the look-ahead *rejects* the name:
    Emacs lock files `.#…` and the module called exactly `__init__` (`__init__.py`,
    `__init__.pyc`, `__init__.cpython-312.pyc`, …).  A name that merely starts with `__init__`
    (`__init__x.py`) is not rejected. -/
def lookaheadRejects (n : Name) : Bool :=
  startsWith lockPrefix n || startsWith (initPrefix ++ ['.']) n

/-- `_sourceless_rev_file.match(n)` when `sourceless`, else `_only_source_rev_file.match(n)`:
    `some (group 1, which suffix)` or `none`. -/
def matchRevFile (sourceless : Bool) (n : Name) : Option (Name × Kind) :=
  if lookaheadRejects n then none
  else if endsWith dotPy n then some (n, .py)
  else if sourceless && endsWith dotPyc n then some (n.dropLast, .pyc)
  else if sourceless && endsWith dotPyo n then some (n.dropLast, .pyo)
  else none

def isLowerHex (c : Char) : Bool := ('a' ≤ c && c ≤ 'f') || ('0' ≤ c && c ≤ '9')

/-- `_legacy_rev.match(filename)`: group 1 (re.match anchors at the start, `$` at the end). -/
def legacyRev (n : Name) : Option Name :=
  if endsWith dotPy n then
    let b := n.take (n.length - 3)
    if !b.isEmpty && b.all isLowerHex then some b else none
  else none

/-- `filename.split(".")[0]` -/
def stem (n : Name) : Name := n.takeWhile (· != '.')

/-! ## `version_locations` splitting -/

/-- value of `version_path_separator` after the `split_on_path` table lookup.
    `os` carries `os.pathsep` of the platform (`:` on POSIX), supplied by the harness. -/
inductive Sep where
  | legacy            -- option absent: `_split_on_space_comma`
  | char (c : Char)   -- "space" ↦ ' ', "newline" ↦ '\n', "os" ↦ os.pathsep, ":" ↦ ':', ";" ↦ ';'
deriving DecidableEq, Repr

/-- the `split_on_path` dictionary; `none` = `KeyError` → `ValueError` -/
def sepOfOption (pathsep : Char) : Option String → Option Sep
  | none => some .legacy
  | some "space" => some (.char ' ')
  | some "newline" => some (.char '\n')
  | some "os" => some (.char pathsep)
  | some ":" => some (.char ':')
  | some ";" => some (.char ';')
  | some _ => none

/-- Python `str.split(c)` for a one-character separator: never returns the empty list. -/
def splitOn (c : Char) : Name → List Name
  | [] => [[]]
  | x :: r =>
    if x == c then [] :: splitOn c r
    else match splitOn c r with
      | [] => [[x]]        -- unreachable (`splitOn` is never empty); keeps the function total
      | p :: ps => (x :: p) :: ps

/-- Python `str.isspace` for a single character (Unicode White_Space + the four
    information separators 0x1c-0x1f that `str.strip()` also removes). -/
def isPySpace (c : Char) : Bool :=
  let n := c.toNat
  (9 ≤ n && n ≤ 13) || (28 ≤ n && n ≤ 32) || n == 0x85 || n == 0xa0 || n == 0x1680 ||
  (0x2000 ≤ n && n ≤ 0x200a) || n == 0x2028 || n == 0x2029 || n == 0x202f || n == 0x205f || n == 0x3000

def dropWhileEnd (p : Char → Bool) (s : Name) : Name := (s.reverse.dropWhile p).reverse

/-- Python `str.strip()` -/
def pyStrip (s : Name) : Name := dropWhileEnd isPySpace (s.dropWhile isPySpace)

/-- `_split_on_space_comma.split(s)`, i.e. `re.split(r", *|(?: +)", s)`:
    a separator is a comma followed by any number of spaces, or a run of spaces.
    `skipping` = a separator has just been matched and is still swallowing spaces;
    `cur` is the piece being accumulated (reversed). Empty pieces are kept. -/
def legacySplitAux : Bool → Name → Name → List Name
  | _, cur, [] => [cur.reverse]
  | skipping, cur, c :: r =>
    if c == ' ' then
      if skipping then legacySplitAux true cur r
      else cur.reverse :: legacySplitAux true [] r
    else if c == ',' then cur.reverse :: legacySplitAux true [] r
    else legacySplitAux false (c :: cur) r

def legacySplit (s : Name) : List Name := legacySplitAux false [] s

/-- the `version_locations` list computed by `from_config` from a non-empty option string -/
def splitLocations (sep : Sep) (s : Name) : List Name :=
  match sep with
  | .legacy => legacySplit s
  | .char c => ((splitOn c s).filter (fun x => !x.isEmpty)).map pyStrip

/-- `from_config`: `none` = the option is absent or empty, or the split gave an empty list
    (`if self.version_locations:` is then false) → the default `<script_location>/versions`. -/
def versionLocations (sep : Sep) (s : Option Name) : Option (List Name) :=
  match s with
  | none => none
  | some [] => none
  | some s =>
    match splitLocations sep s with
    | [] => none
    | l => some l

/-- the whole `version_locations` computation of `from_config`: the separator option is looked
    up (and can raise `ValueError` = `none`) only when the option string is non-empty. -/
def configLocations (pathsep : Char) (sepOpt : Option String) (s : Option Name) :
    Option (Option (List Name)) :=
  match s with
  | none => some none
  | some [] => some none
  | some s =>
    match sepOfOption pathsep sepOpt with
    | none => none
    | some sep => some (versionLocations sep (some s))

/-! ## `prepend_sys_path` splitting and `load_python_file` -/

/-- `_split_on_space_comma_colon.split(s)`, i.e. `re.split(r", *|(?: +)|\:", s)`: as
    `legacySplitAux`, plus a colon as a separator of its own (it does not swallow spaces). -/
def prependSplitAux : Bool → Name → Name → List Name
  | _, cur, [] => [cur.reverse]
  | skipping, cur, c :: r =>
    if c == ' ' then
      if skipping then prependSplitAux true cur r
      else cur.reverse :: prependSplitAux true [] r
    else if c == ',' then cur.reverse :: prependSplitAux true [] r
    else if c == ':' then cur.reverse :: prependSplitAux false [] r
    else prependSplitAux false (c :: cur) r

/-- the entries `from_config` puts in front of `sys.path` for a non-empty `prepend_sys_path` -/
def prependSplit (s : Name) : List Name := prependSplitAux false [] s

/-- which file `alembic.util.pyfiles.load_python_file(dir, filename)` hands to the import machinery -/
inductive LoadFrom where
  | self          -- the named file itself
  | cache         -- `importlib.util.cache_from_source(path)`, i.e. `__pycache__/x.<tag>.pyc`
  | legacy        -- `x` + a member of `importlib.machinery.BYTECODE_SUFFIXES` next to the missing source
  | importError   -- "Can't find Python file"
  | assertFalse   -- `os.path.splitext` gives an extension other than .py/.pyc/.pyo
deriving DecidableEq, Repr

/-- the extension `os.path.splitext(filename)[1]` falls in -/
inductive Ext where
  | py | compiled | other
deriving DecidableEq, Repr

/-- `load_python_file` + `pyc_file_from_path`: `selfExists` = the named path exists,
    `cacheExists` = its PEP 3147 cache file exists, `legacyExists` = a legacy byte-code file
    (same path with a `BYTECODE_SUFFIXES` extension) exists. -/
def loadPythonFile (ext : Ext) (selfExists cacheExists legacyExists : Bool) : LoadFrom :=
  match ext with
  | .py =>
    if selfExists then .self
    else if cacheExists then .cache
    else if legacyExists then .legacy
    else .importError
  | .compiled => .self
  | .other => .assertFalse

end Model.Files
