import Model.Files.Names
/-!
# File discovery: `Script._list_py_dir`, `ScriptDirectory._load_revisions`,
# `Script._from_filename`, and the duplicate warning of `RevisionMap._revision_map` (C19)

The filesystem is abstract:

* a **canonical file** is a natural number (the identity `os.path.realpath` gives); `FS.node`
  tells its real directory (a canonical directory number), its real base name and what
  importing it yields; `FS.exists_ d n` is `os.path.exists(<dir d>/n)`;
* a version location is a `Dir` = what `os.walk(path, followlinks=False)` sees below it:
  per directory its name, its non-directory entries (listed name + canonical file the entry
  resolves to: a regular file resolves to itself, a symlink to its target) and its real
  sub-directories (first-child / next-sibling encoding `Forest`, so that all recursion is
  structural). Symlinked sub-directories are not descended into by `os.walk` and are
  therefore not part of `children` (except a symlinked `__pycache__`, which the code reads
  through `os.listdir`).

Orders (`sorted(files)`, `dirs.sort()`, `os.listdir`) are whatever the caller supplies: the
model processes lists in the given order and the theorems do not depend on it.
-/
namespace Model.Files

/-- what `load_python_file` + `hasattr(module, "revision")` give for a file -/
inductive Content where
  | rev (id : Name)   -- imports fine, `module.revision == id`
  | noRev             -- imports fine, no `revision` attribute
  | broken            -- importing raises (syntax error, `.pyo` on CPython ≥ 3.5, …)
deriving DecidableEq, Repr, Inhabited

structure FileNode where
  dir : Nat
  name : Name
  content : Content
deriving Repr, Inhabited

structure FS where
  node : Nat → FileNode
  exists_ : Nat → Name → Bool

/-- a non-directory entry of a directory listing -/
structure Entry where
  name : Name
  node : Nat
deriving Repr, DecidableEq

/-- a list of sibling directories, each with its own sub-forest -/
inductive Forest where
  | nil
  | cons (name : Name) (files : List Entry) (children : Forest) (rest : Forest)

structure Dir where
  name : Name
  files : List Entry
  children : Forest

structure Cfg where
  sourceless : Bool
  recursive : Bool
deriving Repr

/-- the directories of a forest in `os.walk(topdown=True)` order -/
def Forest.preorder : Forest → List Dir
  | .nil => []
  | .cons n fs ch rest => ⟨n, fs, ch⟩ :: (ch.preorder ++ rest.preorder)

/-- the immediate members of a forest -/
def Forest.top : Forest → List Dir
  | .nil => []
  | .cons n fs ch rest => ⟨n, fs, ch⟩ :: rest.top

/-- `os.walk(path)` order: the directory itself, then everything below -/
def Dir.preorder (d : Dir) : List Dir := d :: d.children.preorder

/-- the sub-directory called `n`, if any -/
def Dir.sub? (d : Dir) (n : Name) : Option Dir := d.children.top.find? (fun c => c.name == n)

/-- `root.endswith("__pycache__")` -/
def isCacheDir (n : Name) : Bool := endsWith pycacheName n

/-- the `if scriptdir.sourceless:` block: entries of `<root>/__pycache__` whose stem is not
    the stem of a non-directory entry of `root` -/
def cacheExtras (d : Dir) : List Entry :=
  match d.sub? pycacheName with
  | none => []
  | some c =>
    let names := d.files.map (fun e => stem e.name)
    c.files.filter (fun e => !names.contains (stem e.name))

/-- the body of one `os.walk` iteration that is not skipped -/
def listDir (cfg : Cfg) (d : Dir) : List Entry :=
  d.files ++ (if cfg.sourceless then cacheExtras d else [])

/-- the `for root, dirs, files in os.walk(...)` loop over the directories in walk order:
    `continue` for cache-named directories (which also skips the `break` below),
    `break` after the first listed directory unless `recursive_version_locations`. -/
def visit (cfg : Cfg) : List Dir → List Entry
  | [] => []
  | d :: rest =>
    if isCacheDir d.name then visit cfg rest
    else listDir cfg d ++ (if cfg.recursive then visit cfg rest else [])

/-- `Script._list_py_dir(scriptdir, path)` -/
def listPyDir (cfg : Cfg) (root : Dir) : List Entry := visit cfg root.preorder

/-- a `Script` produced by `_from_filename`: the canonical file and its revision id -/
structure Loaded where
  node : Nat
  rev : Name
deriving Repr, DecidableEq

inductive Err where
  | loadFailed (node : Nat)     -- `load_python_file` raised
  | noRevisionId (node : Nat)   -- CommandError "Could not determine revision id from filename"
deriving Repr, DecidableEq

/-- The part of `Script._from_filename` before the import: does the real name match the regex,
    and (for `.pyc`/`.pyo`) is there no preferred sibling?
    `py_exists or is_o and pyc_exists` → `return None`. -/
def accepts (fs : FS) (cfg : Cfg) (n : Nat) : Bool :=
  match matchRevFile cfg.sourceless (fs.node n).name with
  | none => false
  | some (py, kind) =>
    let pyExists := fs.exists_ (fs.node n).dir py
    let pycExists := fs.exists_ (fs.node n).dir (py ++ ['c'])
    !(kind != .py && (pyExists || (kind == .pyo && pycExists)))

/-- `Script._from_filename(scriptdir, dirname(realpath), basename(realpath))` -/
def fromFilename (fs : FS) (cfg : Cfg) (n : Nat) : Except Err (Option Loaded) :=
  if accepts fs cfg n then
    match (fs.node n).content with
    | .broken => .error (.loadFailed n)
    | .rev id => .ok (some ⟨n, id⟩)
    | .noRev =>
      match legacyRev (fs.node n).name with
      | some id => .ok (some ⟨n, id⟩)
      | none => .error (.noRevisionId n)
  else .ok none

/-- the loop of `_load_revisions` over all listed paths; `dupes` = realpaths seen so far.
    Returns the scripts yielded and the canonical files of the "loaded twice" warnings. -/
def loadLoop (fs : FS) (cfg : Cfg) : List Entry → List Nat → Except Err (List Loaded × List Nat)
  | [], _ => .ok ([], [])
  | e :: rest, dupes =>
    if dupes.contains e.node then
      match loadLoop fs cfg rest dupes with
      | .error x => .error x
      | .ok (l, t) => .ok (l, e.node :: t)
    else
      match fromFilename fs cfg e.node with
      | .error x => .error x
      | .ok none => loadLoop fs cfg rest (e.node :: dupes)
      | .ok (some s) =>
        match loadLoop fs cfg rest (e.node :: dupes) with
        | .error x => .error x
        | .ok (l, t) => .ok (s :: l, t)

/-- everything `_load_revisions` lists, over the existing version locations, in order -/
def allListed (cfg : Cfg) (locs : List Dir) : List Entry := locs.flatMap (listPyDir cfg)

/-- `RevisionMap._revision_map`: keys of `map_` (insertion order) and the
    "Revision X is present more than once" warnings, processing scripts in order;
    `keys` = ids already in the map (reversed insertion order). -/
def revMapLoop : List Loaded → List Name → List Name × List Name
  | [], keys => (keys.reverse, [])
  | s :: rest, keys =>
    if keys.contains s.rev then
      let (k, w) := revMapLoop rest keys
      (k, s.rev :: w)
    else revMapLoop rest (s.rev :: keys)

structure Result where
  loaded : List Loaded    -- scripts yielded by `_load_revisions`, in order
  twice : List Nat        -- "File … loaded twice! ignoring" warnings (canonical files), in order
  keys : List Name        -- revision ids that are keys of `_revision_map`, insertion order
  dupWarn : List Name     -- "Revision … is present more than once" warnings, in order
deriving Repr

/-- `ScriptDirectory(...)` + building `revision_map._revision_map`.
    `locs` = the version locations that exist (`os.path.exists(vers)`), in configured order. -/
def load (fs : FS) (cfg : Cfg) (locs : List Dir) : Except Err Result :=
  match loadLoop fs cfg (allListed cfg locs) [] with
  | .error x => .error x
  | .ok (l, t) =>
    let (k, w) := revMapLoop l []
    .ok { loaded := l, twice := t, keys := k, dupWarn := w }

end Model.Files
