import Model.Offline.Run
/-!
# Well-formedness predicates used as hypotheses of the C12 theorems (all decidable; the driver
evaluates them on the generated inputs)
-/
namespace Model.Offline

/-- a word token the lexer reads back as one token: `[A-Za-z0-9_$]+` or `-` digit `[A-Za-z0-9_$]*` -/
def validWord : Str → Bool
  | [] => false
  | c :: r => (isWordCh c && r.all isWordCh) ||
      (c == '-' && (match r with | d :: r' => isDigitCh d && r'.all isWordCh | [] => false))

def validTok : Tok → Bool
  | .word w => validWord w
  | .qname _ => true
  | .str _ => true
  | .punct c => !(isWordCh c || isWs c || c == '\'' || c == '"' || c == '-' || c == ';')
  | .bad => false

/-- may character `c` follow the token without being glued to it? -/
def okNext : Tok → Option Char → Bool
  | .word _, some c => !isWordCh c
  | .qname _, some c => c != '"'
  | .str _, some c => c != '\''
  | _, _ => true

def headOf : List Piece → Option Char → Option Char
  | [], nx => nx
  | .sp [] :: r, nx => headOf r nx
  | .sp (c :: _) :: _, _ => some c
  | .t k :: r, nx => match renderTok k with
    | c :: _ => some c
    | [] => headOf r nx

/-- well spaced: valid tokens, white space between tokens that would otherwise glue -/
def WS (nx : Option Char) : List Piece → Bool
  | [] => true
  | .sp s :: r => s.all isWs && WS nx r
  | .t k :: r => validTok k && okNext k (headOf r nx) && WS nx r

/-- the quoting policy never leaves unquoted a name the lexer would not read back -/
def BareSafe (q : Str → Bool) : Prop := ∀ n, q n = false → validWord n = true ∧ (n.all isWordCh) = true

def noTab (s : Str) : Bool := s.all (fun c => c != '\t')
def noQuote (s : Str) : Bool := s.all (fun c => c != '\'')

def colsOk : List Col → Bool
  | [] => false
  | _ => true

/-- statements of the modelled language whose text is read back as the same statement -/
def stmtWf : Stmt → Bool
  | .createTable t cols => t != k_alembic_version && !cols.isEmpty
  | .dropTable t => t != k_alembic_version
  | .addColumn _ _ => true
  | .createIndex _ _ cols => !cols.isEmpty
  | .dropIndex _ => true
  | .insert t cols vals => t != k_alembic_version && !cols.isEmpty && cols.length == vals.length
  | .vtCreate => true
  | .vtDrop => true
  | .vtInsert v => noQuote v
  | .vtUpdate o n => noQuote o && noQuote n
  | .vtDelete v => noQuote v
  | .other _ => false

/-- an `op.execute()` text that is one plain statement: already stripped, no TAB, lexically
    closed (no terminator or comment outside literals) -/
def plainText (t : Str) : Bool :=
  noTab t && Closed t && headOk t.reverse && !t.isEmpty

/-- the statement text is read back as the statement (a theorem, `C12.reads_back`, for every
    `stmtWf` statement; the driver still evaluates it on the generated inputs as a cross-check) -/
def readsBack (q : Str → Bool) (s : Stmt) : Bool := parseStmt q (renderStmt q s) == s

/-- a statement of the language (`stmtWf`) whose rendered text contains no TAB (the character
    `_exec` rewrites, finding C12-TAB) -/
def stmtOk (q : Str → Bool) (s : Stmt) : Bool := stmtWf s && noTab (renderStmt q s)

def isVt : Stmt → Bool
  | .vtCreate => true | .vtDrop => true | .vtInsert _ => true | .vtUpdate _ _ => true | .vtDelete _ => true
  | _ => false

def isOther : Stmt → Bool
  | .other _ => true
  | _ => false

def opOk (q : Str → Bool) : Op → Bool
  | .execute text => plainText text && !isVt (parseStmt q text)
  | o => (opStmts q o).all (fun s => stmtOk q s && !isVt s && !isOther s)

def verOk (q : Str → Bool) (v : VerOp) : Bool := stmtOk q (verStmt v)

def stepOk (q : Str → Bool) (st : Step) : Bool :=
  noNewline st.comment && st.body.all (opOk q) && st.ver.all (verOk q)

/-- the head set is empty only before the first and after the last step (what upgrade /
    downgrade plans satisfy): otherwise the script would CREATE the version table twice -/
def midOk : List Str → List Step → Bool
  | _, [] => true
  | heads, st :: r => match hmAll heads st.ver with
    | none => true
    | some h' => (r.isEmpty || !h'.isEmpty) && midOk h' r

end Model.Offline
