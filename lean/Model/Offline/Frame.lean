import Model.Offline.Run
import Model.Txn.Offline
/-!
# The framed script: BEGIN / COMMIT around the sections of an offline script, and its replay

`Model.Txn.runToks` (property C18) says where `begin_transaction` writes `BEGIN;` / `COMMIT;` in
`--sql` mode: around the whole script (`emitsBlock c false`: transactional DDL, one transaction),
around every migration's section (`emitsBlock c true`: transaction per migration), or nowhere; the
final `DROP TABLE alembic_version` of a downgrade to base is written after the per-migration
sections (outside their blocks).  Here the same frame is put around the *statements* of the
sections of `offlineStmts`, and replayed on a database with transactions: what a `BEGIN` opened
and no `COMMIT` closed is not durable.
-/
namespace Model.Offline
open Model.Txn (Cfg emitsBlock)

inductive FStmt where
  | begin | commit
  | stmt (s : Stmt)
  deriving DecidableEq, Repr

/-- a database with at most one open transaction -/
structure TDB where
  committed : DB
  working : Option DB
  deriving DecidableEq, Repr

/-- statement-by-statement replay (autocommit outside a block; `none` = the replay raises) -/
def execF : List FStmt → TDB → Option TDB
  | [], t => some t
  | .begin :: r, t =>
    match t.working with
    | some _ => none                      -- BEGIN inside a transaction
    | none => execF r ⟨t.committed, some t.committed⟩
  | .commit :: r, t =>
    match t.working with
    | some w => execF r ⟨w, none⟩
    | none => none                        -- COMMIT without BEGIN
  | .stmt s :: r, t =>
    match t.working with
    | some w => (match execStmt s w with
      | some w' => execF r ⟨t.committed, some w'⟩
      | none => none)
    | none => (match execStmt s t.committed with
      | some c' => execF r ⟨c', none⟩
      | none => none)

/-- what is in the database once the connection is closed -/
def durable (t : Option TDB) : Option DB := t.map (fun x => x.committed)

def wrap (b : Bool) (l : List FStmt) : List FStmt := if b then [FStmt.begin] ++ l ++ [FStmt.commit] else l

def stmtsF (l : List Stmt) : List FStmt := l.map FStmt.stmt

/-- the per-migration sections, each in its own block when `transaction_per_migration` -/
def bodyF (c : Cfg) : List (List Stmt) → List FStmt
  | [] => []
  | sec :: r => wrap (emitsBlock c true) (stmtsF sec) ++ bodyF c r

/-- the whole script: header/sections, the trailer written after the loop, the enclosing block -/
def framed (c : Cfg) (sections : List (List Stmt)) (trailer : List Stmt) : List FStmt :=
  wrap (emitsBlock c false) (bodyF c sections ++ stmtsF trailer)

/-- the BEGIN / COMMIT markers of a framed script, in C18's token vocabulary -/
def fmarkers : List FStmt → List Model.Txn.Tok
  | [] => []
  | .begin :: r => Model.Txn.Tok.begin :: fmarkers r
  | .commit :: r => Model.Txn.Tok.commit :: fmarkers r
  | .stmt _ :: r => fmarkers r

section
variable (q : Str → Bool)

/-- `offlineStmts` with its structure kept: one section per step (CREATE of the version table,
    body, version statements) and the trailer (`DROP TABLE alembic_version` at base) -/
def offlineSections : List Str → List Step → Option (List (List Stmt) × List Stmt)
  | heads, [] => some ([], if heads.isEmpty then [Stmt.vtDrop] else [])
  | heads, st :: r =>
    match hmAll heads st.ver with
    | none => none
    | some heads' => (offlineSections heads' r).map (fun p => (stepStmts q heads st :: p.1, p.2))

end
end Model.Offline
