import Model.Offline.Wf
/-!
# Linear histories: the steps of `upgrade start:end` / `downgrade start:end`

For a history `r₁ ← r₂ ← … ← rₙ` without branches the plan and the version bookkeeping are
determined (`RevisionStep.update_version_num` / `should_create_branch` / `should_delete_branch`):
upgrading applies `rₖ.upgrade()` and then INSERTs `r₁` (from base) or UPDATEs `rₖ₋₁ → rₖ`;
downgrading applies `rₖ.downgrade()` and then UPDATEs `rₖ → rₖ₋₁` or DELETEs `r₁` (to base).
-/
namespace Model.Offline

structure Rev where
  id : Str
  up : List Op
  down : List Op
  deriving Repr

def k_upgrade : Str := ['u', 'p', 'g', 'r', 'a', 'd', 'e']
def k_downgrade : Str := ['d', 'o', 'w', 'n', 'g', 'r', 'a', 'd', 'e']

/-- `RevisionStep.short_log`: `"%s %s -> %s" % (name, from, to)` (base is the empty string) -/
def shortLog (name : Str) (frm to : Option Str) : Str :=
  name ++ [' '] ++ frm.getD [] ++ [' ', '-', '>', ' '] ++ to.getD []

/-- steps of an upgrade over `revs` (ascending) when the database is at `prev` (`none` = base) -/
def upSteps : Option Str → List Rev → List Step
  | _, [] => []
  | none, r :: rs => ⟨shortLog k_upgrade none (some r.id), r.up, [.insert r.id]⟩ :: upSteps (some r.id) rs
  | some p, r :: rs => ⟨shortLog k_upgrade (some p) (some r.id), r.up, [.update p r.id]⟩ :: upSteps (some r.id) rs

/-- steps of a downgrade over `revs` (descending: current head first) down to `tgt` (`none` = base) -/
def downSteps : List Rev → Option Str → List Step
  | [], _ => []
  | [r], none => [⟨shortLog k_downgrade (some r.id) none, r.down, [.delete r.id]⟩]
  | [r], some t => [⟨shortLog k_downgrade (some r.id) (some t), r.down, [.update r.id t]⟩]
  | r :: r' :: rs, tgt =>
    ⟨shortLog k_downgrade (some r.id) (some r'.id), r.down, [.update r.id r'.id]⟩ :: downSteps (r' :: rs) tgt

/-- the range `i:j` (`0` = base) of a linear history, as (assumed start, revisions to apply) -/
def upgradeRange (h : List Rev) (i j : Nat) : Option Str × List Rev :=
  (if i = 0 then none else (h[i - 1]?).map (fun r => r.id), (h.drop i).take (j - i))

/-- the range `j:i` of a downgrade (`j > i`), as (revisions to revert, head first; target) -/
def downgradeRange (h : List Rev) (j i : Nat) : List Rev × Option Str :=
  (((h.drop i).take (j - i)).reverse, if i = 0 then none else (h[i - 1]?).map (fun r => r.id))

/-- a revision identifier that can be pasted into the version statements and the log line -/
def idOk (v : Str) : Bool := noQuote v && noTab v && noNewline v

/-- bodies from the language: no TAB in a rendered statement, plain `op.execute` texts -/
def revOk (q : Str → Bool) (r : Rev) : Bool := idOk r.id && r.up.all (opOk q) && r.down.all (opOk q)

end Model.Offline
