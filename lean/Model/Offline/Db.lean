import Model.Offline.Sql
/-!
# An abstract SQLite database and what a statement does to it

Tables with ordered columns and rows of values, indexes, the `alembic_version` rows (`none` =
the table does not exist), and a log of statements whose effect the model does not interpret.
`none` results = the database raises (the run stops there).
-/
namespace Model.Offline

structure Table where
  name : Str
  cols : List Col
  rows : List (List Val)
  deriving DecidableEq, Repr

structure Index where
  name : Str
  table : Str
  cols : List Str
  deriving DecidableEq, Repr

structure DB where
  tables : List Table
  indexes : List Index
  version : Option (List Str)
  log : List Str
  deriving DecidableEq, Repr

def DB.empty : DB := ⟨[], [], none, []⟩

def DB.hasTable (db : DB) (t : Str) : Bool := db.tables.any (fun x => x.name == t)
def DB.findTable (db : DB) (t : Str) : Option Table := db.tables.find? (fun x => x.name == t)

def lookupVal : List Str → List Val → Str → Val
  | c :: cs, v :: vs, n => if c == n then v else lookupVal cs vs n
  | _, _, _ => .null

def DB.createTable (db : DB) (t : Str) (cols : List Col) : Option DB :=
  if db.hasTable t || cols.isEmpty then none
  else some { db with tables := db.tables ++ [⟨t, cols, []⟩] }

def DB.dropTable (db : DB) (t : Str) : Option DB :=
  if db.hasTable t then
    some { db with tables := db.tables.filter (fun x => x.name != t),
                   indexes := db.indexes.filter (fun i => i.table != t) }
  else none

def DB.addColumn (db : DB) (t : Str) (c : Col) : Option DB :=
  match db.findTable t with
  | none => none
  | some tb =>
    if tb.cols.any (fun x => x.name == c.name) || !c.nullable then none
    else some { db with tables := db.tables.map (fun x =>
      if x.name == t then { x with cols := x.cols ++ [c], rows := x.rows.map (fun r => r ++ [Val.null]) } else x) }

def DB.createIndex (db : DB) (ix t : Str) (cols : List Str) : Option DB :=
  match db.findTable t with
  | none => none
  | some tb =>
    if db.indexes.any (fun i => i.name == ix) || cols.isEmpty
        || !(cols.all (fun c => tb.cols.any (fun x => x.name == c))) then none
    else some { db with indexes := db.indexes ++ [⟨ix, t, cols⟩] }

def DB.dropIndex (db : DB) (ix : Str) : Option DB :=
  if db.indexes.any (fun i => i.name == ix) then
    some { db with indexes := db.indexes.filter (fun i => i.name != ix) }
  else none

/-- `INSERT INTO t (cols) VALUES (vals)`: missing columns are NULL, NOT NULL is enforced -/
def DB.insertRow (db : DB) (t : Str) (cols : List Str) (vals : List Val) : Option DB :=
  match db.findTable t with
  | none => none
  | some tb =>
    let row := tb.cols.map (fun c => lookupVal cols vals c.name)
    if cols.length != vals.length || cols.isEmpty
        || !(cols.all (fun c => tb.cols.any (fun x => x.name == c)))
        || tb.cols.any (fun c => !c.nullable && lookupVal cols vals c.name == Val.null) then none
    else some { db with tables := db.tables.map (fun x =>
      if x.name == t then { x with rows := x.rows ++ [row] } else x) }

/-- `CREATE TABLE alembic_version` (not `IF NOT EXISTS`) -/
def DB.vtCreate (db : DB) : Option DB :=
  match db.version with
  | none => some { db with version := some [] }
  | some _ => none

def DB.vtDrop (db : DB) : Option DB :=
  match db.version with
  | none => none
  | some _ => some { db with version := none }

def DB.vtInsert (db : DB) (v : Str) : Option DB :=
  match db.version with
  | none => none
  | some rows => if rows.contains v then none else some { db with version := some (rows ++ [v]) }

def DB.vtUpdate (db : DB) (old new : Str) : Option DB :=
  match db.version with
  | none => none
  | some rows => some { db with version := some (rows.map (fun x => if x = old then new else x)) }

def DB.vtDelete (db : DB) (v : Str) : Option DB :=
  match db.version with
  | none => none
  | some rows => some { db with version := some (rows.filter (fun x => x ≠ v)) }

/-- `_ensure_version_table`: `self._version.create(conn, checkfirst=True)` -/
def DB.ensureVT (db : DB) : DB :=
  match db.version with
  | none => { db with version := some [] }
  | some _ => db

def execStmt : Stmt → DB → Option DB
  | .createTable t cols, db => db.createTable t cols
  | .dropTable t, db => db.dropTable t
  | .addColumn t c, db => db.addColumn t c
  | .createIndex ix t cols, db => db.createIndex ix t cols
  | .dropIndex ix, db => db.dropIndex ix
  | .insert t cols vals, db => db.insertRow t cols vals
  | .vtCreate, db => db.vtCreate
  | .vtDrop, db => db.vtDrop
  | .vtInsert v, db => db.vtInsert v
  | .vtUpdate o n, db => db.vtUpdate o n
  | .vtDelete v, db => db.vtDelete v
  | .other text, db => some { db with log := db.log ++ [text] }

def execAll : List Stmt → DB → Option DB
  | [], db => some db
  | s :: r, db => match execStmt s db with
    | some db' => execAll r db'
    | none => none

end Model.Offline
