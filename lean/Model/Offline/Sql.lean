import Model.Offline.Split
/-!
# SQL text of the statements an offline migration emits (SQLite), and its reader

* values `NULL | integer | string` and their literal form as SQLAlchemy's SQLite dialect
  renders them with `literal_binds` (`render_literal_value`: `NULL`, `str(int)`,
  `'` + value with every `'` doubled + `'`; no backslash escapes on SQLite),
* identifiers: `IdentifierPreparer.quote` = the name itself or `"` + name with `"` doubled + `"`,
  decided by a quoting policy `q` (model parameter; `sqliteNeedsQuote` is SQLite's),
* the statement shapes (`CREATE TABLE`, `DROP TABLE`, `ALTER TABLE … ADD COLUMN`, `CREATE INDEX`,
  `DROP INDEX`, `INSERT … VALUES`, and the version-table statements of
  `MigrationContext._version` / `HeadMaintainer`, whose version numbers are pasted with
  `literal_column("'%s'" % version)`, i.e. **unescaped**),
* the reader: a lexer (words, quoted identifiers, string literals, punctuation) and a
  statement recogniser.
-/
namespace Model.Offline

inductive Val where
  | null
  | int (i : Int)
  | str (s : Str)
  deriving DecidableEq, Repr

/-! ## numbers -/

def digitChar : Nat → Char
  | 0 => '0' | 1 => '1' | 2 => '2' | 3 => '3' | 4 => '4'
  | 5 => '5' | 6 => '6' | 7 => '7' | 8 => '8' | _ => '9'

def digitVal (c : Char) : Option Nat :=
  if c == '0' then some 0 else if c == '1' then some 1 else if c == '2' then some 2
  else if c == '3' then some 3 else if c == '4' then some 4 else if c == '5' then some 5
  else if c == '6' then some 6 else if c == '7' then some 7 else if c == '8' then some 8
  else if c == '9' then some 9 else none

/-- decimal digits, least significant first -/
def natDigitsRev (n : Nat) : Str :=
  if n < 10 then [digitChar n] else digitChar (n % 10) :: natDigitsRev (n / 10)
termination_by n
decreasing_by omega

/-- `str(n)` -/
def natDigits (n : Nat) : Str := (natDigitsRev n).reverse

def valRev : Str → Option Nat
  | [] => some 0
  | c :: r => match digitVal c, valRev r with
    | some d, some v => some (d + 10 * v)
    | _, _ => none

def parseNat (s : Str) : Option Nat := if s.isEmpty then none else valRev s.reverse

/-- `str(i)` -/
def renderInt : Int → Str
  | .ofNat n => natDigits n
  | .negSucc n => '-' :: natDigits (n + 1)

def parseInt : Str → Option Int
  | '-' :: ds => (parseNat ds).map (fun n => - (Int.ofNat n))
  | ds => (parseNat ds).map Int.ofNat

/-! ## literals and identifiers -/

/-- double every occurrence of the quote character -/
def escQ (q : Char) : Str → Str
  | [] => []
  | c :: r => if c == q then q :: q :: escQ q r else c :: escQ q r

def k_NULL : Str := ['N', 'U', 'L', 'L']
def k_INSERT : Str := ['I', 'N', 'S', 'E', 'R', 'T']
def k_INTO : Str := ['I', 'N', 'T', 'O']
def k_VALUES : Str := ['V', 'A', 'L', 'U', 'E', 'S']
def k_CREATE : Str := ['C', 'R', 'E', 'A', 'T', 'E']
def k_TABLE : Str := ['T', 'A', 'B', 'L', 'E']
def k_DROP : Str := ['D', 'R', 'O', 'P']
def k_ALTER : Str := ['A', 'L', 'T', 'E', 'R']
def k_ADD : Str := ['A', 'D', 'D']
def k_COLUMN : Str := ['C', 'O', 'L', 'U', 'M', 'N']
def k_INDEX : Str := ['I', 'N', 'D', 'E', 'X']
def k_ON : Str := ['O', 'N']
def k_NOT : Str := ['N', 'O', 'T']
def k_INTEGER : Str := ['I', 'N', 'T', 'E', 'G', 'E', 'R']
def k_TEXT : Str := ['T', 'E', 'X', 'T']
def k_VARCHAR : Str := ['V', 'A', 'R', 'C', 'H', 'A', 'R']
def k_UPDATE : Str := ['U', 'P', 'D', 'A', 'T', 'E']
def k_SET : Str := ['S', 'E', 'T']
def k_WHERE : Str := ['W', 'H', 'E', 'R', 'E']
def k_DELETE : Str := ['D', 'E', 'L', 'E', 'T', 'E']
def k_FROM : Str := ['F', 'R', 'O', 'M']
def k_RETURNING : Str := ['R', 'E', 'T', 'U', 'R', 'N', 'I', 'N', 'G']
def k_CONSTRAINT : Str := ['C', 'O', 'N', 'S', 'T', 'R', 'A', 'I', 'N', 'T']
def k_PRIMARY : Str := ['P', 'R', 'I', 'M', 'A', 'R', 'Y']
def k_KEY : Str := ['K', 'E', 'Y']
def k_alembic_version : Str := ['a', 'l', 'e', 'm', 'b', 'i', 'c', '_', 'v', 'e', 'r', 's', 'i', 'o', 'n']
def k_version_num : Str := ['v', 'e', 'r', 's', 'i', 'o', 'n', '_', 'n', 'u', 'm']
def k_alembic_version_pkc : Str := ['a', 'l', 'e', 'm', 'b', 'i', 'c', '_', 'v', 'e', 'r', 's', 'i', 'o', 'n', '_', 'p', 'k', 'c']

/-- `render_literal_value` for `None`, `int`, `str` on SQLite -/
def renderLit : Val → Str
  | .null => k_NULL
  | .int i => renderInt i
  | .str s => '\'' :: (escQ '\'' s ++ ['\''])

def isDigitCh (c : Char) : Bool := (digitVal c).isSome

/-- characters SQLAlchemy's preparer leaves unquoted: `^[A-Z0-9_$]+$` (case-insensitive) -/
def isWordCh (c : Char) : Bool := c.isAlphanum || c == '_' || c == '$'

/-! ## tokens and the lexer -/

inductive Tok where
  | word (w : Str)     -- keyword, bare identifier or (signed) number
  | qname (n : Str)    -- "…" with "" undoubled
  | str (s : Str)      -- '…' with '' undoubled
  | punct (c : Char)
  | bad                -- unterminated literal / identifier
  deriving DecidableEq, Repr

def renderTok : Tok → Str
  | .word w => w
  | .qname n => '"' :: (escQ '"' n ++ ['"'])
  | .str s => '\'' :: (escQ '\'' s ++ ['\''])
  | .punct c => [c]
  | .bad => []

inductive LMode where
  | code | minus
  | word (acc : Str) | str (acc : Str) | strQ (acc : Str) | id (acc : Str) | idQ (acc : Str)
  deriving DecidableEq, Repr

/-- what a character does in `code` mode with nothing pending -/
def dispatch (c : Char) : LMode × List Tok :=
  if c == '\'' then (.str [], []) else if c == '"' then (.id [], [])
  else if c == '-' then (.minus, []) else if isWordCh c then (.word [c], [])
  else if isWs c then (.code, []) else (.code, [.punct c])

def lexGo : LMode → Str → List Tok
  | .code, [] => []
  | .minus, [] => [.punct '-']
  | .word acc, [] => [.word acc.reverse]
  | .str _, [] => [.bad]
  | .strQ acc, [] => [.str acc.reverse]
  | .id _, [] => [.bad]
  | .idQ acc, [] => [.qname acc.reverse]
  | .code, c :: r => (dispatch c).2 ++ lexGo (dispatch c).1 r
  | .minus, c :: r =>
    if isDigitCh c then lexGo (.word [c, '-']) r
    else .punct '-' :: ((dispatch c).2 ++ lexGo (dispatch c).1 r)
  | .word acc, c :: r =>
    if isWordCh c then lexGo (.word (c :: acc)) r
    else .word acc.reverse :: ((dispatch c).2 ++ lexGo (dispatch c).1 r)
  | .str acc, c :: r => if c == '\'' then lexGo (.strQ acc) r else lexGo (.str (c :: acc)) r
  | .strQ acc, c :: r =>
    if c == '\'' then lexGo (.str ('\'' :: acc)) r
    else .str acc.reverse :: ((dispatch c).2 ++ lexGo (dispatch c).1 r)
  | .id acc, c :: r => if c == '"' then lexGo (.idQ acc) r else lexGo (.id (c :: acc)) r
  | .idQ acc, c :: r =>
    if c == '"' then lexGo (.id ('"' :: acc)) r
    else .qname acc.reverse :: ((dispatch c).2 ++ lexGo (dispatch c).1 r)

def lex (s : Str) : List Tok := lexGo .code s

/-- the literal a single token stands for -/
def litOf : Tok → Option Val
  | .str s => some (.str s)
  | .word w => if w = k_NULL then some .null else (parseInt w).map .int
  | _ => none

/-- `parseLiteral`: read back one rendered literal -/
def parseLiteral (s : Str) : Option Val :=
  match lex s with
  | [t] => litOf t
  | _ => none

def nameOf : Tok → Option Str
  | .word w => some w
  | .qname n => some n
  | _ => none

/-! ## statements -/

inductive ColTy where
  | integer | text | varchar (n : Nat)
  deriving DecidableEq, Repr

structure Col where
  name : Str
  ty : ColTy
  nullable : Bool
  deriving DecidableEq, Repr

inductive Stmt where
  | createTable (t : Str) (cols : List Col)
  | dropTable (t : Str)
  | addColumn (t : Str) (c : Col)
  | createIndex (ix : Str) (t : Str) (cols : List Str)
  | dropIndex (ix : Str)
  | insert (t : Str) (cols : List Str) (vals : List Val)
  | vtCreate | vtDrop
  | vtInsert (v : Str) | vtUpdate (old new : Str) | vtDelete (v : Str)
  | other (text : Str)          -- a statement the recogniser does not know: opaque effect
  deriving DecidableEq, Repr

/-- text = tokens interleaved with white space -/
inductive Piece where
  | t (tok : Tok)
  | sp (s : Str)
  deriving DecidableEq, Repr

def flat : List Piece → Str
  | [] => []
  | .t k :: r => renderTok k ++ flat r
  | .sp s :: r => s ++ flat r

def toks : List Piece → List Tok
  | [] => []
  | .t k :: r => k :: toks r
  | .sp _ :: r => toks r

section
variable (q : Str → Bool)

/-- `preparer.quote(name)` -/
def nameTok (n : Str) : Tok := if q n then .qname n else .word n

def litTok : Val → Tok
  | .null => .word k_NULL
  | .int i => .word (renderInt i)
  | .str s => .str s

def sp1 : Piece := .sp [' ']
/-- `, \n` + the tab `_exec` turns into four spaces -/
def spCol : Piece := .sp [' ', '\n', ' ', ' ', ' ', ' ']
def spNl : Piece := .sp ['\n']
def w (k : Str) : Piece := .t (.word k)
def p (c : Char) : Piece := .t (.punct c)

/-- `a, b, c` -/
def commaP : List Tok → List Piece
  | [] => []
  | [a] => [.t a]
  | a :: r => .t a :: p ',' :: sp1 :: commaP r

def tyP : ColTy → List Piece
  | .integer => [w k_INTEGER]
  | .text => [w k_TEXT]
  | .varchar n => [w k_VARCHAR, p '(', w (natDigits n), p ')']

/-- `name TYPE[ NOT NULL]` (`get_column_specification`) -/
def colP (c : Col) : List Piece :=
  [.t (nameTok q c.name), sp1] ++ tyP c.ty ++ (if c.nullable then [] else [sp1, w k_NOT, sp1, w k_NULL])

/-- column specifications separated by `, \n\t` -/
def colsP : List Col → List Piece
  | [] => []
  | [c] => colP q c
  | c :: r => colP q c ++ [p ',', spCol] ++ colsP r

def vtName : Piece := w k_alembic_version
def vtCol : Piece := w k_version_num

def stmtP : Stmt → List Piece
  | .createTable t cols =>
    [w k_CREATE, sp1, w k_TABLE, sp1, .t (nameTok q t), sp1, p '(', .sp ['\n', ' ', ' ', ' ', ' ']] ++ colsP q cols ++ [spNl, p ')']
  | .dropTable t => [w k_DROP, sp1, w k_TABLE, sp1, .t (nameTok q t)]
  | .addColumn t c => [w k_ALTER, sp1, w k_TABLE, sp1, .t (nameTok q t), sp1, w k_ADD, sp1, w k_COLUMN, sp1] ++ colP q c
  | .createIndex ix t cols =>
    [w k_CREATE, sp1, w k_INDEX, sp1, .t (nameTok q ix), sp1, w k_ON, sp1, .t (nameTok q t), sp1, p '('] ++
      commaP (cols.map (nameTok q)) ++ [p ')']
  | .dropIndex ix => [w k_DROP, sp1, w k_INDEX, sp1, .t (nameTok q ix)]
  | .insert t cols vals =>
    [w k_INSERT, sp1, w k_INTO, sp1, .t (nameTok q t), sp1, p '('] ++ commaP (cols.map (nameTok q)) ++
      [p ')', sp1, w k_VALUES, sp1, p '('] ++ commaP (vals.map litTok) ++ [p ')']
  | .vtCreate =>
    [w k_CREATE, sp1, w k_TABLE, sp1, vtName, sp1, p '(', .sp ['\n', ' ', ' ', ' ', ' '],
     vtCol, sp1, w k_VARCHAR, p '(', w ['3', '2'], p ')', sp1, w k_NOT, sp1, w k_NULL, p ',', spCol,
     w k_CONSTRAINT, sp1, w k_alembic_version_pkc, sp1, w k_PRIMARY, sp1, w k_KEY, sp1, p '(', vtCol, p ')', spNl, p ')']
  | .vtDrop => [w k_DROP, sp1, w k_TABLE, sp1, vtName]
  | .vtInsert v =>
    [w k_INSERT, sp1, w k_INTO, sp1, vtName, sp1, p '(', vtCol, p ')', sp1, w k_VALUES, sp1, p '(', .t (.str v), p ')',
     sp1, w k_RETURNING, sp1, vtCol]
  | .vtUpdate old new =>
    [w k_UPDATE, sp1, vtName, sp1, w k_SET, sp1, vtCol, p '=', .t (.str new), sp1, w k_WHERE, sp1,
     vtName, p '.', vtCol, sp1, p '=', sp1, .t (.str old)]
  | .vtDelete v =>
    [w k_DELETE, sp1, w k_FROM, sp1, vtName, sp1, w k_WHERE, sp1, vtName, p '.', vtCol, sp1, p '=', sp1, .t (.str v)]
  | .other _ => []

/-- the statement text handed to `static_output` (before the terminator) -/
def renderStmt : Stmt → Str
  | .other text => text
  | s => flat (stmtP q s)

/-! ## the statement recogniser -/

/-- cut a token list at every occurrence of `sep` -/
def splitAt (sep : Tok) : List Tok → List (List Tok)
  | [] => [[]]
  | a :: r =>
    if a = sep then [] :: splitAt sep r
    else match splitAt sep r with
      | s :: ss => (a :: s) :: ss
      | [] => [[a]]

def mapOpt {α β : Type} (f : α → Option β) : List α → Option (List β)
  | [] => some []
  | a :: r => match f a, mapOpt f r with
    | some b, some bs => some (b :: bs)
    | _, _ => none

/-- a segment that must be a single token -/
def one {β : Type} (f : Tok → Option β) : List Tok → Option β
  | [a] => f a
  | _ => none

def tyOfWord (k : Str) : ColTy := if k = k_INTEGER then .integer else .text

/-- one column specification (keywords are validated by re-rendering, see `check`) -/
def parseCol : List Tok → Option Col
  | [n, .word ty] => (nameOf n).map (fun n => ⟨n, tyOfWord ty, true⟩)
  | [n, .word ty, _, _] => (nameOf n).map (fun n => ⟨n, tyOfWord ty, false⟩)
  | [n, _, _, .word d, _] => match nameOf n, parseNat d with
    | some n, some k => some ⟨n, .varchar k, true⟩
    | _, _ => none
  | [n, _, _, .word d, _, _, _] => match nameOf n, parseNat d with
    | some n, some k => some ⟨n, .varchar k, false⟩
    | _, _ => none
  | _ => none

def comma : Tok := .punct ','
def rparen : Tok := .punct ')'

/-- guess the statement from the positions of its variable parts -/
def guess : List Tok → Option Stmt
  | .word a :: .word b :: x :: rest =>
    if a = k_CREATE ∧ b = k_TABLE then
      match nameOf x, rest with
      | some t, _ :: body => (mapOpt parseCol (splitAt comma body.dropLast)).map (Stmt.createTable t)
      | _, _ => none
    else if a = k_DROP ∧ b = k_TABLE then (nameOf x).map Stmt.dropTable
    else if a = k_DROP ∧ b = k_INDEX then (nameOf x).map Stmt.dropIndex
    else if a = k_ALTER ∧ b = k_TABLE then
      match nameOf x, rest with
      | some t, _ :: _ :: seg => (parseCol seg).map (Stmt.addColumn t)
      | _, _ => none
    else if a = k_CREATE ∧ b = k_INDEX then
      match nameOf x, rest with
      | some ix, _ :: y :: _ :: body =>
        match nameOf y, mapOpt (one nameOf) (splitAt comma body.dropLast) with
        | some t, some cols => some (Stmt.createIndex ix t cols)
        | _, _ => none
      | _, _ => none
    else if a = k_INSERT ∧ b = k_INTO then
      match nameOf x, rest with
      | some t, _ :: body =>
        match splitAt rparen body with
        | [ns, _ :: _ :: vs, []] =>
          match mapOpt (one nameOf) (splitAt comma ns), mapOpt (one litOf) (splitAt comma vs) with
          | some cols, some vals => some (Stmt.insert t cols vals)
          | _, _ => none
        | _ => none
      | _, _ => none
    else none
  | _ => none

/-- the string literal at position `i` (version numbers of the version-table statements) -/
def strAt (ts : List Tok) (i : Nat) : Str :=
  match ts[i]? with
  | some (.str v) => v
  | _ => []

/-- the version-table statements have fixed shapes: candidates by position -/
def vtCandidates (ts : List Tok) : List Stmt :=
  [.vtCreate, .vtDrop, .vtInsert (strAt ts 8), .vtUpdate (strAt ts 11) (strAt ts 5), .vtDelete (strAt ts 8)]

/-- a guess is accepted only if rendering it gives back exactly the tokens read -/
def check (ts : List Tok) (g : Option Stmt) : Option Stmt :=
  match g with
  | some s => if toks (stmtP q s) = ts then some s else none
  | none => none

def parseToks (ts : List Tok) : Option Stmt :=
  match (vtCandidates ts).find? (fun c => toks (stmtP q c) == ts) with
  | some s => some s
  | none => check q ts (guess ts)

/-- what the database makes of one statement text -/
def parseStmt (text : Str) : Stmt :=
  match parseToks q (lex text) with
  | some s => s
  | none => .other text

end

/-! ## SQLite's quoting policy (`IdentifierPreparer._requires_quotes`) -/

def sqliteReserved : List String := ["add", "after", "all", "alter", "analyze", "and", "as", "asc", "attach", "autoincrement", "before", "begin", "between", "by", "cascade", "case", "cast", "check", "collate", "column", "commit", "conflict", "constraint", "create", "cross", "current_date", "current_time", "current_timestamp", "database", "default", "deferrable", "deferred", "delete", "desc", "detach", "distinct", "drop", "each", "else", "end", "escape", "except", "exclusive", "exists", "explain", "fail", "false", "for", "foreign", "from", "full", "glob", "group", "having", "if", "ignore", "immediate", "in", "index", "indexed", "initially", "inner", "insert", "instead", "intersect", "into", "is", "isnull", "join", "key", "left", "like", "limit", "match", "natural", "not", "notnull", "null", "of", "offset", "on", "or", "order", "outer", "plan", "pragma", "primary", "query", "raise", "references", "reindex", "rename", "replace", "restrict", "right", "rollback", "row", "select", "set", "table", "temp", "temporary", "then", "to", "transaction", "trigger", "true", "union", "unique", "update", "using", "vacuum", "values", "view", "virtual", "when", "where"]

def lowerStr (s : Str) : Str := s.map Char.toLower

def sqliteNeedsQuote (n : Str) : Bool :=
  sqliteReserved.contains (String.ofList (lowerStr n))
  || (match n with | [] => true | c :: _ => isDigitCh c || c == '$')
  || !(n.all isWordCh)
  || (lowerStr n != n)

end Model.Offline
