import Model.Offline.Db
/-!
# One migration run, online and offline

Mirror of `MigrationContext.run_migrations` + `HeadMaintainer` (alembic/runtime/migration.py)
and of the `as_sql` / connection branches of `DefaultImpl._exec` and `DefaultImpl.bulk_insert`
(alembic/ddl/impl.py), over an abstract migration-body language.

A step carries its body and the version-table operations `HeadMaintainer.update_to_step`
performs for it (which operations these are on a branched history is the row algebra of
property C03; here they are a parameter, so every theorem holds for every choice).
-/
namespace Model.Offline

/-- the migration-body language (`alembic.op` calls that do not read from the database) -/
inductive Op where
  | createTable (t : Str) (cols : List Col)
  | dropTable (t : Str)
  | addColumn (t : Str) (c : Col)
  | createIndex (ix : Str) (t : Str) (cols : List Str)
  | dropIndex (ix : Str)
  | bulkInsert (t : Str) (cols : List Str) (rows : List (List Val))
  | execute (text : Str)
  deriving DecidableEq, Repr

/-- `HeadMaintainer._insert_version / _update_version / _delete_version` -/
inductive VerOp where
  | insert (v : Str)
  | update (old new : Str)
  | delete (v : Str)
  deriving DecidableEq, Repr

structure Step where
  /-- `step.short_log` -/
  comment : Str
  body : List Op
  ver : List VerOp
  deriving DecidableEq, Repr

def verStmt : VerOp → Stmt
  | .insert v => .vtInsert v
  | .update o n => .vtUpdate o n
  | .delete v => .vtDelete v

/-- the in-memory `HeadMaintainer.heads` set (`none` = `assert` / `KeyError`) -/
def hmStep (heads : List Str) : VerOp → Option (List Str)
  | .insert v => if v ∈ heads then none else some (heads ++ [v])
  | .update o n =>
    if n ∈ heads then none else if o ∈ heads then some (heads.map (fun x => if x = o then n else x)) else none
  | .delete v => if v ∈ heads then some (heads.filter (fun x => x ≠ v)) else none

def hmAll : List Str → List VerOp → Option (List Str)
  | h, [] => some h
  | h, v :: r => match hmStep h v with
    | some h' => hmAll h' r
    | none => none

section
variable (q : Str → Bool)

/-! ## online: statements are executed, `bulk_insert` binds the values -/

def insertRows (t : Str) (cols : List Str) : List (List Val) → DB → Option DB
  | [], db => some db
  | r :: rs, db => match db.insertRow t cols r with
    | some db' => insertRows t cols rs db'
    | none => none

def onlineOp : Op → DB → Option DB
  | .createTable t cols, db => db.createTable t cols
  | .dropTable t, db => db.dropTable t
  | .addColumn t c, db => db.addColumn t c
  | .createIndex ix t cols, db => db.createIndex ix t cols
  | .dropIndex ix, db => db.dropIndex ix
  | .bulkInsert t cols rows, db => insertRows t cols rows db
  | .execute text, db => execStmt (parseStmt q text) db      -- the database reads the text

def onlineOps : List Op → DB → Option DB
  | [], db => some db
  | o :: r, db => match onlineOp q o db with
    | some db' => onlineOps r db'
    | none => none

/-- one `HeadMaintainer` call online: heads bookkeeping, then the statement.  (The online-only
    `rowcount != 1 -> CommandError` check is not modelled: it cannot fire while the rows are
    the tracked heads, which `C12.same_effect_partial` maintains as an invariant.) -/
def onlineVer (s : List Str × DB) (v : VerOp) : Option (List Str × DB) :=
  match hmStep s.1 v, execStmt (verStmt v) s.2 with
  | some h', some db' => some (h', db')
  | _, _ => none

def onlineVers : List Str × DB → List VerOp → Option (List Str × DB)
  | s, [] => some s
  | s, v :: r => match onlineVer s v with
    | some s' => onlineVers s' r
    | none => none

def onlineStep (s : List Str × DB) (st : Step) : Option (List Str × DB) :=
  match onlineOps q st.body s.2 with
  | some db' => onlineVers (s.1, db') st.ver
  | none => none

def onlineSteps : List Str × DB → List Step → Option (List Str × DB)
  | s, [] => some s
  | s, st :: r => match onlineStep q s st with
    | some s' => onlineSteps s' r
    | none => none

/-- `run_migrations` with a connection: heads are read from the database, the version table
    is created (checkfirst) when there are none -/
def online (steps : List Step) (db₀ : DB) : Option DB :=
  let heads := db₀.version.getD []
  let db₁ := if heads.isEmpty then db₀.ensureVT else db₀
  (onlineSteps q (heads, db₁) steps).map (fun s => s.2)

/-! ## offline: statement text is written to the output buffer -/

/-- `_exec(construct)` in `as_sql` mode: `renderStmt` is the compiled text already stripped
    (SQLAlchemy's DDL compiler surrounds it with newlines), `tabs4` is `_exec`'s `.replace` -/
def stmtItem (s : Stmt) : Item := .stmt (tabs4 (renderStmt q s))

def opItems : Op → List Item
  | .createTable t cols => [stmtItem q (.createTable t cols)]
  | .dropTable t => [stmtItem q (.dropTable t)]
  | .addColumn t c => [stmtItem q (.addColumn t c)]
  | .createIndex ix t cols => [stmtItem q (.createIndex ix t cols)]
  | .dropIndex ix => [stmtItem q (.dropIndex ix)]
  | .bulkInsert t cols rows => rows.map (fun r => stmtItem q (.insert t cols r))   -- one INSERT per row
  | .execute text => [.stmt (execText text)]

def bodyItems : List Op → List Item
  | [] => []
  | o :: r => opItems q o ++ bodyItems r

def verItems : List VerOp → List Item
  | [] => []
  | v :: r => stmtItem q (verStmt v) :: verItems r

/-- one iteration of the `for step in …` loop of `run_migrations` in `as_sql` mode -/
def offlineStepItems (heads : List Str) (st : Step) : List Item :=
  (if heads.isEmpty then [stmtItem q .vtCreate] else []) ++
    [.comment (['R', 'u', 'n', 'n', 'i', 'n', 'g', ' '] ++ st.comment)] ++ bodyItems q st.body ++ verItems q st.ver

def offlineItems : List Str → List Step → Option (List Item)
  | heads, [] => some (if heads.isEmpty then [stmtItem q .vtDrop] else [])
  | heads, st :: r =>
    match hmAll heads st.ver with
    | none => none
    | some heads' => match offlineItems heads' r with
      | some rest => some (offlineStepItems q heads st ++ rest)
      | none => none

/-- the script `upgrade/downgrade --sql start:end` writes (`none` = the command raises) -/
def offline (start : List Str) (steps : List Step) : Option Str :=
  (offlineItems q start steps).map emit

/-! ## what the emitted statements are, as statements -/

def opStmts : Op → List Stmt
  | .createTable t cols => [.createTable t cols]
  | .dropTable t => [.dropTable t]
  | .addColumn t c => [.addColumn t c]
  | .createIndex ix t cols => [.createIndex ix t cols]
  | .dropIndex ix => [.dropIndex ix]
  | .bulkInsert t cols rows => rows.map (fun r => .insert t cols r)
  | .execute text => [parseStmt q text]

def bodyStmts : List Op → List Stmt
  | [] => []
  | o :: r => opStmts q o ++ bodyStmts r

def stepStmts (heads : List Str) (st : Step) : List Stmt :=
  (if heads.isEmpty then [Stmt.vtCreate] else []) ++ bodyStmts q st.body ++ st.ver.map verStmt

def offlineStmts : List Str → List Step → Option (List Stmt)
  | heads, [] => some (if heads.isEmpty then [Stmt.vtDrop] else [])
  | heads, st :: r =>
    match hmAll heads st.ver with
    | none => none
    | some heads' => (offlineStmts heads' r).map (fun rest => stepStmts q heads st ++ rest)

/-! ## executing a script statement by statement -/

def execTexts : List Str → DB → Option DB
  | [], db => some db
  | t :: r, db => match execStmt (parseStmt q t) db with
    | some db' => execTexts r db'
    | none => none

def execScript (script : Str) (db : DB) : Option DB := execTexts q (split script) db

end
end Model.Offline
