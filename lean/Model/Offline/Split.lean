/-!
# Offline (`--sql`) script text: emission framing and statement splitting

Mirror of (alembic/ddl/impl.py)

* `DefaultImpl._exec`, `as_sql` branch:
  `self.static_output(str(compiled).replace("\t", "    ").strip() + self.command_terminator)`
  with `command_terminator = ";"`,
* `DefaultImpl.static_output`: `self.output_buffer.write(text + "\n\n")`,
* `MigrationContext.run_migrations`: `self.impl.static_output("-- Running %s" % (step.short_log,))`,

and the reader of such a script (what "executing the script statement by statement" means):
`split` cuts the text at the command terminator **outside** string literals `'…'`, quoted
identifiers `"…"` and `-- …` line comments (the lexical rules of SQLite), drops the comments
and the white space in front of a statement.  `harness/offline_impl.py:split_script` is the
Python twin used to execute real scripts; both are compared with `sqlite3.complete_statement`
on every run.
-/
namespace Model.Offline

abbrev Str := List Char

def isWs (c : Char) : Bool :=
  c == ' ' || c == '\t' || c == '\n' || c == '\r' || c == '\x0b' || c == '\x0c'

/-- `str.replace("\t", "    ")` -/
def tabs4 : Str → Str
  | [] => []
  | c :: r => if c == '\t' then ' ' :: ' ' :: ' ' :: ' ' :: tabs4 r else c :: tabs4 r

def lstrip : Str → Str
  | [] => []
  | c :: r => if isWs c then lstrip r else c :: r

/-- `str.strip()` (ASCII white space) -/
def strip (s : Str) : Str := (lstrip (lstrip s).reverse).reverse

/-- what `_exec` hands to `static_output` for a compiled statement, without the terminator -/
def execText (compiled : Str) : Str := strip (tabs4 compiled)

/-- one `static_output` call -/
inductive Item where
  | stmt (s : Str)       -- `_exec`: statement text followed by the command terminator
  | comment (c : Str)    -- `-- Running …` line
  deriving DecidableEq, Repr

def emitItem : Item → Str
  | .stmt s => s ++ [';', '\n', '\n']
  | .comment c => '-' :: '-' :: ' ' :: (c ++ ['\n', '\n'])

def emit : List Item → Str
  | [] => []
  | i :: r => emitItem i ++ emit r

def stmtsOf : List Item → List Str
  | [] => []
  | .stmt s :: r => s :: stmtsOf r
  | .comment _ :: r => stmtsOf r

/-! ## the splitter -/

inductive Mode where
  | code | dash | str | ident | comment
  deriving DecidableEq, Repr

structure SplitSt where
  mode : Mode
  /-- current statement, reversed (a pending `-` of `dash` mode not included) -/
  cur : Str
  /-- finished statements, reversed -/
  out : List Str
  deriving Repr

def codeStep (cur : Str) (out : List Str) (c : Char) : SplitSt :=
  if c == ';' then ⟨.code, [], cur.reverse :: out⟩
  else if c == '\'' then ⟨.str, c :: cur, out⟩
  else if c == '"' then ⟨.ident, c :: cur, out⟩
  else if c == '-' then ⟨.dash, cur, out⟩
  else if cur.isEmpty && isWs c then ⟨.code, cur, out⟩
  else ⟨.code, c :: cur, out⟩

def step (s : SplitSt) (c : Char) : SplitSt :=
  match s.mode with
  | .code => codeStep s.cur s.out c
  | .dash => if c == '-' then ⟨.comment, s.cur, s.out⟩ else codeStep ('-' :: s.cur) s.out c
  | .str => ⟨if c == '\'' then .code else .str, c :: s.cur, s.out⟩
  | .ident => ⟨if c == '"' then .code else .ident, c :: s.cur, s.out⟩
  | .comment => ⟨if c == '\n' then .code else .comment, s.cur, s.out⟩

/-- effective current text (reversed): a pending `-` belongs to it -/
def curOf (s : SplitSt) : Str := if s.mode == .dash then '-' :: s.cur else s.cur

def finish (s : SplitSt) : List Str :=
  (if (curOf s).all isWs then s.out else (curOf s).reverse :: s.out).reverse

def split (t : Str) : List Str := finish (t.foldl step ⟨.code, [], []⟩)

/-! ## lexical well-formedness of one statement text -/

/-- mode transitions of `step` that neither cut nor start a comment -/
def modeStep : Mode → Char → Option Mode
  | .code, c =>
    if c == ';' then none else if c == '\'' then some .str else if c == '"' then some .ident
    else if c == '-' then some .dash else some .code
  | .dash, c =>
    if c == '-' then none else if c == ';' then none else if c == '\'' then some .str
    else if c == '"' then some .ident else some .code
  | .str, c => if c == '\'' then some .code else some .str
  | .ident, c => if c == '"' then some .code else some .ident
  | .comment, _ => none

def scan : Mode → Str → Option Mode
  | m, [] => some m
  | m, c :: r => match modeStep m c with
    | some m' => scan m' r
    | none => none

/-- no white space in front -/
def headOk : Str → Bool
  | [] => true
  | c :: _ => !isWs c

/-- A statement text a reader can recover: every literal / quoted identifier is closed, no
    terminator and no comment outside them, no leading white space. -/
def Closed (s : Str) : Bool := scan .code s == some .code && headOk s

def noNewline (c : Str) : Bool := c.all (fun x => x != '\n')

def itemOk : Item → Bool
  | .stmt s => Closed s
  | .comment c => noNewline c

end Model.Offline
