/-!
# Online migration run: transaction control flow over an abstract connection (C04)

Mirror of the control flow of `alembic/runtime/migration.py` in online mode
(`as_sql = False`), under the `env.py` shape of `alembic/templates/generic/env.py`

```
with connectable.connect() as connection:
    context.configure(connection=connection, ...)
    with context.begin_transaction():
        context.run_migrations()
```

* `MigrationContext.begin_transaction` (decision tree: external transaction,
  `impl.transactional_ddl`, `_per_migration` against `transaction_per_migration`,
  `self._transaction` tracking), `sqla_compat._safe_begin_connection_transaction`,
* `_ProxyTransaction.__exit__` (commit on success, rollback on exception),
* `MigrationContext.run_migrations` (`get_current_heads` autobegins the SQLAlchemy 2.0
  connection, `_ensure_version_table` under `_ensure_scope_for_ddl`, then per step
  `with self.begin_transaction(_per_migration=True): step.migration_fn();
  head_maintainer.update_to_step(step)`),
* `MigrationContext.autocommit_block` (online branch),

over an abstract connection.  The database state `σ` and the payload `α` of a statement
are parameters (`ap : α → σ → σ` says what a statement does), so everything proved about
this model holds for every notion of "schema", "data" and "version row".

The three DDL modes are a *model of backends* (see `execStmt`): only `transactional`
(SQLite with the documented "emit our own BEGIN" recipe) and `pysqlite` (legacy
transaction control of the sqlite3 module) are validated live by the harness.
-/
namespace Model.Online

/-- How the backend + driver treat DDL. -/
inductive Mode where
  /-- every statement is inside the transaction opened at (auto)begin; ROLLBACK undoes DDL
      (PostgreSQL, MSSQL, SQLite with the "BEGIN" recipe) -/
  | transactional
  /-- a DDL statement implicitly commits the open transaction and is itself durable at
      once (MySQL, Oracle) -/
  | autocommitDDL
  /-- sqlite3 legacy transaction control: the driver emits BEGIN only before DML; DDL
      outside a transaction is durable at once, DDL inside an open transaction is rolled
      back with it -/
  | pysqlite
  deriving DecidableEq, Repr

inductive Kind where
  | ddl
  | dml
  deriving DecidableEq, Repr

structure Stmt (α : Type) where
  kind : Kind
  act : α
  deriving Repr

/-- A migration body is a sequence of segments (as in the offline model). -/
inductive Seg (α : Type) where
  | plain (ss : List (Stmt α))      -- ordinary statements
  | auto (ss : List (Stmt α))       -- `with ctx.autocommit_block():` around statements
  deriving Repr

structure Mig (α : Type) where
  /-- the revision the step is about (only used by the specification) -/
  rev : Nat
  segs : List (Seg α)
  /-- statements `HeadMaintainer.update_to_step` emits (INSERT/UPDATE/DELETE: all DML) -/
  vstmts : List α
  deriving Repr

structure Cfg where
  mode : Mode
  /-- `impl.transactional_ddl` after the `transactional_ddl` override has been applied -/
  tddl : Bool
  /-- `transaction_per_migration` -/
  perMig : Bool
  /-- the caller had begun a transaction before `configure` (`_in_external_transaction`) -/
  external : Bool
  /-- the transaction alembic takes for the caller's has no owner: it was autobegun by an earlier
      context on the same connection (finding C04-F2), so nobody ever commits it -/
  orphan : Bool := false
  deriving Repr

/-- Connection + the bits of `MigrationContext` that matter. -/
structure St (σ : Type) where
  /-- what a fresh connection sees -/
  committed : σ
  /-- what this connection sees -/
  working : σ
  /-- a database-level transaction is open (only consulted by the `pysqlite` DDL rule) -/
  inTxn : Bool
  /-- `connection.in_transaction()`: a SQLAlchemy-level transaction exists (begun or autobegun) -/
  sa : Bool
  /-- `self._transaction is not None` -/
  txn : Bool
  /-- inside `autocommit_block`: the saved `_in_connection_transaction` -/
  auto : Option Bool
  deriving Repr

/-- What kind of exception the failure oracle raises.  **The model never consults it**:
    `_ProxyTransaction.__exit__(type_, value, tb)` delegates to the SQLAlchemy
    `Transaction.__exit__`, which rolls back whenever `type_ is not None` — for
    `KeyboardInterrupt`, `SystemExit` and any other `BaseException` exactly as for an
    `Exception`; likewise the `finally:` of `autocommit_block` and `Connection.close()` run for
    every kind.  The field exists so that the theorems visibly quantify over it and so that
    the harness varies it against the real code. -/
inductive FailKind where
  | exception             -- an `Exception` subclass
  | keyboardInterrupt     -- `KeyboardInterrupt`
  | systemExit            -- `SystemExit`
  | baseException         -- any other `BaseException` that is not an `Exception`
  deriving DecidableEq, Repr

inductive Atom (α : Type) where
  | stmt (s : Stmt α)
  | enterAuto
  | exitAuto
  | raise (kind : FailKind)   -- the failure oracle: an exception of this kind is raised here
  deriving Repr

inductive Outcome (σ : Type) where
  | ok (st : St σ)
  | raised (st : St σ)
  deriving Repr

section
variable {α σ : Type} (ap : α → σ → σ)

/-- `connection.begin()` / SQLAlchemy 2.0 autobegin.  In `transactional` mode a BEGIN
    reaches the database (recipe: the `begin` event emits it). -/
def saBegin (md : Mode) (st : St σ) : St σ :=
  { st with sa := true, inTxn := if md = .transactional then true else st.inTxn }

/-- autobegin on execute; also `_safe_begin_connection_transaction`
    (`connection.get_transaction() or connection.begin()`) -/
def autobegin (md : Mode) (st : St σ) : St σ := if st.sa then st else saBegin md st

def commit (st : St σ) : St σ := { st with committed := st.working, inTxn := false, sa := false }

def rollback (st : St σ) : St σ := { st with working := st.committed, inTxn := false, sa := false }

/-- one statement on the connection -/
def execStmt (md : Mode) (s : Stmt α) (st0 : St σ) : St σ :=
  let st := autobegin md st0
  let w := ap s.act st.working
  match st.auto with
  | some _ => { st with working := w, committed := w }      -- AUTOCOMMIT isolation level
  | none =>
    match md, s.kind with
    | .transactional, _ => { st with working := w, inTxn := true }
    | .autocommitDDL, .ddl => { st with working := w, committed := w, inTxn := false }
    | .autocommitDDL, .dml => { st with working := w, inTxn := true }
    | .pysqlite, .dml => { st with working := w, inTxn := true }
    | .pysqlite, .ddl =>
      if st.inTxn then { st with working := w } else { st with working := w, committed := w }

/-- `MigrationContext.begin_transaction(_per_migration)` online.  Returns whether a
    `_ProxyTransaction` (true) or a `nullcontext()` (false) is the context manager. -/
def beginTransaction (c : Cfg) (perMigrationCall : Bool) (st : St σ) : Bool × St σ :=
  if c.external then (false, st)                       -- if self._in_external_transaction
  else
    let now := if c.tddl then perMigrationCall == c.perMig else perMigrationCall
    if !now then (false, st)
    else if !c.tddl then
      -- in_transaction = self._transaction is not None
      if st.txn then (false, st) else (true, { autobegin c.mode st with txn := true })
    else (true, { autobegin c.mode st with txn := true })

/-- `_ProxyTransaction.__exit__` (through `Transaction.__exit__`): commit, or rollback when
    an exception is propagating (`exc` = `type_ is not None`; the exception's class is not
    looked at, see `FailKind`); `self._transaction = None`. -/
def proxyExit (exc : Bool) (st : St σ) : St σ :=
  if st.txn then { (if exc then rollback st else commit st) with txn := false } else st

def exitIf (proxy exc : Bool) (st : St σ) : St σ := if proxy then proxyExit exc st else st

/-- entry of `autocommit_block` (online); `none` = the `assert self._transaction is not None` fails -/
def enterAuto (md : Mode) (st : St σ) : Option (St σ) :=
  if st.sa then                                          -- _in_connection_transaction
    if st.txn then some { saBegin md { commit st with txn := false } with auto := some true }
    else none
  else some { saBegin md st with auto := some false }

/-- the `finally:` of `autocommit_block` -/
def exitAuto (md : Mode) (st : St σ) : St σ :=
  match st.auto with
  | none => st
  | some inConn =>
    let st1 : St σ := { commit st with auto := none }        -- fake_trans.commit()
    if inConn then { saBegin md st1 with txn := true } else st1

def runAtoms (md : Mode) : List (Atom α) → St σ → Outcome σ
  | [], st => .ok st
  | .raise _ :: _, st => .raised (exitAuto md st)        -- any kind: `finally` of an open autocommit block runs
  | .stmt s :: r, st => runAtoms md r (execStmt ap md s st)
  | .enterAuto :: r, st =>
    match enterAuto md st with
    | some st' => runAtoms md r st'
    | none => .raised st
  | .exitAuto :: r, st => runAtoms md r (exitAuto md st)

def atomsOfSeg : Seg α → List (Atom α)
  | .plain ss => ss.map .stmt
  | .auto ss => [.enterAuto] ++ ss.map .stmt ++ [.exitAuto]

def bodyAtoms : List (Seg α) → List (Atom α)
  | [] => []
  | s :: r => atomsOfSeg s ++ bodyAtoms r

def versionAtoms (vs : List α) : List (Atom α) := vs.map (fun a => .stmt ⟨.dml, a⟩)

/-- `step.migration_fn(**kw)` then `head_maintainer.update_to_step(step)` -/
def migAtoms (m : Mig α) : List (Atom α) := bodyAtoms m.segs ++ versionAtoms m.vstmts

/-- The failure oracle: migrations `0..k-1` run completely, migration `k` raises at atom
    position `pos` (`0` = before its first statement, `length` = after the version update,
    e.g. in an `on_version_apply` callback). -/
def oracle (kind : FailKind) (plan : List (Mig α)) (k pos : Nat) : List (List (Atom α)) :=
  (plan.take k).map migAtoms ++
    match plan[k]? with
    | some m => [(migAtoms m).take pos ++ [.raise kind]]
    | none => []

/-- the `for step in self._migrations_fn(heads, self)` loop -/
def runLoop (c : Cfg) : List (List (Atom α)) → St σ → Outcome σ
  | [], st => .ok st
  | p :: r, st =>
    match runAtoms ap c.mode p (beginTransaction c true st).2 with
    | .ok st2 => runLoop c r (exitIf (beginTransaction c true st).1 false st2)
    | .raised st2 => .raised (exitIf (beginTransaction c true st).1 true st2)

/-- `_ensure_version_table` under `_ensure_scope_for_ddl` -/
def ensureVT (md : Mode) (pre : List (Stmt α)) (st : St σ) : St σ :=
  if pre.isEmpty then st
  else if st.sa then pre.foldl (fun s x => execStmt ap md x s) st
  else commit (pre.foldl (fun s x => execStmt ap md x s) (saBegin md st))

/-- `run_migrations`: `get_current_heads()` autobegins, the version table is ensured, loop -/
def runMigrations (c : Cfg) (pre : List (Stmt α)) (progs : List (List (Atom α))) (st : St σ) : Outcome σ :=
  runLoop ap c progs (ensureVT ap c.mode pre (autobegin c.mode st))

def initSt (c : Cfg) (db : σ) : St σ :=
  { committed := db, working := db, inTxn := c.external && c.mode == .transactional,
    sa := c.external, txn := false, auto := none }

/-- leaving the connection scope: `Connection.close()` rolls back whatever is still open;
    an external caller (`with connection.begin():`) commits on success, rolls back on error -/
def closeConn (c : Cfg) (exc : Bool) (st : St σ) : St σ :=
  if c.external && !exc && !c.orphan then commit st else rollback st

/-- the whole `env.py` shape; result = what a fresh connection sees afterwards -/
def runFinal (c : Cfg) (pre : List (Stmt α)) (progs : List (List (Atom α))) (db : σ) : σ :=
  match runMigrations ap c pre progs (beginTransaction c false (initSt c db)).2 with
  | .ok st => (closeConn c false (exitIf (beginTransaction c false (initSt c db)).1 false st)).committed
  | .raised st => (closeConn c true (exitIf (beginTransaction c false (initSt c db)).1 true st)).committed

/-- did the run raise -/
def runRaised (c : Cfg) (pre : List (Stmt α)) (progs : List (List (Atom α))) (db : σ) : Bool :=
  match runMigrations ap c pre progs (beginTransaction c false (initSt c db)).2 with
  | .ok _ => false
  | .raised _ => true

end
/-! ### env.py variants around the documented shape

* `preStmt`: env.py executes something on the migration connection between `context.configure()`
  and `context.begin_transaction()` (`get_current_revision()`, a `SELECT`, a `PRAGMA`, `SET …`):
  SQLAlchemy 2.0 autobegins.  `_in_external_transaction` was computed in
  `MigrationContext.__init__`, i.e. *before* that statement, so the autobegun transaction is
  not mistaken for the caller's: `begin_transaction` adopts it
  (`_safe_begin_connection_transaction`) and commits it.
* `noOuter`: env.py calls `context.run_migrations()` without the outer
  `with context.begin_transaction():` (harmless exactly when that level is a `nullcontext()`
  anyway, see `C04.shape_noOuter_same`). -/
inductive Shape where
  | stock
  | preStmt
  | noOuter
  deriving DecidableEq, Repr

section
variable {α σ : Type} (ap : α → σ → σ)

/-- what a fresh connection sees afterwards, and whether the run raised -/
def finish (c : Cfg) (proxy : Bool) : Outcome σ → σ × Bool
  | .ok st => ((closeConn c false (exitIf proxy false st)).committed, false)
  | .raised st => ((closeConn c true (exitIf proxy true st)).committed, true)

def runShape (sh : Shape) (c : Cfg) (pre : List (Stmt α)) (progs : List (List (Atom α))) (db : σ) : σ × Bool :=
  match sh with
  | .stock =>
    finish c (beginTransaction c false (initSt c db)).1
      (runMigrations ap c pre progs (beginTransaction c false (initSt c db)).2)
  | .preStmt =>
    finish c (beginTransaction c false (autobegin c.mode (initSt c db))).1
      (runMigrations ap c pre progs (beginTransaction c false (autobegin c.mode (initSt c db))).2)
  | .noOuter => finish c false (runMigrations ap c pre progs (initSt c db))

end

/-! ### `EnvironmentContext.configure` called several times in one env.py run

`opts = self.context_opts` is one dict for the whole `EnvironmentContext` (one env.py run) and
every `configure()` call writes into it (alembic/runtime/environment.py):

```
if transactional_ddl is not None:
    opts["transactional_ddl"] = transactional_ddl          # kept from an earlier call when not given
opts["transaction_per_migration"] = transaction_per_migration   # always overwritten
```

so the two settings of the property reach the `MigrationContext` of the k-th call as follows. -/

structure ConfigureArgs where
  tddl : Option Bool      -- `transactional_ddl=` (None = not given)
  perMig : Bool           -- `transaction_per_migration=` (default False)
  deriving Repr, DecidableEq

structure CtxOpts where
  tddl : Option Bool := none
  perMig : Bool := false
  deriving Repr, DecidableEq

def configureCall (o : CtxOpts) (a : ConfigureArgs) : CtxOpts :=
  { tddl := match a.tddl with
      | some b => some b
      | none => o.tddl,
    perMig := a.perMig }

def configureAll (o : CtxOpts) (calls : List ConfigureArgs) : CtxOpts := calls.foldl configureCall o

/-- `(impl.transactional_ddl, _transaction_per_migration)` of the context made from `o`;
    `dialectDefault` = the dialect's class attribute `transactional_ddl` -/
def effective (dialectDefault : Bool) (o : CtxOpts) : Bool × Bool := (o.tddl.getD dialectDefault, o.perMig)

end Model.Online
