import Model.Online.Run
/-!
# A concrete database state for the driver

Objects (tables created by DDL, data rows inserted by DML) are natural numbers chosen by
the harness; the version table is a list of revision numbers plus an "exists" flag.
The theorems in `Props/C04.lean` do not depend on this file: they hold for every `σ`.
-/
namespace Model.Online

inductive Act where
  | add (e : Nat)          -- CREATE TABLE t_e / INSERT INTO data VALUES (e)
  | del (e : Nat)          -- DROP TABLE t_e / DELETE FROM data WHERE x = e
  | createVT               -- CREATE TABLE alembic_version
  | vins (r : Nat)         -- INSERT INTO alembic_version
  | vdel (r : Nat)         -- DELETE FROM alembic_version WHERE version_num = r
  | vupd (a b : Nat)       -- UPDATE alembic_version SET version_num = b WHERE version_num = a
  | read                   -- the migration reads the current heads (`get_current_heads()`): no effect
  deriving DecidableEq, Repr

structure Db where
  objs : List Nat
  rows : List Nat
  vt : Bool
  deriving DecidableEq, Repr

def insertSorted (e : Nat) : List Nat → List Nat
  | [] => [e]
  | x :: r => if e < x then e :: x :: r else if e = x then x :: r else x :: insertSorted e r

def applyAct : Act → Db → Db
  | .add e, d => { d with objs := insertSorted e d.objs }
  | .del e, d => { d with objs := d.objs.filter (· != e) }
  | .createVT, d => { d with vt := true }
  | .vins r, d => { d with rows := insertSorted r d.rows }
  | .vdel r, d => { d with rows := d.rows.filter (· != r) }
  | .vupd a b, d => { d with rows := insertSorted b (d.rows.filter (· != a)) }
  | .read, d => d

end Model.Online
