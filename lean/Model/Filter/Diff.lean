import Model.Filter.Schema
/-!
# The comparison skeleton of `alembic/autogenerate/compare.py` with the filters threaded through

Mirror of `_produce_net_changes` (schema name filter), `_autogen_for_tables` (table name filter),
`_compare_tables`, `_compare_columns`, `_compare_indexes_and_uniques`, `_compare_foreign_keys`,
reduced to the places where `run_name_filters` / `run_object_filters` are consulted and where an
op is appended.  "Do two matched objects differ" is a parameter (`Cmp`).

Object filters: every `run_object_filters(...)` call site is a *group* `(descriptor, ops)` - "if the
filter accepts this descriptor, append these ops" - and every table-level call a `TGroup` that
also guards everything done inside the table.  Which groups exist does not depend on any filter
answer (in the Python no filter result feeds back into the iteration), so the diff is
`candidates` (the iteration structure) followed by `runT` (the filter calls).

Name filters are pure predicates, each consulted exactly once per reflected name at the point
where the reflected collection is read; the model applies them up front (`visible`) - one
`filter` per call site - and then runs the comparison (`diffCore`) on what is left, which is what
"the database object of that name is treated as absent" means operationally.

Not modelled (stated in the harness as assumptions): dialect
`correct_for_autogen_*` hooks, the version table.  Column comments are part of the `AlterColumnOp`
(`Cmp.colDiffer`); table comments are `tableCommentG`.
Iteration orders of Python sets are not modelled: ops are compared as multisets.
-/
namespace Model.Filter

/-- comparison outcomes that do not depend on the filters -/
structure Cmp where
  /-- `comparators.dispatch("column")` left `alter_column_op.has_changes()` true -/
  colDiffer : Key → String → Bool
  /-- `metadata_obj.compare_to_reflected(conn_obj).is_different` (conn, metadata) -/
  idxDiffer : Idx → Idx → Bool
  uqDiffer : Uq → Uq → Bool
  /-- `inspector.get_unique_constraints` is implemented -/
  supportsUq : Bool
  /-- `_compare_table_comment` appends a create/drop_table_comment op (dialects with comments) -/
  tableCommentDiffer : Key → Bool

/-! ## name filters (`run_name_filters` call sites) -/

/-- compare.py:386 (columns), :491 (unique constraints), :510 (indexes), :1182 (foreign keys) -/
def visibleTbl (nameF : NameDesc → Bool) (t : Tbl) : Tbl :=
  { t with
    cols := t.cols.filter (fun c => nameF ⟨some c, .column, t.schema, some t.name⟩)
    uqs := t.uqs.filter (fun u => nameF ⟨u.name, .uniqueConstraint, t.schema, some t.name⟩)
    idxs := t.idxs.filter (fun i => nameF ⟨some i.name, .index, t.schema, some t.name⟩)
    fks := t.fks.filter (fun f => nameF ⟨f.name, .foreignKey, t.schema, some t.name⟩) }

/-- compare.py:94 (`run_name_filters(s, "schema", {})`) -/
def visibleSchemas (nameF : NameDesc → Bool) (schemas : List (Option String)) : List (Option String) :=
  schemas.filter (fun s => nameF ⟨s, .schema, none, none⟩)

/-- compare.py:128 (`run_name_filters(tname, "table", {"schema_name": schema_name})`) -/
def tableVisible (nameF : NameDesc → Bool) (schemas : List (Option String)) (t : Tbl) : Bool :=
  (visibleSchemas nameF schemas).contains t.schema && nameF ⟨some t.name, .table, t.schema, none⟩

/-- the reflected side as the comparison sees it -/
def visible (nameF : NameDesc → Bool) (schemas : List (Option String)) (conn : List Tbl) : List Tbl :=
  (conn.filter (tableVisible nameF schemas)).map (visibleTbl nameF)

/-! ## object filter call sites as guarded groups -/

/-- one `run_object_filters` call and the ops appended when it returns true -/
abbrev Group := ObjDesc × List Op
/-- one table-level `run_object_filters` call and the calls made inside the table -/
abbrev TGroup := ObjDesc × List Group

def runGroups (objF : ObjDesc → Bool) (gs : List Group) : List Op :=
  gs.flatMap (fun g => if objF g.1 then g.2 else [])

def runT (objF : ObjDesc → Bool) (ts : List TGroup) : List Op :=
  ts.flatMap (fun t => if objF t.1 then runGroups objF t.2 else [])

/-! ## `_compare_indexes_and_uniques` -/

/-- `obj_added` (compare.py:629 index, :646 unique constraint) -/
def objAdded (P : Cmp) (k : Key) (inline : Bool) : Cons → List Group
  | .idx i =>
    [(⟨some i.name, .index, false, false, k.1, k.2⟩, [⟨.createIndex, k.1, k.2, some i.name, i.sig⟩])]
  | .uq u =>
    if !P.supportsUq then []
    else if inline then []       -- is_create_table or is_drop_table
    else [(⟨u.name, .uniqueConstraint, false, false, k.1, k.2⟩, [⟨.addUq, k.1, k.2, u.name, u.sig⟩])]

/-- `obj_removed` (compare.py:668 index, :678 unique constraint) -/
def objRemoved (P : Cmp) (k : Key) (inline : Bool) : Cons → List Group
  | .idx i =>
    if i.unique && !P.supportsUq then []
    else [(⟨some i.name, .index, true, false, k.1, k.2⟩, [⟨.dropIndex, k.1, k.2, some i.name, i.sig⟩])]
  | .uq u =>
    if inline then []
    else [(⟨u.name, .uniqueConstraint, true, false, k.1, k.2⟩, [⟨.dropUq, k.1, k.2, u.name, u.sig⟩])]

/-- `obj_changed(old, new, msg)` (compare.py:700, :711): **one** filter call, for the metadata
object with `compare_to` = the reflected one, guarding the drop and the create -/
def objChanged (k : Key) : Cons → Cons → List Group
  | .idx old, .idx new =>
    [(⟨some new.name, .index, false, true, k.1, k.2⟩,
      [⟨.dropIndex, k.1, k.2, some old.name, old.sig⟩, ⟨.createIndex, k.1, k.2, some new.name, new.sig⟩])]
  | .uq old, .uq new =>
    [(⟨new.name, .uniqueConstraint, false, true, k.1, k.2⟩,
      [⟨.dropUq, k.1, k.2, old.name, old.sig⟩, ⟨.addUq, k.1, k.2, new.name, new.sig⟩])]
  | _, _ => []

def consDiffer (P : Cmp) : Cons → Cons → Bool
  | .idx c, .idx m => P.idxDiffer c m
  | .uq c, .uq m => P.uqDiffer c m
  | _, _ => false

/-- the entries of a name-keyed list that a Python dict built from it would hold: one per name -/
def firsts (l : List (String × Cons)) : List (String × Cons) :=
  l.filter (fun p => l.lookup p.1 == some p.2)

/-- some metadata index has the same `unnamed` signature (`(is_unique,) + column names`) -/
def idxSigIn (mIdxs : List Idx) : Cons → Bool
  | .idx i => mIdxs.any (fun m => m.unique == i.unique && m.sig == i.sig)
  | .uq _ => false

/-- the three name loops and the unnamed-unique loop of `_compare_indexes_and_uniques`;
`conn` is already name-filtered -/
def cmpIdxUq (P : Cmp) (k : Key) (conn md : Option Tbl) : List Group :=
  let inline := conn.isNone || md.isNone
  -- "for DROP TABLE uniques are inline, don't need them"
  let connU : Option Tbl := if md.isNone then conn.map (fun c => { c with uqs := [] }) else conn
  let cN := namedConsOf connU
  let mN := namedConsOf md
  let mUqs := (md.map (·.uqs)).getD []
  let mIdxs := (md.map (·.idxs)).getD []
  let mUqSigs := mUqs.map (·.sig)
  let unnamedSigs := (mUqs.filter (fun u => u.name.isNone)).map (·.sig)
  let connUqSigs := ((connU.map (·.uqs)).getD []).map (·.sig)
  -- removed: names on the connection that the metadata does not have
  let removed := (firsts cN).flatMap (fun p =>
    if (mN.lookup p.1).isSome then []
    else match lookupTyped connU false p.1, lookupTyped connU true p.1 with
      | some cu, some ci =>
        -- `doubled_constraints`: a reflected unique constraint and a reflected index share the name;
        -- both go, unless the metadata still has either of them under another name
        if !idxSigIn mIdxs ci && !mUqSigs.contains (consSig cu) then
          objRemoved P k inline cu ++ objRemoved P k inline ci
        else []
      | _, _ =>
        match p.2 with
        | .uq u => if unnamedSigs.contains u.sig then [] else objRemoved P k inline p.2
        | .idx _ => objRemoved P k inline p.2)
  -- existing: names on both sides (a doubled name is resolved by the type of the metadata object)
  let existing := (firsts mN).flatMap (fun p =>
    match lookupConn connU p.2.isIdx p.1 with
    | none => []
    | some c =>
      if c.isIdx != p.2.isIdx then objRemoved P k inline c ++ objAdded P k inline p.2
      else if consDiffer P c p.2 then objChanged k c p.2
      else [])
  -- added: names only in the metadata
  let added := (firsts mN).flatMap (fun p =>
    if (lookupConn connU p.2.isIdx p.1).isSome then [] else objAdded P k inline p.2)
  -- unnamed metadata unique constraints, matched by signature
  let unnamed := (mUqs.filter (fun u => u.name.isNone)).flatMap (fun u =>
    if connUqSigs.contains u.sig then [] else objAdded P k inline (.uq u))
  removed ++ existing ++ added ++ unnamed

/-! ## `_compare_foreign_keys` (only for tables present on both sides; compare.py:1228, :1244) -/

def hasName (names : List String) : Option String → Bool
  | some n => names.contains n
  | none => false

def cmpFks (k : Key) (conn md : Tbl) : List Group :=
  let cSigs := conn.fks.map (·.sig)
  let mSigs := md.fks.map (·.sig)
  let removed := conn.fks.flatMap (fun f =>
    if mSigs.contains f.sig then []
    else [(⟨f.name, .foreignKey, true, hasName (fkNames md) f.name, k.1, k.2⟩,
      [⟨.dropFk, k.1, k.2, f.name, f.sig⟩])])
  let added := md.fks.flatMap (fun f =>
    if cSigs.contains f.sig then []
    else [(⟨f.name, .foreignKey, false, hasName (fkNames conn) f.name, k.1, k.2⟩,
      [⟨.addFk, k.1, k.2, f.name, f.sig⟩])])
  removed ++ added

/-! ## `_compare_columns` (compare.py:392 added, :405 both sides, :427 removed) -/

def colsAddedAltered (P : Cmp) (k : Key) (conn md : Tbl) : List Group :=
  (md.cols.filter (fun c => !conn.cols.contains c)).map (fun c =>
    ((⟨some c, .column, false, false, k.1, k.2⟩ : ObjDesc), [(⟨.addColumn, k.1, k.2, some c, ""⟩ : Op)])) ++
  (md.cols.filter (fun c => conn.cols.contains c)).map (fun c =>
    ((⟨some c, .column, false, true, k.1, k.2⟩ : ObjDesc),
      if P.colDiffer k c then [(⟨.alterColumn, k.1, k.2, some c, ""⟩ : Op)] else []))

def colsRemoved (k : Key) (conn md : Tbl) : List Group :=
  (conn.cols.filter (fun c => !md.cols.contains c)).map (fun c =>
    ((⟨some c, .column, true, false, k.1, k.2⟩ : ObjDesc), [(⟨.dropColumn, k.1, k.2, some c, ""⟩ : Op)]))

/-! ## `_compare_tables` (compare.py:183 added, :220 removed, :258 both sides) -/

def tableAdded (P : Cmp) (m : Tbl) : TGroup :=
  let td : ObjDesc := ⟨some m.name, .table, false, false, m.schema, m.name⟩
  (td, (td, [⟨.createTable, m.schema, m.name, some m.name, ""⟩]) :: cmpIdxUq P m.key none (some m))

def tableRemoved (P : Cmp) (c : Tbl) : TGroup :=
  let td : ObjDesc := ⟨some c.name, .table, true, false, c.schema, c.name⟩
  (td, cmpIdxUq P c.key (some c) none ++ [(td, [⟨.dropTable, c.schema, c.name, some c.name, ""⟩])])

/-- `_compare_table_comment`: no filter call of its own - the op is appended inside the table-level
guard (compare.py:258) and targets the table; as a group it is guarded by that same descriptor -/
def tableCommentG (P : Cmp) (c : Tbl) : List Group :=
  [(⟨some c.name, .table, false, true, c.schema, c.name⟩,
    if P.tableCommentDiffer c.key then [⟨.tableComment, c.schema, c.name, some c.name, ""⟩] else [])]

def tableExisting (P : Cmp) (c m : Tbl) : TGroup :=
  (⟨some c.name, .table, false, true, c.schema, c.name⟩,
    colsAddedAltered P c.key c m ++ cmpIdxUq P c.key (some c) (some m) ++
      cmpFks c.key c m ++ tableCommentG P c ++ colsRemoved c.key c m)

/-- the distinct keys of a list, in order of first occurrence (a Python `set` of keys) -/
def dedupKeys : List Key → List Key
  | [] => []
  | k :: r => k :: (dedupKeys r).filter (fun x => x != k)

/-- the tables a Python dict / set keyed by `(schema, name)` would hold: one per key -/
def firstTbls (l : List Tbl) : List Tbl := (dedupKeys (l.map Tbl.key)).filterMap (findTbl l)

/-- the iteration structure of `_compare_tables` on the name-filtered reflected side -/
def candidates (P : Cmp) (conn md : List Tbl) : List TGroup :=
  ((firstTbls md).filter (fun m => !hasKey conn m.key)).map (tableAdded P) ++
  ((firstTbls conn).filter (fun c => !hasKey md c.key)).map (tableRemoved P) ++
  (firstTbls conn).flatMap (fun c =>
    match findTbl md c.key with
    | some m => [tableExisting P c m]
    | none => [])

def diffCore (P : Cmp) (objF : ObjDesc → Bool) (conn md : List Tbl) : List Op :=
  runT objF (candidates P conn md)

/-- `_produce_net_changes` with `include_name` = `nameF`, `include_object` = `objF` -/
def diffF (P : Cmp) (objF : ObjDesc → Bool) (nameF : NameDesc → Bool)
    (schemas : List (Option String)) (conn md : List Tbl) : List Op :=
  diffCore P objF (visible nameF schemas conn) md

end Model.Filter
