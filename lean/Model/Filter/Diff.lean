import Model.Filter.Schema
/-!
# The comparison skeleton of `alembic/autogenerate/compare.py` with the filters threaded through

Mirror of `_produce_net_changes` (schema name filter), `_autogen_for_tables` (table name filter),
`_compare_tables`, `_compare_columns`, `_compare_indexes_and_uniques`, `_compare_foreign_keys`,
reduced to the places where `run_name_filters` / `run_object_filters` are consulted and where an
op is appended.  "Do two matched objects differ" is a parameter (`Cmp`).

Name filters are pure predicates, each consulted exactly once per reflected name at the point
where the reflected collection is read; the model applies them up front (`visible`) - one
`filter` per call site - and then runs the comparison (`diffCore`) on what is left, which is what
"the database object of that name is treated as absent" means operationally.

Not modelled (stated in the harness as assumptions): the `doubled_constraints` path (a reflected
unique constraint and a reflected index with the same name - MySQL/PostgreSQL/Oracle only), dialect
`correct_for_autogen_*` hooks, table/column comments (unsupported on SQLite), the version table.
Iteration orders of Python sets are not modelled: ops are compared as multisets.
-/
namespace Model.Filter

/-- comparison outcomes that do not depend on the filters -/
structure Cmp where
  /-- `comparators.dispatch("column")` left `alter_column_op.has_changes()` true -/
  colDiffer : Key → String → Bool
  /-- `metadata_obj.compare_to_reflected(conn_obj).is_different` (conn, metadata) -/
  idxDiffer : Idx → Idx → Bool
  uqDiffer : Uq → Uq → Bool
  /-- `inspector.get_unique_constraints` is implemented -/
  supportsUq : Bool

/-! ## name filters (`run_name_filters` call sites) -/

/-- compare.py:386 (columns), :491 (unique constraints), :510 (indexes), :1182 (foreign keys) -/
def visibleTbl (nameF : NameDesc → Bool) (t : Tbl) : Tbl :=
  { t with
    cols := t.cols.filter (fun c => nameF ⟨some c, .column, t.schema, some t.name⟩)
    uqs := t.uqs.filter (fun u => nameF ⟨u.name, .uniqueConstraint, t.schema, some t.name⟩)
    idxs := t.idxs.filter (fun i => nameF ⟨some i.name, .index, t.schema, some t.name⟩)
    fks := t.fks.filter (fun f => nameF ⟨f.name, .foreignKey, t.schema, some t.name⟩) }

/-- compare.py:94 (`run_name_filters(s, "schema", {})`) -/
def visibleSchemas (nameF : NameDesc → Bool) (schemas : List (Option String)) : List (Option String) :=
  schemas.filter (fun s => nameF ⟨s, .schema, none, none⟩)

/-- compare.py:128 (`run_name_filters(tname, "table", {"schema_name": schema_name})`) -/
def tableVisible (nameF : NameDesc → Bool) (schemas : List (Option String)) (t : Tbl) : Bool :=
  (visibleSchemas nameF schemas).contains t.schema && nameF ⟨some t.name, .table, t.schema, none⟩

/-- the reflected side as the comparison sees it -/
def visible (nameF : NameDesc → Bool) (schemas : List (Option String)) (conn : List Tbl) : List Tbl :=
  (conn.filter (tableVisible nameF schemas)).map (visibleTbl nameF)

/-! ## `_compare_indexes_and_uniques` -/

def guard (objF : ObjDesc → Bool) (d : ObjDesc) (ops : List Op) : List Op :=
  if objF d then ops else []

/-- `obj_added` -/
def objAdded (P : Cmp) (objF : ObjDesc → Bool) (k : Key) (inline : Bool) : Cons → List Op
  | .idx i =>
    guard objF ⟨some i.name, .index, false, false, k.1, k.2⟩
      [⟨.createIndex, k.1, k.2, some i.name, i.sig⟩]
  | .uq u =>
    if !P.supportsUq then []
    else if inline then []       -- is_create_table or is_drop_table
    else guard objF ⟨u.name, .uniqueConstraint, false, false, k.1, k.2⟩
      [⟨.addUq, k.1, k.2, u.name, u.sig⟩]

/-- `obj_removed` -/
def objRemoved (P : Cmp) (objF : ObjDesc → Bool) (k : Key) (inline : Bool) : Cons → List Op
  | .idx i =>
    if i.unique && !P.supportsUq then []
    else guard objF ⟨some i.name, .index, true, false, k.1, k.2⟩
      [⟨.dropIndex, k.1, k.2, some i.name, i.sig⟩]
  | .uq u =>
    if inline then []
    else guard objF ⟨u.name, .uniqueConstraint, true, false, k.1, k.2⟩
      [⟨.dropUq, k.1, k.2, u.name, u.sig⟩]

/-- `obj_changed(old, new, msg)`: **one** filter call, for the metadata object with
`compare_to` = the reflected one -/
def objChanged (objF : ObjDesc → Bool) (k : Key) : Cons → Cons → List Op
  | .idx old, .idx new =>
    guard objF ⟨some new.name, .index, false, true, k.1, k.2⟩
      [⟨.dropIndex, k.1, k.2, some old.name, old.sig⟩, ⟨.createIndex, k.1, k.2, some new.name, new.sig⟩]
  | .uq old, .uq new =>
    guard objF ⟨new.name, .uniqueConstraint, false, true, k.1, k.2⟩
      [⟨.dropUq, k.1, k.2, old.name, old.sig⟩, ⟨.addUq, k.1, k.2, new.name, new.sig⟩]
  | _, _ => []

def consDiffer (P : Cmp) : Cons → Cons → Bool
  | .idx c, .idx m => P.idxDiffer c m
  | .uq c, .uq m => P.uqDiffer c m
  | _, _ => false

/-- the three name loops and the unnamed-unique loop of `_compare_indexes_and_uniques`;
`conn` is already name-filtered -/
def cmpIdxUq (P : Cmp) (objF : ObjDesc → Bool) (k : Key) (conn md : Option Tbl) : List Op :=
  let inline := conn.isNone || md.isNone
  -- "for DROP TABLE uniques are inline, don't need them"
  let connU : Option Tbl := if md.isNone then conn.map (fun c => { c with uqs := [] }) else conn
  let cN := namedConsOf connU
  let mN := namedConsOf md
  let mUqs := (md.map (·.uqs)).getD []
  let unnamedSigs := (mUqs.filter (fun u => u.name.isNone)).map (·.sig)
  let connUqSigs := ((connU.map (·.uqs)).getD []).map (·.sig)
  -- removed: names on the connection that the metadata does not have
  let removed := cN.flatMap (fun (n, c) =>
    if (mN.lookup n).isSome then []
    else match c with
      | .uq u => if unnamedSigs.contains u.sig then [] else objRemoved P objF k inline c
      | .idx _ => objRemoved P objF k inline c)
  -- existing: names on both sides
  let existing := mN.flatMap (fun (n, m) =>
    match cN.lookup n with
    | none => []
    | some c =>
      if c.isIdx != m.isIdx then objRemoved P objF k inline c ++ objAdded P objF k inline m
      else if consDiffer P c m then objChanged objF k c m
      else [])
  -- added: names only in the metadata
  let added := mN.flatMap (fun (n, m) =>
    if (cN.lookup n).isSome then [] else objAdded P objF k inline m)
  -- unnamed metadata unique constraints, matched by signature
  let unnamed := (mUqs.filter (fun u => u.name.isNone)).flatMap (fun u =>
    if connUqSigs.contains u.sig then [] else objAdded P objF k inline (.uq u))
  removed ++ existing ++ added ++ unnamed

/-! ## `_compare_foreign_keys` (only for tables present on both sides) -/

def cmpFks (objF : ObjDesc → Bool) (k : Key) (conn md : Tbl) : List Op :=
  let cSigs := conn.fks.map (·.sig)
  let mSigs := md.fks.map (·.sig)
  let hasName (names : List String) : Option String → Bool
    | some n => names.contains n
    | none => false
  let removed := conn.fks.flatMap (fun f =>
    if mSigs.contains f.sig then []
    else guard objF ⟨f.name, .foreignKey, true, hasName (fkNames md) f.name, k.1, k.2⟩
      [⟨.dropFk, k.1, k.2, f.name, f.sig⟩])
  let added := md.fks.flatMap (fun f =>
    if cSigs.contains f.sig then []
    else guard objF ⟨f.name, .foreignKey, false, hasName (fkNames conn) f.name, k.1, k.2⟩
      [⟨.addFk, k.1, k.2, f.name, f.sig⟩])
  removed ++ added

/-! ## `_compare_columns` -/

def colsAddedAltered (P : Cmp) (objF : ObjDesc → Bool) (k : Key) (conn md : Tbl) : List Op :=
  (md.cols.filter (fun c => !conn.cols.contains c)).flatMap (fun c =>
    guard objF ⟨some c, .column, false, false, k.1, k.2⟩ [⟨.addColumn, k.1, k.2, some c, ""⟩]) ++
  (md.cols.filter (fun c => conn.cols.contains c)).flatMap (fun c =>
    if !objF ⟨some c, .column, false, true, k.1, k.2⟩ then []
    else if P.colDiffer k c then [⟨.alterColumn, k.1, k.2, some c, ""⟩] else [])

def colsRemoved (objF : ObjDesc → Bool) (k : Key) (conn md : Tbl) : List Op :=
  (conn.cols.filter (fun c => !md.cols.contains c)).flatMap (fun c =>
    guard objF ⟨some c, .column, true, false, k.1, k.2⟩ [⟨.dropColumn, k.1, k.2, some c, ""⟩])

/-! ## `_compare_tables` -/

def tableAdded (P : Cmp) (objF : ObjDesc → Bool) (m : Tbl) : List Op :=
  guard objF ⟨some m.name, .table, false, false, m.schema, m.name⟩
    (⟨.createTable, m.schema, m.name, some m.name, ""⟩ :: cmpIdxUq P objF m.key none (some m))

def tableRemoved (P : Cmp) (objF : ObjDesc → Bool) (c : Tbl) : List Op :=
  guard objF ⟨some c.name, .table, true, false, c.schema, c.name⟩
    (cmpIdxUq P objF c.key (some c) none ++ [⟨.dropTable, c.schema, c.name, some c.name, ""⟩])

def tableExisting (P : Cmp) (objF : ObjDesc → Bool) (c m : Tbl) : List Op :=
  guard objF ⟨some c.name, .table, false, true, c.schema, c.name⟩
    (colsAddedAltered P objF c.key c m ++ cmpIdxUq P objF c.key (some c) (some m) ++
      cmpFks objF c.key c m ++ colsRemoved objF c.key c m)

/-- `_compare_tables` on the name-filtered reflected side -/
def diffCore (P : Cmp) (objF : ObjDesc → Bool) (conn md : List Tbl) : List Op :=
  (md.filter (fun m => !hasKey conn m.key)).flatMap (tableAdded P objF) ++
  (conn.filter (fun c => !hasKey md c.key)).flatMap (tableRemoved P objF) ++
  conn.flatMap (fun c =>
    match findTbl md c.key with
    | some m => tableExisting P objF c m
    | none => [])

/-- `_produce_net_changes` with `include_name` = `nameF`, `include_object` = `objF` -/
def diffF (P : Cmp) (objF : ObjDesc → Bool) (nameF : NameDesc → Bool)
    (schemas : List (Option String)) (conn md : List Tbl) : List Op :=
  diffCore P objF (visible nameF schemas conn) md

end Model.Filter
