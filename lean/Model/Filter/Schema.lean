/-!
# Abstract schemas, filter descriptors and op targets for the autogenerate filter model (C20)

Vocabulary shared by the model of `alembic/autogenerate/compare.py` (`Model.Filter.Diff`) and
by the specification (`Spec.Filter`).  Objects carry only what the filters and the comparison
skeleton look at: names, an opaque *signature* token (what `_constraint_sig` / the FK spec
compares) and, for indexes, the unique flag.
-/
namespace Model.Filter

/-- the `type_` strings passed to `include_name` / `include_object` -/
inductive Ty
  | schema | table | column | index | uniqueConstraint | foreignKey
  deriving DecidableEq, Repr, Inhabited

/-- What an `include_object(object, name, type_, reflected, compare_to)` predicate can look at:
the name, the type, the reflected flag, whether `compare_to` is present, and the parent table
(`object.table`; for a table: itself). -/
structure ObjDesc where
  name : Option String
  ty : Ty
  reflected : Bool
  hasCompareTo : Bool
  schema : Option String
  table : String
  deriving DecidableEq, Repr, Inhabited

/-- What an `include_name(name, type_, parent_names)` predicate can look at
(`parent_names["schema_name"]`, `parent_names["table_name"]`; both absent for a schema). -/
structure NameDesc where
  name : Option String
  ty : Ty
  schema : Option String
  table : Option String
  deriving DecidableEq, Repr, Inhabited

structure Idx where
  name : String
  unique : Bool
  sig : String
  deriving DecidableEq, Repr, Inhabited

structure Uq where
  name : Option String
  sig : String
  deriving DecidableEq, Repr, Inhabited

structure Fk where
  name : Option String
  sig : String
  deriving DecidableEq, Repr, Inhabited

structure Tbl where
  schema : Option String
  name : String
  cols : List String
  idxs : List Idx
  uqs : List Uq
  fks : List Fk
  deriving DecidableEq, Repr, Inhabited

abbrev Key := Option String × String

def Tbl.key (t : Tbl) : Key := (t.schema, t.name)

def hasKey (l : List Tbl) (k : Key) : Bool := l.any (fun t => t.key == k)

def findTbl (l : List Tbl) (k : Key) : Option Tbl := l.find? (fun t => t.key == k)

/-- an index or a unique constraint: the two share one name space in
`_compare_indexes_and_uniques` (`conn_names` / `metadata_names`) -/
inductive Cons
  | idx (i : Idx)
  | uq (u : Uq)
  deriving DecidableEq, Repr, Inhabited

def Cons.isIdx : Cons → Bool
  | .idx _ => true
  | .uq _ => false

def uqNamed (t : Tbl) : List (String × Cons) :=
  t.uqs.filterMap (fun u => u.name.map (fun n => (n, Cons.uq u)))

def idxNamed (t : Tbl) : List (String × Cons) :=
  t.idxs.map (fun i => (i.name, Cons.idx i))

/-- the named indexes / unique constraints of a table, keyed by name
(`{c.name: c for c in uniques.union(indexes) if c.is_named}`) -/
def namedCons (t : Tbl) : List (String × Cons) := uqNamed t ++ idxNamed t

def namedConsOf (t : Option Tbl) : List (String × Cons) :=
  match t with
  | some t => namedCons t
  | none => []

/-- `conn_indexes_by_name[n]` (`wantIdx`) / `conn_uniques_by_name[n]` -/
def lookupTyped (t : Option Tbl) (wantIdx : Bool) (n : String) : Option Cons :=
  match t with
  | some t => if wantIdx then (idxNamed t).lookup n else (uqNamed t).lookup n
  | none => none

/-- the reflected object a metadata object named `n` is compared with: the one of the same type
when the name is doubled (`doubled_constraints`), else whatever carries the name -/
def lookupConn (t : Option Tbl) (wantIdx : Bool) (n : String) : Option Cons :=
  match lookupTyped t wantIdx n with
  | some c => some c
  | none => lookupTyped t (!wantIdx) n

def consSig : Cons → String
  | .idx i => i.sig
  | .uq u => u.sig

def fkNames (t : Tbl) : List String := t.fks.filterMap (fun f => f.name)

inductive OpKind
  | createTable | dropTable
  | addColumn | dropColumn | alterColumn
  | createIndex | dropIndex
  | addUq | dropUq
  | addFk | dropFk
  | tableComment          -- create_table_comment / drop_table_comment: alters the table
  deriving DecidableEq, Repr, Inhabited

/-- one generated operation, reduced to its *target*: the object it names -/
structure Op where
  kind : OpKind
  schema : Option String
  table : String
  name : Option String
  sig : String := ""
  deriving DecidableEq, Repr, Inhabited

def Op.key (o : Op) : Key := (o.schema, o.table)

/-- drop / alter operations: the ones that touch an object of the database -/
def OpKind.touchesDb : OpKind → Bool
  | .dropTable | .dropColumn | .alterColumn | .dropIndex | .dropUq | .dropFk | .tableComment => true
  | _ => false

def OpKind.targetTy : OpKind → Ty
  | .createTable | .dropTable | .tableComment => .table
  | .addColumn | .dropColumn | .alterColumn => .column
  | .createIndex | .dropIndex => .index
  | .addUq | .dropUq => .uniqueConstraint
  | .addFk | .dropFk => .foreignKey

end Model.Filter
