import Drv.Json
import Drv.Txn
/-! `amdriver`: one JSON operation per input line, one JSON answer per output line.
    `{"op": "<engine>.<name>", ...}` is dispatched to the engine's handler. -/
open Lean

/-- engines are tried in turn; each returns `none` for ops it does not know -/
def handlers : List (String → Json → Option Json) :=
  [Drv.Txn.handle]

def dispatch (op : String) (j : Json) : Json :=
  match handlers.findSome? (fun h => h op j) with
  | some r => r
  | none => Drv.errJ s!"unknown-op:{op}"

partial def loop (h : IO.FS.Stream) (out : IO.FS.Stream) : IO Unit := do
  let line ← h.getLine
  if line.isEmpty then return ()
  let t := line.trimAscii.toString
  if t.isEmpty then
    loop h out
  else
    let ans := match Json.parse t with
      | .ok j => dispatch (Drv.getStrD j "op") j
      | .error e => Drv.errJ s!"bad-json:{e}"
    out.putStrLn ans.compress
    loop h out

def main : IO Unit := do
  let i ← IO.getStdin
  let o ← IO.getStdout
  loop i o
  o.flush
