import Lemmas.Py.Repr
import Spec.Py
/-!
# `Py.repr_roundtrip` (shared by C08 and C17)
-/
namespace Py
open Model.Py Spec.Py

/-- For every string and every printability oracle, the literal parser decodes `repr(s)` to `s`. -/
theorem repr_roundtrip (isP : Char → Bool) (s : List Char) : pyParseStr (pyRepr isP s) = some s := by
  have h := parseStrLit_pyRepr_append isP s []
  simp only [List.append_nil] at h
  simp [pyParseStr, h]

/-- the same, followed by arbitrary text (used by the expression parser) -/
theorem repr_roundtrip_append (isP : Char → Bool) (s rest : List Char) :
    parseStrLit (pyRepr isP s ++ rest) = some (s, rest) := parseStrLit_pyRepr_append isP s rest

theorem repr_denotes (isP : Char → Bool) (s : List Char) : Denotes (pyRepr isP s) s := repr_roundtrip isP s

/-- `repr` is injective (whatever the printability oracle) -/
theorem repr_injective (isP isP' : Char → Bool) (s t : List Char) (h : pyRepr isP s = pyRepr isP' t) : s = t := by
  have a := repr_roundtrip isP s
  rw [h, repr_roundtrip isP' t] at a
  exact (Option.some.inj a).symm

/-- the naive embedding `'%s'` decodes to the name when the name is plain -/
theorem scan_plain (s rest : List Char) (h : PlainName s) :
    scan '\'' .normal (s ++ '\'' :: rest) = some (s, rest) := by
  induction s with
  | nil => simp [scan]
  | cons c s ih =>
    have hc := h c (by simp)
    have hs : PlainName s := fun x hx => h x (by simp [hx])
    simp [plainChar] at hc
    simp [scan, hc, ih hs, consTo]

theorem naive_plain_append (s rest : List Char) (h : PlainName s) :
    parseStrLit (naiveQuote s ++ rest) = some (s, rest) := by
  simp [naiveQuote, parseStrLit, parseBody, scan_plain s rest h]

theorem naive_plain (s : List Char) (h : PlainName s) : pyParseStr (naiveQuote s) = some s := by
  have := naive_plain_append s [] h
  simp only [List.append_nil] at this
  simp [pyParseStr, this]

/-- ... and does not for `it's`: the text `'it's'` is not a literal at all (F8) -/
theorem naive_counterexample : pyParseStr (naiveQuote "it's".toList) = none := by decide

/-- ... nor for a trailing backslash `x\` (the closing quote is swallowed) -/
theorem naive_counterexample_backslash : pyParseStr (naiveQuote "x\\".toList) = none := by decide

/-- ... and `a\tb` written naively is a *valid* literal that denotes another string -/
theorem naive_counterexample_wrong : pyParseStr (naiveQuote "a\\tb".toList) = some "a\tb".toList := by decide

example : pyRepr (fun _ => true) "it's".toList = "\"it's\"".toList := by decide
example : pyRepr (fun _ => true) "a\"'\\\n\x01".toList = "'a\"\\'\\\\\\n\\x01'".toList := by decide

end Py
