import Model.Py.Repr
/-! Round trip of `repr` through the literal parser: helper lemmas. -/
namespace Model.Py

theorem hexVal_hexDigit_fin : ∀ d : Fin 16, hexVal (hexDigit d.val) = some d.val := by decide

theorem hexVal_hexDigit (n : Nat) : hexVal (hexDigit n) = some (n % 16) := by
  have h := hexVal_hexDigit_fin ⟨n % 16, Nat.mod_lt _ (by decide)⟩
  have e : hexDigit n = hexDigit (n % 16) := by simp [hexDigit]
  rw [e]; exact h

theorem charOfNat?_toNat (c : Char) : charOfNat? c.toNat = some c := by
  unfold charOfNat?
  have h : c.toNat.isValidChar := c.valid
  simp [h, Char.ofNat_toNat]

theorem consTo_map (c : Char) (o : Option (List Char × List Char)) :
    consTo c o = o.map (fun p => (c :: p.1, p.2)) := by
  cases o with
  | none => rfl
  | some p => cases p; rfl



theorem hex2_val (n : Nat) (h : n < 256) : (n / 16 % 16) * 16 + n % 16 = n := by omega
theorem hex4_val (n : Nat) (h : n < 65536) :
    (((n / 4096 % 16) * 16 + n / 256 % 16) * 16 + n / 16 % 16) * 16 + n % 16 = n := by omega
theorem hex8_val (n : Nat) (h : n < 4294967296) :
    (((((((n / 268435456 % 16) * 16 + n / 16777216 % 16) * 16 + n / 1048576 % 16) * 16 + n / 65536 % 16) * 16
      + n / 4096 % 16) * 16 + n / 256 % 16) * 16 + n / 16 % 16) * 16 + n % 16 = n := by omega

theorem scan_x (q : Char) (c : Char) (rest : List Char) (h : c.toNat < 256) :
    scan q .esc ('x' :: (hex2 c.toNat ++ rest)) = consTo c (scan q .normal rest) := by
  simp [hex2, scan, hexVal_hexDigit, hex2_val _ h, charOfNat?_toNat]

theorem scan_u (q : Char) (c : Char) (rest : List Char) (h : c.toNat < 65536) :
    scan q .esc ('u' :: (hex4 c.toNat ++ rest)) = consTo c (scan q .normal rest) := by
  simp [hex4, scan, hexVal_hexDigit, hex4_val _ h, charOfNat?_toNat]

theorem scan_U (q : Char) (c : Char) (rest : List Char) :
    scan q .esc ('U' :: (hex8 c.toNat ++ rest)) = consTo c (scan q .normal rest) := by
  have h : c.toNat < 4294967296 := by
    have := c.valid
    unfold Nat.isValidChar at this
    show c.val.toNat < _
    omega
  simp [hex8, scan, hexVal_hexDigit, hex8_val _ h, charOfNat?_toNat]

/-- key step: the parser undoes `escChar` -/
theorem scan_escChar (isP : Char → Bool) (q c : Char) (rest : List Char)
    (hq : q = '\'' ∨ q = '"') :
    scan q .normal (escChar isP q c ++ rest) = consTo c (scan q .normal rest) := by
  have hqb : ¬ ('\\' = q) := by rcases hq with h | h <;> simp [h]
  unfold escChar
  split
  · rename_i h
    rcases h with h | h
    · subst h
      rcases hq with h | h <;> simp [h, scan]
    · subst h
      simp [scan, hqb]
  · rename_i h0
    have hcq : ¬ c = q := fun e => h0 (Or.inl e)
    have hcb : ¬ c = '\\' := fun e => h0 (Or.inr e)
    split
    · simp [scan, *]
    · split
      · simp [scan, *]
      · split
        · simp [scan, *]
        · rename_i ht hn hr
          split
          · rename_i h
            have := scan_x q c rest (by omega)
            simpa [scan, hqb] using this
          · rename_i hc
            have hz : ¬ c.toNat = 0 := by omega
            split
            · simp [scan, hcq, hcb, hn, hr, hz]
            · split
              · simp [scan, hcq, hcb, hn, hr, hz]
              · split
                · rename_i h
                  have := scan_x q c rest (by omega)
                  simpa [scan, hqb] using this
                · split
                  · rename_i h
                    have := scan_u q c rest (by omega)
                    simpa [scan, hqb] using this
                  · have := scan_U q c rest
                    simpa [scan, hqb] using this

theorem chooseQuote_cases (s : List Char) : chooseQuote s = '\'' ∨ chooseQuote s = '"' := by
  unfold chooseQuote; split <;> simp

theorem scan_reprBody (isP : Char → Bool) (q : Char) (hq : q = '\'' ∨ q = '"') (s rest : List Char) :
    scan q .normal (reprBody isP q s ++ rest) =
      (scan q .normal rest).map (fun p => (s ++ p.1, p.2)) := by
  induction s with
  | nil => simp [reprBody]
  | cons c s ih =>
    simp only [reprBody, List.append_assoc]
    rw [scan_escChar isP q c _ hq, ih, consTo_map]
    cases scan q .normal rest <;> simp

/-- `repr` followed by anything: the literal parser returns the string and the remainder -/
theorem parseStrLit_pyRepr_append (isP : Char → Bool) (s rest : List Char) :
    parseStrLit (pyRepr isP s ++ rest) = some (s, rest) := by
  have hq := chooseQuote_cases s
  simp only [pyRepr, List.cons_append, parseStrLit, List.append_assoc]
  simp only [hq, ↓reduceIte, parseBody]
  rw [scan_reprBody isP _ hq]
  simp [scan]

end Model.Py
