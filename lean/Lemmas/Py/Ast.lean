import Model.Py.Ast
import Lemmas.Py.Roundtrip
/-! Round trip of the expression printer through the expression parser: helper lemmas. -/
namespace Model.Py

/-- what may follow a printed expression -/
def Follow (rest : List Char) : Prop :=
  ∀ c r, rest = c :: r → (c = ',' ∨ c = ')' ∨ c = ']' ∨ c = ' ' ∨ c = '\n')

/-- first character of a printed expression / item -/
def startChar (c : Char) : Prop := c = '\'' ∨ c = '"' ∨ c = '[' ∨ wordChar c = true

theorem wordChar_ne (c : Char) (h : wordChar c = true) :
    c ≠ '\'' ∧ c ≠ '"' ∧ c ≠ '[' ∧ c ≠ ']' ∧ c ≠ ')' ∧ c ≠ '(' ∧ c ≠ ',' ∧ c ≠ '=' ∧ c ≠ ' ' ∧ c ≠ '\n' := by
  refine ⟨?_, ?_, ?_, ?_, ?_, ?_, ?_, ?_, ?_, ?_⟩ <;> (intro e; subst e; revert h; decide)

theorem startChar_ne (c : Char) (h : startChar c) :
    isWs c = false ∧ c ≠ ')' ∧ c ≠ ']' ∧ c ≠ ',' := by
  rcases h with h | h | h | h
  · subst h; decide
  · subst h; decide
  · subst h; decide
  · have := wordChar_ne c h
    simp [isWs, this]

theorem skipWs_ws_append (w rest : List Char) (hw : wsOnly w = true) : skipWs (w ++ rest) = skipWs rest := by
  induction w with
  | nil => rfl
  | cons c w ih =>
    simp [wsOnly] at hw
    have hw' : wsOnly w = true := by simp [wsOnly]; exact hw.2
    simp [skipWs, hw.1, ih hw']

theorem skipWs_cons (c : Char) (r : List Char) (h : isWs c = false) : skipWs (c :: r) = c :: r := by
  simp [skipWs, h]

theorem readWord_append (w rest : List Char) (hw : w.all wordChar = true)
    (hr : ∀ c r, rest = c :: r → wordChar c = false) : readWord (w ++ rest) = (w, rest) := by
  induction w with
  | nil =>
    cases rest with
    | nil => rfl
    | cons c r => simp [readWord, hr c r rfl]
  | cons c w ih =>
    simp at hw
    have hw' : w.all wordChar = true := by simp; exact hw.2
    simp [readWord, hw.1, ih hw']

theorem follow_noWord (rest : List Char) (h : Follow rest) : ∀ c r, rest = c :: r → wordChar c = false := by
  intro c r e
  rcases h c r e with h | h | h | h | h <;> (subst h; decide)

theorem follow_cons (c : Char) (r : List Char) (h : c = ',' ∨ c = ')' ∨ c = ']' ∨ c = ' ' ∨ c = '\n') : Follow (c :: r) := by
  intro c' r' e
  cases e
  exact h

theorem pyRepr_head (isP : Char → Bool) (s : List Char) :
    ∃ q body, pyRepr isP s = q :: body ∧ (q = '\'' ∨ q = '"') :=
  ⟨chooseQuote s, _, rfl, chooseQuote_cases s⟩

theorem validWord_cons (w : List Char) (h : validWord w = true) :
    ∃ c w', w = c :: w' ∧ wordChar c = true ∧ w.all wordChar = true := by
  cases w with
  | nil => simp [validWord] at h
  | cons c w' =>
    simp [validWord] at h
    exact ⟨c, w', rfl, h.1, by simp [h.1]; exact h.2⟩

/-- the first character of a printed well-formed expression -/
theorem pp_head (isP : Char → Bool) (e : PyAst) (b : Bool) (h : wf b e = true) (rest : List Char) :
    ∃ c r, pp isP e ++ rest = c :: r ∧ startChar c := by
  cases e with
  | str s =>
    obtain ⟨q, body, hb, hq⟩ := pyRepr_head isP s
    refine ⟨q, body ++ rest, by simp [pp, hb], ?_⟩
    rcases hq with hq | hq <;> simp [startChar, hq]
  | sq s => exact ⟨'\'', _, by simp [pp, naiveQuote]; rfl, Or.inl rfl⟩
  | name n =>
    simp [wf] at h
    obtain ⟨c, w', e, hc, _⟩ := validWord_cons n h
    exact ⟨c, w' ++ rest, by simp [pp, e], Or.inr (Or.inr (Or.inr hc))⟩
  | call fn lay items =>
    simp [wf] at h
    obtain ⟨c, w', e, hc, _⟩ := validWord_cons fn h.1.1.1
    exact ⟨c, _, by simp [pp, e]; rfl, Or.inr (Or.inr (Or.inr hc))⟩
  | list items => exact ⟨'[', _, by simp [pp]; rfl, Or.inr (Or.inr (Or.inl rfl))⟩

theorem ppItem_head (isP : Char → Bool) (x : Option (List Char) × PyAst) (b kw : Bool) (h : wfItem b kw x = true)
    (rest : List Char) : ∃ c r, ppItem isP x ++ rest = c :: r ∧ startChar c := by
  obtain ⟨k, e⟩ := x
  cases k with
  | none => simp [wfItem] at h; simpa [ppItem] using pp_head isP e b h rest
  | some k =>
    simp [wfItem] at h
    obtain ⟨c, w', e', hc, _⟩ := validWord_cons k h.1.2
    exact ⟨c, _, by simp [ppItem, e']; rfl, Or.inr (Or.inr (Or.inr hc))⟩



def midText (lay : Layout) : List Char := (if lay.trail then ',' :: lay.sep else []) ++ lay.cls

theorem follow_tail (isP : Char → Bool) (sep : List Char) (xs : List (Option (List Char) × PyAst))
    (trail : Bool) (sep' cls : List Char) (_hs : wsOnly sep' = true) (hc : wsOnly cls = true) (cl : Char) (hcl : cl = ')' ∨ cl = ']') (rest : List Char) :
    Follow (ppTail isP sep xs ++ (((if trail then ',' :: sep' else []) ++ cls) ++ cl :: rest)) := by
  cases xs with
  | cons x r => exact follow_cons _ _ (Or.inl rfl)
  | nil =>
    simp only [ppTail, List.nil_append]
    cases trail with
    | true => exact follow_cons _ _ (Or.inl rfl)
    | false =>
      cases cls with
      | nil => simp; exact follow_cons _ _ (by rcases hcl with h | h <;> simp [h])
      | cons c cs =>
        simp [wsOnly, isWs] at hc
        exact follow_cons _ _ (by rcases hc.1 with h | h <;> simp [h])

/-- closing: white space (and an optional trailing comma) then the closing bracket -/
theorem pTail_nil (f : Nat) (kw : Bool) (cl : Char) (hcl : cl = ')' ∨ cl = ']')
    (trail : Bool) (sep cls : List Char) (hs : wsOnly sep = true) (hc : wsOnly cls = true) (rest : List Char) :
    pTail (f + 1) kw cl (((if trail then ',' :: sep else []) ++ cls) ++ cl :: rest) = some ([], rest) := by
  have hclws : isWs cl = false := by rcases hcl with h | h <;> (subst h; decide)
  have hclc : ¬ (',' = cl) := by rcases hcl with h | h <;> (subst h; decide)
  cases trail with
  | false =>
    simp [pTail, skipWs_ws_append _ _ hc, skipWs_cons _ _ hclws]
  | true =>
    have h1 : ∀ X, skipWs (',' :: X) = ',' :: X := fun X => skipWs_cons _ _ (by decide)
    simp [pTail, h1, hclc, skipWs_ws_append _ _ hs, skipWs_ws_append _ _ hc, skipWs_cons _ _ hclws]


theorem readWord_pp_snd (isP : Char → Bool) (e : PyAst) (h : wf true e = true) (rest : List Char) (hr : Follow rest) :
    ∀ r, (readWord (pp isP e ++ rest)).2 ≠ '=' :: r := by
  intro r
  cases e with
  | str s =>
    obtain ⟨q, body, hb, hq⟩ := pyRepr_head isP s
    have : wordChar q = false := by rcases hq with h | h <;> (subst h; decide)
    have hq' : q ≠ '=' := by rcases hq with h | h <;> (subst h; decide)
    simp [pp, hb, readWord, this, hq']
  | sq s =>
    have h1 : wordChar '\'' = false := by decide
    simp [pp, naiveQuote, readWord, h1]
  | name n =>
    simp [wf] at h
    obtain ⟨c, w', e, hc, hall⟩ := validWord_cons n h
    simp only [pp]
    rw [readWord_append n rest hall (follow_noWord rest hr)]
    intro e'
    rcases hr _ _ e' with h | h | h | h | h <;> revert h <;> decide
  | call fn lay items =>
    simp [wf] at h
    obtain ⟨c, w', e, hc, hall⟩ := validWord_cons fn h.1.1.1
    simp only [pp, List.append_assoc, List.cons_append]
    rw [readWord_append fn _ hall (by intro c r e; cases e; decide)]
    simp
  | list items =>
    have h1 : wordChar '[' = false := by decide
    simp [pp, readWord, h1]

theorem parse_main (isP : Char → Bool) : ∀ fuel,
    (∀ e rest, wf true e = true → size e ≤ fuel → Follow rest →
      pExpr fuel (pp isP e ++ rest) = some (canon e, rest)) ∧
    (∀ x kw rest, wfItem true kw x = true → sizeItem x ≤ fuel → Follow rest →
      pItem fuel kw (ppItem isP x ++ rest) = some (canonItem x, rest)) ∧
    (∀ xs kw cl (trail : Bool) sep cls rest, (cl = ')' ∨ cl = ']') → wfItems true kw xs = true → sizeItems xs ≤ fuel →
      wsOnly sep = true → wsOnly cls = true →
      pTail fuel kw cl (ppTail isP sep xs ++ (((if trail then ',' :: sep else []) ++ cls) ++ cl :: rest))
        = some (canonItems xs, rest)) ∧
    (∀ xs kw cl (trail : Bool) opn sep cls rest, (cl = ')' ∨ cl = ']') → wfItems true kw xs = true → sizeItems xs ≤ fuel →
      wsOnly opn = true → wsOnly sep = true → wsOnly cls = true → (trail = true → xs ≠ []) →
      pItems fuel kw cl (opn ++ (ppItems isP sep xs ++ (((if trail then ',' :: sep else []) ++ cls) ++ cl :: rest)))
        = some (canonItems xs, rest)) := by
  intro fuel
  induction fuel with
  | zero =>
    refine ⟨?_, ?_, ?_, ?_⟩
    · intro e rest _ hs; cases e <;> simp [size] at hs
    · intro x kw rest _ hs; obtain ⟨k, e⟩ := x; simp [sizeItem] at hs
    · intro xs kw cl trail sep cls rest _ _ hs; cases xs <;> simp [sizeItems] at hs
    · intro xs kw cl trail opn sep cls rest _ _ hs; cases xs <;> simp [sizeItems] at hs
  | succ f ih =>
    obtain ⟨ihE, ihI, ihT, ihS⟩ := ih
    refine ⟨?_, ?_, ?_, ?_⟩
    · -- expressions
      intro e rest hwf hsz hfol
      cases e with
      | str s =>
        obtain ⟨q, body, hb, hq⟩ := pyRepr_head isP s
        have hp := parseStrLit_pyRepr_append isP s rest
        rw [hb] at hp
        simp only [pp, hb, List.cons_append, pExpr, hq, ↓reduceIte]
        simp only [List.cons_append] at hp
        simp [hp, canon]
      | sq s =>
        simp [wf] at hwf
        have hp := Py.naive_plain_append s rest ((Spec.Py.plainNameB_iff s).mp hwf)
        simp only [naiveQuote, List.cons_append, List.append_assoc, List.nil_append] at hp
        simp only [pp, naiveQuote, List.cons_append, List.append_assoc, List.nil_append, pExpr, true_or, ↓reduceIte]
        simp [hp, canon]
      | name n =>
        simp [wf] at hwf
        obtain ⟨c, w', e, hc, hall⟩ := validWord_cons n hwf
        have hne := wordChar_ne c hc
        have hrw := readWord_append n rest hall (follow_noWord rest hfol)
        subst e
        simp only [pp, List.cons_append] at hrw ⊢
        simp only [pExpr, hne.1, hne.2.1, hne.2.2.1, or_self, ↓reduceIte, hc, hrw]
        split
        · rename_i r'
          rcases hfol _ _ rfl with h | h | h | h | h <;> exact absurd h (by decide)
        · simp [canon]
      | call fn lay items =>
        simp only [wf, Bool.and_eq_true, Layout.ok] at hwf
        obtain ⟨⟨⟨hfn, ⟨ho, hsp⟩, hcl⟩, htr⟩, hit⟩ := hwf
        obtain ⟨c, w', e, hc, hall⟩ := validWord_cons fn hfn
        have hne := wordChar_ne c hc
        have hrw := readWord_append fn
          ('(' :: (lay.opn ++ (ppItems isP lay.sep items ++ ((if lay.trail then ',' :: lay.sep else []) ++ (lay.cls ++ [')']))) ++ rest))
          hall (by intro c r e; cases e; decide)
        simp only [size] at hsz
        have hS := ihS items true ')' lay.trail lay.opn lay.sep lay.cls rest (Or.inl rfl) hit (by omega) ho hsp hcl
          (by intro ht; cases items with
              | nil => simp [ht] at htr
              | cons _ _ => simp)
        subst e
        simp only [pp, List.cons_append, List.append_assoc] at hrw hS ⊢
        simp only [pExpr, hne.1, hne.2.1, hne.2.2.1, or_self, ↓reduceIte, hc, hrw]
        simp [hS, canon]
      | list items =>
        simp only [wf] at hwf
        simp only [size] at hsz
        have hS := ihS items false ']' false [] [' '] [] rest (Or.inr rfl) hwf (by omega) rfl rfl rfl (by simp)
        simp only [pp, List.cons_append, List.append_assoc, pExpr]
        simp only [List.nil_append, Bool.false_eq_true, ↓reduceIte] at hS
        simp [hS, canon]
    · -- items
      intro x kw rest hwf hsz hfol
      obtain ⟨k, e⟩ := x
      simp only [sizeItem] at hsz
      cases k with
      | none =>
        simp only [wfItem] at hwf
        have hne := readWord_pp_snd isP e hwf rest hfol
        have hE := ihE e rest hwf (by omega) hfol
        simp only [ppItem, pItem, hE]
        simp [canonItem]
      | some k =>
        simp [wfItem] at hwf
        obtain ⟨⟨hkw, hk⟩, he⟩ := hwf
        obtain ⟨c, w', e', hc, hall⟩ := validWord_cons k hk
        have hrw := readWord_append k ('=' :: (pp isP e ++ rest)) hall (by intro c r e; cases e; decide)
        simp only [ppItem, pItem, List.append_assoc, List.cons_append, hrw]
        simp [hkw, e', ihE e rest he (by omega) hfol, canonItem]
    · -- tails
      intro xs kw cl trail sep cls rest hcl hwf hsz hsep hcls
      cases xs with
      | nil => simpa [ppTail, canonItems] using pTail_nil f kw cl hcl trail sep cls hsep hcls rest
      | cons x r =>
        simp only [wfItems, Bool.and_eq_true] at hwf
        simp only [sizeItems] at hsz
        have hclc : ¬ (',' = cl) := by rcases hcl with h | h <;> (subst h; decide)
        have h1 : ∀ X, skipWs (',' :: X) = ',' :: X := fun X => skipWs_cons _ _ (by decide)
        obtain ⟨c, r0, hhead, hst⟩ := ppItem_head isP x true kw hwf.1
          (ppTail isP sep r ++ (((if trail then ',' :: sep else []) ++ cls) ++ cl :: rest))
        have hsn := startChar_ne c hst
        have hccl : ¬ c = cl := by rcases hcl with h | h <;> simp [h, hsn]
        have hI := ihI x kw _ hwf.1 (by omega) (follow_tail isP sep r trail sep cls hsep hcls cl hcl rest)
        have hT := ihT r kw cl trail sep cls rest hcl hwf.2 (by omega) hsep hcls
        simp only [ppTail, List.cons_append, List.append_assoc, pTail, h1, hclc, ↓reduceIte, skipWs_ws_append _ _ hsep]
        simp only [List.append_assoc] at hhead hI hT
        rw [hhead, skipWs_cons _ _ hsn.1]
        simp only [hccl, ↓reduceIte]
        rw [← hhead, hI]
        simp [hT, canonItems]
    · -- bracket contents
      intro xs kw cl trail opn sep cls rest hcl hwf hsz hopn hsep hcls htr
      have hclws : isWs cl = false := by rcases hcl with h | h <;> (subst h; decide)
      cases xs with
      | nil =>
        have : trail = false := by cases trail <;> simp_all
        subst this
        simp [pItems, ppItems, skipWs_ws_append _ _ hopn, skipWs_ws_append _ _ hcls, skipWs_cons _ _ hclws, canonItems]
      | cons x r =>
        simp only [wfItems, Bool.and_eq_true] at hwf
        simp only [sizeItems] at hsz
        obtain ⟨c, r0, hhead, hst⟩ := ppItem_head isP x true kw hwf.1
          (ppTail isP sep r ++ (((if trail then ',' :: sep else []) ++ cls) ++ cl :: rest))
        have hsn := startChar_ne c hst
        have hccl : ¬ c = cl := by rcases hcl with h | h <;> simp [h, hsn]
        have hI := ihI x kw _ hwf.1 (by omega) (follow_tail isP sep r trail sep cls hsep hcls cl hcl rest)
        have hT := ihT r kw cl trail sep cls rest hcl hwf.2 (by omega) hsep hcls
        simp only [ppItems, List.append_assoc, pItems, skipWs_ws_append _ _ hopn]
        simp only [List.append_assoc] at hhead hI hT
        rw [hhead, skipWs_cons _ _ hsn.1]
        simp only [hccl, ↓reduceIte]
        rw [← hhead, hI]
        simp [hT, canonItems]


/-! ### the text is long enough to serve as fuel -/

theorem size_bound (isP : Char → Bool) : ∀ n,
    (∀ e, size e ≤ n → wf true e = true → size e + 2 ≤ 3 * (pp isP e).length) ∧
    (∀ x kw, sizeItem x ≤ n → wfItem true kw x = true → sizeItem x + 1 ≤ 3 * (ppItem isP x).length) ∧
    (∀ xs kw sep, sizeItems xs ≤ n → wfItems true kw xs = true →
      sizeItems xs ≤ 3 * (ppTail isP sep xs).length + 1 ∧ sizeItems xs ≤ 3 * (ppItems isP sep xs).length + 1) := by
  intro n
  induction n with
  | zero =>
    refine ⟨?_, ?_, ?_⟩
    · intro e hs; cases e <;> simp [size] at hs
    · intro x kw hs; obtain ⟨k, e⟩ := x; simp [sizeItem] at hs
    · intro xs kw sep hs; cases xs <;> simp [sizeItems] at hs
  | succ n ih =>
    obtain ⟨ihE, ihI, ihL⟩ := ih
    refine ⟨?_, ?_, ?_⟩
    · intro e hs hwf
      cases e with
      | str s => simp [size, pp, pyRepr]; omega
      | sq s => simp [size, pp, naiveQuote]; omega
      | name n' =>
        simp [wf] at hwf
        obtain ⟨c, w', e, _, _⟩ := validWord_cons n' hwf
        simp [size, pp, e]; omega
      | call fn lay items =>
        simp only [wf, Bool.and_eq_true] at hwf
        obtain ⟨c, w', e, _, _⟩ := validWord_cons fn hwf.1.1.1
        simp only [size] at hs ⊢
        have := (ihL items true lay.sep (by omega) hwf.2).2
        simp [pp, e]; omega
      | list items =>
        simp only [wf] at hwf
        simp only [size] at hs ⊢
        have := (ihL items false [' '] (by omega) hwf).2
        simp [pp]; omega
    · intro x kw hs hwf
      obtain ⟨k, e⟩ := x
      simp only [sizeItem] at hs ⊢
      cases k with
      | none =>
        simp only [wfItem] at hwf
        have := ihE e (by omega) hwf
        simp [ppItem]; omega
      | some k =>
        simp only [wfItem, Bool.and_eq_true] at hwf
        have := ihE e (by omega) hwf.2
        simp [ppItem]; omega
    · intro xs kw sep hs hwf
      cases xs with
      | nil => simp [sizeItems]
      | cons x r =>
        simp only [wfItems, Bool.and_eq_true] at hwf
        simp only [sizeItems] at hs ⊢
        have h1 := ihI x kw (by omega) hwf.1
        have h2 := (ihL r kw sep (by omega) hwf.2).1
        simp [ppTail, ppItems]; omega

/-- **Printer/parser round trip.** For every well-formed expression (names are words, layouts
are white space, naive embeddings hold plain strings) the parser reads the printed text back
as the normal form of the expression. String contents are arbitrary. -/
theorem parse_pp (isP : Char → Bool) (e : PyAst) (h : wf true e = true) :
    parse (pp isP e) = some (canon e) := by
  have hb := (size_bound isP (size e)).1 e (Nat.le_refl _) h
  have hm := (parse_main isP (3 * (pp isP e).length)).1 e [] h (by omega) (by intro c r e; cases e)
  simp only [List.append_nil] at hm
  simp [parse, hm]

end Model.Py
