import Lemmas.Offline.Lex
/-! Every rendered statement of the language is well spaced (so it lexes back to its tokens) and
lexically closed (so the splitter recovers it), for every name and every value. -/
namespace Lemmas.Offline
open Model.Offline

def safeC (c : Char) : Bool := !isWordCh c && c != '"' && c != '\''

def safeNext : Option Char → Bool
  | none => true
  | some c => safeC c

theorem okNext_safe (k : Tok) (nx : Option Char) (h : safeNext nx = true) : okNext k nx = true := by
  cases nx with
  | none => cases k <;> simp [okNext]
  | some c =>
    simp only [safeNext, safeC, Bool.and_eq_true, Bool.not_eq_true', bne_iff_ne, ne_eq] at h
    cases k <;> simp [okNext, h.1.1, h.1.2, h.2]

@[simp] theorem okNext_punct (c : Char) (nx : Option Char) : okNext (.punct c) nx = true := by
  cases nx <;> simp [okNext]

theorem okNext_none (k : Tok) : okNext k none = true := by cases k <;> simp [okNext]
theorem okNext_some (k : Tok) (c : Char) (h : safeC c = true) : okNext k (some c) = true :=
  okNext_safe k (some c) h
@[simp] theorem safeC_space : safeC ' ' = true := by decide
@[simp] theorem safeC_nl : safeC '\n' = true := by decide
@[simp] theorem safeC_lp : safeC '(' = true := by decide
@[simp] theorem safeC_rp : safeC ')' = true := by decide
@[simp] theorem safeC_comma : safeC ',' = true := by decide
@[simp] theorem safeC_eq : safeC '=' = true := by decide
@[simp] theorem safeC_dot : safeC '.' = true := by decide
@[simp] theorem valid_str (v : Str) : validTok (.str v) = true := rfl
@[simp] theorem safe_space : safeNext (some ' ') = true := by decide
@[simp] theorem safe_nl : safeNext (some '\n') = true := by decide
@[simp] theorem safe_lp : safeNext (some '(') = true := by decide
@[simp] theorem safe_rp : safeNext (some ')') = true := by decide
@[simp] theorem safe_comma : safeNext (some ',') = true := by decide
@[simp] theorem safe_eq : safeNext (some '=') = true := by decide
@[simp] theorem safe_dot : safeNext (some '.') = true := by decide
@[simp] theorem safe_none : safeNext none = true := rfl
@[simp] theorem vp_lp : validTok (.punct '(') = true := by decide
@[simp] theorem vp_rp : validTok (.punct ')') = true := by decide
@[simp] theorem vp_comma : validTok (.punct ',') = true := by decide
@[simp] theorem vp_eq : validTok (.punct '=') = true := by decide
@[simp] theorem vp_dot : validTok (.punct '.') = true := by decide
@[simp] theorem ws_space : isWs ' ' = true := by decide
@[simp] theorem ws_nl : isWs '\n' = true := by decide
@[simp] theorem vw_NULL : validTok (.word k_NULL) = true := by decide
@[simp] theorem vw_INSERT : validTok (.word k_INSERT) = true := by decide
@[simp] theorem vw_INTO : validTok (.word k_INTO) = true := by decide
@[simp] theorem vw_VALUES : validTok (.word k_VALUES) = true := by decide
@[simp] theorem vw_CREATE : validTok (.word k_CREATE) = true := by decide
@[simp] theorem vw_TABLE : validTok (.word k_TABLE) = true := by decide
@[simp] theorem vw_DROP : validTok (.word k_DROP) = true := by decide
@[simp] theorem vw_ALTER : validTok (.word k_ALTER) = true := by decide
@[simp] theorem vw_ADD : validTok (.word k_ADD) = true := by decide
@[simp] theorem vw_COLUMN : validTok (.word k_COLUMN) = true := by decide
@[simp] theorem vw_INDEX : validTok (.word k_INDEX) = true := by decide
@[simp] theorem vw_ON : validTok (.word k_ON) = true := by decide
@[simp] theorem vw_NOT : validTok (.word k_NOT) = true := by decide
@[simp] theorem vw_INTEGER : validTok (.word k_INTEGER) = true := by decide
@[simp] theorem vw_TEXT : validTok (.word k_TEXT) = true := by decide
@[simp] theorem vw_VARCHAR : validTok (.word k_VARCHAR) = true := by decide
@[simp] theorem vw_UPDATE : validTok (.word k_UPDATE) = true := by decide
@[simp] theorem vw_SET : validTok (.word k_SET) = true := by decide
@[simp] theorem vw_WHERE : validTok (.word k_WHERE) = true := by decide
@[simp] theorem vw_DELETE : validTok (.word k_DELETE) = true := by decide
@[simp] theorem vw_FROM : validTok (.word k_FROM) = true := by decide
@[simp] theorem vw_RETURNING : validTok (.word k_RETURNING) = true := by decide
@[simp] theorem vw_CONSTRAINT : validTok (.word k_CONSTRAINT) = true := by decide
@[simp] theorem vw_PRIMARY : validTok (.word k_PRIMARY) = true := by decide
@[simp] theorem vw_KEY : validTok (.word k_KEY) = true := by decide
@[simp] theorem vw_alembic_version : validTok (.word k_alembic_version) = true := by decide
@[simp] theorem vw_version_num : validTok (.word k_version_num) = true := by decide
@[simp] theorem vw_alembic_version_pkc : validTok (.word k_alembic_version_pkc) = true := by decide
@[simp] theorem vw_32 : validTok (.word ['3', '2']) = true := by decide

theorem headOf_append (a b : List Piece) (nx : Option Char) : headOf (a ++ b) nx = headOf a (headOf b nx) := by
  induction a with
  | nil => rfl
  | cons x r ih =>
    cases x with
    | sp s => cases s <;> simp [headOf, ih]
    | t k => cases h : renderTok k <;> simp [headOf, h, ih]

theorem WS_append (a b : List Piece) (nx : Option Char) :
    WS nx (a ++ b) = (WS (headOf b nx) a && WS nx b) := by
  induction a with
  | nil => simp [WS]
  | cons x r ih =>
    cases x with
    | sp s => simp [WS, ih, Bool.and_assoc]
    | t k => simp [WS, ih, headOf_append, Bool.and_assoc]

@[simp] theorem headOf_p (c : Char) (r : List Piece) (nx : Option Char) : headOf (p c :: r) nx = some c := by
  simp [headOf, p, renderTok]
@[simp] theorem headOf_sp1 (r : List Piece) (nx : Option Char) : headOf (sp1 :: r) nx = some ' ' := by
  simp [headOf, sp1]
@[simp] theorem headOf_spNl (r : List Piece) (nx : Option Char) : headOf (spNl :: r) nx = some '\n' := by
  simp [headOf, spNl]
@[simp] theorem headOf_spCol (r : List Piece) (nx : Option Char) : headOf (spCol :: r) nx = some ' ' := by
  simp [headOf, spCol]
@[simp] theorem headOf_nil (nx : Option Char) : headOf [] nx = nx := rfl
@[simp] theorem WS_sp1 (r : List Piece) (nx : Option Char) : WS nx (sp1 :: r) = WS nx r := by simp [WS, sp1]
@[simp] theorem WS_spNl (r : List Piece) (nx : Option Char) : WS nx (spNl :: r) = WS nx r := by simp [WS, spNl]
@[simp] theorem WS_spCol (r : List Piece) (nx : Option Char) : WS nx (spCol :: r) = WS nx r := by simp [WS, spCol]
@[simp] theorem WS_p (c : Char) (r : List Piece) (nx : Option Char) :
    WS nx (p c :: r) = (validTok (.punct c) && WS nx r) := by simp [WS, p]
@[simp] theorem WS_nil (nx : Option Char) : WS nx [] = true := rfl

/-- a token followed by something safe -/
theorem WS_t (k : Tok) (r : List Piece) (nx : Option Char) (hv : validTok k = true)
    (hs : safeNext (headOf r nx) = true) : WS nx (.t k :: r) = WS nx r := by
  simp [WS, hv, okNext_safe k _ hs]

theorem WS_w (k : Str) (r : List Piece) (nx : Option Char) (hv : validTok (.word k) = true)
    (hs : safeNext (headOf r nx) = true) : WS nx (w k :: r) = WS nx r := WS_t _ r nx hv hs

section
variable (q : Str → Bool) (hq : BareSafe q)
include hq

theorem valid_nameTok (n : Str) : validTok (nameTok q n) = true := by
  unfold nameTok
  split
  · rfl
  · rename_i h
    simp only [Bool.not_eq_true] at h
    exact (hq n h).1

omit hq in
theorem valid_natWord (n : Nat) : validTok (.word (natDigits n)) = true := by
  have h := all_word_of_all_digit _ (natDigits_all_digit n)
  cases hd : natDigits n with
  | nil => exact absurd hd (natDigits_ne_nil n)
  | cons c r =>
    rw [hd] at h
    simp only [List.all_cons, Bool.and_eq_true] at h
    simp [validTok, validWord, h.1, h.2]

omit hq in
theorem valid_litTok (v : Val) : validTok (litTok v) = true := by
  cases v with
  | null => simp [litTok]
  | str s => rfl
  | int i =>
    cases i with
    | ofNat n => simpa [litTok, renderInt] using valid_natWord n
    | negSucc n =>
      have h := natDigits_all_digit (n + 1)
      cases hd : natDigits (n + 1) with
      | nil => exact absurd hd (natDigits_ne_nil _)
      | cons c r =>
        rw [hd] at h
        simp only [List.all_cons, Bool.and_eq_true] at h
        have := all_word_of_all_digit r h.2
        simp [litTok, renderInt, hd, validTok, validWord, h.1, this]

omit hq in
theorem WS_commaP (l : List Tok) (nx : Option Char) (hv : ∀ a ∈ l, validTok a = true)
    (hs : safeNext nx = true) : WS nx (commaP l) = true := by
  induction l with
  | nil => rfl
  | cons a r ih =>
    have ha := hv a (by simp)
    have hr : ∀ b ∈ r, validTok b = true := fun b hb => hv b (by simp [hb])
    cases r with
    | nil => simp [commaP, WS, ha, okNext_safe a nx hs]
    | cons b r' =>
      have := ih hr
      simp only [commaP]
      rw [WS_t a _ nx ha (by simp)]
      simpa using this

theorem WS_colP (c : Col) (nx : Option Char) (hs : safeNext nx = true) : WS nx (colP q c) = true := by
  have hn := valid_nameTok q hq c.name
  obtain ⟨name, ty, nullable⟩ := c
  simp only at hn
  cases ty <;> cases nullable <;>
    simp [colP, tyP, WS_t, WS_w, hn, hs, valid_natWord]

theorem WS_colsP (cols : List Col) (nx : Option Char) (hs : safeNext nx = true) : WS nx (colsP q cols) = true := by
  induction cols with
  | nil => rfl
  | cons c r ih =>
    cases r with
    | nil => simpa [colsP] using WS_colP q hq c nx hs
    | cons d r' =>
      simp only [colsP, List.append_assoc]
      rw [WS_append, WS_colP q hq c _ (by simp)]
      simpa using ih

theorem WS_stmtP (s : Stmt) : WS none (stmtP q s) = true := by
  have hn := valid_nameTok q hq
  cases s with
  | createTable t cols =>
    simp only [stmtP, List.cons_append, List.nil_append]
    rw [WS_w _ _ _ (by simp) (by simp), WS_sp1, WS_w _ _ _ (by simp) (by simp), WS_sp1,
      WS_t _ _ _ (hn t) (by simp), WS_sp1, WS_p]
    simp only [vp_lp, Bool.true_and]
    show WS none (Piece.sp _ :: _) = true
    simp only [WS, List.all_cons, ws_nl, ws_space, List.all_nil, Bool.and_true, Bool.true_and]
    rw [WS_append, WS_colsP q hq cols _ (by simp)]
    simp
  | dropTable t => simp [stmtP, w, p, sp1, WS, headOf, renderTok, okNext_some, okNext_none, hn]
  | dropIndex t => simp [stmtP, w, p, sp1, WS, headOf, renderTok, okNext_some, okNext_none, hn]
  | addColumn t c =>
    simp only [stmtP, List.cons_append, List.nil_append]
    rw [WS_w _ _ _ (by simp) (by simp), WS_sp1, WS_w _ _ _ (by simp) (by simp), WS_sp1,
      WS_t _ _ _ (hn t) (by simp), WS_sp1, WS_w _ _ _ (by simp) (by simp), WS_sp1,
      WS_w _ _ _ (by simp) (by simp), WS_sp1]
    exact WS_colP q hq c none rfl
  | createIndex ix t cols =>
    simp only [stmtP, List.cons_append, List.nil_append]
    rw [WS_w _ _ _ (by simp) (by simp), WS_sp1, WS_w _ _ _ (by simp) (by simp), WS_sp1,
      WS_t _ _ _ (hn ix) (by simp), WS_sp1, WS_w _ _ _ (by simp) (by simp), WS_sp1,
      WS_t _ _ _ (hn t) (by simp), WS_sp1, WS_p, WS_append,
      WS_commaP _ _ (by intro a ha; simp only [List.mem_map] at ha; obtain ⟨n, _, e⟩ := ha; rw [← e]; exact hn n) (by simp)]
    simp
  | insert t cols vals =>
    simp only [stmtP, List.cons_append, List.nil_append, List.append_assoc]
    rw [WS_w _ _ _ (by simp) (by simp), WS_sp1, WS_w _ _ _ (by simp) (by simp), WS_sp1,
      WS_t _ _ _ (hn t) (by simp), WS_sp1, WS_p, WS_append,
      WS_commaP _ _ (by intro a ha; simp only [List.mem_map] at ha; obtain ⟨n, _, e⟩ := ha; rw [← e]; exact hn n) (by simp)]
    simp only [vp_lp, Bool.true_and, WS_p, vp_rp, WS_sp1]
    rw [WS_w _ _ _ (by simp) (by simp), WS_sp1, WS_p, WS_append,
      WS_commaP _ _ (by intro a ha; simp only [List.mem_map] at ha; obtain ⟨n, _, e⟩ := ha; rw [← e]; exact valid_litTok n) (by simp)]
    simp
  | vtCreate => simp [stmtP, vtName, vtCol, w, p, sp1, spCol, spNl, WS, headOf, renderTok, okNext_some, okNext_none]
  | vtDrop => simp [stmtP, vtName, vtCol, w, p, sp1, spCol, spNl, WS, headOf, renderTok, okNext_some, okNext_none]
  | vtInsert v => simp [stmtP, vtName, vtCol, w, p, sp1, spCol, spNl, WS, headOf, renderTok, okNext_some, okNext_none]
  | vtUpdate o n => simp [stmtP, vtName, vtCol, w, p, sp1, spCol, spNl, WS, headOf, renderTok, okNext_some, okNext_none]
  | vtDelete v => simp [stmtP, vtName, vtCol, w, p, sp1, spCol, spNl, WS, headOf, renderTok, okNext_some, okNext_none]
  | other t => rfl

/-- the lexer reads every rendered statement back as exactly its tokens -/
theorem lex_stmtP (s : Stmt) : lex (flat (stmtP q s)) = toks (stmtP q s) := by
  have := lex_pieces (stmtP q s) none [] (WS_stmtP q hq s) rfl
  simpa [lex, lexGo] using this

end
end Lemmas.Offline
