import Model.Offline.Sql
/-! Lemmas about numbers, quote doubling and the lexer (`C12.literal`, token round trip). -/
namespace Lemmas.Offline
open Model.Offline

/-! ## numbers -/

theorem digitVal_digitChar (d : Nat) (h : d < 10) : digitVal (digitChar d) = some d := by
  have : d = 0 ∨ d = 1 ∨ d = 2 ∨ d = 3 ∨ d = 4 ∨ d = 5 ∨ d = 6 ∨ d = 7 ∨ d = 8 ∨ d = 9 := by omega
  rcases this with h | h | h | h | h | h | h | h | h | h <;> subst h <;> decide

theorem isDigitCh_digitChar (d : Nat) : isDigitCh (digitChar d) = true := by
  unfold digitChar
  split <;> decide

theorem isWordCh_of_isDigitCh (c : Char) (h : isDigitCh c = true) : isWordCh c = true := by
  simp only [isDigitCh, digitVal] at h
  repeat' split at h
  all_goals first | (simp_all; done) | (rename_i hc; simp at hc; subst hc; decide) | skip
  all_goals simp_all [isWordCh]

theorem valRev_natDigitsRev (n : Nat) : valRev (natDigitsRev n) = some n := by
  induction n using Nat.strongRecOn with
  | _ n ih =>
    rw [natDigitsRev]
    split
    · rename_i h
      simp [valRev, digitVal_digitChar n h]
    · rename_i h
      have h1 : n % 10 < 10 := Nat.mod_lt _ (by omega)
      have h2 := ih (n / 10) (by omega)
      simp only [valRev, digitVal_digitChar _ h1, h2]
      congr 1
      omega

theorem natDigitsRev_ne_nil (n : Nat) : natDigitsRev n ≠ [] := by
  rw [natDigitsRev]; split <;> simp

theorem natDigitsRev_all_digit (n : Nat) : (natDigitsRev n).all isDigitCh = true := by
  induction n using Nat.strongRecOn with
  | _ n ih =>
    rw [natDigitsRev]
    split
    · simp [isDigitCh_digitChar]
    · simp only [List.all_cons, isDigitCh_digitChar, Bool.true_and]
      exact ih (n / 10) (by omega)

theorem natDigits_ne_nil (n : Nat) : natDigits n ≠ [] := by
  simp [natDigits, natDigitsRev_ne_nil]

theorem natDigits_all_digit (n : Nat) : (natDigits n).all isDigitCh = true := by
  simpa [natDigits] using natDigitsRev_all_digit n

theorem parseNat_natDigits (n : Nat) : parseNat (natDigits n) = some n := by
  have := natDigits_ne_nil n
  simp only [parseNat]
  cases h : natDigits n with
  | nil => exact absurd h this
  | cons a r => simp [← h, natDigits, valRev_natDigitsRev, natDigitsRev_ne_nil]

theorem natDigits_head_ne_minus (n : Nat) : ∀ c r, natDigits n = c :: r → c ≠ '-' := by
  intro c r h hc
  have := natDigits_all_digit n
  rw [h] at this
  simp only [List.all_cons, Bool.and_eq_true] at this
  subst hc
  exact absurd this.1 (by decide)

theorem parseInt_renderInt (i : Int) : parseInt (renderInt i) = some i := by
  cases i with
  | ofNat n =>
    simp only [renderInt]
    cases h : natDigits n with
    | nil => exact absurd h (natDigits_ne_nil n)
    | cons c r =>
      have hc := natDigits_head_ne_minus n c r h
      have : parseInt (c :: r) = (parseNat (c :: r)).map Int.ofNat := by
        unfold parseInt
        split
        · rename_i heq; simp at heq; exact absurd heq.1 hc
        · rfl
      rw [this, ← h, parseNat_natDigits]
      rfl
  | negSucc n =>
    simp only [renderInt, parseInt, parseNat_natDigits, Option.map_some]
    congr 1

/-! ## quote doubling and the lexer -/

theorem lexGo_str_esc (s : Str) : ∀ (acc rest : Str),
    lexGo (.str acc) (escQ '\'' s ++ rest) = lexGo (.str (s.reverse ++ acc)) rest := by
  induction s with
  | nil => intro acc rest; simp [escQ]
  | cons c r ih =>
    intro acc rest
    by_cases hc : c = '\''
    · subst hc
      simp [escQ, lexGo, ih]
    · simp [escQ, hc, lexGo, ih]

theorem lexGo_id_esc (s : Str) : ∀ (acc rest : Str),
    lexGo (.id acc) (escQ '"' s ++ rest) = lexGo (.id (s.reverse ++ acc)) rest := by
  induction s with
  | nil => intro acc rest; simp [escQ]
  | cons c r ih =>
    intro acc rest
    by_cases hc : c = '"'
    · subst hc
      simp [escQ, lexGo, ih]
    · simp [escQ, hc, lexGo, ih]

theorem lexGo_word_run (r : Str) : ∀ (acc rest : Str), r.all isWordCh = true →
    lexGo (.word acc) (r ++ rest) = lexGo (.word (r.reverse ++ acc)) rest := by
  induction r with
  | nil => intro acc rest _; simp
  | cons c r ih =>
    intro acc rest h
    simp only [List.all_cons, Bool.and_eq_true] at h
    simp [lexGo, h.1, ih _ _ h.2]

theorem lex_str (s : Str) : lex ('\'' :: (escQ '\'' s ++ ['\''])) = [Tok.str s] := by
  simp [lex, lexGo, dispatch, lexGo_str_esc]

theorem all_word_of_all_digit (s : Str) (h : s.all isDigitCh = true) : s.all isWordCh = true := by
  simp only [List.all_eq_true] at *
  intro c hc
  exact isWordCh_of_isDigitCh c (h c hc)

theorem lex_natDigits (n : Nat) : lex (natDigits n) = [Tok.word (natDigits n)] := by
  have hall := all_word_of_all_digit _ (natDigits_all_digit n)
  cases h : natDigits n with
  | nil => exact absurd h (natDigits_ne_nil n)
  | cons c r =>
    rw [h] at hall
    simp only [List.all_cons, Bool.and_eq_true] at hall
    have hd := natDigits_head_ne_minus n c r h
    have hq : c ≠ '\'' := by intro e; subst e; exact absurd hall.1 (by decide)
    have hq2 : c ≠ '"' := by intro e; subst e; exact absurd hall.1 (by decide)
    have := lexGo_word_run r [c] [] hall.2
    simp only [List.append_nil] at this
    simp [lex, lexGo, dispatch, hq, hq2, hd, hall.1, this]

end Lemmas.Offline

namespace Lemmas.Offline
open Model.Offline

theorem lex_neg (n : Nat) : lex ('-' :: natDigits n) = [Tok.word ('-' :: natDigits n)] := by
  have hall := natDigits_all_digit n
  cases h : natDigits n with
  | nil => exact absurd h (natDigits_ne_nil n)
  | cons c r =>
    rw [h] at hall
    simp only [List.all_cons, Bool.and_eq_true] at hall
    have hw := all_word_of_all_digit r hall.2
    have := lexGo_word_run r [c, '-'] [] hw
    simp only [List.append_nil] at this
    simp [lex, lexGo, dispatch, hall.1, this]

theorem natDigits_ne_NULL (n : Nat) : natDigits n ≠ k_NULL := by
  intro h
  have := natDigits_all_digit n
  rw [h] at this
  exact absurd this (by decide)

end Lemmas.Offline
