import Model.Offline.Frame
import Lemmas.Offline.Run
/-! A well-closed frame is transparent for the durable effect of a replay. -/
namespace Lemmas.Offline
open Model.Offline
open Model.Txn (Cfg emitsBlock)

theorem execF_open (l : List Stmt) : ∀ (rest : List FStmt) (c w : DB),
    execF (stmtsF l ++ rest) ⟨c, some w⟩ = (execAll l w).bind (fun w' => execF rest ⟨c, some w'⟩) := by
  induction l with
  | nil => intro rest c w; simp [stmtsF, execAll]
  | cons s r ih =>
    intro rest c w
    simp only [stmtsF, List.map_cons, List.cons_append, execF, execAll]
    cases execStmt s w with
    | none => simp
    | some w' => simpa [stmtsF] using ih rest c w'

theorem execF_closed (l : List Stmt) : ∀ (rest : List FStmt) (c : DB),
    execF (stmtsF l ++ rest) ⟨c, none⟩ = (execAll l c).bind (fun c' => execF rest ⟨c', none⟩) := by
  induction l with
  | nil => intro rest c; simp [stmtsF, execAll]
  | cons s r ih =>
    intro rest c
    simp only [stmtsF, List.map_cons, List.cons_append, execF, execAll]
    cases execStmt s c with
    | none => simp
    | some c' => simpa [stmtsF] using ih rest c'

/-- a block `BEGIN … COMMIT` around statements, replayed from outside a transaction -/
theorem execF_wrap (b : Bool) (l : List Stmt) (rest : List FStmt) (c : DB) :
    execF (wrap b (stmtsF l) ++ rest) ⟨c, none⟩ = (execAll l c).bind (fun c' => execF rest ⟨c', none⟩) := by
  cases b with
  | false => simpa [wrap] using execF_closed l rest c
  | true =>
    have h := execF_open l (FStmt.commit :: rest) c c
    simp only [wrap, if_true, List.append_assoc, List.cons_append, List.nil_append, execF]
    rw [h]
    cases execAll l c <;> simp [execF]

theorem execF_body (cfg : Cfg) (secs : List (List Stmt)) : ∀ (rest : List FStmt) (c : DB),
    execF (bodyF cfg secs ++ rest) ⟨c, none⟩ = (execAll secs.flatten c).bind (fun c' => execF rest ⟨c', none⟩) := by
  induction secs with
  | nil => intro rest c; simp [bodyF, execAll]
  | cons sec r ih =>
    intro rest c
    simp only [bodyF, List.append_assoc, List.flatten_cons]
    rw [execF_wrap, execAll_append]
    cases execAll sec c with
    | none => simp
    | some c' => simpa using ih rest c'

theorem bodyF_unwrapped (cfg : Cfg) (h : emitsBlock cfg true = false) (secs : List (List Stmt)) :
    bodyF cfg secs = stmtsF secs.flatten := by
  induction secs with
  | nil => rfl
  | cons sec r ih => simp [bodyF, h, wrap, ih, stmtsF]

/-- the two kinds of block exclude each other: blocks never nest -/
theorem emitsBlock_exclusive (cfg : Cfg) (h : emitsBlock cfg false = true) : emitsBlock cfg true = false := by
  cases cfg with
  | mk tddl perMig => cases tddl <;> cases perMig <;> simp_all [emitsBlock]

/-- **framing is transparent**: replaying the framed script leaves exactly what replaying the bare
    statements leaves, durable and with no transaction open -/
theorem execF_framed (cfg : Cfg) (secs : List (List Stmt)) (tr : List Stmt) (db : DB) :
    execF (framed cfg secs tr) ⟨db, none⟩ = (execAll (secs.flatten ++ tr) db).map (fun d => ⟨d, none⟩) := by
  cases hb : emitsBlock cfg false with
  | false =>
    have h := execF_body cfg secs (stmtsF tr) db
    simp only [framed, hb, wrap]
    rw [if_neg (by simp), h, execAll_append]
    cases execAll secs.flatten db with
    | none => simp
    | some c' =>
      have := execF_closed tr [] c'
      simp only [List.append_nil] at this
      simp only [Option.bind_some, this]
      cases execAll tr c' <;> simp [execF]
  | true =>
    have hu := bodyF_unwrapped cfg (emitsBlock_exclusive cfg hb) secs
    have e : bodyF cfg secs ++ stmtsF tr = stmtsF (secs.flatten ++ tr) := by simp [hu, stmtsF]
    have := execF_wrap true (secs.flatten ++ tr) [] db
    simp only [List.append_nil] at this
    simp only [framed, hb, e, this]
    cases execAll (secs.flatten ++ tr) db <;> simp [execF]

theorem offlineSections_flat (q : Str → Bool) (steps : List Step) : ∀ (heads : List Str),
    (offlineSections q heads steps).map (fun p => p.1.flatten ++ p.2) = offlineStmts q heads steps := by
  induction steps with
  | nil => intro heads; simp [offlineSections, offlineStmts]
  | cons st r ih =>
    intro heads
    simp only [offlineSections, offlineStmts]
    cases hmAll heads st.ver with
    | none => rfl
    | some h' =>
      simp only []
      rw [← ih h']
      cases offlineSections q h' r <;> simp

end Lemmas.Offline
