import Lemmas.Offline.Parse
import Lemmas.Offline.Split
import Spec.Offline
/-! Assembly lemmas for `C12.same_effect_partial`. -/
namespace Lemmas.Offline
open Model.Offline Spec.Offline

theorem tabs4_id (s : Str) (h : noTab s = true) : tabs4 s = s := by
  induction s with
  | nil => rfl
  | cons c r ih =>
    simp only [noTab, List.all_cons, Bool.and_eq_true, bne_iff_ne, ne_eq] at h
    have hr : noTab r = true := by simpa [noTab] using h.2
    simp [tabs4, h.1, ih hr]

theorem lstrip_id (s : Str) (h : headOk s = true) : lstrip s = s := by
  cases s with
  | nil => rfl
  | cons c r => simp only [headOk, Bool.not_eq_true'] at h; simp [lstrip, h]

theorem strip_id (s : Str) (h1 : headOk s = true) (h2 : headOk s.reverse = true) : strip s = s := by
  simp [strip, lstrip_id s h1, lstrip_id _ h2]

theorem execText_plain (t : Str) (h : plainText t = true) : execText t = t ∧ Closed t = true := by
  simp only [plainText, Bool.and_eq_true] at h
  obtain ⟨⟨⟨h1, h2⟩, h3⟩, _⟩ := h
  have hh : headOk t = true := by simp only [Closed, Bool.and_eq_true] at h2; exact h2.2
  exact ⟨by rw [execText, tabs4_id t h1, strip_id t hh h3], h2⟩

section
variable (q : Str → Bool) (hq : BareSafe q)

include hq in
theorem closed_stmt (s : Stmt) (ho : isOther s = false) : Closed (renderStmt q s) = true := by
  have hs := scan_pieces (stmtP q s) none (WS_stmtP q hq s)
  cases s <;> first
    | (simp [isOther] at ho; done)
    | (simp only [renderStmt, Closed, hs, beq_self_eq_true, Bool.true_and]
       simp [stmtP, flat, w, vtName, renderTok, headOk, isWs, k_CREATE, k_DROP, k_ALTER, k_INSERT, k_UPDATE, k_DELETE])

theorem execTexts_eq (l : List Str) : ∀ db, execTexts q l db = execAll (l.map (parseStmt q)) db := by
  induction l with
  | nil => intro db; rfl
  | cons t r ih => intro db; simp only [execTexts, List.map_cons, execAll]; cases execStmt (parseStmt q t) db <;> simp [ih]

omit q in
theorem execAll_append (a b : List Stmt) : ∀ db, execAll (a ++ b) db = (execAll a db).bind (execAll b) := by
  induction a with
  | nil => intro db; simp [execAll]
  | cons s r ih => intro db; simp only [List.cons_append, execAll]; cases execStmt s db <;> simp [ih]

omit q in
theorem stmtsOf_append (a b : List Item) : stmtsOf (a ++ b) = stmtsOf a ++ stmtsOf b := by
  induction a with
  | nil => rfl
  | cons i r ih => cases i <;> simp [stmtsOf, ih]

/-- what the theorem needs to know about a list of emitted items -/
def Reads (items : List Item) (stmts : List Stmt) : Prop :=
  (∀ i ∈ items, itemOk i = true) ∧ (stmtsOf items).map (parseStmt q) = stmts

theorem Reads_append {a b : List Item} {x y : List Stmt} (h1 : Reads q a x) (h2 : Reads q b y) :
    Reads q (a ++ b) (x ++ y) := by
  refine ⟨?_, ?_⟩
  · intro i hi
    rcases List.mem_append.mp hi with h | h
    · exact h1.1 i h
    · exact h2.1 i h
  · rw [stmtsOf_append, List.map_append, h1.2, h2.2]

theorem Reads_nil : Reads q [] [] := ⟨by simp, rfl⟩

include hq in
theorem Reads_stmt (s : Stmt) (h : stmtOk q s = true) (ho : isOther s = false) :
    Reads q [stmtItem q s] [s] := by
  simp only [stmtOk, Bool.and_eq_true] at h
  have hrb := parse_render q hq s h.1
  have hc := closed_stmt q hq s ho
  refine ⟨?_, ?_⟩
  · intro i hi
    simp only [List.mem_singleton] at hi
    subst hi
    simp [stmtItem, tabs4_id _ h.2, itemOk, hc]
  · simp [stmtItem, tabs4_id _ h.2, stmtsOf, hrb]

include hq in
theorem Reads_rows (t : Str) (cols : List Str) (rows : List (List Val))
    (h : ∀ r ∈ rows, stmtOk q (.insert t cols r) = true) :
    Reads q (rows.map (fun r => stmtItem q (.insert t cols r))) (rows.map (fun r => Stmt.insert t cols r)) := by
  induction rows with
  | nil => exact Reads_nil q
  | cons r rs ih =>
    have h1 := Reads_stmt q hq (.insert t cols r) (h r (by simp)) rfl
    have h2 := ih (fun x hx => h x (by simp [hx]))
    simpa using Reads_append q h1 h2

include hq in
theorem Reads_op (o : Op) (h : opOk q o = true) : Reads q (opItems q o) (opStmts q o) := by
  cases o with
  | execute text =>
    simp only [opOk, Bool.and_eq_true] at h
    obtain ⟨e, c⟩ := execText_plain text h.1
    refine ⟨?_, ?_⟩
    · intro i hi; simp only [opItems, List.mem_singleton] at hi; subst hi; simp [itemOk, e, c]
    · simp [opItems, opStmts, stmtsOf, e]
  | bulkInsert t cols rows =>
    simp only [opOk, opStmts, List.all_map, List.all_eq_true, Function.comp, Bool.and_eq_true] at h
    exact Reads_rows q hq t cols rows (fun r hr => (h r hr).1.1)
  | createTable t cols =>
    simp only [opOk, opStmts, List.all_cons, List.all_nil, Bool.and_true, Bool.and_eq_true] at h
    exact Reads_stmt q hq _ h.1.1 rfl
  | dropTable t =>
    simp only [opOk, opStmts, List.all_cons, List.all_nil, Bool.and_true, Bool.and_eq_true] at h
    exact Reads_stmt q hq _ h.1.1 rfl
  | addColumn t c =>
    simp only [opOk, opStmts, List.all_cons, List.all_nil, Bool.and_true, Bool.and_eq_true] at h
    exact Reads_stmt q hq _ h.1.1 rfl
  | createIndex ix t cols =>
    simp only [opOk, opStmts, List.all_cons, List.all_nil, Bool.and_true, Bool.and_eq_true] at h
    exact Reads_stmt q hq _ h.1.1 rfl
  | dropIndex ix =>
    simp only [opOk, opStmts, List.all_cons, List.all_nil, Bool.and_true, Bool.and_eq_true] at h
    exact Reads_stmt q hq _ h.1.1 rfl

include hq in
theorem Reads_body (ops : List Op) (h : ops.all (opOk q) = true) : Reads q (bodyItems q ops) (bodyStmts q ops) := by
  induction ops with
  | nil => exact Reads_nil q
  | cons o r ih =>
    simp only [List.all_cons, Bool.and_eq_true] at h
    exact Reads_append q (Reads_op q hq o h.1) (ih h.2)

omit q in
theorem verStmt_not_other (v : VerOp) : isOther (verStmt v) = false := by cases v <;> rfl

include hq in
theorem Reads_ver (vs : List VerOp) (h : vs.all (verOk q) = true) : Reads q (verItems q vs) (vs.map verStmt) := by
  induction vs with
  | nil => exact Reads_nil q
  | cons v r ih =>
    simp only [List.all_cons, Bool.and_eq_true] at h
    have h1 := Reads_stmt q hq (verStmt v) h.1 (verStmt_not_other v)
    simpa [verItems] using Reads_append q h1 (ih h.2)

/-- the two fixed statements the offline loop adds read back (hypothesis of the main lemma,
    discharged in `Props/C12.lean`) -/
def VtOk : Prop := stmtOk q .vtCreate = true ∧ stmtOk q .vtDrop = true

include hq in
theorem Reads_step (hv : VtOk q) (heads : List Str) (st : Step) (h : stepOk q st = true) :
    Reads q (offlineStepItems q heads st) (stepStmts q heads st) := by
  simp only [stepOk, Bool.and_eq_true] at h
  obtain ⟨⟨h1, h2⟩, h3⟩ := h
  have hc : Reads q [Item.comment (['R', 'u', 'n', 'n', 'i', 'n', 'g', ' '] ++ st.comment)] [] := by
    refine ⟨?_, rfl⟩
    intro i hi
    simp only [List.mem_singleton] at hi
    subst hi
    simpa [itemOk, noNewline] using h1
  have hcreate : Reads q (if heads.isEmpty then [stmtItem q .vtCreate] else [])
      (if heads.isEmpty then [Stmt.vtCreate] else []) := by
    split
    · exact Reads_stmt q hq _ hv.1 rfl
    · exact Reads_nil q
  have := Reads_append q (Reads_append q (Reads_append q hcreate hc) (Reads_body q hq st.body h2)) (Reads_ver q hq st.ver h3)
  simpa [offlineStepItems, stepStmts] using this

include hq in
theorem Reads_offline (hv : VtOk q) (steps : List Step) : ∀ (heads : List Str), steps.all (stepOk q) = true →
    match offlineItems q heads steps, offlineStmts q heads steps with
    | some items, some stmts => Reads q items stmts
    | none, none => True
    | _, _ => False := by
  induction steps with
  | nil =>
    intro heads _
    simp only [offlineItems, offlineStmts]
    split
    · exact Reads_stmt q hq _ hv.2 rfl
    · exact Reads_nil q
  | cons st r ih =>
    intro heads h
    simp only [List.all_cons, Bool.and_eq_true] at h
    simp only [offlineItems, offlineStmts]
    cases hm : hmAll heads st.ver with
    | none => trivial
    | some h' =>
      have := ih h' h.2
      simp only []
      cases h1 : offlineItems q h' r <;> cases h2 : offlineStmts q h' r <;> simp only [h1, h2] at this ⊢
      all_goals first
        | exact Reads_append q (Reads_step q hq hv heads st h.1) this
        | exact this.elim
        | trivial

/-- executing the emitted script = executing the emitted statements -/
theorem exec_script_eq (items : List Item) (stmts : List Stmt) (h : Reads q items stmts) (db : DB) :
    execScript q (emit items) db = execAll stmts db := by
  have hs : Model.Offline.split (emit items) = stmtsOf items := by
    unfold Model.Offline.split
    rw [foldl_emit items [] h.1]
    simp [finish, curOf]
  rw [execScript, hs, execTexts_eq, h.2]

/-! ## online = executing the same statements -/

omit q in
theorem insertRows_eq (t : Str) (cols : List Str) (rows : List (List Val)) : ∀ db,
    insertRows t cols rows db = execAll (rows.map (fun r => Stmt.insert t cols r)) db := by
  induction rows with
  | nil => intro db; rfl
  | cons r rs ih =>
    intro db
    simp only [insertRows, List.map_cons, execAll, execStmt]
    cases db.insertRow t cols r <;> simp [ih]

theorem onlineOp_eq (o : Op) (db : DB) : onlineOp q o db = execAll (opStmts q o) db := by
  cases o with
  | bulkInsert t cols rows => exact insertRows_eq t cols rows db
  | execute text => simp only [onlineOp, opStmts, execAll]; cases execStmt (parseStmt q text) db <;> rfl
  | createTable t cols => simp only [onlineOp, opStmts, execAll, execStmt]; cases db.createTable t cols <;> rfl
  | dropTable t => simp only [onlineOp, opStmts, execAll, execStmt]; cases db.dropTable t <;> rfl
  | addColumn t c => simp only [onlineOp, opStmts, execAll, execStmt]; cases db.addColumn t c <;> rfl
  | createIndex ix t cols => simp only [onlineOp, opStmts, execAll, execStmt]; cases db.createIndex ix t cols <;> rfl
  | dropIndex ix => simp only [onlineOp, opStmts, execAll, execStmt]; cases db.dropIndex ix <;> rfl

theorem onlineOps_eq (ops : List Op) : ∀ db, onlineOps q ops db = execAll (bodyStmts q ops) db := by
  induction ops with
  | nil => intro db; rfl
  | cons o r ih =>
    intro db
    simp only [onlineOps, bodyStmts, execAll_append, onlineOp_eq]
    cases execAll (opStmts q o) db <;> simp [ih]

/-! ## user statements do not touch the version rows -/

omit q in
theorem execStmt_version (s : Stmt) (db db' : DB) (hs : isVt s = false) (h : execStmt s db = some db') :
    db'.version = db.version := by
  cases s <;> simp [isVt] at hs <;> simp only [execStmt] at h
  · simp only [DB.createTable] at h; split at h <;> simp at h; subst h; rfl
  · simp only [DB.dropTable] at h; split at h <;> simp at h; subst h; rfl
  · simp only [DB.addColumn] at h; split at h <;> simp at h
    obtain ⟨_, h⟩ := h; subst h; rfl
  · simp only [DB.createIndex] at h; split at h <;> simp at h
    obtain ⟨_, h⟩ := h; subst h; rfl
  · simp only [DB.dropIndex] at h; split at h <;> simp at h; subst h; rfl
  · simp only [DB.insertRow] at h; split at h <;> simp at h
    obtain ⟨_, h⟩ := h; subst h; rfl
  · simp at h; subst h; rfl

omit q in
theorem execAll_version (l : List Stmt) : ∀ (db db' : DB), (∀ s ∈ l, isVt s = false) → execAll l db = some db' →
    db'.version = db.version := by
  induction l with
  | nil => intro db db' _ h; simp [execAll] at h; subst h; rfl
  | cons s r ih =>
    intro db db' hs h
    simp only [execAll] at h
    cases h1 : execStmt s db with
    | none => simp [h1] at h
    | some d1 =>
      simp only [h1] at h
      rw [ih d1 db' (fun x hx => hs x (by simp [hx])) h, execStmt_version s db d1 (hs s (by simp)) h1]

theorem body_not_vt (ops : List Op) (h : ops.all (opOk q) = true) : ∀ s ∈ bodyStmts q ops, isVt s = false := by
  induction ops with
  | nil => intro s hs; simp [bodyStmts] at hs
  | cons o r ih =>
    simp only [List.all_cons, Bool.and_eq_true] at h
    intro s hs
    simp only [bodyStmts, List.mem_append] at hs
    rcases hs with hs | hs
    · cases o with
      | execute text =>
        simp only [opOk, Bool.and_eq_true, Bool.not_eq_true'] at h
        simp only [opStmts, List.mem_singleton] at hs
        subst hs; exact h.1.2
      | bulkInsert t cols rows =>
        simp only [opStmts, List.mem_map] at hs
        obtain ⟨r, _, e⟩ := hs; subst e; rfl
      | createTable t cols => simp only [opStmts, List.mem_singleton] at hs; subst hs; rfl
      | dropTable t => simp only [opStmts, List.mem_singleton] at hs; subst hs; rfl
      | addColumn t c => simp only [opStmts, List.mem_singleton] at hs; subst hs; rfl
      | createIndex ix t cols => simp only [opStmts, List.mem_singleton] at hs; subst hs; rfl
      | dropIndex ix => simp only [opStmts, List.mem_singleton] at hs; subst hs; rfl
    · exact ih h.2 s hs

/-! ## the version statements keep the rows equal to the tracked heads -/

omit q in
theorem ver_step (heads h1 : List Str) (v : VerOp) (d : DB) (hd : d.version = some heads)
    (hm : hmStep heads v = some h1) : ∃ d1, execStmt (verStmt v) d = some d1 ∧ d1.version = some h1 := by
  cases v with
  | insert x =>
    simp only [hmStep] at hm
    split at hm
    · simp at hm
    · rename_i hx
      simp only [Option.some.injEq] at hm
      subst hm
      refine ⟨{ d with version := some (heads ++ [x]) }, ?_, rfl⟩
      simp [verStmt, execStmt, DB.vtInsert, hd, hx]
  | update o n =>
    simp only [hmStep] at hm
    split at hm
    · simp at hm
    · split at hm
      · simp only [Option.some.injEq] at hm; subst hm
        exact ⟨{ d with version := some (heads.map (fun x => if x = o then n else x)) },
          by simp [verStmt, execStmt, DB.vtUpdate, hd], rfl⟩
      · simp at hm
  | delete x =>
    simp only [hmStep] at hm
    split at hm
    · simp only [Option.some.injEq] at hm; subst hm
      exact ⟨{ d with version := some (heads.filter (fun y => y ≠ x)) },
        by simp [verStmt, execStmt, DB.vtDelete, hd], rfl⟩
    · simp at hm

omit q in
theorem ver_all (vs : List VerOp) : ∀ (heads : List Str) (d : DB), d.version = some heads →
    match hmAll heads vs with
    | none => onlineVers (heads, d) vs = none
    | some h' => ∃ d', execAll (vs.map verStmt) d = some d' ∧ onlineVers (heads, d) vs = some (h', d') ∧
        d'.version = some h' := by
  induction vs with
  | nil => intro heads d hd; exact ⟨d, rfl, rfl, hd⟩
  | cons v r ih =>
    intro heads d hd
    simp only [hmAll]
    cases hm : hmStep heads v with
    | none => simp [onlineVers, onlineVer, hm]
    | some h1 =>
      obtain ⟨d1, e1, v1⟩ := ver_step heads h1 v d hd hm
      have := ih h1 d1 v1
      simp only []
      cases hr : hmAll h1 r with
      | none =>
        simp only [hr] at this
        simp [onlineVers, onlineVer, hm, e1, this]
      | some h' =>
        simp only [hr] at this
        obtain ⟨d', a, b, c⟩ := this
        exact ⟨d', by simp [execAll, e1, a], by simp [onlineVers, onlineVer, hm, e1, b], c⟩

end
end Lemmas.Offline
