import Model.Offline.Wf
import Lemmas.Offline.Literal
/-! The lexer reads a well-spaced piece list back as its tokens; the splitter's scanner
crosses it without seeing a terminator. -/
namespace Lemmas.Offline
open Model.Offline

theorem dispatch_ws (c : Char) (h : isWs c = true) : dispatch c = (.code, []) := by
  simp only [isWs, Bool.or_eq_true, beq_iff_eq] at h
  rcases h with ((((h | h) | h) | h) | h) | h <;> subst h <;> decide

theorem lex_ws (s : Str) (rest : Str) (h : s.all isWs = true) : lexGo .code (s ++ rest) = lexGo .code rest := by
  induction s with
  | nil => rfl
  | cons c r ih =>
    simp only [List.all_cons, Bool.and_eq_true] at h
    simp [lexGo, dispatch_ws c h.1, ih h.2]

theorem wordCh_ne (c : Char) (h : isWordCh c = true) : c ≠ '\'' ∧ c ≠ '"' ∧ c ≠ '-' ∧ c ≠ ';' ∧ isWs c = false := by
  refine ⟨?_, ?_, ?_, ?_, ?_⟩
  · intro e; subst e; exact absurd h (by decide)
  · intro e; subst e; exact absurd h (by decide)
  · intro e; subst e; exact absurd h (by decide)
  · intro e; subst e; exact absurd h (by decide)
  · cases hw : isWs c with
    | false => rfl
    | true =>
      simp only [isWs, Bool.or_eq_true, beq_iff_eq] at hw
      rcases hw with ((((e | e) | e) | e) | e) | e <;> subst e <;> exact absurd h (by decide)

theorem dispatch_word (c : Char) (h : isWordCh c = true) : dispatch c = (.word [c], []) := by
  obtain ⟨h1, h2, h3, _, _⟩ := wordCh_ne c h
  simp [dispatch, h1, h2, h3, h]

/-- flushing a pending word -/
theorem lexGo_word_flush (acc X : Str) (h : okNext (.word acc.reverse) X.head? = true) :
    lexGo (.word acc) X = Tok.word acc.reverse :: lexGo .code X := by
  cases X with
  | nil => simp [lexGo]
  | cons d X' =>
    simp only [List.head?_cons, okNext, Bool.not_eq_true'] at h
    simp [lexGo, h]

theorem lex_tok (k : Tok) (X : Str) (hv : validTok k = true) (hn : okNext k X.head? = true) :
    lexGo .code (renderTok k ++ X) = k :: lexGo .code X := by
  cases k with
  | bad => simp [validTok] at hv
  | punct c =>
    simp only [validTok, Bool.not_eq_true', Bool.or_eq_false_iff, beq_eq_false_iff_ne] at hv
    obtain ⟨⟨⟨⟨⟨h1, h2⟩, h3⟩, h4⟩, h5⟩, _⟩ := hv
    simp [renderTok, lexGo, dispatch, h1, h2, h3, h4, h5]
  | str s =>
    have e : renderTok (.str s) ++ X = '\'' :: (escQ '\'' s ++ '\'' :: X) := by simp [renderTok]
    have : lexGo .code ('\'' :: (escQ '\'' s ++ '\'' :: X)) = lexGo (.strQ s.reverse) X := by
      simp [lexGo, dispatch, lexGo_str_esc]
    rw [e, this]
    cases X with
    | nil => simp [lexGo]
    | cons d X' =>
      simp only [List.head?_cons, okNext, bne_iff_ne, ne_eq] at hn
      simp [lexGo, hn]
  | qname s =>
    have e : renderTok (.qname s) ++ X = '"' :: (escQ '"' s ++ '"' :: X) := by simp [renderTok]
    have : lexGo .code ('"' :: (escQ '"' s ++ '"' :: X)) = lexGo (.idQ s.reverse) X := by
      simp [lexGo, dispatch, lexGo_id_esc]
    rw [e, this]
    cases X with
    | nil => simp [lexGo]
    | cons d X' =>
      simp only [List.head?_cons, okNext, bne_iff_ne, ne_eq] at hn
      simp [lexGo, hn]
  | word w =>
    cases w with
    | nil => simp [validTok, validWord] at hv
    | cons c r =>
      simp only [validTok, validWord, Bool.or_eq_true, Bool.and_eq_true, beq_iff_eq] at hv
      rcases hv with ⟨hc, hr⟩ | ⟨hc, hr⟩
      · have h1 := lexGo_word_run r [c] X hr
        have h2 := lexGo_word_flush (r.reverse ++ [c]) X (by simpa using hn)
        simp only [renderTok, List.cons_append]
        simp [lexGo, dispatch_word c hc, h1, h2]
      · subst hc
        cases r with
        | nil => simp at hr
        | cons d r' =>
          simp only [Bool.and_eq_true] at hr
          have h1 := lexGo_word_run r' [d, '-'] X hr.2
          have h2 := lexGo_word_flush (r'.reverse ++ [d, '-']) X (by simpa using hn)
          simp only [renderTok, List.cons_append]
          simp [lexGo, dispatch, hr.1, h1, h2]

theorem renderTok_ne_nil (k : Tok) (hv : validTok k = true) : renderTok k ≠ [] := by
  cases k with
  | bad => simp [validTok] at hv
  | punct c => simp [renderTok]
  | str s => simp [renderTok]
  | qname s => simp [renderTok]
  | word w => cases w with
    | nil => simp [validTok, validWord] at hv
    | cons c r => simp [renderTok]

theorem head_flat (ps : List Piece) : ∀ (nx : Option Char) (rest : Str), WS nx ps = true → rest.head? = nx →
    (flat ps ++ rest).head? = headOf ps nx := by
  induction ps with
  | nil => intro nx rest _ h; simpa [flat, headOf] using h
  | cons a r ih =>
    intro nx rest h hr
    cases a with
    | sp s =>
      simp only [WS, Bool.and_eq_true] at h
      cases s with
      | nil => simpa [flat, headOf] using ih nx rest h.2 hr
      | cons c s' => simp [flat, headOf]
    | t k =>
      simp only [WS, Bool.and_eq_true] at h
      have := renderTok_ne_nil k h.1.1
      cases hk : renderTok k with
      | nil => exact absurd hk this
      | cons c s' => simp [flat, headOf, hk]

/-- **token round trip**: the lexer reads a well-spaced text back as exactly its tokens -/
theorem lex_pieces (ps : List Piece) : ∀ (nx : Option Char) (rest : Str), WS nx ps = true → rest.head? = nx →
    lexGo .code (flat ps ++ rest) = toks ps ++ lexGo .code rest := by
  induction ps with
  | nil => intro nx rest _ _; simp [flat, toks]
  | cons a r ih =>
    intro nx rest h hr
    cases a with
    | sp s =>
      simp only [WS, Bool.and_eq_true] at h
      simp only [flat, toks, List.append_assoc]
      rw [lex_ws s _ h.1, ih nx rest h.2 hr]
    | t k =>
      simp only [WS, Bool.and_eq_true] at h
      simp only [flat, toks, List.append_assoc, List.cons_append]
      have hh := head_flat r nx rest h.2 hr
      rw [lex_tok k (flat r ++ rest) h.1.1 (by rw [hh]; exact h.1.2), ih nx rest h.2 hr]

/-! ## the splitter's scanner over the same text -/

theorem scan_append (a b : Str) : ∀ m, scan m (a ++ b) = (scan m a).bind (fun m' => scan m' b) := by
  induction a with
  | nil => intro m; simp [scan]
  | cons c r ih =>
    intro m
    simp only [List.cons_append, scan]
    cases modeStep m c with
    | none => simp
    | some m' => simp [ih]

theorem scan_str_esc (s : Str) : scan .str (escQ '\'' s) = some .str := by
  induction s with
  | nil => simp [escQ, scan]
  | cons c r ih =>
    by_cases hc : c = '\''
    · subst hc; simp [escQ, scan, modeStep, ih]
    · simp [escQ, hc, scan, modeStep, ih]

theorem scan_id_esc (s : Str) : scan .ident (escQ '"' s) = some .ident := by
  induction s with
  | nil => simp [escQ, scan]
  | cons c r ih =>
    by_cases hc : c = '"'
    · subst hc; simp [escQ, scan, modeStep, ih]
    · simp [escQ, hc, scan, modeStep, ih]

theorem scan_word_run (r : Str) (h : r.all isWordCh = true) : scan .code r = some .code := by
  induction r with
  | nil => simp [scan]
  | cons c r ih =>
    simp only [List.all_cons, Bool.and_eq_true] at h
    obtain ⟨h1, h2, h3, h4, _⟩ := wordCh_ne c h.1
    simp [scan, modeStep, h1, h2, h3, h4, ih h.2]

theorem scan_ws (s : Str) (h : s.all isWs = true) : scan .code s = some .code := by
  induction s with
  | nil => simp [scan]
  | cons c r ih =>
    simp only [List.all_cons, Bool.and_eq_true] at h
    have hc := h.1
    simp only [isWs, Bool.or_eq_true, beq_iff_eq] at hc
    have : modeStep .code c = some .code := by
      rcases hc with ((((e | e) | e) | e) | e) | e <;> subst e <;> decide
    simp [scan, this, ih h.2]

theorem scan_tok (k : Tok) (hv : validTok k = true) : scan .code (renderTok k) = some .code := by
  cases k with
  | bad => simp [validTok] at hv
  | punct c =>
    simp only [validTok, Bool.not_eq_true', Bool.or_eq_false_iff, beq_eq_false_iff_ne] at hv
    obtain ⟨⟨⟨⟨⟨_, _⟩, h3⟩, h4⟩, h5⟩, h6⟩ := hv
    simp [renderTok, scan, modeStep, h3, h4, h5, h6]
  | str s =>
    have : renderTok (.str s) = ['\''] ++ (escQ '\'' s ++ ['\'']) := rfl
    rw [this]
    simp [scan_append, scan, modeStep, scan_str_esc]
  | qname s =>
    have : renderTok (.qname s) = ['"'] ++ (escQ '"' s ++ ['"']) := rfl
    rw [this]
    simp [scan_append, scan, modeStep, scan_id_esc]
  | word w =>
    cases w with
    | nil => simp [validTok, validWord] at hv
    | cons c r =>
      simp only [validTok, validWord, Bool.or_eq_true, Bool.and_eq_true, beq_iff_eq] at hv
      rcases hv with ⟨hc, hr⟩ | ⟨hc, hr⟩
      · exact scan_word_run (c :: r) (by simp [hc, hr])
      · subst hc
        cases r with
        | nil => simp at hr
        | cons d r' =>
          simp only [Bool.and_eq_true] at hr
          obtain ⟨h1, h2, h3, h4, _⟩ := wordCh_ne d (isWordCh_of_isDigitCh d hr.1)
          have := scan_word_run r' hr.2
          simp [renderTok, scan, modeStep, h1, h2, h3, h4, this]

theorem scan_pieces (ps : List Piece) : ∀ (nx : Option Char), WS nx ps = true → scan .code (flat ps) = some .code := by
  induction ps with
  | nil => intro _ _; simp [flat, scan]
  | cons a r ih =>
    intro nx h
    cases a with
    | sp s =>
      simp only [WS, Bool.and_eq_true] at h
      simp [flat, scan_append, scan_ws s h.1, ih nx h.2]
    | t k =>
      simp only [WS, Bool.and_eq_true] at h
      simp [flat, scan_append, scan_tok k h.1.1, ih nx h.2]

end Lemmas.Offline
