import Model.Offline.Split
/-! Helper lemmas for `C12.split`: how the splitter's state evolves over one closed statement,
over the terminator, and over a `-- …` comment line. -/
namespace Lemmas.Offline
open Model.Offline

theorem curOf_mk (m : Mode) (cur : Str) (out : List Str) :
    curOf ⟨m, cur, out⟩ = if m == Mode.dash then '-' :: cur else cur := rfl

/-- one character that neither cuts nor opens a comment is appended to the current text -/
theorem step_keep (st : SplitSt) (c : Char) (m' : Mode)
    (h : modeStep st.mode c = some m') (hne : curOf st ≠ [] ∨ isWs c = false) :
    (step st c).mode = m' ∧ curOf (step st c) = c :: curOf st ∧ (step st c).out = st.out := by
  obtain ⟨m, cur, out⟩ := st
  cases m
  · -- code
    simp only [modeStep] at h
    simp only [curOf_mk] at hne ⊢
    by_cases h1 : c = ';'
    · simp [h1] at h
    by_cases h2 : c = '\''
    · subst h2; simp at h; subst h; simp [step, codeStep, curOf]
    by_cases h3 : c = '"'
    · subst h3; simp at h; subst h; simp [step, codeStep, curOf]
    by_cases h4 : c = '-'
    · subst h4; simp at h; subst h; simp [step, codeStep, curOf]
    simp [h1, h2, h3, h4] at h; subst h
    have hw : (cur.isEmpty && isWs c) = false := by
      rcases hne with hne | hne
      · cases cur with
        | nil => simp at hne
        | cons a b => simp
      · simp [hne]
    simp [step, codeStep, curOf, h1, h2, h3, h4, hw]
  · -- dash
    simp only [modeStep] at h
    by_cases h0 : c = '-'
    · simp [h0] at h
    by_cases h1 : c = ';'
    · simp [h1] at h
    by_cases h2 : c = '\''
    · subst h2; simp at h; subst h; simp [step, codeStep, curOf]
    by_cases h3 : c = '"'
    · subst h3; simp at h; subst h; simp [step, codeStep, curOf]
    simp [h0, h1, h2, h3] at h; subst h
    simp [step, codeStep, curOf, h0, h1, h2, h3]
  · -- str
    simp only [modeStep] at h
    by_cases h2 : c = '\''
    · subst h2; simp at h; subst h; simp [step, curOf]
    · simp [h2] at h; subst h; simp [step, curOf, h2]
  · -- ident
    simp only [modeStep] at h
    by_cases h2 : c = '"'
    · subst h2; simp at h; subst h; simp [step, curOf]
    · simp [h2] at h; subst h; simp [step, curOf, h2]
  · simp [modeStep] at h

/-- a scanned text is appended to the current text, whatever it contains inside literals -/
theorem foldl_keep (s : Str) : ∀ (st : SplitSt) (m' : Mode),
    scan st.mode s = some m' →
    (curOf st ≠ [] ∨ headOk s = true) →
    (s.foldl step st).mode = m' ∧ curOf (s.foldl step st) = s.reverse ++ curOf st ∧
      (s.foldl step st).out = st.out := by
  induction s with
  | nil => intro st m' h _; simp [scan] at h; simp [h]
  | cons c r ih =>
    intro st m' h hne
    simp only [scan] at h
    cases hm : modeStep st.mode c with
    | none => simp [hm] at h
    | some m1 =>
      simp only [hm] at h
      have hne' : curOf st ≠ [] ∨ isWs c = false := by
        rcases hne with hne | hne
        · exact Or.inl hne
        · exact Or.inr (by simpa [headOk] using hne)
      obtain ⟨k1, k2, k3⟩ := step_keep st c m1 hm hne'
      have := ih (step st c) m' (by rw [k1]; exact h) (Or.inl (by rw [k2]; simp))
      obtain ⟨j1, j2, j3⟩ := this
      simp only [List.foldl_cons]
      refine ⟨j1, ?_, ?_⟩
      · rw [j2, k2]; simp
      · rw [j3, k3]

/-- a closed statement followed by `;\n\n` adds exactly that statement -/
theorem foldl_stmt (s : Str) (out : List Str) (h : Closed s = true) :
    (s ++ [';', '\n', '\n']).foldl step ⟨.code, [], out⟩ = ⟨.code, [], s :: out⟩ := by
  simp only [Closed, Bool.and_eq_true, beq_iff_eq] at h
  obtain ⟨h1, h2⟩ := h
  obtain ⟨k1, k2, k3⟩ := foldl_keep s ⟨.code, [], out⟩ .code h1 (Or.inr h2)
  rw [List.foldl_append]
  generalize hst : s.foldl step ⟨.code, [], out⟩ = st at k1 k2 k3
  obtain ⟨m, cur, o⟩ := st
  simp only at k1 k3
  subst k1; subst k3
  simp [curOf] at k2
  subst k2
  simp [step, codeStep, isWs]

theorem foldl_comment_body (c : Str) (cur : Str) (out : List Str) (h : noNewline c = true) :
    c.foldl step ⟨.comment, cur, out⟩ = ⟨.comment, cur, out⟩ := by
  induction c with
  | nil => rfl
  | cons a r ih =>
    simp only [noNewline, List.all_cons, Bool.and_eq_true, bne_iff_ne, ne_eq] at h
    have hr : noNewline r = true := by simpa [noNewline] using h.2
    simp [step, h.1, ih hr]

/-- a `-- …` line followed by a blank line adds nothing -/
theorem foldl_comment (c : Str) (out : List Str) (h : noNewline c = true) :
    ('-' :: '-' :: ' ' :: (c ++ ['\n', '\n'])).foldl step ⟨.code, [], out⟩ = ⟨.code, [], out⟩ := by
  simp only [List.foldl_cons, List.foldl_append]
  have h0 : step (step (step ⟨.code, [], out⟩ '-') '-') ' ' = ⟨.comment, [], out⟩ := by
    simp [step, codeStep]
  rw [h0, foldl_comment_body c [] out h]
  simp [step, codeStep, isWs]

theorem foldl_emit (items : List Item) : ∀ (out : List Str),
    (∀ i ∈ items, itemOk i = true) →
    (emit items).foldl step ⟨.code, [], out⟩ = ⟨.code, [], (stmtsOf items).reverse ++ out⟩ := by
  induction items with
  | nil => intro out _; simp [emit, stmtsOf]
  | cons i r ih =>
    intro out h
    have hi := h i (by simp)
    have hr : ∀ j ∈ r, itemOk j = true := fun j hj => h j (by simp [hj])
    simp only [emit, List.foldl_append]
    cases i with
    | stmt s =>
      simp only [itemOk] at hi
      simp only [emitItem]
      rw [foldl_stmt s out hi, ih _ hr]
      simp [stmtsOf]
    | comment c =>
      simp only [itemOk] at hi
      simp only [emitItem]
      rw [foldl_comment c out hi, ih _ hr]
      simp [stmtsOf]

end Lemmas.Offline
