import Model.Offline.Linear
import Lemmas.Offline.Run
/-! Linear plans satisfy `midOk` and `stepOk` (given `revOk` revisions). -/
namespace Lemmas.Offline
open Model.Offline

theorem midOk_up (revs : List Rev) : ∀ (prev : Option Str), midOk prev.toList (upSteps prev revs) = true := by
  induction revs with
  | nil => intro prev; cases prev <;> rfl
  | cons r rs ih =>
    intro prev
    cases prev with
    | none =>
      have := ih (some r.id)
      simp only [Option.toList] at this
      simp [upSteps, midOk, hmAll, hmStep, this]
    | some p =>
      have := ih (some r.id)
      simp only [Option.toList] at this
      simp only [upSteps, midOk, hmAll, hmStep, Option.toList, List.mem_singleton]
      by_cases e : r.id = p
      · simp [e]
      · simp [e, this]

theorem midOk_down (revs : List Rev) : ∀ (r : Rev) (tgt : Option Str),
    midOk [r.id] (downSteps (r :: revs) tgt) = true := by
  induction revs with
  | nil =>
    intro r tgt
    cases tgt with
    | none => simp [downSteps, midOk, hmAll, hmStep]
    | some t =>
      simp only [downSteps, midOk, hmAll, hmStep, List.mem_singleton]
      by_cases e : t = r.id <;> simp [e, midOk]
  | cons r' rs ih =>
    intro r tgt
    have := ih r' tgt
    simp only [downSteps, midOk, hmAll, hmStep, List.mem_singleton]
    by_cases e : r'.id = r.id
    · simp [e]
    · simp [e, this]

theorem escQ_id (v : Str) (h : noQuote v = true) : escQ '\'' v = v := by
  induction v with
  | nil => rfl
  | cons c r ih =>
    simp only [noQuote, List.all_cons, Bool.and_eq_true, bne_iff_ne, ne_eq] at h
    have hr : noQuote r = true := by simpa [noQuote] using h.2
    simp [escQ, h.1, ih hr]

theorem noTab_append (a b : Str) : noTab (a ++ b) = (noTab a && noTab b) := by simp [noTab]
theorem noNewline_append (a b : Str) : noNewline (a ++ b) = (noNewline a && noNewline b) := by simp [noNewline]

section
variable (q : Str → Bool)

theorem verOk_insert (v : Str) (h : idOk v = true) : verOk q (.insert v) = true := by
  simp only [idOk, Bool.and_eq_true] at h
  have e := escQ_id v h.1.1
  have ht : noTab v = true := h.1.2
  simp only [noTab] at ht
  simp [verOk, verStmt, stmtOk, stmtWf, h.1.1, renderStmt, stmtP, flat, renderTok, w, p, sp1, vtName, vtCol, e,
    noTab, ht, k_INSERT, k_INTO, k_alembic_version, k_version_num, k_VALUES, k_RETURNING]

theorem verOk_delete (v : Str) (h : idOk v = true) : verOk q (.delete v) = true := by
  simp only [idOk, Bool.and_eq_true] at h
  have e := escQ_id v h.1.1
  have ht : noTab v = true := h.1.2
  simp only [noTab] at ht
  simp [verOk, verStmt, stmtOk, stmtWf, h.1.1, renderStmt, stmtP, flat, renderTok, w, p, sp1, vtName, vtCol, e,
    noTab, ht, k_DELETE, k_FROM, k_alembic_version, k_version_num, k_WHERE]

theorem verOk_update (o n : Str) (ho : idOk o = true) (hn : idOk n = true) : verOk q (.update o n) = true := by
  simp only [idOk, Bool.and_eq_true] at ho hn
  have e1 := escQ_id o ho.1.1
  have e2 := escQ_id n hn.1.1
  have t1 : noTab o = true := ho.1.2
  have t2 : noTab n = true := hn.1.2
  simp only [noTab] at t1 t2
  simp [verOk, verStmt, stmtOk, stmtWf, ho.1.1, hn.1.1, renderStmt, stmtP, flat, renderTok, w, p, sp1, vtName, vtCol,
    e1, e2, noTab, t1, t2, k_UPDATE, k_SET, k_alembic_version, k_version_num, k_WHERE]

omit q in
theorem noNewline_shortLog (name : Str) (a b : Option Str) (hn : noNewline name = true)
    (ha : ∀ x, a = some x → idOk x = true) (hb : ∀ x, b = some x → idOk x = true) :
    noNewline (shortLog name a b) = true := by
  have h1 : noNewline (a.getD []) = true := by
    cases a with
    | none => rfl
    | some x => have := ha x rfl; simp only [idOk, Bool.and_eq_true] at this; exact this.2
  have h2 : noNewline (b.getD []) = true := by
    cases b with
    | none => rfl
    | some x => have := hb x rfl; simp only [idOk, Bool.and_eq_true] at this; exact this.2
  simp only [shortLog, noNewline_append, hn, h1, h2, Bool.and_true, Bool.true_and]
  decide

theorem stepOk_up (revs : List Rev) : ∀ (prev : Option Str), (∀ p, prev = some p → idOk p = true) →
    revs.all (revOk q) = true → (upSteps prev revs).all (stepOk q) = true := by
  induction revs with
  | nil => intro prev _ _; cases prev <;> rfl
  | cons r rs ih =>
    intro prev hp h
    simp only [List.all_cons, Bool.and_eq_true, revOk] at h
    obtain ⟨⟨⟨hid, hup⟩, _⟩, hrs⟩ := h
    have hrest := ih (some r.id) (fun p e => by cases e; exact hid) hrs
    cases prev with
    | none =>
      have hl := noNewline_shortLog k_upgrade none (some r.id) (by decide) (by simp) (fun x e => by cases e; exact hid)
      simp [upSteps, stepOk, hl, hup, verOk_insert q r.id hid, hrest]
    | some p =>
      have hpid := hp p rfl
      have hl := noNewline_shortLog k_upgrade (some p) (some r.id) (by decide)
        (fun x e => by cases e; exact hpid) (fun x e => by cases e; exact hid)
      simp [upSteps, stepOk, hl, hup, verOk_update q p r.id hpid hid, hrest]

theorem stepOk_down (revs : List Rev) : ∀ (r : Rev) (tgt : Option Str), (∀ t, tgt = some t → idOk t = true) →
    (r :: revs).all (revOk q) = true → (downSteps (r :: revs) tgt).all (stepOk q) = true := by
  induction revs with
  | nil =>
    intro r tgt ht h
    simp only [List.all_cons, List.all_nil, Bool.and_true, revOk, Bool.and_eq_true] at h
    obtain ⟨⟨hid, _⟩, hdn⟩ := h
    cases tgt with
    | none =>
      have hl := noNewline_shortLog k_downgrade (some r.id) none (by decide) (fun x e => by cases e; exact hid) (by simp)
      simp [downSteps, stepOk, hl, hdn, verOk_delete q r.id hid]
    | some t =>
      have htid := ht t rfl
      have hl := noNewline_shortLog k_downgrade (some r.id) (some t) (by decide)
        (fun x e => by cases e; exact hid) (fun x e => by cases e; exact htid)
      simp [downSteps, stepOk, hl, hdn, verOk_update q r.id t hid htid]
  | cons r' rs ih =>
    intro r tgt ht h
    have h' := h
    simp only [List.all_cons, Bool.and_eq_true, revOk] at h
    obtain ⟨⟨⟨hid, _⟩, hdn⟩, ⟨⟨⟨hid', _⟩, _⟩, _⟩⟩ := h
    have hrest := ih r' tgt ht (by simp only [List.all_cons, Bool.and_eq_true] at h' ⊢; exact h'.2)
    have hl := noNewline_shortLog k_downgrade (some r.id) (some r'.id) (by decide)
      (fun x e => by cases e; exact hid) (fun x e => by cases e; exact hid')
    simp only [downSteps, List.all_cons, Bool.and_eq_true]
    exact ⟨by simp [stepOk, hl, hdn, verOk_update q r.id r'.id hid hid'], hrest⟩

end
end Lemmas.Offline
