import Lemmas.Offline.Render
/-! The statement recogniser reads every rendered statement of the language back as itself
(token level), for all names and values. -/
namespace Lemmas.Offline
open Model.Offline

theorem toks_append (a b : List Piece) : toks (a ++ b) = toks a ++ toks b := by
  induction a with
  | nil => rfl
  | cons x r ih => cases x <;> simp [toks, ih]

/-! ## cutting token lists -/

theorem splitAt_notin (sep : Tok) (l : List Tok) (h : ∀ a ∈ l, a ≠ sep) : splitAt sep l = [l] := by
  induction l with
  | nil => rfl
  | cons a r ih =>
    have ha : a ≠ sep := h a (by simp)
    have hr := ih (fun x hx => h x (by simp [hx]))
    simp [splitAt, ha, hr]

theorem splitAt_sep (sep : Tok) (a b : List Tok) (h : ∀ x ∈ a, x ≠ sep) :
    splitAt sep (a ++ sep :: b) = a :: splitAt sep b := by
  induction a with
  | nil => simp [splitAt]
  | cons x r ih =>
    have hx : x ≠ sep := h x (by simp)
    have hr := ih (fun y hy => h y (by simp [hy]))
    simp [splitAt, hx, hr]

theorem mapOpt_map {α β : Type} (f : α → Option β) (g : β → α) (l : List β) (h : ∀ x ∈ l, f (g x) = some x) :
    mapOpt f (l.map g) = some l := by
  induction l with
  | nil => rfl
  | cons x r ih =>
    have hx := h x (by simp)
    have hr := ih (fun y hy => h y (by simp [hy]))
    simp [mapOpt, hx, hr]

theorem toks_commaP_cons2 (a b : Tok) (r : List Tok) :
    toks (commaP (a :: b :: r)) = a :: comma :: toks (commaP (b :: r)) := by
  simp [commaP, toks, p, sp1, comma]

theorem mem_toks_commaP (l : List Tok) : ∀ x ∈ toks (commaP l), x ∈ l ∨ x = comma := by
  induction l with
  | nil => intro x hx; simp [commaP, toks] at hx
  | cons a r ih =>
    cases r with
    | nil => intro x hx; simp [commaP, toks] at hx; simp [hx]
    | cons b r' =>
      intro x hx
      rw [toks_commaP_cons2] at hx
      simp only [List.mem_cons] at hx
      rcases hx with e | e | e
      · simp [e]
      · simp [e]
      · rcases ih x e with h | h
        · left; simp only [List.mem_cons] at h ⊢; right; exact h
        · right; exact h

theorem splitAt_commaP (l : List Tok) (hne : l ≠ []) (h : ∀ a ∈ l, a ≠ comma) :
    splitAt comma (toks (commaP l)) = l.map (fun a => [a]) := by
  induction l with
  | nil => exact absurd rfl hne
  | cons a r ih =>
    have ha : a ≠ comma := h a (by simp)
    cases r with
    | nil => simp [commaP, toks, splitAt, ha]
    | cons b r' =>
      have := ih (by simp) (fun x hx => h x (by simp [hx]))
      rw [toks_commaP_cons2]
      simp [splitAt, ha, this]

section
variable (q : Str → Bool)

theorem nameOf_nameTok (n : Str) : nameOf (nameTok q n) = some n := by
  unfold nameTok; split <;> rfl

theorem nameTok_ne_punct (n : Str) (c : Char) : nameTok q n ≠ .punct c := by
  unfold nameTok; split <;> simp

theorem nameTok_ne_word (n k : Str) (h : n ≠ k) : nameTok q n ≠ .word k := by
  unfold nameTok; split
  · simp
  · simpa using h

theorem litTok_ne_punct (v : Val) (c : Char) : litTok v ≠ .punct c := by
  cases v <;> simp [litTok]

theorem litOf_litTok (v : Val) : litOf (litTok v) = some v := by
  cases v with
  | null => simp [litTok, litOf]
  | str s => rfl
  | int i =>
    have h := parseInt_renderInt i
    have hne : renderInt i ≠ k_NULL := by
      cases i with
      | ofNat n => exact natDigits_ne_NULL n
      | negSucc n => simp [renderInt, k_NULL]
    simp [litTok, litOf, hne, h]

/-! ## column specifications -/

theorem parseCol_colP (c : Col) : parseCol (toks (colP q c)) = some c := by
  obtain ⟨name, ty, nullable⟩ := c
  have hn := nameOf_nameTok q name
  cases ty <;> cases nullable <;>
    simp [colP, tyP, toks, w, p, sp1, parseCol, hn, tyOfWord, parseNat_natDigits, k_INTEGER, k_TEXT]

theorem comma_notin_colP (c : Col) : ∀ x ∈ toks (colP q c), x ≠ comma := by
  obtain ⟨name, ty, nullable⟩ := c
  have hn := nameTok_ne_punct q name ','
  intro x hx e
  subst e
  cases ty <;> cases nullable <;>
    simp [colP, tyP, toks, w, p, sp1, comma] at hx <;> exact hn hx.symm

theorem splitAt_colsP (cols : List Col) (hne : cols ≠ []) :
    splitAt comma (toks (colsP q cols)) = cols.map (fun c => toks (colP q c)) := by
  induction cols with
  | nil => exact absurd rfl hne
  | cons c r ih =>
    cases r with
    | nil => simp [colsP, splitAt_notin comma _ (comma_notin_colP q c)]
    | cons d r' =>
      have := ih (by simp)
      have e : toks (colsP q (c :: d :: r')) = toks (colP q c) ++ comma :: toks (colsP q (d :: r')) := by
        simp [colsP, toks_append, toks, p, spCol, comma]
      rw [e, splitAt_sep comma _ _ (comma_notin_colP q c), this]
      simp

/-! ## the version-table candidates do not capture user statements -/

theorem vt_none (k1 k2 : Str) (x : Tok) (rest : List Tok)
    (h1 : ¬ (k1 = k_CREATE ∧ k2 = k_TABLE ∧ x = .word k_alembic_version))
    (h2 : ¬ (k1 = k_DROP ∧ k2 = k_TABLE ∧ x = .word k_alembic_version))
    (h3 : ¬ (k1 = k_INSERT ∧ k2 = k_INTO ∧ x = .word k_alembic_version))
    (h4 : k1 ≠ k_UPDATE) (h5 : k1 ≠ k_DELETE) :
    (vtCandidates (.word k1 :: .word k2 :: x :: rest)).find?
      (fun c => toks (stmtP q c) == (.word k1 :: .word k2 :: x :: rest)) = none := by
  rw [List.find?_eq_none]
  intro c hc
  simp only [vtCandidates, List.mem_cons, List.not_mem_nil, or_false] at hc
  simp only [beq_iff_eq]
  rcases hc with e | e | e | e | e <;> subst e <;> intro he <;>
    simp only [stmtP, toks, w, p, sp1, spCol, spNl, vtName, vtCol, List.cons.injEq, Tok.word.injEq] at he
  · exact h1 ⟨he.1.symm, he.2.1.symm, he.2.2.1.symm⟩
  · exact h2 ⟨he.1.symm, he.2.1.symm, he.2.2.1.symm⟩
  · exact h3 ⟨he.1.symm, he.2.1.symm, he.2.2.1.symm⟩
  · exact h4 he.1.symm
  · exact h5 he.1.symm

/-- accepted guesses -/
theorem parseToks_of_guess (s : Stmt) (k1 k2 : Str) (x : Tok) (rest : List Tok)
    (hts : toks (stmtP q s) = .word k1 :: .word k2 :: x :: rest)
    (h1 : ¬ (k1 = k_CREATE ∧ k2 = k_TABLE ∧ x = .word k_alembic_version))
    (h2 : ¬ (k1 = k_DROP ∧ k2 = k_TABLE ∧ x = .word k_alembic_version))
    (h3 : ¬ (k1 = k_INSERT ∧ k2 = k_INTO ∧ x = .word k_alembic_version))
    (h4 : k1 ≠ k_UPDATE) (h5 : k1 ≠ k_DELETE)
    (hg : guess (.word k1 :: .word k2 :: x :: rest) = some s) :
    parseToks q (toks (stmtP q s)) = some s := by
  rw [parseToks, hts, vt_none q k1 k2 x rest h1 h2 h3 h4 h5, hg]
  simp [check, hts]

theorem parse_dropTable (t : Str) (h : t ≠ k_alembic_version) :
    parseToks q (toks (stmtP q (.dropTable t))) = some (.dropTable t) := by
  have hne := nameTok_ne_word q t _ h
  refine parseToks_of_guess q _ k_DROP k_TABLE (nameTok q t) [] (by simp [stmtP, toks, w, sp1])
    (by simp [k_DROP, k_CREATE]) (by simp [hne]) (by simp [k_DROP, k_INSERT]) (by simp [k_DROP, k_UPDATE])
    (by simp [k_DROP, k_DELETE]) ?_
  simp [guess, nameOf_nameTok, k_DROP, k_CREATE, k_TABLE]

theorem parse_dropIndex (ix : Str) :
    parseToks q (toks (stmtP q (.dropIndex ix))) = some (.dropIndex ix) := by
  refine parseToks_of_guess q _ k_DROP k_INDEX (nameTok q ix) [] (by simp [stmtP, toks, w, sp1])
    (by simp [k_DROP, k_CREATE]) (by simp [k_INDEX, k_TABLE]) (by simp [k_DROP, k_INSERT]) (by simp [k_DROP, k_UPDATE])
    (by simp [k_DROP, k_DELETE]) ?_
  simp [guess, nameOf_nameTok, k_DROP, k_CREATE, k_TABLE, k_INDEX]

theorem parse_addColumn (t : Str) (c : Col) :
    parseToks q (toks (stmtP q (.addColumn t c))) = some (.addColumn t c) := by
  refine parseToks_of_guess q _ k_ALTER k_TABLE (nameTok q t) (.word k_ADD :: .word k_COLUMN :: toks (colP q c))
    (by simp [stmtP, toks, toks_append, w, sp1])
    (by simp [k_ALTER, k_CREATE]) (by simp [k_ALTER, k_DROP]) (by simp [k_ALTER, k_INSERT]) (by simp [k_ALTER, k_UPDATE])
    (by simp [k_ALTER, k_DELETE]) ?_
  simp [guess, nameOf_nameTok, parseCol_colP, k_ALTER, k_CREATE, k_DROP, k_TABLE]

theorem parse_createTable (t : Str) (cols : List Col) (h : t ≠ k_alembic_version) (hc : cols ≠ []) :
    parseToks q (toks (stmtP q (.createTable t cols))) = some (.createTable t cols) := by
  have hne := nameTok_ne_word q t _ h
  refine parseToks_of_guess q _ k_CREATE k_TABLE (nameTok q t) (.punct '(' :: (toks (colsP q cols) ++ [.punct ')']))
    (by simp [stmtP, toks, toks_append, w, p, sp1, spNl])
    (by simp [hne]) (by simp [k_CREATE, k_DROP]) (by simp [k_CREATE, k_INSERT]) (by simp [k_CREATE, k_UPDATE])
    (by simp [k_CREATE, k_DELETE]) ?_
  have hm := mapOpt_map parseCol (fun c => toks (colP q c)) cols (fun c _ => parseCol_colP q c)
  simp [guess, nameOf_nameTok, List.dropLast_concat, splitAt_colsP q cols hc, hm]

theorem parse_createIndex (ix t : Str) (cols : List Str) (hc : cols ≠ []) :
    parseToks q (toks (stmtP q (.createIndex ix t cols))) = some (.createIndex ix t cols) := by
  refine parseToks_of_guess q _ k_CREATE k_INDEX (nameTok q ix)
    (.word k_ON :: nameTok q t :: .punct '(' :: (toks (commaP (cols.map (nameTok q))) ++ [.punct ')']))
    (by simp [stmtP, toks, toks_append, w, p, sp1])
    (by simp [k_INDEX, k_TABLE]) (by simp [k_CREATE, k_DROP]) (by simp [k_CREATE, k_INSERT]) (by simp [k_CREATE, k_UPDATE])
    (by simp [k_CREATE, k_DELETE]) ?_
  have hs := splitAt_commaP (cols.map (nameTok q)) (by simpa using hc)
    (by intro a ha; simp only [List.mem_map] at ha; obtain ⟨n, _, e⟩ := ha; rw [← e]; exact nameTok_ne_punct q n ',')
  have hm := mapOpt_map (one nameOf) (fun n => [nameTok q n]) cols (fun n _ => by simp [one, nameOf_nameTok])
  simp only [List.map_map] at hs
  have hm' : mapOpt (one nameOf) (List.map ((fun a => [a]) ∘ nameTok q) cols) = some cols := hm
  simp [guess, nameOf_nameTok, List.dropLast_concat, hs, hm', k_CREATE, k_TABLE, k_INDEX, k_DROP, k_ALTER]

theorem parse_insert (t : Str) (cols : List Str) (vals : List Val) (h : t ≠ k_alembic_version)
    (hc : cols ≠ []) (hv : vals ≠ []) :
    parseToks q (toks (stmtP q (.insert t cols vals))) = some (.insert t cols vals) := by
  have hne := nameTok_ne_word q t _ h
  refine parseToks_of_guess q _ k_INSERT k_INTO (nameTok q t)
    (.punct '(' :: (toks (commaP (cols.map (nameTok q))) ++
      (rparen :: .word k_VALUES :: .punct '(' :: (toks (commaP (vals.map litTok)) ++ [rparen]))))
    (by simp [stmtP, toks, toks_append, w, p, sp1, rparen])
    (by simp [k_INSERT, k_CREATE]) (by simp [k_INSERT, k_DROP]) (by simp [hne]) (by simp [k_INSERT, k_UPDATE])
    (by simp [k_INSERT, k_DELETE]) ?_
  -- the name list and the value list contain no `)`
  have hn1 : ∀ x ∈ toks (commaP (cols.map (nameTok q))), x ≠ rparen := by
    intro x hx e
    rcases mem_toks_commaP _ x hx with h | h
    · simp only [List.mem_map] at h; obtain ⟨n, _, e'⟩ := h; exact nameTok_ne_punct q n ')' (by rw [e', e]; rfl)
    · rw [e] at h; simp [rparen, comma] at h
  have hn2 : ∀ x ∈ (Tok.word k_VALUES :: Tok.punct '(' :: toks (commaP (vals.map litTok))), x ≠ rparen := by
    intro x hx e
    simp only [List.mem_cons] at hx
    rcases hx with h | h | h
    · rw [e] at h; simp [rparen] at h
    · rw [e] at h; simp [rparen] at h
    · rcases mem_toks_commaP _ x h with h | h
      · simp only [List.mem_map] at h; obtain ⟨n, _, e'⟩ := h; exact litTok_ne_punct n ')' (by rw [e', e]; rfl)
      · rw [e] at h; simp [rparen, comma] at h
  have hsplit : splitAt rparen (toks (commaP (cols.map (nameTok q))) ++
      (rparen :: .word k_VALUES :: .punct '(' :: (toks (commaP (vals.map litTok)) ++ [rparen]))) =
      [toks (commaP (cols.map (nameTok q))), .word k_VALUES :: .punct '(' :: toks (commaP (vals.map litTok)), []] := by
    rw [splitAt_sep rparen _ _ hn1]
    have : (Tok.word k_VALUES :: Tok.punct '(' :: (toks (commaP (vals.map litTok)) ++ [rparen])) =
        (Tok.word k_VALUES :: Tok.punct '(' :: toks (commaP (vals.map litTok))) ++ rparen :: [] := by simp
    rw [this, splitAt_sep rparen _ _ hn2]
    simp [splitAt]
  have hs1 := splitAt_commaP (cols.map (nameTok q)) (by simpa using hc)
    (by intro a ha; simp only [List.mem_map] at ha; obtain ⟨n, _, e⟩ := ha; rw [← e]; exact nameTok_ne_punct q n ',')
  have hs2 := splitAt_commaP (vals.map litTok) (by simpa using hv)
    (by intro a ha; simp only [List.mem_map] at ha; obtain ⟨n, _, e⟩ := ha; rw [← e]; exact litTok_ne_punct n ',')
  simp only [List.map_map] at hs1 hs2
  have hm1 : mapOpt (one nameOf) (List.map ((fun a => [a]) ∘ nameTok q) cols) = some cols :=
    mapOpt_map (one nameOf) (fun n => [nameTok q n]) cols (fun n _ => by simp [one, nameOf_nameTok])
  have hm2 : mapOpt (one litOf) (List.map ((fun a => [a]) ∘ litTok) vals) = some vals :=
    mapOpt_map (one litOf) (fun v => [litTok v]) vals (fun v _ => by simp [one, litOf_litTok])
  simp [guess, nameOf_nameTok, hsplit, hs1, hs2, hm1, hm2, k_INSERT, k_INTO, k_CREATE, k_TABLE, k_INDEX, k_DROP, k_ALTER]

/-- the version-table statements are read back as themselves -/
theorem parse_vt (hq : BareSafe q) (s : Stmt) (hv : isVt s = true) : parseStmt q (renderStmt q s) = s := by
  have hl := lex_stmtP q hq s
  cases s <;> simp [isVt] at hv <;> simp only [renderStmt] at * <;>
    simp only [parseStmt, hl] <;>
    simp [parseToks, vtCandidates, stmtP, toks, w, p, sp1, spCol, spNl, vtName, vtCol, strAt]

/-- **statement round trip**: every well-formed statement of the language is read back as itself -/
theorem parse_render (hq : BareSafe q) (s : Stmt) (h : stmtWf s = true) : parseStmt q (renderStmt q s) = s := by
  have hl := lex_stmtP q hq s
  cases s with
  | other t => simp [stmtWf] at h
  | vtCreate => exact parse_vt q hq _ rfl
  | vtDrop => exact parse_vt q hq _ rfl
  | vtInsert v => exact parse_vt q hq _ rfl
  | vtUpdate o n => exact parse_vt q hq _ rfl
  | vtDelete v => exact parse_vt q hq _ rfl
  | createTable t cols =>
    simp only [stmtWf, Bool.and_eq_true, bne_iff_ne, ne_eq, Bool.not_eq_true', List.isEmpty_eq_false_iff] at h
    simp only [renderStmt, parseStmt, hl, parse_createTable q t cols h.1 h.2]
  | dropTable t =>
    simp only [stmtWf, bne_iff_ne, ne_eq] at h
    simp only [renderStmt, parseStmt, hl, parse_dropTable q t h]
  | addColumn t c => simp only [renderStmt, parseStmt, hl, parse_addColumn q t c]
  | createIndex ix t cols =>
    simp only [stmtWf, Bool.not_eq_true', List.isEmpty_eq_false_iff] at h
    simp only [renderStmt, parseStmt, hl, parse_createIndex q ix t cols h]
  | dropIndex ix => simp only [renderStmt, parseStmt, hl, parse_dropIndex q ix]
  | insert t cols vals =>
    simp only [stmtWf, Bool.and_eq_true, bne_iff_ne, ne_eq, Bool.not_eq_true', List.isEmpty_eq_false_iff, beq_iff_eq] at h
    have hv : vals ≠ [] := by
      intro e; subst e
      have := h.2; simp at this; exact h.1.2 this
    simp only [renderStmt, parseStmt, hl, parse_insert q t cols vals h.1.1 h.1.2 hv]

end
end Lemmas.Offline
