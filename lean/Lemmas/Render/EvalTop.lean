import Lemmas.Render.EvalTable
import Lemmas.Render.Wf
/-! Round trip of the containers (`ModifyTableOps`, `with op.batch_alter_table(...)`). -/
namespace Model.Render
open Model.Py Spec.Render

theorem evalHeader_batchHeader (c : Ctx) (table : Str) (schema : Option Str) :
    evalHeader c (batchHeader c table schema) = some (table, schema) := by
  simp +decide [evalHeader, batchHeader, posArgs, kwArg, pos, kw, evalOptStr_optStr]

theorem evalBody_exprs (ec : ECtx) (ops : List Op) (h : ∀ o ∈ ops, evalOkT o = true) (tail : List Line)
    (ht : evalBody ec tail = some []) :
    evalBody ec (ops.map (fun o => Line.expr (renderOp ec.c o)) ++ tail) = some (ops.map (normalizeT ec)) := by
  induction ops with
  | nil => simpa using ht
  | cons o os ih =>
    have ih' := ih (fun x hx => h x (by simp [hx]))
    simp only [List.map_cons, List.cons_append, evalBody, evalCallT_renderOp ec o (h o (by simp)), ih']

/-- **containers**: evaluating the lines rendered for a top-level operation gives back its member operations, in order -/
theorem evalLines_renderTop (c : Ctx) (asBatch : Bool) (t : Top) (h : ∀ o ∈ topOps t, evalOkT o = true) :
    evalLines c (renderTop c asBatch t) = some (normTop c asBatch t) := by
  cases t with
  | single o =>
    have := evalBody_exprs { c := { c with batch := false }, table := [], schema := none } [o]
      (by intro x hx; exact h x (by simpa [topOps] using hx)) [] rfl
    simpa [renderTop, evalLines, normTop] using this
  | modify table schema ops =>
    cases ops with
    | nil => cases asBatch <;> simp [renderTop, evalLines, evalBody, normTop]
    | cons o os =>
      cases asBatch with
      | false =>
        have := evalBody_exprs { c := { c with batch := false }, table := [], schema := none } (o :: os)
          (by intro x hx; exact h x (by simpa [topOps] using hx)) [] rfl
        simp only [List.append_nil, List.map_cons] at this
        simp only [renderTop, Bool.false_eq_true, ↓reduceIte, List.map_cons, evalLines, normTop]
        exact this
      | true =>
        have := evalBody_exprs { c := { c with batch := true }, table := table, schema := schema } (o :: os)
          (by intro x hx; exact h x (by simpa [topOps] using hx)) [Line.blank] rfl
        simp only [List.map_cons] at this
        simp only [renderTop, ↓reduceIte, List.map_cons, List.cons_append, List.nil_append, evalLines,
          evalHeader_batchHeader, normTop]
        exact this

end Model.Render

namespace Model.Render
open Model.Py Spec.Render

theorem lineAsts_exprs {α : Type} (f : α → PyAst) (l : List α) (tail : List Line) :
    lineAsts (l.map (fun o => Line.expr (f o)) ++ tail) = l.map f ++ lineAsts tail := by
  induction l with
  | nil => rfl
  | cons x l ih => simp [lineAsts, ih]

theorem wf_batchHeader (c : Ctx) (h : ctxOk c = true) (table : Str) (schema : Option Str) :
    wf true (batchHeader c table schema) = true := by
  have hp : c.opPrefix.all wordChar = true := by simp [ctxOk] at h; simpa using h.1
  simp only [batchHeader, wf, Bool.and_eq_true]
  exact ⟨⟨⟨validWord_prefix _ _ hp (by decide), layout_ok_inline⟩, by simp [Layout.inline]⟩,
    by simp [wfItems, wfItem, pos, kw, wf, wf_optStr]; decide⟩

/-- the expressions of a rendered top-level operation are the header (batch) followed by the renderings of the members, in order -/
theorem lineAsts_renderTop (c : Ctx) (asBatch : Bool) (table : Str) (schema : Option Str) (o : Op) (os : List Op) :
    lineAsts (renderTop c asBatch (.modify table schema (o :: os))) =
      (if asBatch then [batchHeader c table schema] else []) ++
        (o :: os).map (renderOp { c with batch := asBatch }) := by
  cases asBatch with
  | false =>
    have := lineAsts_exprs (renderOp { c with batch := false }) (o :: os) []
    simpa [renderTop, lineAsts] using this
  | true =>
    have := lineAsts_exprs (renderOp { c with batch := true }) (o :: os) [Line.blank]
    simpa [renderTop, lineAsts] using this

end Model.Render
