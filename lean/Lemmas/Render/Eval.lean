import Spec.Render
/-! Evaluation round trip: `evalCall ec (renderOp ec.c o) = some (normalize ec o)`, directive by directive. -/
namespace Model.Render
open Model.Py Spec.Render


theorem posArgs_append (xs ys : List Item) : posArgs (xs ++ ys) = posArgs xs ++ posArgs ys := by
  induction xs with
  | nil => rfl
  | cons x xs ih => obtain ⟨k, v⟩ := x; cases k <;> simp [posArgs, ih]

def orElse' (a b : Option PyAst) : Option PyAst := match a with | some v => some v | none => b

theorem kwArg_append (n : Str) (xs ys : List Item) : kwArg n (xs ++ ys) = orElse' (kwArg n xs) (kwArg n ys) := by
  induction xs with
  | nil => rfl
  | cons x xs ih =>
    obtain ⟨k, v⟩ := x
    cases k with
    | none => simp [kwArg, ih]
    | some k => simp only [List.cons_append, kwArg]; split <;> simp [orElse', ih]

theorem otherKw_append (kn : List Str) (xs ys : List Item) : otherKw kn (xs ++ ys) = otherKw kn xs ++ otherKw kn ys := by
  induction xs with
  | nil => rfl
  | cons x xs ih =>
    obtain ⟨k, v⟩ := x
    cases k with
    | none => simp [otherKw, ih]
    | some k => simp only [List.cons_append, otherKw]; split <;> simp [ih]

@[simp] theorem posArgs_optItem (k : String) (v : Option PyAst) : posArgs (optItem k v) = [] := by
  cases v <;> simp [optItem, posArgs, kw]
theorem kwArg_optItem (n : Str) (k : String) (v : Option PyAst) : kwArg n (optItem k v) = if S k = n then v else none := by
  cases v <;> simp [optItem, kwArg, kw]
theorem otherKw_optItem (kn : List Str) (k : String) (v : Option PyAst) (h : kn.contains (S k) = true) :
    otherKw kn (optItem k v) = [] := by
  simp at h
  cases v <;> simp [optItem, otherKw, kw, h]

@[simp] theorem orElse'_none (b : Option PyAst) : orElse' none b = b := rfl
@[simp] theorem orElse'_some (v : PyAst) (b : Option PyAst) : orElse' (some v) b = some v := rfl
@[simp] theorem orElse'_none_right (a : Option PyAst) : orElse' a none = a := by cases a <;> rfl

theorem stripPrefix_append (p w : Str) : stripPrefix p (p ++ w) = some w := by
  simp [stripPrefix]

theorem dir_dropTable : directiveOf (S "drop_table") = some .dropTable := by decide

/-- Python truthiness normal form of a schema -/
theorem kwArg_schemaKw (s : Option Str) : kwArg (S "schema") (schemaKw s) = (truthy s).map .str := by
  simp [schemaKw, kwArg_optItem]

theorem evalBool_pyBool (b : Bool) : evalBool (pyBool b) = some b := by cases b <;> decide

theorem kwOpt_str (items : List Item) (n : String) (v : Option Str) (h : kwArg (S n) items = v.map .str) :
    kwOpt items n evalStr = some v := by
  cases v <;> simp_all [kwOpt, kwOptV, evalStr]

theorem kwOpt_bool (items : List Item) (n : String) (v : Option Bool) (h : kwArg (S n) items = v.map pyBool) :
    kwOpt items n evalBool = some v := by
  cases v <;> simp_all [kwOpt, kwOptV, evalBool_pyBool]

@[simp] theorem posArgs_kwItems (l : Kw) : posArgs (kwItems l) = [] := by
  induction l with
  | nil => rfl
  | cons p l ih => simpa [kwItems, posArgs] using ih

theorem kwArg_kwItems (n : Str) (l : Kw) (kn : List Str) (hf : kwFresh kn l = true) (hn : kn.contains n = true) :
    kwArg n (kwItems l) = none := by
  induction l with
  | nil => rfl
  | cons p l ih =>
    simp [kwFresh] at hf ih hn
    have : ¬ p.1 = n := fun e => hf.1 (e ▸ hn)
    simp [kwItems, kwArg, this]
    simpa [kwItems] using ih hf.2

theorem otherKw_kwItems (l : Kw) (kn : List Str) (hf : kwFresh kn l = true) : otherKw kn (kwItems l) = l := by
  induction l with
  | nil => rfl
  | cons p l ih =>
    simp [kwFresh] at hf ih
    have := ih hf.2
    simp [kwItems] at this
    simp [kwItems, otherKw, hf.1, this]

theorem evalGenName_genName (c : Ctx) (n : GenName) : evalGenName c (genName c n) = some n := by
  cases n with
  | none => simp +decide [genName, pyNone, evalGenName]
  | plain s => simp [genName, evalGenName]
  | conv s => simp [genName, evalGenName, pos]


theorem kwFresh_sub (kn kn' : List Str) (l : Kw) (h : kn'.all (fun k => kn.contains k) = true)
    (hf : kwFresh kn l = true) : kwFresh kn' l = true := by
  simp only [kwFresh, List.all_eq_true, Bool.not_eq_true'] at hf h ⊢
  intro p hp
  cases hc : kn'.contains p.1 with
  | false => rfl
  | true =>
    have h1 : p.1 ∈ kn' := by simpa using hc
    have := h _ h1
    have := hf p hp
    simp_all

theorem evalStrList_strList (l : List Str) : evalStrList (strList l) = some l := by
  simp only [strList, evalStrList]
  induction l with
  | nil => rfl
  | cons s l ih =>
    simp [pos] at ih
    simp [pos, ih]

theorem evalIdxElems_ok (elems : List IdxElem)
    (h : elems.all (fun e => match e with | .col _ => true | .expr e => notStr e) = true) :
    evalIdxElems (.list (elems.map idxElem)) = some elems := by
  simp only [evalIdxElems]
  induction elems with
  | nil => rfl
  | cons e l ih =>
    simp only [List.all_cons, Bool.and_eq_true] at h
    cases e with
    | col n => simp [List.mapM_cons, idxElem, pos, ih h.2]
    | expr x =>
      have hx := h.1
      cases x <;> simp_all [List.mapM_cons, idxElem, pos, notStr]

theorem evalOptStr_optStr (s : Option Str) : evalOptStr (optStr s) = some s := by
  cases s <;> simp +decide [optStr, evalOptStr, pyNone]

theorem isPyNone_pyNone : isPyNone pyNone = true := by decide

theorem dir_addColumn : directiveOf (S "add_column") = some .addColumn := by decide
theorem dir_dropColumn : directiveOf (S "drop_column") = some .dropColumn := by decide
theorem dir_alterColumn : directiveOf (S "alter_column") = some .alterColumn := by decide
theorem dir_createIndex : directiveOf (S "create_index") = some .createIndex := by decide
theorem dir_dropIndex : directiveOf (S "drop_index") = some .dropIndex := by decide
theorem dir_createUnique : directiveOf (S "create_unique_constraint") = some .createUnique := by decide
theorem dir_createFK : directiveOf (S "create_foreign_key") = some .createFK := by decide
theorem dir_dropConstraint : directiveOf (S "drop_constraint") = some .dropConstraint := by decide
theorem dir_createTableComment : directiveOf (S "create_table_comment") = some .createTableComment := by decide
theorem dir_dropTableComment : directiveOf (S "drop_table_comment") = some .dropTableComment := by decide

theorem eval_dropTable (ec : ECtx) (name : Str) (schema : Option Str) (ie : Option Bool) :
    evalCall ec (renderOp ec.c (.dropTable name schema ie)) = some (normalize ec (.dropTable name schema ie)) := by
  simp only [renderOp, normalize, evalCall, stripPrefix_append, dir_dropTable]
  simp +decide [evalDropTable, kwOpt, kwOptV, posArgs_append, posArgs, kwArg_append, kwArg, kwArg_optItem, pos, schemaKw]
  cases truthy schema <;> cases ie <;> simp [evalStr, evalBool_pyBool]

theorem eval_dropColumn (ec : ECtx) (table : Str) (schema : Option Str) (col : Str) :
    evalCall ec (renderOp ec.c (.dropColumn table schema col)) = some (normalize ec (.dropColumn table schema col)) := by
  simp only [renderOp, normalize]
  cases hb : ec.c.batch <;> simp only [↓reduceIte, Bool.false_eq_true, evalCall, stripPrefix_append, dir_dropColumn]
  · simp +decide [evalDropColumn, hb, kwOpt, kwOptV, posArgs_append, posArgs, kwArg_append, kwArg, kwArg_optItem, pos, schemaKw]
    cases truthy schema <;> simp [evalStr]
  · simp [evalDropColumn, hb, posArgs, pos]

theorem eval_dropConstraint (ec : ECtx) (name : GenName) (table : Str) (schema type_ : Option Str) :
    evalCall ec (renderOp ec.c (.dropConstraint name table schema type_)) =
      some (normalize ec (.dropConstraint name table schema type_)) := by
  simp only [renderOp, normalize]
  cases hb : ec.c.batch <;> simp only [↓reduceIte, Bool.false_eq_true, evalCall, stripPrefix_append, dir_dropConstraint]
  · simp +decide [evalDropConstraint, hb, kwOpt, kwOptV, posArgs_append, posArgs, kwArg_append, kwArg, kwArg_optItem, pos, schemaKw,
      evalGenName_genName]
    cases truthy schema <;> cases truthy type_ <;> simp [evalStr]
  · simp +decide [evalDropConstraint, hb, kwOpt, kwOptV, posArgs_append, posArgs, kwArg_append, kwArg, kwArg_optItem, pos,
      evalGenName_genName]
    cases truthy type_ <;> simp [evalStr]

theorem eval_dropIndex (ec : ECtx) (name : GenName) (table : Str) (schema : Option Str) (kws : Kw) (ie : Option Bool)
    (hf : kwFresh [S "table_name", S "schema", S "if_exists"] kws = true) :
    evalCall ec (renderOp ec.c (.dropIndex name table schema kws ie)) = some (normalize ec (.dropIndex name table schema kws ie)) := by
  have hk := fun n hn => kwArg_kwItems n kws _ hf hn
  have hf' : kwFresh [S "if_exists"] kws = true := kwFresh_sub _ _ _ (by decide) hf
  have hk' := fun n hn => kwArg_kwItems n kws _ hf' hn
  simp only [renderOp, normalize]
  cases hb : ec.c.batch <;> simp only [↓reduceIte, Bool.false_eq_true, evalCall, stripPrefix_append, dir_dropIndex]
  · simp +decide [evalDropIndex, hb, kwOpt, kwOptV, posArgs_append, posArgs, kwArg_append, kwArg, kwArg_optItem, pos, kw, schemaKw,
      evalGenName_genName, otherKw_append, otherKw, otherKw_optItem, otherKw_kwItems _ _ hf, hk, evalStr]
    cases truthy schema <;> cases ie <;> simp [evalBool_pyBool]
  · simp +decide [evalDropIndex, hb, kwOpt, kwOptV, posArgs_append, posArgs, kwArg_append, kwArg, kwArg_optItem, pos,
      evalGenName_genName, otherKw_append, otherKw, otherKw_optItem, otherKw_kwItems _ _ hf', hk']
    cases ie <;> simp [evalBool_pyBool]

theorem eval_createIndex (ec : ECtx) (name : GenName) (table : Str) (schema : Option Str) (elems : List IdxElem)
    (unique : Bool) (kws : Kw) (ine : Option Bool)
    (he : elems.all (fun e => match e with | .col _ => true | .expr e => notStr e) = true)
    (hf : kwFresh [S "unique", S "schema", S "if_not_exists"] kws = true) :
    evalCall ec (renderOp ec.c (.createIndex name table schema elems unique kws ine)) =
      some (normalize ec (.createIndex name table schema elems unique kws ine)) := by
  have hk := fun n hn => kwArg_kwItems n kws _ hf hn
  have hf' : kwFresh [S "unique", S "if_not_exists"] kws = true := kwFresh_sub _ _ _ (by decide) hf
  have hk' := fun n hn => kwArg_kwItems n kws _ hf' hn
  simp only [renderOp, normalize]
  cases hb : ec.c.batch <;> simp only [↓reduceIte, Bool.false_eq_true, evalCall, stripPrefix_append, dir_createIndex]
  · simp +decide [evalCreateIndex, hb, kwOpt, kwOptV, posArgs_append, posArgs, kwArg_append, kwArg, kwArg_optItem, pos, kw, schemaKw,
      evalGenName_genName, otherKw_append, otherKw, otherKw_optItem, otherKw_kwItems _ _ hf, hk, evalBool_pyBool,
      evalIdxElems_ok elems he]
    cases truthy schema <;> cases ine <;> simp [evalStr, evalBool_pyBool]
  · simp +decide [evalCreateIndex, hb, kwOpt, kwOptV, posArgs_append, posArgs, kwArg_append, kwArg, kwArg_optItem, pos, kw,
      evalGenName_genName, otherKw_append, otherKw, otherKw_optItem, otherKw_kwItems _ _ hf', hk', evalBool_pyBool,
      evalIdxElems_ok elems he]
    cases ine <;> simp [evalBool_pyBool]

theorem eval_createUnique (ec : ECtx) (name : GenName) (table : Str) (schema : Option Str) (cols : List Str)
    (d i : Option PyAst) (kws : Kw) (hf : kwFresh [S "deferrable", S "initially", S "schema"] kws = true) :
    evalCall ec (renderOp ec.c (.createUnique name table schema cols d i kws)) =
      some (normalize ec (.createUnique name table schema cols d i kws)) := by
  have hk := fun n hn => kwArg_kwItems n kws _ hf hn
  have hf' : kwFresh [S "deferrable", S "initially"] kws = true := kwFresh_sub _ _ _ (by decide) hf
  have hk' := fun n hn => kwArg_kwItems n kws _ hf' hn
  simp only [renderOp, normalize]
  cases hb : ec.c.batch <;> simp only [↓reduceIte, Bool.false_eq_true, evalCall, stripPrefix_append, dir_createUnique]
  · simp +decide [evalCreateUnique, hb, kwOpt, kwOptV, posArgs_append, posArgs, kwArg_append, kwArg, kwArg_optItem, pos, schemaKw,
      evalGenName_genName, otherKw_append, otherKw, otherKw_optItem, otherKw_kwItems _ _ hf, hk, evalStrList_strList]
    cases truthy schema <;> cases d <;> cases i <;> simp [evalStr]
  · simp +decide [evalCreateUnique, hb, kwOpt, kwOptV, posArgs_append, posArgs, kwArg_append, kwArg, kwArg_optItem, pos,
      evalGenName_genName, otherKw_append, otherKw, otherKw_optItem, otherKw_kwItems _ _ hf', hk', evalStrList_strList]
    try (cases d <;> cases i <;> simp)

theorem eval_createFK (ec : ECtx) (name : GenName) (source referent : Str) (l r : List Str) (k : FKKw) :
    evalCall ec (renderOp ec.c (.createFK name source referent l r k)) =
      some (normalize ec (.createFK name source referent l r k)) := by
  obtain ⟨k1, k2, k3, k4, k5, k6, k7, k8⟩ := k
  simp only [renderOp, normalize]
  cases hb : ec.c.batch <;> simp only [↓reduceIte, Bool.false_eq_true, evalCall, stripPrefix_append, dir_createFK]
  · simp +decide [evalCreateFK, evalFKKw, hb, posArgs_append, posArgs, kwArg_append, kwArg, kwArg_optItem, pos,
      evalGenName_genName, evalStrList_strList]
    try (cases k1 <;> cases k2 <;> cases k3 <;> cases k4 <;> cases k5 <;> cases k6 <;> cases k7 <;> cases k8 <;> simp)
  · simp +decide [evalCreateFK, evalFKKw, hb, posArgs_append, posArgs, kwArg_append, kwArg, kwArg_optItem, pos,
      evalGenName_genName, evalStrList_strList]
    try (cases k2 <;> cases k3 <;> cases k4 <;> cases k5 <;> cases k6 <;> cases k7 <;> cases k8 <;> simp)

theorem eval_createTableComment (ec : ECtx) (table : Str) (comment existing schema : Option Str) :
    evalCall ec (renderOp ec.c (.createTableComment table comment existing schema)) =
      some (normalize ec (.createTableComment table comment existing schema)) := by
  simp only [renderOp, normalize]
  cases hb : ec.c.batch <;> simp only [↓reduceIte, Bool.false_eq_true, evalCall, stripPrefix_append, dir_createTableComment]
  · simp +decide [evalCreateTableComment, hb, posArgs, kwArg, pos, kw, evalOptStr_optStr]
  · simp +decide [evalCreateTableComment, hb, posArgs, kwArg, pos, kw, evalOptStr_optStr]

theorem eval_dropTableComment (ec : ECtx) (table : Str) (existing schema : Option Str) :
    evalCall ec (renderOp ec.c (.dropTableComment table existing schema)) =
      some (normalize ec (.dropTableComment table existing schema)) := by
  simp only [renderOp, normalize]
  cases hb : ec.c.batch <;> simp only [↓reduceIte, Bool.false_eq_true, evalCall, stripPrefix_append, dir_dropTableComment]
  · simp +decide [evalDropTableComment, hb, posArgs, kwArg, pos, kw, evalOptStr_optStr]
  · simp +decide [evalDropTableComment, hb, posArgs, kwArg, pos, kw, evalOptStr_optStr]


@[simp] theorem kwOptV_none {α : Type} (f : PyAst → Option α) : kwOptV none f = some none := rfl
@[simp] theorem kwOptV_str (v : Option Str) : kwOptV (v.map PyAst.str) evalStr = some v := by
  cases v <;> simp [kwOptV, evalStr]
@[simp] theorem kwOptV_bool (v : Option Bool) : kwOptV (v.map pyBool) evalBool = some v := by
  cases v <;> simp [kwOptV, evalBool_pyBool]
@[simp] theorem kwOptV_bool_some (b : Bool) : kwOptV (some (pyBool b)) evalBool = some (some b) := by
  simp [kwOptV, evalBool_pyBool]
@[simp] theorem kwOptV_str_some (s : Str) : kwOptV (some (PyAst.str s)) evalStr = some (some s) := by
  simp [kwOptV, evalStr]
@[simp] theorem kwOptV_optStr (cm : Option Str) : kwOptV (some (optStr cm)) evalOptStr = some (some cm) := by
  simp [kwOptV, evalOptStr_optStr]


theorem truthy_idem (s : Option Str) : truthy (truthy s) = truthy s := by
  cases s with
  | none => rfl
  | some l => cases l <;> rfl

theorem evalCol_renderCol (c : Ctx) (col : Col) (hf : kwFresh colKnown col.kwargs = true) :
    evalCol c (renderCol c col) = some (normCol col) := by
  obtain ⟨name, ty, sd, sp, ai, nu, sy, cm, kws⟩ := col
  have hk := fun n hn => kwArg_kwItems n kws _ hf hn
  have hf2 : kwFresh [S "server_default", S "autoincrement", S "nullable", S "system", S "comment"] kws = true := hf
  simp only [renderCol, evalCol, ↓reduceIte, normCol]
  cases sd <;> cases sp <;> cases sy <;>
    simp +decide [kwOpt, kwOptV, posArgs_append, posArgs, kwArg_append, kwArg, kwArg_optItem, pos, kw, colKnown,
      otherKw_append, otherKw, otherKw_optItem, otherKw_kwItems _ _ hf2, hk, evalBool_pyBool] <;>
    cases nu <;> cases truthy cm <;> cases ai <;> simp [evalStr, evalBool_pyBool]

theorem eval_addColumn (ec : ECtx) (table : Str) (schema : Option Str) (col : Col)
    (hf : kwFresh colKnown col.kwargs = true) :
    evalCall ec (renderOp ec.c (.addColumn table schema col)) = some (normalize ec (.addColumn table schema col)) := by
  have hc := evalCol_renderCol ec.c col hf
  simp only [renderOp, normalize]
  cases hb : ec.c.batch <;> simp only [↓reduceIte, Bool.false_eq_true, evalCall, stripPrefix_append, dir_addColumn]
  · simp +decide [evalAddColumn, hb, kwOpt, kwOptV, posArgs_append, posArgs, kwArg_append, kwArg, kwArg_optItem, pos, schemaKw, hc]
    cases truthy schema <;> simp [evalStr]
  · simp [evalAddColumn, hb, posArgs, pos, hc]

theorem eval_alterColumn (ec : ECtx) (a : Alter)
    (hs : sdOk a = true) :
    evalCall ec (renderOp ec.c (.alterColumn a)) = some (normalize ec (.alterColumn a)) := by
  obtain ⟨table, column, schema, et, sd, nn, ty, nu, cm, exc, en, ai, esd⟩ := a
  simp only [renderOp, normalize]
  have hsd : ∀ d, sd = some (some d) → isPyNone d = false := by
    intro d e; subst e; simpa [sdOk] using hs
  cases hb : ec.c.batch <;> simp only [↓reduceIte, Bool.false_eq_true, evalCall, stripPrefix_append, dir_alterColumn]
  all_goals
    rcases sd with _ | _ | d <;> rcases cm with _ | cm <;> cases nu <;>
    simp +decide [evalAlterColumn, hb, kwOpt, posArgs_append, posArgs, kwArg_append, kwArg, kwArg_optItem, pos, kw, schemaKw,
      isPyNone_pyNone, hsd]

/-- the evaluation round trip for every modelled directive except `create_table` -/
theorem evalCall_renderOp (ec : ECtx) (o : Op) (h : evalOk o = true) :
    evalCall ec (renderOp ec.c o) = some (normalize ec o) := by
  cases o with
  | createTable n s cols cons cm kws ine => simp [evalOk] at h
  | dropTable n s ie => exact eval_dropTable ec n s ie
  | addColumn t s col => exact eval_addColumn ec t s col (by simpa [evalOk] using h)
  | dropColumn t s col => exact eval_dropColumn ec t s col
  | alterColumn a => exact eval_alterColumn ec a (by simpa [evalOk] using h)
  | createIndex n t s e u kws ine =>
    simp only [evalOk, Bool.and_eq_true] at h
    exact eval_createIndex ec n t s e u kws ine h.1 h.2
  | dropIndex n t s kws ie => exact eval_dropIndex ec n t s kws ie (by simpa [evalOk] using h)
  | createUnique n t s cols d i kws => exact eval_createUnique ec n t s cols d i kws (by simpa [evalOk] using h)
  | createFK n src ref l r k => exact eval_createFK ec n src ref l r k
  | dropConstraint n t s ty => exact eval_dropConstraint ec n t s ty
  | createTableComment t cm ex s => exact eval_createTableComment ec t cm ex s
  | dropTableComment t ex s => exact eval_dropTableComment ec t ex s

end Model.Render
