import Spec.Render
/-! Well-formedness of what the renderers produce. -/
namespace Model.Render
open Model.Py Spec.Render

theorem wfItems_append (b kw : Bool) (xs ys : List Item) :
    wfItems b kw (xs ++ ys) = (wfItems b kw xs && wfItems b kw ys) := by
  induction xs with
  | nil => simp [wfItems]
  | cons x xs ih => simp [wfItems, ih, Bool.and_assoc]

theorem wfItems_optItem (b : Bool) (k : String) (v : Option PyAst) (hk : validWord (S k) = true)
    (hv : ∀ e, v = some e → wf b e = true) : wfItems b true (optItem k v) = true := by
  cases v with
  | none => simp [optItem, wfItems]
  | some e => simp [optItem, wfItems, wfItem, kw, hk, hv e rfl]

theorem wfItems_kwItems (l : Kw) (h : kwOk l = true) : wfItems true true (kwItems l) = true := by
  induction l with
  | nil => simp [kwItems, wfItems]
  | cons p l ih =>
    simp [kwOk] at h ih
    have := ih h.2
    simp [kwItems] at this
    simp [kwItems, wfItems, wfItem, h.1.1, h.1.2, this]

theorem wfItems_strs (b kw : Bool) (l : List Str) : wfItems b kw (l.map fun s => pos (.str s)) = true := by
  induction l with
  | nil => simp [wfItems]
  | cons s l ih =>
    simp only [pos] at ih
    simp [wfItems, wfItem, pos, wf, ih]

theorem wf_strList (b : Bool) (l : List Str) : wf b (strList l) = true := by
  simp [strList, wf, wfItems_strs]

theorem wfItems_pos (b kw : Bool) (l : List PyAst) (h : ∀ e ∈ l, wf b e = true) :
    wfItems b kw (l.map pos) = true := by
  induction l with
  | nil => simp [wfItems]
  | cons e l ih =>
    simp [wfItems, wfItem, pos, h e (by simp)]
    exact ih (fun e' he' => h e' (by simp [he']))

theorem validWord_prefix (p w : List Char) (hp : p.all wordChar = true) (hw : validWord w = true) :
    validWord (p ++ w) = true := by
  simp [validWord] at hw ⊢
  simp at hp
  exact ⟨fun _ => hw.1, hp, hw.2⟩

theorem ctx_op_ok (c : Ctx) (h : ctxOk c = true) : c.op.all wordChar = true := by
  simp [ctxOk] at h
  unfold Ctx.op
  split
  · decide
  · simp; exact h.1

theorem mem_insertBy (key : PyAst → List Char) (x y : PyAst) (l : List PyAst) :
    y ∈ insertBy key x l → y = x ∨ y ∈ l := by
  induction l with
  | nil => simp [insertBy]
  | cons z l ih =>
    simp only [insertBy]
    split
    · simp
    · simp only [List.mem_cons]
      intro h
      rcases h with h | h
      · exact Or.inr (Or.inl h)
      · rcases ih h with h | h
        · exact Or.inl h
        · exact Or.inr (Or.inr h)

theorem mem_sortBy (key : PyAst → List Char) (y : PyAst) (l : List PyAst) : y ∈ sortBy key l → y ∈ l := by
  induction l with
  | nil => simp [sortBy]
  | cons x l ih =>
    simp only [sortBy]
    intro h
    rcases mem_insertBy key x y _ h with h | h
    · simp [h]
    · simp [ih h]

theorem wf_pyBool (b x : Bool) : wf b (pyBool x) = true := by cases x <;> simp [pyBool, wf] <;> decide
theorem wf_pyNone (b : Bool) : wf b pyNone = true := by simp [pyNone, wf]; decide
theorem wf_optStr (b : Bool) (s : Option Str) : wf b (optStr s) = true := by
  cases s <;> simp [optStr, wf, wf_pyNone]

theorem wf_genName (b : Bool) (c : Ctx) (h : ctxOk c = true) (n : GenName) : wf b (genName c n) = true := by
  cases n with
  | none => exact wf_pyNone b
  | plain s => simp [genName, wf]
  | conv s =>
    simp only [genName, wf, wfItems, wfItem, pos, Bool.and_true]
    simp [validWord_prefix _ _ (ctx_op_ok c h) (by decide : validWord (S "f") = true), Layout.ok, Layout.inline, wsOnly]
    decide

theorem wfItems_genNameOpt (c : Ctx) (h : ctxOk c = true) (n : GenName) : wfItems true true (genNameOpt c n) = true := by
  unfold genNameOpt
  split
  · simp [wfItems]
  · simp [wfItems]
  · simp [wfItems, wfItem, kw, wf_genName true c h]; decide



theorem vw (c : Ctx) (h : ctxOk c = true) (w : String) (hw : validWord (S w) = true) : validWord (c.op ++ S w) = true :=
  validWord_prefix _ _ (ctx_op_ok c h) hw

theorem vws (c : Ctx) (h : ctxOk c = true) (w : String) (hw : validWord (S w) = true) : validWord (c.saPrefix ++ S w) = true :=
  validWord_prefix _ _ (by simp [ctxOk] at h; simpa using h.2) hw

theorem wfItems_optBool (k : String) (v : Option Bool) (hk : validWord (S k) = true) :
    wfItems true true (optItem k (v.map pyBool)) = true :=
  wfItems_optItem true k _ hk (by intro e he; cases v with
    | none => simp at he
    | some x => simp at he; subst he; exact wf_pyBool true x)

theorem wfItems_optStrKw (k : String) (v : Option Str) (hk : validWord (S k) = true) :
    wfItems true true (optItem k (v.map .str)) = true :=
  wfItems_optItem true k _ hk (by intro e he; cases v with
    | none => simp at he
    | some x => simp at he; subst he; simp [wf])

theorem wfItems_optAst (k : String) (v : Option PyAst) (hk : validWord (S k) = true) (hv : optOk v = true) :
    wfItems true true (optItem k v) = true :=
  wfItems_optItem true k _ hk (by intro e he; subst he; simpa [optOk] using hv)

theorem wfItems_schemaKw (s : Option Str) : wfItems true true (schemaKw s) = true :=
  wfItems_optStrKw "schema" _ (by decide)

theorem layout_ok_inline : Layout.inline.ok = true := by decide

theorem wf_renderCol (c : Ctx) (h : ctxOk c = true) (col : Col) (hc : colOk col = true) : wf true (renderCol c col) = true := by
  simp only [colOk, Bool.and_eq_true] at hc
  obtain ⟨⟨⟨ht, hs⟩, ha⟩, hk⟩ := hc
  have hsd : ∀ d, col.sdefault = some d → wf true d = true := by intro d e; simpa [optOk, e] using hs
  simp only [renderCol, wf, Bool.and_eq_true]
  refine ⟨⟨⟨vws c h "Column" (by decide), by simp [Layout.ok, wsOnly, isWs]⟩, ?_⟩, ?_⟩
  · cases hb : col.sdefault <;> cases col.sdPositional <;> simp [pos]
  · simp only [wfItems_append, Bool.and_eq_true]
    refine ⟨⟨by simp [wfItems, wfItem, pos, wf, ht], ?_⟩, ⟨⟨⟨⟨⟨?_, ?_⟩, ?_⟩, ?_⟩, ?_⟩, ?_⟩⟩
    · cases hb : col.sdefault with
      | none => simp [wfItems]
      | some d => have hd := hsd d hb; cases col.sdPositional <;> simp [wfItems, wfItem, pos, hd]
    · cases hb : col.sdefault with
      | none => simp [wfItems]
      | some d =>
        have hd := hsd d hb
        cases col.sdPositional <;> simp [wfItems, wfItem, kw, hd]
        decide
    · exact wfItems_optAst "autoincrement" _ (by decide) ha
    · exact wfItems_optBool "nullable" _ (by decide)
    · cases col.system <;> simp [wfItems, wfItem, kw, wf_pyBool] ; decide
    · exact wfItems_optStrKw "comment" _ (by decide)
    · exact wfItems_kwItems _ hk


theorem wf_renderCons (c : Ctx) (h : ctxOk c = true) (k : Cons) (hk : consOk k = true) :
    ∀ e, renderCons c k = some e → wf true e = true := by
  intro e he
  cases k with
  | pk n cols =>
    cases cols with
    | nil => simp [renderCons] at he
    | cons x xs =>
      simp only [renderCons, Option.some.injEq] at he
      subst he
      simp only [wf, Bool.and_eq_true, wfItems_append]
      exact ⟨⟨⟨vws c h "PrimaryKeyConstraint" (by decide), layout_ok_inline⟩, by simp [Layout.inline]⟩,
        wfItems_strs true true _, wfItems_genNameOpt c h n⟩
  | fk n cols refcols opts =>
    simp only [renderCons, Option.some.injEq] at he
    subst he
    simp only [consOk] at hk
    simp only [wf, Bool.and_eq_true, wfItems_append]
    refine ⟨⟨⟨vws c h "ForeignKeyConstraint" (by decide), by simp [Layout.ok, wsOnly, isWs]⟩, by simp [pos]⟩, ?_, ?_, ?_⟩
    · simp [wfItems, wfItem, pos, wf_strList]
    · exact wfItems_genNameOpt c h n
    · exact wfItems_kwItems _ hk
  | uq n cols d i kws =>
    simp only [renderCons, Option.some.injEq] at he
    subst he
    simp only [consOk, Bool.and_eq_true] at hk
    simp only [wf, Bool.and_eq_true, wfItems_append]
    exact ⟨⟨⟨vws c h "UniqueConstraint" (by decide), layout_ok_inline⟩, by simp [Layout.inline]⟩,
      ⟨⟨⟨⟨wfItems_strs true true _, wfItems_optAst "deferrable" _ (by decide) hk.1.1⟩,
        wfItems_optAst "initially" _ (by decide) hk.1.2⟩, wfItems_genNameOpt c h n⟩, wfItems_kwItems _ hk.2⟩⟩
  | ck n sqltext =>
    simp only [renderCons, Option.some.injEq] at he
    subst he
    simp only [wf, Bool.and_eq_true, wfItems_append]
    exact ⟨⟨⟨vws c h "CheckConstraint" (by decide), layout_ok_inline⟩, by simp [Layout.inline]⟩,
      by simp [wfItems, wfItem, pos, wf], wfItems_genNameOpt c h n⟩

theorem layout_alter_ok : alterLayout.ok = true := by decide
theorem layout_table_ok : tableLayout.ok = true := by decide
theorem layout_comment_ok : commentLayout.ok = true := by decide

/-- every renderer produces a well-formed expression (names arbitrary; opaque fragments well-formed) -/
theorem wf_renderOp (c : Ctx) (h : ctxOk c = true) (o : Op) (ho : opOk o = true) :
    wf true (renderOp c o) = true := by
  cases o with
  | createTable name schema cols cons comment kws ine =>
    simp only [opOk, Bool.and_eq_true, List.all_eq_true] at ho
    simp only [renderOp, wf, Bool.and_eq_true, wfItems_append]
    refine ⟨⟨⟨vw c h "create_table" (by decide), layout_table_ok⟩, by simp [tableLayout]⟩, ?_⟩
    refine ⟨⟨⟨⟨⟨⟨by simp [wfItems, wfItem, pos, wf], ?_⟩, ?_⟩, wfItems_schemaKw _⟩, wfItems_optStrKw "comment" _ (by decide)⟩,
      wfItems_kwItems _ ho.2⟩, wfItems_optBool "if_not_exists" _ (by decide)⟩
    · have e : cols.map (fun col => pos (renderCol c col)) = (cols.map (renderCol c)).map pos := by
        simp [List.map_map]
      rw [e]
      apply wfItems_pos
      intro e he
      simp only [List.mem_map] at he
      obtain ⟨col, hc, rfl⟩ := he
      exact wf_renderCol c h col (ho.1.1 col hc)
    · apply wfItems_pos
      intro e he
      have he' := mem_sortBy _ _ _ he
      simp only [List.mem_filterMap] at he'
      obtain ⟨k, hk, hke⟩ := he'
      exact wf_renderCons c h k (ho.1.2 k hk) e hke
  | dropTable name schema ie =>
    simp only [renderOp, wf, Bool.and_eq_true, wfItems_append]
    exact ⟨⟨⟨vw c h "drop_table" (by decide), layout_ok_inline⟩, by simp [Layout.inline]⟩,
      ⟨by simp [wfItems, wfItem, pos, wf], wfItems_schemaKw _⟩, wfItems_optBool "if_exists" _ (by decide)⟩
  | addColumn table schema col =>
    simp only [opOk] at ho
    have hcol := wf_renderCol c h col ho
    simp only [renderOp]
    split <;> simp only [wf, Bool.and_eq_true, wfItems_append]
    · exact ⟨⟨⟨vw c h "add_column" (by decide), layout_ok_inline⟩, by simp [Layout.inline]⟩, by simp [wfItems, wfItem, pos, hcol]⟩
    · exact ⟨⟨⟨vw c h "add_column" (by decide), layout_ok_inline⟩, by simp [Layout.inline]⟩,
        by simp [wfItems, wfItem, pos, wf, hcol], wfItems_schemaKw _⟩
  | dropColumn table schema col =>
    simp only [renderOp]
    split <;> simp only [wf, Bool.and_eq_true, wfItems_append]
    · exact ⟨⟨⟨vw c h "drop_column" (by decide), layout_ok_inline⟩, by simp [Layout.inline]⟩, by simp [wfItems, wfItem, pos, wf]⟩
    · exact ⟨⟨⟨vw c h "drop_column" (by decide), layout_ok_inline⟩, by simp [Layout.inline]⟩,
        by simp [wfItems, wfItem, pos, wf], wfItems_schemaKw _⟩
  | alterColumn a =>
    simp only [opOk, Bool.and_eq_true] at ho
    obtain ⟨⟨⟨⟨h1, h2⟩, h3⟩, h4⟩, h5⟩ := ho
    simp only [renderOp, wf, Bool.and_eq_true, wfItems_append]
    refine ⟨⟨⟨vw c h "alter_column" (by decide), layout_alter_ok⟩, by simp [alterLayout]⟩, ?_⟩
    refine ⟨⟨⟨⟨⟨⟨⟨⟨⟨⟨⟨?_, wfItems_optAst "existing_type" _ (by decide) h1⟩, ?_⟩, wfItems_optStrKw "new_column_name" _ (by decide)⟩,
      wfItems_optAst "type_" _ (by decide) h3⟩, wfItems_optBool "nullable" _ (by decide)⟩, ?_⟩,
      wfItems_optStrKw "existing_comment" _ (by decide)⟩, ?_⟩, wfItems_optAst "autoincrement" _ (by decide) h4⟩, ?_⟩, ?_⟩
    · split <;> simp [wfItems, wfItem, pos, wf]
    · cases hs : a.serverDefault with
      | none => simp [wfItems]
      | some d =>
        cases d with
        | none => simp [wfItems, wfItem, kw, wf_pyNone]; decide
        | some d => simp [hs] at h2; simp [wfItems, wfItem, kw, h2]; decide
    · cases a.comment with
      | none => simp [wfItems]
      | some cm => simp [wfItems, wfItem, kw, wf_optStr]; decide
    · split
      · exact wfItems_optBool "existing_nullable" _ (by decide)
      · simp [wfItems]
    · split
      · exact wfItems_optAst "existing_server_default" _ (by decide) h5
      · simp [wfItems]
    · split
      · simp [wfItems]
      · exact wfItems_schemaKw _
  | createIndex name table schema elems unique kws ine =>
    simp only [opOk, Bool.and_eq_true, List.all_eq_true] at ho
    have hcols : wf true (.list (elems.map idxElem)) = true := by
      simp only [wf]
      have := wfItems_pos true false (elems.map (fun e => match e with | .col n => PyAst.str n | .expr e => e)) (by
        intro e he
        simp only [List.mem_map] at he
        obtain ⟨x, hx, rfl⟩ := he
        cases x with
        | col n => simp [wf]
        | expr e => simpa [elemOk] using ho.1 _ hx)
      have e2 : (elems.map (fun e => match e with | .col n => PyAst.str n | .expr e => e)).map pos = elems.map idxElem := by
        simp only [List.map_map]
        apply List.map_congr_left
        intro x _
        cases x <;> rfl
      rw [e2] at this
      exact this
    have hK : wfItems true true [kw "unique" (pyBool unique)] = true := by
      simp [wfItems, wfItem, kw, wf_pyBool]; decide
    simp only [renderOp]
    cases hb : c.batch <;>
      simp only [↓reduceIte, Bool.false_eq_true, wf, Bool.and_eq_true, wfItems_append]
    · exact ⟨⟨⟨vw c h "create_index" (by decide), layout_ok_inline⟩, by simp [Layout.inline]⟩,
        by have hstr : wf true (.str table) = true := by simp [wf]
           simp only [wfItems, wfItem, pos, hstr, wf_genName true c h, hcols, Bool.and_true],
        ⟨⟨hK, wfItems_schemaKw _⟩, wfItems_kwItems _ ho.2⟩, wfItems_optBool "if_not_exists" _ (by decide)⟩
    · exact ⟨⟨⟨vw c h "create_index" (by decide), layout_ok_inline⟩, by simp [Layout.inline]⟩,
        by simp only [wfItems, wfItem, pos, wf_genName true c h, hcols, Bool.and_true],
        ⟨⟨hK, by simp [wfItems]⟩, wfItems_kwItems _ ho.2⟩, wfItems_optBool "if_not_exists" _ (by decide)⟩
  | dropIndex name table schema kws ie =>
    simp only [opOk] at ho
    simp only [renderOp]
    split <;> simp only [wf, Bool.and_eq_true, wfItems_append]
    · exact ⟨⟨⟨vw c h "drop_index" (by decide), layout_ok_inline⟩, by simp [Layout.inline]⟩,
        ⟨by simp only [wfItems, wfItem, pos, wf_genName true c h, Bool.and_true], wfItems_kwItems _ ho⟩, wfItems_optBool "if_exists" _ (by decide)⟩
    · exact ⟨⟨⟨vw c h "drop_index" (by decide), layout_ok_inline⟩, by simp [Layout.inline]⟩,
        ⟨⟨by simp [wfItems, wfItem, pos, kw, wf, wf_genName true c h]; decide, wfItems_schemaKw _⟩, wfItems_kwItems _ ho⟩,
        wfItems_optBool "if_exists" _ (by decide)⟩
  | createUnique name table schema cols d i kws =>
    simp only [opOk, Bool.and_eq_true] at ho
    simp only [renderOp, wf, Bool.and_eq_true, wfItems_append]
    refine ⟨⟨⟨vw c h "create_unique_constraint" (by decide), layout_ok_inline⟩, by simp [Layout.inline]⟩, ?_⟩
    refine ⟨⟨⟨⟨⟨⟨by simp only [wfItems, wfItem, pos, wf_genName true c h, Bool.and_true], ?_⟩, by simp [wfItems, wfItem, pos, wf_strList]⟩,
      wfItems_optAst "deferrable" _ (by decide) ho.1.1⟩, wfItems_optAst "initially" _ (by decide) ho.1.2⟩, ?_⟩, wfItems_kwItems _ ho.2⟩
    · split <;> simp [wfItems, wfItem, pos, wf]
    · split
      · simp [wfItems]
      · exact wfItems_schemaKw _
  | createFK name source referent lcols rcols k =>
    simp only [opOk, Bool.and_eq_true] at ho
    obtain ⟨⟨⟨⟨⟨⟨⟨h1, h2⟩, h3⟩, h4⟩, h5⟩, h6⟩, h7⟩, h8⟩ := ho
    simp only [renderOp, wf, Bool.and_eq_true, wfItems_append]
    refine ⟨⟨⟨vw c h "create_foreign_key" (by decide), layout_ok_inline⟩, by simp [Layout.inline]⟩, ?_⟩
    refine ⟨⟨⟨⟨⟨⟨⟨⟨⟨⟨by simp only [wfItems, wfItem, pos, wf_genName true c h, Bool.and_true], ?_⟩,
      by simp [wfItems, wfItem, pos, wf, wf_strList]⟩, ?_⟩,
      wfItems_optAst "referent_schema" _ (by decide) h2⟩, wfItems_optAst "onupdate" _ (by decide) h3⟩,
      wfItems_optAst "ondelete" _ (by decide) h4⟩, wfItems_optAst "initially" _ (by decide) h5⟩,
      wfItems_optAst "deferrable" _ (by decide) h6⟩, wfItems_optAst "use_alter" _ (by decide) h7⟩,
      wfItems_optAst "match" _ (by decide) h8⟩
    · split <;> simp [wfItems, wfItem, pos, wf]
    · split
      · simp [wfItems]
      · exact wfItems_optAst "source_schema" _ (by decide) h1
  | dropConstraint name table schema type_ =>
    simp only [renderOp, wf, Bool.and_eq_true, wfItems_append]
    refine ⟨⟨⟨vw c h "drop_constraint" (by decide), layout_ok_inline⟩, by simp [Layout.inline]⟩,
      ⟨by simp only [wfItems, wfItem, pos, wf_genName true c h, Bool.and_true], ?_⟩, wfItems_optStrKw "type_" _ (by decide)⟩
    split
    · simp [wfItems]
    · simp only [wfItems_append, Bool.and_eq_true]
      exact ⟨by simp [wfItems, wfItem, pos, wf], wfItems_schemaKw _⟩
  | createTableComment table comment existing schema =>
    simp only [renderOp]
    split <;> simp only [wf, Bool.and_eq_true]
    · exact ⟨⟨⟨vw c h "create_table_comment" (by decide), layout_comment_ok⟩, by simp [commentLayout]⟩,
        by simp [wfItems, wfItem, pos, kw, wf_optStr]; decide⟩
    · exact ⟨⟨⟨vw c h "create_table_comment" (by decide), layout_comment_ok⟩, by simp [commentLayout]⟩,
        by simp [wfItems, wfItem, pos, kw, wf, wf_optStr]; decide⟩
  | dropTableComment table existing schema =>
    simp only [renderOp]
    split <;> simp only [wf, Bool.and_eq_true]
    · exact ⟨⟨⟨vw c h "drop_table_comment" (by decide), layout_comment_ok⟩, by simp [commentLayout]⟩,
        by simp [wfItems, wfItem, kw, wf_optStr]; decide⟩
    · exact ⟨⟨⟨vw c h "drop_table_comment" (by decide), layout_comment_ok⟩, by simp [commentLayout]⟩,
        by simp [wfItems, wfItem, pos, kw, wf, wf_optStr]; decide⟩

end Model.Render
