import Lemmas.Render.Eval
/-! Evaluation round trip for `create_table`: columns, inline constraints (in the order of their rendered text),
table-level keywords; and the extension `evalCallT` / `normalizeT` of `evalCall` / `normalize`. -/
namespace Model.Render
open Model.Py Spec.Render

theorem posArgs_map_pos (l : List PyAst) : posArgs (l.map pos) = l := by
  induction l with
  | nil => rfl
  | cons x l ih => simp [pos, posArgs] at ih ⊢; exact ih

theorem kwArg_map_pos (n : Str) (l : List PyAst) : kwArg n (l.map pos) = none := by
  induction l with
  | nil => rfl
  | cons x l ih => simp [pos, kwArg] at ih ⊢; exact ih

theorem otherKw_map_pos (kn : List Str) (l : List PyAst) : otherKw kn (l.map pos) = [] := by
  induction l with
  | nil => rfl
  | cons x l ih => simp [pos, otherKw] at ih ⊢; exact ih

theorem mapM_evalStr (l : List Str) : (l.map PyAst.str).mapM evalStr = some l := by
  induction l with
  | nil => rfl
  | cons s l ih => simp [List.mapM_cons, evalStr, ih]

@[simp] theorem posArgs_genNameOpt (c : Ctx) (n : GenName) : posArgs (genNameOpt c n) = [] := by
  unfold genNameOpt; split <;> simp [posArgs, kw]

theorem kwArg_genNameOpt_other (c : Ctx) (n : GenName) (k : Str) (h : ¬ S "name" = k) : kwArg k (genNameOpt c n) = none := by
  unfold genNameOpt; split <;> simp [kwArg, kw, h]

theorem otherKw_genNameOpt (c : Ctx) (n : GenName) (kn : List Str) (h : kn.contains (S "name") = true) :
    otherKw kn (genNameOpt c n) = [] := by
  simp at h
  unfold genNameOpt; split <;> simp [otherKw, kw, h]

theorem evalNameKw_genNameOpt (c : Ctx) (n : GenName) :
    (match kwArg (S "name") (genNameOpt c n) with
      | none => some GenName.none
      | some v => evalGenName c v) = some (normName n) := by
  cases n with
  | none => simp [genNameOpt, kwArg, normName]
  | plain s => cases s <;> simp [genNameOpt, kwArg, kw, normName, evalGenName_genName]
  | conv s => simp [genNameOpt, kwArg, kw, normName, evalGenName_genName]

theorem ck_pk : consKindOf (S "PrimaryKeyConstraint") = some .pk := by decide
theorem ck_fk : consKindOf (S "ForeignKeyConstraint") = some .fk := by decide
theorem ck_uq : consKindOf (S "UniqueConstraint") = some .uq := by decide
theorem ck_ck : consKindOf (S "CheckConstraint") = some .ck := by decide

theorem posArgs_map_pos' {α : Type} (f : α → PyAst) (l : List α) : posArgs (l.map (pos ∘ f)) = l.map f := by
  have := posArgs_map_pos (l.map f); simpa [List.map_map] using this
theorem kwArg_map_pos' {α : Type} (n : Str) (f : α → PyAst) (l : List α) : kwArg n (l.map (pos ∘ f)) = none := by
  have := kwArg_map_pos n (l.map f); simpa [List.map_map] using this
theorem otherKw_map_pos' {α : Type} (kn : List Str) (f : α → PyAst) (l : List α) : otherKw kn (l.map (pos ∘ f)) = [] := by
  have := otherKw_map_pos kn (l.map f); simpa [List.map_map] using this

theorem posArgs_map_pos'' {α : Type} (f : α → PyAst) (l : List α) : posArgs (l.map fun a => pos (f a)) = l.map f :=
  posArgs_map_pos' f l
theorem kwArg_map_pos'' {α : Type} (n : Str) (f : α → PyAst) (l : List α) : kwArg n (l.map fun a => pos (f a)) = none :=
  kwArg_map_pos' n f l
theorem otherKw_map_pos'' {α : Type} (kn : List Str) (f : α → PyAst) (l : List α) : otherKw kn (l.map fun a => pos (f a)) = [] :=
  otherKw_map_pos' kn f l
theorem posArgs_pos_cons (x : PyAst) (r : List Item) : posArgs (pos x :: r) = x :: posArgs r := rfl
theorem kwArg_pos_cons (n : Str) (x : PyAst) (r : List Item) : kwArg n (pos x :: r) = kwArg n r := rfl
theorem otherKw_pos_cons (kn : List Str) (x : PyAst) (r : List Item) : otherKw kn (pos x :: r) = otherKw kn r := rfl

theorem mapM_evalStr' (l : List Str) : List.mapM (evalStr ∘ PyAst.str) l = some l := by
  induction l with
  | nil => rfl
  | cons s l ih => simp [List.mapM_cons, evalStr, ih]

theorem posArgs_strs (l : List Str) : posArgs (l.map fun s => pos (.str s)) = l.map .str := by
  induction l with
  | nil => rfl
  | cons x l ih => simp [pos, posArgs] at ih ⊢; exact ih
theorem kwArg_strs (n : Str) (l : List Str) : kwArg n (l.map fun s => pos (.str s)) = none := by
  induction l with
  | nil => rfl
  | cons x l ih => simp [pos, kwArg] at ih ⊢; exact ih
theorem otherKw_strs (kn : List Str) (l : List Str) : otherKw kn (l.map fun s => pos (.str s)) = [] := by
  induction l with
  | nil => rfl
  | cons x l ih => simp [pos, otherKw] at ih ⊢; exact ih

theorem evalNameKw_of (c : Ctx) (items : List Item) (n : GenName)
    (h : kwArg (S "name") items = kwArg (S "name") (genNameOpt c n)) : evalNameKw c items = some (normName n) := by
  unfold evalNameKw; rw [h]; exact evalNameKw_genNameOpt c n

/-- evaluating a rendered inline constraint gives the constraint back (up to `normCons`) -/
theorem evalCons_renderCons (c : Ctx) (k : Cons) (hk : consEvalOk k = true) (e : PyAst) (he : renderCons c k = some e) :
    evalCons c e = some (normCons k) := by
  cases k with
  | pk n cols =>
    cases cols with
    | nil => simp [renderCons] at he
    | cons x xs =>
      simp only [renderCons, Option.some.injEq] at he
      subst he
      have hn := evalNameKw_of c (List.map (fun s => pos (PyAst.str s)) (x :: xs) ++ genNameOpt c n) n
        (by simp only [kwArg_append, kwArg_strs, orElse'_none])
      simp only [evalCons, stripPrefix_append, ck_pk, hn, posArgs_append, posArgs_strs, posArgs_genNameOpt, List.append_nil,
        mapM_evalStr]
      simp [normCons]
  | fk n cols refcols opts =>
    simp only [renderCons, Option.some.injEq] at he
    subst he
    simp only [consEvalOk] at hk
    have hko := kwArg_kwItems (S "name") opts _ hk (by decide)
    have hn := evalNameKw_of c ([pos (strList cols), pos (strList refcols)] ++ (genNameOpt c n ++ kwItems opts)) n
      (by simp [kwArg_append, kwArg, pos, hko])
    simp only [evalCons, stripPrefix_append, ck_fk, hn]
    simp +decide [posArgs_append, posArgs, pos, evalStrList_strList, otherKw_append, otherKw, otherKw_genNameOpt,
      otherKw_kwItems _ _ hk, normCons]
  | uq n cols d i kws =>
    simp only [renderCons, Option.some.injEq] at he
    subst he
    simp only [consEvalOk] at hk
    have hk1 := fun m hm => kwArg_kwItems m kws _ hk hm
    have hn := evalNameKw_of c (List.map (fun s => pos (PyAst.str s)) cols ++ optItem "deferrable" d ++ optItem "initially" i ++
        genNameOpt c n ++ kwItems kws) n
      (by simp +decide [kwArg_append, kwArg_strs, kwArg_optItem, hk1])
    simp only [evalCons, stripPrefix_append, ck_uq, hn]
    simp +decide [kwArg_append, kwArg_strs, kwArg_optItem, hk1, posArgs_append, posArgs_strs, mapM_evalStr,
      otherKw_append, otherKw_strs, otherKw_optItem, otherKw_genNameOpt, otherKw_kwItems _ _ hk, normCons,
      kwArg_genNameOpt_other]
    exact mapM_evalStr' cols
  | ck n sqltext =>
    simp only [renderCons, Option.some.injEq] at he
    subst he
    have hn := evalNameKw_of c ([pos (.str sqltext)] ++ genNameOpt c n) n (by simp [kwArg_append, kwArg, pos])
    simp only [evalCons, stripPrefix_append, ck_ck, hn]
    simp [posArgs_append, posArgs, pos, normCons]

/-! ### the argument list -/

theorem isColumnCall_renderCol (c : Ctx) (col : Col) : isColumnCall c (renderCol c col) = true := by
  simp [renderCol, isColumnCall]

theorem isColumnCall_renderCons (c : Ctx) (k : Cons) (e : PyAst) (he : renderCons c k = some e) :
    isColumnCall c e = false := by
  cases k with
  | pk n cols =>
    cases cols with
    | nil => simp [renderCons] at he
    | cons x xs => simp only [renderCons, Option.some.injEq] at he; subst he; simp +decide [isColumnCall]
  | fk n cols refcols opts => simp only [renderCons, Option.some.injEq] at he; subst he; simp +decide [isColumnCall]
  | uq n cols d i kws => simp only [renderCons, Option.some.injEq] at he; subst he; simp +decide [isColumnCall]
  | ck n s => simp only [renderCons, Option.some.injEq] at he; subst he; simp +decide [isColumnCall]

/-- a list of rendered constraints evaluates to the list of the (normalised) constraints -/
theorem evalTableArgs_cons (c : Ctx) (ks : List Cons) (hok : ∀ k ∈ ks, consEvalOk k = true ∧ consRenders k = true) :
    evalTableArgs c (ks.map (renderConsD c)) = some ([], ks.map normCons) := by
  induction ks with
  | nil => rfl
  | cons k ks ih =>
    have hk := hok k (by simp)
    have ih' := ih (fun x hx => hok x (by simp [hx]))
    have hr : ∃ e, renderCons c k = some e := by
      cases k with
      | pk n cols => cases cols with
        | nil => simp [consRenders] at hk
        | cons x xs => exact ⟨_, rfl⟩
      | fk n a b o => exact ⟨_, rfl⟩
      | uq n a d i kw => exact ⟨_, rfl⟩
      | ck n s => exact ⟨_, rfl⟩
    obtain ⟨e, he⟩ := hr
    have hd : renderConsD c k = e := by simp [renderConsD, he]
    simp only [List.map_cons, evalTableArgs, ih', hd, isColumnCall_renderCons c k e he, evalCons_renderCons c k hk.1 e he]
    simp

theorem evalTableArgs_cols (c : Ctx) (cols : List Col) (rest : List PyAst) (ks : List Cons)
    (hc : ∀ col ∈ cols, kwFresh colKnown col.kwargs = true) (hr : evalTableArgs c rest = some ([], ks)) :
    evalTableArgs c (cols.map (renderCol c) ++ rest) = some (cols.map normCol, ks) := by
  induction cols with
  | nil => simpa using hr
  | cons col cols ih =>
    have ih' := ih (fun x hx => hc x (by simp [hx]))
    simp only [List.map_cons, List.cons_append, evalTableArgs, ih', isColumnCall_renderCol, ↓reduceIte,
      evalCol_renderCol c col (hc col (by simp))]
    simp

/-! ### sorting the rendered constraints = sorting the constraints by their rendered text -/

theorem insertBy_map {α : Type} (f : α → PyAst) (key : PyAst → List Char) (x : α) (l : List α) :
    insertBy key (f x) (l.map f) = (insertByG (fun a => key (f a)) x l).map f := by
  induction l with
  | nil => rfl
  | cons y l ih => simp only [List.map_cons, insertBy, insertByG]; split <;> simp [ih]

theorem sortBy_map {α : Type} (f : α → PyAst) (key : PyAst → List Char) (l : List α) :
    sortBy key (l.map f) = (sortByG (fun a => key (f a)) l).map f := by
  induction l with
  | nil => rfl
  | cons x l ih => simp only [List.map_cons, sortBy, sortByG, ih, insertBy_map]

theorem filterMap_renderCons (c : Ctx) (cons : List Cons) :
    cons.filterMap (renderCons c) = (cons.filter consRenders).map (renderConsD c) := by
  induction cons with
  | nil => rfl
  | cons k ks ih =>
    by_cases hr : consRenders k = true
    · have h2 : renderCons c k = some (renderConsD c k) := by
        cases k with
        | pk n cols => cases cols with
          | nil => simp [consRenders] at hr
          | cons x xs => simp [renderConsD, renderCons]
        | fk n a b o => simp [renderConsD, renderCons]
        | uq n a d i kw => simp [renderConsD, renderCons]
        | ck n s => simp [renderConsD, renderCons]
      simp only [List.filterMap_cons, h2, List.filter_cons, hr, ↓reduceIte, List.map_cons, ih]
    · have h2 : renderCons c k = none := by
        cases k with
        | pk n cols => cases cols with
          | nil => simp [renderCons]
          | cons x xs => simp [consRenders] at hr
        | fk n a b o => simp [consRenders] at hr
        | uq n a d i kw => simp [consRenders] at hr
        | ck n s => simp [consRenders] at hr
      simp only [List.filterMap_cons, h2, List.filter_cons, hr, ih]
      simp

theorem mem_insertByG {α : Type} (key : α → List Char) (x y : α) (l : List α) : y ∈ insertByG key x l → y = x ∨ y ∈ l := by
  induction l with
  | nil => simp [insertByG]
  | cons z l ih =>
    simp only [insertByG]
    split
    · simp
    · simp only [List.mem_cons]
      intro h
      rcases h with h | h
      · exact Or.inr (Or.inl h)
      · rcases ih h with h | h
        · exact Or.inl h
        · exact Or.inr (Or.inr h)

theorem mem_sortByG {α : Type} (key : α → List Char) (y : α) (l : List α) : y ∈ sortByG key l → y ∈ l := by
  induction l with
  | nil => simp [sortByG]
  | cons x l ih =>
    simp only [sortByG]
    intro h
    rcases mem_insertByG key x y _ h with h | h
    · simp [h]
    · simp [ih h]


theorem dir_createTable : directiveOf (S "create_table") = some .createTable := by decide

/-- **create_table**: evaluating the rendered call gives back the table definition -/
theorem eval_createTable (ec : ECtx) (name : Str) (schema : Option Str) (cols : List Col) (cons : List Cons)
    (comment : Option Str) (kws : Kw) (ine : Option Bool)
    (hc : ∀ col ∈ cols, kwFresh colKnown col.kwargs = true) (hk : ∀ k ∈ cons, consEvalOk k = true)
    (hf : kwFresh tableKnown kws = true) :
    evalCallT ec (renderOp ec.c (.createTable name schema cols cons comment kws ine)) =
      some (normalizeT ec (.createTable name schema cols cons comment kws ine)) := by
  have hkw := fun n hn => kwArg_kwItems n kws _ hf hn
  -- the sorted constraint items
  obtain ⟨sorted, hsd⟩ : ∃ l, l = sortByG (fun k => pp ec.c.isP (renderConsD ec.c k)) (cons.filter consRenders) := ⟨_, rfl⟩
  have hsort : sortBy (pp ec.c.isP) (cons.filterMap (renderCons ec.c)) = sorted.map (renderConsD ec.c) := by
    rw [filterMap_renderCons, sortBy_map, hsd]
  have hmem : ∀ k ∈ sorted, consEvalOk k = true ∧ consRenders k = true := by
    intro k hk'
    rw [hsd] at hk'
    have := mem_sortByG _ _ _ hk'
    simp only [List.mem_filter] at this
    exact ⟨hk k this.1, this.2⟩
  have hargs := evalTableArgs_cols ec.c cols (sorted.map (renderConsD ec.c)) (sorted.map normCons) hc
    (evalTableArgs_cons ec.c sorted hmem)
  simp only [renderOp, normalizeT, evalCallT, stripPrefix_append, dir_createTable, hsort, ← hsd]
  simp +decide [evalCreateTable, tableKnown, kwOpt, posArgs_append, posArgs, posArgs_map_pos', posArgs_map_pos'',
    posArgs_pos_cons, kwArg_pos_cons, otherKw_pos_cons, hargs,
    kwArg_append, kwArg, kwArg_map_pos', kwArg_map_pos'', kwArg_optItem, schemaKw, hkw, otherKw_append, otherKw,
    otherKw_map_pos', otherKw_map_pos'', otherKw_optItem]
  exact otherKw_kwItems kws tableKnown hf

/-- `evalCallT` extends `evalCall` -/
theorem evalCallT_of_evalCall (ec : ECtx) (e : PyAst) (x : Op) (h : evalCall ec e = some x) : evalCallT ec e = some x := by
  cases e with
  | call fn lay items =>
    simp only [evalCall] at h
    simp only [evalCallT]
    cases hs : stripPrefix ec.c.op fn with
    | none => simp [hs] at h
    | some w =>
      simp only [hs] at h ⊢
      cases hd : directiveOf w with
      | none => simp [hd] at h
      | some d =>
        cases d <;> simp only [hd] at h ⊢ <;> first
          | (simp at h; done)
          | (simp only [evalCall, hs, hd]; exact h)
  | str s => simpa [evalCallT] using h
  | sq s => simpa [evalCallT] using h
  | name n => simpa [evalCallT] using h
  | list l => simpa [evalCallT] using h

/-- the evaluation round trip for **every** modelled directive, `create_table` included -/
theorem evalCallT_renderOp (ec : ECtx) (o : Op) (h : evalOkT o = true) :
    evalCallT ec (renderOp ec.c o) = some (normalizeT ec o) := by
  cases o with
  | createTable n s cols cons cm kws ine =>
    simp only [evalOkT, Bool.and_eq_true, List.all_eq_true] at h
    exact eval_createTable ec n s cols cons cm kws ine h.1.1 h.1.2 h.2
  | dropTable n s ie => exact evalCallT_of_evalCall ec _ _ (evalCall_renderOp ec _ h)
  | addColumn t s col => exact evalCallT_of_evalCall ec _ _ (evalCall_renderOp ec _ h)
  | dropColumn t s col => exact evalCallT_of_evalCall ec _ _ (evalCall_renderOp ec _ h)
  | alterColumn a => exact evalCallT_of_evalCall ec _ _ (evalCall_renderOp ec _ h)
  | createIndex n t s e u kws ine => exact evalCallT_of_evalCall ec _ _ (evalCall_renderOp ec _ h)
  | dropIndex n t s kws ie => exact evalCallT_of_evalCall ec _ _ (evalCall_renderOp ec _ h)
  | createUnique n t s cols d i kws => exact evalCallT_of_evalCall ec _ _ (evalCall_renderOp ec _ h)
  | createFK n src ref l r k => exact evalCallT_of_evalCall ec _ _ (evalCall_renderOp ec _ h)
  | dropConstraint n t s ty => exact evalCallT_of_evalCall ec _ _ (evalCall_renderOp ec _ h)
  | createTableComment t cm ex s => exact evalCallT_of_evalCall ec _ _ (evalCall_renderOp ec _ h)
  | dropTableComment t ex s => exact evalCallT_of_evalCall ec _ _ (evalCall_renderOp ec _ h)
end Model.Render
