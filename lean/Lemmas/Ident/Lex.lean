import Spec.Ident
/-! Helper lemmas about the lexer `Spec.Ident.lexFrom` (a fold over characters) and the quoting functions. -/
namespace Lemmas.Ident
open Model.Ident Spec.Ident

/-- tokens emitted while consuming `xs` (without the final flush) -/
def emits (k : Kind) : St → Str → List Tok
  | _, [] => []
  | st, c :: cs => (step k st c).2 ++ emits k (step k st c).1 cs

theorem lexFrom_append (k : Kind) (st : St) (xs ys : Str) :
    lexFrom k st (xs ++ ys) = emits k st xs ++ lexFrom k (runSt k st xs) ys := by
  induction xs generalizing st with
  | nil => simp [emits, runSt]
  | cons c cs ih => simp [lexFrom, emits, runSt, ih, List.append_assoc]

theorem lexFrom_eq (k : Kind) (st : St) (xs : Str) :
    lexFrom k st xs = emits k st xs ++ flush (runSt k st xs) := by
  have h := lexFrom_append k st xs []
  simpa [lexFrom] using h

theorem runSt_append (k : Kind) (st : St) (xs ys : Str) :
    runSt k st (xs ++ ys) = runSt k (runSt k st xs) ys := by
  induction xs generalizing st with
  | nil => simp [runSt]
  | cons c cs ih => simp [runSt, ih]

theorem emits_append (k : Kind) (st : St) (xs ys : Str) :
    emits k st (xs ++ ys) = emits k st xs ++ emits k (runSt k st xs) ys := by
  induction xs generalizing st with
  | nil => simp [runSt, emits]
  | cons c cs ih => simp [runSt, emits, ih, List.append_assoc]

/-! ## delimited identifiers -/

theorem run_escape (k : Kind) (a n : Str) :
    runSt k (.qid a) (escapeClose (closeQ k) n) = .qid (a ++ n) ∧
    emits k (.qid a) (escapeClose (closeQ k) n) = [] := by
  induction n generalizing a with
  | nil => simp [escapeClose, runSt, emits]
  | cons c r ih =>
    by_cases h : c = closeQ k
    · subst h
      have := ih (a ++ [closeQ k])
      simp [escapeClose, runSt, emits, step, this]
    · have := ih (a ++ [c])
      simp [escapeClose, h, runSt, emits, step, this]

theorem openQ_facts (k : Kind) : isSpace (openQ k) = false ∧ isWordStart k (openQ k) = false ∧
    (openQ k).isDigit = false := by
  cases k <;> decide

theorem closeQ_facts (k : Kind) : isSpace (closeQ k) = false ∧ isWordChar (closeQ k) = false ∧ closeQ k ≠ '\'' ∧
    closeQ k ≠ '%' ∧ closeQ k ≠ '\t' ∧ closeQ k ≠ '.' := by
  cases k <;> decide

/-- leaving the "just saw the close delimiter" state on any other character -/
theorem lexFrom_qidC (k : Kind) (a : Str) (c : Char) (cs : Str) (h : c ≠ closeQ k) :
    lexFrom k (.qidC a) (c :: cs) = .qid a :: lexFrom k .none (c :: cs) := by
  simp [lexFrom, step, h]

theorem lexFrom_delimited (k : Kind) (n rest : Str) (h : rest.head? ≠ some (closeQ k)) :
    lexFrom k .none (openQ k :: (escapeClose (closeQ k) n ++ closeQ k :: rest)) = .qid n :: lexFrom k .none rest := by
  have h1 : step k .none (openQ k) = (.qid [], []) := by
    simp [step, stepNone, openQ_facts]
  obtain ⟨e1, e2⟩ := run_escape k [] n
  rw [lexFrom, h1, lexFrom_append, e1, e2]
  cases rest with
  | nil => simp [lexFrom, step, flush]
  | cons c cs =>
    have hc : c ≠ closeQ k := by simpa using h
    simp only [List.nil_append]
    rw [lexFrom]
    simp only [step, if_pos, beq_self_eq_true, List.nil_append]
    exact lexFrom_qidC k n c cs hc

theorem dblPct_id (s : Str) (h : '%' ∉ s) : dblPct s = s := by
  induction s with
  | nil => rfl
  | cons c r ih =>
    have hc : c ≠ '%' := fun e => h (by simp [e])
    have hr : '%' ∉ r := fun e => h (by simp [e])
    simp [dblPct, hc, ih hr]

theorem mem_escapeClose (q x : Char) (s : Str) : x ∈ escapeClose q s ↔ x ∈ s := by
  induction s with
  | nil => simp [escapeClose]
  | cons c r ih =>
    by_cases h : c = q
    · subst h; simp [escapeClose, ih]
    · simp [escapeClose, h, ih]

theorem escapeIdent_eq (k : Kind) (n : Str) (h : dblPercent k = false ∨ '%' ∉ n) :
    escapeIdent k n = escapeClose (closeQ k) n := by
  unfold escapeIdent
  cases h with
  | inl h => simp [h]
  | inr h =>
    split
    · exact dblPct_id _ (by simpa [mem_escapeClose] using h)
    · rfl

theorem lex_quoteIdent (k : Kind) (n rest : Str) (hp : dblPercent k = false ∨ '%' ∉ n)
    (h : rest.head? ≠ some (closeQ k)) :
    lexFrom k .none (quoteIdent k n ++ rest) = .qid n :: lexFrom k .none rest := by
  have := lexFrom_delimited k n rest h
  simpa [quoteIdent, escapeIdent_eq k n hp, List.append_assoc] using this

/-! ## bare words -/

theorem run_word (k : Kind) (a n : Str) (h : n.all isWordChar = true) :
    runSt k (.word a) n = .word (a ++ n) ∧ emits k (.word a) n = [] := by
  induction n generalizing a with
  | nil => simp [runSt, emits]
  | cons c r ih =>
    simp only [List.all_cons, Bool.and_eq_true] at h
    have := ih (a ++ [c]) h.2
    simp [runSt, emits, step, h.1, this]

theorem lexFrom_word_sep (k : Kind) (a : Str) (c : Char) (cs : Str) (h : isWordChar c = false) :
    lexFrom k (.word a) (c :: cs) = .word a :: lexFrom k .none (c :: cs) := by
  simp [lexFrom, step, h]

/-- `legal_characters.match` without the trailing-newline quirk means: every character is legal -/
theorem legalChars_all (n : Str) (h : legalChars n = true) (hl : n.getLast? ≠ some '\n') :
    n.all isLegalChar = true := by
  induction n with
  | nil => simp [legalChars] at h
  | cons c r ih =>
    match r, h, hl, ih with
    | [], h, _, _ => simpa [legalChars] using h
    | [d], h, hl, ih =>
      by_cases hd : d = '\n'
      · subst hd; simp at hl
      · have h' : isLegalChar c = true ∧ legalChars [d] = true := by
          simpa [legalChars, hd] using h
        have := ih h'.2 (by simpa using hd)
        simp [h'.1, this]
    | d :: e :: r', h, hl, ih =>
      have h' : isLegalChar c = true ∧ legalChars (d :: e :: r') = true := by
        simpa [legalChars] using h
      have := ih h'.2 (by simpa using hl)
      simp [h'.1] at this ⊢
      exact this

theorem legal_wordChar (c : Char) (h : isLegalChar c = true) : isWordChar c = true := by
  unfold isLegalChar at h
  unfold isWordChar
  simp only [Bool.or_eq_true, beq_iff_eq] at h
  rcases h with ((((((h | h) | h) | h) | h) | h) | h)
  · simp [h]
  · simp [h]
  · simp [h]
  · subst h; decide
  · subst h; decide
  · subst h; decide
  · subst h; decide

end Lemmas.Ident
