import Spec.Ident
/-! Helper lemmas about the lexer `Spec.Ident.lexFrom` (a fold over characters) and the quoting functions. -/
namespace Lemmas.Ident
open Model.Ident Spec.Ident

/-- tokens emitted while consuming `xs` (without the final flush) -/
def emits (k : Kind) : St → Str → List Tok
  | _, [] => []
  | st, c :: cs => (step k st c).2 ++ emits k (step k st c).1 cs

theorem lexFrom_append (k : Kind) (st : St) (xs ys : Str) :
    lexFrom k st (xs ++ ys) = emits k st xs ++ lexFrom k (runSt k st xs) ys := by
  induction xs generalizing st with
  | nil => simp [emits, runSt]
  | cons c cs ih => simp [lexFrom, emits, runSt, ih, List.append_assoc]

theorem lexFrom_eq (k : Kind) (st : St) (xs : Str) :
    lexFrom k st xs = emits k st xs ++ flush (runSt k st xs) := by
  have h := lexFrom_append k st xs []
  simpa [lexFrom] using h

theorem runSt_append (k : Kind) (st : St) (xs ys : Str) :
    runSt k st (xs ++ ys) = runSt k (runSt k st xs) ys := by
  induction xs generalizing st with
  | nil => simp [runSt]
  | cons c cs ih => simp [runSt, ih]

theorem emits_append (k : Kind) (st : St) (xs ys : Str) :
    emits k st (xs ++ ys) = emits k st xs ++ emits k (runSt k st xs) ys := by
  induction xs generalizing st with
  | nil => simp [runSt, emits]
  | cons c cs ih => simp [runSt, emits, ih, List.append_assoc]

/-! ## delimited identifiers -/

theorem run_escape (k : Kind) (a n : Str) :
    runSt k (.qid a) (escapeClose (closeQ k) n) = .qid (a ++ n) ∧
    emits k (.qid a) (escapeClose (closeQ k) n) = [] := by
  induction n generalizing a with
  | nil => simp [escapeClose, runSt, emits]
  | cons c r ih =>
    by_cases h : c = closeQ k
    · subst h
      have := ih (a ++ [closeQ k])
      simp [escapeClose, runSt, emits, step, this]
    · have := ih (a ++ [c])
      simp [escapeClose, h, runSt, emits, step, this]

theorem openQ_facts (k : Kind) : isSpace (openQ k) = false ∧ isWordStart k (openQ k) = false ∧
    (openQ k).isDigit = false := by
  cases k <;> decide

theorem closeQ_facts (k : Kind) : isSpace (closeQ k) = false ∧ isWordChar (closeQ k) = false ∧ closeQ k ≠ '\'' ∧
    closeQ k ≠ '%' ∧ closeQ k ≠ '\t' ∧ closeQ k ≠ '.' := by
  cases k <;> decide

/-- leaving the "just saw the close delimiter" state on any other character -/
theorem lexFrom_qidC (k : Kind) (a : Str) (c : Char) (cs : Str) (h : c ≠ closeQ k) :
    lexFrom k (.qidC a) (c :: cs) = .qid a :: lexFrom k .none (c :: cs) := by
  simp [lexFrom, step, h]

theorem lexFrom_delimited (k : Kind) (n rest : Str) (h : rest.head? ≠ some (closeQ k)) :
    lexFrom k .none (openQ k :: (escapeClose (closeQ k) n ++ closeQ k :: rest)) = .qid n :: lexFrom k .none rest := by
  have h1 : step k .none (openQ k) = (.qid [], []) := by
    simp [step, stepNone, openQ_facts]
  obtain ⟨e1, e2⟩ := run_escape k [] n
  rw [lexFrom, h1, lexFrom_append, e1, e2]
  cases rest with
  | nil => simp [lexFrom, step, flush]
  | cons c cs =>
    have hc : c ≠ closeQ k := by simpa using h
    simp only [List.nil_append]
    rw [lexFrom]
    simp only [step, if_pos, beq_self_eq_true, List.nil_append]
    exact lexFrom_qidC k n c cs hc

theorem dblPct_id (s : Str) (h : '%' ∉ s) : dblPct s = s := by
  induction s with
  | nil => rfl
  | cons c r ih =>
    have hc : c ≠ '%' := fun e => h (by simp [e])
    have hr : '%' ∉ r := fun e => h (by simp [e])
    simp [dblPct, hc, ih hr]

theorem mem_escapeClose (q x : Char) (s : Str) : x ∈ escapeClose q s ↔ x ∈ s := by
  induction s with
  | nil => simp [escapeClose]
  | cons c r ih =>
    by_cases h : c = q
    · subst h; simp [escapeClose, ih]
    · simp [escapeClose, h, ih]

theorem escapeIdent_eq (k : Kind) (n : Str) (h : dblPercent k = false ∨ '%' ∉ n) :
    escapeIdent k n = escapeClose (closeQ k) n := by
  unfold escapeIdent
  cases h with
  | inl h => simp [h]
  | inr h =>
    split
    · exact dblPct_id _ (by simpa [mem_escapeClose] using h)
    · rfl

theorem lex_quoteIdent (k : Kind) (n rest : Str) (hp : dblPercent k = false ∨ '%' ∉ n)
    (h : rest.head? ≠ some (closeQ k)) :
    lexFrom k .none (quoteIdent k n ++ rest) = .qid n :: lexFrom k .none rest := by
  have := lexFrom_delimited k n rest h
  simpa [quoteIdent, escapeIdent_eq k n hp, List.append_assoc] using this

/-! ## string literals -/

theorem run_strEscape (k : Kind) (a s : Str) (hb : backslashEscapes k = false ∨ '\\' ∉ s) :
    runSt k (.str a) (escapeClose '\'' s) = .str (a ++ s) ∧ emits k (.str a) (escapeClose '\'' s) = [] := by
  induction s generalizing a with
  | nil => simp [escapeClose, runSt, emits]
  | cons c t ih =>
    have hb' : backslashEscapes k = false ∨ '\\' ∉ t := by
      rcases hb with h | h
      · exact Or.inl h
      · exact Or.inr (fun e => h (by simp [e]))
    by_cases h : c = '\''
    · subst h
      have := ih (a ++ ['\'']) hb'
      simp [escapeClose, runSt, emits, step, this]
    · have hc : (backslashEscapes k && c == '\\') = false := by
        rcases hb with h' | h'
        · simp [h']
        · have : c ≠ '\\' := fun e => h' (by simp [e])
          simp [this]
      have := ih (a ++ [c]) hb'
      simp [escapeClose, h, runSt, emits, step, hc, this]

theorem lex_sqlLiteral (k : Kind) (s rest : Str) (hb : backslashEscapes k = false ∨ '\\' ∉ s)
    (h : rest.head? ≠ some '\'') :
    lexFrom k .none (sqlLiteral s ++ rest) = .str s :: lexFrom k .none rest := by
  have h1 : step k .none '\'' = (.str [], []) := by
    cases k <;> simp [step, stepNone, isWordStart, isSpace, isPySpace, openQ]
  obtain ⟨e1, e2⟩ := run_strEscape k [] s hb
  simp only [sqlLiteral, List.cons_append, List.append_assoc, List.nil_append]
  rw [lexFrom, h1, lexFrom_append, e1, e2]
  cases rest with
  | nil => simp [lexFrom, step, flush]
  | cons c cs =>
    have hc : c ≠ '\'' := by simpa using h
    simp [lexFrom, step, hc]

theorem escapeClose_id (q : Char) (s : Str) (h : q ∉ s) : escapeClose q s = s := by
  induction s with
  | nil => rfl
  | cons c t ih =>
    have hc : c ≠ q := fun e => h (by simp [e])
    have ht : q ∉ t := fun e => h (by simp [e])
    simp [escapeClose, hc, ih ht]

/-! ## bare words -/

theorem run_word (k : Kind) (a n : Str) (h : n.all isWordChar = true) :
    runSt k (.word a) n = .word (a ++ n) ∧ emits k (.word a) n = [] := by
  induction n generalizing a with
  | nil => simp [runSt, emits]
  | cons c r ih =>
    simp only [List.all_cons, Bool.and_eq_true] at h
    have := ih (a ++ [c]) h.2
    simp [runSt, emits, step, h.1, this]

theorem lexFrom_word_sep (k : Kind) (a : Str) (c : Char) (cs : Str) (h : isWordChar c = false) :
    lexFrom k (.word a) (c :: cs) = .word a :: lexFrom k .none (c :: cs) := by
  simp [lexFrom, step, h]

/-- `legal_characters.match` without the trailing-newline quirk means: every character is legal -/
theorem legalChars_all (n : Str) (h : legalChars n = true) (hl : n.getLast? ≠ some '\n') :
    n.all isLegalChar = true := by
  induction n with
  | nil => simp [legalChars] at h
  | cons c r ih =>
    match r, h, hl, ih with
    | [], h, _, _ => simpa [legalChars] using h
    | [d], h, hl, ih =>
      by_cases hd : d = '\n'
      · subst hd; simp at hl
      · have h' : isLegalChar c = true ∧ legalChars [d] = true := by
          simpa [legalChars, hd] using h
        have := ih h'.2 (by simpa using hd)
        simp [h'.1, this]
    | d :: e :: r', h, hl, ih =>
      have h' : isLegalChar c = true ∧ legalChars (d :: e :: r') = true := by
        simpa [legalChars] using h
      have := ih h'.2 (by simpa using hl)
      simp [h'.1] at this ⊢
      exact this

theorem legal_wordChar (c : Char) (h : isLegalChar c = true) : isWordChar c = true := by
  unfold isLegalChar at h
  unfold isWordChar
  simp only [Bool.or_eq_true, beq_iff_eq] at h
  rcases h with ((((((h | h) | h) | h) | h) | h) | h)
  · simp [h]
  · simp [h]
  · simp [h]
  · subst h; decide
  · subst h; decide
  · subst h; decide
  · subst h; decide


theorem requiresQuotes_false (k : Kind) (r : Str → Bool) (n : Str) (h : requiresQuotes k r n = false) :
    r n = false ∧ legalChars n = true ∧ hasUpper n = false ∧
    ∃ c t, n = c :: t ∧ illegalInitial k c = false := by
  unfold requiresQuotes at h
  cases n with
  | nil => simp at h
  | cons c t =>
    simp only [Bool.or_eq_false_iff, Bool.not_eq_false'] at h
    exact ⟨h.1.1.1, h.1.2, h.2, c, t, rfl, h.1.1.2⟩

theorem legalChars_head (c : Char) (t : Str) (h : legalChars (c :: t) = true) : isLegalChar c = true := by
  match t, h with
  | [], h => simpa [legalChars] using h
  | [d], h =>
    by_cases hd : d = '\n'
    · subst hd; simpa [legalChars] using h
    · have : isLegalChar c = true ∧ legalChars [d] = true := by simpa [legalChars, hd] using h
      exact this.1
  | d :: e :: r', h =>
    have : isLegalChar c = true ∧ legalChars (d :: e :: r') = true := by simpa [legalChars] using h
    exact this.1

theorem wordStart_of_legal (k : Kind) (c : Char) (hl : isLegalChar c = true) (hi : illegalInitial k c = false)
    (hu : isUpperCh c = false) : isWordStart k c = true := by
  unfold isLegalChar at hl
  unfold illegalInitial at hi
  unfold isUpperCh at hu
  unfold isWordStart
  simp only [Bool.or_eq_true, beq_iff_eq, Bool.or_eq_false_iff, Bool.and_eq_false_imp, bne_iff_ne,
    Bool.and_eq_true, beq_eq_false_iff_ne] at *
  rcases hl with ((((((h | h) | h) | h) | h) | h) | h)
  · have : c.isAlpha = true ∨ c.isDigit = true := by simpa [Char.isAlphanum] using h
    rcases this with h' | h'
    · simp [h']
    · simp [h'] at hi
  · subst h
    have : k ≠ .oracle := by
      intro e; subst e; simp at hi
    simp [this]
  · simp [h] at hi
  · simp [h] at hu
  · subst h; right; decide
  · subst h; right; decide
  · simp [h] at hu

/-- **bare names**: a name SQLAlchemy leaves unquoted lexes as one bare word -/
theorem lex_bare (k : Kind) (r : Str → Bool) (n rest : Str) (hq : requiresQuotes k r n = false)
    (hl : n.getLast? ≠ some '\n')
    (hs : ∀ c, rest.head? = some c → isWordChar c = false) :
    lexFrom k .none (n ++ rest) = .word n :: lexFrom k .none rest := by
  obtain ⟨_, hleg, hup, c, t, rfl, hi⟩ := requiresQuotes_false k r n hq
  have hall := legalChars_all _ hleg hl
  simp only [List.all_cons, Bool.and_eq_true] at hall
  have hupc : isUpperCh c = false := by
    simp only [hasUpper, List.any_cons, Bool.or_eq_false_iff] at hup
    exact hup.1
  have hws := wordStart_of_legal k c hall.1 hi hupc
  have hwt : t.all isWordChar = true := by
    rw [List.all_eq_true] at *
    intro x hx
    exact legal_wordChar x (hall.2 x hx)
  obtain ⟨e1, e2⟩ := run_word k [c] t hwt
  have h1 : step k .none c = (.word [c], []) := by simp [step, stepNone, hws]
  rw [List.cons_append, lexFrom, h1, lexFrom_append, e1, e2]
  cases rest with
  | nil => simp [lexFrom, flush]
  | cons d ds =>
    have hd : isWordChar d = false := hs d (by simp)
    simpa using lexFrom_word_sep k ([c] ++ t) d ds hd

/-! ## names as the visitors format them -/

/-- the token a correctly formatted name lexes to -/
def nameTok (k : Kind) (r : Str → Bool) (n : Name) : Tok :=
  match n.qn with
  | some (some true) => .qid n.s
  | _ => if requiresQuotes k r n.s then .qid n.s else .word n.s

/-- well-formedness of a name for the statement theorems -/
structure NameOK (k : Kind) (n : Name) : Prop where
  nonempty : n.s ≠ []
  pct : dblPercent k = false ∨ '%' ∉ n.s
  nl : n.s.getLast? ≠ some '\n'
  tab : '\t' ∉ n.s
  noForceOff : n.qn ≠ some (some false)

/-- a character that may directly follow a name or an opaque text -/
def sepChar (k : Kind) (c : Char) : Bool := !isWordChar c && c != closeQ k && c != '\''

def sepHead (k : Kind) (rest : Str) : Prop := ∀ c, rest.head? = some c → sepChar k c = true

theorem lex_quote (k : Kind) (r : Str → Bool) (n rest : Str)
    (hp : dblPercent k = false ∨ '%' ∉ n) (hl : n.getLast? ≠ some '\n') (hs : sepHead k rest) :
    lexFrom k .none (quote k r n ++ rest) =
      (if requiresQuotes k r n then Tok.qid n else Tok.word n) :: lexFrom k .none rest := by
  unfold quote
  by_cases hq : requiresQuotes k r n = true
  · simp only [hq, if_true]
    apply lex_quoteIdent k n rest hp
    intro e
    have := hs _ e
    simp [sepChar] at this
  · simp only [hq]
    simp only [Bool.not_eq_true] at hq
    apply lex_bare k r n rest hq hl
    intro c e
    have := hs c e
    simp only [sepChar, Bool.and_eq_true, Bool.not_eq_true'] at this
    exact this.1.1

theorem lex_quoteName (k : Kind) (r : Str → Bool) (n : Name) (rest : Str) (ok : NameOK k n) (hs : sepHead k rest) :
    lexFrom k .none (quoteName k r n ++ rest) = nameTok k r n :: lexFrom k .none rest := by
  have hq : rest.head? ≠ some (closeQ k) := by
    intro e
    have := hs _ e
    simp [sepChar] at this
  unfold quoteName nameTok
  match hqn : n.qn with
  | some (some true) => simpa using lex_quoteIdent k n.s rest ok.pct hq
  | some (some false) => exact absurd hqn ok.noForceOff
  | some none => simpa using lex_quote k r n.s rest ok.pct ok.nl hs
  | none => simpa using lex_quote k r n.s rest ok.pct ok.nl hs

theorem denote_nameTok (k : Kind) (r : Str → Bool) (n : Name) : denote r (nameTok k r n) = some n.s := by
  unfold nameTok
  have bare : requiresQuotes k r n.s = false → denote r (.word n.s) = some n.s := by
    intro h
    obtain ⟨hr, _, hup, _⟩ := requiresQuotes_false k r n.s h
    have : bareSafe r n.s = true := by
      simp only [bareSafe, hr, Bool.not_false, Bool.true_and]
      simp only [hasUpper] at hup
      rw [List.all_eq_true]
      intro x hx
      have := List.any_eq_false.mp hup x hx
      simpa [isUpperCh] using this
    simp [denote, this]
  match n.qn with
  | some (some true) => simp [denote]
  | some (some false) | some none | none =>
    by_cases h : requiresQuotes k r n.s = true
    · simp [h, denote]
    · simp only [Bool.not_eq_true] at h
      simp [h, bare h]

end Lemmas.Ident
