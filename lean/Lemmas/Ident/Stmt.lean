import Lemmas.Ident.Lex
/-!
A statement as a list of *pieces* (fixed text, dotted chain of formatted names, opaque text):
the generic theorem `pieces_ok` says that the rendered pieces, lexed, match the items of the
pieces.  Each per-construct theorem instantiates it.
-/
namespace Lemmas.Ident
open Model.Ident Spec.Ident

/-! ## dotted chains of names -/

def dottedNames (k : Kind) (r : Str → Bool) : List Name → Str
  | [] => []
  | [n] => quoteName k r n
  | n :: ns => quoteName k r n ++ '.' :: dottedNames k r ns

def dotToks : List Tok → List Tok
  | [] => []
  | [t] => [t]
  | t :: ts => t :: .sym '.' :: dotToks ts

theorem step_dot (k : Kind) : stepNone k '.' = (.none, [.sym '.']) := by
  cases k <;> decide

theorem sepChar_dot (k : Kind) : sepChar k '.' = true := by
  cases k <;> decide

theorem lex_dotted (k : Kind) (r : Str → Bool) (ns : List Name) (rest : Str) (hne : ns ≠ [])
    (ok : ∀ n ∈ ns, NameOK k n) (hs : sepHead k rest) :
    lexFrom k .none (dottedNames k r ns ++ rest) = dotToks (ns.map (nameTok k r)) ++ lexFrom k .none rest := by
  induction ns with
  | nil => exact absurd rfl hne
  | cons n ns ih =>
    cases ns with
    | nil =>
      simpa [dottedNames, dotToks] using lex_quoteName k r n rest (ok n (by simp)) hs
    | cons m ns' =>
      have h1 : sepHead k ('.' :: (dottedNames k r (m :: ns') ++ rest)) := by
        intro c hc
        simp at hc
        subst hc
        exact sepChar_dot k
      have := lex_quoteName k r n ('.' :: (dottedNames k r (m :: ns') ++ rest)) (ok n (by simp)) h1
      have ih' := ih (by simp) (fun x hx => ok x (by simp [hx]))
      simp only [dottedNames, List.append_assoc, List.cons_append, List.map_cons, dotToks]
      rw [this, lexFrom]
      simp only [step, step_dot, List.cons_append, List.nil_append]
      simp only [List.map_cons] at ih'
      rw [ih']

def noDot (T : List Tok) : Prop := T.head? ≠ some (.sym '.')

theorem chain_dotToks (k : Kind) (r : Str → Bool) (ns : List Name) (T : List Tok) (hne : ns ≠ []) (hT : noDot T) :
    chain r (dotToks (ns.map (nameTok k r)) ++ T) = some (ns.map (·.s), T) := by
  induction ns with
  | nil => exact absurd rfl hne
  | cons n ns ih =>
    cases ns with
    | nil =>
      simp only [List.map_cons, List.map_nil, dotToks, List.cons_append, List.nil_append]
      unfold chain
      simp only [denote_nameTok]
      split
      · rename_i rest'
        exact absurd (by simp) hT
      · rfl
    | cons m ns' =>
      have ih' := ih (by simp)
      simp only [List.map_cons] at ih'
      simp only [List.map_cons, dotToks, List.cons_append]
      unfold chain
      simp only [denote_nameTok, ih']

/-! ## pieces -/

inductive Piece
  | lit (m s : Str)                           -- model text `m`, specification text `s` (same tokens)
  | chain (ns : List Name) (item : Item0)     -- `n1.n2.….nm`, matched by `item`
  | opq (t : Str)

def renderP (k : Kind) (r : Str → Bool) : Piece → Str
  | .lit m _ => m
  | .chain ns _ => dottedNames k r ns
  | .opq t => t

def renderPs (k : Kind) (r : Str → Bool) : List Piece → Str
  | [] => []
  | p :: ps => renderP k r p ++ renderPs k r ps

def toksP (k : Kind) (r : Str → Bool) : Piece → List Tok
  | .lit _ s => lex k s
  | .chain ns _ => dotToks (ns.map (nameTok k r))
  | .opq t => lex k t

def toksPs (k : Kind) (r : Str → Bool) : List Piece → List Tok
  | [] => []
  | p :: ps => toksP k r p ++ toksPs k r ps

def itemsP : Piece → List Item
  | .lit _ s => if s.isEmpty then [] else [.base (.text s)]
  | .chain _ it => [.base it]
  | .opq t => [.base (.text t)]

def itemsPs : List Piece → List Item
  | [] => []
  | p :: ps => itemsP p ++ itemsPs ps

/-- the piece ends inside a token, so a separator must follow -/
def endsOpen (k : Kind) : Piece → Bool
  | .lit m _ => runSt k .none m != .none
  | _ => true

def headSep (k : Kind) : List Piece → Bool
  | .lit (c :: _) _ :: _ => sepChar k c
  | _ => false

def isChain : Piece → Bool
  | .chain _ _ => true
  | _ => false

/-- the first token after a chain is not a dot -/
def nextTokOk (k : Kind) : List Piece → Bool
  | [] => true
  | .lit _ s :: ps =>
    match lex k s with
    | tok :: _ => tok != .sym '.'
    | [] => nextTokOk k ps
  | _ :: _ => true

def pieceOk (k : Kind) : Piece → Bool
  | .lit m s => cleanSt (runSt k .none m) && lex k m == lex k s && (s.isEmpty → (lex k s).isEmpty)
  | _ => true

/-- the closed (name-independent) side conditions of a piece list -/
def wf (k : Kind) : List Piece → Bool
  | [] => true
  | p :: ps => pieceOk k p && (ps.isEmpty || !endsOpen k p || headSep k ps) && (!isChain p || nextTokOk k ps) && wf k ps

def itemOk : Item0 → List Name → Prop
  | .ref sch names, ns => refOk sch names (ns.map (·.s)) = true
  | .text _, _ => False

/-- the name-dependent side conditions -/
def PieceOK (k : Kind) : Piece → Prop
  | .lit _ _ => True
  | .chain ns it => ns ≠ [] ∧ (∀ n ∈ ns, NameOK k n) ∧ itemOk it ns
  | .opq t => okText k t = true

def PiecesOK (k : Kind) (ps : List Piece) : Prop := ∀ p ∈ ps, PieceOK k p

theorem lexFrom_clean (k : Kind) (st : St) (tail : Str) (hc : cleanSt st = true)
    (hs : st = .none ∨ sepHead k tail) : lexFrom k st tail = flush st ++ lexFrom k .none tail := by
  cases hs with
  | inl h => subst h; simp [flush]
  | inr hs =>
    cases tail with
    | nil => cases st <;> simp [lexFrom, flush]
    | cons c cs =>
      have h := hs c (by simp)
      simp only [sepChar, Bool.and_eq_true, Bool.not_eq_true', bne_iff_ne, ne_eq] at h
      obtain ⟨⟨h1, h2⟩, h3⟩ := h
      cases st <;> simp_all [lexFrom, step, flush, cleanSt]

theorem okText_clean (k : Kind) (t : Str) (h : okText k t = true) : cleanSt (runSt k .none t) = true := by
  unfold okText at h
  simp only [Bool.and_eq_true] at h
  exact h.1.1.1.2

theorem lex_text_piece (k : Kind) (m tail : Str) (hc : cleanSt (runSt k .none m) = true)
    (hs : runSt k .none m = .none ∨ sepHead k tail) :
    lexFrom k .none (m ++ tail) = lex k m ++ lexFrom k .none tail := by
  rw [lexFrom_append, lexFrom_clean k _ tail hc hs, lex, lexFrom_eq k .none m, List.append_assoc]

theorem sepHead_of_headSep (k : Kind) (r : Str → Bool) (ps : List Piece) (rest : Str) (h : headSep k ps = true) :
    sepHead k (renderPs k r ps ++ rest) := by
  match ps, h with
  | .lit (c :: m) s :: ps', h =>
    intro d hd
    simp [renderPs, renderP] at hd
    subst hd
    simpa [headSep] using h

/-- (L) the rendered pieces lex to the concatenation of the pieces' tokens -/
theorem lex_pieces (k : Kind) (r : Str → Bool) (ps : List Piece) (rest : Str) (hwf : wf k ps = true)
    (hok : PiecesOK k ps) (hrest : sepHead k rest) :
    lexFrom k .none (renderPs k r ps ++ rest) = toksPs k r ps ++ lexFrom k .none rest := by
  induction ps with
  | nil => simp [renderPs, toksPs]
  | cons p ps ih =>
    simp only [wf, Bool.and_eq_true] at hwf
    obtain ⟨⟨⟨hp, hb⟩, _⟩, hwf'⟩ := hwf
    have ih' := ih hwf' (fun q hq => hok q (by simp [hq]))
    have htail : endsOpen k p = true → sepHead k (renderPs k r ps ++ rest) := by
      intro ho
      simp only [Bool.or_eq_true, Bool.not_eq_true', List.isEmpty_iff] at hb
      rcases hb with (hb | hb) | hb
      · subst hb; simpa [renderPs] using hrest
      · simp [ho] at hb
      · exact sepHead_of_headSep k r ps rest hb
    have hpk := hok p (by simp)
    simp only [renderPs, toksPs, List.append_assoc]
    cases p with
    | lit m s =>
      simp only [pieceOk, Bool.and_eq_true, beq_iff_eq] at hp
      have hs : runSt k .none m = .none ∨ sepHead k (renderPs k r ps ++ rest) := by
        by_cases h : runSt k .none m = .none
        · exact Or.inl h
        · exact Or.inr (htail (by simp [endsOpen, h]))
      simp only [renderP, toksP]
      rw [lex_text_piece k m _ hp.1.1 hs, ih', hp.1.2]
    | chain ns it =>
      obtain ⟨hne, hn, _⟩ := hpk
      simp only [renderP, toksP]
      rw [lex_dotted k r ns _ hne hn (htail rfl), ih']
    | opq t =>
      simp only [renderP, toksP]
      rw [lex_text_piece k t _ (okText_clean k t hpk) (Or.inr (htail rfl)), ih']

theorem dropPrefix_append (a b : List Tok) : dropPrefix? a (a ++ b) = some b := by
  induction a with
  | nil => simp [dropPrefix?]
  | cons x xs ih => simp [dropPrefix?, ih]

theorem match_text (k : Kind) (r : Str → Bool) (s : Str) (is : List Item) (X : List Tok) :
    matchItems k r (.base (.text s) :: is) (lex k s ++ X) = matchItems k r is X := by
  simp [matchItems, match0, dropPrefix_append]

theorem match_chain (k : Kind) (r : Str → Bool) (ns : List Name) (sch : List Str) (names : List Str)
    (is : List Item) (X : List Tok) (hne : ns ≠ []) (hX : noDot X) (hok : refOk sch names (ns.map (·.s)) = true) :
    matchItems k r (.base (.ref sch names) :: is) (dotToks (ns.map (nameTok k r)) ++ X) = matchItems k r is X := by
  simp [matchItems, match0, chain_dotToks k r ns X hne hX, hok]

theorem okText_head (k : Kind) (t : Str) (X : List Tok) (h : okText k t = true) : noDot (lex k t ++ X) := by
  unfold okText at h
  simp only [Bool.and_eq_true] at h
  have h2 := h.2
  unfold noDot
  cases hl : lex k t with
  | nil => simp [hl] at h2
  | cons tok rest =>
    simp only [hl, bne_iff_ne, ne_eq] at h2
    simpa using h2

theorem nameTok_ne_dot (k : Kind) (r : Str → Bool) (n : Name) : nameTok k r n ≠ .sym '.' := by
  unfold nameTok
  split
  · simp
  · split <;> simp

theorem noDot_toks (k : Kind) (r : Str → Bool) (ps : List Piece) (T : List Tok) (hn : nextTokOk k ps = true)
    (hok : PiecesOK k ps) (hT : noDot T) : noDot (toksPs k r ps ++ T) := by
  induction ps with
  | nil => simpa [toksPs] using hT
  | cons p ps ih =>
    have hpk := hok p (by simp)
    cases p with
    | lit m s =>
      simp only [nextTokOk] at hn
      simp only [toksPs, toksP, List.append_assoc]
      cases hl : lex k s with
      | nil =>
        simp only [hl] at hn
        simpa using ih hn (fun q hq => hok q (by simp [hq]))
      | cons tok rest =>
        simp only [hl, bne_iff_ne, ne_eq] at hn
        simpa [noDot] using hn
    | chain ns it =>
      obtain ⟨hne, _, _⟩ := hpk
      simp only [toksPs, toksP, List.append_assoc]
      cases ns with
      | nil => exact absurd rfl hne
      | cons n ns' =>
        cases ns' <;> simp [noDot, dotToks, nameTok_ne_dot]
    | opq t =>
      simp only [toksPs, toksP, List.append_assoc]
      exact okText_head k t _ hpk

/-- (M) the pieces' tokens match the pieces' items -/
theorem match_pieces (k : Kind) (r : Str → Bool) (ps : List Piece) (more : List Item) (T : List Tok)
    (hwf : wf k ps = true) (hok : PiecesOK k ps) (hT : noDot T) :
    matchItems k r (itemsPs ps ++ more) (toksPs k r ps ++ T) = matchItems k r more T := by
  induction ps with
  | nil => simp [itemsPs, toksPs]
  | cons p ps ih =>
    simp only [wf, Bool.and_eq_true] at hwf
    obtain ⟨⟨⟨hp, _⟩, hc⟩, hwf'⟩ := hwf
    have hok' : PiecesOK k ps := fun q hq => hok q (by simp [hq])
    have ih' := ih hwf' hok'
    have hpk := hok p (by simp)
    simp only [itemsPs, toksPs, List.append_assoc]
    cases p with
    | lit m s =>
      simp only [itemsP, toksP]
      by_cases hs : s.isEmpty = true
      · simp only [pieceOk, Bool.and_eq_true, decide_eq_true_eq] at hp
        have : lex k s = [] := by simpa using hp.2 hs
        simp [hs, this, ih']
      · simp only [hs, Bool.false_eq_true, if_false, List.cons_append, List.nil_append]
        rw [match_text, ih']
    | chain ns it =>
      obtain ⟨hne, _, hit⟩ := hpk
      have hX : noDot (toksPs k r ps ++ T) := by
        apply noDot_toks k r ps T _ hok' hT
        simpa [isChain] using hc
      cases it with
      | text t => exact absurd hit (by simp [itemOk])
      | ref sch names =>
        simp only [itemsP, toksP, List.cons_append, List.nil_append]
        rw [match_chain k r ns sch names _ _ hne hX hit, ih']
    | opq t =>
      simp only [itemsP, toksP, List.cons_append, List.nil_append]
      rw [match_text, ih']

/-- **generic statement theorem** -/
theorem pieces_ok (k : Kind) (r : Str → Bool) (ps : List Piece) (rest : Str) (hwf : wf k ps = true)
    (hok : PiecesOK k ps) (hrest : sepHead k rest) (hT : noDot (lexFrom k .none rest)) :
    matchItems k r (itemsPs ps) (lexFrom k .none (renderPs k r ps ++ rest)) = some (lexFrom k .none rest) := by
  rw [lex_pieces k r ps rest hwf hok hrest]
  have := match_pieces k r ps [] (lexFrom k .none rest) hwf hok hT
  simpa [matchItems] using this

end Lemmas.Ident
