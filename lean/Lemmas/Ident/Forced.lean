import Lemmas.Ident.Mssql
/-! `Spec.Ident.forcedQuoted` for statements given as pieces: a name passed as `quoted_name(…, quote=True)` is
    formatted by `quoteName` as a delimited identifier, so it occurs as a `qid` token. -/
namespace Lemmas.Ident
open Model.Ident Spec.Ident

def chainNames : List Piece → List Name
  | [] => []
  | .chain ns _ :: ps => ns ++ chainNames ps
  | _ :: ps => chainNames ps

theorem mem_dotToks (t : Tok) (ts : List Tok) (h : t ∈ ts) : t ∈ dotToks ts := by
  induction ts with
  | nil => simp at h
  | cons x xs ih =>
    cases xs with
    | nil => simpa [dotToks] using h
    | cons y ys =>
      simp only [List.mem_cons] at h
      rcases h with rfl | h
      · simp [dotToks]
      · have := ih (by simpa using h)
        simp [dotToks, this]

theorem nameTok_forced (k : Kind) (r : Str → Bool) (n : Name) (hq : n.qn = some (some true)) :
    nameTok k r n = .qid n.s := by
  simp [nameTok, hq]

theorem qid_mem_toksPs (k : Kind) (r : Str → Bool) (ps : List Piece) (n : Name) (hn : n ∈ chainNames ps)
    (hq : n.qn = some (some true)) : Tok.qid n.s ∈ toksPs k r ps := by
  induction ps with
  | nil => simp [chainNames] at hn
  | cons p ps ih =>
    cases p with
    | lit m s =>
      simp only [chainNames] at hn
      simp [toksPs, ih hn]
    | opq t =>
      simp only [chainNames] at hn
      simp [toksPs, ih hn]
    | chain ns it =>
      simp only [chainNames, List.mem_append] at hn
      rcases hn with hn | hn
      · have : Tok.qid n.s ∈ dotToks (ns.map (nameTok k r)) := by
          apply mem_dotToks
          rw [← nameTok_forced k r n hq]
          exact List.mem_map_of_mem hn
        simp [toksPs, toksP, this]
      · simp [toksPs, ih hn]

/-- the forced-quote clause for a statement that is a list of pieces -/
theorem forced_pieces (k : Kind) (r : Str → Bool) (c : Construct) (ps : List Piece) (hwf : wf k ps = true)
    (hok : PiecesOK k ps)
    (hcov : ∀ n ∈ identNames c, n.qn = some (some true) → n.s = [] ∨ n ∈ chainNames ps) :
    forcedQuoted k c (renderPs k r ps ++ terminator k) = true := by
  unfold forcedQuoted
  rw [List.all_eq_true]
  intro n hn
  split
  · rename_i hq
    rcases hcov n hn hq with h | h
    · simp [h]
    · have hl := lex_pieces k r ps (terminator k) hwf hok (sepHead_term k)
      have hm := qid_mem_toksPs k r ps n h hq
      simp only [Bool.or_eq_true]
      right
      simp only [lex, hl, toksDeep, List.contains_eq_mem, List.mem_append, decide_eq_true_eq]
      exact Or.inl (Or.inl hm)
  · rfl

/-- the forced-quote clause for a statement `pre '<chain>' pieces rest` whose chain sits inside a string literal (MSSQL) -/
theorem forced_literal_stmt (r : Str → Bool) (c : Construct) (pre stmt : Str) (ns : List Name) (ps : List Piece) (rest : Str)
    (hlex : lexFrom .mssql .none stmt =
      lex .mssql pre ++ Tok.str (dottedNames .mssql r ns) :: lexFrom .mssql .none (renderPs .mssql r ps ++ rest))
    (hne : ns ≠ []) (hns : ∀ n ∈ ns, NameOK .mssql n) (hwf : wf .mssql ps = true) (hok : PiecesOK .mssql ps)
    (hrest : sepHead .mssql rest)
    (hcov : ∀ n ∈ identNames c, n.qn = some (some true) → n.s = [] ∨ n ∈ ns ∨ n ∈ chainNames ps) :
    forcedQuoted .mssql c stmt = true := by
  unfold forcedQuoted
  rw [List.all_eq_true]
  intro n hn
  split
  · rename_i hq
    rcases hcov n hn hq with h | h | h
    · simp [h]
    · -- inside the literal
      have hin := lex_dotted .mssql r ns [] hne hns (by intro c hc; simp at hc)
      simp only [List.append_nil, lexFrom, flush] at hin
      have hm : Tok.qid n.s ∈ dotToks (ns.map (nameTok .mssql r)) := by
        apply mem_dotToks
        rw [← nameTok_forced .mssql r n hq]
        exact List.mem_map_of_mem h
      simp only [Bool.or_eq_true]
      right
      simp only [lex, hlex, toksDeep, List.contains_eq_mem, List.mem_append, decide_eq_true_eq, List.mem_flatMap]
      right
      refine ⟨Tok.str (dottedNames .mssql r ns), by simp, ?_⟩
      simp only [hin]
      exact hm
    · have hl := lex_pieces .mssql r ps rest hwf hok hrest
      have hm := qid_mem_toksPs .mssql r ps n h hq
      simp only [Bool.or_eq_true]
      right
      simp only [lex, hlex, hl, toksDeep, List.contains_eq_mem, List.mem_append, List.mem_cons, decide_eq_true_eq]
      exact Or.inl (Or.inr (Or.inr (Or.inl hm)))
  · rfl

/-- a forced-quote schema argument is one of the chain's names -/
theorem schema_cov (g : Tgt) (n : Name) (h : g.schema = some n) (hq : n.qn = some (some true)) :
    n.s = [] ∨ n ∈ schemaNames g := by
  by_cases he : n.s = []
  · exact Or.inl he
  · right
    have : n.s.isEmpty = false := by simpa using he
    simp [schemaNames, schemaGiven, h, this, hq]

end Lemmas.Ident
