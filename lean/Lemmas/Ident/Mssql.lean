import Lemmas.Ident.Pieces
/-! MSSQL statements that embed formatted names in `'…'` literals (`sp_rename`). -/
namespace Lemmas.Ident
open Model.Ident Spec.Ident

theorem pieces_ok_more (k : Kind) (r : Str → Bool) (ps : List Piece) (more : List Item) (rest : Str) (hwf : wf k ps = true)
    (hok : PiecesOK k ps) (hrest : sepHead k rest) (hT : noDot (lexFrom k .none rest)) :
    matchItems k r (itemsPs ps ++ more) (lexFrom k .none (renderPs k r ps ++ rest)) =
      matchItems k r more (lexFrom k .none rest) := by
  rw [lex_pieces k r ps rest hwf hok hrest]
  exact match_pieces k r ps more (lexFrom k .none rest) hwf hok hT

theorem mem_dblPct (x : Char) (s : Str) : x ∈ dblPct s ↔ x ∈ s := by
  induction s with
  | nil => simp [dblPct]
  | cons c t ih =>
    by_cases h : c = '%'
    · subst h; simp [dblPct, ih]
    · simp [dblPct, h, ih]

theorem squote_not_mem_quoteName (r : Str → Bool) (n : Name) (h : '\'' ∉ n.s) : '\'' ∉ quoteName .mssql r n := by
  have hq : '\'' ∉ quoteIdent .mssql n.s := by
    simp [quoteIdent, escapeIdent, dblPercent, mem_escapeClose, h, openQ, closeQ]
  unfold quoteName
  split
  · exact hq
  · exact h
  · unfold quote; split
    · exact hq
    · exact h

theorem squote_not_mem_dotted (r : Str → Bool) (ns : List Name) (h : ∀ n ∈ ns, '\'' ∉ n.s) :
    '\'' ∉ dottedNames .mssql r ns := by
  induction ns with
  | nil => simp [dottedNames]
  | cons n ns ih =>
    cases ns with
    | nil => simpa [dottedNames] using squote_not_mem_quoteName r n (h n (by simp))
    | cons m ms =>
      have h1 := squote_not_mem_quoteName r n (h n (by simp))
      have h2 := ih (fun x hx => h x (by simp [hx]))
      simp [dottedNames, h1] at h2 ⊢
      exact h2

/-- what `_quote_in_literal` + the surrounding quotes write lexes back to the embedded text, for EVERY text -/
theorem lex_quotedLiteral (inner rest : Str) (h : rest.head? ≠ some '\'') :
    lexFrom .mssql .none ('\'' :: (quoteInLiteral inner ++ '\'' :: rest)) = .str inner :: lexFrom .mssql .none rest := by
  have := lex_sqlLiteral .mssql inner rest (Or.inl rfl) h
  simpa [sqlLiteral, quoteInLiteral] using this

theorem escapeClose_append (q : Char) (a b : Str) : escapeClose q (a ++ b) = escapeClose q a ++ escapeClose q b := by
  induction a with
  | nil => simp [escapeClose]
  | cons c t ih =>
    by_cases h : c = q
    · subst h; simp [escapeClose, ih]
    · simp [escapeClose, h, ih]

theorem quoteInLiteral_dot (a b : Str) :
    quoteInLiteral a ++ '.' :: quoteInLiteral b = quoteInLiteral (a ++ '.' :: b) := by
  have : a ++ '.' :: b = a ++ (['.'] ++ b) := by simp
  rw [this]
  simp [quoteInLiteral, escapeClose_append, escapeClose]

/-- a chain written inside a literal, lexed on its own, matches its `ref` item -/
theorem match0_chain (r : Str → Bool) (ns : List Name) (sch : List Str) (names : List Str) (hne : ns ≠ [])
    (hn : ∀ n ∈ ns, NameOK .mssql n) (hok : refOk sch names (ns.map (·.s)) = true) :
    match0 .mssql r [.ref sch names] (lex .mssql (dottedNames .mssql r ns)) = some [] := by
  have h1 := lex_dotted .mssql r ns [] hne hn (by intro c hc; simp at hc)
  simp only [List.append_nil] at h1
  have h2 := chain_dotToks .mssql r ns [] hne (by simp [noDot])
  simp only [List.append_nil] at h2
  simp [match0, lex, h1, lexFrom, flush, h2, hok]

end Lemmas.Ident
