import Lemmas.Ident.Table
/-! The piece decomposition of every construct (proof-internal mirror used to instantiate `pieces_ok`). -/
namespace Lemmas.Ident
open Model.Ident Spec.Ident

theorem alterTable_eq (k : Kind) (r : Str → Bool) (g : Tgt) :
    alterTable k r g = "ALTER TABLE ".toList ++ formatTableName k r g.t g.schema := by
  unfold alterTable; rfl

theorem alterColumn_oracle (r : Str → Bool) (c : Name) :
    alterColumn .oracle r c = "MODIFY ".toList ++ quoteName .oracle r c := by
  unfold alterColumn; rfl
theorem alterColumn_sqlite (r : Str → Bool) (c : Name) :
    alterColumn .sqlite r c = "ALTER COLUMN ".toList ++ quoteName .sqlite r c := by
  unfold alterColumn; rfl
theorem alterColumn_postgresql (r : Str → Bool) (c : Name) :
    alterColumn .postgresql r c = "ALTER COLUMN ".toList ++ quoteName .postgresql r c := by
  unfold alterColumn; rfl
theorem alterColumn_mssql (r : Str → Bool) (c : Name) :
    alterColumn .mssql r c = "ALTER COLUMN ".toList ++ quoteName .mssql r c := by
  unfold alterColumn; rfl

theorem formatTableName_none (k : Kind) (r : Str → Bool) (n : Name) : formatTableName k r n none = quoteName k r n := by
  unfold formatTableName; rfl

theorem render_L (k : Kind) (r : Str → Bool) (m s : String) : renderP k r (L m s) = m.toList := rfl
theorem render_opq (k : Kind) (r : Str → Bool) (t : Str) : renderP k r (.opq t) = t := rfl

theorem piecesOK_nil (k : Kind) : PiecesOK k [] := by intro p hp; simp at hp
theorem piecesOK_cons (k : Kind) (p : Piece) (ps : List Piece) : PiecesOK k (p :: ps) ↔ PieceOK k p ∧ PiecesOK k ps := by
  constructor
  · intro h; exact ⟨h p (by simp), fun q hq => h q (by simp [hq])⟩
  · intro h q hq
    simp only [List.mem_cons] at hq
    rcases hq with rfl | hq
    · exact h.1
    · exact h.2 q hq
theorem piecesOK_append (k : Kind) (a b : List Piece) : PiecesOK k (a ++ b) ↔ PiecesOK k a ∧ PiecesOK k b := by
  induction a with
  | nil => simp [piecesOK_nil]
  | cons p ps ih => simp [piecesOK_cons, ih, and_assoc]
theorem pieceOK_L (k : Kind) (m s : String) : PieceOK k (L m s) := trivial
theorem pieceOK_opq (k : Kind) (t : Str) : PieceOK k (.opq t) ↔ okText k t = true := Iff.rfl

def AT : Piece := L "ALTER TABLE " "ALTER TABLE"

/-- optional `KEYWORD text` tail -/
def optP (m s : String) : Option Str → List Piece
  | some d => [L m s, .opq d]
  | none => []

def colspecP (cs : ColSpec) : List Piece :=
  [L " " "", .opq cs.ty, if cs.nullable then L " NULL" "NULL" else L " NOT NULL" "NOT NULL"] ++
  (if cs.autoinc then [L " AUTO_INCREMENT" "AUTO_INCREMENT"] else []) ++
  optP " DEFAULT " "DEFAULT" cs.default ++ optP " COMMENT " "COMMENT" cs.comment

/-- the pieces of the statement `render k r c` (for the constructs without nested string literals) -/
def pieces (k : Kind) : Construct → List Piece
  | .renameTable g new =>
    match k with
    | .mssql => []
    | .mysql | .mariadb => [AT, tblP g, L " RENAME TO " "RENAME TO", tblP { g with t := new }]
    | _ => [AT, tblP g, L " RENAME TO " "RENAME TO", nameP new]
  | .addColumn g col spec =>
    match k with
    | .mssql | .oracle => [AT, tblP g, L " ADD " "ADD", nameP col, L " " "", .opq spec]
    | _ => [AT, tblP g, L " ADD COLUMN " "ADD COLUMN", nameP col, L " " "", .opq spec]
  | .dropColumn g col => [AT, tblP g, L " DROP COLUMN " "DROP COLUMN", nameP col]
  | .columnNullable g col nullable ety =>
    match k with
    | .mysql | .mariadb => []
    | .mssql => [AT, tblP g, L " ALTER COLUMN " "ALTER COLUMN", nameP col, L " " "", .opq ety,
                 if nullable then L " NULL" "NULL" else L " NOT NULL" "NOT NULL"]
    | .oracle => [AT, tblP g, L " MODIFY " "MODIFY", nameP col, if nullable then L " NULL" "NULL" else L " NOT NULL" "NOT NULL"]
    | _ => [AT, tblP g, L " ALTER COLUMN " "ALTER COLUMN", nameP col,
            if nullable then L " DROP NOT NULL" "DROP NOT NULL" else L " SET NOT NULL" "SET NOT NULL"]
  | .columnType g col ty usng =>
    match k with
    | .mysql | .mariadb => []
    | .mssql => [AT, tblP g, L " ALTER COLUMN " "ALTER COLUMN", nameP col, L " " "", .opq ty]
    | .oracle => [AT, tblP g, L " MODIFY " "MODIFY", nameP col, L " " "", .opq ty]
    | .postgresql =>
      [AT, tblP g, L " ALTER COLUMN " "ALTER COLUMN", nameP col, L " TYPE " "TYPE", .opq ty] ++
      (match usng with
       | some u => if u.isEmpty then [L " " ""] else [L " USING " "USING", .opq u]
       | none => [L " " ""])
    | .sqlite => [AT, tblP g, L " ALTER COLUMN " "ALTER COLUMN", nameP col, L " TYPE " "TYPE", .opq ty]
  | .columnName g col new =>
    match k with
    | .mysql | .mariadb | .mssql => []
    | .postgresql => [AT, tblP g, L " RENAME " "RENAME", nameP col, L " TO " "TO", nameP new]
    | _ => [AT, tblP g, L " RENAME COLUMN " "RENAME COLUMN", nameP col, L " TO " "TO", nameP new]
  | .columnDefault g col default =>
    match k with
    | .mysql | .mariadb => []
    | .mssql =>
      match default with
      | some d => [AT, tblP g, L " ADD DEFAULT " "ADD DEFAULT", .opq d, L " FOR " "FOR", nameP col]
      | none => []
    | .oracle => [AT, tblP g, L " MODIFY " "MODIFY", nameP col] ++
                 (match default with
                  | some d => [L " DEFAULT " "DEFAULT", .opq d]
                  | none => [L " DEFAULT " "DEFAULT", L "NULL" "NULL"])
    | _ => [AT, tblP g, L " ALTER COLUMN " "ALTER COLUMN", nameP col] ++
           (match default with
            | some d => [L " SET DEFAULT " "SET DEFAULT", .opq d]
            | none => [L " DROP DEFAULT" "DROP DEFAULT"])
  | .columnComment g col comment =>
    match k with
    | .postgresql => [L "COMMENT ON COLUMN " "COMMENT ON COLUMN", tblColP g col, L " IS " "IS",
                      match comment with | some c => .opq c | none => L "NULL" "NULL"]
    | .oracle => [L "COMMENT ON COLUMN " "COMMENT ON COLUMN", tblColP g col, L " IS " "IS",
                  match comment with | some c => .opq c | none => L "''" "''"]
    | _ => []
  | .identity g col tail =>
    match k with
    | .postgresql => [AT, tblP g, L " ALTER COLUMN " "ALTER COLUMN", nameP col, L " " "", .opq tail]
    | .oracle => [AT, tblP g, L " MODIFY " "MODIFY", nameP col, L " " "", .opq tail]
    | _ => []
  | .mysqlAlterDefault g col default =>
    match k with
    | .mysql | .mariadb =>
      [AT, tblP g, L " ALTER COLUMN " "ALTER COLUMN", nameP col] ++
      (match default with
       | some d => [L " SET DEFAULT " "SET DEFAULT", .opq d]
       | none => [L " DROP DEFAULT" "DROP DEFAULT"])
    | _ => []
  | .mysqlModify g col cs =>
    match k with
    | .mysql | .mariadb => [AT, tblP g, L " MODIFY " "MODIFY", nameP col] ++ colspecP cs
    | _ => []
  | .mysqlChange g col new cs =>
    match k with
    | .mysql | .mariadb => [AT, tblP g, L " CHANGE " "CHANGE", nameP col, L " " "", nameP new] ++ colspecP cs
    | _ => []
  | _ => []

end Lemmas.Ident
