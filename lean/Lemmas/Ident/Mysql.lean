import Lemmas.Ident.Forced
/-! MySQL/MariaDB `ALTER TABLE … DROP CHECK|CONSTRAINT|FOREIGN KEY|INDEX|PRIMARY KEY`: the table is formatted by
    SQLAlchemy's `format_table`, which quotes the schema as ONE name. -/
namespace Lemmas.Ident
open Model.Ident Spec.Ident

/-- the schema as `preparer.format_table` sees it: one name -/
def schemaFlat (g : Tgt) : List Name :=
  match schemaGiven g.schema with
  | none => []
  | some s => [s]

def tblFlatP (g : Tgt) : Piece := .chain (schemaFlat g ++ [g.t]) (.ref (schemaParts g) [g.t.s])

theorem splitDot_noDot (s : Str) (h : '.' ∉ s) : splitDot s = [s] := by
  induction s with
  | nil => rfl
  | cons c t ih =>
    have hc : c ≠ '.' := fun e => h (by simp [e])
    have ht : '.' ∉ t := fun e => h (by simp [e])
    simp [splitDot, ih ht, hc]

/-- the schema argument is one identifier: a `quoted_name`, or a plain str without a dot
    (a dotted plain str is the excluded case: finding C14-MYSQL-DROP-DOTTED) -/
def FlatSchema (g : Tgt) : Prop := ∀ s, g.schema = some s → s.qn.isSome = true ∨ '.' ∉ s.s

theorem schemaFlat_s (g : Tgt) (h : FlatSchema g) : (schemaFlat g).map (·.s) = schemaParts g := by
  unfold schemaFlat schemaParts schemaPartsOf schemaGiven
  cases hs : g.schema with
  | none => rfl
  | some n =>
    by_cases he : n.s.isEmpty = true
    · simp [he]
    · rcases h n hs with hq | hd
      · simp [he, hq]
      · by_cases hq : n.qn.isSome = true
        · simp [he, hq]
        · simp [he, hq, splitDot_noDot n.s hd]

structure TgtFlatOK (k : Kind) (g : Tgt) : Prop where
  t : NameOK k g.t
  schema : ∀ n ∈ schemaFlat g, NameOK k n
  flat : FlatSchema g

theorem ok_tblFlatP (k : Kind) (g : Tgt) (h : TgtFlatOK k g) : PieceOK k (tblFlatP g) := by
  refine ⟨by simp, ?_, ?_⟩
  · intro n hn
    simp only [List.mem_append, List.mem_singleton] at hn
    rcases hn with hn | hn
    · exact h.schema n hn
    · subst hn; exact h.t
  · simp [itemOk, refOk, schemaFlat_s g h.flat]

theorem render_tblFlatP (k : Kind) (r : Str → Bool) (g : Tgt) :
    renderP k r (tblFlatP g) = formatTableSA k r g.t g.schema := by
  unfold tblFlatP schemaFlat formatTableSA
  cases schemaGiven g.schema <;> simp [renderP, dottedNames]

theorem schema_cov_flat (g : Tgt) (n : Name) (h : g.schema = some n) :
    n.s = [] ∨ n ∈ schemaFlat g := by
  by_cases he : n.s = []
  · exact Or.inl he
  · right
    have : n.s.isEmpty = false := by simpa using he
    simp [schemaFlat, schemaGiven, h, this]

end Lemmas.Ident
