import Lemmas.Ident.Stmt
/-! `format_table_name` / `quote_dotted` as dotted chains, and the pieces used by the construct theorems. -/
namespace Lemmas.Ident
open Model.Ident Spec.Ident

theorem splitDot_ne_nil (s : Str) : splitDot s ≠ [] := by
  induction s with
  | nil => simp [splitDot]
  | cons c r ih =>
    unfold splitDot
    split
    · simp
    · split <;> simp

theorem joinDot_cons_cons (p q : Str) (ps : List Str) : joinDot (p :: q :: ps) = p ++ '.' :: joinDot (q :: ps) := rfl

theorem joinDot_splitDot (s : Str) : joinDot (splitDot s) = s := by
  induction s with
  | nil => simp [splitDot, joinDot]
  | cons c r ih =>
    unfold splitDot
    split
    · rename_i h; exact absurd h (splitDot_ne_nil r)
    · rename_i p ps h
      rw [h] at ih
      by_cases hc : c = '.'
      · subst hc
        simp only [beq_self_eq_true, if_true]
        rw [joinDot_cons_cons, ih]; rfl
      · simp only [beq_iff_eq, hc, if_false]
        cases ps with
        | nil => simp [joinDot] at ih ⊢; exact ih
        | cons q qs =>
          rw [joinDot_cons_cons] at ih ⊢
          simp [← ih]

/-- the names a schema argument contributes to the chain -/
def schemaNames (g : Tgt) : List Name :=
  match schemaGiven g.schema with
  | none => []
  | some s => if s.qn.isSome then [s] else (splitDot s.s).map (fun p => { s := p })

theorem joinDot_map_quote (k : Kind) (r : Str → Bool) (ps : List Str) :
    joinDot (ps.map (quote k r)) = dottedNames k r (ps.map (fun p => { s := p })) := by
  induction ps with
  | nil => rfl
  | cons p ps ih =>
    cases ps with
    | nil => simp [joinDot, dottedNames, quoteName]
    | cons q qs =>
      simp only [List.map_cons] at ih ⊢
      rw [joinDot_cons_cons, ih]
      simp [dottedNames, quoteName]

theorem dottedNames_append (k : Kind) (r : Str → Bool) (a b : List Name) (ha : a ≠ []) (hb : b ≠ []) :
    dottedNames k r (a ++ b) = dottedNames k r a ++ '.' :: dottedNames k r b := by
  induction a with
  | nil => exact absurd rfl ha
  | cons x xs ih =>
    cases xs with
    | nil =>
      cases b with
      | nil => exact absurd rfl hb
      | cons y ys => simp [dottedNames]
    | cons z zs =>
      have := ih (by simp)
      simp only [List.cons_append] at this ⊢
      simp only [dottedNames, this, List.append_assoc, List.cons_append]

theorem formatTableName_eq (k : Kind) (r : Str → Bool) (g : Tgt) (extra : List Name) :
    dottedNames k r (schemaNames g ++ g.t :: extra) =
      (match extra with
       | [] => formatTableName k r g.t g.schema
       | _ :: _ => formatTableName k r g.t g.schema ++ '.' :: dottedNames k r extra) := by
  have key : dottedNames k r (schemaNames g ++ [g.t]) = formatTableName k r g.t g.schema := by
    unfold formatTableName schemaNames
    cases hs : schemaGiven g.schema with
    | none => simp [dottedNames]
    | some s =>
      simp only
      by_cases hq : s.qn.isSome = true
      · simp only [hq, if_true, List.cons_append, List.nil_append, dottedNames]
        unfold quoteDotted
        cases hqn : s.qn with
        | none => simp [hqn] at hq
        | some q => rfl
      · simp only [hq, Bool.false_eq_true, if_false]
        have hne : (splitDot s.s).map (fun p => ({ s := p } : Name)) ≠ [] := by
          simpa using splitDot_ne_nil s.s
        rw [dottedNames_append k r _ [g.t] hne (by simp)]
        unfold quoteDotted
        have hqn : s.qn = none := by
          cases h : s.qn with
          | none => rfl
          | some q => simp [h] at hq
        simp [hqn, joinDot_map_quote, dottedNames]
  cases extra with
  | nil => simpa using key
  | cons e es =>
    have : schemaNames g ++ g.t :: e :: es = (schemaNames g ++ [g.t]) ++ (e :: es) := by simp
    rw [this, dottedNames_append k r _ _ (by simp) (by simp), key]

theorem schemaNames_s (g : Tgt) : (schemaNames g).map (·.s) = schemaParts g := by
  unfold schemaNames schemaParts schemaPartsOf schemaGiven
  cases g.schema with
  | none => rfl
  | some n =>
    by_cases h : n.s.isEmpty = true
    · simp [h]
    · by_cases hq : n.qn.isSome = true
      · simp [h, hq]
      · simp [h, hq, Function.comp_def]

theorem tableItemOk (g : Tgt) (extra : List Name) :
    refOk (schemaParts g) (g.t.s :: extra.map (·.s)) ((schemaNames g ++ g.t :: extra).map (·.s)) = true := by
  simp [refOk, schemaNames_s]

/-- well-formedness of table + schema for dialect `k` -/
structure TgtOK (k : Kind) (g : Tgt) : Prop where
  t : NameOK k g.t
  schema : ∀ n ∈ schemaNames g, NameOK k n

/-! ## the pieces of Alembic's statements -/

def L (m s : String) : Piece := .lit m.toList s.toList
def tblP (g : Tgt) : Piece := .chain (schemaNames g ++ [g.t]) (.ref (schemaParts g) [g.t.s])
def tblColP (g : Tgt) (col : Name) : Piece := .chain (schemaNames g ++ [g.t, col]) (.ref (schemaParts g) [g.t.s, col.s])
def nameP (n : Name) : Piece := .chain [n] (.ref [] [n.s])

theorem render_tblP (k : Kind) (r : Str → Bool) (g : Tgt) : renderP k r (tblP g) = formatTableName k r g.t g.schema := by
  simpa [renderP, tblP] using formatTableName_eq k r g []

theorem render_tblColP (k : Kind) (r : Str → Bool) (g : Tgt) (col : Name) :
    renderP k r (tblColP g col) = formatTableName k r g.t g.schema ++ '.' :: quoteName k r col := by
  simpa [renderP, tblColP, dottedNames] using formatTableName_eq k r g [col]

theorem render_nameP (k : Kind) (r : Str → Bool) (n : Name) : renderP k r (nameP n) = quoteName k r n := rfl

theorem ok_tblP (k : Kind) (g : Tgt) (h : TgtOK k g) : PieceOK k (tblP g) := by
  refine ⟨by simp, ?_, ?_⟩
  · intro n hn
    simp only [List.mem_append, List.mem_singleton] at hn
    rcases hn with hn | hn
    · exact h.schema n hn
    · subst hn; exact h.t
  · simpa [itemOk] using tableItemOk g []

theorem ok_tblColP (k : Kind) (g : Tgt) (col : Name) (h : TgtOK k g) (hc : NameOK k col) : PieceOK k (tblColP g col) := by
  refine ⟨by simp, ?_, ?_⟩
  · intro n hn
    simp only [List.mem_append, List.mem_cons, List.not_mem_nil, or_false] at hn
    rcases hn with hn | hn | hn
    · exact h.schema n hn
    · subst hn; exact h.t
    · subst hn; exact hc
  · simpa [itemOk] using tableItemOk g [col]

theorem ok_nameP (k : Kind) (n : Name) (h : NameOK k n) : PieceOK k (nameP n) := by
  refine ⟨by simp, ?_, ?_⟩
  · intro m hm
    simp only [List.mem_singleton] at hm
    subst hm; exact h
  · simp [itemOk, refOk]

theorem sepHead_term (k : Kind) : sepHead k (terminator k) := by
  intro c hc
  cases k <;> simp [terminator] at hc <;> subst hc <;> decide

theorem noDot_term (k : Kind) : noDot (lexFrom k .none (terminator k)) := by
  unfold noDot
  cases k <;> decide

end Lemmas.Ident
