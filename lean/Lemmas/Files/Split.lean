import Spec.Files
/-! Lemmas about `version_locations` splitting. -/
namespace Lemmas.Files
open Model.Files

/-- the option string a user writes for the listed paths: paths joined by `sep` -/
def joinSep (sep : Name) : List Name → Name
  | [] => []
  | [p] => p
  | p :: q :: r => p ++ sep ++ joinSep sep (q :: r)

theorem splitOn_append (c : Char) (p r : Name) (h : c ∉ p) :
    splitOn c (p ++ c :: r) = p :: splitOn c r := by
  induction p with
  | nil => simp [splitOn]
  | cons x p ih =>
    have hx : (x == c) = false := by
      simp only [List.mem_cons, not_or] at h
      simp [Ne.symm h.1]
    have hp : c ∉ p := fun hm => h (List.mem_cons_of_mem _ hm)
    simp only [List.cons_append, splitOn, hx, Bool.false_eq_true, if_false, ih hp]

theorem splitOn_clean (c : Char) (p : Name) (h : c ∉ p) : splitOn c p = [p] := by
  induction p with
  | nil => simp [splitOn]
  | cons x p ih =>
    have hx : (x == c) = false := by
      simp only [List.mem_cons, not_or] at h
      simp [Ne.symm h.1]
    have hp : c ∉ p := fun hm => h (List.mem_cons_of_mem _ hm)
    simp only [splitOn, hx, Bool.false_eq_true, if_false, ih hp]

/-- a listed path: non-empty, does not contain the separator, no surrounding white space -/
def CleanFor (c : Char) (p : Name) : Prop := p ≠ [] ∧ c ∉ p ∧ pyStrip p = p

theorem splitOn_joinSep (c : Char) : ∀ (paths : List Name), paths ≠ [] → (∀ p ∈ paths, c ∉ p) →
    splitOn c (joinSep [c] paths) = paths := by
  intro paths
  induction paths with
  | nil => intro h; exact absurd rfl h
  | cons p rest ih =>
    intro _ hc
    cases rest with
    | nil => simp only [joinSep]; exact splitOn_clean c p (hc p List.mem_cons_self)
    | cons q r =>
      simp only [joinSep, List.append_assoc, List.singleton_append]
      rw [splitOn_append c p _ (hc p List.mem_cons_self)]
      rw [ih (by simp) (fun p' hp' => hc p' (List.mem_cons_of_mem _ hp'))]

theorem splitLocations_char (c : Char) (paths : List Name) (h : ∀ p ∈ paths, CleanFor c p) :
    splitLocations (.char c) (joinSep [c] paths) = paths := by
  unfold splitLocations
  cases paths with
  | nil => simp [joinSep, splitOn]
  | cons p rest =>
    simp only
    rw [splitOn_joinSep c (p :: rest) (by simp) (fun p' hp' => (h p' hp').2.1)]
    have hf : List.filter (fun x => !x.isEmpty) (p :: rest) = p :: rest := by
      rw [List.filter_eq_self]
      intro a ha
      have := (h a ha).1
      cases a with
      | nil => exact absurd rfl this
      | cons _ _ => rfl
    rw [hf]
    calc List.map pyStrip (p :: rest) = List.map id (p :: rest) :=
          List.map_congr_left (fun a ha => (h a ha).2.2)
      _ = p :: rest := List.map_id _

/-! ### the legacy `_split_on_space_comma` -/

/-- a path the legacy splitting keeps whole: non-empty, without space and comma -/
def CleanLegacy (p : Name) : Prop := p ≠ [] ∧ ' ' ∉ p ∧ ',' ∉ p

/-- what may stand between two paths: a run of spaces, or a comma followed by spaces -/
def LegacyJoiner (j : Name) : Prop :=
  (∃ k, j = List.replicate (k + 1) ' ') ∨ (∃ k, j = ',' :: List.replicate k ' ')

theorem legacy_word (p : Name) (hs : ' ' ∉ p) (hc : ',' ∉ p) : ∀ (cur r : Name),
    legacySplitAux false cur (p ++ r) = legacySplitAux false (p.reverse ++ cur) r := by
  induction p with
  | nil => intro cur r; rfl
  | cons x p ih =>
    intro cur r
    simp only [List.mem_cons, not_or] at hs hc
    have h1 : (x == ' ') = false := by simp [Ne.symm hs.1]
    have h2 : (x == ',') = false := by simp [Ne.symm hc.1]
    simp only [List.cons_append, legacySplitAux, h1, h2, Bool.false_eq_true, if_false]
    rw [ih hs.2 hc.2]
    simp

theorem legacy_word_start (p : Name) (hne : p ≠ []) (hs : ' ' ∉ p) (hc : ',' ∉ p) (sk : Bool) (r : Name) :
    legacySplitAux sk [] (p ++ r) = legacySplitAux false p.reverse r := by
  cases p with
  | nil => exact absurd rfl hne
  | cons x p =>
    simp only [List.mem_cons, not_or] at hs hc
    have h1 : (x == ' ') = false := by simp [Ne.symm hs.1]
    have h2 : (x == ',') = false := by simp [Ne.symm hc.1]
    simp only [List.cons_append, legacySplitAux, h1, h2, Bool.false_eq_true, if_false]
    rw [legacy_word p hs.2 hc.2]
    simp

theorem legacy_skip (k : Nat) (r : Name) :
    legacySplitAux true [] (List.replicate k ' ' ++ r) = legacySplitAux true [] r := by
  induction k with
  | zero => simp
  | succ k ih => simp [List.replicate_succ, legacySplitAux, ih]

theorem legacy_joiner (j : Name) (hj : LegacyJoiner j) (cur r : Name) :
    legacySplitAux false cur (j ++ r) = cur.reverse :: legacySplitAux true [] r := by
  rcases hj with ⟨k, rfl⟩ | ⟨k, rfl⟩
  · simp [List.replicate_succ, legacySplitAux, legacy_skip]
  · simp [legacySplitAux, legacy_skip]

theorem legacySplit_joinSep (j : Name) (hj : LegacyJoiner j) : ∀ (paths : List Name), paths ≠ [] →
    (∀ p ∈ paths, CleanLegacy p) → ∀ sk, legacySplitAux sk [] (joinSep j paths) = paths := by
  intro paths
  induction paths with
  | nil => intro h; exact absurd rfl h
  | cons p rest ih =>
    intro _ hc sk
    obtain ⟨hne, hs, hcm⟩ := hc p List.mem_cons_self
    cases rest with
    | nil =>
      simp only [joinSep]
      have := legacy_word_start p hne hs hcm sk []
      simp only [List.append_nil] at this
      rw [this]
      simp [legacySplitAux]
    | cons q r =>
      simp only [joinSep, List.append_assoc]
      rw [legacy_word_start p hne hs hcm sk, legacy_joiner j hj]
      rw [ih (by simp) (fun p' hp' => hc p' (List.mem_cons_of_mem _ hp')) true]
      simp

theorem joinSep_ne_nil (j : Name) (paths : List Name) (h : paths ≠ []) (hne : ∀ p ∈ paths, p ≠ []) :
    joinSep j paths ≠ [] := by
  cases paths with
  | nil => exact absurd rfl h
  | cons p rest =>
    have hp := hne p List.mem_cons_self
    cases rest with
    | nil => simpa [joinSep] using hp
    | cons q r =>
      simp only [joinSep]
      intro h0
      have := List.append_eq_nil_iff.mp h0
      exact hp (List.append_eq_nil_iff.mp this.1).1

end Lemmas.Files
