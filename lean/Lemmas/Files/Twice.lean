import Spec.Files
/-! The "File … loaded twice! ignoring" warnings of `_load_revisions`. -/
namespace Lemmas.Files
open Model.Files Spec.Files

/-- how many listed paths resolve to canonical file `n` -/
def listedCount (n : Nat) (es : List Entry) : Nat := (es.filter (fun e => e.node == n)).length

theorem listedCount_cons (n : Nat) (e : Entry) (rest : List Entry) :
    listedCount n (e :: rest) = (if e.node = n then 1 else 0) + listedCount n rest := by
  unfold listedCount
  by_cases h : e.node = n
  · simp [h]; omega
  · simp [h]

theorem loadLoop_twice (fs : FS) (cfg : Cfg) (n : Nat) (es : List Entry) :
    ∀ (dupes : List Nat) (l : List Loaded) (t : List Nat), loadLoop fs cfg es dupes = .ok (l, t) →
      (n ∈ t ↔ (if n ∈ dupes then 1 ≤ listedCount n es else 2 ≤ listedCount n es)) := by
  induction es with
  | nil =>
    intro dupes l t h
    simp only [loadLoop, Except.ok.injEq, Prod.mk.injEq] at h
    obtain ⟨_, rfl⟩ := h
    simp [listedCount]
  | cons e rest ih =>
    intro dupes l t h
    rw [listedCount_cons]
    simp only [loadLoop] at h
    by_cases hd : dupes.contains e.node = true
    · simp only [hd, if_true] at h
      have hd' : e.node ∈ dupes := List.contains_iff_mem.mp hd
      cases hrec : loadLoop fs cfg rest dupes with
      | error x => rw [hrec] at h; cases h
      | ok p =>
        obtain ⟨l', t'⟩ := p
        rw [hrec] at h
        simp only [Except.ok.injEq, Prod.mk.injEq] at h
        obtain ⟨_, rfl⟩ := h
        have := ih dupes l' t' hrec
        by_cases hx : e.node = n
        · subst hx
          simp only [List.mem_cons, true_or, hd', if_true, true_iff]
          omega
        · have hx' : ¬ n = e.node := fun h => hx h.symm
          simp only [List.mem_cons, hx', false_or, hx, if_false, Nat.zero_add]
          exact this
    · simp only [hd, Bool.false_eq_true, if_false] at h
      have hd' : e.node ∉ dupes := fun hm => hd (List.contains_iff_mem.mpr hm)
      have key : ∀ l' t', loadLoop fs cfg rest (e.node :: dupes) = .ok (l', t') →
          (n ∈ t' ↔ (if n ∈ dupes then 1 ≤ (if e.node = n then 1 else 0) + listedCount n rest
                      else 2 ≤ (if e.node = n then 1 else 0) + listedCount n rest)) := by
        intro l' t' hrec
        have := ih (e.node :: dupes) l' t' hrec
        rw [this]
        by_cases hx : e.node = n
        · subst hx
          simp only [List.mem_cons, true_or, if_true, hd', if_false]
          omega
        · have hx' : ¬ n = e.node := fun h => hx h.symm
          simp only [List.mem_cons, hx', false_or, hx, if_false, Nat.zero_add]
      cases hf : fromFilename fs cfg e.node with
      | error x => rw [hf] at h; cases h
      | ok o =>
        rw [hf] at h
        cases o with
        | none => exact key l t h
        | some s0 =>
          simp only at h
          cases hrec : loadLoop fs cfg rest (e.node :: dupes) with
          | error x => rw [hrec] at h; cases h
          | ok p =>
            obtain ⟨l', t'⟩ := p
            rw [hrec] at h
            simp only [Except.ok.injEq, Prod.mk.injEq] at h
            obtain ⟨_, rfl⟩ := h
            exact key l' t' hrec

end Lemmas.Files
