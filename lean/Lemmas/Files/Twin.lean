import Lemmas.Files.Walk
/-! The computable checker the driver runs on the implementation's output (`expectedNodes`,
`judge`) decides the `Prop`-level specification (`Expected`). -/
namespace Lemmas.Files
open Model.Files Spec.Files

theorem mem_inScopeDirs_iff (cfg : Cfg) (root d : Dir) :
    d ∈ inScopeDirs cfg root ↔ InScope cfg root d := by
  unfold inScopeDirs
  simp only [List.mem_append]
  constructor
  · rintro (h | h)
    · cases hc : isCacheDir root.name with
      | true => simp [hc] at h
      | false =>
        simp only [hc, Bool.false_eq_true, if_false, List.mem_singleton] at h
        subst h
        exact .root hc
    · cases hr : cfg.recursive with
      | false => simp [hr] at h
      | true =>
        simp only [hr, if_true, List.mem_filter, Bool.not_eq_true'] at h
        exact .sub hr ((mem_preorder_iff _ _).mp h.1) h.2
  · intro h
    cases h with
    | root hc => left; simp [hc]
    | sub hr hhas hc =>
      right
      simp only [hr, if_true, List.mem_filter, Bool.not_eq_true']
      exact ⟨(mem_preorder_iff _ _).mpr hhas, hc⟩

theorem mem_offered_iff (cfg : Cfg) (d : Dir) (n : Nat) : n ∈ offered cfg d ↔ Offers cfg d n := by
  unfold offered Offers
  cases hs : cfg.sourceless with
  | false => simp
  | true =>
    cases hsub : d.sub? pycacheName with
    | none => simp
    | some c =>
      simp only [if_true, List.mem_append, List.mem_map, List.mem_filter, List.all_eq_true,
        bne_iff_ne, ne_eq, true_and, Option.some.injEq, exists_eq_left']
      constructor
      · rintro (⟨e, he, hn⟩ | ⟨e, ⟨he, hne⟩, hn⟩)
        · exact Or.inl ⟨e, he, hn⟩
        · exact Or.inr ⟨e, he, hn, hne⟩
      · rintro (⟨e, he, hn⟩ | ⟨e, he, hn, hne⟩)
        · exact Or.inl ⟨e, he, hn⟩
        · exact Or.inr ⟨e, ⟨he, hne⟩, hn⟩

theorem mem_reachedNodes_iff (cfg : Cfg) (locs : List Dir) (n : Nat) :
    n ∈ reachedNodes cfg locs ↔ Reached cfg locs n := by
  unfold reachedNodes Reached
  simp only [List.mem_flatMap, mem_inScopeDirs_iff, mem_offered_iff]

/-- the list the driver computes contains exactly the files that must be loaded -/
theorem mem_expectedNodes_iff (fs : FS) (cfg : Cfg) (locs : List Dir) (n : Nat) :
    n ∈ expectedNodes fs cfg locs ↔ Expected fs cfg locs n := by
  unfold expectedNodes Expected
  rw [List.mem_eraseDups, List.mem_filter, mem_reachedNodes_iff]

theorem nodupB_iff (l : List Nat) : nodupB l = true ↔ l.Nodup := by
  induction l with
  | nil => simp [nodupB]
  | cons x r ih =>
    simp only [nodupB, Bool.and_eq_true, Bool.not_eq_true', List.nodup_cons, ih]
    constructor
    · rintro ⟨h1, h2⟩
      refine ⟨?_, h2⟩
      intro hm
      rw [List.contains_iff_mem.mpr hm] at h1
      cases h1
    · rintro ⟨h1, h2⟩
      refine ⟨?_, h2⟩
      cases hc : r.contains x with
      | false => rfl
      | true => exact absurd (List.contains_iff_mem.mp hc) h1

/-- the first three verdict fields of `judge` decide "the loaded canonical files are exactly the
expected ones, each once" -/
theorem judge_exact_iff (fs : FS) (cfg : Cfg) (locs : List Dir)
    (loaded : List (Nat × Name)) (keys dupWarn : List Name) :
    ((judge fs cfg locs loaded keys dupWarn).once = true ∧
     (judge fs cfg locs loaded keys dupWarn).onlyExpected = true ∧
     (judge fs cfg locs loaded keys dupWarn).allExpected = true) ↔
    ((loaded.map (·.1)).Nodup ∧ ∀ n, n ∈ loaded.map (·.1) ↔ Expected fs cfg locs n) := by
  simp only [judge, nodupB_iff, List.all_eq_true, List.contains_iff_mem, mem_expectedNodes_iff]
  constructor
  · rintro ⟨h1, h2, h3⟩
    exact ⟨h1, fun n => ⟨h2 n, fun he => h3 n he⟩⟩
  · rintro ⟨h1, h2⟩
    exact ⟨h1, fun n hn => (h2 n).mp hn, fun n hn => (h2 n).mpr hn⟩

end Lemmas.Files
