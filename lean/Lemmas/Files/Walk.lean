import Spec.Files
/-! Lemmas tying the `os.walk` loop of the model to the declarative `InScope` / `Offers`. -/
namespace Lemmas.Files
open Model.Files Spec.Files

theorem mem_preorder_iff (f : Forest) (d : Dir) : d ∈ f.preorder ↔ Forest.Has f d := by
  induction f with
  | nil =>
    simp only [Forest.preorder, List.not_mem_nil, false_iff]
    intro h; cases h
  | cons n fs ch rest ihc ihr =>
    simp only [Forest.preorder, List.mem_cons, List.mem_append, ihc, ihr]
    constructor
    · rintro (h | h | h)
      · subst h; exact .here
      · exact .inChildren h
      · exact .inRest h
    · intro h
      cases h with
      | here => exact Or.inl rfl
      | inChildren h => exact Or.inr (Or.inl h)
      | inRest h => exact Or.inr (Or.inr h)

/-- recursive walk: every directory that is not cache-named is listed -/
theorem mem_visit_rec (cfg : Cfg) (hr : cfg.recursive = true) (ds : List Dir) (e : Entry) :
    e ∈ visit cfg ds ↔ ∃ d ∈ ds, isCacheDir d.name = false ∧ e ∈ listDir cfg d := by
  induction ds with
  | nil => simp [visit]
  | cons d rest ih =>
    simp only [visit, hr, if_true]
    cases hc : isCacheDir d.name with
    | true =>
      simp only [if_true, ih, List.mem_cons, exists_eq_or_imp, hc, Bool.true_eq_false, false_and, false_or]
    | false =>
      simp only [Bool.false_eq_true, if_false, List.mem_append, ih, List.mem_cons, exists_eq_or_imp, hc, true_and]

/-- non-recursive walk starting at a directory that is not cache-named: exactly that directory -/
theorem visit_nonrec (cfg : Cfg) (hr : cfg.recursive = false) (d : Dir) (rest : List Dir)
    (hc : isCacheDir d.name = false) : visit cfg (d :: rest) = listDir cfg d := by
  simp [visit, hr, hc]

theorem mem_listPyDir_iff (cfg : Cfg) (root : Dir) (e : Entry)
    (hroot : isCacheDir root.name = false) :
    e ∈ listPyDir cfg root ↔ ∃ d, InScope cfg root d ∧ e ∈ listDir cfg d := by
  unfold listPyDir Dir.preorder
  cases hr : cfg.recursive with
  | false =>
    rw [visit_nonrec cfg hr root _ hroot]
    constructor
    · intro h; exact ⟨root, .root hroot, h⟩
    · rintro ⟨d, hd, h⟩
      cases hd with
      | root _ => exact h
      | sub hrec _ _ => rw [hr] at hrec; cases hrec
  | true =>
    rw [mem_visit_rec cfg hr]
    constructor
    · rintro ⟨d, hd, hc, h⟩
      rcases List.mem_cons.mp hd with hd | hd
      · subst hd; exact ⟨d, .root hc, h⟩
      · exact ⟨d, .sub hr ((mem_preorder_iff _ _).mp hd) hc, h⟩
    · rintro ⟨d, hd, h⟩
      cases hd with
      | root hc => exact ⟨root, List.mem_cons_self, hc, h⟩
      | sub _ hhas hc => exact ⟨d, List.mem_cons_of_mem _ ((mem_preorder_iff _ _).mpr hhas), hc, h⟩

theorem offers_iff (cfg : Cfg) (d : Dir) (n : Nat) :
    (∃ e ∈ listDir cfg d, e.node = n) ↔ Offers cfg d n := by
  unfold listDir Offers cacheExtras
  cases hs : cfg.sourceless with
  | false => simp
  | true =>
    cases hsub : d.sub? pycacheName with
    | none => simp
    | some c =>
      simp only [if_true, List.mem_append, List.mem_filter, true_and, Option.some.injEq, exists_eq_left']
      constructor
      · rintro ⟨e, (he | ⟨he, hne⟩), hn⟩
        · exact Or.inl ⟨e, he, hn⟩
        · refine Or.inr ⟨e, he, hn, ?_⟩
          intro f hf heq
          have : (List.map (fun e => stem e.name) d.files).contains (stem e.name) = true := by
            rw [List.contains_iff_mem]
            exact List.mem_map.mpr ⟨f, hf, heq⟩
          rw [this] at hne
          cases hne
      · rintro (⟨e, he, hn⟩ | ⟨e, he, hn, hne⟩)
        · exact ⟨e, Or.inl he, hn⟩
        · refine ⟨e, Or.inr ⟨he, ?_⟩, hn⟩
          cases hcon : (List.map (fun e => stem e.name) d.files).contains (stem e.name) with
          | false => rfl
          | true =>
            rw [List.contains_iff_mem] at hcon
            obtain ⟨f, hf, heq⟩ := List.mem_map.mp hcon
            exact absurd heq (hne f hf)

theorem mem_allListed_iff (cfg : Cfg) (locs : List Dir) (e : Entry) :
    e ∈ allListed cfg locs ↔ ∃ root ∈ locs, e ∈ listPyDir cfg root := by
  simp [allListed, List.mem_flatMap]

/-- a canonical file is listed by the model's walk iff it is `Reached` -/
theorem listed_iff_reached (cfg : Cfg) (locs : List Dir) (hroots : RootsOk locs) (n : Nat) :
    (∃ e ∈ allListed cfg locs, e.node = n) ↔ Reached cfg locs n := by
  unfold Reached
  constructor
  · rintro ⟨e, he, hn⟩
    obtain ⟨root, hroot, he⟩ := (mem_allListed_iff _ _ _).mp he
    obtain ⟨d, hd, he⟩ := (mem_listPyDir_iff cfg root e (hroots root hroot)).mp he
    exact ⟨root, hroot, d, hd, (offers_iff cfg d n).mp ⟨e, he, hn⟩⟩
  · rintro ⟨root, hroot, d, hd, hoff⟩
    obtain ⟨e, he, hn⟩ := (offers_iff cfg d n).mpr hoff
    exact ⟨e, (mem_allListed_iff _ _ _).mpr ⟨root, hroot, (mem_listPyDir_iff cfg root e (hroots root hroot)).mpr ⟨d, hd, he⟩⟩, hn⟩

end Lemmas.Files
