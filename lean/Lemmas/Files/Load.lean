import Spec.Files
/-! Lemmas about `fromFilename` (the per-file decision) and the `_load_revisions` loop. -/
namespace Lemmas.Files
open Model.Files Spec.Files

/-- the error `_from_filename` raises for an accepted file that does not define an id -/
def loadErr (fs : FS) (n : Nat) : Err :=
  match (fs.node n).content with
  | .noRev => .noRevisionId n
  | _ => .loadFailed n

theorem fromFilename_eq (fs : FS) (cfg : Cfg) (n : Nat) :
    fromFilename fs cfg n =
      if accepts fs cfg n then
        match definesId fs n with
        | some id => .ok (some ⟨n, id⟩)
        | none => .error (loadErr fs n)
      else .ok none := by
  unfold fromFilename definesId loadErr
  cases accepts fs cfg n with
  | false => simp
  | true =>
    simp only [if_true]
    cases (fs.node n).content with
    | broken => rfl
    | rev id => rfl
    | noRev =>
      simp only
      cases legacyRev (fs.node n).name <;> rfl

theorem fromFilename_some (fs : FS) (cfg : Cfg) (n : Nat) (s : Loaded) :
    fromFilename fs cfg n = .ok (some s) ↔
      accepts fs cfg n = true ∧ s.node = n ∧ definesId fs n = some s.rev := by
  rw [fromFilename_eq]
  cases ha : accepts fs cfg n with
  | false => simp
  | true =>
    simp only [if_true, true_and]
    cases hd : definesId fs n with
    | none => simp
    | some id =>
      simp only [Except.ok.injEq, Option.some.injEq]
      constructor
      · intro h; subst h; exact ⟨rfl, rfl⟩
      · rintro ⟨h1, h2⟩
        cases s
        simp_all

theorem fromFilename_none (fs : FS) (cfg : Cfg) (n : Nat) :
    fromFilename fs cfg n = .ok none ↔ accepts fs cfg n = false := by
  rw [fromFilename_eq]
  cases ha : accepts fs cfg n with
  | false => simp
  | true =>
    simp only [if_true]
    cases definesId fs n <;> simp

theorem fromFilename_error (fs : FS) (cfg : Cfg) (n : Nat) (x : Err) :
    fromFilename fs cfg n = .error x ↔
      accepts fs cfg n = true ∧ definesId fs n = none ∧ x = loadErr fs n := by
  rw [fromFilename_eq]
  cases ha : accepts fs cfg n with
  | false => simp
  | true =>
    simp only [if_true, true_and]
    cases definesId fs n with
    | none => simp [eq_comm]
    | some id => simp

/-! ### the model's acceptance versus the documented rules -/

theorem endsWith_getLast (suf s : Name) (c : Char) (h : endsWith (suf ++ [c]) s = true) :
    s.getLast? = some c := by
  unfold endsWith at h
  rw [List.isSuffixOf_iff_suffix] at h
  obtain ⟨t, rfl⟩ := h
  simp

theorem not_pyc_and_pyo (n : Name) (h1 : endsWith dotPyc n = true) (h2 : endsWith dotPyo n = true) : False := by
  have a := endsWith_getLast ['.', 'p', 'y'] n 'c' h1
  have b := endsWith_getLast ['.', 'p', 'y'] n 'o' h2
  rw [a] at b
  cases b

theorem not_py_and_pyc (n : Name) (h1 : endsWith dotPy n = true) (h2 : endsWith dotPyc n = true) : False := by
  have a := endsWith_getLast ['.', 'p'] n 'y' h1
  have b := endsWith_getLast ['.', 'p', 'y'] n 'c' h2
  rw [a] at b
  cases b

theorem not_py_and_pyo (n : Name) (h1 : endsWith dotPy n = true) (h2 : endsWith dotPyo n = true) : False := by
  have a := endsWith_getLast ['.', 'p'] n 'y' h1
  have b := endsWith_getLast ['.', 'p', 'y'] n 'o' h2
  rw [a] at b
  cases b

/-- whatever the model imports is a revision file by the documented rules -/
theorem accepts_isRevFile (fs : FS) (cfg : Cfg) (n : Nat) (h : accepts fs cfg n = true) :
    isRevFile fs cfg n = true := by
  unfold accepts at h
  unfold isRevFile
  unfold matchRevFile at h
  cases hl : lookaheadRejects (fs.node n).name with
  | true => simp [hl] at h
  | false =>
    have hl' := hl
    unfold lookaheadRejects at hl'
    rw [Bool.or_eq_false_iff] at hl'
    obtain ⟨hlock, hinit⟩ := hl'
    have hinit' : isInitModule (fs.node n).name = false := by
      cases hi : isInitModule (fs.node n).name with
      | false => rfl
      | true => unfold isInitModule at hi; rw [hi] at hinit; cases hinit
    simp only [isLock, hlock, hinit', Bool.not_false, Bool.true_and]
    simp only [hl, Bool.false_eq_true, if_false] at h
    cases hpy : endsWith dotPy (fs.node n).name with
    | true => simp
    | false =>
      simp only [hpy, Bool.false_eq_true, if_false] at h
      cases hs : cfg.sourceless with
      | false => simp [hs] at h
      | true =>
        simp only [hs, Bool.true_and] at h
        cases hpyc : endsWith dotPyc (fs.node n).name with
        | true =>
          simp [hpyc] at h
          simp [h]
        | false =>
          simp only [hpyc, Bool.false_eq_true, if_false] at h
          cases hpyo : endsWith dotPyo (fs.node n).name with
          | true =>
            simp [hpyo] at h
            simp [h]
          | false => simp [hpyo] at h

/-- conversely, every revision file by the documented rules is imported by the model -/
theorem isRevFile_accepts (fs : FS) (cfg : Cfg) (n : Nat) (h : isRevFile fs cfg n = true) :
    accepts fs cfg n = true := by
  unfold isRevFile at h
  unfold accepts matchRevFile lookaheadRejects
  simp only [Bool.and_eq_true, Bool.not_eq_true', Bool.or_eq_true] at h
  obtain ⟨⟨hlock, hmod⟩, hk⟩ := h
  unfold isLock at hlock
  have hla : startsWith (initPrefix ++ ['.']) (fs.node n).name = false := by
    unfold isInitModule at hmod; exact hmod
  simp only [hlock, hla, Bool.or_self, Bool.false_eq_true, if_false]
  cases hpy : endsWith dotPy (fs.node n).name with
  | true => simp
  | false =>
    simp only [Bool.false_eq_true, if_false]
    rcases hk with (hk | ⟨⟨hs, hpyc⟩, hex⟩) | ⟨⟨⟨hs, hpyo⟩, hex⟩, hexc⟩
    · rw [hpy] at hk; cases hk
    · simp [hs, hpyc, hex]
    · have hpyc : endsWith dotPyc (fs.node n).name = false := by
        cases hc : endsWith dotPyc (fs.node n).name with
        | false => rfl
        | true => exact (not_pyc_and_pyo _ hc hpyo).elim
      simp [hs, hpyc, hpyo, hex, hexc]

/-! ### the loop of `_load_revisions` -/

theorem loadLoop_ok_inv (fs : FS) (cfg : Cfg) (es : List Entry) :
    ∀ (dupes : List Nat) (l : List Loaded) (t : List Nat),
      loadLoop fs cfg es dupes = .ok (l, t) →
      (∀ s ∈ l, s.node ∉ dupes) ∧ (l.map (·.node)).Nodup ∧
      (∀ s ∈ l, (∃ e ∈ es, e.node = s.node) ∧ fromFilename fs cfg s.node = .ok (some s)) ∧
      (∀ e ∈ es, e.node ∉ dupes → accepts fs cfg e.node = true → ∃ s ∈ l, s.node = e.node) := by
  induction es with
  | nil =>
    intro dupes l t h
    simp only [loadLoop, Except.ok.injEq, Prod.mk.injEq] at h
    obtain ⟨rfl, rfl⟩ := h
    simp
  | cons e rest ih =>
    intro dupes l t h
    simp only [loadLoop] at h
    by_cases hd : dupes.contains e.node = true
    · simp only [hd, if_true] at h
      cases hrec : loadLoop fs cfg rest dupes with
      | error x => rw [hrec] at h; cases h
      | ok p =>
        obtain ⟨l', t'⟩ := p
        rw [hrec] at h
        simp only [Except.ok.injEq, Prod.mk.injEq] at h
        obtain ⟨rfl, rfl⟩ := h
        obtain ⟨h1, h2, h3, h4⟩ := ih dupes l' t' hrec
        refine ⟨h1, h2, ?_, ?_⟩
        · intro s hs
          obtain ⟨⟨e', he', hn⟩, hf⟩ := h3 s hs
          exact ⟨⟨e', List.mem_cons_of_mem _ he', hn⟩, hf⟩
        · intro e' he' hnd hacc
          rcases List.mem_cons.mp he' with rfl | he'
          · exact absurd (List.contains_iff_mem.mp hd) hnd
          · exact h4 e' he' hnd hacc
    · simp only [hd, Bool.false_eq_true, if_false] at h
      have hnd : e.node ∉ dupes := fun hm => hd (List.contains_iff_mem.mpr hm)
      cases hf : fromFilename fs cfg e.node with
      | error x => rw [hf] at h; cases h
      | ok o =>
        rw [hf] at h
        cases o with
        | none =>
          simp only at h
          obtain ⟨h1, h2, h3, h4⟩ := ih (e.node :: dupes) l t h
          refine ⟨fun s hs hm => h1 s hs (List.mem_cons_of_mem _ hm), h2, ?_, ?_⟩
          · intro s hs
            obtain ⟨⟨e', he', hn⟩, hf'⟩ := h3 s hs
            exact ⟨⟨e', List.mem_cons_of_mem _ he', hn⟩, hf'⟩
          · intro e' he' hnd' hacc
            have hne : e'.node ≠ e.node := by
              intro heq
              rw [heq] at hacc
              rw [(fromFilename_none fs cfg e.node).mp hf] at hacc
              cases hacc
            rcases List.mem_cons.mp he' with rfl | he'
            · exact absurd rfl hne
            · exact h4 e' he' (by simp [hne, hnd']) hacc
        | some s0 =>
          simp only at h
          cases hrec : loadLoop fs cfg rest (e.node :: dupes) with
          | error x => rw [hrec] at h; cases h
          | ok p =>
            obtain ⟨l', t'⟩ := p
            rw [hrec] at h
            simp only [Except.ok.injEq, Prod.mk.injEq] at h
            obtain ⟨rfl, rfl⟩ := h
            obtain ⟨h1, h2, h3, h4⟩ := ih (e.node :: dupes) l' t' hrec
            have hs0 : s0.node = e.node := ((fromFilename_some fs cfg e.node s0).mp hf).2.1
            refine ⟨?_, ?_, ?_, ?_⟩
            · intro s hs
              rcases List.mem_cons.mp hs with rfl | hs
              · rw [hs0]; exact hnd
              · exact fun hm => h1 s hs (List.mem_cons_of_mem _ hm)
            · simp only [List.map_cons, List.nodup_cons]
              refine ⟨?_, h2⟩
              intro hm
              obtain ⟨s, hs, heq⟩ := List.mem_map.mp hm
              apply h1 s hs
              rw [heq, hs0]
              exact List.mem_cons_self
            · intro s hs
              rcases List.mem_cons.mp hs with rfl | hs
              · refine ⟨⟨e, List.mem_cons_self, hs0.symm⟩, ?_⟩
                rw [hs0]; exact hf
              · obtain ⟨⟨e', he', hn⟩, hf'⟩ := h3 s hs
                exact ⟨⟨e', List.mem_cons_of_mem _ he', hn⟩, hf'⟩
            · intro e' he' hnd' hacc
              by_cases heq : e'.node = e.node
              · exact ⟨s0, List.mem_cons_self, by rw [hs0, heq]⟩
              · rcases List.mem_cons.mp he' with rfl | he'
                · exact absurd rfl heq
                · obtain ⟨s, hs, hn⟩ := h4 e' he' (by simp [heq, hnd']) hacc
                  exact ⟨s, List.mem_cons_of_mem _ hs, hn⟩

theorem loadLoop_error (fs : FS) (cfg : Cfg) (es : List Entry) :
    ∀ (dupes : List Nat) (x : Err), loadLoop fs cfg es dupes = .error x →
      ∃ e ∈ es, fromFilename fs cfg e.node = .error x := by
  induction es with
  | nil => intro dupes x h; simp [loadLoop] at h
  | cons e rest ih =>
    intro dupes x h
    simp only [loadLoop] at h
    by_cases hd : dupes.contains e.node = true
    · simp only [hd, if_true] at h
      cases hrec : loadLoop fs cfg rest dupes with
      | error y =>
        rw [hrec] at h
        simp only [Except.error.injEq] at h
        subst h
        obtain ⟨e', he', hf⟩ := ih dupes y hrec
        exact ⟨e', List.mem_cons_of_mem _ he', hf⟩
      | ok p => rw [hrec] at h; cases h
    · simp only [hd, Bool.false_eq_true, if_false] at h
      cases hf : fromFilename fs cfg e.node with
      | error y =>
        rw [hf] at h
        simp only [Except.error.injEq] at h
        subst h
        exact ⟨e, List.mem_cons_self, hf⟩
      | ok o =>
        rw [hf] at h
        cases o with
        | none =>
          obtain ⟨e', he', hf'⟩ := ih _ x h
          exact ⟨e', List.mem_cons_of_mem _ he', hf'⟩
        | some s0 =>
          simp only at h
          cases hrec : loadLoop fs cfg rest (e.node :: dupes) with
          | error y =>
            rw [hrec] at h
            simp only [Except.error.injEq] at h
            subst h
            obtain ⟨e', he', hf'⟩ := ih _ y hrec
            exact ⟨e', List.mem_cons_of_mem _ he', hf'⟩
          | ok p => rw [hrec] at h; cases h

theorem loadLoop_ok_of_no_error (fs : FS) (cfg : Cfg) (es : List Entry) :
    ∀ (dupes : List Nat), (∀ e ∈ es, ∀ x, fromFilename fs cfg e.node ≠ .error x) →
      ∃ r, loadLoop fs cfg es dupes = .ok r := by
  intro dupes h
  cases hl : loadLoop fs cfg es dupes with
  | ok r => exact ⟨r, rfl⟩
  | error x =>
    obtain ⟨e, he, hf⟩ := loadLoop_error fs cfg es dupes x hl
    exact absurd hf (h e he x)

end Lemmas.Files
