import Spec.Files
/-! Names of byte-code cache files `<module>.<tag>[.opt-N].pyc` and the documented name rule. -/
namespace Lemmas.Files
open Model.Files Spec.Files

/-- `<module> . <mid> .pyc` - `mid` is the interpreter tag with an optional optimisation suffix:
    `cpython-312`, `cpython-312.opt-1`, `cpython-312.opt-2`, … (any text). -/
def cacheName (m mid : Name) : Name := m ++ '.' :: mid ++ dotPyc

theorem stem_append_dot (m r : Name) (h : '.' ∉ m) : stem (m ++ '.' :: r) = m := by
  unfold stem
  induction m with
  | nil => simp
  | cons x m ih =>
    simp only [List.mem_cons, not_or] at h
    have hx : (x != '.') = true := by simp [Ne.symm h.1]
    simp only [List.cons_append, List.takeWhile_cons, hx, if_true, ih h.2]

theorem stem_cacheName (m mid : Name) (h : '.' ∉ m) : stem (cacheName m mid) = m := by
  unfold cacheName
  rw [List.append_assoc, List.cons_append]
  exact stem_append_dot m _ h

/-- lists split at the first occurrence of `x` in only one way -/
theorem split_first_unique {α} (x : α) : ∀ (a b s t : List α), a ++ x :: s = b ++ x :: t → x ∉ a → x ∉ b → a = b := by
  intro a
  induction a with
  | nil =>
    intro b s t h _ hb
    cases b with
    | nil => rfl
    | cons y b =>
      simp only [List.nil_append, List.cons_append, List.cons.injEq] at h
      exact absurd (h.1 ▸ List.mem_cons_self) hb
  | cons y a ih =>
    intro b s t h ha hb
    cases b with
    | nil =>
      simp only [List.nil_append, List.cons_append, List.cons.injEq] at h
      exact absurd (h.1 ▸ List.mem_cons_self) ha
    | cons z b =>
      simp only [List.cons_append, List.cons.injEq] at h
      rw [h.1, ih b s t h.2 (fun hm => ha (List.mem_cons_of_mem _ hm)) (fun hm => hb (List.mem_cons_of_mem _ hm))]

theorem endsWith_pyc_cacheName (m mid : Name) : endsWith dotPyc (cacheName m mid) = true := by
  unfold endsWith cacheName
  rw [List.isSuffixOf_iff_suffix]
  exact ⟨m ++ '.' :: mid, by simp⟩

theorem not_lock_cacheName (m mid : Name) (h0 : m ≠ []) (hdot : '.' ∉ m) : isLock (cacheName m mid) = false := by
  cases m with
  | nil => exact absurd rfl h0
  | cons x m =>
    simp only [List.mem_cons, not_or] at hdot
    cases hl : isLock (cacheName (x :: m) mid) with
    | false => rfl
    | true =>
      unfold isLock startsWith lockPrefix cacheName at hl
      rw [List.isPrefixOf_iff_prefix] at hl
      obtain ⟨t, ht⟩ := hl
      simp only [List.cons_append, List.cons.injEq] at ht
      exact absurd ht.1 hdot.1

theorem not_init_cacheName (m mid : Name) (hdot : '.' ∉ m) (hinit : m ≠ initPrefix) :
    isInitModule (cacheName m mid) = false := by
  cases hl : isInitModule (cacheName m mid) with
  | false => rfl
  | true =>
    unfold isInitModule startsWith cacheName at hl
    rw [List.isPrefixOf_iff_prefix] at hl
    obtain ⟨t, ht⟩ := hl
    rw [List.append_assoc, List.singleton_append, List.append_assoc, List.cons_append] at ht
    have := split_first_unique '.' initPrefix m t (mid ++ dotPyc) ht (by decide) hdot
    exact absurd this.symm hinit

/-- every `<module>.<anything>.pyc` is a revision file name in sourceless mode, as long as `<module>` is a
    non-empty dot-free module name other than `__init__` -/
theorem isRevName_cacheName (m mid : Name) (h0 : m ≠ []) (hdot : '.' ∉ m) (hinit : m ≠ initPrefix) :
    isRevName true (cacheName m mid) = true := by
  unfold isRevName
  simp [not_lock_cacheName m mid h0 hdot, not_init_cacheName m mid hdot hinit, endsWith_pyc_cacheName]

theorem count_eq_one_of_nodup_mem : ∀ (l : List Nat) (a : Nat), l.Nodup → a ∈ l → l.count a = 1 := by
  intro l
  induction l with
  | nil => intro a _ h; cases h
  | cons x r ih =>
    intro a hn hm
    rw [List.nodup_cons] at hn
    rw [List.count_cons]
    rcases List.mem_cons.mp hm with rfl | hm
    · have : r.count a = 0 := List.count_eq_zero.mpr hn.1
      simp [this]
    · have hne : x ≠ a := fun h => hn.1 (h ▸ hm)
      simp [ih a hn.2 hm, hne]

end Lemmas.Files
