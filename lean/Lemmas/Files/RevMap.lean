import Spec.Files
/-! Lemmas about the duplicate-id bookkeeping of `RevisionMap._revision_map`. -/
namespace Lemmas.Files
open Model.Files Spec.Files

/-- number of scripts in `l` carrying the id `x` -/
def cnt (x : Name) (l : List Loaded) : Nat := (l.filter (fun s => s.rev == x)).length

theorem revMapLoop_cons (s : Loaded) (rest : List Loaded) (keys : List Name) :
    revMapLoop (s :: rest) keys =
      if keys.contains s.rev then ((revMapLoop rest keys).1, s.rev :: (revMapLoop rest keys).2)
      else revMapLoop rest (s.rev :: keys) := by
  simp only [revMapLoop]

theorem cnt_cons (x : Name) (s : Loaded) (rest : List Loaded) :
    cnt x (s :: rest) = (if s.rev = x then 1 else 0) + cnt x rest := by
  unfold cnt
  by_cases h : s.rev = x
  · simp [h]; omega
  · simp [h]

/-- a "present more than once" warning for `x` ⇔ `x` is carried by two scripts
    (or by one, if it was in the map before) -/
theorem revMapLoop_warn (x : Name) : ∀ (l : List Loaded) (keys : List Name),
    x ∈ (revMapLoop l keys).2 ↔ (if x ∈ keys then 1 ≤ cnt x l else 2 ≤ cnt x l) := by
  intro l
  induction l with
  | nil => intro keys; simp [revMapLoop, cnt]
  | cons s rest ih =>
    intro keys
    rw [revMapLoop_cons, cnt_cons]
    by_cases hk : keys.contains s.rev = true
    · simp only [hk, if_true, List.mem_cons]
      have hk' : s.rev ∈ keys := List.contains_iff_mem.mp hk
      by_cases hx : s.rev = x
      · subst hx
        simp only [hk', if_true, true_or, true_iff]
        omega
      · have hx' : ¬ x = s.rev := fun h => hx h.symm
        simp only [hx', false_or, hx, if_false, ih keys, Nat.zero_add]
    · simp only [hk, Bool.false_eq_true, if_false]
      have hk' : s.rev ∉ keys := fun h => hk (List.contains_iff_mem.mpr h)
      rw [ih (s.rev :: keys)]
      by_cases hx : s.rev = x
      · subst hx
        simp only [List.mem_cons, true_or, if_true, hk', if_false]
        omega
      · have hx' : ¬ x = s.rev := fun h => hx h.symm
        simp only [List.mem_cons, hx', false_or, hx, if_false, Nat.zero_add]

theorem revMapLoop_keys (x : Name) : ∀ (l : List Loaded) (keys : List Name),
    x ∈ (revMapLoop l keys).1 ↔ x ∈ keys ∨ ∃ s ∈ l, s.rev = x := by
  intro l
  induction l with
  | nil => intro keys; simp [revMapLoop]
  | cons s rest ih =>
    intro keys
    rw [revMapLoop_cons]
    by_cases hk : keys.contains s.rev = true
    · simp only [hk, if_true, ih keys, List.mem_cons, exists_eq_or_imp]
      have hk' : s.rev ∈ keys := List.contains_iff_mem.mp hk
      constructor
      · rintro (h | h)
        · exact Or.inl h
        · exact Or.inr (Or.inr h)
      · rintro (h | h | h)
        · exact Or.inl h
        · subst h; exact Or.inl hk'
        · exact Or.inr h
    · simp only [hk, Bool.false_eq_true, if_false, ih (s.rev :: keys), List.mem_cons, exists_eq_or_imp]
      constructor
      · rintro ((h | h) | h)
        · exact Or.inr (Or.inl h.symm)
        · exact Or.inl h
        · exact Or.inr (Or.inr h)
      · rintro (h | h | h)
        · exact Or.inl (Or.inr h)
        · exact Or.inl (Or.inl h.symm)
        · exact Or.inr h

theorem revMapLoop_keys_nodup : ∀ (l : List Loaded) (keys : List Name),
    keys.Nodup → (revMapLoop l keys).1.Nodup := by
  intro l
  induction l with
  | nil =>
    intro keys h
    simp only [revMapLoop]
    unfold List.Nodup
    rw [List.pairwise_reverse]
    exact List.Pairwise.imp (fun hab => Ne.symm hab) h
  | cons s rest ih =>
    intro keys h
    rw [revMapLoop_cons]
    by_cases hk : keys.contains s.rev = true
    · simp only [hk, if_true]; exact ih keys h
    · simp only [hk, Bool.false_eq_true, if_false]
      apply ih
      have hk' : s.rev ∉ keys := fun h => hk (List.contains_iff_mem.mpr h)
      exact List.nodup_cons.mpr ⟨hk', h⟩

/-- with pairwise different canonical files: two scripts carry `x` ⇔ two *different files* do -/
theorem two_le_cnt_iff (x : Name) (l : List Loaded) (hn : (l.map (·.node)).Nodup) :
    2 ≤ cnt x l ↔ ∃ s ∈ l, ∃ t ∈ l, s.node ≠ t.node ∧ s.rev = x ∧ t.rev = x := by
  unfold cnt
  have hsub : ((l.filter (fun s => s.rev == x)).map (·.node)).Nodup :=
    List.Nodup.sublist (List.Sublist.map _ List.filter_sublist) hn
  have hmem : ∀ s, s ∈ l.filter (fun s => s.rev == x) ↔ s ∈ l ∧ s.rev = x := by
    intro s; simp [List.mem_filter]
  generalize l.filter (fun s => s.rev == x) = f at hsub hmem
  constructor
  · intro h
    match f, h, hsub, hmem with
    | a :: b :: r, _, hsub, hmem =>
      have ha := (hmem a).mp (by simp)
      have hb := (hmem b).mp (by simp)
      refine ⟨a, ha.1, b, hb.1, ?_, ha.2, hb.2⟩
      simp only [List.map_cons, List.nodup_cons, List.mem_cons, not_or] at hsub
      exact hsub.1.1
  · rintro ⟨s, hs, t, ht, hne, hsx, htx⟩
    have hs' := (hmem s).mpr ⟨hs, hsx⟩
    have ht' := (hmem t).mpr ⟨ht, htx⟩
    match f, hs', ht' with
    | [a], hs', ht' =>
      simp only [List.mem_singleton] at hs' ht'
      rw [hs', ht'] at hne
      exact absurd rfl hne
    | a :: b :: r, _, _ => simp

end Lemmas.Files
