import Spec.Filter
/-! Helper lemmas for C20: lookups, first occurrences, running guarded groups. -/
namespace Lemmas.Filter
open Model.Filter Spec.Filter

theorem lookup_mem {β : Type} (l : List (String × β)) (n : String) (c : β)
    (h : l.lookup n = some c) : (n, c) ∈ l := by
  induction l with
  | nil => simp at h
  | cons p r ih =>
    obtain ⟨a, b⟩ := p
    by_cases hn : n = a
    · subst hn
      simp [List.lookup] at h
      subst h
      simp
    · have : (n == a) = false := by simpa using hn
      simp [List.lookup, this] at h
      exact List.mem_cons_of_mem _ (ih h)

def consName : Cons → Option String
  | .idx i => some i.name
  | .uq u => u.name

theorem namedCons_name (t : Tbl) (n : String) (c : Cons) (h : (n, c) ∈ namedCons t) :
    consName c = some n := by
  simp only [namedCons, uqNamed, idxNamed, List.mem_append, List.mem_filterMap, List.mem_map] at h
  rcases h with ⟨u, _, hu⟩ | ⟨i, _, hi⟩
  · cases hn : u.name with
    | none => simp [hn] at hu
    | some x =>
      simp [hn] at hu
      obtain ⟨h1, h2⟩ := hu
      subst h1 h2
      simp [consName, hn]
  · simp at hi
    obtain ⟨h1, h2⟩ := hi
    subst h1 h2
    simp [consName]

theorem namedConsOf_name (t : Option Tbl) (n : String) (c : Cons) (h : (n, c) ∈ namedConsOf t) :
    consName c = some n := by
  cases t with
  | none => simp [namedConsOf] at h
  | some t => exact namedCons_name t n c h

theorem uqNamed_isIdx (t : Tbl) (n : String) (c : Cons) (h : (n, c) ∈ uqNamed t) : c.isIdx = false := by
  simp only [uqNamed, List.mem_filterMap] at h
  obtain ⟨u, _, hu⟩ := h
  cases hn : u.name with
  | none => simp [hn] at hu
  | some x => simp [hn] at hu; rw [← hu.2]; rfl

theorem idxNamed_isIdx (t : Tbl) (n : String) (c : Cons) (h : (n, c) ∈ idxNamed t) : c.isIdx = true := by
  simp only [idxNamed, List.mem_map] at h
  obtain ⟨i, _, hi⟩ := h
  simp at hi
  rw [← hi.2]; rfl

/-- what a typed lookup returns: an object of that type, of that name, of that table -/
theorem lookupTyped_spec (t : Option Tbl) (w : Bool) (n : String) (c : Cons)
    (h : lookupTyped t w n = some c) :
    c.isIdx = w ∧ consName c = some n ∧ (n, c) ∈ namedConsOf t := by
  cases t with
  | none => simp [lookupTyped] at h
  | some t =>
    simp only [lookupTyped] at h
    cases w with
    | true =>
      simp at h
      have hm := lookup_mem _ _ _ h
      have hm' : (n, c) ∈ namedCons t := by simp [namedCons, hm]
      exact ⟨idxNamed_isIdx t n c hm, namedCons_name t n c hm', hm'⟩
    | false =>
      simp at h
      have hm := lookup_mem _ _ _ h
      have hm' : (n, c) ∈ namedCons t := by simp [namedCons, hm]
      exact ⟨uqNamed_isIdx t n c hm, namedCons_name t n c hm', hm'⟩

theorem lookupConn_spec (t : Option Tbl) (w : Bool) (n : String) (c : Cons)
    (h : lookupConn t w n = some c) :
    (lookupTyped t w n = some c) ∨ (lookupTyped t w n = none ∧ lookupTyped t (!w) n = some c) := by
  unfold lookupConn at h
  cases ht : lookupTyped t w n with
  | some x => simp [ht] at h; subst h; exact Or.inl rfl
  | none => simp [ht] at h; exact Or.inr ⟨rfl, h⟩

theorem lookupConn_none (t : Option Tbl) (w : Bool) (n : String)
    (h : lookupConn t w n = none) : lookupTyped t w n = none := by
  unfold lookupConn at h
  cases ht : lookupTyped t w n with
  | some x => simp [ht] at h
  | none => rfl

theorem firsts_spec (l : List (String × Cons)) (p : String × Cons) (h : p ∈ firsts l) :
    l.lookup p.1 = some p.2 ∧ p ∈ l := by
  simp only [firsts, List.mem_filter] at h
  exact ⟨by simpa using h.2, h.1⟩

theorem findTbl_some {l : List Tbl} {k : Key} {t : Tbl} (h : findTbl l k = some t) :
    t ∈ l ∧ t.key = k ∧ hasKey l k = true := by
  unfold findTbl at h
  have h1 := List.mem_of_find?_eq_some h
  have h2 := List.find?_some h
  simp at h2
  refine ⟨h1, h2, ?_⟩
  simp only [hasKey, List.any_eq_true]
  exact ⟨t, h1, by simp [h2]⟩

theorem firstTbls_spec (l : List Tbl) (t : Tbl) (h : t ∈ firstTbls l) :
    findTbl l t.key = some t ∧ t ∈ l := by
  simp only [firstTbls, List.mem_filterMap] at h
  obtain ⟨k, _, hk⟩ := h
  obtain ⟨h1, h2, _⟩ := findTbl_some hk
  exact ⟨by rw [h2]; exact hk, h1⟩

theorem findTbl_none {l : List Tbl} {k : Key} (h : hasKey l k = false) : findTbl l k = none := by
  unfold findTbl
  rw [List.find?_eq_none]
  intro t ht
  simp only [hasKey] at h
  have := List.any_eq_false.mp h t ht
  simpa using this

theorem hasKey_of_mem {l : List Tbl} {t : Tbl} (h : t ∈ l) : hasKey l t.key = true := by
  simp only [hasKey, List.any_eq_true]
  exact ⟨t, h, by simp⟩

/-! ### running guarded groups -/

theorem mem_runGroups {objF : ObjDesc → Bool} {gs : List Group} {op : Op} :
    op ∈ runGroups objF gs ↔ ∃ g ∈ gs, objF g.1 = true ∧ op ∈ g.2 := by
  simp only [runGroups, List.mem_flatMap]
  constructor
  · rintro ⟨g, hg, h⟩
    by_cases hf : objF g.1 = true
    · simp [hf] at h; exact ⟨g, hg, hf, h⟩
    · simp [hf] at h
  · rintro ⟨g, hg, hf, h⟩
    exact ⟨g, hg, by simp [hf, h]⟩

theorem mem_runT {objF : ObjDesc → Bool} {ts : List TGroup} {op : Op} :
    op ∈ runT objF ts ↔ ∃ t ∈ ts, objF t.1 = true ∧ ∃ g ∈ t.2, objF g.1 = true ∧ op ∈ g.2 := by
  simp only [runT, List.mem_flatMap]
  constructor
  · rintro ⟨t, ht, h⟩
    by_cases hf : objF t.1 = true
    · simp [hf] at h; exact ⟨t, ht, hf, mem_runGroups.mp h⟩
    · simp [hf] at h
  · rintro ⟨t, ht, hf, h⟩
    exact ⟨t, ht, by simp [hf, mem_runGroups.mpr h]⟩

theorem filter_flatMap' {α β : Type} (l : List α) (f : α → List β) (p : β → Bool) :
    (l.flatMap f).filter p = l.flatMap (fun x => (f x).filter p) := by
  induction l with
  | nil => simp
  | cons x r ih => simp [List.flatMap_cons, List.filter_append, ih]

theorem flatMap_congr' {α β : Type} (l : List α) (f g : α → List β) (h : ∀ x ∈ l, f x = g x) :
    l.flatMap f = l.flatMap g := by
  induction l with
  | nil => simp
  | cons x r ih =>
    simp only [List.flatMap_cons]
    rw [h x (by simp), ih (fun y hy => h y (by simp [hy]))]

theorem filter_const {β : Type} (l : List β) (p : β → Bool) (b : Bool) (h : ∀ x ∈ l, p x = b) :
    l.filter p = if b then l else [] := by
  cases b with
  | true => simpa using (List.filter_eq_self.mpr (by simpa using h))
  | false => simpa using (List.filter_eq_nil_iff.mpr (by simpa using h))

/-- if inside every group the acceptance test is "table descriptor accepted and group descriptor
accepted", running the groups with the filter is filtering the unfiltered run -/
theorem runT_eq_filter (objF : ObjDesc → Bool) (ts : List TGroup) (acc : Op → Bool)
    (h : ∀ t ∈ ts, ∀ g ∈ t.2, ∀ op ∈ g.2, acc op = (objF g.1 && objF t.1)) :
    runT objF ts = (runT (fun _ => true) ts).filter acc := by
  simp only [runT, runGroups, if_true, filter_flatMap']
  apply flatMap_congr'
  intro t ht
  by_cases hf : objF t.1 = true
  · simp only [hf, if_true]
    apply flatMap_congr'
    intro g hg
    rw [filter_const g.2 acc (objF g.1) (by intro op hop; rw [h t ht g hg op hop, hf]; simp)]
  · have hf' : objF t.1 = false := by simpa using hf
    simp only [hf', Bool.false_eq_true, if_false]
    symm
    rw [List.flatMap_eq_nil_iff]
    intro g hg
    rw [filter_const g.2 acc false (by intro op hop; rw [h t ht g hg op hop, hf']; simp)]
    simp

end Lemmas.Filter
