import Lemmas.Filter.Basic
/-! The descriptor lemma of C20: every op of every candidate group targets exactly the unit of
comparison the group's filter call describes, inside the table the enclosing table-level call
describes. -/
namespace Lemmas.Filter
open Model.Filter Spec.Filter

/-- what `namedIs` computes, in terms of the lookup -/
theorem namedIs_some (l : List Tbl) (k : Key) (n : String) (w : Bool) :
    namedIs l k (some n) w =
      match (namedConsOf (findTbl l k)).lookup n with
      | some c => c.isIdx == w
      | none => false := rfl

theorem namedIs_none (l : List Tbl) (k : Key) (w : Bool) : namedIs l k none w = false := rfl

theorem connHas_some (l : List Tbl) (k : Key) (n : String) (w : Bool) :
    connHas l k (some n) w = (lookupTyped (findTbl l k) w n).isSome := rfl

theorem connHas_none (l : List Tbl) (k : Key) (w : Bool) : connHas l k none w = false := rfl

def GroupOk (A B : List Tbl) (k : Key) (g : Group) : Prop :=
  ∀ op ∈ g.2, targetDescOf A B op = g.1 ∧ op.key = k

theorem objAdded_ok (P : Cmp) (A B : List Tbl) (k : Key) (inline : Bool) (c : Cons)
    (hn : connHas A k (consName c) c.isIdx = false) :
    ∀ g ∈ objAdded P k inline c, GroupOk A B k g := by
  intro g hg op hop
  cases c with
  | idx i =>
    simp [objAdded] at hg
    subst hg
    simp at hop
    subst hop
    simp [consName, Cons.isIdx] at hn
    simp [targetDescOf, Op.key, hn]
  | uq u =>
    simp only [objAdded] at hg
    split at hg
    · simp at hg
    · split at hg
      · simp at hg
      · simp at hg
        subst hg
        simp at hop
        subst hop
        simp [consName, Cons.isIdx] at hn
        simp [targetDescOf, Op.key, hn]

theorem objRemoved_ok (P : Cmp) (A B : List Tbl) (k : Key) (inline : Bool) (c : Cons)
    (hn : namedIs B k (consName c) c.isIdx = false) :
    ∀ g ∈ objRemoved P k inline c, GroupOk A B k g := by
  intro g hg op hop
  cases c with
  | idx i =>
    simp only [objRemoved] at hg
    split at hg
    · simp at hg
    · simp at hg
      subst hg
      simp at hop
      subst hop
      simp [consName, Cons.isIdx] at hn
      simp [targetDescOf, Op.key, hn]
  | uq u =>
    simp only [objRemoved] at hg
    split at hg
    · simp at hg
    · simp at hg
      subst hg
      simp at hop
      subst hop
      simp [consName, Cons.isIdx] at hn
      simp [targetDescOf, Op.key, hn]

theorem objChanged_ok (A B : List Tbl) (k : Key) (c m : Cons)
    (hnames : consName c = consName m)
    (hA : connHas A k (consName m) m.isIdx = true)
    (hB : namedIs B k (consName m) m.isIdx = true) :
    ∀ g ∈ objChanged k c m, GroupOk A B k g := by
  intro g hg op hop
  cases c with
  | idx old =>
    cases m with
    | idx new =>
      simp [objChanged] at hg
      subst hg
      simp [consName] at hnames
      simp [consName, Cons.isIdx] at hA hB
      simp at hop
      rcases hop with rfl | rfl
      · simp [targetDescOf, Op.key, hnames, hB]
      · simp [targetDescOf, Op.key, hA]
    | uq new => simp [objChanged] at hg
  | uq old =>
    cases m with
    | idx new => simp [objChanged] at hg
    | uq new =>
      simp [objChanged] at hg
      subst hg
      simp [consName] at hnames
      simp [consName, Cons.isIdx] at hA hB
      simp at hop
      rcases hop with rfl | rfl
      · simp [targetDescOf, Op.key, hnames, hB]
      · simp [targetDescOf, Op.key, hA]

theorem cmpIdxUq_ok (P : Cmp) (A B : List Tbl) (k : Key) (conn md : Option Tbl)
    (hA : findTbl A k = conn) (hB : findTbl B k = md) :
    ∀ g ∈ cmpIdxUq P k conn md, GroupOk A B k g := by
  intro g hg
  simp only [cmpIdxUq, List.mem_append, List.mem_flatMap] at hg
  rcases hg with ((⟨p, hp, hg⟩ | ⟨p, hp, hg⟩) | ⟨p, hp, hg⟩) | ⟨u, hu, hg⟩
  · -- removed
    obtain ⟨_, hpm⟩ := firsts_spec _ p hp
    have hname := namedConsOf_name _ p.1 p.2 hpm
    split at hg
    · simp at hg
    · rename_i hnone
      have hlB : List.lookup p.1 (namedConsOf md) = none := by
        cases hl : List.lookup p.1 (namedConsOf md) with
        | none => rfl
        | some x => simp [hl] at hnone
      have hnB : ∀ c : Cons, consName c = some p.1 → namedIs B k (consName c) c.isIdx = false := by
        intro c hc
        rw [hc, namedIs_some, hB, hlB]
      split at hg
      · -- doubled name
        rename_i cu ci hcu hci
        split at hg
        · simp only [List.mem_append] at hg
          rcases hg with hg | hg
          · exact objRemoved_ok P A B k _ cu (hnB cu (lookupTyped_spec _ _ _ _ hcu).2.1) g hg
          · exact objRemoved_ok P A B k _ ci (hnB ci (lookupTyped_spec _ _ _ _ hci).2.1) g hg
        · simp at hg
      · split at hg
        · split at hg
          · simp at hg
          · exact objRemoved_ok P A B k _ p.2 (hnB p.2 hname) g hg
        · exact objRemoved_ok P A B k _ p.2 (hnB p.2 hname) g hg
  · -- existing
    obtain ⟨hlm, hpm⟩ := firsts_spec _ p hp
    have hname := namedConsOf_name _ p.1 p.2 hpm
    cases md with
    | none => simp [namedConsOf] at hpm
    | some m =>
      simp only [Option.isNone_some, Bool.false_eq_true, if_false] at hg
      split at hg
      · simp at hg
      · rename_i c hlc
        split at hg
        · rename_i hdiff
          have hdiff' : c.isIdx ≠ p.2.isIdx := by simpa [bne_iff_ne] using hdiff
          -- the resolved object has another type: there is no reflected object of the same type
          have htyped : lookupTyped conn p.2.isIdx p.1 = none := by
            rcases lookupConn_spec _ _ _ _ hlc with h | h
            · exact absurd (lookupTyped_spec _ _ _ _ h).1 hdiff'
            · exact h.1
          have hcname : consName c = some p.1 := by
            rcases lookupConn_spec _ _ _ _ hlc with h | h
            · exact (lookupTyped_spec _ _ _ _ h).2.1
            · exact (lookupTyped_spec _ _ _ _ h.2).2.1
          simp only [List.mem_append] at hg
          rcases hg with hg | hg
          · refine objRemoved_ok P A B k _ c ?_ g hg
            rw [hcname, namedIs_some, hB, hlm]
            cases h1 : c.isIdx <;> cases h2 : p.2.isIdx <;> simp_all
          · refine objAdded_ok P A B k _ p.2 ?_ g hg
            rw [hname, connHas_some, hA, htyped]
            rfl
        · rename_i hsame
          have hsame' : c.isIdx = p.2.isIdx := by simpa [bne_iff_ne] using hsame
          have htyped : lookupTyped conn p.2.isIdx p.1 = some c := by
            rcases lookupConn_spec _ _ _ _ hlc with h | h
            · exact h
            · have := (lookupTyped_spec _ _ _ _ h.2).1
              rw [hsame'] at this
              cases hb : p.2.isIdx <;> simp [hb] at this
          have hcname := (lookupTyped_spec _ _ _ _ htyped).2.1
          split at hg
          · refine objChanged_ok A B k c p.2 (by rw [hcname, hname]) ?_ ?_ g hg
            · rw [hname, connHas_some, hA, htyped]; rfl
            · rw [hname, namedIs_some, hB, hlm]; simp
          · simp at hg
  · -- added
    obtain ⟨hlm, hpm⟩ := firsts_spec _ p hp
    have hname := namedConsOf_name _ p.1 p.2 hpm
    cases md with
    | none => simp [namedConsOf] at hpm
    | some m =>
      simp only [Option.isNone_some, Bool.false_eq_true, if_false] at hg
      split at hg
      · simp at hg
      · rename_i hnone
        refine objAdded_ok P A B k _ p.2 ?_ g hg
        rw [hname, connHas_some, hA]
        cases hl : lookupConn conn p.2.isIdx p.1 with
        | none => rw [lookupConn_none _ _ _ hl]; rfl
        | some x => simp [hl] at hnone
  · -- unnamed metadata unique constraints
    simp only [List.mem_filter] at hu
    have hnm : u.name = none := by simpa using hu.2
    cases md with
    | none => simp at hu
    | some m =>
      simp only [Option.isNone_some, Bool.false_eq_true, if_false] at hg
      split at hg
      · simp at hg
      · refine objAdded_ok P A B k _ (.uq u) ?_ g hg
        simp [consName, hnm, connHas_none]

theorem fkNamed_eq (l : List Tbl) (k : Key) (t : Tbl) (h : findTbl l k = some t) (n : Option String) :
    fkNamed l k n = hasName (fkNames t) n := by
  cases n <;> simp [fkNamed, hasName, h]

theorem cmpFks_ok (A B : List Tbl) (k : Key) (conn md : Tbl)
    (hA : findTbl A k = some conn) (hB : findTbl B k = some md) :
    ∀ g ∈ cmpFks k conn md, GroupOk A B k g := by
  intro g hg op hop
  simp only [cmpFks, List.mem_append, List.mem_flatMap] at hg
  rcases hg with ⟨f, _, hg⟩ | ⟨f, _, hg⟩
  · split at hg
    · simp at hg
    · simp at hg
      subst hg
      simp at hop
      subst hop
      simp [targetDescOf, Op.key, fkNamed_eq B k md hB]
  · split at hg
    · simp at hg
    · simp at hg
      subst hg
      simp at hop
      subst hop
      simp [targetDescOf, Op.key, fkNamed_eq A k conn hA]

theorem colsAddedAltered_ok (P : Cmp) (A B : List Tbl) (k : Key) (conn md : Tbl) :
    ∀ g ∈ colsAddedAltered P k conn md, GroupOk A B k g := by
  intro g hg op hop
  simp only [colsAddedAltered, List.mem_append, List.mem_map] at hg
  rcases hg with ⟨c, _, rfl⟩ | ⟨c, _, rfl⟩
  · simp at hop
    subst hop
    simp [targetDescOf, Op.key]
  · by_cases hd : P.colDiffer k c = true
    · simp [hd] at hop
      subst hop
      simp [targetDescOf, Op.key]
    · simp [hd] at hop

theorem colsRemoved_ok (A B : List Tbl) (k : Key) (conn md : Tbl) :
    ∀ g ∈ colsRemoved k conn md, GroupOk A B k g := by
  intro g hg op hop
  simp only [colsRemoved, List.mem_map] at hg
  obtain ⟨c, _, rfl⟩ := hg
  simp at hop
  subst hop
  simp [targetDescOf, Op.key]

/-- **descriptor lemma** -/
theorem candidates_desc (P : Cmp) (A B : List Tbl) :
    ∀ t ∈ candidates P A B, ∀ g ∈ t.2, ∀ op ∈ g.2,
      targetDescOf A B op = g.1 ∧ tableDescOf A B op.key = t.1 := by
  intro t ht g hg op hop
  simp only [candidates, List.mem_append, List.mem_map, List.mem_filter, List.mem_flatMap] at ht
  rcases ht with (⟨m, ⟨hm, hnot⟩, rfl⟩ | ⟨c, ⟨hc, hnot⟩, rfl⟩) | ⟨c, hc, ht⟩
  · -- table only in the metadata
    obtain ⟨hfind, _⟩ := firstTbls_spec B m hm
    have hnA : hasKey A m.key = false := by simpa using hnot
    have htd : tableDescOf A B m.key = ⟨some m.name, .table, false, false, m.schema, m.name⟩ := by
      simp [tableDescOf, hnA]; exact ⟨rfl, rfl, rfl⟩
    simp only [tableAdded, List.mem_cons] at hg
    rcases hg with rfl | hg
    · simp at hop
      subst hop
      exact ⟨htd, htd⟩
    · obtain ⟨h1, h2⟩ := cmpIdxUq_ok P A B m.key none (some m) (findTbl_none hnA) hfind g hg op hop
      exact ⟨h1, by rw [h2]; exact htd⟩
  · -- table only in the database
    obtain ⟨hfind, hmem⟩ := firstTbls_spec A c hc
    have hnB : hasKey B c.key = false := by simpa using hnot
    have hinA : hasKey A c.key = true := hasKey_of_mem hmem
    have htd : tableDescOf A B c.key = ⟨some c.name, .table, true, false, c.schema, c.name⟩ := by
      simp [tableDescOf, hnB, hinA]; exact ⟨rfl, rfl, rfl⟩
    simp only [tableRemoved, List.mem_append, List.mem_singleton] at hg
    rcases hg with hg | rfl
    · obtain ⟨h1, h2⟩ := cmpIdxUq_ok P A B c.key (some c) none hfind (findTbl_none hnB) g hg op hop
      exact ⟨h1, by rw [h2]; exact htd⟩
    · simp at hop
      subst hop
      exact ⟨htd, htd⟩
  · -- table on both sides
    obtain ⟨hfind, hmem⟩ := firstTbls_spec A c hc
    cases hfm : findTbl B c.key with
    | none => simp [hfm] at ht
    | some m =>
      simp [hfm] at ht
      subst ht
      have hinA : hasKey A c.key = true := hasKey_of_mem hmem
      have hinB : hasKey B c.key = true := (findTbl_some hfm).2.2
      have htd : tableDescOf A B c.key = ⟨some c.name, .table, false, true, c.schema, c.name⟩ := by
        simp [tableDescOf, hinA, hinB]; exact ⟨rfl, rfl, rfl⟩
      simp only [tableExisting, List.mem_append] at hg
      have key : GroupOk A B c.key g := by
        rcases hg with (((hg | hg) | hg) | hg) | hg
        · exact colsAddedAltered_ok P A B c.key c m g hg
        · exact cmpIdxUq_ok P A B c.key (some c) (some m) hfind hfm g hg
        · exact cmpFks_ok A B c.key c m hfind hfm g hg
        · -- table comment: targets the table itself
          intro op hop
          simp only [tableCommentG, List.mem_singleton] at hg
          subst hg
          by_cases hd : P.tableCommentDiffer c.key = true
          · simp [hd] at hop
            subst hop
            exact ⟨htd, rfl⟩
          · simp [hd] at hop
        · exact colsRemoved_ok A B c.key c m g hg
      obtain ⟨h1, h2⟩ := key op hop
      exact ⟨h1, by rw [h2]; exact htd⟩

end Lemmas.Filter
