import Lemmas.Filter.Desc
/-! Every drop / alter op of a candidate group targets an object that is present on the
(name-filtered) reflected side. -/
namespace Lemmas.Filter
open Model.Filter Spec.Filter

def TargetIn (t : Tbl) (o : Op) : Prop :=
  match o.kind with
  | .dropColumn | .alterColumn => ∃ c ∈ t.cols, o.name = some c
  | .dropIndex => ∃ i ∈ t.idxs, o.name = some i.name
  | .dropUq => ∃ u ∈ t.uqs, o.name = u.name
  | .dropFk => ∃ f ∈ t.fks, o.name = f.name
  | _ => True

/-- the op is a create/add op, or its target is in `t` and it lives in table `k` -/
def OpIn (t : Tbl) (k : Key) (o : Op) : Prop :=
  o.kind.touchesDb = true → (TargetIn t o ∧ o.key = k)

def consIn (t : Tbl) : Cons → Prop
  | .idx i => i ∈ t.idxs
  | .uq u => u ∈ t.uqs

theorem namedCons_in (t : Tbl) (n : String) (x : Cons) (h : (n, x) ∈ namedCons t) : consIn t x := by
  simp only [namedCons, uqNamed, idxNamed, List.mem_append, List.mem_filterMap, List.mem_map] at h
  rcases h with ⟨u, hu, he⟩ | ⟨i, hi, he⟩
  · cases hn : u.name with
    | none => simp [hn] at he
    | some v =>
      simp [hn] at he
      rw [← he.2]
      exact hu
  · simp at he
    rw [← he.2]
    exact hi

theorem namedCons_in_noUq (t : Tbl) (n : String) (x : Cons)
    (h : (n, x) ∈ namedCons { t with uqs := [] }) : consIn t x := by
  have := namedCons_in { t with uqs := [] } n x h
  cases x with
  | idx i => exact this
  | uq u => simp [consIn] at this

theorem mem_of_mem_ite_nil {α : Type} {c : Prop} [Decidable c] {l : List α} {x : α}
    (h : x ∈ if c then [] else l) : x ∈ l := by
  split at h
  · simp at h
  · exact h

theorem objAdded_notouch (P : Cmp) (k : Key) (inline : Bool) (x : Cons) :
    ∀ g ∈ objAdded P k inline x, ∀ op ∈ g.2, op.kind.touchesDb = false := by
  intro g hg op hop
  cases x with
  | idx i =>
    simp [objAdded] at hg; subst hg; simp at hop; subst hop
    simp [OpKind.touchesDb]
  | uq u =>
    simp only [objAdded] at hg
    split at hg
    · simp at hg
    · split at hg
      · simp at hg
      · simp at hg; subst hg; simp at hop; subst hop
        simp [OpKind.touchesDb]

theorem objAdded_in (P : Cmp) (t : Tbl) (k : Key) (inline : Bool) (x : Cons) :
    ∀ g ∈ objAdded P k inline x, ∀ op ∈ g.2, OpIn t k op := by
  intro g hg op hop htouch
  cases x with
  | idx i =>
    simp [objAdded] at hg; subst hg; simp at hop; subst hop
    simp [OpKind.touchesDb] at htouch
  | uq u =>
    simp only [objAdded] at hg
    split at hg
    · simp at hg
    · split at hg
      · simp at hg
      · simp at hg; subst hg; simp at hop; subst hop
        simp [OpKind.touchesDb] at htouch

theorem objRemoved_in (P : Cmp) (t : Tbl) (k : Key) (inline : Bool) (x : Cons) (hx : consIn t x) :
    ∀ g ∈ objRemoved P k inline x, ∀ op ∈ g.2, OpIn t k op := by
  intro g hg op hop _
  cases x with
  | idx i =>
    simp only [objRemoved] at hg
    split at hg
    · simp at hg
    · simp at hg; subst hg; simp at hop; subst hop
      exact ⟨⟨i, hx, rfl⟩, rfl⟩
  | uq u =>
    simp only [objRemoved] at hg
    split at hg
    · simp at hg
    · simp at hg; subst hg; simp at hop; subst hop
      exact ⟨⟨u, hx, rfl⟩, rfl⟩

theorem objChanged_in (t : Tbl) (k : Key) (c m : Cons) (hc : consIn t c) :
    ∀ g ∈ objChanged k c m, ∀ op ∈ g.2, OpIn t k op := by
  intro g hg op hop htouch
  cases c with
  | idx old =>
    cases m with
    | idx new =>
      simp [objChanged] at hg; subst hg; simp at hop
      rcases hop with rfl | rfl
      · exact ⟨⟨old, hc, rfl⟩, rfl⟩
      · simp [OpKind.touchesDb] at htouch
    | uq new => simp [objChanged] at hg
  | uq old =>
    cases m with
    | idx new => simp [objChanged] at hg
    | uq new =>
      simp [objChanged] at hg; subst hg; simp at hop
      rcases hop with rfl | rfl
      · exact ⟨⟨old, hc, rfl⟩, rfl⟩
      · simp [OpKind.touchesDb] at htouch

theorem cmpIdxUq_in (P : Cmp) (k : Key) (c : Tbl) (md : Option Tbl) :
    ∀ g ∈ cmpIdxUq P k (some c) md, ∀ op ∈ g.2, OpIn c k op := by
  intro g hg
  have hcN : ∀ n x, (n, x) ∈ namedConsOf
      (if md.isNone = true then Option.map (fun c => { c with uqs := [] }) (some c) else some c) →
      consIn c x := by
    intro n x h
    cases md with
    | none => exact namedCons_in_noUq c n x (by simpa [namedConsOf] using h)
    | some m => exact namedCons_in c n x (by simpa [namedConsOf] using h)
  simp only [cmpIdxUq, List.mem_append, List.mem_flatMap] at hg
  rcases hg with ((⟨p, hp, hg⟩ | ⟨p, hp, hg⟩) | ⟨p, hp, hg⟩) | ⟨u, _, hg⟩
  · obtain ⟨_, hpm⟩ := firsts_spec _ p hp
    have hin := hcN p.1 p.2 hpm
    split at hg
    · simp at hg
    · split at hg
      · rename_i cu ci hcu hci
        have hinu := hcN p.1 cu (lookupTyped_spec _ _ _ _ hcu).2.2
        have hini := hcN p.1 ci (lookupTyped_spec _ _ _ _ hci).2.2
        split at hg
        · simp only [List.mem_append] at hg
          rcases hg with hg | hg
          · exact objRemoved_in P c k _ cu hinu g hg
          · exact objRemoved_in P c k _ ci hini g hg
        · simp at hg
      · split at hg
        · split at hg
          · simp at hg
          · exact objRemoved_in P c k _ p.2 hin g hg
        · exact objRemoved_in P c k _ p.2 hin g hg
  · split at hg
    · simp at hg
    · rename_i x hlx
      have hin : consIn c x := by
        rcases lookupConn_spec _ _ _ _ hlx with h | h
        · exact hcN p.1 x (lookupTyped_spec _ _ _ _ h).2.2
        · exact hcN p.1 x (lookupTyped_spec _ _ _ _ h.2).2.2
      split at hg
      · simp only [List.mem_append] at hg
        rcases hg with hg | hg
        · exact objRemoved_in P c k _ x hin g hg
        · exact objAdded_in P c k _ p.2 g hg
      · split at hg
        · exact objChanged_in c k x p.2 hin g hg
        · simp at hg
  · exact objAdded_in P c k _ p.2 g (mem_of_mem_ite_nil hg)
  · exact objAdded_in P c k _ (.uq u) g (mem_of_mem_ite_nil hg)

theorem cmpIdxUq_none_notouch (P : Cmp) (k : Key) (md : Option Tbl) :
    ∀ g ∈ cmpIdxUq P k none md, ∀ op ∈ g.2, op.kind.touchesDb = false := by
  intro g hg
  have hnil : namedConsOf (if md.isNone = true then Option.map (fun c : Tbl => { c with uqs := [] }) none else none) = [] := by
    cases md <;> simp [namedConsOf]
  simp only [cmpIdxUq, List.mem_append, List.mem_flatMap, hnil] at hg
  rcases hg with ((⟨p, hp, hg⟩ | ⟨p, hp, hg⟩) | ⟨p, hp, hg⟩) | ⟨u, _, hg⟩
  · simp [firsts] at hp
  · have hl : ∀ w n, lookupConn none w n = none := by
      intro w n; simp [lookupConn, lookupTyped]
    have hif : (if md.isNone = true then Option.map (fun c : Tbl => { c with uqs := [] }) none else none) = none := by
      cases md <;> simp
    simp [hif, hl] at hg
  · exact objAdded_notouch P k _ p.2 g (mem_of_mem_ite_nil hg)
  · exact objAdded_notouch P k _ (.uq u) g (mem_of_mem_ite_nil hg)

theorem cmpFks_in (k : Key) (c m : Tbl) : ∀ g ∈ cmpFks k c m, ∀ op ∈ g.2, OpIn c k op := by
  intro g hg op hop htouch
  simp only [cmpFks, List.mem_append, List.mem_flatMap] at hg
  rcases hg with ⟨f, hf, hg⟩ | ⟨f, _, hg⟩
  · split at hg
    · simp at hg
    · simp at hg; subst hg; simp at hop; subst hop
      exact ⟨⟨f, hf, rfl⟩, rfl⟩
  · split at hg
    · simp at hg
    · simp at hg; subst hg; simp at hop; subst hop
      simp [OpKind.touchesDb] at htouch

theorem cols_in (P : Cmp) (k : Key) (c m : Tbl) :
    ∀ g ∈ colsAddedAltered P k c m ++ colsRemoved k c m, ∀ op ∈ g.2, OpIn c k op := by
  intro g hg op hop htouch
  simp only [colsAddedAltered, colsRemoved, List.mem_append, List.mem_map, List.mem_filter] at hg
  rcases hg with (⟨x, _, rfl⟩ | ⟨x, hx, rfl⟩) | ⟨x, hx, rfl⟩
  · simp at hop; subst hop
    simp [OpKind.touchesDb] at htouch
  · by_cases hd : P.colDiffer k x = true
    · simp [hd] at hop; subst hop
      exact ⟨⟨x, by simpa using hx.2, rfl⟩, rfl⟩
    · simp [hd] at hop
  · simp at hop; subst hop
    exact ⟨⟨x, hx.1, rfl⟩, rfl⟩

/-- every drop / alter op of the candidates targets something present in a table of `A` -/
theorem candidates_in (P : Cmp) (A B : List Tbl) :
    ∀ t ∈ candidates P A B, ∀ g ∈ t.2, ∀ op ∈ g.2, op.kind.touchesDb = true →
      ∃ c ∈ A, c.key = op.key ∧ TargetIn c op := by
  intro t ht g hg op hop htouch
  simp only [candidates, List.mem_append, List.mem_map, List.mem_filter, List.mem_flatMap] at ht
  rcases ht with (⟨m, ⟨_, _⟩, rfl⟩ | ⟨c, ⟨hc, _⟩, rfl⟩) | ⟨c, hc, ht⟩
  · simp only [tableAdded, List.mem_cons] at hg
    rcases hg with rfl | hg
    · simp at hop; subst hop
      simp [OpKind.touchesDb] at htouch
    · have := cmpIdxUq_none_notouch P m.key (some m) g hg op hop
      rw [this] at htouch
      simp at htouch
  · obtain ⟨_, hmem⟩ := firstTbls_spec A c hc
    simp only [tableRemoved, List.mem_append, List.mem_singleton] at hg
    rcases hg with hg | rfl
    · obtain ⟨h1, h2⟩ := cmpIdxUq_in P c.key c none g hg op hop htouch
      exact ⟨c, hmem, h2.symm, h1⟩
    · simp at hop; subst hop
      exact ⟨c, hmem, rfl, by simp [TargetIn]⟩
  · obtain ⟨_, hmem⟩ := firstTbls_spec A c hc
    cases hfm : findTbl B c.key with
    | none => simp [hfm] at ht
    | some m =>
      simp [hfm] at ht
      subst ht
      simp only [tableExisting, List.mem_append] at hg
      have key : OpIn c c.key op := by
        rcases hg with (((hg | hg) | hg) | hg) | hg
        · exact cols_in P c.key c m g (List.mem_append_left _ hg) op hop
        · exact cmpIdxUq_in P c.key c (some m) g hg op hop
        · exact cmpFks_in c.key c m g hg op hop
        · intro _
          simp only [tableCommentG, List.mem_singleton] at hg
          subst hg
          by_cases hd : P.tableCommentDiffer c.key = true
          · simp [hd] at hop
            subst hop
            exact ⟨by simp [TargetIn], rfl⟩
          · simp [hd] at hop
        · exact cols_in P c.key c m g (List.mem_append_right _ hg) op hop
      obtain ⟨h1, h2⟩ := key htouch
      exact ⟨c, hmem, h2.symm, h1⟩

end Lemmas.Filter
