import Lemmas.Filter.Desc
/-! Per-table decomposition of the diff: the ops of table `k` depend on the reflected side only
through `findTbl A k`. Used for the per-table form of name-filter conservativeness (C20). -/
namespace Lemmas.Filter
open Model.Filter Spec.Filter

def tgKey (t : TGroup) : Key := (t.1.schema, t.1.table)

theorem dedupKeys_filter (l : List Key) (k : Key) :
    (dedupKeys l).filter (fun x => x == k) = if l.contains k then [k] else [] := by
  induction l with
  | nil => simp [dedupKeys]
  | cons a r ih =>
    simp only [dedupKeys, List.filter_cons]
    by_cases h : a = k
    · subst h
      have : List.filter (fun x => x == a) (List.filter (fun x => x != a) (dedupKeys r)) = [] := by
        rw [List.filter_filter, List.filter_eq_nil_iff]
        intro x _
        by_cases hx : x = a <;> simp [hx]
      simp [this]
    · have hne : (a == k) = false := by simpa using h
      have hne' : (k == a) = false := by simpa using (fun h' : k = a => h h'.symm)
      rw [hne]
      simp only [Bool.false_eq_true, if_false, List.contains_cons, hne', Bool.false_or]
      rw [List.filter_filter]
      have : (fun x : Key => (x == k && x != a)) = (fun x : Key => (x != a && x == k)) := by
        funext x; exact Bool.and_comm _ _
      rw [this, ← List.filter_filter, ih]
      split
      · have hka : k ≠ a := fun h' => h h'.symm
        simp [bne_iff_ne, hka]
      · simp

theorem hasKey_eq_isSome (l : List Tbl) (k : Key) : hasKey l k = (findTbl l k).isSome := by
  cases h : findTbl l k with
  | some t => simp [(findTbl_some h).2.2]
  | none =>
    cases hk : hasKey l k with
    | false => rfl
    | true =>
      simp only [hasKey, List.any_eq_true] at hk
      obtain ⟨t, ht, hkey⟩ := hk
      unfold findTbl at h
      rw [List.find?_eq_none] at h
      exact absurd hkey (h t ht)

theorem hasKey_contains (l : List Tbl) (k : Key) : (l.map Tbl.key).contains k = hasKey l k := by
  induction l with
  | nil => simp [hasKey]
  | cons t r ih =>
    have hr : hasKey (t :: r) k = (t.key == k || hasKey r k) := by simp [hasKey]
    rw [hr, ← ih]
    by_cases h : t.key = k
    · simp [h]
    · have h' : ¬ k = t.key := fun e => h e.symm
      simp [h, h']

theorem filterMap_filter_key (l : List Tbl) (ks : List Key) (k : Key) :
    (ks.filterMap (findTbl l)).filter (fun t => t.key == k) =
      (ks.filter (fun x => x == k)).filterMap (findTbl l) := by
  induction ks with
  | nil => simp
  | cons x r ih =>
    simp only [List.filterMap_cons, List.filter_cons]
    cases hx : findTbl l x with
    | none =>
      by_cases hxk : (x == k) = true
      · simp [hxk, hx, ih]
      · simp [hxk, ih]
    | some t =>
      have hk := (findTbl_some hx).2.1
      simp only [List.filter_cons, hk]
      by_cases hxk : (x == k) = true
      · simp [hxk, hx, ih]
      · simp [hxk, ih]

/-- one table per key -/
theorem firstTbls_filter_key (l : List Tbl) (k : Key) :
    (firstTbls l).filter (fun t => t.key == k) = (findTbl l k).toList := by
  rw [firstTbls, filterMap_filter_key, dedupKeys_filter, hasKey_contains, hasKey_eq_isSome]
  cases h : findTbl l k <;> simp [h]

theorem filter_flatMap_key {α β : Type} (l : List α) (f : α → List β) (p : β → Bool) (q : α → Bool)
    (h : ∀ x ∈ l, ∀ y ∈ f x, p y = q x) :
    (l.flatMap f).filter p = (l.filter q).flatMap f := by
  induction l with
  | nil => simp
  | cons x r ih =>
    simp only [List.flatMap_cons, List.filter_append, List.filter_cons]
    rw [ih (fun y hy => h y (by simp [hy]))]
    rw [filter_const (f x) p (q x) (h x (by simp))]
    cases q x <;> simp

/-- the ops of table `k` come from the groups of table `k` -/
theorem runT_filter_key (objF : ObjDesc → Bool) (ts : List TGroup) (k : Key)
    (h : ∀ t ∈ ts, ∀ g ∈ t.2, ∀ op ∈ g.2, op.key = tgKey t) :
    (runT objF ts).filter (fun op => op.key == k) = runT objF (ts.filter (fun t => tgKey t == k)) := by
  unfold runT
  apply filter_flatMap_key
  intro t ht op hop
  by_cases hf : objF t.1 = true
  · simp only [hf, if_true] at hop
    obtain ⟨g, hg, _, hop'⟩ := mem_runGroups.mp hop
    rw [h t ht g hg op hop']
  · simp [hf] at hop

theorem candidates_key (P : Cmp) (A B : List Tbl) :
    ∀ t ∈ candidates P A B, ∀ g ∈ t.2, ∀ op ∈ g.2, op.key = tgKey t := by
  intro t ht g hg op hop
  have h := (candidates_desc P A B t ht g hg op hop).2
  unfold tgKey
  rw [← h]
  rfl

/-- the groups of table `k`, as a function of `findTbl A k` and `findTbl B k` only -/
def candK (P : Cmp) (a b : Option Tbl) : List TGroup :=
  ((b.toList.filter (fun _ => !a.isSome)).map (tableAdded P)) ++
  ((a.toList.filter (fun _ => !b.isSome)).map (tableRemoved P)) ++
  a.toList.flatMap (fun c => match b with | some m => [tableExisting P c m] | none => [])

theorem candidates_filter_key (P : Cmp) (A B : List Tbl) (k : Key) :
    (candidates P A B).filter (fun t => tgKey t == k) = candK P (findTbl A k) (findTbl B k) := by
  simp only [candidates, candK, List.filter_append]
  congr 1
  · congr 1
    · -- tables only in the metadata
      rw [List.filter_map]
      congr 1
      have : ((fun t => tgKey t == k) ∘ tableAdded P) = (fun m : Tbl => m.key == k) := by
        funext m; rfl
      rw [this, List.filter_filter]
      have h2 : (fun m : Tbl => (m.key == k && !hasKey A m.key)) = (fun m : Tbl => (!hasKey A m.key && m.key == k)) := by
        funext m; exact Bool.and_comm _ _
      rw [h2, ← List.filter_filter, firstTbls_filter_key]
      apply List.filter_congr
      intro m hm
      have hmk : m.key = k := by
        cases hf : findTbl B k with
        | none => simp [hf] at hm
        | some m' => simp [hf] at hm; subst hm; exact (findTbl_some hf).2.1
      rw [hmk, hasKey_eq_isSome]
    · -- tables only in the database
      rw [List.filter_map]
      congr 1
      have : ((fun t => tgKey t == k) ∘ tableRemoved P) = (fun c : Tbl => c.key == k) := by
        funext c; rfl
      rw [this, List.filter_filter]
      have h2 : (fun c : Tbl => (c.key == k && !hasKey B c.key)) = (fun c : Tbl => (!hasKey B c.key && c.key == k)) := by
        funext c; exact Bool.and_comm _ _
      rw [h2, ← List.filter_filter, firstTbls_filter_key]
      apply List.filter_congr
      intro c hc
      have hck : c.key = k := by
        cases hf : findTbl A k with
        | none => simp [hf] at hc
        | some c' => simp [hf] at hc; subst hc; exact (findTbl_some hf).2.1
      rw [hck, hasKey_eq_isSome]
  · -- tables on both sides
    rw [filter_flatMap_key (firstTbls A) _ (fun t => tgKey t == k) (fun c => c.key == k)]
    · rw [firstTbls_filter_key]
      apply flatMap_congr'
      intro c hc
      have hck : c.key = k := by
        cases hf : findTbl A k with
        | none => simp [hf] at hc
        | some c' => simp [hf] at hc; subst hc; exact (findTbl_some hf).2.1
      rw [hck]
      cases findTbl B k <;> rfl
    · intro c _ t ht
      cases hf : findTbl B c.key with
      | none => simp [hf] at ht
      | some m => simp [hf] at ht; subst ht; rfl

/-- **per-table locality of the diff** -/
theorem diffCore_filter_key (P : Cmp) (objF : ObjDesc → Bool) (A B : List Tbl) (k : Key) :
    (diffCore P objF A B).filter (fun op => op.key == k) =
      runT objF (candK P (findTbl A k) (findTbl B k)) := by
  rw [diffCore, runT_filter_key objF _ k (candidates_key P A B), candidates_filter_key]

end Lemmas.Filter
