import Model.Batch.State
/-!
# Lemmas about the `ApplyBatchImpl` state record: association lists, `column_transfers` invariants,
the mirror of `topological.sort`.
-/
namespace Lemmas.Batch
open Model.Batch

/-! ## Python-dict association lists -/

theorem alookup_aset_self {α : Type} (k : String) (v : α) (l : List (String × α)) : alookup k (aset k v l) = some v := by
  induction l with
  | nil => simp [aset, alookup]
  | cons p r ih =>
    by_cases h : p.1 = k
    · simp [aset, alookup, h]
    · simp [aset, alookup, h, ih]

theorem alookup_aset_ne {α : Type} {k k' : String} (v : α) (l : List (String × α)) (h : k' ≠ k) :
    alookup k' (aset k v l) = alookup k' l := by
  induction l with
  | nil => simp [aset, alookup, Ne.symm h]
  | cons p r ih =>
    obtain ⟨a, w⟩ := p
    by_cases hp : a = k
    · subst hp
      simp [aset, alookup, Ne.symm h]
    · by_cases hp' : a = k'
      · subst hp'; simp [aset, alookup, hp]
      · simp [aset, alookup, hp, hp', ih]

theorem alookup_adel_ne {α : Type} {k k' : String} (l : List (String × α)) (h : k' ≠ k) :
    alookup k' (adel k l) = alookup k' l := by
  induction l with
  | nil => simp [adel, alookup]
  | cons p r ih =>
    obtain ⟨a, w⟩ := p
    simp only [adel] at ih ⊢
    by_cases hp : a = k
    · subst hp
      simp [List.filter_cons, alookup, Ne.symm h, ih]
    · by_cases hp' : a = k'
      · subst hp'; simp [List.filter_cons, alookup, hp]
      · simp [List.filter_cons, alookup, hp, hp', ih]

/-! ## `column_transfers`: a surviving column is fed by itself -/

/-- column `k` is still copied, from the old column `k` (possibly through casts) -/
def Survives (k : String) (st : State) : Prop :=
  ∃ tr e, alookup k st.transfers = some tr ∧ tr.expr = some e ∧ e.base = k

/-- column `k` is still copied verbatim -/
def Verbatim (k : String) (st : State) : Prop :=
  ∃ tr, alookup k st.transfers = some tr ∧ tr.expr = some (.col k)

/-- the operation drops column `k` or adds a column under the key `k` -/
def touches (k : String) : BatchOp → Bool
  | .dropColumn n => n == k
  | .addColumn c _ _ _ => c.name == k
  | _ => false

/-- the operation changes the type of column `k` -/
def retypes (k : String) : BatchOp → Bool
  | .alterColumn n _ (some _) _ _ => n == k
  | _ => false

theorem init_transfers_lookup (cols : List ColDef) (k : String) (hk : k ∈ cols.map (·.name)) :
    alookup k (cols.map (fun c => (c.name, ({ expr := some (.col c.name) } : Transfer)))) = some { expr := some (.col k) } := by
  induction cols with
  | nil => simp at hk
  | cons c r ih =>
    by_cases h : c.name = k
    · simp [alookup, h]
    · have : k ∈ r.map (·.name) := by
        simp only [List.map_cons, List.mem_cons] at hk
        rcases hk with hk | hk
        · exact absurd hk.symm h
        · exact hk
      simp [alookup, h, ih this]

theorem init_verbatim (tn : String) (refl : Bool) (s : Schema) (k : String) (hk : k ∈ s.cols.map (·.name))
    (pr : List (List String) := []) (sl : String := "") : Verbatim k (State.init tn refl s pr sl) := by
  refine ⟨{ expr := some (.col k) }, ?_, rfl⟩
  simp only [State.init]
  exact init_transfers_lookup s.cols k hk

theorem Verbatim.survives {k : String} {st : State} (h : Verbatim k st) : Survives k st :=
  let ⟨tr, h1, h2⟩ := h
  ⟨tr, .col k, h1, h2, rfl⟩

theorem renameStep_expr (n : String) (nn : Option String) (c : ColDef) (tr : Transfer) :
    (renameStep n nn c tr).2.expr = tr.expr := by
  unfold renameStep
  split
  · split <;> rfl
  · rfl

theorem retypeStep_expr {nt : Option (String × String)} {c c' : ColDef} {tr tr' : Transfer}
    (h : retypeStep nt c tr = .ok (c', tr')) :
    tr'.expr = tr.expr ∨ ∃ e ty, nt.isSome ∧ tr.expr = some e ∧ tr'.expr = some (.cast e ty) := by
  unfold retypeStep at h
  split at h
  · rename_i ty aff
    simp only [castForBatchMigrate] at h
    split at h
    · split at h
      · cases h
      · rename_i e he
        cases h
        exact .inr ⟨e, ty, rfl, he, rfl⟩
    · cases h; exact .inl rfl
  · cases h; exact .inl rfl

theorem alterColumn_transfers {st st' : State} {n : String} {nn : Option String} {nt : Option (String × String)}
    {nl : Option Bool} {d : DefaultChange} (h : st.alterColumn n nn nt nl d = .ok st') :
    ∃ tr tr', alookup n st.transfers = some tr ∧ st'.transfers = aset n tr' st.transfers ∧
      (tr'.expr = tr.expr ∨ ∃ e ty, nt.isSome ∧ tr.expr = some e ∧ tr'.expr = some (.cast e ty)) := by
  unfold State.alterColumn at h
  split at h
  · rename_i c tr hc htr
    split at h
    · cases h
    · rename_i c' tr' hre
      cases h
      have := retypeStep_expr hre
      rw [renameStep_expr] at this
      exact ⟨tr, tr', htr, rfl, this⟩
  · cases h

theorem survives_applyOp {k : String} {st st' : State} {o : BatchOp} (hs : Survives k st)
    (ht : touches k o = false) (hok : st.applyOp o = .ok st') : Survives k st' := by
  obtain ⟨tr, e, hl, he, hb⟩ := hs
  cases o with
  | addColumn c b a cd =>
    simp only [State.applyOp, State.addColumn] at hok
    split at hok
    · cases hok
    · cases hok
      have hne : k ≠ c.name := by simp [touches] at ht; exact fun h => ht h.symm
      exact ⟨tr, e, by simp only; rw [alookup_aset_ne _ _ hne]; exact hl, he, hb⟩
  | dropColumn n =>
    simp only [State.applyOp, State.dropColumn] at hok
    split at hok
    · cases hok
    · split at hok
      · cases hok
      · cases hok
        have hne : k ≠ n := by simp [touches] at ht; exact fun h => ht h.symm
        exact ⟨tr, e, by simp only; rw [alookup_adel_ne _ hne]; exact hl, he, hb⟩
  | alterColumn n nn nt nl d =>
    simp only [State.applyOp] at hok
    obtain ⟨tr0, tr', hl0, hT, hex⟩ := alterColumn_transfers hok
    by_cases hkn : k = n
    · subst hkn
      rw [hl] at hl0; cases hl0
      rcases hex with hex | ⟨e', ty, _, he', hc⟩
      · exact ⟨tr', e, by rw [hT, alookup_aset_self], by rw [hex, he], hb⟩
      · rw [he] at he'; cases he'
        exact ⟨tr', .cast e ty, by rw [hT, alookup_aset_self], hc, hb⟩
    · exact ⟨tr, e, by rw [hT, alookup_aset_ne _ _ hkn]; exact hl, he, hb⟩
  | addConstraint c =>
    simp only [State.applyOp, State.addConstraint] at hok
    split at hok
    · cases hok; exact ⟨tr, e, hl, he, hb⟩
    · cases hok
  | dropConstraint n =>
    simp only [State.applyOp, State.dropConstraint] at hok
    split at hok
    · cases hok
    · split at hok <;> (cases hok; exact ⟨tr, e, hl, he, hb⟩)
  | createIndex ix =>
    simp only [State.applyOp, State.createIndex] at hok
    cases hok; exact ⟨tr, e, hl, he, hb⟩
  | dropIndex n =>
    simp only [State.applyOp, State.dropIndex] at hok
    split at hok
    · cases hok; exact ⟨tr, e, hl, he, hb⟩
    · cases hok
  | existingTypeConst m rn rt dr =>
    simp only [State.applyOp] at hok
    cases hok
    unfold State.existingTypeConst; split <;> exact ⟨tr, e, hl, he, hb⟩
  | tableComment =>
    simp only [State.applyOp] at hok
    cases hok; exact ⟨tr, e, hl, he, hb⟩

theorem verbatim_applyOp {k : String} {st st' : State} {o : BatchOp} (hs : Verbatim k st)
    (ht : touches k o = false) (hr : retypes k o = false) (hok : st.applyOp o = .ok st') : Verbatim k st' := by
  obtain ⟨tr, hl, he⟩ := hs
  cases o with
  | addColumn c b a cd =>
    simp only [State.applyOp, State.addColumn] at hok
    split at hok
    · cases hok
    · cases hok
      have hne : k ≠ c.name := by simp [touches] at ht; exact fun h => ht h.symm
      exact ⟨tr, by simp only; rw [alookup_aset_ne _ _ hne]; exact hl, he⟩
  | dropColumn n =>
    simp only [State.applyOp, State.dropColumn] at hok
    split at hok
    · cases hok
    · split at hok
      · cases hok
      · cases hok
        have hne : k ≠ n := by simp [touches] at ht; exact fun h => ht h.symm
        exact ⟨tr, by simp only; rw [alookup_adel_ne _ hne]; exact hl, he⟩
  | alterColumn n nn nt nl d =>
    simp only [State.applyOp] at hok
    obtain ⟨tr0, tr', hl0, hT, hex⟩ := alterColumn_transfers hok
    by_cases hkn : k = n
    · subst hkn
      rw [hl] at hl0; cases hl0
      rcases hex with hex | ⟨e', ty, hnt, _, _⟩
      · exact ⟨tr', by rw [hT, alookup_aset_self], by rw [hex, he]⟩
      · cases nt with
        | none => simp at hnt
        | some x => simp [retypes] at hr
    · exact ⟨tr, by rw [hT, alookup_aset_ne _ _ hkn]; exact hl, he⟩
  | addConstraint c =>
    simp only [State.applyOp, State.addConstraint] at hok
    split at hok
    · cases hok; exact ⟨tr, hl, he⟩
    · cases hok
  | dropConstraint n =>
    simp only [State.applyOp, State.dropConstraint] at hok
    split at hok
    · cases hok
    · split at hok <;> (cases hok; exact ⟨tr, hl, he⟩)
  | createIndex ix =>
    simp only [State.applyOp, State.createIndex] at hok
    cases hok; exact ⟨tr, hl, he⟩
  | dropIndex n =>
    simp only [State.applyOp, State.dropIndex] at hok
    split at hok
    · cases hok; exact ⟨tr, hl, he⟩
    · cases hok
  | existingTypeConst m rn rt dr =>
    simp only [State.applyOp] at hok
    cases hok
    unfold State.existingTypeConst; split <;> exact ⟨tr, hl, he⟩
  | tableComment =>
    simp only [State.applyOp] at hok
    cases hok; exact ⟨tr, hl, he⟩

theorem survives_applyOps {k : String} (ops : List BatchOp) : ∀ (st st' : State), Survives k st →
    (∀ o ∈ ops, touches k o = false) → st.applyOps ops = .ok st' → Survives k st' := by
  induction ops with
  | nil => intro st st' hs _ hok; simp [State.applyOps] at hok; cases hok; exact hs
  | cons o r ih =>
    intro st st' hs ht hok
    simp only [State.applyOps] at hok
    split at hok
    · cases hok
    · rename_i st1 h1
      exact ih st1 st' (survives_applyOp hs (ht o (by simp)) h1) (fun o' ho' => ht o' (by simp [ho'])) hok

theorem verbatim_applyOps {k : String} (ops : List BatchOp) : ∀ (st st' : State), Verbatim k st →
    (∀ o ∈ ops, touches k o = false) → (∀ o ∈ ops, retypes k o = false) → st.applyOps ops = .ok st' → Verbatim k st' := by
  induction ops with
  | nil => intro st st' hs _ _ hok; simp [State.applyOps] at hok; cases hok; exact hs
  | cons o r ih =>
    intro st st' hs ht hr hok
    simp only [State.applyOps] at hok
    split at hok
    · cases hok
    · rename_i st1 h1
      exact ih st1 st' (verbatim_applyOp hs (ht o (by simp)) (hr o (by simp)) h1)
        (fun o' ho' => ht o' (by simp [ho'])) (fun o' ho' => hr o' (by simp [ho'])) hok

/-! ## reflected indexes stay until `drop_index` names them -/

def dropsIndex (n : String) : BatchOp → Bool
  | .dropIndex m => m == n
  | _ => false

theorem index_kept_applyOp {n : String} {ix : Index} {st st' : State} {o : BatchOp}
    (h : alookup n st.indexes = some ix) (hd : dropsIndex n o = false) (hok : st.applyOp o = .ok st') :
    alookup n st'.indexes = some ix := by
  cases o with
  | addColumn c b a cd =>
    simp only [State.applyOp, State.addColumn] at hok
    split at hok
    · cases hok
    · cases hok; exact h
  | dropColumn m =>
    simp only [State.applyOp, State.dropColumn] at hok
    split at hok
    · cases hok
    · split at hok
      · cases hok
      · cases hok; exact h
  | alterColumn m nn nt nl d =>
    simp only [State.applyOp, State.alterColumn] at hok
    split at hok
    · split at hok
      · cases hok
      · cases hok; exact h
    · cases hok
  | addConstraint c =>
    simp only [State.applyOp, State.addConstraint] at hok
    split at hok
    · cases hok; exact h
    · cases hok
  | dropConstraint m =>
    simp only [State.applyOp, State.dropConstraint] at hok
    split at hok
    · cases hok
    · split at hok <;> (cases hok; exact h)
  | createIndex i =>
    simp only [State.applyOp, State.createIndex] at hok
    cases hok; exact h
  | dropIndex m =>
    simp only [State.applyOp, State.dropIndex] at hok
    split at hok
    · cases hok
      have hne : n ≠ m := by simp [dropsIndex] at hd; exact fun e => hd e.symm
      simp only; rw [alookup_adel_ne _ hne]; exact h
    · cases hok
  | existingTypeConst m rn rt dr =>
    simp only [State.applyOp] at hok
    cases hok
    unfold State.existingTypeConst; split <;> exact h
  | tableComment =>
    simp only [State.applyOp] at hok
    cases hok; exact h

theorem index_kept_applyOps {n : String} {ix : Index} (ops : List BatchOp) : ∀ (st st' : State),
    alookup n st.indexes = some ix → (∀ o ∈ ops, dropsIndex n o = false) → st.applyOps ops = .ok st' →
    alookup n st'.indexes = some ix := by
  induction ops with
  | nil => intro st st' h _ hok; simp [State.applyOps] at hok; cases hok; exact h
  | cons o r ih =>
    intro st st' h hd hok
    simp only [State.applyOps] at hok
    split at hok
    · cases hok
    · rename_i st1 h1
      exact ih st1 st' (index_kept_applyOp h (hd o (by simp)) h1) (fun o' ho' => hd o' (by simp [ho'])) hok

theorem mem_of_alookup {α : Type} {k : String} {v : α} {l : List (String × α)} (h : alookup k l = some v) :
    ∃ k', (k', v) ∈ l := by
  induction l with
  | nil => simp [alookup] at h
  | cons p r ih =>
    obtain ⟨a, w⟩ := p
    by_cases ha : a = k
    · simp [alookup, ha] at h; exact ⟨a, by simp [h]⟩
    · simp [alookup, ha] at h
      obtain ⟨k', hk⟩ := ih h
      exact ⟨k', by simp [hk]⟩

/-! ## constraints of the original table stay in `named_constraints` until an operation names them -/

/-- the operation names the constraint `n`: `drop_constraint(n)` or `add_constraint` of a constraint called `n` -/
def mentionsConst (n : String) : BatchOp → Bool
  | .dropConstraint m => m == n
  | .addConstraint c => c.name == some n
  | .existingTypeConst m rn rt dr => (rn || rt || dr) && m == n   -- named through `existing_type=` by a rename/retype/drop
  | _ => false

theorem alookup_map_snd {α : Type} (f : α → α) (k : String) (l : List (String × α)) :
    alookup k (l.map (fun p => (p.1, f p.2))) = (alookup k l).map f := by
  induction l with
  | nil => simp [alookup]
  | cons p r ih =>
    obtain ⟨a, w⟩ := p
    by_cases h : a = k
    · simp [alookup, h]
    · simp [alookup, h, ih]

theorem ahas_of_alookup {α : Type} {k : String} {v : α} {l : List (String × α)} (h : alookup k l = some v) :
    ahas k l = true := by
  induction l with
  | nil => simp [alookup] at h
  | cons p r ih =>
    obtain ⟨a, w⟩ := p
    by_cases ha : a = k
    · simp [ahas, akeys, ha]
    · simp [alookup, ha] at h
      have := ih h
      simp [ahas, akeys] at this ⊢
      exact .inr this

theorem dropFromTablePk_id {m : String} {c : Const} (h : m ∉ c.cols) : dropFromTablePk m c = c := by
  unfold dropFromTablePk
  split
  · have : c.cols.filter (· != m) = c.cols := by
      rw [List.filter_eq_self]
      intro a ha
      simp only [bne_iff_ne, ne_eq]
      intro e; subst e; exact h ha
    rw [this]
  · rfl

theorem named_kept_applyOp {n : String} {c : Const} {st st' : State} {o : BatchOp}
    (h : alookup n st.named = some c) (hcols : ∀ k ∈ c.cols, touches k o = false)
    (hm : mentionsConst n o = false) (hok : st.applyOp o = .ok st') : alookup n st'.named = some c := by
  cases o with
  | addColumn c' b a cd =>
    simp only [State.applyOp, State.addColumn] at hok
    split at hok
    · cases hok
    · cases hok; exact h
  | dropColumn m =>
    simp only [State.applyOp, State.dropColumn] at hok
    split at hok
    · cases hok
    · split at hok
      · cases hok
      · cases hok
        simp only
        rw [alookup_map_snd, h]
        have hm' : m ∉ c.cols := by
          intro hin
          have := hcols m hin
          simp [touches] at this
        simp [dropFromTablePk_id hm']
  | alterColumn m nn nt nl d =>
    simp only [State.applyOp, State.alterColumn] at hok
    split at hok
    · split at hok
      · cases hok
      · cases hok; exact h
    · cases hok
  | addConstraint c' =>
    simp only [State.applyOp, State.addConstraint] at hok
    split at hok
    · rename_i n' hn'
      cases hok
      have hne : n ≠ n' := by
        intro e; subst e
        simp [mentionsConst, hn'] at hm
      simp only
      rw [alookup_aset_ne _ _ hne]; exact h
    · cases hok
  | dropConstraint m =>
    have hne : n ≠ m := by
      intro e; subst e; simp [mentionsConst] at hm
    simp only [State.applyOp, State.dropConstraint] at hok
    split at hok
    · cases hok
    · split at hok <;> (cases hok; simp only; rw [alookup_adel_ne _ hne]; exact h)
  | createIndex i =>
    simp only [State.applyOp, State.createIndex] at hok
    cases hok; exact h
  | dropIndex m =>
    simp only [State.applyOp, State.dropIndex] at hok
    split at hok
    · cases hok; exact h
    · cases hok
  | existingTypeConst m rn rt dr =>
    simp only [State.applyOp] at hok
    cases hok
    unfold State.existingTypeConst
    split
    · rename_i hp
      have hne : n ≠ m := by
        intro e; subst e; simp [mentionsConst, hp] at hm
      simp only; rw [alookup_adel_ne _ hne]; exact h
    · exact h
  | tableComment =>
    simp only [State.applyOp] at hok
    cases hok; exact h

theorem named_kept_applyOps {n : String} {c : Const} (ops : List BatchOp) : ∀ (st st' : State),
    alookup n st.named = some c → (∀ o ∈ ops, ∀ k ∈ c.cols, touches k o = false) →
    (∀ o ∈ ops, mentionsConst n o = false) → st.applyOps ops = .ok st' → alookup n st'.named = some c := by
  induction ops with
  | nil => intro st st' h _ _ hok; simp [State.applyOps] at hok; cases hok; exact h
  | cons o r ih =>
    intro st st' h hc hm hok
    simp only [State.applyOps] at hok
    split at hok
    · cases hok
    · rename_i st1 h1
      exact ih st1 st' (named_kept_applyOp h (hc o (by simp)) (hm o (by simp)) h1)
        (fun o' ho' => hc o' (by simp [ho'])) (fun o' ho' => hm o' (by simp [ho'])) hok

/-- `_grab_table_elements`: a named constraint whose name is unique among the table's constraints is filed under its name -/
theorem grab_named_lookup (refl : Bool) (n : String) (c : Const) (hn : c.name = some n) : ∀ (cs : List Const)
    (acc : List (String × Const) × List Const),
    (∀ c' ∈ cs, c'.name = some n → c' = c) → (c ∈ cs ∨ alookup n acc.1 = some c) →
    alookup n (cs.foldl (fun acc c =>
      if refl && c.kind == .check && c.name.isNone then acc
      else match c.name with
        | some nm => (aset nm c acc.1, acc.2)
        | none => (acc.1, acc.2 ++ [c])) acc).1 = some c := by
  intro cs
  induction cs with
  | nil =>
    intro acc _ h
    rcases h with h | h
    · simp at h
    · simpa using h
  | cons x r ih =>
    intro acc huniq h
    simp only [List.foldl_cons]
    apply ih
    · intro c' hc'; exact huniq c' (by simp [hc'])
    · by_cases hx : x = c
      · subst hx
        right
        simp [hn, alookup_aset_self]
      · rcases h with h | h
        · simp only [List.mem_cons] at h
          rcases h with h | h
          · exact absurd h.symm hx
          · exact .inl h
        · right
          split
          · exact h
          · split
            · rename_i nm hnm
              have hne : n ≠ nm := by
                intro e; subst e
                exact hx (huniq x (by simp) hnm)
              simp only
              rw [alookup_aset_ne _ _ hne]; exact h
            · exact h

/-! ## the primary key constraint -/

def isPk (c : Const) : Bool := c.kind == .pk

/-- all PRIMARY KEY constraint objects the state holds -/
def pkList (st : State) : List Const := ((st.named.map (·.2)) ++ st.unnamed).filter isPk

/-- the operation concerns the primary key: it adds a PRIMARY KEY constraint, adds a constraint under the name
of the primary key constraint, or drops the constraint with that name -/
def mentionsPk (pkName : Option String) : BatchOp → Bool
  | .addConstraint c => c.kind == .pk || (pkName.isSome && c.name == pkName)
  | .dropConstraint m => pkName == some m
  | .existingTypeConst m rn rt dr => (rn || rt || dr) && pkName == some m
  | _ => false

/-- exactly one PRIMARY KEY constraint object, `c`; PRIMARY KEY entries of `named_constraints` sit under their own name -/
structure PkInv (st : State) (c : Const) : Prop where
  only : pkList st = [c]
  keys : ∀ p ∈ st.named, isPk p.2 = true → p.2.name = some p.1

theorem mem_aset {α : Type} {k : String} {v : α} {l : List (String × α)} {p : String × α} (h : p ∈ aset k v l) :
    p = (k, v) ∨ p ∈ l := by
  induction l with
  | nil => simp [aset] at h; exact .inl h
  | cons q r ih =>
    obtain ⟨a, w⟩ := q
    by_cases ha : a = k
    · simp [aset, ha] at h
      rcases h with h | h
      · exact .inl h
      · exact .inr (by simp [h])
    · simp [aset, ha] at h
      rcases h with h | h
      · exact .inr (by simp [h])
      · rcases ih h with h | h
        · exact .inl h
        · exact .inr (by simp [h])

theorem aset_filter_snd {k : String} {v : Const} {l : List (String × Const)} (hv : isPk v = false)
    (hl : ∀ q ∈ l, q.1 = k → isPk q.2 = false) :
    ((aset k v l).map (·.2)).filter isPk = (l.map (·.2)).filter isPk := by
  induction l with
  | nil => simp [aset, hv]
  | cons q r ih =>
    obtain ⟨a, w⟩ := q
    have ihr := ih (fun q hq => hl q (by simp [hq]))
    by_cases ha : a = k
    · have hw : isPk w = false := hl (a, w) (by simp) ha
      simp [aset, ha, List.filter_cons, hv, hw]
    · simp only [aset, ha, beq_iff_eq, if_false, List.map_cons, List.filter_cons]
      simp only [List.map_cons] at ihr
      rw [ihr]

theorem adel_filter_snd {k : String} {l : List (String × Const)} (hl : ∀ q ∈ l, q.1 = k → isPk q.2 = false) :
    ((adel k l).map (·.2)).filter isPk = (l.map (·.2)).filter isPk := by
  induction l with
  | nil => simp [adel]
  | cons q r ih =>
    obtain ⟨a, w⟩ := q
    have ihr := ih (fun q hq => hl q (by simp [hq]))
    simp only [adel] at ihr ⊢
    by_cases ha : a = k
    · have hw : isPk w = false := hl (a, w) (by simp) ha
      simp [List.filter_cons, ha, hw, ihr]
    · simp [List.filter_cons, ha, ihr]

theorem pk_entry_key {st : State} {c : Const} (hinv : PkInv st c) {q : String × Const} (hq : q ∈ st.named)
    (hpk : isPk q.2 = true) : q.2 = c ∧ c.name = some q.1 := by
  have hmem : q.2 ∈ pkList st := by
    simp only [pkList, List.mem_filter, List.mem_append, List.mem_map]
    exact ⟨.inl ⟨q, hq, rfl⟩, hpk⟩
  rw [hinv.only] at hmem
  simp only [List.mem_singleton] at hmem
  exact ⟨hmem, by rw [← hmem]; exact hinv.keys q hq hpk⟩

theorem pkInv_applyOp {c : Const} {st st' : State} {o : BatchOp} (hinv : PkInv st c)
    (hcols : ∀ k ∈ c.cols, touches k o = false) (hm : mentionsPk c.name o = false)
    (hok : st.applyOp o = .ok st') : PkInv st' c := by
  cases o with
  | addColumn c' b a cd =>
    simp only [State.applyOp, State.addColumn] at hok
    split at hok
    · cases hok
    · cases hok; exact ⟨hinv.only, hinv.keys⟩
  | dropColumn m =>
    simp only [State.applyOp, State.dropColumn] at hok
    split at hok
    · cases hok
    · split at hok
      · cases hok
      · cases hok
        have hm' : m ∉ c.cols := by
          intro hin
          have := hcols m hin
          simp [touches] at this
        constructor
        · have hpres : (isPk ∘ dropFromTablePk m) = isPk := by
            funext x; simp only [Function.comp, isPk, dropFromTablePk]; split <;> rfl
          have : pkList { st with named := st.named.map (fun p => (p.1, dropFromTablePk m p.2)),
                                  unnamed := st.unnamed.map (dropFromTablePk m),
                                  columns := adel m st.columns, transfers := adel m st.transfers,
                                  existingOrdering := removeFirst m st.existingOrdering } =
              (pkList st).map (dropFromTablePk m) := by
            simp only [pkList, List.map_map]
            have hl : (List.map ((fun x => x.snd) ∘ fun p => (p.fst, dropFromTablePk m p.snd)) st.named ++
                List.map (dropFromTablePk m) st.unnamed) =
                (List.map (fun x => x.snd) st.named ++ st.unnamed).map (dropFromTablePk m) := by
              simp [List.map_append, List.map_map, Function.comp]
            rw [hl, List.filter_map, hpres]
          rw [this, hinv.only]
          simp [dropFromTablePk_id hm']
        · intro p hp hpk
          simp only [List.mem_map] at hp
          obtain ⟨q, hq, rfl⟩ := hp
          have hqpk : isPk q.2 = true := by
            simp only [isPk, dropFromTablePk] at hpk ⊢; split at hpk <;> exact hpk
          have := hinv.keys q hq hqpk
          simp only [dropFromTablePk]; split <;> exact this
  | alterColumn m nn nt nl d =>
    simp only [State.applyOp, State.alterColumn] at hok
    split at hok
    · split at hok
      · cases hok
      · cases hok; exact ⟨hinv.only, hinv.keys⟩
    · cases hok
  | addConstraint c' =>
    simp only [mentionsPk, Bool.or_eq_false_iff] at hm
    obtain ⟨hk', hname⟩ := hm
    have hnpk : isPk c' = false := by simpa [isPk] using hk'
    simp only [State.applyOp, State.addConstraint] at hok
    split at hok
    · rename_i n' hn'
      cases hok
      have hk'' : (c'.kind == ConstKind.pk) = false := hk'
      have hentries : ∀ q ∈ st.named, q.1 = n' → isPk q.2 = false := by
        intro q hq hqk
        cases hq2 : isPk q.2 with
        | false => rfl
        | true =>
          obtain ⟨_, hcn⟩ := pk_entry_key hinv hq hq2
          rw [hqk] at hcn
          simp [hcn, hn'] at hname
      constructor
      · simp only [pkList, hk'', Bool.false_eq_true, if_false, List.filter_append]
        rw [aset_filter_snd hnpk hentries]
        have := hinv.only
        simp only [pkList, List.filter_append] at this
        exact this
      · intro p hp hpk
        rcases mem_aset hp with h | h
        · subst h; simp [hnpk] at hpk
        · exact hinv.keys p h hpk
    · cases hok
  | dropConstraint m =>
    simp only [mentionsPk] at hm
    have hentries : ∀ q ∈ st.named, q.1 = m → isPk q.2 = false := by
      intro q hq hqk
      cases hq2 : isPk q.2 with
      | false => rfl
      | true =>
        obtain ⟨_, hcn⟩ := pk_entry_key hinv hq hq2
        rw [hqk] at hcn
        simp [hcn] at hm
    have hfin : PkInv { st with named := adel m st.named } c := by
      constructor
      · simp only [pkList, List.filter_append]
        rw [adel_filter_snd hentries]
        have := hinv.only
        simp only [pkList, List.filter_append] at this
        exact this
      · intro p hp hpk
        simp only [adel, List.mem_filter] at hp
        exact hinv.keys p hp.1 hpk
    simp only [State.applyOp, State.dropConstraint] at hok
    split at hok
    · cases hok
    · split at hok
      · cases hok; exact ⟨hfin.only, hfin.keys⟩
      · cases hok; exact hfin
  | createIndex i =>
    simp only [State.applyOp, State.createIndex] at hok
    cases hok; exact ⟨hinv.only, hinv.keys⟩
  | dropIndex m =>
    simp only [State.applyOp, State.dropIndex] at hok
    split at hok
    · cases hok; exact ⟨hinv.only, hinv.keys⟩
    · cases hok
  | existingTypeConst m rn rt dr =>
    simp only [State.applyOp] at hok
    cases hok
    unfold State.existingTypeConst
    split
    · rename_i hp
      simp only [mentionsPk, hp, Bool.true_and] at hm
      have hentries : ∀ q ∈ st.named, q.1 = m → isPk q.2 = false := by
        intro q hq hqk
        cases hq2 : isPk q.2 with
        | false => rfl
        | true =>
          obtain ⟨_, hcn⟩ := pk_entry_key hinv hq hq2
          rw [hqk] at hcn
          simp [hcn] at hm
      constructor
      · simp only [pkList, List.filter_append]
        rw [adel_filter_snd hentries]
        have := hinv.only
        simp only [pkList, List.filter_append] at this
        exact this
      · intro p hp' hpk
        simp only [adel, List.mem_filter] at hp'
        exact hinv.keys p hp'.1 hpk
    · exact hinv
  | tableComment =>
    simp only [State.applyOp] at hok
    cases hok; exact hinv

/-- `_grab_table_elements` files exactly one PRIMARY KEY constraint object (the table's own) -/
theorem grab_pkInv (refl : Bool) (c : Const) : ∀ (cs : List Const) (acc : List (String × Const) × List Const),
    (∀ x ∈ cs, isPk x = false) → (∀ x ∈ cs, c.name.isSome → x.name ≠ c.name) →
    ((acc.1.map (·.2)) ++ acc.2).filter isPk = [c] → (∀ p ∈ acc.1, isPk p.2 = true → p.2.name = some p.1) →
    let r := cs.foldl (fun acc c =>
      if refl && c.kind == .check && c.name.isNone then acc
      else match c.name with
        | some nm => (aset nm c acc.1, acc.2)
        | none => (acc.1, acc.2 ++ [c])) acc
    ((r.1.map (·.2)) ++ r.2).filter isPk = [c] ∧ (∀ p ∈ r.1, isPk p.2 = true → p.2.name = some p.1) := by
  intro cs
  induction cs with
  | nil => intro acc _ _ h1 h2; exact ⟨h1, h2⟩
  | cons x r ih =>
    intro acc hnp hnm h1 h2
    simp only [List.foldl_cons]
    have hx : isPk x = false := hnp x (by simp)
    apply ih _ (fun y hy => hnp y (by simp [hy])) (fun y hy => hnm y (by simp [hy]))
    · split
      · exact h1
      · split
        · rename_i nm hnm'
          simp only [List.filter_append] at h1 ⊢
          rw [aset_filter_snd hx]
          · exact h1
          · intro q hq hqk
            cases hq2 : isPk q.2 with
            | false => rfl
            | true =>
              exfalso
              have hmem : q.2 ∈ (acc.1.map (·.2)).filter isPk ++ acc.2.filter isPk := by
                simp only [List.mem_append, List.mem_filter, List.mem_map]
                exact .inl ⟨⟨q, hq, rfl⟩, hq2⟩
              rw [h1] at hmem
              simp only [List.mem_singleton] at hmem
              have hcn : c.name = some nm := by rw [← hmem, ← hqk]; exact h2 q hq hq2
              exact hnm x (by simp) (by simp [hcn]) (by rw [hnm', hcn])
        · simp only [List.filter_append] at h1 ⊢
          simp [List.filter_cons, hx]
          simpa using h1
    · split
      · exact h2
      · split
        · intro p hp hpk
          rcases mem_aset hp with h | h
          · subst h; simp [hx] at hpk
          · exact h2 p h hpk
        · exact h2

theorem pkInv_applyOps {c : Const} (ops : List BatchOp) : ∀ (st st' : State), PkInv st c →
    (∀ o ∈ ops, ∀ k ∈ c.cols, touches k o = false) → (∀ o ∈ ops, mentionsPk c.name o = false) →
    st.applyOps ops = .ok st' → PkInv st' c := by
  induction ops with
  | nil => intro st st' h _ _ hok; simp [State.applyOps] at hok; cases hok; exact h
  | cons o r ih =>
    intro st st' h hc hm hok
    simp only [State.applyOps] at hok
    split at hok
    · cases hok
    · rename_i st1 h1
      exact ih st1 st' (pkInv_applyOp h (hc o (by simp)) (hm o (by simp)) h1)
        (fun o' ho' => hc o' (by simp [ho'])) (fun o' ho' => hm o' (by simp [ho'])) hok

end Lemmas.Batch
