import Model.Batch.State
/-!
# Lemmas about the `ApplyBatchImpl` state record: association lists, `column_transfers` invariants,
the mirror of `topological.sort`.
-/
namespace Lemmas.Batch
open Model.Batch

/-! ## Python-dict association lists -/

theorem alookup_aset_self {α : Type} (k : String) (v : α) (l : List (String × α)) : alookup k (aset k v l) = some v := by
  induction l with
  | nil => simp [aset, alookup]
  | cons p r ih =>
    by_cases h : p.1 = k
    · simp [aset, alookup, h]
    · simp [aset, alookup, h, ih]

theorem alookup_aset_ne {α : Type} {k k' : String} (v : α) (l : List (String × α)) (h : k' ≠ k) :
    alookup k' (aset k v l) = alookup k' l := by
  induction l with
  | nil => simp [aset, alookup, Ne.symm h]
  | cons p r ih =>
    obtain ⟨a, w⟩ := p
    by_cases hp : a = k
    · subst hp
      simp [aset, alookup, Ne.symm h]
    · by_cases hp' : a = k'
      · subst hp'; simp [aset, alookup, hp]
      · simp [aset, alookup, hp, hp', ih]

theorem alookup_adel_ne {α : Type} {k k' : String} (l : List (String × α)) (h : k' ≠ k) :
    alookup k' (adel k l) = alookup k' l := by
  induction l with
  | nil => simp [adel, alookup]
  | cons p r ih =>
    obtain ⟨a, w⟩ := p
    simp only [adel] at ih ⊢
    by_cases hp : a = k
    · subst hp
      simp [List.filter_cons, alookup, Ne.symm h, ih]
    · by_cases hp' : a = k'
      · subst hp'; simp [List.filter_cons, alookup, hp]
      · simp [List.filter_cons, alookup, hp, hp', ih]

/-! ## `column_transfers`: a surviving column is fed by itself -/

/-- column `k` is still copied, from the old column `k` (possibly through casts) -/
def Survives (k : String) (st : State) : Prop :=
  ∃ tr e, alookup k st.transfers = some tr ∧ tr.expr = some e ∧ e.base = k

/-- column `k` is still copied verbatim -/
def Verbatim (k : String) (st : State) : Prop :=
  ∃ tr, alookup k st.transfers = some tr ∧ tr.expr = some (.col k)

/-- the operation drops column `k` or adds a column under the key `k` -/
def touches (k : String) : BatchOp → Bool
  | .dropColumn n => n == k
  | .addColumn c _ _ _ => c.name == k
  | _ => false

/-- the operation changes the type of column `k` -/
def retypes (k : String) : BatchOp → Bool
  | .alterColumn n _ (some _) _ _ => n == k
  | _ => false

theorem init_transfers_lookup (cols : List ColDef) (k : String) (hk : k ∈ cols.map (·.name)) :
    alookup k (cols.map (fun c => (c.name, ({ expr := some (.col c.name) } : Transfer)))) = some { expr := some (.col k) } := by
  induction cols with
  | nil => simp at hk
  | cons c r ih =>
    by_cases h : c.name = k
    · simp [alookup, h]
    · have : k ∈ r.map (·.name) := by
        simp only [List.map_cons, List.mem_cons] at hk
        rcases hk with hk | hk
        · exact absurd hk.symm h
        · exact hk
      simp [alookup, h, ih this]

theorem init_verbatim (tn : String) (refl : Bool) (s : Schema) (k : String) (hk : k ∈ s.cols.map (·.name)) :
    Verbatim k (State.init tn refl s) := by
  refine ⟨{ expr := some (.col k) }, ?_, rfl⟩
  simp only [State.init]
  exact init_transfers_lookup s.cols k hk

theorem Verbatim.survives {k : String} {st : State} (h : Verbatim k st) : Survives k st :=
  let ⟨tr, h1, h2⟩ := h
  ⟨tr, .col k, h1, h2, rfl⟩

theorem renameStep_expr (n : String) (nn : Option String) (c : ColDef) (tr : Transfer) :
    (renameStep n nn c tr).2.expr = tr.expr := by
  unfold renameStep
  split
  · split <;> rfl
  · rfl

theorem retypeStep_expr {nt : Option (String × String)} {c c' : ColDef} {tr tr' : Transfer}
    (h : retypeStep nt c tr = .ok (c', tr')) :
    tr'.expr = tr.expr ∨ ∃ e ty, nt.isSome ∧ tr.expr = some e ∧ tr'.expr = some (.cast e ty) := by
  unfold retypeStep at h
  split at h
  · rename_i ty aff
    simp only [castForBatchMigrate] at h
    split at h
    · split at h
      · cases h
      · rename_i e he
        cases h
        exact .inr ⟨e, ty, rfl, he, rfl⟩
    · cases h; exact .inl rfl
  · cases h; exact .inl rfl

theorem alterColumn_transfers {st st' : State} {n : String} {nn : Option String} {nt : Option (String × String)}
    {nl : Option Bool} {d : DefaultChange} (h : st.alterColumn n nn nt nl d = .ok st') :
    ∃ tr tr', alookup n st.transfers = some tr ∧ st'.transfers = aset n tr' st.transfers ∧
      (tr'.expr = tr.expr ∨ ∃ e ty, nt.isSome ∧ tr.expr = some e ∧ tr'.expr = some (.cast e ty)) := by
  unfold State.alterColumn at h
  split at h
  · rename_i c tr hc htr
    split at h
    · cases h
    · rename_i c' tr' hre
      cases h
      have := retypeStep_expr hre
      rw [renameStep_expr] at this
      exact ⟨tr, tr', htr, rfl, this⟩
  · cases h

theorem survives_applyOp {k : String} {st st' : State} {o : BatchOp} (hs : Survives k st)
    (ht : touches k o = false) (hok : st.applyOp o = .ok st') : Survives k st' := by
  obtain ⟨tr, e, hl, he, hb⟩ := hs
  cases o with
  | addColumn c b a cd =>
    simp only [State.applyOp, State.addColumn] at hok
    split at hok
    · cases hok
    · cases hok
      have hne : k ≠ c.name := by simp [touches] at ht; exact fun h => ht h.symm
      exact ⟨tr, e, by simp only; rw [alookup_aset_ne _ _ hne]; exact hl, he, hb⟩
  | dropColumn n =>
    simp only [State.applyOp, State.dropColumn] at hok
    split at hok
    · cases hok
    · split at hok
      · cases hok
      · cases hok
        have hne : k ≠ n := by simp [touches] at ht; exact fun h => ht h.symm
        exact ⟨tr, e, by simp only; rw [alookup_adel_ne _ hne]; exact hl, he, hb⟩
  | alterColumn n nn nt nl d =>
    simp only [State.applyOp] at hok
    obtain ⟨tr0, tr', hl0, hT, hex⟩ := alterColumn_transfers hok
    by_cases hkn : k = n
    · subst hkn
      rw [hl] at hl0; cases hl0
      rcases hex with hex | ⟨e', ty, _, he', hc⟩
      · exact ⟨tr', e, by rw [hT, alookup_aset_self], by rw [hex, he], hb⟩
      · rw [he] at he'; cases he'
        exact ⟨tr', .cast e ty, by rw [hT, alookup_aset_self], hc, hb⟩
    · exact ⟨tr, e, by rw [hT, alookup_aset_ne _ _ hkn]; exact hl, he, hb⟩
  | addConstraint c =>
    simp only [State.applyOp, State.addConstraint] at hok
    split at hok
    · cases hok; exact ⟨tr, e, hl, he, hb⟩
    · cases hok
  | dropConstraint n =>
    simp only [State.applyOp, State.dropConstraint] at hok
    split at hok
    · cases hok
    · split at hok <;> (cases hok; exact ⟨tr, e, hl, he, hb⟩)
  | createIndex ix =>
    simp only [State.applyOp, State.createIndex] at hok
    cases hok; exact ⟨tr, e, hl, he, hb⟩
  | dropIndex n =>
    simp only [State.applyOp, State.dropIndex] at hok
    split at hok
    · cases hok; exact ⟨tr, e, hl, he, hb⟩
    · cases hok

theorem verbatim_applyOp {k : String} {st st' : State} {o : BatchOp} (hs : Verbatim k st)
    (ht : touches k o = false) (hr : retypes k o = false) (hok : st.applyOp o = .ok st') : Verbatim k st' := by
  obtain ⟨tr, hl, he⟩ := hs
  cases o with
  | addColumn c b a cd =>
    simp only [State.applyOp, State.addColumn] at hok
    split at hok
    · cases hok
    · cases hok
      have hne : k ≠ c.name := by simp [touches] at ht; exact fun h => ht h.symm
      exact ⟨tr, by simp only; rw [alookup_aset_ne _ _ hne]; exact hl, he⟩
  | dropColumn n =>
    simp only [State.applyOp, State.dropColumn] at hok
    split at hok
    · cases hok
    · split at hok
      · cases hok
      · cases hok
        have hne : k ≠ n := by simp [touches] at ht; exact fun h => ht h.symm
        exact ⟨tr, by simp only; rw [alookup_adel_ne _ hne]; exact hl, he⟩
  | alterColumn n nn nt nl d =>
    simp only [State.applyOp] at hok
    obtain ⟨tr0, tr', hl0, hT, hex⟩ := alterColumn_transfers hok
    by_cases hkn : k = n
    · subst hkn
      rw [hl] at hl0; cases hl0
      rcases hex with hex | ⟨e', ty, hnt, _, _⟩
      · exact ⟨tr', by rw [hT, alookup_aset_self], by rw [hex, he]⟩
      · cases nt with
        | none => simp at hnt
        | some x => simp [retypes] at hr
    · exact ⟨tr, by rw [hT, alookup_aset_ne _ _ hkn]; exact hl, he⟩
  | addConstraint c =>
    simp only [State.applyOp, State.addConstraint] at hok
    split at hok
    · cases hok; exact ⟨tr, hl, he⟩
    · cases hok
  | dropConstraint n =>
    simp only [State.applyOp, State.dropConstraint] at hok
    split at hok
    · cases hok
    · split at hok <;> (cases hok; exact ⟨tr, hl, he⟩)
  | createIndex ix =>
    simp only [State.applyOp, State.createIndex] at hok
    cases hok; exact ⟨tr, hl, he⟩
  | dropIndex n =>
    simp only [State.applyOp, State.dropIndex] at hok
    split at hok
    · cases hok; exact ⟨tr, hl, he⟩
    · cases hok

theorem survives_applyOps {k : String} (ops : List BatchOp) : ∀ (st st' : State), Survives k st →
    (∀ o ∈ ops, touches k o = false) → st.applyOps ops = .ok st' → Survives k st' := by
  induction ops with
  | nil => intro st st' hs _ hok; simp [State.applyOps] at hok; cases hok; exact hs
  | cons o r ih =>
    intro st st' hs ht hok
    simp only [State.applyOps] at hok
    split at hok
    · cases hok
    · rename_i st1 h1
      exact ih st1 st' (survives_applyOp hs (ht o (by simp)) h1) (fun o' ho' => ht o' (by simp [ho'])) hok

theorem verbatim_applyOps {k : String} (ops : List BatchOp) : ∀ (st st' : State), Verbatim k st →
    (∀ o ∈ ops, touches k o = false) → (∀ o ∈ ops, retypes k o = false) → st.applyOps ops = .ok st' → Verbatim k st' := by
  induction ops with
  | nil => intro st st' hs _ _ hok; simp [State.applyOps] at hok; cases hok; exact hs
  | cons o r ih =>
    intro st st' hs ht hr hok
    simp only [State.applyOps] at hok
    split at hok
    · cases hok
    · rename_i st1 h1
      exact ih st1 st' (verbatim_applyOp hs (ht o (by simp)) (hr o (by simp)) h1)
        (fun o' ho' => ht o' (by simp [ho'])) (fun o' ho' => hr o' (by simp [ho'])) hok

/-! ## reflected indexes stay until `drop_index` names them -/

def dropsIndex (n : String) : BatchOp → Bool
  | .dropIndex m => m == n
  | _ => false

theorem index_kept_applyOp {n : String} {ix : Index} {st st' : State} {o : BatchOp}
    (h : alookup n st.indexes = some ix) (hd : dropsIndex n o = false) (hok : st.applyOp o = .ok st') :
    alookup n st'.indexes = some ix := by
  cases o with
  | addColumn c b a cd =>
    simp only [State.applyOp, State.addColumn] at hok
    split at hok
    · cases hok
    · cases hok; exact h
  | dropColumn m =>
    simp only [State.applyOp, State.dropColumn] at hok
    split at hok
    · cases hok
    · split at hok
      · cases hok
      · cases hok; exact h
  | alterColumn m nn nt nl d =>
    simp only [State.applyOp, State.alterColumn] at hok
    split at hok
    · split at hok
      · cases hok
      · cases hok; exact h
    · cases hok
  | addConstraint c =>
    simp only [State.applyOp, State.addConstraint] at hok
    split at hok
    · cases hok; exact h
    · cases hok
  | dropConstraint m =>
    simp only [State.applyOp, State.dropConstraint] at hok
    split at hok
    · cases hok
    · split at hok <;> (cases hok; exact h)
  | createIndex i =>
    simp only [State.applyOp, State.createIndex] at hok
    cases hok; exact h
  | dropIndex m =>
    simp only [State.applyOp, State.dropIndex] at hok
    split at hok
    · cases hok
      have hne : n ≠ m := by simp [dropsIndex] at hd; exact fun e => hd e.symm
      simp only; rw [alookup_adel_ne _ hne]; exact h
    · cases hok

theorem index_kept_applyOps {n : String} {ix : Index} (ops : List BatchOp) : ∀ (st st' : State),
    alookup n st.indexes = some ix → (∀ o ∈ ops, dropsIndex n o = false) → st.applyOps ops = .ok st' →
    alookup n st'.indexes = some ix := by
  induction ops with
  | nil => intro st st' h _ hok; simp [State.applyOps] at hok; cases hok; exact h
  | cons o r ih =>
    intro st st' h hd hok
    simp only [State.applyOps] at hok
    split at hok
    · cases hok
    · rename_i st1 h1
      exact ih st1 st' (index_kept_applyOp h (hd o (by simp)) h1) (fun o' ho' => hd o' (by simp [ho'])) hok

theorem mem_of_alookup {α : Type} {k : String} {v : α} {l : List (String × α)} (h : alookup k l = some v) :
    ∃ k', (k', v) ∈ l := by
  induction l with
  | nil => simp [alookup] at h
  | cons p r ih =>
    obtain ⟨a, w⟩ := p
    by_cases ha : a = k
    · simp [alookup, ha] at h; exact ⟨a, by simp [h]⟩
    · simp [alookup, ha] at h
      obtain ⟨k', hk⟩ := ih h
      exact ⟨k', by simp [hk]⟩

end Lemmas.Batch
