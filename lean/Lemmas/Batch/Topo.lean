import Model.Batch.State
/-!
# The mirror of SQLAlchemy's `topological.sort` (`sortLevels`): permutation, linear extension, fuel
-/
namespace Lemmas.Batch
open Model.Batch

theorem levelOutput_sub {pairs : List (String × String)} {todo : List String} {x : String}
    (h : x ∈ levelOutput pairs todo) : x ∈ todo := by
  unfold levelOutput at h
  exact (List.mem_filter.mp h).1

/-- a node whose parent is still to do is not released in this round -/
theorem levelOutput_blocked {pairs : List (String × String)} {todo : List String} {a b : String}
    (hp : (a, b) ∈ pairs) (ha : a ∈ todo) : b ∉ levelOutput pairs todo := by
  intro hb
  unfold levelOutput at hb
  have := (List.mem_filter.mp hb).2
  rw [List.all_eq_true] at this
  have := this (a, b) hp
  simp [ha] at this

theorem sortLevels_step {fuel : Nat} {pairs : List (String × String)} {t : String} {ts out : List String}
    (h : sortLevels (fuel + 1) pairs (t :: ts) = some out) :
    (levelOutput pairs (t :: ts)).isEmpty = false ∧
    ∃ out', sortLevels fuel pairs ((t :: ts).filter (fun x => !(levelOutput pairs (t :: ts)).contains x)) = some out' ∧
      out = levelOutput pairs (t :: ts) ++ out' := by
  simp only [sortLevels] at h
  split at h
  · cases h
  · rename_i hne
    simp only [Option.map_eq_some_iff] at h
    obtain ⟨out', h1, h2⟩ := h
    exact ⟨by simpa using hne, out', h1, h2.symm⟩

theorem sortLevels_mem (pairs : List (String × String)) : ∀ (fuel : Nat) (todo out : List String),
    sortLevels fuel pairs todo = some out → ∀ x, x ∈ out ↔ x ∈ todo := by
  intro fuel
  induction fuel with
  | zero =>
    intro todo out h x
    cases todo with
    | nil => simp [sortLevels] at h; simp [← h]
    | cons t ts => simp [sortLevels] at h
  | succ n ih =>
    intro todo out h x
    cases todo with
    | nil => simp [sortLevels] at h; simp [← h]
    | cons t ts =>
      obtain ⟨_, out', hrec, rfl⟩ := sortLevels_step h
      have := ih _ _ hrec x
      simp only [List.mem_append, this, List.mem_filter]
      constructor
      · rintro (h1 | ⟨h1, _⟩)
        · exact levelOutput_sub h1
        · exact h1
      · intro hx
        by_cases hl : x ∈ levelOutput pairs (t :: ts)
        · exact .inl hl
        · exact .inr ⟨hx, by simpa using hl⟩

/-- **linear extension**: whenever the sort succeeds, for every pair `(a, b)` of two items, `a` comes before `b` -/
theorem sortLevels_respects (pairs : List (String × String)) (a b : String) (hp : (a, b) ∈ pairs) :
    ∀ (fuel : Nat) (todo out : List String), sortLevels fuel pairs todo = some out → a ∈ todo → b ∈ todo →
      [a, b].Sublist out := by
  intro fuel
  induction fuel with
  | zero =>
    intro todo out h ha _
    cases todo with
    | nil => simp at ha
    | cons t ts => simp [sortLevels] at h
  | succ n ih =>
    intro todo out h ha hb
    cases todo with
    | nil => simp at ha
    | cons t ts =>
      obtain ⟨_, out', hrec, rfl⟩ := sortLevels_step h
      have hbl : b ∉ levelOutput pairs (t :: ts) := levelOutput_blocked hp ha
      have hb' : b ∈ (t :: ts).filter (fun x => !(levelOutput pairs (t :: ts)).contains x) :=
        List.mem_filter.mpr ⟨hb, by simpa using hbl⟩
      by_cases hal : a ∈ levelOutput pairs (t :: ts)
      · have hbo : b ∈ out' := (sortLevels_mem pairs _ _ _ hrec b).mpr hb'
        have h1 : [a].Sublist (levelOutput pairs (t :: ts)) := List.singleton_sublist.mpr hal
        have h2 : [b].Sublist out' := List.singleton_sublist.mpr hbo
        exact h1.append h2
      · have ha' : a ∈ (t :: ts).filter (fun x => !(levelOutput pairs (t :: ts)).contains x) :=
          List.mem_filter.mpr ⟨ha, by simpa using hal⟩
        exact (ih _ _ hrec ha' hb').trans (List.sublist_append_right _ _)

/-- **permutation**: the sort neither loses nor duplicates an item -/
theorem sortLevels_perm (pairs : List (String × String)) : ∀ (fuel : Nat) (todo out : List String),
    sortLevels fuel pairs todo = some out → out.Perm todo := by
  intro fuel
  induction fuel with
  | zero =>
    intro todo out h
    cases todo with
    | nil => simp [sortLevels] at h; simp [← h]
    | cons t ts => simp [sortLevels] at h
  | succ n ih =>
    intro todo out h
    cases todo with
    | nil => simp [sortLevels] at h; simp [← h]
    | cons t ts =>
      obtain ⟨_, out', hrec, rfl⟩ := sortLevels_step h
      have h1 := ih _ _ hrec
      have hq : (t :: ts).filter (fun x => !(levelOutput pairs (t :: ts)).contains x) =
          (t :: ts).filter (fun x => !(fun node => pairs.all (fun p => !(p.2 == node && (t :: ts).contains p.1))) x) := by
        apply List.filter_congr
        intro x hx
        have : (levelOutput pairs (t :: ts)).contains x = pairs.all (fun p => !(p.2 == x && (t :: ts).contains p.1)) := by
          unfold levelOutput
          rw [Bool.eq_iff_iff]
          simp only [List.contains_iff_mem, List.mem_filter, hx, true_and]
        show (!(levelOutput pairs (t :: ts)).contains x) = _
        rw [this]
      rw [hq] at h1
      have h2 : (levelOutput pairs (t :: ts) ++ out').Perm
          (levelOutput pairs (t :: ts) ++ (t :: ts).filter (fun x => !(fun node => pairs.all (fun p => !(p.2 == node && (t :: ts).contains p.1))) x)) :=
        List.Perm.append_left _ h1
      exact h2.trans (by unfold levelOutput; exact List.filter_append_perm _ _)

/-- **fuel sufficiency**: with at least `todo.length` units of fuel the sort fails only on a genuine cycle —
a non-empty sub-collection of the items in which every member still has a parent (the situation in which
`sort_as_subsets` raises `CircularDependencyError`); it never fails because the fuel ran out. -/
theorem sortLevels_fuel (pairs : List (String × String)) : ∀ (fuel : Nat) (todo : List String),
    todo.length ≤ fuel → sortLevels fuel pairs todo = none →
    ∃ stuck, stuck ≠ [] ∧ (∀ x ∈ stuck, x ∈ todo) ∧ levelOutput pairs stuck = [] := by
  intro fuel
  induction fuel with
  | zero =>
    intro todo hl h
    cases todo with
    | nil => simp [sortLevels] at h
    | cons t ts => simp at hl
  | succ n ih =>
    intro todo hl h
    cases todo with
    | nil => simp [sortLevels] at h
    | cons t ts =>
      simp only [sortLevels] at h
      split at h
      · rename_i hemp
        exact ⟨t :: ts, by simp, fun x hx => hx, List.isEmpty_iff.mp hemp⟩
      · rename_i hne
        simp only [Option.map_eq_none_iff] at h
        have hne' : levelOutput pairs (t :: ts) ≠ [] := by
          intro he; rw [he] at hne; simp at hne
        obtain ⟨x, hx⟩ := List.exists_mem_of_ne_nil _ hne'
        have hlt : ((t :: ts).filter (fun y => !(levelOutput pairs (t :: ts)).contains y)).length < (t :: ts).length :=
          List.length_filter_lt_length_iff_exists.mpr ⟨x, levelOutput_sub hx, by simp [hx]⟩
        obtain ⟨stuck, h1, h2, h3⟩ := ih _ (by simp only [List.length_cons] at hl hlt ⊢; omega) h
        exact ⟨stuck, h1, fun y hy => (List.mem_filter.mp (h2 y hy)).1, h3⟩

theorem topoSort_none (pairs : List (String × String)) (items : List String) (h : topoSort pairs items = none) :
    ∃ stuck, stuck ≠ [] ∧ (∀ x ∈ stuck, x ∈ items) ∧ levelOutput pairs stuck = [] :=
  sortLevels_fuel pairs _ _ (Nat.le_refl _) h

/-- conversely such a stuck sub-collection really makes every amount of fuel fail: nothing of it is ever released -/
theorem levelOutput_stuck {pairs : List (String × String)} {stuck todo : List String}
    (hs : levelOutput pairs stuck = []) (hsub : ∀ x ∈ stuck, x ∈ todo) : ∀ x ∈ stuck, x ∉ levelOutput pairs todo := by
  intro x hx hout
  have hnot : x ∉ levelOutput pairs stuck := by rw [hs]; simp
  apply hnot
  unfold levelOutput at hout ⊢
  refine List.mem_filter.mpr ⟨hx, ?_⟩
  have := (List.mem_filter.mp hout).2
  rw [List.all_eq_true] at this ⊢
  intro p hp
  have h1 := this p hp
  simp only [Bool.not_eq_true', Bool.and_eq_false_iff] at h1 ⊢
  rcases h1 with h1 | h1
  · exact .inl h1
  · right
    simp only [List.contains_eq_mem, decide_eq_false_iff_not] at h1 ⊢
    exact fun hm => h1 (hsub _ hm)

end Lemmas.Batch
