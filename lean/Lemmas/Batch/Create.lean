import Lemmas.Batch.Run
/-!
# Invariants along `ApplyBatchImpl._create` (`Model.Batch.create`)

Stage by stage: `create_table` (before the `try`), the `try` block, the clean-up, the `else` branch.
-/
namespace Lemmas.Batch
open Model.Batch Spec.Batch

variable {ct : ConvTable} {fault : Option Nat} {t0 : Tbl} {p : Plan}

/-! ## clean-up -/

theorem cleanup_fst (r : Run) (e : Err) : (cleanup ct fault r e).1 = (step ct fault r .dropTmp).1 := by
  unfold cleanup; split <;> simp_all

theorem cleanup_snd (r : Run) (e : Err) : (cleanup ct fault r e).2 ≠ none := by
  unfold cleanup; split <;> simp

theorem cleanup_intact {r : Run} {e : Err} (hi : Intact t0 r.conn) : Intact t0 (cleanup ct fault r e).1.conn := by
  rw [cleanup_fst]; exact step_safe_intact rfl hi

/-! ## the `else` branch was entered ⇒ the rename reached the cursor -/

theorem elseBranch_trace (r : Run) : Stmt.renameTmp ∈ (elseBranch ct fault p r).1.trace := by
  have h1 : Stmt.renameTmp ∈ (step ct fault r .renameTmp).1.trace := by rw [step_trace]; simp
  unfold elseBranch
  split
  · rename_i r' e heq; rw [heq] at h1; exact h1
  · rename_i r' heq
    rw [heq] at h1
    split
    · exact h1
    · exact execAll_trace_mono _ _ _ h1

/-! ## the `try` block -/

theorem try_err_intact {r r2 : Run} {e : Err} {f : List (ColDef × Option Expr)} (hi : Intact t0 r.conn)
    (h : execAll ct fault r [.insertSelect f, .dropOld] = (r2, some e)) : Intact t0 r2.conn := by
  have hia : Intact t0 (step ct fault r (.insertSelect f)).1.conn := step_safe_intact rfl hi
  simp only [execAll] at h
  split at h
  · rename_i ra ea heq
    rw [heq] at hia
    cases h; exact hia
  · rename_i ra heq
    rw [heq] at hia
    split at h
    · rename_i rb eb heq2
      have := step_err_intact (ct := ct) (fault := fault) (s := .dropOld) (e := eb) hia (by rw [heq2])
      rw [heq2] at this
      cases h; exact this
    · cases h

theorem tryBlock_intact_or_rename {r : Run} (hi : Intact t0 r.conn) :
    Intact t0 (tryBlock ct fault p r).1.conn ∨ Stmt.renameTmp ∈ (tryBlock ct fault p r).1.trace := by
  unfold tryBlock
  split
  · rename_i r2 e heq
    exact .inl (cleanup_intact (try_err_intact hi heq))
  · exact .inr (elseBranch_trace _)

theorem create_intact_or_rename {r : Run} (hi : Intact t0 r.conn) :
    Intact t0 (create ct fault p r).1.conn ∨ Stmt.renameTmp ∈ (create ct fault p r).1.trace := by
  unfold create
  have h1 : Intact t0 (execAll ct fault r (.createTmp p.newSchema :: p.tmpIndexes.map .createTmpIndex)).1.conn :=
    execAll_safe_intact _ _ (by
      intro s hs
      simp only [List.mem_cons, List.mem_map] at hs
      rcases hs with rfl | ⟨ix, _, rfl⟩ <;> rfl) hi
  split
  · rename_i r1 e heq; rw [heq] at h1; exact .inl h1
  · rename_i r1 heq; rw [heq] at h1; exact tryBlock_intact_or_rename h1

/-! ## `create_table` leaves an empty temporary table -/

theorem step_tmpIndex_tmpEmpty {r : Run} {ix : Index} (h : TmpEmpty r.conn) :
    TmpEmpty (step ct fault r (.createTmpIndex ix)).1.conn := by
  cases hs : (step ct fault r (.createTmpIndex ix)).2 with
  | some e =>
    obtain ⟨hw, _⟩ := step_err_dbs hs
    unfold TmpEmpty; rw [hw]; exact h
  | none =>
    obtain ⟨db, hok, hw, _, _⟩ := step_none hs
    obtain ⟨t, ht, hrows⟩ := h
    simp only [applyStmt, ht] at hok
    obtain ⟨t', hadd, rfl⟩ := map_ok hok
    exact ⟨t', by rw [hw], by rw [addIndex_rows hadd, hrows]⟩

theorem execAll_tmpIndex_tmpEmpty (l : List Index) : ∀ (r : Run), TmpEmpty r.conn →
    TmpEmpty (execAll ct fault r (l.map .createTmpIndex)).1.conn := by
  induction l with
  | nil => intro r h; simpa [execAll] using h
  | cons ix rest ih =>
    intro r h
    have h1 := step_tmpIndex_tmpEmpty (ct := ct) (fault := fault) (ix := ix) h
    simp only [List.map_cons, execAll]
    split
    · rename_i r' e heq; rw [heq] at h1; exact h1
    · rename_i r' heq; rw [heq] at h1; exact ih r' h1

theorem stage1_ok_tmpEmpty {r r1 : Run} {s : Schema} {l : List Index}
    (h : execAll ct fault r (.createTmp s :: l.map .createTmpIndex) = (r1, none)) : TmpEmpty r1.conn := by
  simp only [execAll] at h
  split at h
  · cases h
  · rename_i ra heq
    have hs : (step ct fault r (.createTmp s)).2 = none := by rw [heq]
    obtain ⟨db, hok, hw, _, _⟩ := step_none hs
    have hte : TmpEmpty ra.conn := by
      rw [heq] at hw
      have hdb := applyStmt_createTmp_ok hok
      subst hdb
      exact ⟨{ schema := s, rows := [] }, by rw [hw], rfl⟩
    have := execAll_tmpIndex_tmpEmpty (ct := ct) (fault := fault) l ra hte
    rw [h] at this; exact this

/-! ## state at the entry of the `else` branch

All invariants are independent of who opens transactions (pysqlite legacy / AUTOCOMMIT / explicit BEGIN): the
committed state is only ever replaced by a working state, and every working state along the run keeps the
rows retrievable. -/

def Copied (ct : ConvTable) (t0 : Tbl) (feeds : List (ColDef × Option Expr)) (t : Tbl) : Prop :=
  t.rows = copiedRows ct t0 feeds

/-- the rows are retrievable from what a fresh connection would see right now -/
def CommittedOk (ct : ConvTable) (t0 : Tbl) (feeds : List (ColDef × Option Expr)) (c : Conn) : Prop :=
  Retrievable ct t0 feeds c.committed

structure AtElse (ct : ConvTable) (t0 : Tbl) (feeds : List (ColDef × Option Expr)) (c : Conn) : Prop where
  committed : CommittedOk ct t0 feeds c
  worig : c.working.orig = none
  wtmp : ∃ t, c.working.tmp = some t ∧ Copied ct t0 feeds t

/-- after the rename: the copy carries the original name -/
structure Renamed (ct : ConvTable) (t0 : Tbl) (feeds : List (ColDef × Option Expr)) (c : Conn) : Prop where
  committed : CommittedOk ct t0 feeds c
  wtmp : c.working.tmp = none
  worig : ∃ t, c.working.orig = some t ∧ Copied ct t0 feeds t

/-- the rows are retrievable from the committed and from the working state -/
def Good (ct : ConvTable) (t0 : Tbl) (feeds : List (ColDef × Option Expr)) (c : Conn) : Prop :=
  Retrievable ct t0 feeds c.committed ∧ Retrievable ct t0 feeds c.working

theorem Intact.good {c : Conn} {f : List (ColDef × Option Expr)} (h : Intact t0 c) : Good ct t0 f c :=
  ⟨.inl h.2, .inl h.1⟩

theorem AtElse.good {c : Conn} {f : List (ColDef × Option Expr)} (h : AtElse ct t0 f c) : Good ct t0 f c :=
  let ⟨t, ht, hc⟩ := h.wtmp
  ⟨h.committed, .inr ⟨t, .inr ht, hc⟩⟩

theorem Renamed.good {c : Conn} {f : List (ColDef × Option Expr)} (h : Renamed ct t0 f c) : Good ct t0 f c :=
  let ⟨t, ht, hc⟩ := h.worig
  ⟨h.committed, .inr ⟨t, .inl ht, hc⟩⟩

/-- after a successful step the committed state is the old committed state or the new working state -/
theorem step_none_committedOk {r : Run} {s : Stmt} {f : List (ColDef × Option Expr)}
    (hs : (step ct fault r s).2 = none) (hc : CommittedOk ct t0 f r.conn)
    (hw : Retrievable ct t0 f (step ct fault r s).1.conn.working) : CommittedOk ct t0 f (step ct fault r s).1.conn := by
  obtain ⟨db, _, hwk, _, hcm⟩ := step_none hs
  unfold CommittedOk
  rw [hcm]
  split
  · exact hc
  · rw [← hwk]; exact hw

theorem try_ok_atElse {r r2 : Run} {f : List (ColDef × Option Expr)} (hi : Intact t0 r.conn) (hte : TmpEmpty r.conn)
    (h : execAll ct fault r [.insertSelect f, .dropOld] = (r2, none)) : AtElse ct t0 f r2.conn := by
  simp only [execAll] at h
  split at h
  · cases h
  · rename_i ra heq
    have hs : (step ct fault r (.insertSelect f)).2 = none := by rw [heq]
    obtain ⟨db, hok, hw, _, _⟩ := step_none hs
    obtain ⟨t, ht, hrows⟩ := hte
    simp only [applyStmt, hi.1, ht] at hok
    obtain ⟨rows, hins, rfl⟩ := map_ok hok
    have hrows' : rows = copiedRows ct t0 f := by
      have := insertRows_ok _ _ _ _ hins
      simpa [hrows, copiedRows] using this
    have hca : CommittedOk ct t0 f ra.conn := by
      have := step_none_committedOk (t0 := t0) (f := f) hs (.inl hi.2) (by rw [hw]; exact .inl rfl)
      rw [heq] at this; exact this
    rw [heq] at hw
    split at h
    · cases h
    · rename_i rb heq2
      have hs2 : (step ct fault ra .dropOld).2 = none := by rw [heq2]
      obtain ⟨db2, hok2, hw2, _, _⟩ := step_none hs2
      rw [hw] at hok2
      simp only [applyStmt] at hok2
      cases hok2
      have hcb : CommittedOk ct t0 f rb.conn := by
        have := step_none_committedOk (t0 := t0) (f := f) hs2 hca
          (by rw [hw2]; exact .inr ⟨{ t with rows := rows }, .inr rfl, hrows'⟩)
        rw [heq2] at this; exact this
      rw [heq2] at hw2
      cases h
      exact { committed := hcb, worig := by rw [hw2], wtmp := ⟨{ t with rows := rows }, by rw [hw2], hrows'⟩ }

/-! ## the `else` branch -/

theorem step_createIndex_renamed {r : Run} {ix : Index} {f : List (ColDef × Option Expr)} (h : Renamed ct t0 f r.conn) :
    Renamed ct t0 f (step ct fault r (.createIndex ix)).1.conn := by
  cases hs : (step ct fault r (.createIndex ix)).2 with
  | some e => rw [step_err_conn hs rfl]; exact h
  | none =>
    obtain ⟨db, hok, hw, _, _⟩ := step_none hs
    obtain ⟨t, ht, hc⟩ := h.worig
    simp only [applyStmt, ht] at hok
    obtain ⟨t', hadd, rfl⟩ := map_ok hok
    have hcop : Copied ct t0 f t' := by unfold Copied; rw [addIndex_rows hadd]; exact hc
    exact { committed := step_none_committedOk hs h.committed (by rw [hw]; exact .inr ⟨t', .inl rfl, hcop⟩),
            wtmp := by rw [hw]; exact h.wtmp,
            worig := ⟨t', by rw [hw], hcop⟩ }

theorem execAll_createIndex_renamed {f : List (ColDef × Option Expr)} (l : List Index) : ∀ (r : Run), Renamed ct t0 f r.conn →
    Renamed ct t0 f (execAll ct fault r (l.map .createIndex)).1.conn := by
  induction l with
  | nil => intro r h; simpa [execAll] using h
  | cons ix rest ih =>
    intro r h
    have h1 := step_createIndex_renamed (ct := ct) (fault := fault) (ix := ix) h
    simp only [List.map_cons, execAll]
    split
    · rename_i r' e heq; rw [heq] at h1; exact h1
    · rename_i r' heq; rw [heq] at h1; exact ih r' h1

theorem elseBranch_post {r : Run} (h : AtElse ct t0 p.feeds r.conn) :
    Good ct t0 p.feeds (elseBranch ct fault p r).1.conn ∧
    ((elseBranch ct fault p r).2 = none → Renamed ct t0 p.feeds (elseBranch ct fault p r).1.conn) := by
  unfold elseBranch
  split
  · rename_i r' e heq
    have hs : (step ct fault r .renameTmp).2 = some e := by rw [heq]
    have hc := step_err_conn hs rfl
    rw [heq] at hc
    simp only at hc
    exact ⟨by rw [hc]; exact h.good, by intro h'; cases h'⟩
  · rename_i r' heq
    have hs : (step ct fault r .renameTmp).2 = none := by rw [heq]
    obtain ⟨db, hok, hw, _, _⟩ := step_none hs
    obtain ⟨t, ht, hcp⟩ := h.wtmp
    simp only [applyStmt, ht, h.worig] at hok
    cases hok
    have hcm := step_none_committedOk (t0 := t0) (f := p.feeds) hs h.committed (by rw [hw]; exact .inr ⟨t, .inl rfl, hcp⟩)
    rw [heq] at hw hcm
    have hr : Renamed ct t0 p.feeds r'.conn :=
      { committed := hcm, wtmp := by rw [hw], worig := ⟨t, by rw [hw], hcp⟩ }
    split
    · exact ⟨hr.good, by intro h'; cases h'⟩
    · rename_i ixs _
      have := execAll_createIndex_renamed (ct := ct) (fault := fault) ixs r' hr
      exact ⟨this.good, fun _ => this⟩

theorem tryBlock_post {r : Run} (hi : Intact t0 r.conn) (hte : TmpEmpty r.conn) :
    Good ct t0 p.feeds (tryBlock ct fault p r).1.conn ∧
    ((tryBlock ct fault p r).2 = none → Renamed ct t0 p.feeds (tryBlock ct fault p r).1.conn) := by
  unfold tryBlock
  split
  · rename_i r2 e heq
    exact ⟨(cleanup_intact (try_err_intact hi heq)).good, fun h => absurd h (cleanup_snd _ _)⟩
  · rename_i r2 heq
    exact elseBranch_post (ct := ct) (fault := fault) (p := p) (try_ok_atElse hi hte heq)

theorem create_post {r : Run} (hi : Intact t0 r.conn) :
    Good ct t0 p.feeds (create ct fault p r).1.conn ∧
    ((create ct fault p r).2 = none → Renamed ct t0 p.feeds (create ct fault p r).1.conn) := by
  unfold create
  have h1 : Intact t0 (execAll ct fault r (.createTmp p.newSchema :: p.tmpIndexes.map .createTmpIndex)).1.conn :=
    execAll_safe_intact _ _ (by
      intro s hs
      simp only [List.mem_cons, List.mem_map] at hs
      rcases hs with rfl | ⟨ix, _, rfl⟩ <;> rfl) hi
  split
  · rename_i r1 e heq
    rw [heq] at h1
    exact ⟨h1.good, by intro h'; cases h'⟩
  · rename_i r1 heq
    rw [heq] at h1
    exact tryBlock_post h1 (stage1_ok_tmpEmpty heq)

/-! ## when the scope commits, the clean-up sticks -/

def TmpSome (c : Conn) : Prop := ∃ t, c.working.tmp = some t

theorem finish_commit (x : Run × Option Err) : (finish true x).committed = x.1.conn.working := by
  simp [finish, Conn.commit]

theorem step_insert_tmpSome {r : Run} {f : List (ColDef × Option Expr)} (h : TmpSome r.conn) :
    TmpSome (step ct fault r (.insertSelect f)).1.conn := by
  cases hs : (step ct fault r (.insertSelect f)).2 with
  | some e => unfold TmpSome; rw [(step_err_dbs hs).1]; exact h
  | none =>
    obtain ⟨db, hok, hw, _, _⟩ := step_none hs
    simp only [applyStmt] at hok
    split at hok
    · obtain ⟨rows, _, rfl⟩ := map_ok hok
      exact ⟨_, by rw [hw]⟩
    · cases hok

theorem try_err_tmpSome {r r2 : Run} {e : Err} {f : List (ColDef × Option Expr)} (h : TmpSome r.conn)
    (htry : execAll ct fault r [.insertSelect f, .dropOld] = (r2, some e)) : TmpSome r2.conn := by
  have ha := step_insert_tmpSome (ct := ct) (fault := fault) (f := f) h
  simp only [execAll] at htry
  split at htry
  · rename_i ra ea heq
    rw [heq] at ha; cases htry; exact ha
  · rename_i ra heq
    rw [heq] at ha
    split at htry
    · rename_i rb eb heq2
      have hs : (step ct fault ra .dropOld).2 = some eb := by rw [heq2]
      have := (step_err_dbs hs).1
      rw [heq2] at this
      cases htry
      unfold TmpSome; rw [this]; exact ha
    · cases htry

/-- without an injected fault the clean-up `DROP` of an existing temporary table succeeds -/
theorem cleanup_drops {r : Run} {e : Err} (h : TmpSome r.conn) : (cleanup ct none r e).1.conn.working.tmp = none := by
  rw [cleanup_fst]
  obtain ⟨t, ht⟩ := h
  have hne : (none == some r.n) = false := rfl
  simp only [step, hne, Conn.exec, Stmt.isDml, Bool.false_and, Bool.false_eq_true, if_false, applyStmt]
  rw [ht]
  cases r.conn.inTxn <;> simp

/-! ## exactly when the temporary table is gone after an early failure -/

/-- neither the working nor the committed state has a temporary table -/
def NoTmp (c : Conn) : Prop := c.working.tmp = none ∧ c.committed.tmp = none

theorem finish_noTmp {b : Bool} {x : Run × Option Err} (h : NoTmp x.1.conn) : (finish b x).committed.tmp = none := by
  unfold finish; split
  · exact h.1
  · exact h.2

theorem TmpEmpty.some {c : Conn} (h : TmpEmpty c) : TmpSome c := let ⟨t, ht, _⟩ := h; ⟨t, ht⟩

theorem stage1_err {r r1 : Run} {e : Err} {s : Schema} {l : List Index} (hno : NoTmp r.conn)
    (h : execAll ct fault r (.createTmp s :: l.map .createTmpIndex) = (r1, some e)) :
    NoTmp r1.conn ∨ ∃ ix, r1.trace.getLast? = some (.createTmpIndex ix) := by
  simp only [execAll] at h
  split at h
  · rename_i ra ea heq
    have hra : ra = r1 := by cases h; rfl
    subst hra
    have hs : (step ct fault r (.createTmp s)).2 = some ea := by rw [heq]
    obtain ⟨h1, h2⟩ := step_err_dbs hs
    rw [heq] at h1 h2
    exact .inl ⟨by rw [h1]; exact hno.1, by rw [h2]; exact hno.2⟩
  · rename_i ra heq
    exact .inr (execAll_map_err_last _ _ _ _ _ h)

theorem cleanup_gone {r : Run} {e : Err} (hts : TmpSome r.conn) (hnf : fault ≠ some r.n) :
    (cleanup ct fault r e).1.conn.working.tmp = none ∧
    (cleanup ct fault r e).1.conn.inTxn = r.conn.inTxn ∧
    (r.conn.inTxn = false → (cleanup ct fault r e).1.conn.committed.tmp = none) := by
  rw [cleanup_fst]
  obtain ⟨t, ht⟩ := hts
  have hne : (fault == some r.n) = false := by simpa using hnf
  simp only [step, hne, Conn.exec, Stmt.isDml, Bool.false_and, Bool.false_eq_true, if_false, applyStmt]
  rw [ht]
  cases r.conn.inTxn <;> simp

theorem cleanup_trace (r : Run) (e : Err) : (cleanup ct fault r e).1.trace = r.trace ++ [.dropTmp] := by
  rw [cleanup_fst, step_trace]

theorem create_early_tmp_gone (commit : Bool) (r : Run) (hno : NoTmp r.conn) (hnum : Numbered r)
    (hearly : Stmt.renameTmp ∉ (create ct fault p r).1.trace)
    (hF2 : ∀ ix, (create ct fault p r).1.trace.getLast? ≠ some (.createTmpIndex ix))
    (hF1 : commit = true ∨ (create ct fault p r).1.conn.inTxn = false)
    (hcl : ∀ k, fault = some k → (create ct fault p r).1.trace[k]? ≠ some .dropTmp) :
    (finish commit (create ct fault p r)).committed.tmp = none := by
  unfold create at *
  cases hst : execAll ct fault r (.createTmp p.newSchema :: p.tmpIndexes.map .createTmpIndex) with
  | mk r1 e1 =>
    rw [hst] at hearly hF2 hF1 hcl
    have hnum1 : Numbered r1 := by
      have := execAll_numbered (ct := ct) (fault := fault) (.createTmp p.newSchema :: p.tmpIndexes.map .createTmpIndex) r hnum
      rw [hst] at this; exact this
    cases e1 with
    | some e =>
      simp only at hF2 ⊢
      rcases stage1_err hno hst with h | ⟨ix, h⟩
      · exact finish_noTmp h
      · exact absurd h (hF2 ix)
    | none =>
      simp only at hearly hF2 hF1 hcl ⊢
      have hts1 : TmpSome r1.conn := (stage1_ok_tmpEmpty hst).some
      unfold tryBlock at *
      cases htry : execAll ct fault r1 [.insertSelect p.feeds, .dropOld] with
      | mk r2 e2 =>
        rw [htry] at hearly hF1 hcl
        have hnum2 : Numbered r2 := by
          have := execAll_numbered (ct := ct) (fault := fault) [.insertSelect p.feeds, .dropOld] r1 hnum1
          rw [htry] at this; exact this
        cases e2 with
        | none =>
          simp only at hearly
          exact absurd (elseBranch_trace _) hearly
        | some e =>
          simp only at hF1 hcl ⊢
          have hts2 : TmpSome r2.conn := try_err_tmpSome hts1 htry
          have hnf : fault ≠ some r2.n := by
            intro hf
            have := hcl r2.n hf
            rw [cleanup_trace, hnum2] at this
            simp at this
          obtain ⟨hw, htx, hcm⟩ := cleanup_gone (ct := ct) (e := e) hts2 hnf
          have hsome : (cleanup ct fault r2 e).2.isNone = false := by
            cases h : (cleanup ct fault r2 e).2 with
            | none => exact absurd h (cleanup_snd _ _)
            | some _ => rfl
          unfold finish
          cases commit with
          | true => simp only [Bool.or_true, if_true, Conn.commit]; exact hw
          | false =>
            simp only [hsome, Bool.or_false, Bool.false_eq_true, if_false, Conn.rollback]
            rcases hF1 with h | h
            · cases h
            · exact hcm (by rw [← htx]; exact h)

/-! ## converses: the two excluded shapes really leave the temporary table -/

/-- the temporary table exists in the working *and* in the committed state -/
def TmpBoth (c : Conn) : Prop := TmpSome c ∧ ∃ t, c.committed.tmp = some t

theorem finish_tmpBoth {b : Bool} {x : Run × Option Err} (h : TmpBoth x.1.conn) : (finish b x).committed.tmp ≠ none := by
  obtain ⟨⟨t, ht⟩, ⟨t', ht'⟩⟩ := h
  unfold finish; split
  · simp [Conn.commit, ht]
  · simp [Conn.rollback, ht']

theorem step_ddl_inTxn {r : Run} {s : Stmt} (hd : s.isDml = false) : (step ct fault r s).1.conn.inTxn = r.conn.inTxn := by
  cases hs : (step ct fault r s).2 with
  | some e => rw [step_err_conn hs hd]
  | none => obtain ⟨_, _, _, htx, _⟩ := step_none hs; rw [htx]; simp [opens, hd]

theorem step_tmpIndex_both {r : Run} {ix : Index} (h : TmpBoth r.conn) (htx : r.conn.inTxn = false) :
    TmpBoth (step ct fault r (.createTmpIndex ix)).1.conn := by
  cases hs : (step ct fault r (.createTmpIndex ix)).2 with
  | some e => rw [step_err_conn hs rfl]; exact h
  | none =>
    obtain ⟨db, hok, hw, _, hcm⟩ := step_none hs
    obtain ⟨t, ht⟩ := h.1
    simp only [applyStmt, ht] at hok
    obtain ⟨t', _, rfl⟩ := map_ok hok
    simp only [opens, Stmt.isDml, Bool.false_and, htx, Bool.or_self, Bool.false_eq_true, if_false] at hcm
    exact ⟨⟨t', by rw [hw]⟩, ⟨t', by rw [hcm]⟩⟩

theorem execAll_tmpIndex_both (l : List Index) : ∀ (r : Run), TmpBoth r.conn → r.conn.inTxn = false →
    TmpBoth (execAll ct fault r (l.map .createTmpIndex)).1.conn := by
  induction l with
  | nil => intro r h _; simpa [execAll] using h
  | cons ix rest ih =>
    intro r h htx
    have h1 := step_tmpIndex_both (ct := ct) (fault := fault) (ix := ix) h htx
    have h2 : (step ct fault r (.createTmpIndex ix)).1.conn.inTxn = false := by rw [step_ddl_inTxn rfl]; exact htx
    simp only [List.map_cons, execAll]
    split
    · rename_i r' e heq; rw [heq] at h1; exact h1
    · rename_i r' heq; rw [heq] at h1 h2; exact ih r' h1 h2

/-- C11-F2 in general: a failure in a later statement of `create_table` leaves the temporary table, in both scopes -/
theorem stage1_tail_left {r r1 : Run} {e : Err} {s : Schema} {l : List Index} (htx : r.conn.inTxn = false)
    (h : execAll ct fault r (.createTmp s :: l.map .createTmpIndex) = (r1, some e))
    (hlast : ∃ ix, r1.trace.getLast? = some (.createTmpIndex ix)) : TmpBoth r1.conn := by
  simp only [execAll] at h
  split at h
  · rename_i ra ea heq
    have hra : ra = r1 := by cases h; rfl
    subst hra
    have ht : ra.trace = r.trace ++ [.createTmp s] := by
      have := step_trace ct fault r (.createTmp s); rw [heq] at this; exact this
    obtain ⟨ix, hix⟩ := hlast
    rw [ht] at hix; simp at hix
  · rename_i ra heq
    have hs : (step ct fault r (.createTmp s)).2 = none := by rw [heq]
    obtain ⟨db, hok, hw, htx', hcm⟩ := step_none hs
    rw [heq] at hw htx' hcm
    simp only [opens, Stmt.isDml, Bool.false_and, htx, Bool.or_self, Bool.false_eq_true, if_false] at htx' hcm
    have hboth : TmpBoth ra.conn := by
      have hdb := applyStmt_createTmp_ok hok
      subst hdb
      exact ⟨⟨_, by rw [hw]⟩, ⟨_, by rw [hcm]⟩⟩
    have := execAll_tmpIndex_both (ct := ct) (fault := fault) l ra hboth htx'
    rw [h] at this; exact this

theorem execAll_ddl_inTxn (l : List Stmt) : ∀ (r : Run), (∀ s ∈ l, s.isDml = false) →
    (execAll ct fault r l).1.conn.inTxn = r.conn.inTxn := by
  induction l with
  | nil => intro r _; simp [execAll]
  | cons s rest ih =>
    intro r hd
    have h1 := step_ddl_inTxn (ct := ct) (fault := fault) (r := r) (hd s (by simp))
    simp only [execAll]
    split
    · rename_i r' e heq; rw [heq] at h1; exact h1
    · rename_i r' heq; rw [heq] at h1; rw [ih r' (fun s hs => hd s (by simp [hs])), h1]

theorem stage1_ok_both {r r1 : Run} {s : Schema} {l : List Index} (htx : r.conn.inTxn = false)
    (h : execAll ct fault r (.createTmp s :: l.map .createTmpIndex) = (r1, none)) : TmpBoth r1.conn := by
  simp only [execAll] at h
  split at h
  · cases h
  · rename_i ra heq
    have hs : (step ct fault r (.createTmp s)).2 = none := by rw [heq]
    obtain ⟨db, hok, hw, htx', hcm⟩ := step_none hs
    rw [heq] at hw htx' hcm
    simp only [opens, Stmt.isDml, Bool.false_and, htx, Bool.or_self, Bool.false_eq_true, if_false] at htx' hcm
    have hboth : TmpBoth ra.conn := by
      have hdb := applyStmt_createTmp_ok hok
      subst hdb
      exact ⟨⟨_, by rw [hw]⟩, ⟨_, by rw [hcm]⟩⟩
    have := execAll_tmpIndex_both (ct := ct) (fault := fault) l ra hboth htx'
    rw [h] at this; exact this

theorem step_committed_of_inTxn {r : Run} {s : Stmt} (h : (step ct fault r s).1.conn.inTxn = true) :
    (step ct fault r s).1.conn.committed = r.conn.committed := by
  cases hs : (step ct fault r s).2 with
  | some e => exact (step_err_dbs hs).2
  | none =>
    obtain ⟨_, _, _, htx, hcm⟩ := step_none hs
    rw [htx] at h
    rw [hcm, h]; simp

/-- a failing `try` block leaves the committed state as `create_table` left it -/
theorem try_err_committed {r r2 : Run} {e : Err} {f : List (ColDef × Option Expr)}
    (h : execAll ct fault r [.insertSelect f, .dropOld] = (r2, some e)) (htx : r2.conn.inTxn = true) :
    r2.conn.committed = r.conn.committed := by
  simp only [execAll] at h
  split at h
  · rename_i ra ea heq
    have hra : ra = r2 := by cases h; rfl
    subst hra
    have hs : (step ct fault r (.insertSelect f)).2 = some ea := by rw [heq]
    have := (step_err_dbs hs).2
    rw [heq] at this; exact this
  · rename_i ra heq
    split at h
    · rename_i rb eb heq2
      have hrb : rb = r2 := by cases h; rfl
      subst hrb
      have hs2 : (step ct fault ra .dropOld).2 = some eb := by rw [heq2]
      have hc2 := step_err_conn hs2 rfl
      rw [heq2] at hc2
      simp only at hc2
      have hra : (step ct fault r (.insertSelect f)).1.conn.inTxn = true := by rw [heq]; simp only; rw [← hc2]; exact htx
      have := step_committed_of_inTxn hra
      rw [heq] at this
      simp only at this
      rw [hc2]; exact this
    · cases h

/-- C11-F1 in general: an early failure inside the implicit transaction, rolled back, leaves the temporary table -/
theorem create_rolledback_tmp_left {r : Run} (htx0 : r.conn.inTxn = false)
    (hearly : Stmt.renameTmp ∉ (create ct fault p r).1.trace)
    (htx : (create ct fault p r).1.conn.inTxn = true) :
    (finish false (create ct fault p r)).committed.tmp ≠ none := by
  unfold create at *
  cases hst : execAll ct fault r (.createTmp p.newSchema :: p.tmpIndexes.map .createTmpIndex) with
  | mk r1 e1 =>
    rw [hst] at hearly htx
    have htx1 : r1.conn.inTxn = false := by
      have := execAll_ddl_inTxn (ct := ct) (fault := fault) (.createTmp p.newSchema :: p.tmpIndexes.map .createTmpIndex) r (by
        intro s hs
        simp only [List.mem_cons, List.mem_map] at hs
        rcases hs with rfl | ⟨ix, _, rfl⟩ <;> rfl)
      rw [hst] at this; rw [this]; exact htx0
    cases e1 with
    | some e => simp only at htx; rw [htx1] at htx; cases htx
    | none =>
      simp only at hearly htx ⊢
      have hboth := stage1_ok_both htx0 hst
      unfold tryBlock at *
      cases htry : execAll ct fault r1 [.insertSelect p.feeds, .dropOld] with
      | mk r2 e2 =>
        rw [htry] at hearly htx
        cases e2 with
        | none => simp only at hearly; exact absurd (elseBranch_trace _) hearly
        | some e =>
          simp only at htx ⊢
          have htx2 : r2.conn.inTxn = true := by
            rw [cleanup_fst, step_ddl_inTxn rfl] at htx; exact htx
          have hcm2 : r2.conn.committed = r1.conn.committed := try_err_committed htry htx2
          have hcl : (cleanup ct fault r2 e).1.conn.committed = r2.conn.committed := by
            rw [cleanup_fst]
            apply step_committed_of_inTxn
            rw [step_ddl_inTxn rfl]; exact htx2
          have hsome : (cleanup ct fault r2 e).2.isNone = false := by
            cases h : (cleanup ct fault r2 e).2 with
            | none => exact absurd h (cleanup_snd _ _)
            | some _ => rfl
          obtain ⟨_, ⟨t, ht⟩⟩ := hboth
          simp only [finish, hsome, Bool.or_false, Bool.false_eq_true, if_false, Conn.rollback]
          rw [hcl, hcm2, ht]; simp

/-! ## inside one real transaction (the BEGIN recipe) nothing reaches the committed state -/

/-- the connection is inside a transaction and a fresh connection still sees `db` -/
def InTxnOver (db : Db) (c : Conn) : Prop := c.inTxn = true ∧ c.committed = db

theorem step_inTxnOver {db : Db} {r : Run} {s : Stmt} (h : InTxnOver db r.conn) : InTxnOver db (step ct fault r s).1.conn := by
  unfold step
  split
  · exact h
  · simp only [Conn.exec]
    cases ho : (s.isDml && r.conn.implicitBegin) <;> simp only [Bool.false_eq_true, if_false, if_true]
    · split
      · exact h
      · simp only [h.1, if_true]; exact ⟨rfl, h.2⟩
    · split
      · exact ⟨rfl, h.2⟩
      · exact ⟨rfl, h.2⟩

theorem execAll_inTxnOver {db : Db} (l : List Stmt) : ∀ (r : Run), InTxnOver db r.conn → InTxnOver db (execAll ct fault r l).1.conn := by
  induction l with
  | nil => intro r h; simpa [execAll] using h
  | cons s rest ih =>
    intro r h
    have h1 := step_inTxnOver (ct := ct) (fault := fault) (s := s) h
    simp only [execAll]
    split
    · rename_i r' e heq; rw [heq] at h1; exact h1
    · rename_i r' heq; rw [heq] at h1; exact ih r' h1

theorem create_inTxnOver {db : Db} {r : Run} (h : InTxnOver db r.conn) : InTxnOver db (create ct fault p r).1.conn := by
  unfold create
  have h1 := execAll_inTxnOver (ct := ct) (fault := fault) (.createTmp p.newSchema :: p.tmpIndexes.map .createTmpIndex) r h
  split
  · rename_i r1 e heq; rw [heq] at h1; exact h1
  · rename_i r1 heq
    rw [heq] at h1
    unfold tryBlock
    have h2 := execAll_inTxnOver (ct := ct) (fault := fault) [.insertSelect p.feeds, .dropOld] r1 h1
    split
    · rename_i r2 e htry
      rw [htry] at h2
      rw [cleanup_fst]; exact step_inTxnOver h2
    · rename_i r2 htry
      rw [htry] at h2
      unfold elseBranch
      have h3 := step_inTxnOver (ct := ct) (fault := fault) (s := .renameTmp) h2
      split
      · rename_i r3 e heq3; rw [heq3] at h3; exact h3
      · rename_i r3 heq3
        rw [heq3] at h3
        split
        · exact h3
        · exact execAll_inTxnOver _ _ h3

/-! ## the temporary name is already taken (left over by an earlier failed run) -/

/-- `CREATE TABLE _alembic_tmp_<t>` on a database that already has that table: the statement fails (or is the
injected fault) and the connection is exactly what it was -/
theorem step_createTmp_taken {r : Run} {s : Schema} (h : ∃ t, r.conn.working.tmp = some t) :
    (step ct fault r (.createTmp s)).2 ≠ none ∧ (step ct fault r (.createTmp s)).1.conn = r.conn := by
  obtain ⟨t, ht⟩ := h
  unfold step
  split
  · exact ⟨by simp, rfl⟩
  · simp [Conn.exec, Stmt.isDml, applyStmt, ht]

theorem create_tmp_taken {r : Run} (h : ∃ t, r.conn.working.tmp = some t) :
    (create ct fault p r).2 ≠ none ∧ (create ct fault p r).1.conn = r.conn := by
  obtain ⟨hne, hconn⟩ := step_createTmp_taken (ct := ct) (fault := fault) (s := p.newSchema) h
  unfold create
  simp only [execAll]
  cases hst : step ct fault r (.createTmp p.newSchema) with
  | mk ra ea =>
    rw [hst] at hne hconn
    cases ea with
    | none => exact absurd rfl hne
    | some e => exact ⟨by simp, hconn⟩

/-! ## nothing before DROP of the original touches the original -/

/-- every statement issued before the first `DROP <original>` has the temporary table as its only target -/
def PreDropSafe (tr : List Stmt) : Prop :=
  (∀ s ∈ tr, safe s = true) ∨ ∃ pre rest, tr = pre ++ Stmt.dropOld :: rest ∧ ∀ s ∈ pre, safe s = true

theorem PreDropSafe.snoc_safe {tr : List Stmt} {s : Stmt} (h : PreDropSafe tr) (hs : safe s = true) : PreDropSafe (tr ++ [s]) := by
  rcases h with h | ⟨pre, rest, rfl, hp⟩
  · left; intro x hx
    simp only [List.mem_append, List.mem_singleton] at hx
    rcases hx with hx | rfl
    · exact h x hx
    · exact hs
  · right; exact ⟨pre, rest ++ [s], by simp, hp⟩

theorem PreDropSafe.append_after_drop {pre rest : List Stmt} (l : List Stmt) (hp : ∀ s ∈ pre, safe s = true) :
    PreDropSafe (pre ++ Stmt.dropOld :: rest ++ l) :=
  .inr ⟨pre, rest ++ l, by simp, hp⟩

theorem elseBranch_trace_ext (r : Run) : ∃ l, (elseBranch ct fault p r).1.trace = r.trace ++ l := by
  unfold elseBranch
  cases hst : step ct fault r .renameTmp with
  | mk r' e' =>
    have ht : r'.trace = r.trace ++ [.renameTmp] := by
      have := step_trace ct fault r .renameTmp; rw [hst] at this; exact this
    cases e' with
    | some e => exact ⟨[.renameTmp], ht⟩
    | none =>
      simp only
      split
      · exact ⟨[.renameTmp], ht⟩
      · rename_i ixs _
        obtain ⟨k, hk⟩ := execAll_trace_take (ct := ct) (fault := fault) (ixs.map .createIndex) r'
        exact ⟨.renameTmp :: (ixs.map Stmt.createIndex).take k, by rw [hk, ht]; simp⟩

/-- **The recreate's statement list.** Started on an empty trace, `_create` first issues `CREATE TABLE _alembic_tmp_<t>`, and every
statement before the first `DROP <original>` targets the temporary table only. -/
theorem create_trace_shape {r : Run} (hr : r.trace = []) :
    (create ct fault p r).1.trace.head? = some (.createTmp p.newSchema) ∧ PreDropSafe (create ct fault p r).1.trace := by
  unfold create
  obtain ⟨k, hk⟩ := execAll_cons_trace (ct := ct) (fault := fault) (p.tmpIndexes.map Stmt.createTmpIndex) r (.createTmp p.newSchema)
  rw [hr, List.nil_append] at hk
  have hsafe1 : ∀ s ∈ Stmt.createTmp p.newSchema :: (p.tmpIndexes.map Stmt.createTmpIndex).take k, safe s = true := by
    intro s hs
    simp only [List.mem_cons] at hs
    rcases hs with rfl | hs
    · rfl
    · have := List.mem_of_mem_take hs
      simp only [List.mem_map] at this
      obtain ⟨ix, _, rfl⟩ := this; rfl
  cases hst : execAll ct fault r (.createTmp p.newSchema :: p.tmpIndexes.map .createTmpIndex) with
  | mk r1 e1 =>
    rw [hst] at hk
    simp only at hk
    cases e1 with
    | some e => simp only; rw [hk]; exact ⟨rfl, .inl hsafe1⟩
    | none =>
      simp only
      unfold tryBlock
      cases htry : execAll ct fault r1 [.insertSelect p.feeds, .dropOld] with
      | mk r2 e2 =>
        obtain ⟨k2, hk2⟩ := execAll_cons_trace (ct := ct) (fault := fault) [Stmt.dropOld] r1 (.insertSelect p.feeds)
        rw [htry] at hk2
        simp only at hk2
        have hpre : ∀ s ∈ r1.trace ++ [Stmt.insertSelect p.feeds], safe s = true := by
          intro s hs
          simp only [List.mem_append, List.mem_singleton] at hs
          rcases hs with hs | rfl
          · rw [hk] at hs; exact hsafe1 s hs
          · rfl
        have h2 : PreDropSafe r2.trace := by
          rw [hk2]
          cases k2 with
          | zero => left; simpa using hpre
          | succ n =>
            right
            exact ⟨r1.trace ++ [.insertSelect p.feeds], [], by simp, hpre⟩
        have hhead2 : r2.trace.head? = some (.createTmp p.newSchema) := by rw [hk2, hk]; rfl
        cases e2 with
        | some e =>
          simp only
          rw [cleanup_trace]
          exact ⟨by rw [hk2, hk]; rfl, h2.snoc_safe rfl⟩
        | none =>
          simp only
          have hfull := execAll_none_trace _ _ _ htry
          obtain ⟨l, hl⟩ := elseBranch_trace_ext (ct := ct) (fault := fault) (p := p) r2
          rw [hl, hfull]
          refine ⟨by rw [hk]; rfl, ?_⟩
          have := PreDropSafe.append_after_drop (pre := r1.trace ++ [.insertSelect p.feeds]) (rest := []) l hpre
          simpa using this

/-! ## a fault at statement `k ≤ index(DROP original)` -/

theorem create_intact_of_fault {r : Run} {k : Nat} (hi : Intact t0 r.conn) (hn : r.n = 0) (hk : fault = some k)
    (hle : k ≤ p.tmpIndexes.length + 2) : Intact t0 (create ct fault p r).1.conn := by
  unfold create
  have h1 : Intact t0 (execAll ct fault r (.createTmp p.newSchema :: p.tmpIndexes.map .createTmpIndex)).1.conn :=
    execAll_safe_intact _ _ (by
      intro s hs
      simp only [List.mem_cons, List.mem_map] at hs
      rcases hs with rfl | ⟨ix, _, rfl⟩ <;> rfl) hi
  split
  · rename_i r1 e heq; rw [heq] at h1; exact h1
  · rename_i r1 heq
    rw [heq] at h1
    obtain ⟨hn1, hf1⟩ := execAll_none_nofault _ _ _ heq
    unfold tryBlock
    split
    · rename_i r2 e htry
      exact cleanup_intact (try_err_intact h1 htry)
    · rename_i r2 htry
      obtain ⟨_, hf2⟩ := execAll_none_nofault _ _ _ htry
      exfalso
      simp only [List.length_cons, List.length_map, List.length_nil] at hn1 hf1 hf2
      by_cases hlt : k < p.tmpIndexes.length + 1
      · exact hf1 k hk ⟨by omega, by omega⟩
      · exact hf2 k hk ⟨by omega, by omega⟩

theorem finish_retrievable {b : Bool} {x : Run × Option Err} {f : List (ColDef × Option Expr)}
    (h : Good ct t0 f x.1.conn) : Retrievable ct t0 f (finish b x).committed := by
  unfold finish
  split
  · exact h.2
  · exact h.1

end Lemmas.Batch
