import Spec.Batch
/-!
# Lemmas about the statement executor (`step` / `execAll`) and the abstract connection

Used by `Props/C10.lean` and `Props/C11.lean`.  Nothing here is a property theorem.
-/
namespace Lemmas.Batch
open Model.Batch

theorem map_ok {α β ε : Type} {f : α → β} {x : Except ε α} {b : β} (h : x.map f = .ok b) :
    ∃ a, x = .ok a ∧ f a = b := by
  cases x with
  | error e => simp [Except.map] at h
  | ok a => exact ⟨a, rfl, by simpa [Except.map] using h⟩

/-- statements that never touch the table under the original name -/
def safe : Stmt → Bool
  | .createTmp _ => true
  | .createTmpIndex _ => true
  | .insertSelect _ => true
  | .dropTmp => true
  | _ => false

theorem addIndex_rows {db : Db} {t t' : Tbl} {ix : Index} (h : addIndex db t ix = .ok t') : t'.rows = t.rows := by
  unfold addIndex at h
  split at h
  · cases h
  · split at h
    · cases h
    · split at h
      · cases h
      · cases h; rfl

/-- a successful `CREATE TABLE _alembic_tmp_<t>` adds exactly the empty new table -/
theorem applyStmt_createTmp_ok {ct : ConvTable} {db db' : Db} {s : Schema} (h : applyStmt ct db (.createTmp s) = .ok db') :
    db' = { db with tmp := some { schema := s, rows := [] } } := by
  simp only [applyStmt] at h
  split at h
  · cases h
  · split at h
    · cases h
    · split at h
      · cases h
      · cases h; rfl

theorem applyStmt_safe_orig {ct : ConvTable} {db db' : Db} {s : Stmt} (hs : safe s = true)
    (h : applyStmt ct db s = .ok db') : db'.orig = db.orig := by
  cases s <;> simp [safe] at hs
  · -- createTmp
    rw [applyStmt_createTmp_ok h]
  · -- createTmpIndex
    simp only [applyStmt] at h
    split at h
    · cases h
    · obtain ⟨a, _, rfl⟩ := map_ok h; rfl
  · -- insertSelect
    simp only [applyStmt] at h
    split at h
    · obtain ⟨a, _, rfl⟩ := map_ok h; rfl
    · cases h
  · -- dropTmp
    simp only [applyStmt] at h
    split at h
    · cases h; rfl
    · cases h

/-- the table under the original name is `t0` in the working and in the committed state -/
def Intact (t0 : Tbl) (c : Conn) : Prop := c.working.orig = some t0 ∧ c.committed.orig = some t0

theorem exec_err_dbs {ct : ConvTable} {c : Conn} {s : Stmt} {e : Err} (h : (c.exec ct s).2 = some e) :
    (c.exec ct s).1.working = c.working ∧ (c.exec ct s).1.committed = c.committed := by
  unfold Conn.exec at h ⊢
  cases hd : (s.isDml && c.implicitBegin) <;> simp only [hd, Bool.false_eq_true, if_false, if_true] at h ⊢
  · split at h
    · simp_all
    · simp at h
  · split at h
    · simp_all
    · simp at h

theorem exec_safe_intact {ct : ConvTable} {t0 : Tbl} {c : Conn} {s : Stmt} (hs : safe s = true)
    (hi : Intact t0 c) : Intact t0 (c.exec ct s).1 := by
  unfold Conn.exec
  cases hd : (s.isDml && c.implicitBegin) <;> simp only [Bool.false_eq_true, if_false, if_true]
  · split
    · exact hi
    · rename_i db hok
      have ho := applyStmt_safe_orig hs hok
      have hw : db.orig = some t0 := by rw [ho]; exact hi.1
      cases ht : c.inTxn <;> simp only [Bool.false_eq_true, if_false, if_true]
      · exact ⟨hw, hw⟩
      · exact ⟨hw, hi.2⟩
  · split
    · exact hi
    · rename_i db hok
      have := applyStmt_safe_orig hs hok
      exact ⟨by simpa [this] using hi.1, hi.2⟩

theorem step_trace (ct : ConvTable) (fault : Option Nat) (r : Run) (s : Stmt) :
    (step ct fault r s).1.trace = r.trace ++ [s] := by
  unfold step; split <;> rfl

theorem step_n (ct : ConvTable) (fault : Option Nat) (r : Run) (s : Stmt) :
    (step ct fault r s).1.n = r.n + 1 := by
  unfold step; split <;> rfl

theorem step_err_dbs {ct : ConvTable} {fault : Option Nat} {r : Run} {s : Stmt} {e : Err}
    (h : (step ct fault r s).2 = some e) :
    (step ct fault r s).1.conn.working = r.conn.working ∧ (step ct fault r s).1.conn.committed = r.conn.committed := by
  unfold step at h ⊢
  split
  · exact ⟨rfl, rfl⟩
  · rename_i hf
    simp only [hf] at h
    exact exec_err_dbs h

theorem step_err_intact {ct : ConvTable} {fault : Option Nat} {t0 : Tbl} {r : Run} {s : Stmt} {e : Err}
    (hi : Intact t0 r.conn) (h : (step ct fault r s).2 = some e) : Intact t0 (step ct fault r s).1.conn := by
  obtain ⟨h1, h2⟩ := step_err_dbs h
  exact ⟨by rw [h1]; exact hi.1, by rw [h2]; exact hi.2⟩

theorem step_safe_intact {ct : ConvTable} {fault : Option Nat} {t0 : Tbl} {r : Run} {s : Stmt}
    (hs : safe s = true) (hi : Intact t0 r.conn) : Intact t0 (step ct fault r s).1.conn := by
  unfold step
  split
  · exact hi
  · exact exec_safe_intact hs hi

theorem execAll_safe_intact {ct : ConvTable} {fault : Option Nat} {t0 : Tbl} (l : List Stmt) :
    ∀ (r : Run), (∀ s ∈ l, safe s = true) → Intact t0 r.conn → Intact t0 (execAll ct fault r l).1.conn := by
  induction l with
  | nil => intro r _ hi; simpa [execAll] using hi
  | cons s rest ih =>
    intro r hs hi
    have h1 := step_safe_intact (ct := ct) (fault := fault) (hs s (by simp)) hi
    unfold execAll
    split
    · rename_i r' e heq
      have : (step ct fault r s).1 = r' := by rw [heq]
      rw [← this]; exact h1
    · rename_i r' heq
      have : (step ct fault r s).1 = r' := by rw [heq]
      exact ih r' (fun s hs' => hs s (by simp [hs'])) (by rw [← this]; exact h1)

theorem execAll_trace_mono {ct : ConvTable} {fault : Option Nat} (l : List Stmt) :
    ∀ (r : Run) (s : Stmt), s ∈ r.trace → s ∈ (execAll ct fault r l).1.trace := by
  induction l with
  | nil => intro r s h; simpa [execAll] using h
  | cons a rest ih =>
    intro r s h
    have h1 : s ∈ (step ct fault r a).1.trace := by rw [step_trace]; simp [h]
    unfold execAll
    split
    · rename_i r' e heq
      have : (step ct fault r a).1 = r' := by rw [heq]
      rw [← this]; exact h1
    · rename_i r' heq
      have : (step ct fault r a).1 = r' := by rw [heq]
      exact ih r' s (by rw [← this]; exact h1)

theorem execAll_single (ct : ConvTable) (fault : Option Nat) (r : Run) (s : Stmt) :
    execAll ct fault r [s] = step ct fault r s := by
  simp only [execAll]
  split
  · rename_i heq; rw [heq]
  · rename_i heq; rw [heq]

theorem finish_intact {t0 : Tbl} {b : Bool} {x : Run × Option Err} (hi : Intact t0 x.1.conn) :
    (finish b x).committed.orig = some t0 := by
  unfold finish
  split
  · exact hi.1
  · exact hi.2

theorem insertRows_ok (s : Schema) : ∀ (l acc r : List Row), insertRows s acc l = .ok r → r = acc ++ l := by
  intro l
  induction l with
  | nil => intro acc r h; simp [insertRows] at h; simp [h]
  | cons x rest ih =>
    intro acc r h
    simp only [insertRows] at h
    split at h
    · cases h
    · have := ih _ _ h
      simp [this]

/-! ## what a successful step did -/

/-- the statement opens the driver's implicit transaction -/
def opens (c : Conn) (s : Stmt) : Bool := s.isDml && c.implicitBegin

theorem step_none {ct : ConvTable} {fault : Option Nat} {r : Run} {s : Stmt} (h : (step ct fault r s).2 = none) :
    ∃ db, applyStmt ct r.conn.working s = .ok db ∧
      (step ct fault r s).1.conn.working = db ∧
      (step ct fault r s).1.conn.inTxn = (opens r.conn s || r.conn.inTxn) ∧
      (step ct fault r s).1.conn.committed = (if (opens r.conn s || r.conn.inTxn) then r.conn.committed else db) := by
  unfold step at h ⊢
  split at h
  · simp at h
  · rename_i hf
    simp only [hf] at ⊢
    simp only [Conn.exec] at h ⊢
    unfold opens
    cases hd : (s.isDml && r.conn.implicitBegin) <;> simp only [hd, Bool.false_eq_true, if_false, if_true, Bool.false_or, Bool.true_or] at h ⊢
    · split at h
      · simp at h
      · rename_i db hok
        refine ⟨db, hok, ?_⟩
        cases ht : r.conn.inTxn <;> simp
    · split at h
      · simp at h
      · rename_i db hok
        refine ⟨db, hok, ?_⟩
        simp

theorem exec_implicitBegin (ct : ConvTable) (c : Conn) (s : Stmt) : (c.exec ct s).1.implicitBegin = c.implicitBegin := by
  unfold Conn.exec
  cases hd : (s.isDml && c.implicitBegin) <;> simp only [Bool.false_eq_true, if_false, if_true]
  · split
    · rfl
    · cases c.inTxn <;> simp
  · split
    · rfl
    · simp

theorem step_implicitBegin (ct : ConvTable) (fault : Option Nat) (r : Run) (s : Stmt) :
    (step ct fault r s).1.conn.implicitBegin = r.conn.implicitBegin := by
  unfold step; split
  · rfl
  · exact exec_implicitBegin ct r.conn s

/-- the temporary table exists and is empty (after `create_table`) -/
def TmpEmpty (c : Conn) : Prop := ∃ t, c.working.tmp = some t ∧ t.rows = []

theorem step_err_conn {ct : ConvTable} {fault : Option Nat} {r : Run} {s : Stmt} {e : Err}
    (h : (step ct fault r s).2 = some e) (hd : s.isDml = false) : (step ct fault r s).1.conn = r.conn := by
  unfold step at h ⊢
  split
  · rfl
  · rename_i hf
    simp only [hf] at h
    simp only [Conn.exec, hd, Bool.false_and, Bool.false_eq_true, if_false] at h ⊢
    split at h
    · rfl
    · simp at h

/-! ## statement numbering -/

theorem step_fault {ct : ConvTable} {fault : Option Nat} {r : Run} {s : Stmt} (h : (step ct fault r s).2 = none) :
    fault ≠ some r.n := by
  intro hf
  unfold step at h
  simp [hf] at h

theorem execAll_none_nofault {ct : ConvTable} {fault : Option Nat} (l : List Stmt) : ∀ (r r' : Run),
    execAll ct fault r l = (r', none) →
    r'.n = r.n + l.length ∧ ∀ k, fault = some k → ¬ (r.n ≤ k ∧ k < r.n + l.length) := by
  induction l with
  | nil => intro r r' h; simp [execAll] at h; subst h; exact ⟨by simp, fun k _ hk => by simp at hk; omega⟩
  | cons s rest ih =>
    intro r r' h
    simp only [execAll] at h
    split at h
    · cases h
    · rename_i ra heq
      have hs : (step ct fault r s).2 = none := by rw [heq]
      have hnf := step_fault hs
      have hn : ra.n = r.n + 1 := by have := step_n ct fault r s; rw [heq] at this; exact this
      obtain ⟨h1, h2⟩ := ih ra r' h
      refine ⟨by simp only [List.length_cons]; omega, ?_⟩
      intro k hk hr
      by_cases hk0 : k = r.n
      · subst hk0; exact hnf hk
      · exact h2 k hk ⟨by omega, by simp only [List.length_cons] at hr; omega⟩

/-- the trace is indexed by statement number -/
def Numbered (r : Run) : Prop := r.n = r.trace.length

theorem step_numbered {ct : ConvTable} {fault : Option Nat} {r : Run} {s : Stmt} (h : Numbered r) :
    Numbered (step ct fault r s).1 := by
  unfold Numbered; rw [step_n, step_trace, h]; simp

theorem execAll_numbered {ct : ConvTable} {fault : Option Nat} (l : List Stmt) : ∀ (r : Run), Numbered r →
    Numbered (execAll ct fault r l).1 := by
  induction l with
  | nil => intro r h; simpa [execAll] using h
  | cons s rest ih =>
    intro r h
    have h1 := step_numbered (ct := ct) (fault := fault) (s := s) h
    simp only [execAll]
    split
    · rename_i r' e heq; rw [heq] at h1; exact h1
    · rename_i r' heq; rw [heq] at h1; exact ih r' h1

/-- a failing run over statements `f x` ends its trace with one of them -/
theorem execAll_map_err_last {ct : ConvTable} {fault : Option Nat} {α : Type} (f : α → Stmt) (l : List α) :
    ∀ (r r' : Run) (e : Err), execAll ct fault r (l.map f) = (r', some e) → ∃ x, r'.trace.getLast? = some (f x) := by
  induction l with
  | nil => intro r r' e h; simp [execAll] at h
  | cons a rest ih =>
    intro r r' e h
    simp only [List.map_cons, execAll] at h
    split at h
    · rename_i ra ea heq
      have hra : ra = r' := by cases h; rfl
      subst hra
      have ht : ra.trace = r.trace ++ [f a] := by
        have := step_trace ct fault r (f a)
        rw [heq] at this
        exact this
      exact ⟨a, by rw [ht]; simp⟩
    · rename_i ra heq
      exact ih ra r' e h

/-! ## which statements a run has issued -/

theorem execAll_cons_trace {ct : ConvTable} {fault : Option Nat} (rest : List Stmt) : ∀ (r : Run) (s : Stmt),
    ∃ k, (execAll ct fault r (s :: rest)).1.trace = r.trace ++ s :: rest.take k := by
  induction rest with
  | nil =>
    intro r s
    refine ⟨0, ?_⟩
    rw [execAll_single, step_trace]; simp
  | cons s2 rest2 ih =>
    intro r s
    simp only [execAll]
    cases hst : step ct fault r s with
    | mk ra ea =>
      have ht : ra.trace = r.trace ++ [s] := by
        have := step_trace ct fault r s; rw [hst] at this; exact this
      cases ea with
      | some e => exact ⟨0, by simp [ht]⟩
      | none =>
        obtain ⟨k, hk⟩ := ih ra s2
        simp only [execAll] at hk
        exact ⟨k + 1, by simp only; rw [hk, ht]; simp⟩

theorem execAll_trace_take {ct : ConvTable} {fault : Option Nat} (l : List Stmt) (r : Run) :
    ∃ k, (execAll ct fault r l).1.trace = r.trace ++ l.take k := by
  cases l with
  | nil => exact ⟨0, by simp [execAll]⟩
  | cons s rest =>
    obtain ⟨k, hk⟩ := execAll_cons_trace (ct := ct) (fault := fault) rest r s
    exact ⟨k + 1, by rw [hk]; simp⟩

theorem execAll_none_trace {ct : ConvTable} {fault : Option Nat} (l : List Stmt) : ∀ (r r' : Run),
    execAll ct fault r l = (r', none) → r'.trace = r.trace ++ l := by
  induction l with
  | nil => intro r r' h; simp [execAll] at h; simp [h]
  | cons s rest ih =>
    intro r r' h
    simp only [execAll] at h
    split at h
    · cases h
    · rename_i ra heq
      have ht : ra.trace = r.trace ++ [s] := by
        have := step_trace ct fault r s; rw [heq] at this; exact this
      rw [ih ra r' h, ht]; simp

end Lemmas.Batch
