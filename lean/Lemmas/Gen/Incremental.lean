import Spec.Gen
import Lemmas.Rev.Closure
/-! # `addRevision` versus `load` (helper lemmas for `C17.incremental_partial`) -/
namespace Lemmas.Gen
open Model.Rev Model.Gen

/-- the explicit result of `loadPhase1` for given label keys -/
def phase1Map (h : Hist) (K : List (String × Id)) : LMap :=
  let revs := phase1Revs h K
  let m0 : LMap := { revs := revs, labelKeys := K, heads := [], realHeads := [], bases := [], realBases := [] }
  { m0 with
    heads := (revs.filter (fun r => (m0.nextrev r.id).isEmpty)).map (·.id)
    realHeads := (revs.filter (fun r => (m0.allNextrev r.id).isEmpty)).map (·.id)
    bases := (h.filter (fun r => r.down.isEmpty)).map (·.id)
    realBases := (h.filter (fun r => r.down.isEmpty ∧ r.deps.isEmpty)).map (·.id) }

def keysMissing (h : Hist) (K : List (String × Id)) : Bool :=
  h.any (fun r => (r.down ++ r.deps).any (fun d => (lookupKey (h.map (·.id)) K d).isNone))

theorem loadPhase1_inv (h : Hist) (m1 : LMap) (hl : loadPhase1 h = .ok m1) :
    ∃ K, h.forM checkRev = .ok () ∧
      mapBranchLabels (h.map (·.id)) (h.filter (fun r => r.labels ≠ [])) [] = .ok K ∧
      keysMissing h K = false ∧ m1 = phase1Map h K := by
  unfold loadPhase1 at hl
  simp only [bind, Except.bind] at hl
  split at hl
  · simp at hl
  · rename_i u hu
    split at hl
    · simp at hl
    · rename_i K hK
      refine ⟨K, ?_, hK, ?_, ?_⟩
      · cases u; exact hu
      · split at hl
        · simp [throw, throwThe, MonadExceptOf.throw] at hl
        · rename_i hk
          simpa [keysMissing] using hk
      · split at hl
        · simp [throw, throwThe, MonadExceptOf.throw] at hl
        · simp only [pure, Except.pure, Except.ok.injEq] at hl
          exact hl.symm

theorem load_inv (h : Hist) (m : LMap) (hl : load h = .ok m) :
    ∃ m1, loadPhase1 h = .ok m1 ∧ detectCycles (withNorm {} m1) = .ok () ∧ m = addBranches (withNorm {} m1) := by
  unfold load at hl
  simp only [bind, Except.bind] at hl
  split at hl
  · simp at hl
  · rename_i m1 hm1
    refine ⟨m1, hm1, ?_⟩
    split at hl
    · simp [throw, throwThe, MonadExceptOf.throw] at hl
    · split at hl
      · simp at hl
      · rename_i u hu
        simp only [pure, Except.pure, Except.ok.injEq] at hl
        exact ⟨by cases u; exact hu, hl.symm⟩


/-! ## branch-label keys -/

def pairsOf (r : Rev) : List (String × Id) := r.labels.map (fun l => (l, r.id))
def pairs (L : List Rev) : List (String × Id) := L.flatMap pairsOf

theorem addLabels_eq (I : List Id) (r : Rev) : ∀ (ls : List String) (acc : List (String × Id)),
    mapBranchLabels.addLabels I r ls acc = addLabelKeys I r.id ls acc := by
  intro ls
  induction ls with
  | nil => intro acc; simp [mapBranchLabels.addLabels, addLabelKeys]
  | cons l ls ih =>
    intro acc
    simp only [mapBranchLabels.addLabels, addLabelKeys]
    split
    · rfl
    · exact ih _

theorem addLabelKeys_ok (I : List Id) (rid : Id) : ∀ (ls : List String) (acc K : List (String × Id)),
    addLabelKeys I rid ls acc = .ok K → K = acc ++ ls.map (fun l => (l, rid)) := by
  intro ls
  induction ls with
  | nil => intro acc K h; simp [addLabelKeys] at h; simp [h]
  | cons l ls ih =>
    intro acc K h
    simp only [addLabelKeys] at h
    split at h
    · simp at h
    · have := ih _ _ h
      simp [this]

theorem mapBranchLabels_ok (I : List Id) : ∀ (L : List Rev) (acc K : List (String × Id)),
    mapBranchLabels I L acc = .ok K → K = acc ++ pairs L := by
  intro L
  induction L with
  | nil => intro acc K h; simp [mapBranchLabels] at h; simp [pairs, h]
  | cons r L ih =>
    intro acc K h
    simp only [mapBranchLabels] at h
    split at h
    · simp at h
    · rename_i acc' hacc
      rw [addLabels_eq] at hacc
      have h1 := addLabelKeys_ok I r.id r.labels acc acc' hacc
      have h2 := ih _ _ h
      simp [h2, h1, pairs, pairsOf]

theorem mapBranchLabels_snoc (I : List Id) (r : Rev) : ∀ (L : List Rev) (acc K : List (String × Id)),
    mapBranchLabels I (L ++ [r]) acc = .ok K →
      ∃ K0, mapBranchLabels I L acc = .ok K0 ∧ addLabelKeys I r.id r.labels K0 = .ok K := by
  intro L
  induction L with
  | nil =>
    intro acc K h
    simp only [List.nil_append, mapBranchLabels] at h
    refine ⟨acc, by simp [mapBranchLabels], ?_⟩
    split at h
    · simp at h
    · rename_i acc' hacc
      rw [addLabels_eq] at hacc
      simp at h
      rw [← h]; exact hacc
  | cons x L ih =>
    intro acc K h
    simp only [List.cons_append, mapBranchLabels] at h ⊢
    split at h
    · simp at h
    · rename_i acc' hacc
      exact ih _ _ h

theorem pairs_filter (L : List Rev) : pairs (L.filter (fun r => r.labels ≠ [])) = pairs L := by
  induction L with
  | nil => rfl
  | cons r L ih =>
    by_cases hr : r.labels = []
    · simp [List.filter, hr, pairs, pairsOf] at ih ⊢
      exact ih
    · simp [List.filter, hr, pairs] at ih ⊢
      rw [ih]


/-! ## keys of the extended map -/

theorem lookupKey_ext (I : List Id) (K N : List (String × Id)) (x d : String)
    (hd : (lookupKey I K d).isNone = false) (hxk : K.any (·.1 == x) = false) :
    lookupKey (I ++ [x]) (K ++ N) d = lookupKey I K d := by
  unfold lookupKey at hd ⊢
  by_cases hdi : d ∈ I
  · simp [hdi]
  · simp only [hdi, ↓reduceIte] at hd ⊢
    cases hf : K.find? (·.1 == d) with
    | none => simp [hf] at hd
    | some p =>
      have hp := List.find?_some hf
      have hpm := List.mem_of_find?_eq_some hf
      have hdx : d ≠ x := by
        intro e
        subst e
        have : K.any (·.1 == d) = true := List.any_eq_true.mpr ⟨p, hpm, hp⟩
        simp [this] at hxk
      simp [hdi, hdx, List.find?_append, hf]

theorem resolveDeps_ext (I : List Id) (K N : List (String × Id)) (x : String) (deps : List String)
    (hd : ∀ d ∈ deps, (lookupKey I K d).isNone = false) (hxk : K.any (·.1 == x) = false) :
    resolveDeps (I ++ [x]) (K ++ N) deps = resolveDeps I K deps := by
  unfold resolveDeps
  induction deps with
  | nil => rfl
  | cons d ds ih =>
    have h1 := lookupKey_ext I K N x d (hd d (by simp)) hxk
    have h2 := ih (fun d' hd' => hd d' (by simp [hd']))
    simp [List.filterMap_cons, h1, h2]

theorem keysMissing_false (h : Hist) (K : List (String × Id)) (hk : keysMissing h K = false) :
    ∀ r0 ∈ h, ∀ d ∈ r0.down ++ r0.deps, (lookupKey (h.map (·.id)) K d).isNone = false := by
  intro r0 hr0 d hd
  unfold keysMissing at hk
  rw [List.any_eq_false] at hk
  have := hk r0 hr0
  simp only [Bool.not_eq_true] at this
  rw [List.any_eq_false] at this
  have t := this d hd
  revert t
  cases lookupKey (List.map (fun x => x.id) h) K d <;> simp

/-- the phase-1 revision of `r` in a map with ids `I` and label keys `K` -/
def p1 (I : List Id) (K : List (String × Id)) (r : Rev) : LRev :=
  { id := r.id, down := r.down, rdeps := resolveDeps I K r.deps, ndeps := [], origLabels := r.labels, labels := r.labels }

theorem phase1Revs_eq (h : Hist) (K : List (String × Id)) : phase1Revs h K = h.map (p1 (h.map (·.id)) K) := rfl

theorem phase1Revs_snoc (h : Hist) (r : Rev) (K N : List (String × Id)) (hk : keysMissing h K = false)
    (hxk : K.any (·.1 == r.id) = false) :
    phase1Revs (h ++ [r]) (K ++ N) = phase1Revs h K ++ [p1 (h.map (·.id) ++ [r.id]) (K ++ N) r] := by
  rw [phase1Revs_eq, phase1Revs_eq]
  simp only [List.map_append, List.map_cons, List.map_nil]
  congr 1
  apply List.map_congr_left
  intro r0 hr0
  have hm := keysMissing_false h K hk r0 hr0
  simp only [p1]
  rw [resolveDeps_ext _ K N r.id r0.deps (fun d hd => hm d (by simp [hd])) hxk]

/-! ## what the view without labels depends on -/

def strip (x : LRev) : LRev := { x with labels := [] }

theorem nextrev_congr (M M' : LMap) (hr : M.revs.map strip = M'.revs.map strip) (i : Id) :
    M.nextrev i = M'.nextrev i := by
  have e : ∀ (R : List LRev), (R.filter (fun r => i ∈ r.down)).map (·.id) =
      ((R.map strip).filter (fun r => i ∈ r.down)).map (·.id) := by
    intro R; simp [List.filter_map, Function.comp_def, strip]; rfl
  unfold LMap.nextrev
  rw [e M.revs, e M'.revs, hr]

theorem allNextrev_congr (M M' : LMap) (hr : M.revs.map strip = M'.revs.map strip) (i : Id) :
    M.allNextrev i = M'.allNextrev i := by
  have e : ∀ (R : List LRev), (R.filter (fun r => i ∈ r.allDown)).map (·.id) =
      ((R.map strip).filter (fun r => i ∈ r.allDown)).map (·.id) := by
    intro R; simp [List.filter_map, Function.comp_def, strip, LRev.allDown]; rfl
  unfold LMap.allNextrev
  rw [e M.revs, e M'.revs, hr]

def mkView (N AN : Id → List Id) (y : LRev) : RevView :=
  { id := y.id, down := y.down, rdeps := y.rdeps, ndeps := y.ndeps, labels := [], nextrev := N y.id, allNextrev := AN y.id }

theorem view_noLabels_eq (M M' : LMap) (hr : M.revs.map strip = M'.revs.map strip)
    (hk : M.labelKeys = M'.labelKeys) (hh : M.heads = M'.heads) (hrh : M.realHeads = M'.realHeads)
    (hb : M.bases = M'.bases) (hrb : M.realBases = M'.realBases) :
    (view M).noLabels = (view M').noLabels := by
  have e : ∀ (X : LMap), (X.revs.map (revView X)).map (fun r => { r with labels := [] }) =
      (X.revs.map strip).map (mkView X.nextrev X.allNextrev) := by
    intro X; simp [revView, strip, Function.comp_def, mkView]
  have hn : M.nextrev = M'.nextrev := funext (nextrev_congr M M' hr)
  have han : M.allNextrev = M'.allNextrev := funext (allNextrev_congr M M' hr)
  simp only [view, View.noLabels, hk, hh, hrh, hb, hrb]
  congr 1
  rw [e M, e M', hr, hn, han]


/-! ## the shape of a loaded map -/

theorem withNorm_revs (M : LMap) :
    (withNorm {} M).revs = M.revs.map (fun r => { r with ndeps := normalizeOne M r }) := by
  simp [withNorm, orderedNorm]

theorem addBranches_strip (M : LMap) : (addBranches M).revs.map strip = M.revs.map strip := by
  simp [addBranches, strip, Function.comp_def]

/-- `(id, down, rdeps)`: what the graph functions read -/
def core (x : LRev) : Id × List Id × List Id := (x.id, x.down, x.rdeps)

theorem core_of_strip {R R' : List LRev} (h : R.map strip = R'.map strip) : R.map core = R'.map core := by
  have e : ∀ (L : List LRev), L.map core = (L.map strip).map core := by
    intro L; simp [core, strip, Function.comp_def]
  rw [e R, e R', h]

theorem find_core (i : Id) : ∀ (R R' : List LRev), R.map core = R'.map core →
    (R.find? (·.id == i)).map core = (R'.find? (·.id == i)).map core := by
  intro R
  induction R with
  | nil => intro R' h; cases R' with
    | nil => rfl
    | cons y R' => simp at h
  | cons x R ih =>
    intro R' h
    cases R' with
    | nil => simp at h
    | cons y R' =>
      simp only [List.map_cons, List.cons.injEq] at h
      have hxy : x.id = y.id := by have := h.1; simp [core] at this; exact this.1
      simp only [List.find?_cons, hxy]
      split
      · simp [h.1]
      · exact ih R' h.2

theorem ids_core {M M' : LMap} (h : M.revs.map core = M'.revs.map core) : M.ids = M'.ids := by
  have e : ∀ (L : List LRev), L.map (·.id) = (L.map core).map (·.1) := by
    intro L; simp [core, Function.comp_def]
  unfold LMap.ids
  rw [e, e, h]

theorem downOf_core {M M' : LMap} (h : M.revs.map core = M'.revs.map core) : M.downOf = M'.downOf := by
  funext i
  have := find_core i M.revs M'.revs h
  unfold LMap.downOf LMap.get?
  cases h1 : M.revs.find? (·.id == i) <;> cases h2 : M'.revs.find? (·.id == i) <;> simp [h1, h2, core] at this ⊢
  exact this.2.1

theorem rdepsOf_core {M M' : LMap} (h : M.revs.map core = M'.revs.map core) (a : Id) :
    ((M.get? a).map (·.rdeps)).getD [] = ((M'.get? a).map (·.rdeps)).getD [] := by
  have := find_core a M.revs M'.revs h
  unfold LMap.get?
  cases h1 : M.revs.find? (·.id == a) <;> cases h2 : M'.revs.find? (·.id == a) <;> simp [h1, h2, core] at this ⊢
  exact this.2.2

theorem normalizeOne_congr {M M' : LMap} (h : M.revs.map core = M'.revs.map core) (x x' : LRev)
    (hid : x.id = x'.id) (hrd : x.rdeps = x'.rdeps) : normalizeOne M x = normalizeOne M' x' := by
  unfold normalizeOne LMap.ancestorsNoDeps LMap.closure
  rw [hid, hrd, ids_core h, downOf_core h]
  simp only [rdepsOf_core h]


/-! ## ancestors of the old revisions are not affected by appending a new revision -/

open Spec.Rev Lemmas.Rev in
theorem reach_ext (D D' : Id → List Id) (nid : Id) (f1 : ∀ y, y ≠ nid → D' y = D y)
    (f2 : ∀ y, ∀ d ∈ D y, d ≠ nid) (a : Id) : ∀ s, s ≠ nid → (Reach D s a ↔ Reach D' s a) := by
  intro s hs
  constructor
  · intro h
    induction h with
    | refl _ => exact Reach.refl _
    | @step s' b c hb _ ih =>
      exact Reach.step (by rw [f1 s' hs]; exact hb) (ih (f2 s' b hb))
  · intro h
    induction h with
    | refl _ => exact Reach.refl _
    | @step s' b c hb _ ih =>
      have hb' : b ∈ D s' := by rw [f1 s' hs] at hb; exact hb
      exact Reach.step hb' (ih (f2 s' b hb'))

open Spec.Rev Lemmas.Rev in
theorem reach_ne (D : Id → List Id) (nid : Id) (f2 : ∀ y, ∀ d ∈ D y, d ≠ nid) (a : Id) :
    ∀ s, s ≠ nid → Reach D s a → a ≠ nid := by
  intro s hs h
  induction h with
  | refl _ => exact hs
  | @step s' b c hb _ ih =>
    exact ih (f2 s' b hb)

theorem get?_snoc_ne (M M' : LMap) (n : LRev) (hM' : M'.revs = M.revs ++ [n]) (y : Id) (hy : y ≠ n.id) :
    M'.get? y = M.get? y := by
  unfold LMap.get?
  rw [hM', List.find?_append]
  have : (n.id == y) = false := by simp [Ne.symm hy]
  simp [List.find?_cons, this]

theorem downOf_none (M : LMap) (y : Id) (hy : y ∉ M.ids) : M.downOf y = [] := by
  unfold LMap.downOf LMap.get?
  have : M.revs.find? (·.id == y) = none := by
    rw [List.find?_eq_none]
    intro x hx he
    apply hy
    simp only [beq_iff_eq] at he
    rw [← he]
    exact List.mem_map_of_mem hx
  simp [this]

theorem downOf_mem (M : LMap) (y d : Id) (hd : d ∈ M.downOf y) : ∃ x ∈ M.revs, d ∈ x.down := by
  unfold LMap.downOf LMap.get? at hd
  cases hf : M.revs.find? (·.id == y) with
  | none => simp [hf] at hd
  | some x =>
    simp [hf] at hd
    exact ⟨x, List.mem_of_find?_eq_some hf, hd⟩

theorem removeAll_congr (l xs ys : List Id) (h : ∀ z, z ∈ xs ↔ z ∈ ys) : removeAll l xs = removeAll l ys := by
  unfold removeAll
  apply List.filter_congr
  intro z _
  simp [h z]

theorem normalizeOne_snoc (M M' : LMap) (n : LRev) (hM' : M'.revs = M.revs ++ [n])
    (hnd : ∀ y ∈ M.revs, n.id ∉ y.down) (x : LRev) (hx : x.id ≠ n.id) :
    normalizeOne M' x = normalizeOne M x := by
  have f1 : ∀ y, y ≠ n.id → M'.downOf y = M.downOf y := by
    intro y hy; unfold LMap.downOf; rw [get?_snoc_ne M M' n hM' y hy]
  have f2 : ∀ y, ∀ d ∈ M.downOf y, d ≠ n.id := by
    intro y d hd e
    obtain ⟨z, hz, hdz⟩ := downOf_mem M y d hd
    exact hnd z hz (e ▸ hdz)
  have hanc : ∀ a, a ∈ M'.ancestorsNoDeps [x.id] ↔ a ∈ M.ancestorsNoDeps [x.id] := by
    intro a
    unfold LMap.ancestorsNoDeps LMap.closure
    rw [Lemmas.Rev.mem_closureOf_iff M'.downOf M'.ids [x.id] (downOf_none M') a,
        Lemmas.Rev.mem_closureOf_iff M.downOf M.ids [x.id] (downOf_none M) a]
    simp only [List.mem_singleton, exists_eq_left]
    exact (reach_ext M.downOf M'.downOf n.id f1 f2 a x.id hx).symm
  have hne : ∀ a, a ∈ M.ancestorsNoDeps [x.id] → a ≠ n.id := by
    intro a ha
    unfold LMap.ancestorsNoDeps LMap.closure at ha
    rw [Lemmas.Rev.mem_closureOf_iff M.downOf M.ids [x.id] (downOf_none M) a] at ha
    simp only [List.mem_singleton, exists_eq_left] at ha
    exact reach_ne M.downOf n.id f2 a x.id hx ha
  unfold normalizeOne
  split
  · rfl
  · apply removeAll_congr
    intro z
    simp only [List.mem_flatMap, List.mem_filter]
    constructor
    · rintro ⟨a, ⟨ha, hax⟩, hz⟩
      have ha' := (hanc a).mp ha
      refine ⟨a, ⟨ha', hax⟩, ?_⟩
      rw [get?_snoc_ne M M' n hM' a (hne a ha')] at hz
      exact hz
    · rintro ⟨a, ⟨ha, hax⟩, hz⟩
      refine ⟨a, ⟨(hanc a).mpr ha, hax⟩, ?_⟩
      rw [get?_snoc_ne M M' n hM' a (hne a ha)]
      exact hz


/-! ## heads of the extended map -/

/-- children of `i` along `sel` (`down` for `nextrev`, `allDown` for `_all_nextrev`) -/
def nxg (sel : LRev → List Id) (R : List LRev) (i : Id) : List Id := (R.filter (fun r => i ∈ sel r)).map (·.id)

def headsG (sel : LRev → List Id) (R : List LRev) : List Id :=
  (R.filter (fun x => (nxg sel R x.id).isEmpty)).map (·.id)

theorem nxg_snoc (sel : LRev → List Id) (R : List LRev) (n : LRev) (i : Id) :
    nxg sel (R ++ [n]) i = nxg sel R i ++ (if i ∈ sel n then [n.id] else []) := by
  unfold nxg
  rw [List.filter_append, List.map_append]
  congr 1
  by_cases hi : i ∈ sel n <;> simp [List.filter, hi]

theorem nxg_empty (sel : LRev → List Id) (R : List LRev) (i : Id) (h : ∀ y ∈ R, i ∉ sel y) : nxg sel R i = [] := by
  unfold nxg
  rw [List.map_eq_nil_iff, List.filter_eq_nil_iff]
  intro y hy
  simpa using h y hy

theorem headsG_snoc (sel : LRev → List Id) (R : List LRev) (n : LRev)
    (h1 : ∀ y ∈ R, n.id ∉ sel y) (h2 : n.id ∉ sel n) (h3 : ∀ y ∈ R, y.id ≠ n.id) :
    headsG sel (R ++ [n]) = (headsG sel R).filter (fun hd => !(hd ∈ sel n || hd == n.id)) ++ [n.id] := by
  unfold headsG
  rw [List.filter_append, List.map_append]
  congr 1
  · rw [List.filter_map, List.filter_filter]
    congr 1
    apply List.filter_congr
    intro x hx
    rw [nxg_snoc]
    have hne : (x.id == n.id) = false := by simpa using h3 x hx
    by_cases hm : x.id ∈ sel n
    · simp [hm]
    · simp [hm, hne]
  · have he : nxg sel (R ++ [n]) n.id = [] := by
      apply nxg_empty
      intro y hy
      rcases List.mem_append.mp hy with hy | hy
      · exact h1 y hy
      · simp at hy; subst hy; exact h2
    simp [List.filter, he]

theorem nxg_core (sel _sel' : LRev → List Id) (f : Id × List Id × List Id → List Id) (hs : ∀ x, sel x = f (core x))
    {R R' : List LRev} (h : R.map core = R'.map core) (i : Id) : nxg sel R i = nxg sel R' i := by
  have e : ∀ (L : List LRev), nxg sel L i = ((L.map core).filter (fun c => i ∈ f c)).map (·.1) := by
    intro L
    unfold nxg
    rw [List.filter_map, List.map_map]
    simp only [Function.comp_def, hs]
    rfl
  rw [e R, e R', h]

theorem nxg_down_core {R R' : List LRev} (h : R.map core = R'.map core) (i : Id) :
    nxg (·.down) R i = nxg (·.down) R' i :=
  nxg_core (·.down) (·.down) (fun c => c.2.1) (fun _ => rfl) h i

theorem nxg_allDown_core {R R' : List LRev} (h : R.map core = R'.map core) (i : Id) :
    nxg LRev.allDown R i = nxg LRev.allDown R' i :=
  nxg_core LRev.allDown LRev.allDown (fun c => dedupe (c.2.1 ++ c.2.2)) (fun _ => rfl) h i

theorem mem_dedupe (l : List String) (x : String) : x ∈ dedupe l ↔ x ∈ l := by
  induction l with
  | nil => simp [dedupe]
  | cons a l ih =>
    simp only [dedupe, List.mem_cons, List.mem_filter, ih]
    constructor
    · rintro (h | ⟨h, _⟩)
      · exact Or.inl h
      · exact Or.inr h
    · intro h
      by_cases hx : x = a
      · exact Or.inl hx
      · rcases h with h | h
        · exact Or.inl h
        · exact Or.inr ⟨h, by simpa using hx⟩


/-! ## `_add_branches` reads everything but the current label sets -/

def addsOf (bm : Id → List Id) (R : List LRev) : List (Id × List String) :=
  (R.filter (fun r => r.origLabels ≠ [])).flatMap (fun r => (bm r.id).map (fun x => (x, r.origLabels)))

def relabel (adds : List (Id × List String)) (r : LRev) : LRev :=
  { r with labels := dedupe (r.origLabels ++ (adds.filter (·.1 == r.id)).flatMap (·.2)) }

theorem addBranches_revs (M : LMap) :
    (addBranches M).revs = M.revs.map (relabel (addsOf (branchMembers M) M.revs)) := rfl

theorem addsOf_strip (bm : Id → List Id) (R : List LRev) : addsOf bm (R.map strip) = addsOf bm R := by
  unfold addsOf
  rw [List.filter_map, List.flatMap_map]
  rfl

theorem relabel_strip (adds : List (Id × List String)) (R : List LRev) :
    (R.map strip).map (relabel adds) = R.map (relabel adds) := by
  rw [List.map_map]
  rfl

theorem walkDownLabels_congr (M M' : LMap) (han : M.allNextrev = M'.allNextrev) (hd : M.downOf = M'.downOf) :
    ∀ fuel p, walkDownLabels M fuel p = walkDownLabels M' fuel p := by
  intro fuel
  induction fuel with
  | zero => intro p; rfl
  | succ k ih =>
    intro p
    simp only [walkDownLabels, isRealBranchPoint, isMergePoint, han, hd, ih]
    first | rfl | (split <;> first | rfl | (split <;> rfl))

theorem addBranches_congr (M M' : LMap) (h : M.revs.map strip = M'.revs.map strip) :
    (addBranches M).revs = (addBranches M').revs := by
  have hcore := core_of_strip h
  have hn : M.nextrev = M'.nextrev := funext (nextrev_congr M M' h)
  have han : M.allNextrev = M'.allNextrev := funext (allNextrev_congr M M' h)
  have hd : M.downOf = M'.downOf := downOf_core hcore
  have hi : M.ids = M'.ids := ids_core hcore
  have hl : M.revs.length = M'.revs.length := by
    have := congrArg List.length h
    simpa using this
  have hb : branchMembers M = branchMembers M' := by
    funext i
    unfold branchMembers LMap.descendantsNoDeps LMap.closure
    have hw : walkDownLabels M = walkDownLabels M' :=
      funext fun f => funext fun p => walkDownLabels_congr M M' han hd f p
    rw [hn, hi, hl, hw]
  rw [addBranches_revs, addBranches_revs, hb, ← addsOf_strip _ M.revs, ← relabel_strip _ M.revs, h,
      addsOf_strip, relabel_strip]

theorem view_eq (M M' : LMap) (hr : M.revs = M'.revs)
    (hk : M.labelKeys = M'.labelKeys) (hh : M.heads = M'.heads) (hrh : M.realHeads = M'.realHeads)
    (hb : M.bases = M'.bases) (hrb : M.realBases = M'.realBases) : view M = view M' := by
  have hn : M.nextrev = M'.nextrev := by funext i; unfold LMap.nextrev; rw [hr]
  have han : M.allNextrev = M'.allNextrev := by funext i; unfold LMap.allNextrev; rw [hr]
  have hv : revView M = revView M' := by funext x; simp [revView, hn, han]
  simp only [view, hr, hk, hh, hrh, hb, hrb, hv]

/-! ## assembling `addRevision m r` against `load (h ++ [r])` -/

theorem forM_cons_eq (f : Rev → Except Err Unit) (x : Rev) (L : List Rev) :
    (x :: L).forM f = (f x >>= fun _ => L.forM f) := rfl

theorem forM_snoc_ok (f : Rev → Except Err Unit) : ∀ (L : List Rev) (r : Rev), (L ++ [r]).forM f = .ok () → f r = .ok () := by
  intro L
  induction L with
  | nil =>
    intro r h
    rw [List.nil_append, forM_cons_eq] at h
    simp only [bind, Except.bind] at h
    split at h
    · simp at h
    · rename_i u hu; cases u; exact hu
  | cons x L ih =>
    intro r h
    rw [List.cons_append, forM_cons_eq] at h
    simp only [bind, Except.bind] at h
    split at h
    · simp at h
    · exact ih r h

theorem lookup_ne (I : List Id) (K : List (String × Id)) (d x : String) (hd : (lookupKey I K d).isNone = false)
    (hx : x ∉ I) (hxk : K.any (·.1 == x) = false) : d ≠ x := by
  intro e
  subst e
  unfold lookupKey at hd
  simp only [hx, ↓reduceIte] at hd
  cases hf : K.find? (·.1 == d) with
  | none => simp [hf] at hd
  | some p =>
    have hp := List.find?_some hf
    have : K.any (·.1 == d) = true := List.any_eq_true.mpr ⟨p, List.mem_of_find?_eq_some hf, hp⟩
    simp [this] at hxk

theorem lookup_mem (h : Hist) (d : String) (i : Id) (hl : lookupKey (h.map (·.id)) (pairs h) d = some i) :
    i ∈ h.map (·.id) := by
  unfold lookupKey at hl
  split at hl
  · simp at hl; subst hl; assumption
  · cases hf : (pairs h).find? (·.1 == d) with
    | none => simp [hf] at hl
    | some p =>
      simp [hf] at hl
      have hp := List.mem_of_find?_eq_some hf
      simp only [pairs, pairsOf, List.mem_flatMap, List.mem_map] at hp
      obtain ⟨r0, hr0, l, _, hpe⟩ := hp
      rw [← hl, ← hpe]
      exact List.mem_map_of_mem hr0

theorem resolveDeps_mem (h : Hist) (deps : List String) (i : Id)
    (hi : i ∈ resolveDeps (h.map (·.id)) (pairs h) deps) : i ∈ h.map (·.id) := by
  unfold resolveDeps at hi
  rw [List.mem_filterMap] at hi
  obtain ⟨d, _, hd⟩ := hi
  exact lookup_mem h d i hd

def newRev0 (m : LMap) (r : Rev) (K' : List (String × Id)) : LRev :=
  { id := r.id, down := r.down, rdeps := resolveDeps (m.ids ++ [r.id]) K' r.deps, ndeps := [], origLabels := r.labels,
    labels := r.labels }

def mapX (m : LMap) (r : Rev) (K' : List (String × Id)) : LMap :=
  { m with revs := m.revs ++ [newRev0 m r K'], labelKeys := K' }

def newRev1 (m : LMap) (r : Rev) (K' : List (String × Id)) : LRev :=
  { newRev0 m r K' with ndeps := normalizeOne (mapX m r K') (newRev0 m r K') }

/-- the map after `_normalize_depends_on`, before the labels are recomputed -/
def mapY (m : LMap) (r : Rev) (K' : List (String × Id)) : LMap :=
  { mapX m r K' with revs := m.revs ++ [newRev1 m r K'] }

theorem addCore_revs (m : LMap) (r : Rev) (K' : List (String × Id)) :
    (addCore m r K').revs = (addBranches (mapY m r K')).revs := rfl
theorem addCore_labelKeys (m : LMap) (r : Rev) (K' : List (String × Id)) : (addCore m r K').labelKeys = K' := rfl
theorem addCore_heads (m : LMap) (r : Rev) (K' : List (String × Id)) :
    (addCore m r K').heads =
      if (nxg (·.down) (m.revs ++ [newRev1 m r K']) r.id).isEmpty
      then (m.heads.filter (fun h => !(h ∈ r.down || h == r.id))) ++ [r.id] else m.heads := rfl
theorem addCore_realHeads (m : LMap) (r : Rev) (K' : List (String × Id)) :
    (addCore m r K').realHeads =
      if (nxg LRev.allDown (m.revs ++ [newRev1 m r K']) r.id).isEmpty
      then (m.realHeads.filter (fun h => !(h ∈ (newRev1 m r K').allDown || h == r.id))) ++ [r.id] else m.realHeads := rfl
theorem addCore_bases (m : LMap) (r : Rev) (K' : List (String × Id)) :
    (addCore m r K').bases = if r.down.isEmpty then m.bases ++ [r.id] else m.bases := rfl
theorem addCore_realBases (m : LMap) (r : Rev) (K' : List (String × Id)) :
    (addCore m r K').realBases = if r.down.isEmpty ∧ r.deps.isEmpty then m.realBases ++ [r.id] else m.realBases := rfl

theorem phase1Map_heads (h : Hist) (K : List (String × Id)) :
    (phase1Map h K).heads = headsG (·.down) (phase1Revs h K) := rfl
theorem phase1Map_realHeads (h : Hist) (K : List (String × Id)) :
    (phase1Map h K).realHeads = headsG LRev.allDown (phase1Revs h K) := rfl


theorem hasKey_false (m : LMap) (x : String) (h : hasKey m x = false) : x ∉ m.ids ∧ m.labelKeys.any (·.1 == x) = false := by
  unfold hasKey at h
  simp only [Bool.or_eq_false_iff, decide_eq_false_iff_not] at h
  exact h

def withN (M : LMap) (x : LRev) : LRev := { x with ndeps := normalizeOne M x }

theorem loaded_shape (h : Hist) (m : LMap) (hl : load h = .ok m) :
    h.forM checkRev = .ok () ∧ keysMissing h (pairs h) = false ∧
    mapBranchLabels (h.map (·.id)) (h.filter (fun r => r.labels ≠ [])) [] = .ok (pairs h) ∧
    m.revs = (addBranches (withNorm {} (phase1Map h (pairs h)))).revs ∧
    m.revs.map strip = ((phase1Revs h (pairs h)).map (withN (phase1Map h (pairs h)))).map strip ∧
    m.labelKeys = pairs h ∧ m.heads = (phase1Map h (pairs h)).heads ∧ m.realHeads = (phase1Map h (pairs h)).realHeads ∧
    m.bases = (phase1Map h (pairs h)).bases ∧ m.realBases = (phase1Map h (pairs h)).realBases := by
  obtain ⟨m1, hp1, _, hm⟩ := load_inv h m hl
  obtain ⟨K, hchk, hK, hmiss, hm1⟩ := loadPhase1_inv h m1 hp1
  have hKe : K = pairs h := by
    have := mapBranchLabels_ok _ _ _ _ hK
    rw [pairs_filter] at this
    simpa using this
  subst hKe
  subst hm1
  subst hm
  refine ⟨hchk, hmiss, hK, rfl, ?_, rfl, rfl, rfl, rfl, rfl⟩
  rw [addBranches_strip, withNorm_revs]
  rfl


theorem pairs_snoc (h : Hist) (r : Rev) : pairs (h ++ [r]) = pairs h ++ pairsOf r := by
  simp [pairs]

theorem p1_ids (h : Hist) (K : List (String × Id)) : (phase1Revs h K).map (·.id) = h.map (·.id) := by
  simp [phase1Revs]

theorem ids_of_strip (m : LMap) (R : List LRev) (M : LMap)
    (h : m.revs.map strip = (R.map (withN M)).map strip) : m.ids = R.map (·.id) := by
  have e : ∀ (L : List LRev), L.map (·.id) = (L.map strip).map (·.id) := by
    intro L; simp [strip, Function.comp_def]
  unfold LMap.ids
  rw [e m.revs, h]
  simp [strip, withN, Function.comp_def]

theorem incremental_view (h : Hist) (r : Rev) (m mf : LMap) (hl : load h = .ok m)
    (hf : load (h ++ [r]) = .ok mf) (hid : hasKey m r.id = false) (hdeps : ∀ d ∈ r.deps, hasKey m d = true) :
    addRevision m r = .ok (addCore m r (pairs (h ++ [r]))) ∧
      view (addCore m r (pairs (h ++ [r]))) = view mf := by
  obtain ⟨hchk, hmiss, hK, _, hrevs, hlk, hheads, hrheads, hbases, hrbases⟩ := loaded_shape h m hl
  obtain ⟨hchk', hmiss', hK', hmfrevs, hrevs', hlk', hheads', hrheads', hbases', hrbases'⟩ := loaded_shape (h ++ [r]) mf hf
  obtain ⟨hidI, hidK⟩ := hasKey_false m r.id hid
  rw [hlk] at hidK
  have hmids : m.ids = h.map (·.id) := by
    rw [ids_of_strip m _ _ hrevs, p1_ids]
  rw [hmids] at hidI
  -- the guards of `addRevision`
  have hcr : checkRev r = .ok () := forM_snoc_ok checkRev h r hchk'
  have hI' : (h ++ [r]).map (·.id) = h.map (·.id) ++ [r.id] := by simp
  have hadd : addLabelKeys (h.map (·.id) ++ [r.id]) r.id r.labels (pairs h) = .ok (pairs (h ++ [r])) := by
    rw [hI'] at hK'
    by_cases hlab : r.labels = []
    · have : pairs (h ++ [r]) = pairs h := by simp [pairs_snoc, pairsOf, hlab]
      rw [this, hlab]; simp [addLabelKeys]
    · have hfl : (h ++ [r]).filter (fun r => r.labels ≠ []) = h.filter (fun r => r.labels ≠ []) ++ [r] := by
        simp [List.filter_append, List.filter, hlab]
      rw [hfl] at hK'
      obtain ⟨K0, hK0, hadd⟩ := mapBranchLabels_snoc _ r _ _ _ hK'
      have := mapBranchLabels_ok _ _ _ _ hK0
      rw [pairs_filter] at this
      simp at this
      rw [this] at hadd
      exact hadd
  have hkeys : ((r.down ++ r.deps).any fun d => (lookupKey (h.map (·.id) ++ [r.id]) (pairs (h ++ [r])) d).isNone) = false := by
    rw [List.any_eq_false]
    intro d hd
    have := keysMissing_false (h ++ [r]) _ hmiss' r (by simp) d hd
    rw [hI'] at this
    simp [this]
  have hok : addRevision m r = .ok (addCore m r (pairs (h ++ [r]))) := by
    unfold addRevision
    simp only [hcr, hid, hmids, hlk, hadd, hkeys, bind, Except.bind, pure, Except.pure]
    rfl
  refine ⟨hok, ?_⟩
  -- the shape of the fresh phase-1 map
  have hsn := phase1Revs_snoc h r (pairs h) (pairsOf r) hmiss hidK
  rw [← pairs_snoc] at hsn
  have hold_down : ∀ y ∈ phase1Revs h (pairs h), r.id ∉ y.down := by
    intro y hy hmem
    rw [phase1Revs_eq, List.mem_map] at hy
    obtain ⟨r0, hr0, rfl⟩ := hy
    exact lookup_ne _ _ _ r.id (keysMissing_false h _ hmiss r0 hr0 r.id (by simp [p1] at hmem; simp [hmem])) hidI hidK rfl
  have hold_id : ∀ y ∈ phase1Revs h (pairs h), y.id ≠ r.id := by
    intro y hy e
    apply hidI
    rw [← e, ← p1_ids h (pairs h)]
    exact List.mem_map_of_mem hy
  have hold_rdeps : ∀ y ∈ phase1Revs h (pairs h), r.id ∉ y.rdeps := by
    intro y hy hmem
    rw [phase1Revs_eq, List.mem_map] at hy
    obtain ⟨r0, hr0, rfl⟩ := hy
    exact hidI (resolveDeps_mem h r0.deps r.id hmem)
  -- dependencies of the new revision resolve in the old keys
  have hrd : resolveDeps (h.map (·.id) ++ [r.id]) (pairs (h ++ [r])) r.deps = resolveDeps (h.map (·.id)) (pairs h) r.deps := by
    rw [pairs_snoc]
    apply resolveDeps_ext _ _ _ _ _ _ hidK
    intro d hd
    have hk := hdeps d hd
    unfold hasKey at hk
    rw [hmids, hlk] at hk
    unfold lookupKey
    by_cases hdi : d ∈ h.map (·.id)
    · simp [hdi]
    · simp only [hdi, decide_false, Bool.false_or] at hk
      obtain ⟨p, hp, hpe⟩ := List.any_eq_true.mp hk
      simp only [hdi, ↓reduceIte]
      cases hfd : (pairs h).find? (·.1 == d) with
      | none => rw [List.find?_eq_none] at hfd; exact absurd hpe (hfd p hp)
      | some q => simp
  have hnew_down : r.id ∉ r.down := by
    intro hmem
    unfold checkRev at hcr
    have hne : r.down ≠ [] := by intro e; rw [e] at hmem; simp at hmem
    simp [hne, hmem] at hcr
  have hnew_rdeps : r.id ∉ resolveDeps (h.map (·.id)) (pairs h) r.deps := fun hmem => hidI (resolveDeps_mem h r.deps r.id hmem)
  -- abbreviations
  let R := phase1Revs h (pairs h)
  let n := p1 (h.map (·.id) ++ [r.id]) (pairs (h ++ [r])) r
  have hm1' : (phase1Map (h ++ [r]) (pairs (h ++ [r]))).revs = (phase1Map h (pairs h)).revs ++ [n] := hsn
  -- normalised dependencies of the old revisions are unchanged
  have hnorm_old : ∀ x ∈ R, normalizeOne (phase1Map (h ++ [r]) (pairs (h ++ [r]))) x = normalizeOne (phase1Map h (pairs h)) x := by
    intro x hx
    exact normalizeOne_snoc _ _ n hm1' hold_down x (hold_id x hx)
  -- the list of revisions, labels stripped
  have hcore_m : m.revs.map core = R.map core := by
    have := core_of_strip hrevs
    rw [this]
    simp [core, withN, Function.comp_def, R]
  have hcoreX : (mapX m r (pairs (h ++ [r]))).revs.map core = (phase1Map (h ++ [r]) (pairs (h ++ [r]))).revs.map core := by
    show (m.revs ++ [newRev0 m r (pairs (h ++ [r]))]).map core = _
    rw [hm1', List.map_append, List.map_append, hcore_m]
    congr 1
    simp [core, newRev0, n, p1, hmids]
  have hnd_new : normalizeOne (mapX m r (pairs (h ++ [r]))) (newRev0 m r (pairs (h ++ [r]))) =
      normalizeOne (phase1Map (h ++ [r]) (pairs (h ++ [r]))) n :=
    normalizeOne_congr hcoreX _ _ rfl (by simp [newRev0, n, p1, hmids])
  have hstrip : (mapY m r (pairs (h ++ [r]))).revs.map strip =
      ((R ++ [n]).map (withN (phase1Map (h ++ [r]) (pairs (h ++ [r]))))).map strip := by
    show (m.revs ++ [newRev1 m r (pairs (h ++ [r]))]).map strip = _
    rw [List.map_append, List.map_append, List.map_append, hrevs]
    congr 1
    · congr 1
      apply List.map_congr_left
      intro x hx
      simp only [withN]
      rw [hnorm_old x hx]
    · simp only [List.map_cons, List.map_nil, List.cons.injEq, and_true]
      simp only [newRev1, hnd_new, withN]
      simp [strip, newRev0, n, p1, hmids]
  have hcore_add : (m.revs ++ [newRev1 m r (pairs (h ++ [r]))]).map core = (R ++ [n]).map core := by
    have h1 := core_of_strip hstrip
    rw [show (mapY m r (pairs (h ++ [r]))).revs = m.revs ++ [newRev1 m r (pairs (h ++ [r]))] from rfl] at h1
    rw [h1]
    simp [core, withN, Function.comp_def, R, n]
  have hrevs_eq : (addCore m r (pairs (h ++ [r]))).revs = mf.revs := by
    rw [addCore_revs, hmfrevs]
    apply addBranches_congr
    rw [hstrip, withNorm_revs]
    show _ = ((phase1Revs (h ++ [r]) (pairs (h ++ [r]))).map _).map strip
    rw [hsn]
    rfl
  have hn_down : n.down = r.down := rfl
  have hn_allDown : n.allDown = dedupe (r.down ++ resolveDeps (h.map (·.id)) (pairs h) r.deps) := by
    simp [n, p1, LRev.allDown, hrd]
  have hnew1_allDown : (newRev1 m r (pairs (h ++ [r]))).allDown = n.allDown := by
    simp [newRev1, newRev0, n, p1, LRev.allDown, hmids]
  apply view_eq _ _ hrevs_eq
  · rw [addCore_labelKeys, hlk']
  · -- heads
    rw [addCore_heads, hheads', phase1Map_heads, hsn, nxg_down_core hcore_add]
    rw [headsG_snoc (·.down) R n hold_down hnew_down hold_id]
    have he : nxg (·.down) (R ++ [n]) r.id = [] := by
      apply nxg_empty
      intro y hy
      rcases List.mem_append.mp hy with hy | hy
      · exact hold_down y hy
      · simp at hy; subst hy; exact hnew_down
    rw [he, hheads, phase1Map_heads]
    rfl
  · -- real heads
    have hn_ad : r.id ∉ n.allDown := by
      rw [hn_allDown, mem_dedupe, List.mem_append]
      rintro (h1 | h1)
      · exact hnew_down h1
      · exact hnew_rdeps h1
    have hold_ad : ∀ y ∈ R, r.id ∉ LRev.allDown y := by
      intro y hy
      unfold LRev.allDown
      rw [mem_dedupe, List.mem_append]
      rintro (h1 | h1)
      · exact hold_down y hy h1
      · exact hold_rdeps y hy h1
    rw [addCore_realHeads, hrheads', phase1Map_realHeads, hsn, nxg_allDown_core hcore_add]
    rw [headsG_snoc LRev.allDown R n hold_ad hn_ad hold_id]
    have he : nxg LRev.allDown (R ++ [n]) r.id = [] := by
      apply nxg_empty
      intro y hy
      rcases List.mem_append.mp hy with hy | hy
      · exact hold_ad y hy
      · simp at hy; subst hy; exact hn_ad
    rw [he, hrheads, phase1Map_realHeads, hnew1_allDown]
    rfl
  · -- bases
    rw [addCore_bases, hbases', hbases]
    simp only [phase1Map, List.filter_append, List.map_append]
    by_cases hb : r.down.isEmpty = true <;> simp [List.filter, hb]
  · -- real bases
    rw [addCore_realBases, hrbases', hrbases]
    simp only [phase1Map, List.filter_append, List.map_append]
    by_cases hb1 : r.down = [] <;> by_cases hb2 : r.deps = [] <;> simp [List.filter, hb1, hb2]


end Lemmas.Gen
