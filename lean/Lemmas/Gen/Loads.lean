import Lemmas.Gen.Incremental
import Lemmas.Rev.Cycles
/-! # The extended history loads (discharges the load hypothesis of `C17.incremental`) -/
namespace Lemmas.Gen
open Model.Rev Model.Gen

theorem forM_snoc_intro (f : Rev → Except Err Unit) : ∀ (L : List Rev) (r : Rev),
    L.forM f = .ok () → f r = .ok () → (L ++ [r]).forM f = .ok () := by
  intro L
  induction L with
  | nil =>
    intro r _ hr
    rw [List.nil_append, forM_cons_eq]
    simp [bind, Except.bind, hr]
    rfl
  | cons x L ih =>
    intro r h hr
    rw [forM_cons_eq] at h
    rw [List.cons_append, forM_cons_eq]
    simp only [bind, Except.bind] at h ⊢
    split at h
    · simp at h
    · exact ih r h hr

theorem addLabelKeys_intro (I : List Id) (rid : Id) : ∀ (ls : List String) (acc : List (String × Id)),
    ls.Nodup → (∀ l ∈ ls, l ∉ I ∧ acc.any (·.1 == l) = false) →
    addLabelKeys I rid ls acc = .ok (acc ++ ls.map (fun l => (l, rid))) := by
  intro ls
  induction ls with
  | nil => intro acc _ _; simp [addLabelKeys]
  | cons l ls ih =>
    intro acc hn hf
    have hl := hf l (by simp)
    simp only [addLabelKeys, hl.1, hl.2, false_or, Bool.false_eq_true, ↓reduceIte]
    rw [List.nodup_cons] at hn
    rw [ih (acc ++ [(l, rid)]) hn.2]
    · simp
    · intro l' hl'
      have h' := hf l' (by simp [hl'])
      refine ⟨h'.1, ?_⟩
      have hne : l ≠ l' := by intro e; subst e; exact hn.1 hl'
      simp [List.any_append, h'.2, hne]

theorem addLabelKeys_ids_ext (I : List Id) (x : String) (rid : Id) : ∀ (ls : List String) (acc K : List (String × Id)),
    addLabelKeys I rid ls acc = .ok K → x ∉ ls → addLabelKeys (I ++ [x]) rid ls acc = .ok K := by
  intro ls
  induction ls with
  | nil => intro acc K h _; simpa [addLabelKeys] using h
  | cons l ls ih =>
    intro acc K h hx
    simp only [addLabelKeys] at h ⊢
    split at h
    · simp at h
    · rename_i hc
      have hlx : l ≠ x := by intro e; subst e; simp at hx
      have : ¬ (l ∈ I ++ [x] ∨ acc.any (·.1 == l) = true) := by
        intro hh
        apply hc
        rcases hh with hh | hh
        · simp [hlx] at hh; exact Or.inl hh
        · exact Or.inr hh
      simp only [this, ↓reduceIte]
      exact ih _ _ h (by intro hm; exact hx (by simp [hm]))

theorem mapBranchLabels_ids_ext (I : List Id) (x : String) : ∀ (L : List Rev) (acc K : List (String × Id)),
    mapBranchLabels I L acc = .ok K → (∀ r0 ∈ L, x ∉ r0.labels) → mapBranchLabels (I ++ [x]) L acc = .ok K := by
  intro L
  induction L with
  | nil => intro acc K h _; simpa [mapBranchLabels] using h
  | cons r0 L ih =>
    intro acc K h hx
    simp only [mapBranchLabels] at h ⊢
    split at h
    · simp at h
    · rename_i acc' hacc
      rw [addLabels_eq] at hacc
      rw [addLabels_eq, addLabelKeys_ids_ext I x r0.id r0.labels acc acc' hacc (hx r0 (by simp))]
      exact ih _ _ h (fun r1 hr1 => hx r1 (by simp [hr1]))

theorem mapBranchLabels_snoc_intro (I : List Id) (r : Rev) : ∀ (L : List Rev) (acc K0 K : List (String × Id)),
    mapBranchLabels I L acc = .ok K0 → addLabelKeys I r.id r.labels K0 = .ok K →
    mapBranchLabels I (L ++ [r]) acc = .ok K := by
  intro L
  induction L with
  | nil =>
    intro acc K0 K h h2
    simp only [mapBranchLabels, Except.ok.injEq] at h
    subst h
    simp only [List.nil_append, mapBranchLabels, addLabels_eq, h2]
  | cons x L ih =>
    intro acc K0 K h h2
    simp only [List.cons_append, mapBranchLabels] at h ⊢
    split at h
    · simp at h
    · exact ih _ _ _ h h2

theorem le_sum_of_mem (f : Id → Nat) : ∀ (l : List Id) (p : Id), p ∈ l → f p ≤ (l.map f).sum := by
  intro l
  induction l with
  | nil => intro p hp; simp at hp
  | cons a l ih =>
    intro p hp
    simp only [List.map_cons, List.sum_cons]
    rcases List.mem_cons.mp hp with rfl | hp
    · omega
    · have := ih p hp; omega

theorem allDownOf_core {M M' : LMap} (h : M.revs.map core = M'.revs.map core) : M.allDownOf = M'.allDownOf := by
  funext i
  have := find_core i M.revs M'.revs h
  unfold LMap.allDownOf LMap.get?
  cases h1 : M.revs.find? (·.id == i) <;> cases h2 : M'.revs.find? (·.id == i) <;> simp [h1, h2, core] at this ⊢
  simp [LRev.allDown, this.2.1, this.2.2]


theorem loads_ext (h : Hist) (r : Rev) (m : LMap) (hl : load h = .ok m) (hu : (h.map (·.id)).Nodup)
    (hd : ∀ r0 ∈ h, ∀ d ∈ r0.down, d ∈ h.map (·.id))
    (hid : hasKey m r.id = false) (hcr : checkRev r = .ok ()) (hdown : ∀ d ∈ r.down, d ∈ m.ids)
    (hdeps : ∀ d ∈ r.deps, hasKey m d = true) (hlab : ∀ l ∈ r.labels, hasKey m l = false ∧ l ≠ r.id)
    (hnd : r.labels.Nodup) : ∃ mf, load (h ++ [r]) = .ok mf := by
  obtain ⟨hchk, hmiss, hK, _, hrevs, hlk, _, _, _, _⟩ := loaded_shape h m hl
  obtain ⟨hidI, hidK⟩ := hasKey_false m r.id hid
  rw [hlk] at hidK
  have hmids : m.ids = h.map (·.id) := by rw [ids_of_strip m _ _ hrevs, p1_ids]
  rw [hmids] at hidI hdown
  have hI' : (h ++ [r]).map (·.id) = h.map (·.id) ++ [r.id] := by simp
  -- 1. the Revision objects can be built
  have hchk' : (h ++ [r]).forM checkRev = .ok () := forM_snoc_intro checkRev h r hchk hcr
  -- 2. the label keys
  have hx : ∀ r0 ∈ h.filter (fun r => r.labels ≠ []), r.id ∉ r0.labels := by
    intro r0 hr0 hmem
    have : (pairs h).any (·.1 == r.id) = true := by
      rw [List.any_eq_true]
      refine ⟨(r.id, r0.id), ?_, by simp⟩
      simp only [pairs, pairsOf, List.mem_flatMap, List.mem_map]
      exact ⟨r0, (List.mem_filter.mp hr0).1, r.id, hmem, rfl⟩
    rw [this] at hidK; simp at hidK
  have h0 := mapBranchLabels_ids_ext _ r.id _ _ _ hK hx
  have hK' : mapBranchLabels (h.map (·.id) ++ [r.id]) ((h ++ [r]).filter (fun r => r.labels ≠ [])) [] =
      .ok (pairs (h ++ [r])) := by
    by_cases hlb : r.labels = []
    · have e1 : (h ++ [r]).filter (fun r => r.labels ≠ []) = h.filter (fun r => r.labels ≠ []) := by
        simp [List.filter_append, List.filter, hlb]
      have e2 : pairs (h ++ [r]) = pairs h := by simp [pairs_snoc, pairsOf, hlb]
      rw [e1, e2]; exact h0
    · have e1 : (h ++ [r]).filter (fun r => r.labels ≠ []) = h.filter (fun r => r.labels ≠ []) ++ [r] := by
        simp [List.filter_append, List.filter, hlb]
      rw [e1, pairs_snoc]
      apply mapBranchLabels_snoc_intro _ r _ _ _ _ h0
      apply addLabelKeys_intro _ _ _ _ hnd
      intro l hlm
      obtain ⟨hk, hne⟩ := hlab l hlm
      obtain ⟨h1, h2⟩ := hasKey_false m l hk
      rw [hmids] at h1
      rw [hlk] at h2
      exact ⟨by simp [h1, hne], h2⟩
  -- 3. every reference resolves
  have hdep_old : ∀ d ∈ r.deps, (lookupKey (h.map (·.id)) (pairs h) d).isNone = false := by
    intro d hdm
    have hk := hdeps d hdm
    unfold hasKey at hk
    rw [hmids, hlk] at hk
    unfold lookupKey
    by_cases hdi : d ∈ h.map (·.id)
    · simp [hdi]
    · simp only [hdi, decide_false, Bool.false_or] at hk
      obtain ⟨p, hp, hpe⟩ := List.any_eq_true.mp hk
      simp only [hdi, ↓reduceIte]
      cases hfd : (pairs h).find? (·.1 == d) with
      | none => rw [List.find?_eq_none] at hfd; exact absurd hpe (hfd p hp)
      | some q => simp
  have hmiss' : keysMissing (h ++ [r]) (pairs (h ++ [r])) = false := by
    unfold keysMissing
    rw [List.any_eq_false]
    intro r0 hr0
    simp only [Bool.not_eq_true]
    rw [List.any_eq_false]
    intro d hdm
    rw [hI', pairs_snoc]
    rcases List.mem_append.mp hr0 with hr0 | hr0
    · have := keysMissing_false h _ hmiss r0 hr0 d hdm
      rw [lookupKey_ext _ _ _ _ _ this hidK]; simp [this]
    · simp at hr0; subst hr0
      rcases List.mem_append.mp hdm with hdm | hdm
      · have : d ∈ h.map (·.id) ++ [r0.id] := by simp [hdown d hdm]
        simp [lookupKey, this]
      · have := hdep_old d hdm
        rw [lookupKey_ext _ _ _ _ _ this hidK]; simp [this]
  have h1' : loadPhase1 (h ++ [r]) = .ok (phase1Map (h ++ [r]) (pairs (h ++ [r]))) := by
    have hm2 := hmiss'
    unfold keysMissing at hm2
    unfold loadPhase1
    rw [hI'] at hm2 ⊢
    simp only [hchk', hK', hm2, bind, Except.bind, pure, Except.pure]
    rfl
  -- 4. acyclicity: rank the new revision above everything it points to
  have hL := Lemmas.Rev.loaded_of_load hl hu hd
  obtain ⟨rank, hrank⟩ := hL.ranked
  have hsn := phase1Revs_snoc h r (pairs h) (pairsOf r) hmiss hidK
  rw [← pairs_snoc] at hsn
  let n := p1 (h.map (·.id) ++ [r.id]) (pairs (h ++ [r])) r
  have hrd : resolveDeps (h.map (·.id) ++ [r.id]) (pairs (h ++ [r])) r.deps = resolveDeps (h.map (·.id)) (pairs h) r.deps := by
    rw [pairs_snoc]; exact resolveDeps_ext _ _ _ _ _ hdep_old hidK
  have hn_sub : ∀ p ∈ n.allDown, p ∈ h.map (·.id) := by
    intro p hp
    simp only [n, p1, LRev.allDown, mem_dedupe, List.mem_append, hrd] at hp
    rcases hp with hp | hp
    · exact hdown p hp
    · exact resolveDeps_mem h r.deps p hp
  let rank' : Id → Nat := fun x => if x = r.id then (n.allDown.map rank).sum + 1 else rank x
  have hu' : ((h ++ [r]).map (·.id)).Nodup := by
    rw [hI', List.nodup_append]
    exact ⟨hu, by simp, by intro a ha b hb; simp at hb; subst hb; intro e; subst e; exact hidI ha⟩
  have hd' : ∀ r0 ∈ h ++ [r], ∀ d ∈ r0.down, d ∈ (h ++ [r]).map (·.id) := by
    intro r0 hr0 d hdm
    rw [hI']
    rcases List.mem_append.mp hr0 with hr0 | hr0
    · simp [hd r0 hr0 d hdm]
    · simp at hr0; subst hr0; simp [hdown d hdm]
  have G := Lemmas.Rev.graphFacts_of_phase1 {} h1' hu' hd'
  have hcore_m : m.revs.map core = (phase1Map h (pairs h)).revs.map core := by
    have := core_of_strip hrevs
    rw [this]
    simp [core, withN, Function.comp_def, phase1Map]
  have hall_m : m.allDownOf = (phase1Map h (pairs h)).allDownOf := allDownOf_core hcore_m
  have hm1' : (phase1Map (h ++ [r]) (pairs (h ++ [r]))).revs = (phase1Map h (pairs h)).revs ++ [n] := hsn
  have hcoreW : (withNorm {} (phase1Map (h ++ [r]) (pairs (h ++ [r])))).revs.map core =
      (phase1Map (h ++ [r]) (pairs (h ++ [r]))).revs.map core := by
    rw [withNorm_revs]; simp [core, Function.comp_def]
  have hdc : detectCycles (withNorm {} (phase1Map (h ++ [r]) (pairs (h ++ [r])))) = .ok () := by
    apply Lemmas.Rev.detect_ok_of_ranked G rank'
    intro i p hp
    rw [allDownOf_core hcoreW] at hp
    by_cases hi : i = r.id
    · subst hi
      have hg : (phase1Map (h ++ [r]) (pairs (h ++ [r]))).get? r.id = some n := by
        unfold LMap.get?
        rw [hm1', List.find?_append]
        have hnone : (phase1Map h (pairs h)).revs.find? (·.id == r.id) = none := by
          rw [List.find?_eq_none]
          intro x hx he
          apply hidI
          simp only [beq_iff_eq] at he
          rw [← he, ← p1_ids h (pairs h)]
          exact List.mem_map_of_mem hx
        rw [hnone]
        simp [n, p1]
      have hp' : p ∈ n.allDown := by
        unfold LMap.allDownOf at hp
        rw [hg] at hp
        simpa using hp
      have hpne : p ≠ r.id := fun e => hidI (e ▸ hn_sub p hp')
      have := le_sum_of_mem rank n.allDown p hp'
      simp only [rank', hpne, if_false, if_true]
      omega
    · have hp2 : p ∈ m.allDownOf i := by
        rw [hall_m]
        unfold LMap.allDownOf at hp ⊢
        rw [get?_snoc_ne _ _ n hm1' i hi] at hp
        exact hp
      have hpI : p ∈ h.map (·.id) := by rw [← hmids]; exact hL.refs_closed i p hp2
      have hpne : p ≠ r.id := fun e => hidI (e ▸ hpI)
      simp only [rank', hpne, hi, if_false]
      exact hrank i p hp2
  refine ⟨addBranches (withNorm {} (phase1Map (h ++ [r]) (pairs (h ++ [r])))), ?_⟩
  unfold load
  simp [h1', bind, Except.bind, hdc, pure, Except.pure, normOrderOk]

end Lemmas.Gen
