import Lemmas.Py.Roundtrip
import Spec.Gen
/-! # `reprVal` / `parseVal` round trip (helper lemmas for `C17.repr_*`) -/
namespace Lemmas.Gen
open Model.Py Model.Gen

theorem pyRepr_head (isP : Char → Bool) (s : List Char) :
    ∃ q body, pyRepr isP s = q :: body ∧ (q = '\'' ∨ q = '"') :=
  ⟨chooseQuote s, _, rfl, chooseQuote_cases s⟩

theorem reprTail_length (isP : Char → Bool) (xs : List (List Char)) (rest : List Char) :
    xs.length < (reprTail isP xs ++ rest).length + 1 := by
  induction xs with
  | nil => simp
  | cons x r ih => simp [reprTail] at ih ⊢; omega

/-- the elements after the first, closed by `cl`, are read back -/
theorem parseTail_reprTail (isP : Char → Bool) (cl : Char) (hcl : cl = ')' ∨ cl = ']') :
    ∀ (xs : List (List Char)) (fuel : Nat) (rest : List Char), xs.length < fuel →
      parseTail cl fuel (reprTail isP xs ++ cl :: rest) = some (xs, rest) := by
  intro xs
  induction xs with
  | nil =>
    intro fuel rest hf
    cases fuel with
    | zero => omega
    | succ f => simp [reprTail, parseTail]
  | cons x r ih =>
    intro fuel rest hf
    cases fuel with
    | zero => omega
    | succ f =>
      have hc1 : (',' : Char) ≠ cl := by rcases hcl with h | h <;> (subst h; decide)
      have hc2 : (' ' : Char) ≠ cl := by rcases hcl with h | h <;> (subst h; decide)
      have hlen : r.length < f := by simp at hf; omega
      simp only [reprTail, List.cons_append, List.append_assoc, parseTail, hc1, hc2, ↓reduceIte]
      rw [Py.repr_roundtrip_append]
      simp only [ih f rest hlen]

theorem parseTail_trailing (fuel : Nat) (rest : List Char) :
    parseTail ')' (fuel + 1) (',' :: ')' :: rest) = some ([], rest) := by
  simp [parseTail]

/-- a string literal is not mistaken for `None`, `(`, `[` -/
theorem parseValPrefix_str (isP : Char → Bool) (s rest : List Char) :
    parseValPrefix (pyRepr isP s ++ rest) = some (.str s, rest) := by
  obtain ⟨q, body, hq, hq'⟩ := pyRepr_head isP s
  have h := Py.repr_roundtrip_append isP s rest
  rw [hq] at h ⊢
  simp only [List.cons_append] at h ⊢
  rcases hq' with rfl | rfl <;> simp [parseValPrefix, h]

theorem parseValPrefix_reprVal (isP : Char → Bool) (v : PyVal) (rest : List Char) :
    parseValPrefix (reprVal isP v ++ rest) = some (v, rest) := by
  match v with
  | .none => simp [reprVal, parseValPrefix]
  | .str s => simpa [reprVal] using parseValPrefix_str isP s rest
  | .tuple [] => simp [reprVal, parseValPrefix]
  | .list [] => simp [reprVal, parseValPrefix]
  | .tuple [x] =>
    obtain ⟨q, body, hq, hq'⟩ := pyRepr_head isP x
    have h := Py.repr_roundtrip_append isP x (',' :: ')' :: rest)
    have e : reprVal isP (.tuple [x]) ++ rest = '(' :: (pyRepr isP x ++ (',' :: ')' :: rest)) := by
      simp [reprVal]
    rw [e]
    rw [hq] at h ⊢
    simp only [List.cons_append] at h ⊢
    rcases hq' with rfl | rfl <;> simp [parseValPrefix, h, parseTail]
  | .tuple (x :: y :: r) =>
    obtain ⟨q, body, hq, hq'⟩ := pyRepr_head isP x
    have h := Py.repr_roundtrip_append isP x (reprTail isP (y :: r) ++ ')' :: rest)
    have e : reprVal isP (.tuple (x :: y :: r)) ++ rest = '(' :: (pyRepr isP x ++ (reprTail isP (y :: r) ++ ')' :: rest)) := by
      simp [reprVal]
    have ht := parseTail_reprTail isP ')' (Or.inl rfl) (y :: r) ((reprTail isP (y :: r) ++ ')' :: rest).length + 1) rest
      (reprTail_length isP (y :: r) (')' :: rest))
    simp only [List.length_append, List.length_cons] at ht
    rw [e]
    rw [hq] at h ⊢
    simp only [List.cons_append] at h ⊢
    rcases hq' with rfl | rfl <;> simp [parseValPrefix, h, ht] <;> simp [reprTail]
  | .list (x :: r) =>
    obtain ⟨q, body, hq, hq'⟩ := pyRepr_head isP x
    have h := Py.repr_roundtrip_append isP x (reprTail isP r ++ ']' :: rest)
    have e : reprVal isP (.list (x :: r)) ++ rest = '[' :: (pyRepr isP x ++ (reprTail isP r ++ ']' :: rest)) := by
      simp [reprVal]
    have ht := parseTail_reprTail isP ']' (Or.inr rfl) r ((reprTail isP r ++ ']' :: rest).length + 1) rest
      (reprTail_length isP r (']' :: rest))
    simp only [List.length_append, List.length_cons] at ht
    rw [e]
    rw [hq] at h ⊢
    simp only [List.cons_append] at h ⊢
    rcases hq' with rfl | rfl <;> simp [parseValPrefix, h, ht]

end Lemmas.Gen
