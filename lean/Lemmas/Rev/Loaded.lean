import Lemmas.Rev.Closure
import Model.Rev.Plan
/-!
# What is known about a revision map that loaded

`load h o = .ok m` is unpacked into facts about `m` (`Loaded`), and acyclicity of the
loaded graph is derived from the `_revisions_in_cycles` check (`peel`).
-/
namespace Lemmas.Rev
open Model.Rev Spec.Rev

/-! ## `dedupe` -/

theorem mem_dedupe {x : String} : ∀ {l : List String}, x ∈ dedupe l ↔ x ∈ l
  | [] => by simp [dedupe]
  | y :: r => by
    simp only [dedupe, List.mem_cons, List.mem_filter]
    have ih := @mem_dedupe x r
    constructor
    · rintro (h | ⟨h, _⟩)
      · exact Or.inl h
      · exact Or.inr (ih.mp h)
    · rintro (h | h)
      · exact Or.inl h
      · by_cases e : x = y
        · exact Or.inl e
        · exact Or.inr ⟨ih.mpr h, by simpa using e⟩

theorem dedupe_nodup : ∀ (l : List String), (dedupe l).Nodup
  | [] => by simp [dedupe]
  | y :: r => by
    simp only [dedupe]
    refine List.nodup_cons.mpr ⟨?_, (dedupe_nodup r).filter _⟩
    simp

/-! ## lookups in a map -/

theorem get?_none_of_not_mem (m : LMap) (i : Id) (h : i ∉ m.ids) : m.get? i = none := by
  unfold LMap.get?
  rw [List.find?_eq_none]
  intro r hr
  simp
  intro e
  apply h
  unfold LMap.ids
  exact List.mem_map.mpr ⟨r, hr, e⟩

theorem get?_some_mem (m : LMap) (i : Id) (r : LRev) (h : m.get? i = some r) : r ∈ m.revs ∧ r.id = i := by
  unfold LMap.get? at h
  have h1 := List.mem_of_find?_eq_some h
  have h2 := List.find?_some h
  exact ⟨h1, by simpa using h2⟩

theorem normDownOf_nil (m : LMap) (i : Id) (h : i ∉ m.ids) : m.normDownOf i = [] := by
  simp [LMap.normDownOf, get?_none_of_not_mem m i h]

theorem allDownOf_nil (m : LMap) (i : Id) (h : i ∉ m.ids) : m.allDownOf i = [] := by
  simp [LMap.allDownOf, get?_none_of_not_mem m i h]

theorem downOf_nil (m : LMap) (i : Id) (h : i ∉ m.ids) : m.downOf i = [] := by
  simp [LMap.downOf, get?_none_of_not_mem m i h]

theorem nextrev_nil (m : LMap) (i : Id) (h : ∀ r ∈ m.revs, i ∉ r.down) : m.nextrev i = [] := by
  unfold LMap.nextrev
  have : m.revs.filter (fun r => decide (i ∈ r.down)) = [] := by
    rw [List.filter_eq_nil_iff]; intro r hr; simpa using h r hr
  simp [this]

/-- ancestor sets are reachability along normalized down revisions -/
theorem mem_ancestors_iff (m : LMap) (targets : List Id) (x : Id) :
    x ∈ m.ancestors targets ↔ ∃ t ∈ targets, Reach m.normDownOf t x :=
  mem_closureOf_iff m.normDownOf m.ids targets (normDownOf_nil m) x

theorem mem_ancestorsNoDeps_iff (m : LMap) (targets : List Id) (x : Id) :
    x ∈ m.ancestorsNoDeps targets ↔ ∃ t ∈ targets, Reach m.downOf t x :=
  mem_closureOf_iff m.downOf m.ids targets (downOf_nil m) x

/-! ## acyclicity from the peeling check -/

/-- the graph on `nodes` with edges `succ` is acyclic: a rank function exists -/
def Ranked (succ : Id → List Id) (nodes : List Id) : Prop :=
  ∃ rank : Id → Nat, ∀ x ∈ nodes, ∀ p ∈ succ x, p ∈ nodes → rank p < rank x

theorem ranked_of_peel (succ : Id → List Id) : ∀ (fuel : Nat) (l : List Id), peel succ fuel l = [] → Ranked succ l := by
  intro fuel
  induction fuel with
  | zero => intro l h; simp [peel] at h; subst h; exact ⟨fun _ => 0, by simp⟩
  | succ n ih =>
    intro l h
    simp only [peel] at h
    split at h
    · subst h; exact ⟨fun _ => 0, by simp⟩
    · obtain ⟨rank', hr⟩ := ih _ h
      refine ⟨fun x => if x ∈ peelOnce succ l then rank' x + 1 else 0, ?_⟩
      intro x hx p hp hpl
      have hxnext : x ∈ peelOnce succ l := by
        unfold peelOnce
        rw [List.mem_filter]
        exact ⟨hx, by simpa using ⟨p, hp, hpl⟩⟩
      simp only [hxnext, if_true]
      by_cases hpn : p ∈ peelOnce succ l
      · simp only [hpn, if_true]
        have := hr x hxnext p hp hpn
        omega
      · simp [hpn]


/-! ## updating revisions without touching the graph -/

theorem get?_mapRevs (m : LMap) (f : LRev → LRev) (hid : ∀ r, (f r).id = r.id) (i : Id) :
    ({ m with revs := m.revs.map f } : LMap).get? i = (m.get? i).map f := by
  unfold LMap.get?
  simp only [List.find?_map]
  congr 1
  have : ((fun x : LRev => x.id == i) ∘ f) = (fun x : LRev => x.id == i) := by
    funext r; simp [hid]
  rw [this]

theorem ids_mapRevs (m : LMap) (f : LRev → LRev) (hid : ∀ r, (f r).id = r.id) :
    ({ m with revs := m.revs.map f } : LMap).ids = m.ids := by
  simp [LMap.ids, List.map_map, Function.comp_def, hid]

/-- `f` keeps id, down revisions and resolved dependencies -/
def KeepsGraph (f : LRev → LRev) : Prop := ∀ r, (f r).id = r.id ∧ (f r).down = r.down ∧ (f r).rdeps = r.rdeps

theorem downOf_mapRevs (m : LMap) (f : LRev → LRev) (hk : KeepsGraph f) (i : Id) :
    ({ m with revs := m.revs.map f } : LMap).downOf i = m.downOf i := by
  unfold LMap.downOf
  rw [get?_mapRevs m f (fun r => (hk r).1)]
  cases m.get? i <;> simp [(hk _).2.1]

theorem allDownOf_mapRevs (m : LMap) (f : LRev → LRev) (hk : KeepsGraph f) (i : Id) :
    ({ m with revs := m.revs.map f } : LMap).allDownOf i = m.allDownOf i := by
  unfold LMap.allDownOf
  rw [get?_mapRevs m f (fun r => (hk r).1)]
  cases m.get? i <;> simp [LRev.allDown, (hk _).2.1, (hk _).2.2]

theorem nextrev_mapRevs (m : LMap) (f : LRev → LRev) (hk : KeepsGraph f) (i : Id) :
    ({ m with revs := m.revs.map f } : LMap).nextrev i = m.nextrev i := by
  unfold LMap.nextrev
  simp only [List.filter_map, List.map_map]
  congr 1
  · funext r; simp [(hk r).1]
  · congr 1; funext r; simp [(hk r).2.1]

theorem allNextrev_mapRevs (m : LMap) (f : LRev → LRev) (hk : KeepsGraph f) (i : Id) :
    ({ m with revs := m.revs.map f } : LMap).allNextrev i = m.allNextrev i := by
  unfold LMap.allNextrev
  simp only [List.filter_map, List.map_map]
  congr 1
  · funext r; simp [(hk r).1]
  · congr 1; funext r
    have e : (f r).allDown = r.allDown := by simp [LRev.allDown, (hk r).2.1, (hk r).2.2]
    simp only [Function.comp, e]

theorem normDownOf_mapRevs (m : LMap) (f : LRev → LRev) (hk : KeepsGraph f) (hn : ∀ r, (f r).ndeps = r.ndeps) (i : Id) :
    ({ m with revs := m.revs.map f } : LMap).normDownOf i = m.normDownOf i := by
  unfold LMap.normDownOf
  rw [get?_mapRevs m f (fun r => (hk r).1)]
  cases m.get? i <;> simp [LRev.normDown, (hk _).2.1, hn]


/-! ## unpacking `load` -/

theorem phase1_ok {h : Hist} {m1 : LMap} (hl : loadPhase1 h = .ok m1) :
    ∃ labelKeys, mapBranchLabels (h.map (·.id)) (h.filter (fun r => r.labels ≠ [])) [] = .ok labelKeys ∧
      (∀ r ∈ h, ∀ d ∈ r.down ++ r.deps, (lookupKey (h.map (·.id)) labelKeys d).isSome) ∧
      m1.revs = phase1Revs h labelKeys ∧ m1.labelKeys = labelKeys := by
  unfold loadPhase1 at hl
  simp only [bind, Except.bind] at hl
  split at hl
  · simp at hl
  · split at hl
    · simp at hl
    · rename_i lk hlk
      split at hl
      · simp [throw, throwThe, MonadExceptOf.throw] at hl
      · rename_i hchk
        simp [pure, Except.pure] at hl
        refine ⟨lk, hlk, ?_, ?_, ?_⟩
        · intro r hr d hd
          simp at hchk
          rcases List.mem_append.mp hd with h1 | h1
          · have := (hchk r hr).1 d h1
            cases hq : lookupKey (List.map (fun x => x.id) h) lk d <;> simp_all
          · have := (hchk r hr).2 d h1
            cases hq : lookupKey (List.map (fun x => x.id) h) lk d <;> simp_all
        · rw [← hl]
        · rw [← hl]

theorem forM_checkRev_ok : ∀ (h : Hist), h.forM checkRev = .ok () → ∀ r ∈ h, checkRev r = .ok ()
  | [], _ => by simp
  | a :: rest, hok => by
    simp only [List.forM, bind, Except.bind] at hok
    cases ha : checkRev a with
    | error e => simp [ha] at hok
    | ok u =>
      simp only [ha] at hok
      intro r hr
      rcases List.mem_cons.mp hr with e | hr'
      · subst e; exact ha
      · exact forM_checkRev_ok rest hok r hr'

/-- every revision of a history whose first load phase succeeds passed `Revision.__init__`
    (no self-loop, no `@`, `-`, `+` in its id) -/
theorem phase1_checked {h : Hist} {m1 : LMap} (hl : loadPhase1 h = .ok m1) : ∀ r ∈ h, checkRev r = .ok () := by
  unfold loadPhase1 at hl
  simp only [bind, Except.bind] at hl
  cases hf : h.forM checkRev with
  | error e => simp [hf] at hl
  | ok u => exact forM_checkRev_ok h hf

theorem checkRev_legal {r : Rev} (h : checkRev r = .ok ()) : ∀ c ∈ r.id.toList, c ∉ illegalChars := by
  unfold checkRev at h
  split at h
  · simp at h
  · split at h
    · simp at h
    · split at h
      · simp at h
      · rename_i hany
        intro c hc hill
        apply hany
        simp only [List.any_eq_true, decide_eq_true_eq]
        exact ⟨c, hc, hill⟩

/-- label keys point to revision ids of the history -/
theorem mapBranchLabels_vals (ids : List Id) : ∀ (revs : List Rev) (acc out : List (String × Id)),
    (∀ r ∈ revs, r.id ∈ ids) → (∀ e ∈ acc, e.2 ∈ ids) →
    mapBranchLabels ids revs acc = .ok out → ∀ e ∈ out, e.2 ∈ ids := by
  intro revs
  induction revs with
  | nil => intro acc out _ hacc h; simp [mapBranchLabels] at h; subst h; exact hacc
  | cons r rest ih =>
    intro acc out hr hacc h
    simp only [mapBranchLabels] at h
    split at h
    · simp at h
    · rename_i acc' hadd
      refine ih acc' out (fun x hx => hr x (List.mem_cons_of_mem _ hx)) ?_ h
      -- addLabels only appends entries for `r.id`
      have hrid : r.id ∈ ids := hr r List.mem_cons_self
      have key : ∀ (ls : List String) (a a' : List (String × Id)), (∀ e ∈ a, e.2 ∈ ids) →
          mapBranchLabels.addLabels ids r ls a = .ok a' → ∀ e ∈ a', e.2 ∈ ids := by
        intro ls
        induction ls with
        | nil => intro a a' ha h; simp [mapBranchLabels.addLabels] at h; subst h; exact ha
        | cons l ls ih2 =>
          intro a a' ha h
          simp only [mapBranchLabels.addLabels] at h
          split at h
          · simp at h
          · apply ih2 _ _ _ h
            intro e he
            rcases List.mem_append.mp he with h1 | h1
            · exact ha e h1
            · simp at h1; subst h1; exact hrid
      exact key _ _ _ hacc hadd

theorem lookupKey_mem (ids : List Id) (lk : List (String × Id)) (hlk : ∀ e ∈ lk, e.2 ∈ ids) (k : String) (i : Id)
    (h : lookupKey ids lk k = some i) : i ∈ ids := by
  unfold lookupKey at h
  split at h
  · simp at h; subst h; assumption
  · cases hf : lk.find? (·.1 == k) with
    | none => simp [hf] at h
    | some e =>
      simp [hf] at h; subst h
      exact hlk e (List.mem_of_find?_eq_some hf)

theorem load_ok {h : Hist} {o : LoadOpts} {m : LMap} (hl : load h o = .ok m) :
    ∃ m1, loadPhase1 h = .ok m1 ∧ detectCycles (withNorm o m1) = .ok () ∧ m = addBranches (withNorm o m1) := by
  unfold load at hl
  cases h1 : loadPhase1 h with
  | error e => simp [h1, bind, Except.bind] at hl
  | ok m1 =>
    simp only [h1, bind, Except.bind] at hl
    split at hl
    · simp [throw, throwThe, MonadExceptOf.throw] at hl
    · split at hl
      · simp at hl
      · rename_i u hdc
        simp [pure, Except.pure] at hl
        exact ⟨m1, rfl, by cases u; exact hdc, hl.symm⟩

/-- with unique ids, looking a revision up by its id finds it -/
theorem find?_id_of_mem {l : List LRev} (hn : (l.map (·.id)).Nodup) {r : LRev} (hr : r ∈ l) :
    l.find? (·.id == r.id) = some r := by
  induction l with
  | nil => simp at hr
  | cons x rest ih =>
    simp only [List.map_cons, List.nodup_cons] at hn
    rcases List.mem_cons.mp hr with e | hr'
    · subst e; simp
    · have hne : x.id ≠ r.id := by
        intro e; apply hn.1; rw [e]; exact List.mem_map.mpr ⟨r, hr', rfl⟩
      simp [hne, ih hn.2 hr']

theorem get?_of_mem (m : LMap) (hn : m.ids.Nodup) {r : LRev} (hr : r ∈ m.revs) : m.get? r.id = some r :=
  find?_id_of_mem hn hr

theorem mem_ids_iff (m : LMap) (i : Id) : i ∈ m.ids ↔ ∃ r ∈ m.revs, r.id = i := by
  simp [LMap.ids]

theorem get?_isSome_of_mem_ids (m : LMap) (i : Id) (h : i ∈ m.ids) : ∃ r, m.get? i = some r := by
  cases hg : m.get? i with
  | some r => exact ⟨r, rfl⟩
  | none =>
    unfold LMap.get? at hg
    rw [List.find?_eq_none] at hg
    obtain ⟨r, hr, e⟩ := (mem_ids_iff m i).mp h
    have := hg r hr; simp [e] at this

theorem nextrev_iff (m : LMap) (hn : m.ids.Nodup) (p x : Id) :
    x ∈ m.nextrev p ↔ x ∈ m.ids ∧ p ∈ m.downOf x := by
  unfold LMap.nextrev LMap.downOf
  simp only [List.mem_map, List.mem_filter, decide_eq_true_eq]
  constructor
  · rintro ⟨r, ⟨hr, hp⟩, e⟩
    subst e
    exact ⟨(mem_ids_iff m r.id).mpr ⟨r, hr, rfl⟩, by simp [get?_of_mem m hn hr, hp]⟩
  · rintro ⟨hx, hp⟩
    obtain ⟨r, hr⟩ := get?_isSome_of_mem_ids m x hx
    obtain ⟨h1, h2⟩ := get?_some_mem m x r hr
    exact ⟨r, ⟨h1, by simpa [hr] using hp⟩, h2⟩

theorem allNextrev_iff (m : LMap) (hn : m.ids.Nodup) (p x : Id) :
    x ∈ m.allNextrev p ↔ x ∈ m.ids ∧ p ∈ m.allDownOf x := by
  unfold LMap.allNextrev LMap.allDownOf
  simp only [List.mem_map, List.mem_filter, decide_eq_true_eq]
  constructor
  · rintro ⟨r, ⟨hr, hp⟩, e⟩
    subst e
    exact ⟨(mem_ids_iff m r.id).mpr ⟨r, hr, rfl⟩, by simp [get?_of_mem m hn hr, hp]⟩
  · rintro ⟨hx, hp⟩
    obtain ⟨r, hr⟩ := get?_isSome_of_mem_ids m x hx
    obtain ⟨h1, h2⟩ := get?_some_mem m x r hr
    exact ⟨r, ⟨h1, by simpa [hr] using hp⟩, h2⟩

theorem isPermOf_mem {given computed : List Id} (h : isPermOf given computed = true) (x : Id) :
    x ∈ given ↔ x ∈ computed := by
  unfold isPermOf at h
  simp only [Bool.and_eq_true, List.all_eq_true, decide_eq_true_eq] at h
  exact ⟨fun hx => h.1.2 x hx, fun hx => h.2 x hx⟩

theorem mem_orderedNorm (o : LoadOpts) (i : Id) (computed : List Id) (x : Id) :
    x ∈ orderedNorm o i computed ↔ x ∈ computed := by
  unfold orderedNorm
  split
  · rfl
  · split
    · rename_i hp; exact isPermOf_mem hp x
    · rfl

theorem addBranches_eq (m : LMap) : ∃ f : LRev → LRev, KeepsGraph f ∧ (∀ r, (f r).ndeps = r.ndeps) ∧
    addBranches m = { m with revs := m.revs.map f } := by
  unfold addBranches
  refine ⟨fun r => { r with labels := dedupe (r.origLabels ++ List.flatMap (fun x => x.snd) (List.filter (fun x => x.fst == r.id)
      (List.flatMap (fun r => List.map (fun x => (x, r.origLabels)) (branchMembers m r.id))
        (List.filter (fun r => decide (r.origLabels ≠ [])) m.revs)))) }, fun r => ⟨rfl, rfl, rfl⟩, fun r => rfl, rfl⟩

theorem withNorm_keeps (o : LoadOpts) (m1 : LMap) :
    KeepsGraph (fun r : LRev => { r with ndeps := orderedNorm o r.id (normalizeOne m1 r) }) :=
  fun r => ⟨rfl, rfl, rfl⟩

/-- `x ∈ normalizeOne m r`: a resolved dependency that no proper down-revision ancestor depends on -/
theorem mem_normalizeOne (m : LMap) (r : LRev) (x : Id) :
    x ∈ normalizeOne m r ↔ x ∈ r.rdeps ∧
      ¬ ∃ a, a ∈ m.ancestorsNoDeps [r.id] ∧ a ≠ r.id ∧ ∃ ra, m.get? a = some ra ∧ x ∈ ra.rdeps := by
  unfold normalizeOne
  split
  · rename_i he
    have : r.rdeps = [] := by simpa using he
    simp [this]
  · simp only [removeAll, List.mem_filter, mem_dedupe, List.mem_flatMap, decide_eq_true_eq]
    constructor
    · rintro ⟨h1, h2⟩
      refine ⟨h1, ?_⟩
      rintro ⟨a, ha, hne, ra, hra, hx⟩
      apply h2
      refine ⟨a, ⟨ha, by simpa using hne⟩, ?_⟩
      simp [hra, hx]
    · rintro ⟨h1, h2⟩
      refine ⟨h1, ?_⟩
      rintro ⟨a, ⟨ha, hne⟩, hx⟩
      apply h2
      cases hra : m.get? a with
      | none => simp [hra] at hx
      | some ra =>
        simp [hra] at hx
        exact ⟨a, ha, by simpa using hne, ra, hra, hx⟩

/-- everything the plan and bookkeeping proofs use about a loaded map -/
structure Loaded (m : LMap) : Prop where
  ids_nodup : m.ids.Nodup
  refs_closed : ∀ i, ∀ p ∈ m.allDownOf i, p ∈ m.ids
  down_sub_norm : ∀ i, ∀ p ∈ m.downOf i, p ∈ m.normDownOf i
  norm_sub_all : ∀ i, ∀ p ∈ m.normDownOf i, p ∈ m.allDownOf i
  norm_drop : ∀ i, ∀ p ∈ m.allDownOf i, p ∉ m.normDownOf i →
    ∃ a, a ≠ i ∧ Reach m.downOf i a ∧ p ∈ m.allDownOf a
  ranked : ∃ rank : Id → Nat, ∀ i, ∀ p ∈ m.allDownOf i, rank p < rank i
  normDown_nodup : ∀ i, (m.normDownOf i).Nodup
  simple : ∀ c, simpleRev m c = true → ∃ d, m.normDownOf c = [d]

/-- what `_detect_cycles` has checked when it returns -/
structure DetectOk (m : LMap) : Prop where
  heads_ne : m.heads ≠ [] ∧ m.bases ≠ []
  reach_down : ∀ i ∈ m.ids, i ∈ m.closure m.downOf m.heads ∧ i ∈ m.closure m.nextrev m.bases
  real_ne : m.realHeads ≠ [] ∧ m.realBases ≠ []
  reach_all : ∀ i ∈ m.ids, i ∈ m.closure m.allDownOf m.realHeads ∧ i ∈ m.closure m.allNextrev m.realBases
  peel_down : peel m.downOf m.ids.length m.ids = []
  peel_all : peel m.allDownOf m.ids.length m.ids = []

theorem detectCycles_ok {m : LMap} (h : detectCycles m = .ok ()) (hne : m.revs ≠ []) : DetectOk m := by
  unfold detectCycles at h
  have : m.revs.isEmpty = false := by cases hr : m.revs <;> simp_all
  simp only [this, Bool.false_eq_true, if_false] at h
  split at h
  · simp at h
  · split at h
    · simp at h
    · split at h
      · simp at h
      · split at h
        · simp at h
        · split at h
          · simp at h
          · split at h
            · simp at h
            · rename_i h1 h2 h3 h4 h5 h6
              refine ⟨?_, ?_, ?_, ?_, by simpa using h5, by simpa using h6⟩
              · simpa [not_or] using h1
              · intro i hi
                simp only [List.any_eq_true, decide_eq_true_eq, not_exists, not_and] at h2
                have := h2 i hi
                exact Classical.byContradiction (fun hn => this (fun a b => hn ⟨a, b⟩))
              · simpa [not_or] using h3
              · intro i hi
                simp only [List.any_eq_true, decide_eq_true_eq, not_exists, not_and] at h4
                have := h4 i hi
                exact Classical.byContradiction (fun hn => this (fun a b => hn ⟨a, b⟩))

/-- the two later phases of `load` keep ids, down revisions and resolved dependencies -/
theorem load_graph {h : Hist} {o : LoadOpts} {m : LMap} (hl : load h o = .ok m) :
    ∃ m1 lk, loadPhase1 h = .ok m1 ∧ m1.revs = phase1Revs h lk ∧
      mapBranchLabels (h.map (·.id)) (h.filter (fun r => r.labels ≠ [])) [] = .ok lk ∧
      (∀ r ∈ h, ∀ d ∈ r.down ++ r.deps, (lookupKey (h.map (·.id)) lk d).isSome) ∧
      detectCycles (withNorm o m1) = .ok () ∧
      m.ids = m1.ids ∧ (∀ i, m.downOf i = m1.downOf i) ∧ (∀ i, m.allDownOf i = m1.allDownOf i) ∧
      (∀ i, m.nextrev i = m1.nextrev i) ∧ (∀ i, m.allNextrev i = m1.allNextrev i) ∧
      (∀ i, m.normDownOf i = (withNorm o m1).normDownOf i) ∧
      (∀ i, m.get? i = none ↔ m1.get? i = none) := by
  obtain ⟨m1, h1, hdc, hm⟩ := load_ok hl
  obtain ⟨lk, hlk, hchk, hrevs, _⟩ := phase1_ok h1
  obtain ⟨f3, hk3, hn3, hm3⟩ := addBranches_eq (withNorm o m1)
  have hk2 := withNorm_keeps o m1
  refine ⟨m1, lk, h1, hrevs, hlk, hchk, hdc, ?_, ?_, ?_, ?_, ?_, ?_, ?_⟩
  · rw [hm, hm3, ids_mapRevs _ _ (fun r => (hk3 r).1)]
    exact ids_mapRevs m1 _ (fun r => (hk2 r).1)
  · intro i; rw [hm, hm3, downOf_mapRevs _ _ hk3]; exact downOf_mapRevs m1 _ hk2 i
  · intro i; rw [hm, hm3, allDownOf_mapRevs _ _ hk3]; exact allDownOf_mapRevs m1 _ hk2 i
  · intro i; rw [hm, hm3, nextrev_mapRevs _ _ hk3]; exact nextrev_mapRevs m1 _ hk2 i
  · intro i; rw [hm, hm3, allNextrev_mapRevs _ _ hk3]; exact allNextrev_mapRevs m1 _ hk2 i
  · intro i; rw [hm, hm3, normDownOf_mapRevs _ _ hk3 hn3]
  · intro i
    rw [hm, hm3, get?_mapRevs _ _ (fun r => (hk3 r).1)]
    show Option.map f3 (({ m1 with revs := m1.revs.map _ } : LMap).get? i) = none ↔ _
    rw [get?_mapRevs m1 _ (fun r => (hk2 r).1)]
    cases m1.get? i <;> simp

/-- the revision object phase 1 builds for `r` -/
def p1Rev (h : Hist) (lk : List (String × Id)) (r : Rev) : LRev :=
  { id := r.id, down := r.down, rdeps := resolveDeps (h.map (·.id)) lk r.deps, ndeps := [],
    origLabels := r.labels, labels := r.labels }

theorem phase1Revs_eq (h : Hist) (lk : List (String × Id)) : phase1Revs h lk = h.map (p1Rev h lk) := rfl

theorem p1_get? {h : Hist} {lk : List (String × Id)} {m1 : LMap} (hrevs : m1.revs = phase1Revs h lk)
    (i : Id) (r' : LRev) (hg : m1.get? i = some r') : ∃ r ∈ h, r' = p1Rev h lk r ∧ r.id = i := by
  obtain ⟨hmem, hid⟩ := get?_some_mem m1 i r' hg
  rw [hrevs, phase1Revs_eq] at hmem
  obtain ⟨r, hr, e⟩ := List.mem_map.mp hmem
  exact ⟨r, hr, e.symm, by rw [← hid, ← e]; rfl⟩

theorem withNorm_get? (o : LoadOpts) (m1 : LMap) (i : Id) :
    (withNorm o m1).get? i = (m1.get? i).map (fun r => { r with ndeps := orderedNorm o r.id (normalizeOne m1 r) }) :=
  get?_mapRevs m1 _ (fun r => (withNorm_keeps o m1 r).1) i

theorem loaded_of_load {h : Hist} {o : LoadOpts} {m : LMap} (hl : load h o = .ok m)
    (hu : (h.map (·.id)).Nodup) (hd : ∀ r ∈ h, ∀ d ∈ r.down, d ∈ h.map (·.id)) : Loaded m := by
  obtain ⟨m1, lk, h1, hrevs, hlk, hchk, hdc, hids, hdown, hall, hnext, hanext, hnorm, hnone⟩ := load_graph hl
  have hids1 : m1.ids = h.map (·.id) := by
    simp [LMap.ids, hrevs, phase1Revs, List.map_map, Function.comp_def]
  have hlkv : ∀ e ∈ lk, e.2 ∈ h.map (·.id) :=
    mapBranchLabels_vals (h.map (·.id)) _ [] lk
      (fun r hr => List.mem_map.mpr ⟨r, (List.mem_filter.mp hr).1, rfl⟩) (by simp) hlk
  -- shape of the normalized down revisions
  have hnd : ∀ i r', m1.get? i = some r' →
      m.normDownOf i = dedupe (r'.down ++ orderedNorm o r'.id (normalizeOne m1 r')) := by
    intro i r' hg
    rw [hnorm i]
    simp [LMap.normDownOf, withNorm_get?, hg, LRev.normDown]
  have hndNone : ∀ i, m1.get? i = none → m.normDownOf i = [] := by
    intro i hg; rw [hnorm i]; simp [LMap.normDownOf, withNorm_get?, hg]
  have hrefs : ∀ i, ∀ p ∈ m.allDownOf i, p ∈ m.ids := by
    intro i p hp
    rw [hall i] at hp
    rw [hids, hids1]
    unfold LMap.allDownOf at hp
    cases hg : m1.get? i with
    | none => simp [hg] at hp
    | some r' =>
      obtain ⟨r, hr, e, _⟩ := p1_get? hrevs i r' hg
      simp only [hg, Option.map_some, Option.getD_some, LRev.allDown, mem_dedupe, List.mem_append] at hp
      rcases hp with hp | hp
      · rw [e] at hp; exact hd r hr p hp
      · rw [e] at hp
        simp only [p1Rev, resolveDeps, List.mem_filterMap] at hp
        obtain ⟨k, _, hk⟩ := hp
        exact lookupKey_mem _ lk hlkv k p hk
  refine
    { ids_nodup := by rw [hids, hids1]; exact hu
      refs_closed := hrefs
      down_sub_norm := ?_
      norm_sub_all := ?_
      norm_drop := ?_
      ranked := ?_
      normDown_nodup := ?_
      simple := ?_ }
  · intro i p hp
    rw [hdown i] at hp
    unfold LMap.downOf at hp
    cases hg : m1.get? i with
    | none => simp [hg] at hp
    | some r' =>
      simp [hg] at hp
      rw [hnd i r' hg, mem_dedupe]
      exact List.mem_append_left _ hp
  · intro i p hp
    rw [hall i]
    cases hg : m1.get? i with
    | none => rw [hndNone i hg] at hp; simp at hp
    | some r' =>
      rw [hnd i r' hg, mem_dedupe] at hp
      simp only [LMap.allDownOf, hg, Option.map_some, Option.getD_some, LRev.allDown, mem_dedupe]
      rcases List.mem_append.mp hp with hp | hp
      · exact List.mem_append_left _ hp
      · exact List.mem_append_right _ ((mem_normalizeOne m1 r' p).mp ((mem_orderedNorm o _ _ p).mp hp)).1
  · intro i p hp hnp
    rw [hall i] at hp
    cases hg : m1.get? i with
    | none => simp [LMap.allDownOf, hg] at hp
    | some r' =>
      have hid : r'.id = i := (get?_some_mem m1 i r' hg).2
      simp only [LMap.allDownOf, hg, Option.map_some, Option.getD_some, LRev.allDown, mem_dedupe] at hp
      rw [hnd i r' hg, mem_dedupe] at hnp
      have hpd : p ∉ r'.down := fun h' => hnp (List.mem_append_left _ h')
      have hpr : p ∈ r'.rdeps := by
        rcases List.mem_append.mp hp with h' | h'
        · exact absurd h' hpd
        · exact h'
      have hpn : p ∉ normalizeOne m1 r' := fun h' =>
        hnp (List.mem_append_right _ ((mem_orderedNorm o _ _ p).mpr h'))
      have : ∃ a, a ∈ m1.ancestorsNoDeps [r'.id] ∧ a ≠ r'.id ∧ ∃ ra, m1.get? a = some ra ∧ p ∈ ra.rdeps := by
        apply Classical.byContradiction
        intro hno
        exact hpn ((mem_normalizeOne m1 r' p).mpr ⟨hpr, hno⟩)
      obtain ⟨a, ha, hne, ra, hra, hpa⟩ := this
      refine ⟨a, by rw [← hid]; exact hne, ?_, ?_⟩
      · obtain ⟨t, ht, hreach⟩ := (mem_ancestorsNoDeps_iff m1 [r'.id] a).mp ha
        simp at ht; subst ht
        rw [← hid]
        have : m.downOf = m1.downOf := funext hdown
        rw [this]; exact hreach
      · rw [hall a]
        simp only [LMap.allDownOf, hra, Option.map_some, Option.getD_some, LRev.allDown, mem_dedupe]
        exact List.mem_append_right _ hpa
  · -- acyclicity from the peeling check
    by_cases hne : (withNorm o m1).revs = []
    · refine ⟨fun _ => 0, ?_⟩
      intro i p hp
      have : m.ids = [] := by
        rw [hids]
        have : m1.revs = [] := by simpa [withNorm] using hne
        simp [LMap.ids, this]
      have := hrefs i p hp
      simp_all
    · have hok := detectCycles_ok hdc hne
      have hall2 : (withNorm o m1).allDownOf = m1.allDownOf :=
        funext (allDownOf_mapRevs m1 _ (withNorm_keeps o m1))
      have hids2 : (withNorm o m1).ids = m1.ids := ids_mapRevs m1 _ (fun r => (withNorm_keeps o m1 r).1)
      obtain ⟨rank, hr⟩ := ranked_of_peel _ _ _ hok.peel_all
      refine ⟨rank, ?_⟩
      intro i p hp
      have hpi := hrefs i p hp
      have hi : i ∈ m.ids := by
        apply Classical.byContradiction
        intro hni
        rw [allDownOf_nil m i hni] at hp; simp at hp
      rw [hall2, hids2] at hr
      rw [hids] at hpi hi
      rw [hall i] at hp
      exact hr i hi p hp hpi
  · intro i
    cases hg : m1.get? i with
    | none => rw [hndNone i hg]; simp
    | some r' => rw [hnd i r' hg]; exact dedupe_nodup _
  · intro c hs
    unfold simpleRev at hs
    cases hgm : m.get? c with
    | none => simp [hgm] at hs
    | some rm =>
      simp only [hgm, Bool.and_eq_true, List.isEmpty_iff, beq_iff_eq] at hs
      have : m.normDownOf c = dedupe (rm.down ++ rm.ndeps) := by
        simp [LMap.normDownOf, hgm, LRev.normDown]
      rw [this, hs.1]
      match hdn : rm.down, hs.2 with
      | [d], _ => exact ⟨d, by simp [dedupe]⟩

/-- heads and bases as `load` computes them -/
theorem load_heads {h : Hist} {o : LoadOpts} {m : LMap} (hl : load h o = .ok m) :
    m.heads = (m.ids.filter (fun i => (m.nextrev i).isEmpty)) ∧
    m.realHeads = (m.ids.filter (fun i => (m.allNextrev i).isEmpty)) ∧
    m.bases = (h.filter (fun r => r.down.isEmpty)).map (·.id) ∧
    m.realBases = (h.filter (fun r => r.down.isEmpty ∧ r.deps.isEmpty)).map (·.id) := by
  obtain ⟨m1, lk, h1, hrevs, hlk, hchk, hdc, hids, hdown, hall, hnext, hanext, hnorm, hnone⟩ := load_graph hl
  obtain ⟨m1', h1', hdc', hm⟩ := load_ok hl
  have : m1' = m1 := by rw [h1] at h1'; exact (Except.ok.inj h1').symm
  subst this
  obtain ⟨f3, hk3, hn3, hm3⟩ := addBranches_eq (withNorm o m1')
  have hH : m.heads = m1'.heads := by rw [hm, hm3]; rfl
  have hRH : m.realHeads = m1'.realHeads := by rw [hm, hm3]; rfl
  have hB : m.bases = m1'.bases := by rw [hm, hm3]; rfl
  have hRB : m.realBases = m1'.realBases := by rw [hm, hm3]; rfl
  unfold loadPhase1 at h1
  simp only [bind, Except.bind] at h1
  split at h1
  · simp at h1
  · split at h1
    · simp at h1
    · rename_i lk' hlk'
      split at h1
      · simp [throw, throwThe, MonadExceptOf.throw] at h1
      · simp only [pure, Except.pure, Except.ok.injEq] at h1
        have hnx : ∀ i, m.nextrev i = ({ revs := phase1Revs h lk', labelKeys := lk', heads := [], realHeads := [], bases := [], realBases := [] } : LMap).nextrev i := by
          intro i; rw [hnext i, ← h1]; rfl
        have hanx : ∀ i, m.allNextrev i = ({ revs := phase1Revs h lk', labelKeys := lk', heads := [], realHeads := [], bases := [], realBases := [] } : LMap).allNextrev i := by
          intro i; rw [hanext i, ← h1]; rfl
        have hidsm : m.ids = (phase1Revs h lk').map (·.id) := by rw [hids, ← h1]; rfl
        refine ⟨?_, ?_, ?_, ?_⟩
        · rw [hH, ← h1, hidsm]
          simp only [List.filter_map, Function.comp_def, hnx]
        · rw [hRH, ← h1, hidsm]
          simp only [List.filter_map, Function.comp_def, hanx]
        · rw [hB, ← h1]
        · rw [hRB, ← h1]

end Lemmas.Rev
