import Lemmas.Rev.Closure
import Model.Rev.Plan
/-!
# `_topological_sort` is correct and terminates

Generic in `nd` (normalized down revisions), `ancOf` (ancestor sets), `simple` and a rank
function witnessing acyclicity.  Main results: `topoLoopG_ok`.
-/
namespace Lemmas.Rev
open Model.Rev Spec.Rev

/-- what the proof needs to know about the graph -/
structure TopoCtx (nd : Id → List Id) (ancOf : Id → List Id) (simple : Id → Bool) (rank : Id → Nat) : Prop where
  anc_iff : ∀ x y, y ∈ ancOf x ↔ Reach nd x y
  rank_lt : ∀ x, ∀ p ∈ nd x, rank p < rank x
  simple_single : ∀ c, simple c = true → ∃ d, nd c = [d]
  nd_nodup : ∀ x, (nd x).Nodup

section
variable {nd : Id → List Id} {ancOf : Id → List Id} {simple : Id → Bool} {rank : Id → Nat}

theorem reach_rank_le (C : TopoCtx nd ancOf simple rank) {x y : Id} (h : Reach nd x y) : rank y ≤ rank x := by
  induction h with
  | refl _ => exact Nat.le_refl _
  | step hs _ ih => exact Nat.le_trans ih (Nat.le_of_lt (C.rank_lt _ _ hs))

theorem reach_rank_lt (C : TopoCtx nd ancOf simple rank) {x y : Id} (h : Reach nd x y) (hne : x ≠ y) :
    rank y < rank x := by
  cases h with
  | refl _ => exact absurd rfl hne
  | step hs hr => exact Nat.lt_of_le_of_lt (reach_rank_le C hr) (C.rank_lt _ _ hs)

theorem reach_antisymm (C : TopoCtx nd ancOf simple rank) {x y : Id} (h1 : Reach nd x y) (h2 : Reach nd y x) : x = y := by
  apply Classical.byContradiction
  intro hne
  have a := reach_rank_lt C h1 hne
  have b := reach_rank_le C h2
  omega

/-- a proper ancestor is an ancestor of a parent -/
theorem reach_proper (x y : Id) (h : Reach nd x y) (hne : x ≠ y) : ∃ p ∈ nd x, Reach nd p y := by
  cases h with
  | refl _ => exact absurd rfl hne
  | step hs hr => exact ⟨_, hs, hr⟩

end

/-! ## small list facts -/

theorem nodup_subset_length {l1 l2 : List Id} (hn : l1.Nodup) (hs : ∀ x ∈ l1, x ∈ l2) : l1.length ≤ l2.length := by
  induction l1 generalizing l2 with
  | nil => simp
  | cons x r ih =>
    have hx : x ∈ l2 := hs x List.mem_cons_self
    have hn' := List.nodup_cons.mp hn
    have : r.length ≤ (l2.erase x).length := by
      apply ih hn'.2
      intro y hy
      have hne : y ≠ x := by intro e; subst e; exact hn'.1 hy
      exact (List.mem_erase_of_ne hne).mpr (hs y (List.mem_cons_of_mem _ hy))
    rw [List.length_erase_of_mem hx] at this
    have : 0 < l2.length := List.length_pos_of_mem hx
    simp; omega

theorem filter_ne_length {l : List Id} {c : Id} (hn : l.Nodup) (hc : c ∈ l) :
    (l.filter (· != c)).length + 1 = l.length := by
  induction l with
  | nil => simp at hc
  | cons x r ih =>
    have hn' := List.nodup_cons.mp hn
    by_cases hx : x = c
    · subst hx
      have : r.filter (· != x) = r := by
        apply List.filter_eq_self.mpr
        intro y hy
        have : y ≠ x := by intro e; subst e; exact hn'.1 hy
        simpa using this
      simp [this]
    · have hc' : c ∈ r := by
        rcases List.mem_cons.mp hc with h | h
        · exact absurd h.symm hx
        · exact h
      have := ih hn'.2 hc'
      simp [hx]; omega

theorem mem_filter_ne {l : List Id} {c x : Id} : x ∈ l.filter (· != c) ↔ x ∈ l ∧ x ≠ c := by
  simp

/-- strict decrease of a filter count -/
theorem filter_length_lt {l : List Id} {p q : Id → Bool} (himp : ∀ x, q x = true → p x = true)
    {w : Id} (hw : w ∈ l) (hpw : p w = true) (hqw : q w = false) :
    (l.filter q).length < (l.filter p).length := by
  induction l with
  | nil => simp at hw
  | cons x r ih =>
    have hle : (r.filter q).length ≤ (r.filter p).length := by
      clear ih hw
      induction r with
      | nil => simp
      | cons y r' ih' =>
        simp only [List.filter_cons]
        cases hq : q y
        · cases hp : p y <;> simp <;> omega
        · have := himp y hq; simp [this]; omega
    rcases List.mem_cons.mp hw with h | h
    · subst h
      simp [List.filter_cons, hpw, hqw]; omega
    · have := ih h
      simp only [List.filter_cons]
      cases hq : q x
      · cases hp : p x <;> simp <;> omega
      · have := himp x hq; simp [this]; omega

/-! ## the scan -/

theorem findBlocking_some {c : Id} {idx : Nat} : ∀ (k : Nat) (ancs : List (List Id)) (j : Nat),
    findBlocking c idx k ancs = some j →
    k ≤ j ∧ j ≠ idx ∧ ∃ a, ancs[j - k]? = some a ∧ c ∈ a := by
  intro k ancs
  induction ancs generalizing k with
  | nil => intro j h; simp [findBlocking] at h
  | cons a rest ih =>
    intro j h
    simp only [findBlocking] at h
    split at h
    · rename_i hc
      simp at h; subst h
      simp at hc
      exact ⟨Nat.le_refl _, hc.1, a, by simp, hc.2⟩
    · obtain ⟨h1, h2, a', h3, h4⟩ := ih (k + 1) j h
      refine ⟨by omega, h2, a', ?_, h4⟩
      have : j - k = (j - (k + 1)) + 1 := by omega
      rw [this]; simpa using h3

theorem findBlocking_none {c : Id} {idx : Nat} : ∀ (k : Nat) (ancs : List (List Id)),
    findBlocking c idx k ancs = none →
    ∀ i a, ancs[i]? = some a → i + k ≠ idx → c ∉ a := by
  intro k ancs
  induction ancs generalizing k with
  | nil => intro _ i a h; simp at h
  | cons a0 rest ih =>
    intro h i a hi hne
    simp only [findBlocking] at h
    split at h
    · simp at h
    · rename_i hc
      cases i with
      | zero =>
        simp at hi; subst hi
        simp at hc
        intro hmem
        have := hc (by simpa using hne)
        exact this hmem
      | succ i' =>
        simp at hi
        exact ih (k + 1) h i' a hi (by omega)


/-! ## the loop invariant -/

/-- `t` is a proper descendant of `o` -/
def ProperDesc (nd : Id → List Id) (t o : Id) : Prop := Reach nd t o ∧ t ≠ o

structure TopoInv (nd : Id → List Id) (T0 : List Id) (s : TopoState) : Prop where
  len : s.ancs.length = s.heads.length
  ancs_ok : ∀ (j : Nat) (hd : Id) (a : List Id), s.heads[j]? = some hd → s.ancs[j]? = some a → ∀ y, y ∈ a ↔ Reach nd hd y
  heads_nodup : s.heads.Nodup
  heads_sub : ∀ x ∈ s.heads, x ∈ s.todo
  idx_lt : s.heads ≠ [] → s.idx < s.heads.length
  todo_nodup : s.todo.Nodup
  out_nodup : s.output.Nodup
  disj : ∀ x ∈ s.output, x ∉ s.todo
  cover : ∀ x, x ∈ T0 ↔ x ∈ s.output ∨ x ∈ s.todo
  covered : ∀ t ∈ s.todo, ∃ hd ∈ s.heads, Reach nd hd t
  order : ∀ o ∈ s.output, ∀ t ∈ s.todo, ¬ ProperDesc nd t o
  sorted : s.output.Pairwise (fun a b => ¬ ProperDesc nd b a)

/-- the set handed to the sort is convex -/
def Convex (nd : Id → List Id) (T0 : List Id) : Prop :=
  ∀ t c p, t ∈ T0 → c ∈ T0 → Reach nd c p → Reach nd p t → p ∈ T0

section step
variable {nd : Id → List Id} {ancOf : Id → List Id} {simple : Id → Bool} {rank : Id → Nat}

/-- a switch of the candidate index keeps the invariant -/
theorem inv_switch (T0 : List Id) (s : TopoState) (j : Nat) (hj : j < s.heads.length)
    (inv : TopoInv nd T0 s) : TopoInv nd T0 { s with idx := j } :=
  { inv with idx_lt := fun _ => hj }

/-- everything about an emitting step that does not depend on how the head list is updated -/
structure EmitFacts (nd : Id → List Id) (T0 : List Id) (s : TopoState) (cand : Id) (todo' out' : List Id) : Prop where
  todo_mem : ∀ x, x ∈ todo' ↔ x ∈ s.todo ∧ x ≠ cand
  todo_nodup : todo'.Nodup
  out_mem : ∀ x, x ∈ out' ↔ x ∈ s.output ∨ x = cand
  out_nodup : out'.Nodup
  disj : ∀ x ∈ out', x ∉ todo'
  cover : ∀ x, x ∈ T0 ↔ x ∈ out' ∨ x ∈ todo'
  order : ∀ o ∈ out', ∀ t ∈ todo', ¬ ProperDesc nd t o
  sorted : out'.Pairwise (fun a b => ¬ ProperDesc nd b a)
  /-- remaining nodes below the candidate are below one of its parents that is still to do -/
  below : ∀ t ∈ todo', Reach nd cand t → ∃ p ∈ nd cand, p ∈ todo' ∧ Reach nd p t

theorem emit_facts (C : TopoCtx nd ancOf simple rank) (T0 : List Id) (hconv : Convex nd T0)
    (s : TopoState) (inv : TopoInv nd T0 s) (cand : Id)
    (hc : s.heads[s.idx]? = some cand)
    (hscan : findBlocking cand s.idx 0 s.ancs = none) :
    EmitFacts nd T0 s cand (s.todo.filter (· != cand)) (s.output ++ [cand]) := by
  have hcand_heads : cand ∈ s.heads := List.mem_of_getElem? hc
  have hcand_todo : cand ∈ s.todo := inv.heads_sub _ hcand_heads
  have hcand_out : cand ∉ s.output := fun h => inv.disj _ h hcand_todo
  have todo_mem : ∀ x, x ∈ s.todo.filter (· != cand) ↔ x ∈ s.todo ∧ x ≠ cand := fun x => mem_filter_ne
  have out_mem : ∀ x, x ∈ s.output ++ [cand] ↔ x ∈ s.output ∨ x = cand := by
    intro x; simp
  -- nothing that remains is a proper descendant of the candidate
  have hnodesc : ∀ t ∈ s.todo, t ≠ cand → ¬ ProperDesc nd t cand := by
    intro t ht hne ⟨hreach, _⟩
    obtain ⟨hd, hhd, hr⟩ := inv.covered t ht
    obtain ⟨j, hj⟩ := List.mem_iff_getElem?.mp hhd
    have hjlt : j < s.heads.length := by
      rcases List.getElem?_eq_some_iff.mp hj with ⟨h, _⟩; exact h
    have hjlt' : j < s.ancs.length := by rw [inv.len]; exact hjlt
    obtain ⟨a, ha⟩ : ∃ a, s.ancs[j]? = some a := ⟨s.ancs[j], List.getElem?_eq_getElem hjlt'⟩
    by_cases hji : j = s.idx
    · -- same head: the candidate itself, so t is below the candidate as well: a cycle
      subst hji
      have : hd = cand := by rw [hj] at hc; exact Option.some.inj hc
      subst this
      exact hne (reach_antisymm C hreach hr)
    · have hnot := findBlocking_none 0 s.ancs hscan j a ha (by simpa using hji)
      have : cand ∈ a := (inv.ancs_ok j hd a hj ha cand).mpr (Reach.trans nd hr hreach)
      exact hnot this
  refine
    { todo_mem := todo_mem
      todo_nodup := inv.todo_nodup.filter _
      out_mem := out_mem
      out_nodup := ?_
      disj := ?_
      cover := ?_
      order := ?_
      sorted := ?_
      below := ?_ }
  · rw [List.nodup_append]
    refine ⟨inv.out_nodup, by simp, ?_⟩
    intro a ha b hb
    simp at hb; subst hb
    intro e; subst e; exact hcand_out ha
  · intro x hx hx'
    rcases (out_mem x).mp hx with h | h
    · exact inv.disj x h ((todo_mem x).mp hx').1
    · exact ((todo_mem x).mp hx').2 h
  · intro x
    rw [inv.cover x, out_mem, todo_mem]
    constructor
    · rintro (h | h)
      · exact Or.inl (Or.inl h)
      · by_cases hx : x = cand
        · exact Or.inl (Or.inr hx)
        · exact Or.inr ⟨h, hx⟩
    · rintro ((h | h) | h)
      · exact Or.inl h
      · subst h; exact Or.inr hcand_todo
      · exact Or.inr h.1
  · intro o ho t ht
    have ht' := (todo_mem t).mp ht
    rcases (out_mem o).mp ho with h | h
    · exact inv.order o h t ht'.1
    · subst h; exact hnodesc t ht'.1 ht'.2
  · rw [List.pairwise_append]
    refine ⟨inv.sorted, by simp, ?_⟩
    intro a ha b hb
    simp at hb; subst hb
    exact inv.order a ha b hcand_todo
  · intro t ht hreach
    have ht' := (todo_mem t).mp ht
    obtain ⟨p, hp, hpt⟩ := reach_proper cand t hreach (Ne.symm ht'.2)
    refine ⟨p, hp, ?_, hpt⟩
    -- p lies between t and cand, so it belongs to T0; it cannot have been emitted already
    have hpT0 : p ∈ T0 :=
      hconv t cand p ((inv.cover t).mpr (Or.inr ht'.1)) ((inv.cover cand).mpr (Or.inr hcand_todo))
        (Reach.single nd hp) hpt
    have hpne : p ≠ cand := by
      intro e; subst e
      have := C.rank_lt _ _ hp; omega
    rcases (inv.cover p).mp hpT0 with h | h
    · exact absurd ⟨Reach.single nd hp, Ne.symm hpne⟩ (inv.order p h cand hcand_todo)
    · exact (todo_mem p).mpr ⟨h, hpne⟩


/-- the invariant after an emitting step, given how the new head list looks -/
theorem inv_emit (T0 : List Id) (s : TopoState) (inv : TopoInv nd T0 s) (cand : Id)
    (todo' out' H' : List Id) (A' : List (List Id)) (idx' : Nat) (toAdd : List Id)
    (F : EmitFacts nd T0 s cand todo' out')
    (hToAdd : ∀ x, x ∈ toAdd ↔ x ∈ nd cand ∧ x ∈ todo' ∧ x ∉ s.heads)
    (hlen : A'.length = H'.length)
    (hmem : ∀ x, x ∈ H' ↔ (x ∈ s.heads ∧ x ≠ cand) ∨ x ∈ toAdd)
    (hnodup : H'.Nodup)
    (hancs : ∀ (j : Nat) (hd : Id) (a : List Id), H'[j]? = some hd → A'[j]? = some a → ∀ y, y ∈ a ↔ Reach nd hd y)
    (hidx : H' ≠ [] → idx' < H'.length) :
    TopoInv nd T0 { todo := todo', output := out', heads := H', ancs := A', idx := idx' } := by
  refine
    { len := hlen, ancs_ok := hancs, heads_nodup := hnodup, heads_sub := ?_, idx_lt := hidx
      todo_nodup := F.todo_nodup, out_nodup := F.out_nodup, disj := F.disj, cover := F.cover
      covered := ?_, order := F.order, sorted := F.sorted }
  · intro x hx
    rcases (hmem x).mp hx with ⟨h1, h2⟩ | h
    · exact (F.todo_mem x).mpr ⟨inv.heads_sub x h1, h2⟩
    · exact ((hToAdd x).mp h).2.1
  · intro t ht
    have ht' := (F.todo_mem t).mp ht
    obtain ⟨hd, hhd, hr⟩ := inv.covered t ht'.1
    by_cases hne : hd = cand
    · subst hne
      obtain ⟨p, hp, hpt, hpr⟩ := F.below t ht hr
      by_cases hph : p ∈ s.heads
      · exact ⟨p, (hmem p).mpr (Or.inl ⟨hph, ((F.todo_mem p).mp hpt).2⟩), hpr⟩
      · exact ⟨p, (hmem p).mpr (Or.inr ((hToAdd p).mpr ⟨hp, hpt, hph⟩)), hpr⟩
    · exact ⟨hd, (hmem hd).mpr (Or.inl ⟨hhd, hne⟩), hr⟩

/-! ### the three ways the head list is updated -/

theorem nodup_getElem?_inj {l : List Id} (hn : l.Nodup) {i j : Nat} {x : Id}
    (hi : l[i]? = some x) (hj : l[j]? = some x) : i = j := by
  obtain ⟨hi1, hi2⟩ := List.getElem?_eq_some_iff.mp hi
  obtain ⟨hj1, hj2⟩ := List.getElem?_eq_some_iff.mp hj
  exact (List.getElem_inj (h₀ := hi1) (h₁ := hj1) hn).mp (hi2.trans hj2.symm)

theorem mem_eraseIdx_nodup {l : List Id} (hn : l.Nodup) {k : Nat} {c : Id} (hk : l[k]? = some c) (x : Id) :
    x ∈ l.eraseIdx k ↔ x ∈ l ∧ x ≠ c := by
  rw [List.mem_eraseIdx_iff_getElem?]
  constructor
  · rintro ⟨i, hne, hi⟩
    refine ⟨List.mem_of_getElem? hi, ?_⟩
    intro e; subst e
    exact hne (nodup_getElem?_inj hn hi hk)
  · rintro ⟨hx, hne⟩
    obtain ⟨i, hi⟩ := List.mem_iff_getElem?.mp hx
    refine ⟨i, ?_, hi⟩
    intro e; subst e
    rw [hk] at hi; exact hne (Option.some.inj hi).symm

theorem mem_set_nodup {l : List Id} (hn : l.Nodup) {k : Nat} {c v : Id} (hk : l[k]? = some c) (x : Id) :
    x ∈ l.set k v ↔ (x ∈ l ∧ x ≠ c) ∨ x = v := by
  have hklt : k < l.length := (List.getElem?_eq_some_iff.mp hk).1
  constructor
  · intro hx
    obtain ⟨i, hi⟩ := List.mem_iff_getElem?.mp hx
    rw [List.getElem?_set] at hi
    split at hi
    · rename_i e
      simp at hi; exact Or.inr hi.symm
    · rename_i e
      refine Or.inl ⟨List.mem_of_getElem? hi, ?_⟩
      intro e'; subst e'
      exact e (nodup_getElem?_inj hn hk hi)
  · rintro (⟨hx, hne⟩ | h)
    · obtain ⟨i, hi⟩ := List.mem_iff_getElem?.mp hx
      have : k ≠ i := by
        intro e; subst e; rw [hk] at hi; exact hne (Option.some.inj hi).symm
      apply List.mem_iff_getElem?.mpr
      exact ⟨i, by rw [List.getElem?_set]; simp [this, hi]⟩
    · subst h
      apply List.mem_iff_getElem?.mpr
      exact ⟨k, by rw [List.getElem?_set]; simp [hklt]⟩


theorem nodup_set {l : List Id} (hn : l.Nodup) {v : Id} (hv : v ∉ l) (k : Nat) : (l.set k v).Nodup := by
  induction l generalizing k with
  | nil => simp
  | cons x r ih =>
    have hn' := List.nodup_cons.mp hn
    cases k with
    | zero =>
      simp only [List.set_cons_zero]
      exact List.nodup_cons.mpr ⟨fun h => hv (List.mem_cons_of_mem _ h), hn'.2⟩
    | succ k' =>
      simp only [List.set_cons_succ]
      refine List.nodup_cons.mpr ⟨?_, ih hn'.2 (fun h => hv (List.mem_cons_of_mem _ h)) k'⟩
      intro hx
      rcases List.mem_or_eq_of_mem_set hx with h | h
      · exact hn'.1 h
      · subst h; exact hv List.mem_cons_self

theorem ancs_ok_erase {heads : List Id} {ancs : List (List Id)} (k : Nat)
    (hok : ∀ (j : Nat) (hd : Id) (a : List Id), heads[j]? = some hd → ancs[j]? = some a → ∀ y, y ∈ a ↔ Reach nd hd y) :
    ∀ (j : Nat) (hd : Id) (a : List Id), (heads.eraseIdx k)[j]? = some hd → (ancs.eraseIdx k)[j]? = some a →
      ∀ y, y ∈ a ↔ Reach nd hd y := by
  intro j hd a h1 h2
  rw [List.getElem?_eraseIdx] at h1 h2
  split at h1
  · rename_i hlt; simp [hlt] at h2; exact hok j hd a h1 h2
  · rename_i hlt; simp [hlt] at h2; exact hok (j + 1) hd a h1 h2

theorem ancs_ok_set_append (C : TopoCtx nd ancOf simple rank) {heads : List Id} {ancs : List (List Id)}
    (hlen : ancs.length = heads.length) (k : Nat) (h0 : Id) (a0 : List Id) (rest : List Id)
    (ha0 : ∀ y, y ∈ a0 ↔ Reach nd h0 y)
    (hok : ∀ (j : Nat) (hd : Id) (a : List Id), heads[j]? = some hd → ancs[j]? = some a → ∀ y, y ∈ a ↔ Reach nd hd y) :
    ∀ (j : Nat) (hd : Id) (a : List Id), (heads.set k h0 ++ rest)[j]? = some hd →
      (ancs.set k a0 ++ rest.map ancOf)[j]? = some a → ∀ y, y ∈ a ↔ Reach nd hd y := by
  intro j hd a h1 h2
  by_cases hj : j < heads.length
  · rw [List.getElem?_append_left (by simpa using hj)] at h1
    rw [List.getElem?_append_left (by simpa [hlen] using hj)] at h2
    rw [List.getElem?_set] at h1 h2
    by_cases hkj : k = j
    · subst hkj
      simp [hj, hlen] at h1 h2
      subst h1; subst h2; exact ha0
    · simp [hkj] at h1 h2
      exact hok j hd a h1 h2
  · have hj' : heads.length ≤ j := Nat.le_of_not_lt hj
    rw [List.getElem?_append_right (by simpa using hj')] at h1
    rw [List.getElem?_append_right (by simpa [hlen] using hj')] at h2
    simp only [List.length_set, hlen, List.getElem?_map] at h1 h2
    rw [h1] at h2
    simp at h2; subst h2
    exact C.anc_iff hd

/-- **One loop iteration keeps the invariant.** -/
theorem inv_step (C : TopoCtx nd ancOf simple rank) (T0 : List Id) (hconv : Convex nd T0)
    (s : TopoState) (inv : TopoInv nd T0 s) (hne : s.heads ≠ []) :
    TopoInv nd T0 (topoStepG nd ancOf simple s) := by
  have hidx := inv.idx_lt hne
  obtain ⟨cand, hc⟩ : ∃ c, s.heads[s.idx]? = some c := ⟨s.heads[s.idx], List.getElem?_eq_getElem hidx⟩
  unfold topoStepG
  simp only [hc]
  cases hscan : findBlocking cand s.idx 0 s.ancs with
  | some j =>
    simp only
    obtain ⟨_, _, a, ha, _⟩ := findBlocking_some 0 s.ancs j hscan
    have hj : j < s.heads.length := by
      rw [← inv.len]
      exact (List.getElem?_eq_some_iff.mp (by simpa using ha)).1
    exact inv_switch T0 s j hj inv
  | none =>
    simp only
    have F := emit_facts C T0 hconv s inv cand hc hscan
    have hcand_todo : cand ∈ s.todo := inv.heads_sub _ (List.mem_of_getElem? hc)
    simp only [hcand_todo, if_true]
    have hToAdd : ∀ x, x ∈ (nd cand).filter (fun x => decide (x ∈ s.todo.filter (· != cand)) && decide (x ∉ s.heads)) ↔
        x ∈ nd cand ∧ x ∈ s.todo.filter (· != cand) ∧ x ∉ s.heads := by
      intro x; simp [List.mem_filter]
    have hToAddNodup : ((nd cand).filter (fun x => decide (x ∈ s.todo.filter (· != cand)) && decide (x ∉ s.heads))).Nodup :=
      (C.nd_nodup cand).filter _
    cases htoAdd : (nd cand).filter (fun x => decide (x ∈ s.todo.filter (· != cand)) && decide (x ∉ s.heads)) with
    | nil =>
      simp only
      rw [htoAdd] at hToAdd
      apply inv_emit T0 s inv cand _ _ _ _ _ [] F hToAdd
      · simp [List.length_eraseIdx, inv.len]
      · intro x
        rw [mem_eraseIdx_nodup inv.heads_nodup hc]
        simp
      · exact inv.heads_nodup.sublist (List.eraseIdx_sublist _ _)
      · exact ancs_ok_erase s.idx inv.ancs_ok
      · intro hne'
        have hl : (s.heads.eraseIdx s.idx).length = s.heads.length - 1 := by
          rw [List.length_eraseIdx]; simp [hidx]
        have : 0 < (s.heads.eraseIdx s.idx).length := List.length_pos_iff.mpr hne'
        omega
    | cons h0 rest =>
      simp only
      rw [htoAdd] at hToAdd hToAddNodup
      have hh0 := (hToAdd h0).mp List.mem_cons_self
      have hnd' := List.nodup_cons.mp hToAddNodup
      have hidx' : s.idx < s.ancs.length := by rw [inv.len]; exact hidx
      have hmemH : ∀ x, x ∈ s.heads.set s.idx h0 ++ rest ↔ (x ∈ s.heads ∧ x ≠ cand) ∨ x ∈ h0 :: rest := by
        intro x
        rw [List.mem_append, mem_set_nodup inv.heads_nodup hc, List.mem_cons]
        constructor
        · rintro ((h | h) | h)
          · exact Or.inl h
          · exact Or.inr (Or.inl h)
          · exact Or.inr (Or.inr h)
        · rintro (h | h | h)
          · exact Or.inl (Or.inl h)
          · exact Or.inl (Or.inr h)
          · exact Or.inr h
      have hnodupH : (s.heads.set s.idx h0 ++ rest).Nodup := by
        rw [List.nodup_append]
        refine ⟨nodup_set inv.heads_nodup hh0.2.2 _, hnd'.2, ?_⟩
        intro a ha b hb e
        subst e
        have hb' := (hToAdd a).mp (List.mem_cons_of_mem _ hb)
        rcases (mem_set_nodup inv.heads_nodup hc a).mp ha with h | h
        · exact hb'.2.2 h.1
        · subst h; exact hnd'.1 hb
      have hidxH : s.heads.set s.idx h0 ++ rest ≠ [] → s.idx < (s.heads.set s.idx h0 ++ rest).length := by
        intro _; simp; omega
      by_cases hsimple : simple cand = true
      · simp only [hsimple, if_true]
        -- a single normalized parent: nothing else to add, and the ancestor set shrinks by the candidate
        obtain ⟨d, hd⟩ := C.simple_single cand hsimple
        have hrest : rest = [] := by
          have : ((nd cand).filter (fun x => decide (x ∈ s.todo.filter (· != cand)) && decide (x ∉ s.heads))).length ≤ 1 := by
            rw [hd]; exact List.length_filter_le _ _
          rw [htoAdd] at this
          cases rest with
          | nil => rfl
          | cons _ _ => simp at this
        have hh0d : h0 = d := by
          have := hh0.1; rw [hd] at this; simpa using this
        subst hrest
        obtain ⟨a, ha⟩ : ∃ a, s.ancs[s.idx]? = some a := ⟨s.ancs[s.idx], List.getElem?_eq_getElem hidx'⟩
        have hacand := inv.ancs_ok s.idx cand a hc ha
        have ha0 : ∀ y, y ∈ (((s.ancs[s.idx]?).getD []).filter (· != cand)) ↔ Reach nd h0 y := by
          intro y
          rw [ha]
          simp only [Option.getD_some, mem_filter_ne, hacand]
          constructor
          · rintro ⟨hr, hne'⟩
            obtain ⟨p, hp, hpr⟩ := reach_proper cand y hr (Ne.symm hne')
            rw [hd] at hp; simp at hp; subst hp; subst hh0d; exact hpr
          · intro hr
            have hedge : h0 ∈ nd cand := hh0.1
            refine ⟨Reach.step hedge hr, ?_⟩
            intro e; subst e
            have := reach_rank_le C hr
            have := C.rank_lt _ _ hedge
            omega
        have key := inv_emit T0 s inv cand _ _ (s.heads.set s.idx h0 ++ [])
          (s.ancs.set s.idx (((s.ancs[s.idx]?).getD []).filter (· != cand)) ++ [].map ancOf) s.idx [h0] F hToAdd
          (by simp [inv.len]) hmemH hnodupH
          (ancs_ok_set_append C inv.len s.idx h0 _ [] ha0 inv.ancs_ok) hidxH
        simpa using key
      · simp only [hsimple]
        have key := inv_emit T0 s inv cand _ _ (s.heads.set s.idx h0 ++ rest)
          (s.ancs.set s.idx (ancOf h0) ++ rest.map ancOf) s.idx (h0 :: rest) F hToAdd
          (by simp [inv.len]) hmemH hnodupH
          (ancs_ok_set_append C inv.len s.idx h0 _ rest (C.anc_iff h0) inv.ancs_ok) hidxH
        simpa using key


/-! ## termination -/

theorem step_switch (s : TopoState) (cand : Id) (j : Nat) (hc : s.heads[s.idx]? = some cand)
    (hscan : findBlocking cand s.idx 0 s.ancs = some j) :
    topoStepG nd ancOf simple s = { s with idx := j } := by
  unfold topoStepG; simp only [hc, hscan]

theorem step_emit_todo (s : TopoState) (cand : Id) (hc : s.heads[s.idx]? = some cand)
    (hscan : findBlocking cand s.idx 0 s.ancs = none) (hcand : cand ∈ s.todo) :
    (topoStepG nd ancOf simple s).todo = s.todo.filter (· != cand) := by
  unfold topoStepG; simp only [hc, hscan, hcand, if_true]
  split
  · rfl
  · split <;> rfl

/-- heads whose rank exceeds the candidate's -/
def bigger (rank : Id → Nat) (s : TopoState) : Nat :=
  match s.heads[s.idx]? with
  | some c => (s.heads.filter (fun x => decide (rank c < rank x))).length
  | none => 0

def measure (rank : Id → Nat) (T : Nat) (s : TopoState) : Nat := s.todo.length * (T + 1) + bigger rank s

theorem todo_le (T0 : List Id) (s : TopoState) (inv : TopoInv nd T0 s) : s.todo.length ≤ T0.length :=
  nodup_subset_length inv.todo_nodup (fun x hx => (inv.cover x).mpr (Or.inr hx))

theorem bigger_le (T0 : List Id) (s : TopoState) (inv : TopoInv nd T0 s) : bigger rank s ≤ T0.length := by
  have h1 : bigger rank s ≤ s.heads.length := by
    unfold bigger; split
    · exact List.length_filter_le _ _
    · omega
  have h2 : s.heads.length ≤ s.todo.length := nodup_subset_length inv.heads_nodup inv.heads_sub
  have := todo_le T0 s inv
  omega

theorem measure_step (C : TopoCtx nd ancOf simple rank) (T0 : List Id) (hconv : Convex nd T0)
    (s : TopoState) (inv : TopoInv nd T0 s) (hne : s.heads ≠ []) :
    measure rank T0.length (topoStepG nd ancOf simple s) < measure rank T0.length s := by
  have hidx := inv.idx_lt hne
  obtain ⟨cand, hc⟩ : ∃ c, s.heads[s.idx]? = some c := ⟨s.heads[s.idx], List.getElem?_eq_getElem hidx⟩
  have inv' := inv_step C T0 hconv s inv hne
  cases hscan : findBlocking cand s.idx 0 s.ancs with
  | some j =>
    rw [step_switch s cand j hc hscan]
    obtain ⟨_, hji, a, ha, hmem⟩ := findBlocking_some 0 s.ancs j hscan
    have ha' : s.ancs[j]? = some a := by simpa using ha
    have hj : j < s.heads.length := by
      rw [← inv.len]; exact (List.getElem?_eq_some_iff.mp ha').1
    obtain ⟨c', hc'⟩ : ∃ c, s.heads[j]? = some c := ⟨s.heads[j], List.getElem?_eq_getElem hj⟩
    have hreach : Reach nd c' cand := (inv.ancs_ok j c' a hc' ha' cand).mp hmem
    have hne' : c' ≠ cand := by
      intro e; subst e; exact hji (nodup_getElem?_inj inv.heads_nodup hc' hc)
    have hrank : rank cand < rank c' := reach_rank_lt C hreach hne'
    unfold measure bigger
    simp only [hc, hc']
    have : (s.heads.filter (fun x => decide (rank c' < rank x))).length <
        (s.heads.filter (fun x => decide (rank cand < rank x))).length := by
      apply filter_length_lt (w := c')
      · intro x hx; simp at hx ⊢; omega
      · exact List.mem_of_getElem? hc'
      · simpa using hrank
      · simp
    omega
  | none =>
    have hcand : cand ∈ s.todo := inv.heads_sub _ (List.mem_of_getElem? hc)
    have htodo := step_emit_todo (nd := nd) (ancOf := ancOf) (simple := simple) s cand hc hscan hcand
    have hlen := filter_ne_length inv.todo_nodup hcand
    have hb := bigger_le (rank := rank) T0 _ inv'
    unfold measure
    rw [htodo]
    have h1 : (s.todo.filter (· != cand)).length * (T0.length + 1) + (T0.length + 1) = s.todo.length * (T0.length + 1) := by
      rw [← hlen, Nat.add_mul]; simp
    omega

/-- **`_topological_sort` terminates with the right answer.**  From any state satisfying the
invariant, with fuel exceeding the measure, the loop returns (never `assertion`, never out of
fuel) a duplicate-free list with exactly the elements of `T0` in which no element is followed
by one of its proper descendants. -/
theorem topoLoopG_ok (C : TopoCtx nd ancOf simple rank) (T0 : List Id) (hconv : Convex nd T0) :
    ∀ (fuel : Nat) (s : TopoState), TopoInv nd T0 s → measure rank T0.length s < fuel →
      ∃ out, topoLoopG nd ancOf simple fuel s = .ok out ∧ out.Nodup ∧ (∀ x, x ∈ out ↔ x ∈ T0) ∧
        out.Pairwise (fun a b => ¬ ProperDesc nd b a) := by
  intro fuel
  induction fuel with
  | zero => intro s _ h; omega
  | succ n ih =>
    intro s inv hm
    unfold topoLoopG
    by_cases hh : s.heads = []
    · have htodo : s.todo = [] := by
        cases ht : s.todo with
        | nil => rfl
        | cons t r =>
          obtain ⟨hd, hhd, _⟩ := inv.covered t (by rw [ht]; exact List.mem_cons_self)
          rw [hh] at hhd; simp at hhd
      simp only [hh, htodo, List.isEmpty_nil, if_true]
      refine ⟨s.output, rfl, inv.out_nodup, ?_, inv.sorted⟩
      intro x; rw [inv.cover x, htodo]; simp
    · have hne : s.heads.isEmpty = false := by
        cases hs : s.heads with
        | nil => exact absurd hs hh
        | cons _ _ => rfl
      simp only [hne]
      have := measure_step C T0 hconv s inv hh
      exact ih _ (inv_step C T0 hconv s inv hh) (by omega)

end step

end Lemmas.Rev
