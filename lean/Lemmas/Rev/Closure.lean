import Spec.Rev
/-!
# The worklist closure computes reachability

`iter succ fuel todo seen` is the loop of `RevisionMap._iterate_related_revisions`.
Main result: `mem_closureOf_iff`.
-/
namespace Lemmas.Rev
open Model.Rev Spec.Rev

variable (succ : Id → List Id)

theorem Reach.trans {a b c : Id} (h1 : Reach succ a b) (h2 : Reach succ b c) : Reach succ a c := by
  induction h1 with
  | refl _ => exact h2
  | step hs _ ih => exact Reach.step hs (ih h2)

theorem Reach.single {a b : Id} (h : b ∈ succ a) : Reach succ a b := Reach.step h (Reach.refl b)

theorem reach_mono {s1 s2 : Id → List Id} (h : ∀ x, ∀ p ∈ s1 x, p ∈ s2 x) {x y : Id} (hr : Reach s1 x y) : Reach s2 x y := by
  induction hr with
  | refl _ => exact Reach.refl _
  | step hs _ ih => exact Reach.step (h _ _ hs) ih

/-- seen only grows -/
theorem iter_mono : ∀ fuel todo seen, ∀ s ∈ seen, s ∈ iter succ fuel todo seen := by
  intro fuel
  induction fuel with
  | zero => intro todo seen s hs; simpa [iter] using hs
  | succ n ih =>
    intro todo seen s hs
    cases todo with
    | nil => simpa [iter] using hs
    | cons x todo =>
      simp only [iter]
      split
      · exact ih _ _ s hs
      · exact ih _ _ s (List.mem_cons_of_mem _ hs)

theorem iter'_snd : ∀ fuel todo seen, (iter' succ fuel todo seen).2 = iter succ fuel todo seen := by
  intro fuel
  induction fuel with
  | zero => intro todo seen; simp [iter, iter']
  | succ n ih =>
    intro todo seen
    cases todo with
    | nil => simp [iter, iter']
    | cons x todo =>
      simp only [iter, iter']
      split <;> exact ih _ _

/-- soundness: everything collected was already seen or is reachable from the stack -/
theorem iter_sound : ∀ fuel todo seen x, x ∈ iter succ fuel todo seen →
    x ∈ seen ∨ ∃ t ∈ todo, Reach succ t x := by
  intro fuel
  induction fuel with
  | zero => intro todo seen x hx; left; simpa [iter] using hx
  | succ n ih =>
    intro todo seen x hx
    cases todo with
    | nil => left; simpa [iter] using hx
    | cons y todo =>
      simp only [iter] at hx
      split at hx
      · rcases ih _ _ _ hx with h | ⟨t, ht, hr⟩
        · exact Or.inl h
        · exact Or.inr ⟨t, List.mem_cons_of_mem _ ht, hr⟩
      · rcases ih _ _ _ hx with h | ⟨t, ht, hr⟩
        · rcases List.mem_cons.mp h with h | h
          · subst h; exact Or.inr ⟨x, List.mem_cons_self, Reach.refl _⟩
          · exact Or.inl h
        · rcases List.mem_append.mp ht with ht | ht
          · have : t ∈ succ y := by simpa using ht
            exact Or.inr ⟨y, List.mem_cons_self, Reach.step this hr⟩
          · exact Or.inr ⟨t, List.mem_cons_of_mem _ ht, hr⟩

/-- closure invariant: when the loop finishes, `seen` is closed under `succ` -/
theorem iter'_closed :
    ∀ fuel todo seen,
      (∀ s ∈ seen, ∀ y ∈ succ s, y ∈ seen ∨ y ∈ todo) →
      (iter' succ fuel todo seen).1 = [] →
      (∀ t ∈ todo, t ∈ (iter' succ fuel todo seen).2) ∧
      (∀ s ∈ (iter' succ fuel todo seen).2, ∀ y ∈ succ s, y ∈ (iter' succ fuel todo seen).2) := by
  intro fuel
  induction fuel with
  | zero =>
    intro todo seen hinv hdone
    simp [iter'] at hdone
    subst hdone
    simp [iter']
    intro s hs y hy
    rcases hinv s hs y hy with h | h
    · exact h
    · simp at h
  | succ n ih =>
    intro todo seen hinv hdone
    cases todo with
    | nil =>
      simp [iter']
      intro s hs y hy
      rcases hinv s hs y hy with h | h
      · exact h
      · simp at h
    | cons x todo =>
      simp only [iter'] at hdone ⊢
      split at hdone
      · rename_i hx
        simp only [hx, if_true]
        have hinv' : ∀ s ∈ seen, ∀ y ∈ succ s, y ∈ seen ∨ y ∈ todo := by
          intro s hs y hy
          rcases hinv s hs y hy with h | h
          · exact Or.inl h
          · rcases List.mem_cons.mp h with h | h
            · subst h; exact Or.inl hx
            · exact Or.inr h
        obtain ⟨h1, h2⟩ := ih todo seen hinv' hdone
        refine ⟨?_, h2⟩
        intro t ht
        rcases List.mem_cons.mp ht with h | h
        · subst h
          have := iter_mono succ n todo seen t hx
          rw [iter'_snd]; exact this
        · exact h1 t h
      · rename_i hx
        simp only [hx, if_false]
        have hinv' : ∀ s ∈ x :: seen, ∀ y ∈ succ s, y ∈ x :: seen ∨ y ∈ (succ x).reverse ++ todo := by
          intro s hs y hy
          rcases List.mem_cons.mp hs with h | h
          · subst h; exact Or.inr (List.mem_append_left _ (by simpa using hy))
          · rcases hinv s h y hy with h' | h'
            · exact Or.inl (List.mem_cons_of_mem _ h')
            · rcases List.mem_cons.mp h' with h'' | h''
              · subst h''; exact Or.inl (List.mem_cons_self)
              · exact Or.inr (List.mem_append_right _ h'')
        obtain ⟨h1, h2⟩ := ih ((succ x).reverse ++ todo) (x :: seen) hinv' hdone
        refine ⟨?_, h2⟩
        intro t ht
        rcases List.mem_cons.mp ht with h | h
        · subst h
          rw [iter'_snd]
          exact iter_mono succ n _ _ t (List.mem_cons_self)
        · exact h1 t (List.mem_append_right _ h)

/-- completeness once the loop has finished -/
theorem iter'_complete (fuel : Nat) (roots : List Id)
    (hdone : (iter' succ fuel roots []).1 = []) :
    ∀ r ∈ roots, ∀ y, Reach succ r y → y ∈ iter succ fuel roots [] := by
  obtain ⟨h1, h2⟩ := iter'_closed succ fuel roots [] (by simp) hdone
  have key : ∀ a y, Reach succ a y → a ∈ (iter' succ fuel roots []).2 → y ∈ (iter' succ fuel roots []).2 := by
    intro a y hreach
    induction hreach with
    | refl a => exact id
    | step hs _ ih => intro ha; exact ih (h2 _ ha _ hs)
  intro r hr y hreach
  rw [← iter'_snd]
  exact key r y hreach (h1 r hr)

/-! ## the fuel is enough -/

/-- cost still to be paid: unseen nodes of `nodes` -/
def remaining (seen : List Id) : List Id → Nat
  | [] => 0
  | n :: r => (if n ∈ seen then 0 else (succ n).length + 1) + remaining seen r

theorem remaining_le_costSum (seen nodes : List Id) : remaining succ seen nodes ≤ costSum succ nodes := by
  induction nodes with
  | nil => simp [remaining, costSum]
  | cons n r ih =>
    simp only [remaining, costSum]
    split <;> omega

theorem remaining_cons_le (x : Id) (seen nodes : List Id) :
    remaining succ (x :: seen) nodes ≤ remaining succ seen nodes := by
  induction nodes with
  | nil => simp [remaining]
  | cons n r ih =>
    simp only [remaining]
    by_cases h1 : n ∈ seen
    · have : n ∈ x :: seen := List.mem_cons_of_mem _ h1
      simp [h1, this]; exact ih
    · by_cases h2 : n ∈ x :: seen
      · simp [h1, h2]; omega
      · simp [h1, h2]; exact ih

theorem remaining_cons_mem (x : Id) (seen nodes : List Id) (hx : x ∈ nodes) (hs : x ∉ seen) :
    remaining succ (x :: seen) nodes + (succ x).length + 1 ≤ remaining succ seen nodes := by
  induction nodes with
  | nil => simp at hx
  | cons n r ih =>
    simp only [remaining]
    by_cases hn : n = x
    · subst hn
      have h2 : n ∈ n :: seen := List.mem_cons_self
      have := remaining_cons_le succ n seen r
      simp [hs, h2]; omega
    · have hx' : x ∈ r := by
        rcases List.mem_cons.mp hx with h | h
        · exact absurd h.symm hn
        · exact h
      have := ih hx'
      by_cases h1 : n ∈ seen
      · have : n ∈ x :: seen := List.mem_cons_of_mem _ h1
        simp [h1, this]; omega
      · have h2 : n ∉ x :: seen := by
          intro h; rcases List.mem_cons.mp h with h | h
          · exact hn h
          · exact h1 h
        simp [h1, h2]; omega

/-- with enough fuel the stack is empty at the end -/
theorem iter'_done (nodes : List Id) (hout : ∀ x, x ∉ nodes → succ x = []) :
    ∀ fuel todo seen, todo.length + remaining succ seen nodes ≤ fuel →
      (iter' succ fuel todo seen).1 = [] := by
  intro fuel
  induction fuel with
  | zero =>
    intro todo seen h
    have : todo.length = 0 := by omega
    simp [iter', List.length_eq_zero_iff.mp this]
  | succ n ih =>
    intro todo seen h
    cases todo with
    | nil => simp [iter']
    | cons x todo =>
      simp only [iter']
      split
      · apply ih; simp at h; omega
      · rename_i hx
        apply ih
        by_cases hn : x ∈ nodes
        · have := remaining_cons_mem succ x seen nodes hn hx
          simp at h ⊢; omega
        · have hs := hout x hn
          have := remaining_cons_le succ x seen nodes
          simp [hs] at h ⊢; omega

/-- **The closure is exactly reachability.** -/
theorem mem_closureOf_iff (nodes roots : List Id) (hout : ∀ x, x ∉ nodes → succ x = []) (x : Id) :
    x ∈ closureOf succ nodes roots ↔ ∃ r ∈ roots, Reach succ r x := by
  unfold closureOf
  constructor
  · intro h
    rcases iter_sound succ _ _ _ _ h with h | h
    · simp at h
    · exact h
  · rintro ⟨r, hr, hreach⟩
    have hdone : (iter' succ (closureFuel succ nodes roots) roots []).1 = [] := by
      apply iter'_done succ nodes hout
      have := remaining_le_costSum succ [] nodes
      unfold closureFuel; omega
    exact iter'_complete succ _ roots hdone r hr x hreach

end Lemmas.Rev
