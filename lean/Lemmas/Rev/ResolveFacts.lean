import Lemmas.Rev.Loaded
import Model.Rev.Resolve
/-!
# Facts about identifier resolution (`_revision_for_ident`, `_resolve_revision_number`)
-/
namespace Lemmas.Rev
open Model.Rev Spec.Rev

theorem find?_map_id (ids : List Id) (i : Id) (hi : i ∈ ids) :
    (ids.map (fun x => (x, x))).find? (fun k => k.1 == i) = some (i, i) := by
  induction ids with
  | nil => simp at hi
  | cons a r ih =>
    by_cases e : a = i
    · subst e; simp
    · have : i ∈ r := by
        rcases List.mem_cons.mp hi with h | h
        · exact absurd h.symm e
        · exact h
      simp [e, ih this]

/-- `self._revision_map[<revision id>]` is that revision -/
theorem lookup_id (m : LMap) (i : Id) (hi : i ∈ m.ids) : m.lookup i = some i := by
  unfold LMap.lookup LMap.keys
  rw [List.find?_append, find?_map_id m.ids i hi]; rfl

theorem revisionForIdent_id (m : LMap) (n : Nat) (i : Id) (hi : i ∈ m.ids) :
    revisionForIdent m (n + 1) i none = .ok (some i) := by
  unfold revisionForIdent
  simp [lookup_id m i hi, bind, Except.bind, pure, Except.pure]

theorem span_loop_all {α} (p : α → Bool) : ∀ (l acc : List α), (∀ c ∈ l, p c = true) →
    List.span.loop p l acc = (acc.reverse ++ l, [])
  | [], acc, _ => by simp [List.span.loop]
  | a :: r, acc, h => by
    have ha : p a = true := h a List.mem_cons_self
    simp only [List.span.loop, ha]
    rw [span_loop_all p r (a :: acc) (fun c hc => h c (List.mem_cons_of_mem _ hc))]
    simp

theorem splitFirstAt_noat (s : String) (h : '@' ∉ s.toList) : splitFirstAt s = (none, s) := by
  unfold splitFirstAt
  have : s.toList.span (· != '@') = (s.toList, []) := by
    unfold List.span
    rw [span_loop_all _ s.toList [] (by intro c hc; simp; intro e; subst e; exact h hc)]
    simp
  rw [this]


/-- what a successful `_revision_for_ident(rid)` (no branch) can be -/
theorem revisionForIdent_sound (m : LMap) (hlk : ∀ e ∈ m.labelKeys, e.2 ∈ m.ids) (n : Nat) (rid : String) (x : Id)
    (h : revisionForIdent m (n + 1) rid none = .ok (some x)) :
    m.lookup rid = some x ∨
      (m.lookup rid = none ∧ x ∈ m.ids ∧ startsWithL x rid = true ∧ x.length > 3 ∧
        ∀ y ∈ m.ids, y.length > 3 → startsWithL y rid = true → y = x) := by
  unfold revisionForIdent at h
  simp only [bind, Except.bind, pure, Except.pure] at h
  cases hl : m.lookup rid with
  | some i =>
    simp only [hl] at h
    left; simpa using h
  | none =>
    right
    simp only [hl] at h
    -- the candidate list of the partial lookup
    generalize hc : (m.keys.filter (fun k => k.1.length > 3 && startsWithL k.1 rid && k.2 == k.1)).map (·.1) = cands at h
    match cands, hc with
    | [], _ => simp [throw, throwThe, MonadExceptOf.throw] at h
    | _ :: _ :: _, _ => simp [throw, throwThe, MonadExceptOf.throw] at h
    | [k], hc =>
      simp only at h
      cases hk : m.lookup k with
      | none => simp [hk, throw, throwThe, MonadExceptOf.throw] at h
      | some i =>
        simp only [hk] at h
        have hix : i = x := by simpa using h
        subst hix
        -- the key that produced the candidate
        have hkm : k ∈ (m.keys.filter (fun k => k.1.length > 3 && startsWithL k.1 rid && k.2 == k.1)).map (·.1) := by
          rw [hc]; exact List.mem_cons_self
        obtain ⟨e, he, hek⟩ := List.mem_map.mp hkm
        have he' := List.mem_filter.mp he
        simp only [Bool.and_eq_true, decide_eq_true_eq, beq_iff_eq] at he'
        obtain ⟨hemem, ⟨hlen, hpre⟩, h21⟩ := he'
        have hkids : k ∈ m.ids := by
          unfold LMap.keys at hemem
          rcases List.mem_append.mp hemem with h1 | h1
          · obtain ⟨a, ha, hae⟩ := List.mem_map.mp h1
            rw [← hek, ← hae]; exact ha
          · have := hlk e h1
            rw [← hek, ← h21]; exact this
        have hik : i = k := by
          have := lookup_id m k hkids
          rw [hk] at this; exact Option.some.inj this
        subst hik
        refine ⟨rfl, hkids, ?_, ?_, ?_⟩
        · rw [← hek]; exact hpre
        · rw [← hek]; exact hlen
        · intro y hy hyl hyp
          have : y ∈ (m.keys.filter (fun k => k.1.length > 3 && startsWithL k.1 rid && k.2 == k.1)).map (·.1) := by
            apply List.mem_map.mpr
            refine ⟨(y, y), List.mem_filter.mpr ⟨?_, ?_⟩, rfl⟩
            · unfold LMap.keys
              exact List.mem_append_left _ (List.mem_map.mpr ⟨y, hy, rfl⟩)
            · simp [hyl, hyp]
          rw [hc] at this
          simpa using this

end Lemmas.Rev
