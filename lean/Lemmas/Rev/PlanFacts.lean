import Lemmas.Rev.Topo
import Lemmas.Rev.Loaded
/-!
# From the generic sort theorem to `upgradeRevs` / `downgradeRevs`
-/
namespace Lemmas.Rev
open Model.Rev Spec.Rev

theorem reach_rank_le' {succ : Id → List Id} {rank : Id → Nat} (hr : ∀ i, ∀ p ∈ succ i, rank p < rank i)
    {x y : Id} (h : Reach succ x y) : rank y ≤ rank x := by
  induction h with
  | refl _ => exact Nat.le_refl _
  | step hs _ ih => exact Nat.le_trans ih (Nat.le_of_lt (hr _ _ hs))

theorem reach_rank_lt' {succ : Id → List Id} {rank : Id → Nat} (hr : ∀ i, ∀ p ∈ succ i, rank p < rank i)
    {x y : Id} (h : Reach succ x y) (hne : x ≠ y) : rank y < rank x := by
  cases h with
  | refl _ => exact absurd rfl hne
  | step hs hr' => exact Nat.lt_of_le_of_lt (reach_rank_le' hr hr') (hr _ _ hs)

/-- **Normalization loses nothing**: ancestors through normalized down revisions are the
ancestors through all down revisions and dependencies. -/
theorem reach_norm_iff_all {m : LMap} (L : Loaded m) (x y : Id) :
    Reach m.normDownOf x y ↔ Reach m.allDownOf x y := by
  constructor
  · exact reach_mono L.norm_sub_all
  · obtain ⟨rank, hrank⟩ := L.ranked
    have key : ∀ n x y, rank x = n → Reach m.allDownOf x y → Reach m.normDownOf x y := by
      intro n
      induction n using Nat.strongRecOn with
      | _ n ih =>
        intro x y hx hr
        cases hr with
        | refl _ => exact Reach.refl _
        | step hs hr' =>
          rename_i p
          have hp : rank p < rank x := hrank _ _ hs
          have h2 : Reach m.normDownOf p y := ih (rank p) (by omega) p y rfl hr'
          by_cases hpn : p ∈ m.normDownOf x
          · exact Reach.step hpn h2
          · obtain ⟨a, hne, hra, hpa⟩ := L.norm_drop x p hs hpn
            have hra' : Reach m.allDownOf x a := reach_mono (fun i q hq => L.norm_sub_all i q (L.down_sub_norm i q hq)) hra
            have ha : rank a < rank x := reach_rank_lt' hrank hra' (Ne.symm hne)
            have h1 : Reach m.normDownOf x a := reach_mono L.down_sub_norm hra
            have h3 : Reach m.normDownOf a p := ih (rank a) (by omega) a p rfl (Reach.single _ hpa)
            exact Reach.trans _ h1 (Reach.trans _ h3 h2)
    intro h; exact key _ x y rfl h

/-- the hypotheses of the sort theorem hold for a loaded map -/
theorem topoCtx_of_loaded {m : LMap} (L : Loaded m) :
    ∃ rank, TopoCtx m.normDownOf (fun x => m.ancestors [x]) (simpleRev m) rank := by
  obtain ⟨rank, hrank⟩ := L.ranked
  refine ⟨rank, ?_⟩
  exact
    { anc_iff := by
        intro x y
        rw [mem_ancestors_iff]
        simp
      rank_lt := fun x p hp => hrank x p (L.norm_sub_all x p hp)
      simple_single := L.simple
      nd_nodup := L.normDown_nodup }


/-! ## the initial state of the sort -/

theorem mem_insertSorted (m : LMap) (a x : Id) : ∀ l, x ∈ insertSorted m a l ↔ x = a ∨ x ∈ l
  | [] => by simp [insertSorted]
  | y :: r => by
    simp only [insertSorted]
    split
    · simp
    · simp only [List.mem_cons, mem_insertSorted m a x r]
      constructor
      · rintro (h | h | h)
        · exact Or.inr (Or.inl h)
        · exact Or.inl h
        · exact Or.inr (Or.inr h)
      · rintro (h | h | h)
        · exact Or.inr (Or.inl h)
        · exact Or.inl h
        · exact Or.inr (Or.inr h)

theorem nodup_insertSorted (m : LMap) (a : Id) : ∀ l, a ∉ l → l.Nodup → (insertSorted m a l).Nodup
  | [], _, _ => by simp [insertSorted]
  | y :: r, ha, hn => by
    simp only [insertSorted]
    split
    · exact List.nodup_cons.mpr ⟨ha, hn⟩
    · have hn' := List.nodup_cons.mp hn
      refine List.nodup_cons.mpr ⟨?_, nodup_insertSorted m a r (fun h => ha (List.mem_cons_of_mem _ h)) hn'.2⟩
      rw [mem_insertSorted]
      rintro (h | h)
      · exact ha (by rw [h]; exact List.mem_cons_self)
      · exact hn'.1 h

theorem mem_sortByMap (m : LMap) (x : Id) : ∀ l, x ∈ sortByMap m l ↔ x ∈ l
  | [] => by simp [sortByMap]
  | y :: r => by
    have ih := mem_sortByMap m x r
    simp only [sortByMap, List.foldr_cons] at ih ⊢
    rw [mem_insertSorted, ih]; simp

theorem nodup_sortByMap (m : LMap) : ∀ l, l.Nodup → (sortByMap m l).Nodup
  | [], _ => by simp [sortByMap]
  | y :: r, hn => by
    have hn' := List.nodup_cons.mp hn
    have ih := nodup_sortByMap m r hn'.2
    simp only [sortByMap, List.foldr_cons] at ih ⊢
    apply nodup_insertSorted m y _ _ ih
    have := mem_sortByMap m y r
    simp only [sortByMap] at this
    rw [this]; exact hn'.1

theorem topoInit_inv {m : LMap} {rank : Id → Nat}
    (C : TopoCtx m.normDownOf (fun x => m.ancestors [x]) (simpleRev m) rank)
    (revisions heads : List Id)
    (hcov : ∀ t ∈ revisions, ∃ hd ∈ heads, hd ∈ revisions ∧ Reach m.normDownOf hd t) :
    TopoInv m.normDownOf (dedupe revisions) (topoInit m revisions heads) := by
  unfold topoInit
  have hmemH : ∀ x, x ∈ sortByMap m (dedupe (heads.filter (· ∈ dedupe revisions))) ↔ x ∈ heads ∧ x ∈ revisions := by
    intro x; rw [mem_sortByMap, mem_dedupe]; simp [mem_dedupe]
  refine
    { len := by simp
      ancs_ok := ?_
      heads_nodup := nodup_sortByMap m _ (dedupe_nodup _)
      heads_sub := fun x hx => mem_dedupe.mpr ((hmemH x).mp hx).2
      idx_lt := fun hne => List.length_pos_iff.mpr hne
      todo_nodup := dedupe_nodup _
      out_nodup := by simp
      disj := by simp
      cover := by simp
      covered := ?_
      order := by simp
      sorted := by simp }
  · intro j hd a h1 h2 y
    simp only [List.getElem?_map, h1, Option.map_some] at h2
    have := Option.some.inj h2
    subst this
    exact C.anc_iff hd y
  · intro t ht
    obtain ⟨hd, h1, h2, h3⟩ := hcov t (mem_dedupe.mp ht)
    exact ⟨hd, (hmemH hd).mpr ⟨h1, h2⟩, h3⟩

/-- **`_topological_sort`, on a loaded map**: given a convex set whose every element lies below
one of the given heads that belongs to the set, the sort returns (never fails, never runs out
of fuel) the set without repetition, and no element is followed by a proper descendant. -/
theorem topoSort_ok {m : LMap} (L : Loaded m) (revisions heads : List Id)
    (hconv : Convex m.normDownOf (dedupe revisions))
    (hcov : ∀ t ∈ revisions, ∃ hd ∈ heads, hd ∈ revisions ∧ Reach m.normDownOf hd t) :
    ∃ out, topoSort m revisions heads = .ok out ∧ out.Nodup ∧ (∀ x, x ∈ out ↔ x ∈ revisions) ∧
      out.Pairwise (fun a b => ¬ ProperDesc m.normDownOf b a) := by
  obtain ⟨rank, C⟩ := topoCtx_of_loaded L
  have inv := topoInit_inv C revisions heads hcov
  have hfuel : Lemmas.Rev.measure rank (dedupe revisions).length (topoInit m revisions heads) <
      topoFuel (topoInit m revisions heads).todo := by
    have hb := bigger_le (rank := rank) _ _ inv
    have ht : (topoInit m revisions heads).todo = dedupe revisions := rfl
    unfold Lemmas.Rev.measure topoFuel
    rw [ht]
    generalize (dedupe revisions).length = n at hb ⊢
    have : n * (n + 1) = n * n + n := Nat.mul_succ n n
    have : (n + 2) * (n + 2) = n * n + 4 * n + 4 := by
      rw [Nat.add_mul, Nat.mul_add, Nat.mul_add]; omega
    omega
  obtain ⟨out, h1, h2, h3, h4⟩ := topoLoopG_ok C (dedupe revisions) hconv _ _ inv hfuel
  exact ⟨out, h1, h2, fun x => by rw [h3, mem_dedupe], h4⟩


/-! ## the checking traversal (`check=True`) -/

theorem iterCheckOne_eq (succ : Id → List Id) (targets : List Id) (t : Id) :
    ∀ fuel todo seen r, iterCheckOne succ targets t fuel todo seen = .ok r → r = iter succ fuel todo seen := by
  intro fuel
  induction fuel with
  | zero => intro todo seen r h; simp [iterCheckOne] at h; simp [iter, h]
  | succ n ih =>
    intro todo seen r h
    cases todo with
    | nil => simp [iterCheckOne] at h; simp [iter, h]
    | cons x todo =>
      simp only [iterCheckOne] at h
      simp only [iter]
      split at h
      · simp at h
      · split at h
        · rename_i hx; simp only [hx, if_true]; exact ih _ _ _ h
        · rename_i hx; simp only [hx, if_false]; exact ih _ _ _ h

/-- the traversal target after target, without the overlap check -/
def iterSeq (succ : Id → List Id) (fuel : Nat) : List Id → List Id → List Id
  | [], seen => seen
  | t :: rest, seen => iterSeq succ fuel rest (iter succ fuel [t] seen)

theorem iterCheck_eq (succ : Id → List Id) (fuel : Nat) (targets : List Id) :
    ∀ ts seen r, iterCheck succ fuel targets ts seen = .ok r → r = iterSeq succ fuel ts seen := by
  intro ts
  induction ts with
  | nil => intro seen r h; simp [iterCheck] at h; simp [iterSeq, h]
  | cons t rest ih =>
    intro seen r h
    simp only [iterCheck] at h
    split at h
    · simp at h
    · rename_i seen' h1
      have := iterCheckOne_eq succ targets t fuel [t] seen seen' h1
      subst this
      exact ih _ _ h

def ClosedSet (succ : Id → List Id) (s : List Id) : Prop := ∀ x ∈ s, ∀ y ∈ succ x, y ∈ s

theorem closed_reach {succ : Id → List Id} {s : List Id} (hc : ClosedSet succ s) {x y : Id}
    (hx : x ∈ s) (hr : Reach succ x y) : y ∈ s := by
  induction hr with
  | refl _ => exact hx
  | step hs _ ih => exact ih (hc _ hx _ hs)

theorem iter_one_spec (succ : Id → List Id) (nodes : List Id) (hout : ∀ x, x ∉ nodes → succ x = [])
    (fuel : Nat) (hfuel : costSum succ nodes + 1 ≤ fuel) (t : Id) (seen : List Id) (hc : ClosedSet succ seen) :
    ClosedSet succ (iter succ fuel [t] seen) ∧
      ∀ x, x ∈ iter succ fuel [t] seen ↔ x ∈ seen ∨ Reach succ t x := by
  have hdone : (iter' succ fuel [t] seen).1 = [] := by
    apply iter'_done succ nodes hout
    have := remaining_le_costSum succ seen nodes
    simp; omega
  obtain ⟨h1, h2⟩ := iter'_closed succ fuel [t] seen (fun s hs y hy => Or.inl (hc s hs y hy)) hdone
  rw [iter'_snd] at h1 h2
  refine ⟨h2, ?_⟩
  intro x
  constructor
  · intro hx
    rcases iter_sound succ _ _ _ _ hx with h | ⟨t', ht', hr⟩
    · exact Or.inl h
    · simp at ht'; subst ht'; exact Or.inr hr
  · rintro (h | h)
    · exact iter_mono succ _ _ _ x h
    · exact closed_reach h2 (h1 t (by simp)) h

theorem iterSeq_spec (succ : Id → List Id) (nodes : List Id) (hout : ∀ x, x ∉ nodes → succ x = [])
    (fuel : Nat) (hfuel : costSum succ nodes + 1 ≤ fuel) :
    ∀ ts seen, ClosedSet succ seen →
      ∀ x, x ∈ iterSeq succ fuel ts seen ↔ x ∈ seen ∨ ∃ t ∈ ts, Reach succ t x := by
  intro ts
  induction ts with
  | nil => intro seen _ x; simp [iterSeq]
  | cons t rest ih =>
    intro seen hc x
    obtain ⟨hc', hmem⟩ := iter_one_spec succ nodes hout fuel hfuel t seen hc
    simp only [iterSeq]
    rw [ih _ hc' x, hmem x]
    constructor
    · rintro ((h | h) | ⟨t', ht', hr⟩)
      · exact Or.inl h
      · exact Or.inr ⟨t, List.mem_cons_self, h⟩
      · exact Or.inr ⟨t', List.mem_cons_of_mem _ ht', hr⟩
    · rintro (h | ⟨t', ht', hr⟩)
      · exact Or.inl (Or.inl h)
      · rcases List.mem_cons.mp ht' with e | h'
        · subst e; exact Or.inl (Or.inr hr)
        · exact Or.inr ⟨t', h', hr⟩

/-- when the checking traversal succeeds it computes the ancestor set -/
theorem iterCheck_norm_spec (m : LMap) (ts r : List Id)
    (h : iterCheck m.normDownOf (closureFuel m.normDownOf m.ids ts) ts ts [] = .ok r) (x : Id) :
    x ∈ r ↔ ∃ t ∈ ts, Reach m.normDownOf t x := by
  have := iterCheck_eq _ _ _ _ _ _ h
  subst this
  rw [iterSeq_spec m.normDownOf m.ids (normDownOf_nil m) _ (by unfold closureFuel; omega) ts []
    (by intro x hx; simp at hx)]
  simp

/-! ## the upgrade plan -/

/-- the revisions that `upgradeNeeds` selects -/
theorem upgradeNeeds_spec {m : LMap} {rows targets needs cur : List Id}
    (h : upgradeNeeds m rows targets = .ok (needs, cur)) :
    resolveRows m rows = .ok cur ∧
      ∀ x, x ∈ needs ↔ (∃ t ∈ targets, Reach m.normDownOf t x) ∧ ¬ ∃ c ∈ cur, Reach m.normDownOf c x := by
  unfold upgradeNeeds LMap.ancestorsCheck at h
  simp only [bind, Except.bind] at h
  split at h
  · simp at h
  · rename_i anc hanc
    split at h
    · simp at h
    · rename_i cur' hcur
      split at h
      · simp at h
      · rename_i curAnc hca
        simp only [pure, Except.pure, Except.ok.injEq, Prod.mk.injEq] at h
        obtain ⟨h1, h2⟩ := h
        subst h1; subst h2
        refine ⟨hcur, ?_⟩
        intro x
        have ha := iterCheck_norm_spec m targets anc hanc
        have hc := iterCheck_norm_spec m cur' curAnc hca
        simp only [List.mem_filter, mem_dedupe, List.mem_append, decide_eq_true_eq, not_or]
        constructor
        · rintro ⟨h1 | h1, h2, h3⟩
          · exact ⟨(ha x).mp h1, fun hc' => h2 ((hc x).mpr hc')⟩
          · exact ⟨⟨x, h1, Reach.refl _⟩, fun hc' => h2 ((hc x).mpr hc')⟩
        · rintro ⟨h1, h2⟩
          refine ⟨Or.inl ((ha x).mpr h1), fun h' => h2 ((hc x).mp h'), fun h' => h2 ⟨x, h', Reach.refl _⟩⟩

end Lemmas.Rev
