import Lemmas.Rev.PlanFacts
import Model.Rev.Heads
/-!
# Version-table bookkeeping keeps "rows = maximal applied revisions"
-/
namespace Lemmas.Rev
open Model.Rev Spec.Rev

/-! ## what the three statements do -/

theorem applyStmts_append (rows : List Id) (s1 s2 : List Stmt) :
    applyStmts rows (s1 ++ s2) = (applyStmts rows s1).bind (fun r => applyStmts r s2) := by
  induction s1 generalizing rows with
  | nil => simp [applyStmts, Except.bind]
  | cons s r ih =>
    simp only [List.cons_append, applyStmts]
    cases applyStmt rows s with
    | error e => simp [Except.bind]
    | ok rows' => simp [ih]

/-- rows as a duplicate-free set with given members -/
structure RowSet (R : List Id) (mem : Id → Prop) : Prop where
  nodup : R.Nodup
  iff : ∀ x, x ∈ R ↔ mem x

theorem del_ok {R : List Id} (hn : R.Nodup) {v : Id} (hv : v ∈ R) :
    ∃ R', applyStmts R [.del v] = .ok R' ∧ RowSet R' (fun x => x ∈ R ∧ x ≠ v) := by
  refine ⟨R.filter (· != v), by simp [applyStmts, applyStmt, deleteVersion, hv], hn.filter _, ?_⟩
  intro x; simp

theorem ins_ok {R : List Id} (hn : R.Nodup) {v : Id} (hv : v ∉ R) :
    ∃ R', applyStmts R [.ins v] = .ok R' ∧ RowSet R' (fun x => x ∈ R ∨ x = v) := by
  refine ⟨R ++ [v], by simp [applyStmts, applyStmt, insertVersion, hv], ?_, ?_⟩
  · rw [List.nodup_append]; refine ⟨hn, by simp, ?_⟩
    intro a ha b hb; simp at hb; subst hb; intro e; subst e; exact hv ha
  · intro x; simp

theorem upd_ok {R : List Id} (hn : R.Nodup) {a b : Id} (ha : a ∈ R) (hb : b ∉ R) :
    ∃ R', applyStmts R [.upd a b] = .ok R' ∧ RowSet R' (fun x => (x ∈ R ∧ x ≠ a) ∨ x = b) := by
  refine ⟨R.filter (· != a) ++ [b], by simp [applyStmts, applyStmt, updateVersion, ha, hb], ?_, ?_⟩
  · rw [List.nodup_append]; refine ⟨hn.filter _, by simp, ?_⟩
    intro x hx y hy; simp at hy; subst hy; intro e; subst e
    exact hb (List.mem_filter.mp hx).1
  · intro x; simp

theorem dels_ok : ∀ (ds : List Id) (R : List Id), R.Nodup → ds.Nodup → (∀ d ∈ ds, d ∈ R) →
    ∃ R', applyStmts R (ds.map .del) = .ok R' ∧ RowSet R' (fun x => x ∈ R ∧ x ∉ ds)
  | [], R, hn, _, _ => ⟨R, by simp [applyStmts], hn, by intro x; simp⟩
  | d :: ds, R, hn, hd, hs => by
    have hd' := List.nodup_cons.mp hd
    obtain ⟨R1, h1, s1⟩ := del_ok hn (hs d List.mem_cons_self)
    have hsub : ∀ e ∈ ds, e ∈ R1 := by
      intro e he
      exact (s1.iff e).mpr ⟨hs e (List.mem_cons_of_mem _ he), fun h => hd'.1 (h ▸ he)⟩
    obtain ⟨R2, h2, s2⟩ := dels_ok ds R1 s1.nodup hd'.2 hsub
    refine ⟨R2, ?_, s2.nodup, ?_⟩
    · have : (d :: ds).map Stmt.del = [Stmt.del d] ++ ds.map Stmt.del := rfl
      rw [this, applyStmts_append, h1]; simpa [Except.bind] using h2
    · intro x
      rw [s2.iff x, s1.iff x]
      simp only [List.mem_cons, not_or]
      constructor
      · rintro ⟨⟨h1, h2⟩, h3⟩; exact ⟨h1, h2, h3⟩
      · rintro ⟨h1, h2, h3⟩; exact ⟨⟨h1, h2⟩, h3⟩

theorem inss_ok : ∀ (is_ : List Id) (R : List Id), R.Nodup → is_.Nodup → (∀ d ∈ is_, d ∉ R) →
    ∃ R', applyStmts R (is_.map .ins) = .ok R' ∧ RowSet R' (fun x => x ∈ R ∨ x ∈ is_)
  | [], R, hn, _, _ => ⟨R, by simp [applyStmts], hn, by intro x; simp⟩
  | d :: ds, R, hn, hd, hs => by
    have hd' := List.nodup_cons.mp hd
    obtain ⟨R1, h1, s1⟩ := ins_ok hn (hs d List.mem_cons_self)
    have hsub : ∀ e ∈ ds, e ∉ R1 := by
      intro e he h
      rcases (s1.iff e).mp h with h | h
      · exact hs e (List.mem_cons_of_mem _ he) h
      · exact hd'.1 (h ▸ he)
    obtain ⟨R2, h2, s2⟩ := inss_ok ds R1 s1.nodup hd'.2 hsub
    refine ⟨R2, ?_, s2.nodup, ?_⟩
    · have : (d :: ds).map Stmt.ins = [Stmt.ins d] ++ ds.map Stmt.ins := rfl
      rw [this, applyStmts_append, h1]; simpa [Except.bind] using h2
    · intro x
      rw [s2.iff x, s1.iff x]
      simp only [List.mem_cons]
      constructor
      · rintro ((h | h) | h)
        · exact Or.inl h
        · exact Or.inr (Or.inl h)
        · exact Or.inr (Or.inr h)
      · rintro (h | h | h)
        · exact Or.inl (Or.inl h)
        · exact Or.inl (Or.inr h)
        · exact Or.inr h

/-- delete all but the last of `fs`, update the last to `r`: the rows in `fs` are replaced by `r` -/
theorem fold_ok (R : List Id) (hn : R.Nodup) (fs : List Id) (hf : fs.Nodup) (hne : fs ≠ []) (hs : ∀ d ∈ fs, d ∈ R)
    (r : Id) (hr : r ∉ R) :
    ∃ R', applyStmts R (fs.dropLast.map .del ++ [.upd (fs.getLast hne) r]) = .ok R' ∧
      RowSet R' (fun x => (x ∈ R ∧ x ∉ fs) ∨ x = r) := by
  have hsplit : fs = fs.dropLast ++ [fs.getLast hne] := (List.dropLast_concat_getLast hne).symm
  have hnd : (fs.dropLast ++ [fs.getLast hne]).Nodup := by rw [← hsplit]; exact hf
  rw [List.nodup_append] at hnd
  obtain ⟨R1, h1, s1⟩ := dels_ok fs.dropLast R hn hnd.1
    (fun d hd => hs d (by rw [hsplit]; exact List.mem_append_left _ hd))
  have hlast : fs.getLast hne ∈ R1 := by
    refine (s1.iff _).mpr ⟨hs _ (List.getLast_mem hne), ?_⟩
    intro h; exact hnd.2.2 _ h _ (by simp) rfl
  have hr1 : r ∉ R1 := fun h => hr ((s1.iff r).mp h).1
  obtain ⟨R2, h2, s2⟩ := upd_ok s1.nodup hlast hr1
  refine ⟨R2, by rw [applyStmts_append, h1]; simpa [Except.bind] using h2, s2.nodup, ?_⟩
  intro x
  rw [s2.iff x, s1.iff x]
  constructor
  · rintro (⟨⟨h1, h2⟩, h3⟩ | h)
    · left; refine ⟨h1, ?_⟩
      intro hx; rw [hsplit] at hx
      rcases List.mem_append.mp hx with h | h
      · exact h2 h
      · simp at h; exact h3 h
    · exact Or.inr h
  · rintro (⟨h1, h2⟩ | h)
    · left
      refine ⟨⟨h1, fun h => h2 (by rw [hsplit]; exact List.mem_append_left _ h)⟩, ?_⟩
      intro e; subst e; exact h2 (List.getLast_mem hne)
    · exact Or.inr h

/-- insert all but the last of `ts`, update `r` to the last: `r` is replaced by the rows `ts` -/
theorem unfold_ok (R : List Id) (hn : R.Nodup) (ts : List Id) (ht : ts.Nodup) (hne : ts ≠ []) (hs : ∀ d ∈ ts, d ∉ R)
    (r : Id) (hr : r ∈ R) :
    ∃ R', applyStmts R (ts.dropLast.map .ins ++ [.upd r (ts.getLast hne)]) = .ok R' ∧
      RowSet R' (fun x => (x ∈ R ∧ x ≠ r) ∨ x ∈ ts) := by
  have hsplit : ts = ts.dropLast ++ [ts.getLast hne] := (List.dropLast_concat_getLast hne).symm
  have hnd : (ts.dropLast ++ [ts.getLast hne]).Nodup := by rw [← hsplit]; exact ht
  rw [List.nodup_append] at hnd
  obtain ⟨R1, h1, s1⟩ := inss_ok ts.dropLast R hn hnd.1
    (fun d hd => hs d (by rw [hsplit]; exact List.mem_append_left _ hd))
  have hr1 : r ∈ R1 := (s1.iff r).mpr (Or.inl hr)
  have hlast : ts.getLast hne ∉ R1 := by
    intro h
    rcases (s1.iff _).mp h with h | h
    · exact hs _ (List.getLast_mem hne) h
    · exact hnd.2.2 _ h _ (by simp) rfl
  obtain ⟨R2, h2, s2⟩ := upd_ok s1.nodup hr1 hlast
  refine ⟨R2, by rw [applyStmts_append, h1]; simpa [Except.bind] using h2, s2.nodup, ?_⟩
  intro x
  rw [s2.iff x, s1.iff x]
  constructor
  · rintro (⟨h1 | h1, h2⟩ | h)
    · exact Or.inl ⟨h1, h2⟩
    · exact Or.inr (by rw [hsplit]; exact List.mem_append_left _ h1)
    · exact Or.inr (by rw [h]; exact List.getLast_mem hne)
  · rintro (⟨h1, h2⟩ | h)
    · exact Or.inl ⟨Or.inl h1, h2⟩
    · rw [hsplit] at h
      rcases List.mem_append.mp h with h | h
      · by_cases e : x = r
        · subst e; exact absurd hr (hs x (by rw [hsplit]; exact List.mem_append_left _ h))
        · exact Or.inl ⟨Or.inr h, e⟩
      · simp at h; exact Or.inr h


/-! ## rows = maximal applied revisions -/

/-- `x` is applied and no applied revision needs it -/
def IsMax (m : LMap) (A : List Id) (x : Id) : Prop := x ∈ A ∧ ∀ c ∈ A, x ∉ m.allDownOf c

/-- the version table `R` is consistent with the applied set `A` -/
structure RowsInv (m : LMap) (A R : List Id) : Prop where
  nodup : R.Nodup
  rows : ∀ x, x ∈ R ↔ IsMax m A x
  /-- the applied set contains the prerequisites of its members -/
  closed : ∀ x ∈ A, ∀ p ∈ m.allDownOf x, p ∈ A

theorem closedA_reach {m : LMap} {A : List Id} (hc : ∀ x ∈ A, ∀ p ∈ m.allDownOf x, p ∈ A) {x y : Id}
    (hx : x ∈ A) (hr : Reach m.allDownOf x y) : y ∈ A := by
  induction hr with
  | refl _ => exact hx
  | step hs _ ih => exact ih (hc _ hx _ hs)

/-- the last edge of a non-trivial path -/
theorem reach_last_edge {succ : Id → List Id} {x y : Id} (h : Reach succ x y) (hne : x ≠ y) :
    ∃ c, Reach succ x c ∧ y ∈ succ c := by
  induction h with
  | refl _ => exact absurd rfl hne
  | @step a b c hs hr ih =>
    by_cases e : b = c
    · subst e; exact ⟨a, Reach.refl _, hs⟩
    · obtain ⟨c', h1, h2⟩ := ih e
      exact ⟨c', Reach.step hs h1, h2⟩

/-- every applied revision lies below a maximal one -/
theorem exists_max_above {m : LMap} (L : Loaded m) (A : List Id) (a : Id) (ha : a ∈ A) :
    ∃ h, IsMax m A h ∧ Reach m.allDownOf h a := by
  obtain ⟨rank, hrank⟩ := L.ranked
  have key : ∀ n a, a ∈ A → (A.filter (fun x => decide (rank a < rank x))).length = n →
      ∃ h, IsMax m A h ∧ Reach m.allDownOf h a := by
    intro n
    induction n using Nat.strongRecOn with
    | _ n ih =>
      intro a ha hn
      by_cases hmax : ∀ c ∈ A, a ∉ m.allDownOf c
      · exact ⟨a, ⟨ha, hmax⟩, Reach.refl _⟩
      · have : ∃ c, c ∈ A ∧ a ∈ m.allDownOf c := by
          apply Classical.byContradiction
          intro hno; apply hmax; intro c hc hac; exact hno ⟨c, hc, hac⟩
        obtain ⟨c, hc, hac⟩ := this
        have hlt : rank a < rank c := hrank c a hac
        have hsmall : (A.filter (fun x => decide (rank c < rank x))).length <
            (A.filter (fun x => decide (rank a < rank x))).length := by
          apply filter_length_lt (w := c)
          · intro x hx; simp at hx ⊢; omega
          · exact hc
          · simpa using hlt
          · simp
        obtain ⟨h, h1, h2⟩ := ih _ (by omega) c hc rfl
        exact ⟨h, h1, Reach.trans _ h2 (Reach.single _ hac)⟩
  exact key _ a ha rfl

/-- among the rows, the prerequisites of `r` are its *normalized* down revisions -/
theorem rows_parents_norm {m : LMap} (L : Loaded m) {A R : List Id} (inv : RowsInv m A R) (r : Id)
    (hpar : ∀ p ∈ m.allDownOf r, p ∈ A) (x : Id) (hx : x ∈ R) :
    x ∈ m.allDownOf r ↔ x ∈ m.normDownOf r := by
  constructor
  · intro h
    apply Classical.byContradiction
    intro hn
    obtain ⟨a, hne, hra, hxa⟩ := L.norm_drop r x h hn
    have hra' : Reach m.allDownOf r a :=
      reach_mono (fun i q hq => L.norm_sub_all i q (L.down_sub_norm i q hq)) hra
    obtain ⟨p, hp, hpa⟩ := reach_proper (nd := m.allDownOf) r a hra' (Ne.symm hne)
    have haA : a ∈ A := closedA_reach inv.closed (hpar p hp) hpa
    exact ((inv.rows x).mp hx).2 a haA hxa
  · exact L.norm_sub_all r x

/-- a row is not an ancestor of another row -/
theorem row_not_below {m : LMap} (L : Loaded m) {A R : List Id} (inv : RowsInv m A R) {x o : Id}
    (hx : x ∈ R) (ho : o ∈ A) (hne : o ≠ x) : ¬ Reach m.allDownOf o x := by
  intro hr
  obtain ⟨c, hoc, hxc⟩ := reach_last_edge hr hne
  exact ((inv.rows x).mp hx).2 c (closedA_reach inv.closed ho hoc) hxc


theorem reverse_cons_split {l : List Id} {last : Id} {initRev : List Id} (h : l.reverse = last :: initRev) :
    ∃ hne : l ≠ [], initRev.reverse = l.dropLast ∧ last = l.getLast hne := by
  have hl : l = initRev.reverse ++ [last] := by
    have := congrArg List.reverse h
    simpa using this
  subst hl
  exact ⟨by simp, by simp, by simp⟩

/-- the rows that `merge_branch_idents` folds are the rows among the normalized down revisions -/
theorem mem_mergeFrom {m : LMap} (L : Loaded m) {A R : List Id} (inv : RowsInv m A R) (r : Id) (x : Id) :
    x ∈ mergeFromRevisions m R r ↔ x ∈ m.normDownOf r ∧ x ∈ R := by
  unfold mergeFromRevisions
  simp only [List.mem_filter, decide_eq_true_eq]
  constructor
  · rintro ⟨h1, h2⟩
    refine ⟨?_, h2⟩
    split at h1
    · exact (List.mem_filter.mp h1).1
    · exact h1
  · rintro ⟨h1, h2⟩
    refine ⟨?_, h2⟩
    split
    · rw [List.mem_filter]
      refine ⟨h1, ?_⟩
      simp only [decide_eq_true_eq]
      intro hanc
      obtain ⟨o, ho, hr⟩ := (mem_ancestors_iff m _ x).mp hanc
      have ho' := List.mem_filter.mp ho
      have hoR : o ∈ R := ho'.1
      have hne : o ≠ x := by
        intro e; subst e
        have := ho'.2; simp at this; exact this h1
      exact row_not_below L inv h2 ((inv.rows o).mp hoR).1 hne ((reach_norm_iff_all L o x).mp hr)
    · exact h1

/-- **Upgrade step.** If the table is consistent with the applied set `A`, `r` is not applied and
all its prerequisites are, then recording the upgrade of `r` succeeds (every statement hits
exactly one row) and the table is consistent with `r :: A`. -/
theorem step_up {m : LMap} (L : Loaded m) {A R : List Id} (inv : RowsInv m A R) (r : Id)
    (hr : r ∉ A) (hpar : ∀ p ∈ m.allDownOf r, p ∈ A) :
    ∃ R' st, updateToStep m R (.rev r true) = .ok (R', st) ∧ RowsInv m (r :: A) R' := by
  have hrR : r ∉ R := fun h => hr ((inv.rows r).mp h).1
  have hK := rows_parents_norm L inv r hpar
  -- it is enough to produce rows `(R minus the parents of r) ∪ {r}`
  suffices h : ∃ R' st, updateToStep m R (.rev r true) = .ok (R', st) ∧
      RowSet R' (fun x => (x ∈ R ∧ x ∉ m.normDownOf r) ∨ x = r) by
    obtain ⟨R', st, h1, hs⟩ := h
    refine ⟨R', st, h1, hs.nodup, ?_, ?_⟩
    · intro x
      rw [hs.iff x]
      obtain ⟨rank, hrank⟩ := L.ranked
      constructor
      · rintro (⟨hx, hn⟩ | e)
        · have hmax := (inv.rows x).mp hx
          refine ⟨List.mem_cons_of_mem _ hmax.1, ?_⟩
          intro c hc
          rcases List.mem_cons.mp hc with e | hc
          · subst e; exact fun h => hn ((hK x hx).mp h)
          · exact hmax.2 c hc
        · subst e
          refine ⟨List.mem_cons_self, ?_⟩
          intro c hc hxc
          rcases List.mem_cons.mp hc with e | hc
          · subst e; have := hrank _ _ hxc; omega
          · exact hr (inv.closed c hc _ hxc)
      · rintro ⟨hx, hmax⟩
        rcases List.mem_cons.mp hx with e | hx
        · exact Or.inr e
        · have hxR : x ∈ R := (inv.rows x).mpr ⟨hx, fun c hc => hmax c (List.mem_cons_of_mem _ hc)⟩
          exact Or.inl ⟨hxR, fun h => hmax r List.mem_cons_self ((hK x hxR).mpr h)⟩
    · intro x hx p hp
      rcases List.mem_cons.mp hx with e | hx
      · subst e; exact List.mem_cons_of_mem _ (hpar p hp)
      · exact List.mem_cons_of_mem _ (inv.closed x hx p hp)
  -- shape of the statement list in the three cases
  have hrun : ∀ st R', stepStmts m R (.rev r true) = .ok st → applyStmts R st = .ok R' →
      updateToStep m R (.rev r true) = .ok (R', st) := by
    intro st R' h1 h2; unfold updateToStep; rw [h1]; simp only; rw [h2]
  by_cases hA : (m.normDownOf r).isEmpty || !(R.any (· ∈ m.normDownOf r))
  · -- no row among the parents: INSERT
    have hst : stepStmts m R (.rev r true) = .ok [.ins r] := by
      unfold stepStmts; simp only [hA, if_true]
    obtain ⟨R', h1, hs⟩ := ins_ok inv.nodup hrR
    refine ⟨R', [.ins r], hrun _ _ hst h1, hs.nodup, ?_⟩
    intro x; rw [hs.iff x]
    have hnone : ∀ y ∈ R, y ∉ m.normDownOf r := by
      intro y hy hyd
      simp only [Bool.or_eq_true, List.isEmpty_iff, Bool.not_eq_true', List.any_eq_false, decide_eq_true_eq] at hA
      rcases hA with hA | hA
      · rw [hA] at hyd; simp at hyd
      · exact hA y hy hyd
    constructor
    · rintro (h | h)
      · exact Or.inl ⟨h, hnone x h⟩
      · exact Or.inr h
    · rintro (⟨h, _⟩ | h)
      · exact Or.inl h
      · exact Or.inr h
  · have hsome : ∃ y ∈ R, y ∈ m.normDownOf r := by
      simp only [Bool.or_eq_true, List.isEmpty_iff, Bool.not_eq_true', not_or, Bool.not_eq_false] at hA
      simpa using hA.2
    by_cases hB : (m.normDownOf r).length > 1 && (dedupe (R.filter (· ∈ m.normDownOf r))).length > 1
    · -- several rows among the parents: DELETE all but one, UPDATE the last
      have hmem := mem_mergeFrom L inv r
      have hnd : (mergeFromRevisions m R r).Nodup := by
        unfold mergeFromRevisions
        apply List.Pairwise.filter
        split
        · exact List.Pairwise.filter _ (L.normDown_nodup r)
        · exact L.normDown_nodup r
      obtain ⟨y, hyR, hyd⟩ := hsome
      have hne : mergeFromRevisions m R r ≠ [] := by
        intro e; have := (hmem y).mpr ⟨hyd, hyR⟩; rw [e] at this; simp at this
      obtain ⟨R', hok, hs⟩ := fold_ok R inv.nodup _ hnd hne (fun d hd => ((hmem d).mp hd).2) r hrR
      have hst : stepStmts m R (.rev r true) =
          .ok ((mergeFromRevisions m R r).dropLast.map .del ++ [.upd ((mergeFromRevisions m R r).getLast hne) r]) := by
        unfold stepStmts; simp only [hA, hB, if_true, Bool.false_eq_true, if_false]
        cases hrev : (mergeFromRevisions m R r).reverse with
        | nil => simp at hrev; exact absurd hrev hne
        | cons last initRev =>
          obtain ⟨_, h1, h2⟩ := reverse_cons_split hrev
          simp only [h1, h2]
      refine ⟨R', _, hrun _ _ hst hok, hs.nodup, ?_⟩
      intro x; rw [hs.iff x]
      constructor
      · rintro (⟨h1, h2⟩ | h)
        · exact Or.inl ⟨h1, fun hd => h2 ((hmem x).mpr ⟨hd, h1⟩)⟩
        · exact Or.inr h
      · rintro (⟨h1, h2⟩ | h)
        · exact Or.inl ⟨h1, fun hd => h2 ((hmem x).mp hd).1⟩
        · exact Or.inr h
    · -- exactly one row among the parents: UPDATE
      have huniq : ∃ d, d ∈ R ∧ d ∈ m.normDownOf r ∧ (∀ y ∈ R, y ∈ m.normDownOf r → y = d) ∧
          stepStmts m R (.rev r true) = .ok [.upd d r] := by
        obtain ⟨y, hyR, hyd⟩ := hsome
        by_cases h1 : (m.normDownOf r).length == 1
        · match hdn : m.normDownOf r, h1 with
          | [d], _ =>
            rw [hdn] at hyd; simp at hyd; subst hyd
            refine ⟨y, hyR, by simp, ?_, ?_⟩
            · intro z _ hz; simpa using hz
            · unfold stepStmts; simp only [hA, hB, Bool.false_eq_true, if_false]; simp [hdn]
        · have hlen : (m.normDownOf r).length > 1 := by
            have h0 : (m.normDownOf r).length ≠ 0 := by
              intro e; rw [List.length_eq_zero_iff.mp e] at hyd; simp at hyd
            have h1' : (m.normDownOf r).length ≠ 1 := by simpa using h1
            omega
          have hcnt : ¬ (dedupe (R.filter (· ∈ m.normDownOf r))).length > 1 := by
            intro hc; apply hB; simp [hlen, hc]
          have hyP : y ∈ dedupe (R.filter (· ∈ m.normDownOf r)) := by
            rw [mem_dedupe]; simp [hyR, hyd]
          match hP : dedupe (R.filter (· ∈ m.normDownOf r)), hcnt, hyP with
          | [d], _, hyP' =>
            simp at hyP'; subst hyP'
            refine ⟨y, hyR, hyd, ?_, ?_⟩
            · intro z hzR hzd
              have : z ∈ dedupe (R.filter (· ∈ m.normDownOf r)) := by rw [mem_dedupe]; simp [hzR, hzd]
              rw [hP] at this; simpa using this
            · unfold stepStmts; simp only [hA, hB, h1, Bool.false_eq_true, if_false]; simp [hP]
          | _ :: _ :: _, hc, _ => simp at hc
      obtain ⟨d, hdR, hdd, hall, hst⟩ := huniq
      obtain ⟨R', hok, hs⟩ := upd_ok inv.nodup hdR hrR
      refine ⟨R', _, hrun _ _ hst hok, hs.nodup, ?_⟩
      intro x; rw [hs.iff x]
      constructor
      · rintro (⟨h1, h2⟩ | h)
        · exact Or.inl ⟨h1, fun hd => h2 (hall x h1 hd)⟩
        · exact Or.inr h
      · rintro (⟨h1, h2⟩ | h)
        · exact Or.inl ⟨h1, fun e => h2 (e ▸ hdd)⟩
        · exact Or.inr h


/-- the revisions `_unmerge_to_revisions` re-inserts are the prerequisites of `r` that no other
applied revision needs -/
theorem mem_unmergeTo {m : LMap} (L : Loaded m) {A R : List Id} (inv : RowsInv m A R) (r : Id) (hrR : r ∈ R) (x : Id) :
    x ∈ unmergeToRevisions m R r ↔
      x ∈ m.allDownOf r ∧ ∀ c ∈ A, c ≠ r → x ∉ m.allDownOf c := by
  obtain ⟨rank, hrank⟩ := L.ranked
  have hrA : r ∈ A := ((inv.rows r).mp hrR).1
  have hparA : ∀ p ∈ m.allDownOf r, p ∈ A := fun p hp => inv.closed r hrA p hp
  -- membership in the first filter
  have hto1 : ∀ y, y ∈ (if !(R.filter (· != r)).isEmpty then (m.normDownOf r).filter (· ∉ m.ancestors (R.filter (· != r)))
      else m.normDownOf r) ↔ y ∈ m.normDownOf r ∧ ¬ ∃ h ∈ R, h ≠ r ∧ Reach m.allDownOf h y := by
    intro y
    have hanc : y ∈ m.ancestors (R.filter (· != r)) ↔ ∃ h ∈ R, h ≠ r ∧ Reach m.allDownOf h y := by
      rw [mem_ancestors_iff]
      constructor
      · rintro ⟨h, hh, hr⟩
        have := List.mem_filter.mp hh
        exact ⟨h, this.1, by simpa using this.2, (reach_norm_iff_all L h y).mp hr⟩
      · rintro ⟨h, hh, hne, hr⟩
        exact ⟨h, List.mem_filter.mpr ⟨hh, by simpa using hne⟩, (reach_norm_iff_all L h y).mpr hr⟩
    split
    · rw [List.mem_filter]; simp only [decide_eq_true_eq, hanc]
    · rename_i hemp
      have hnil : R.filter (· != r) = [] := by simpa using hemp
      constructor
      · intro hy
        refine ⟨hy, ?_⟩
        rintro ⟨h, hh, hne, _⟩
        have : h ∈ R.filter (· != r) := List.mem_filter.mpr ⟨hh, by simpa using hne⟩
        rw [hnil] at this; simp at this
      · exact fun h => h.1
  unfold unmergeToRevisions
  simp only
  rw [List.mem_filter]
  simp only [List.mem_flatMap, List.mem_filter, decide_eq_true_eq, not_exists, not_and]
  constructor
  · rintro ⟨hx1, hx2⟩
    have hx1' := (hto1 x).mp hx1
    refine ⟨L.norm_sub_all r x hx1'.1, ?_⟩
    intro c hcA hcr hxc
    obtain ⟨h, hmax, hreach⟩ := exists_max_above L A c hcA
    have hhR : h ∈ R := (inv.rows h).mpr hmax
    by_cases hhr : h = r
    · subst hhr
      -- c lies strictly below r: below a normalized parent q of r
      have hrc : Reach m.normDownOf h c := (reach_norm_iff_all L h c).mpr hreach
      obtain ⟨q, hq, hqc⟩ := reach_proper (nd := m.normDownOf) h c hrc (Ne.symm hcr)
      have hqc' : Reach m.allDownOf q c := (reach_norm_iff_all L q c).mp hqc
      have hqx : Reach m.allDownOf q x := Reach.trans _ hqc' (Reach.single _ hxc)
      have hqne : q ≠ x := by
        intro e; subst e
        have := reach_rank_le' hrank hqc'
        have := hrank c q hxc; omega
      by_cases hq1 : q ∈ (if !(R.filter (· != h)).isEmpty then (m.normDownOf h).filter (· ∉ m.ancestors (R.filter (· != h)))
          else m.normDownOf h)
      · have hmem : x ∈ m.ancestors [q] := by
          rw [mem_ancestors_iff]
          exact ⟨q, by simp, (reach_norm_iff_all L q x).mpr hqx⟩
        exact hx2 q hq1 hmem (by simpa using (Ne.symm hqne))
      · have : ∃ h' ∈ R, h' ≠ h ∧ Reach m.allDownOf h' q := by
          apply Classical.byContradiction
          intro hno; exact hq1 ((hto1 q).mpr ⟨hq, hno⟩)
        obtain ⟨h', hh', hne', hr'⟩ := this
        exact hx1'.2 ⟨h', hh', hne', Reach.trans _ hr' hqx⟩
    · exact hx1'.2 ⟨h, hhR, hhr, Reach.trans _ hreach (Reach.single _ hxc)⟩
  · rintro ⟨hxr, hS⟩
    have hxn : x ∈ m.normDownOf r := by
      apply Classical.byContradiction
      intro hn
      obtain ⟨a, hne, hra, hxa⟩ := L.norm_drop r x hxr hn
      have hra' : Reach m.allDownOf r a :=
        reach_mono (fun i q hq => L.norm_sub_all i q (L.down_sub_norm i q hq)) hra
      exact hS a (closedA_reach inv.closed hrA hra') hne hxa
    have hxnotrow : x ∉ R := fun hx => ((inv.rows x).mp hx).2 r hrA hxr
    refine ⟨(hto1 x).mpr ⟨hxn, ?_⟩, ?_⟩
    · rintro ⟨h, hh, hne, hreach⟩
      have hhx : h ≠ x := fun e => hxnotrow (e ▸ hh)
      obtain ⟨c, hhc, hxc⟩ := reach_last_edge hreach hhx
      have hcA : c ∈ A := closedA_reach inv.closed ((inv.rows h).mp hh).1 hhc
      have hcr : c ≠ r := by
        intro e; subst e
        exact row_not_below L inv hrR ((inv.rows h).mp hh).1 hne hhc
      exact hS c hcA hcr hxc
    · intro q hq1 hqanc hqx
      -- x would be a proper ancestor of another re-inserted revision q
      have hq1' := (hto1 q).mp hq1
      obtain ⟨t, ht, hreach⟩ := (mem_ancestors_iff m [q] x).mp hqanc
      simp at ht; subst ht
      have hreach' : Reach m.allDownOf t x := (reach_norm_iff_all L t x).mp hreach
      have hne : t ≠ x := by
        have : x ≠ t := by simpa using hqx
        exact Ne.symm this
      obtain ⟨c, htc, hxc⟩ := reach_last_edge hreach' hne
      have htA : t ∈ A := hparA t (L.norm_sub_all r t hq1'.1)
      have hcA : c ∈ A := closedA_reach inv.closed htA htc
      have hcr : c ≠ r := by
        intro e; subst e
        have h1 := reach_rank_le' hrank htc
        have h2 := hrank c t (L.norm_sub_all c t hq1'.1); omega
      exact hS c hcA hcr hxc


theorem unmergeTo_nodup {m : LMap} (L : Loaded m) (R : List Id) (r : Id) : (unmergeToRevisions m R r).Nodup := by
  unfold unmergeToRevisions
  simp only
  apply List.Pairwise.filter
  split
  · exact List.Pairwise.filter _ (L.normDown_nodup r)
  · exact L.normDown_nodup r

theorem unmergeTo_sub {m : LMap} (R : List Id) (r : Id) : ∀ x ∈ unmergeToRevisions m R r, x ∈ m.normDownOf r := by
  intro x hx
  unfold unmergeToRevisions at hx
  simp only at hx
  have h1 := (List.mem_filter.mp hx).1
  split at h1
  · exact (List.mem_filter.mp h1).1
  · exact h1

/-- **Downgrade step.** If the table is consistent with the applied set `A` and `r` is a row
(no applied revision needs it), recording the downgrade of `r` succeeds and the table is
consistent with `A` without `r`. -/
theorem step_down {m : LMap} (L : Loaded m) {A R : List Id} (inv : RowsInv m A R) (r : Id) (hrR : r ∈ R) :
    ∃ R' st, updateToStep m R (.rev r false) = .ok (R', st) ∧ RowsInv m (A.filter (· != r)) R' := by
  obtain ⟨rank, hrank⟩ := L.ranked
  have hrA : r ∈ A := ((inv.rows r).mp hrR).1
  have hto := mem_unmergeTo L inv r hrR
  have htoR : ∀ t ∈ unmergeToRevisions m R r, t ∉ R := by
    intro t ht htR
    exact ((inv.rows t).mp htR).2 r hrA ((hto t).mp ht).1
  suffices h : ∃ R' st, updateToStep m R (.rev r false) = .ok (R', st) ∧
      RowSet R' (fun x => (x ∈ R ∧ x ≠ r) ∨ x ∈ unmergeToRevisions m R r) by
    obtain ⟨R', st, h1, hs⟩ := h
    refine ⟨R', st, h1, hs.nodup, ?_, ?_⟩
    · intro x
      rw [hs.iff x]
      constructor
      · rintro (⟨hx, hne⟩ | hx)
        · have hmax := (inv.rows x).mp hx
          refine ⟨List.mem_filter.mpr ⟨hmax.1, by simpa using hne⟩, ?_⟩
          intro c hc; exact hmax.2 c (List.mem_filter.mp hc).1
        · have hx' := (hto x).mp hx
          have hxA : x ∈ A := inv.closed r hrA x hx'.1
          have hxr : x ≠ r := by
            intro e; subst e; have := hrank _ _ hx'.1; omega
          refine ⟨List.mem_filter.mpr ⟨hxA, by simpa using hxr⟩, ?_⟩
          intro c hc
          have hc' := List.mem_filter.mp hc
          exact hx'.2 c hc'.1 (by simpa using hc'.2)
      · rintro ⟨hxA', hmax⟩
        have hxA := List.mem_filter.mp hxA'
        have hxr : x ≠ r := by simpa using hxA.2
        by_cases hchild : x ∈ m.allDownOf r
        · right
          refine (hto x).mpr ⟨hchild, ?_⟩
          intro c hc hcr
          exact hmax c (List.mem_filter.mpr ⟨hc, by simpa using hcr⟩)
        · left
          refine ⟨(inv.rows x).mpr ⟨hxA.1, ?_⟩, hxr⟩
          intro c hc
          by_cases hcr : c = r
          · subst hcr; exact hchild
          · exact hmax c (List.mem_filter.mpr ⟨hc, by simpa using hcr⟩)
    · intro x hx p hp
      have hx' := List.mem_filter.mp hx
      refine List.mem_filter.mpr ⟨inv.closed x hx'.1 p hp, ?_⟩
      have : p ≠ r := by
        intro e; subst e
        exact ((inv.rows p).mp hrR).2 x hx'.1 hp
      simpa using this
  have hrun : ∀ st R', stepStmts m R (.rev r false) = .ok st → applyStmts R st = .ok R' →
      updateToStep m R (.rev r false) = .ok (R', st) := by
    intro st R' h1 h2; unfold updateToStep; rw [h1]; simp only; rw [h2]
  by_cases hA : (m.normDownOf r).isEmpty || (unmergeToRevisions m R r).isEmpty
  · -- nothing to put back: DELETE
    have hst : stepStmts m R (.rev r false) = .ok [.del r] := by
      unfold stepStmts; simp only [hrR, decide_true, Bool.true_and, hA, if_true]
    have htoNil : unmergeToRevisions m R r = [] := by
      simp only [Bool.or_eq_true, List.isEmpty_iff] at hA
      rcases hA with hA | hA
      · apply List.eq_nil_iff_forall_not_mem.mpr
        intro x hx; have := unmergeTo_sub R r x hx; rw [hA] at this; simp at this
      · exact hA
    obtain ⟨R', h1, hs⟩ := del_ok inv.nodup hrR
    refine ⟨R', _, hrun _ _ hst h1, hs.nodup, ?_⟩
    intro x; rw [hs.iff x, htoNil]; simp
  · have hne : unmergeToRevisions m R r ≠ [] := by
      simp only [Bool.or_eq_true, List.isEmpty_iff, not_or] at hA; exact hA.2
    have hdne : m.normDownOf r ≠ [] := by
      simp only [Bool.or_eq_true, List.isEmpty_iff, not_or] at hA; exact hA.1
    by_cases hB : (m.normDownOf r).length > 1
    · -- several down revisions: INSERT all but one, UPDATE r to the last
      obtain ⟨R', hok, hs⟩ := unfold_ok R inv.nodup _ (unmergeTo_nodup L R r) hne htoR r hrR
      have hst : stepStmts m R (.rev r false) =
          .ok ((unmergeToRevisions m R r).dropLast.map .ins ++ [.upd r ((unmergeToRevisions m R r).getLast hne)]) := by
        unfold stepStmts
        simp only [hrR, decide_true, Bool.true_and, hA, hB, if_true, Bool.false_eq_true, if_false]
        cases hrev : (unmergeToRevisions m R r).reverse with
        | nil => simp at hrev; exact absurd hrev hne
        | cons last initRev =>
          obtain ⟨_, h1, h2⟩ := reverse_cons_split hrev
          simp only [h1, h2]
      exact ⟨R', _, hrun _ _ hst hok, hs⟩
    · -- a single down revision: UPDATE r to it
      have hlen : (m.normDownOf r).length = 1 := by
        have : (m.normDownOf r).length ≠ 0 := fun e => hdne (List.length_eq_zero_iff.mp e)
        omega
      match hdn : m.normDownOf r, hlen with
      | [d], _ =>
        have hto1 : unmergeToRevisions m R r = [d] := by
          have hsub := unmergeTo_sub (m := m) R r
          rw [hdn] at hsub
          have hnd := unmergeTo_nodup L R r
          cases hu : unmergeToRevisions m R r with
          | nil => exact absurd hu hne
          | cons a rest =>
            have ha : a = d := by simpa using hsub a (by rw [hu]; exact List.mem_cons_self)
            subst ha
            cases rest with
            | nil => rfl
            | cons b _ =>
              have hb : b = a := by simpa using hsub b (by rw [hu]; simp)
              rw [hu] at hnd; simp [hb] at hnd
        have hst : stepStmts m R (.rev r false) = .ok [.upd r d] := by
          unfold stepStmts
          simp only [hrR, decide_true, Bool.true_and, hA, hB, Bool.false_eq_true, if_false]
          simp [hdn]
        have hdR : d ∉ R := htoR d (by rw [hto1]; exact List.mem_cons_self)
        obtain ⟨R', hok, hs⟩ := upd_ok inv.nodup hrR hdR
        refine ⟨R', _, hrun _ _ hst hok, hs.nodup, ?_⟩
        intro x; rw [hs.iff x, hto1]; simp

end Lemmas.Rev
