import Lemmas.Rev.Loaded
import Lemmas.Rev.Topo
/-!
# `_revisions_in_cycles` (`peel`) decides acyclicity; reachability checks pass on acyclic maps
-/
namespace Lemmas.Rev
open Model.Rev Spec.Rev

/-- an element of minimal rank -/
theorem exists_min_rank (rank : Id → Nat) : ∀ (l : List Id), l ≠ [] → ∃ x ∈ l, ∀ y ∈ l, rank x ≤ rank y
  | [], h => absurd rfl h
  | [a], _ => ⟨a, by simp, by simp⟩
  | a :: b :: r, _ => by
    obtain ⟨x, hx, hmin⟩ := exists_min_rank rank (b :: r) (by simp)
    by_cases h : rank a ≤ rank x
    · refine ⟨a, by simp, ?_⟩
      intro y hy
      rcases List.mem_cons.mp hy with e | hy'
      · subst e; omega
      · have := hmin y hy'; omega
    · refine ⟨x, List.mem_cons_of_mem _ hx, ?_⟩
      intro y hy
      rcases List.mem_cons.mp hy with e | hy'
      · subst e; omega
      · exact hmin y hy'

theorem peelOnce_sub (succ : Id → List Id) (l : List Id) : ∀ x ∈ peelOnce succ l, x ∈ l :=
  fun _ hx => (List.mem_filter.mp hx).1

/-- on an acyclic graph a pass removes something -/
theorem peelOnce_lt (succ : Id → List Id) (rank : Id → Nat) (l : List Id) (hne : l ≠ [])
    (hr : ∀ x ∈ l, ∀ p ∈ succ x, p ∈ l → rank p < rank x) :
    (peelOnce succ l).length < l.length := by
  obtain ⟨x, hx, hmin⟩ := exists_min_rank rank l hne
  unfold peelOnce
  have hxout : x ∉ l.filter (fun r => (succ r).any (· ∈ l)) := by
    intro h
    have := (List.mem_filter.mp h).2
    simp only [List.any_eq_true, decide_eq_true_eq] at this
    obtain ⟨p, hp, hpl⟩ := this
    have h1 := hr x hx p hp hpl
    have h2 := hmin p hpl
    omega
  have hle := List.length_filter_le (fun r => (succ r).any (· ∈ l)) l
  apply Nat.lt_of_le_of_ne hle
  intro heq
  have : l.filter (fun r => (succ r).any (· ∈ l)) = l := List.filter_eq_self.mpr (by
    have := List.length_filter_eq_length_iff.mp heq
    exact this)
  rw [this] at hxout
  exact hxout hx

/-- **acyclic ⇒ the peeling ends empty** (the check never rejects an acyclic graph) -/
theorem peel_of_ranked (succ : Id → List Id) (rank : Id → Nat) :
    ∀ (fuel : Nat) (l : List Id), l.length ≤ fuel →
      (∀ x ∈ l, ∀ p ∈ succ x, p ∈ l → rank p < rank x) → peel succ fuel l = [] := by
  intro fuel
  induction fuel with
  | zero => intro l hl _; simp [peel]; exact List.length_eq_zero_iff.mp (by omega)
  | succ n ih =>
    intro l hl hr
    simp only [peel]
    by_cases hne : l = []
    · subst hne; simp [peelOnce]
    · have hlt := peelOnce_lt succ rank l hne hr
      have hneq : ¬ ((peelOnce succ l).length == l.length) = true := by
        simp; omega
      simp only [hneq, if_false]
      apply ih
      · omega
      · intro x hx p hp hpl
        exact hr x (peelOnce_sub succ l x hx) p hp (peelOnce_sub succ l p hpl)

/-- **a cycle survives every pass** (the check always rejects a cyclic graph): a set of nodes
each of which has a successor in the set is never removed -/
theorem peel_keeps_cycle (succ : Id → List Id) (S : List Id) (hS : ∀ x ∈ S, ∃ p ∈ succ x, p ∈ S) :
    ∀ (fuel : Nat) (l : List Id), (∀ x ∈ S, x ∈ l) → ∀ x ∈ S, x ∈ peel succ fuel l := by
  intro fuel
  induction fuel with
  | zero => intro l hl x hx; simpa [peel] using hl x hx
  | succ n ih =>
    intro l hl x hx
    simp only [peel]
    split
    · exact hl x hx
    · apply ih _ _ x hx
      intro y hy
      unfold peelOnce
      rw [List.mem_filter]
      refine ⟨hl y hy, ?_⟩
      obtain ⟨p, hp, hpS⟩ := hS y hy
      simp only [List.any_eq_true, decide_eq_true_eq]
      exact ⟨p, hp, hl p hpS⟩


/-! ## every node of a finite acyclic graph lies between a source and a sink -/

/-- climbing: above every node of `A` there is a node of `A` that no node of `A` points to -/
theorem exists_top (succ : Id → List Id) (rank : Id → Nat) (hrank : ∀ i, ∀ p ∈ succ i, rank p < rank i)
    (A : List Id) (a : Id) (ha : a ∈ A) :
    ∃ h, h ∈ A ∧ (∀ c ∈ A, h ∉ succ c) ∧ Reach succ h a := by
  have key : ∀ n a, a ∈ A → (A.filter (fun x => decide (rank a < rank x))).length = n →
      ∃ h, h ∈ A ∧ (∀ c ∈ A, h ∉ succ c) ∧ Reach succ h a := by
    intro n
    induction n using Nat.strongRecOn with
    | _ n ih =>
      intro a ha hn
      by_cases hmax : ∀ c ∈ A, a ∉ succ c
      · exact ⟨a, ha, hmax, Reach.refl _⟩
      · have : ∃ c, c ∈ A ∧ a ∈ succ c := by
          apply Classical.byContradiction
          intro hno; apply hmax; intro c hc hac; exact hno ⟨c, hc, hac⟩
        obtain ⟨c, hc, hac⟩ := this
        have hlt : rank a < rank c := hrank c a hac
        have hsmall : (A.filter (fun x => decide (rank c < rank x))).length <
            (A.filter (fun x => decide (rank a < rank x))).length := by
          apply filter_length_lt (w := c)
          · intro x hx; simp at hx ⊢; omega
          · exact hc
          · simpa using hlt
          · simp
        obtain ⟨h, h1, h2, h3⟩ := ih _ (by omega) c hc rfl
        exact ⟨h, h1, h2, Reach.trans _ h3 (Reach.single _ hac)⟩
  exact key _ a ha rfl

/-- descending: below every node there is a node without successors -/
theorem exists_bottom (succ : Id → List Id) (rank : Id → Nat) (hrank : ∀ i, ∀ p ∈ succ i, rank p < rank i) (a : Id) :
    ∃ b, succ b = [] ∧ Reach succ a b := by
  have key : ∀ n a, rank a = n → ∃ b, succ b = [] ∧ Reach succ a b := by
    intro n
    induction n using Nat.strongRecOn with
    | _ n ih =>
      intro a hn
      cases hs : succ a with
      | nil => exact ⟨a, hs, Reach.refl _⟩
      | cons p rest =>
        have hp : p ∈ succ a := by rw [hs]; exact List.mem_cons_self
        have := hrank a p hp
        obtain ⟨b, hb, hr⟩ := ih (rank p) (by omega) p rfl
        exact ⟨b, hb, Reach.step hp hr⟩
  exact key _ a rfl

/-- what `_detect_cycles` looks at -/
structure GraphFacts (m : LMap) : Prop where
  ids_nodup : m.ids.Nodup
  refs_closed : ∀ i, ∀ p ∈ m.allDownOf i, p ∈ m.ids
  down_sub_all : ∀ i, ∀ p ∈ m.downOf i, p ∈ m.allDownOf i
  heads_def : ∀ x, x ∈ m.heads ↔ x ∈ m.ids ∧ ∀ c ∈ m.ids, x ∉ m.downOf c
  realHeads_def : ∀ x, x ∈ m.realHeads ↔ x ∈ m.ids ∧ ∀ c ∈ m.ids, x ∉ m.allDownOf c
  bases_def : ∀ x, x ∈ m.bases ↔ x ∈ m.ids ∧ m.downOf x = []
  realBases_def : ∀ x, x ∈ m.realBases ↔ x ∈ m.ids ∧ m.allDownOf x = []

theorem reach_in_ids {m : LMap} (G : GraphFacts m) {x y : Id} (hx : x ∈ m.ids) (hr : Reach m.allDownOf x y) : y ∈ m.ids := by
  induction hr with
  | refl _ => exact hx
  | step hs _ ih => exact ih (G.refs_closed _ _ hs)

theorem nextrev_nil' {m : LMap} (G : GraphFacts m) (x : Id) (hx : x ∉ m.ids) : m.nextrev x = [] := by
  apply List.eq_nil_iff_forall_not_mem.mpr
  intro y hy
  have := (nextrev_iff m G.ids_nodup x y).mp hy
  exact hx (G.refs_closed y x (G.down_sub_all y x this.2))

theorem allNextrev_nil' {m : LMap} (G : GraphFacts m) (x : Id) (hx : x ∉ m.ids) : m.allNextrev x = [] := by
  apply List.eq_nil_iff_forall_not_mem.mpr
  intro y hy
  have := (allNextrev_iff m G.ids_nodup x y).mp hy
  exact hx (G.refs_closed y x this.2)

theorem reach_inv_down {m : LMap} (G : GraphFacts m) {a b : Id} (h : Reach m.downOf a b) : Reach m.nextrev b a := by
  induction h with
  | refl _ => exact Reach.refl _
  | @step x p c hs _ ih =>
    have hx : x ∈ m.ids := by
      apply Classical.byContradiction
      intro hn; rw [downOf_nil m x hn] at hs; simp at hs
    exact Reach.trans _ ih (Reach.single _ ((nextrev_iff m G.ids_nodup p x).mpr ⟨hx, hs⟩))

theorem reach_inv_all {m : LMap} (G : GraphFacts m) {a b : Id} (h : Reach m.allDownOf a b) : Reach m.allNextrev b a := by
  induction h with
  | refl _ => exact Reach.refl _
  | @step x p c hs _ ih =>
    have hx : x ∈ m.ids := by
      apply Classical.byContradiction
      intro hn; rw [allDownOf_nil m x hn] at hs; simp at hs
    exact Reach.trans _ ih (Reach.single _ ((allNextrev_iff m G.ids_nodup p x).mpr ⟨hx, hs⟩))

/-- **An acyclic map passes `_detect_cycles`.** -/
theorem detect_ok_of_ranked {m : LMap} (G : GraphFacts m) (rank : Id → Nat)
    (hrank : ∀ i, ∀ p ∈ m.allDownOf i, rank p < rank i) : detectCycles m = .ok () := by
  have hrankd : ∀ i, ∀ p ∈ m.downOf i, rank p < rank i := fun i p hp => hrank i p (G.down_sub_all i p hp)
  unfold detectCycles
  by_cases hemp : m.revs.isEmpty = true
  · simp [hemp]
  · simp only [hemp, Bool.false_eq_true, if_false]
    have hne : m.ids ≠ [] := by
      intro e
      have : m.revs = [] := by simpa [LMap.ids] using e
      simp [this] at hemp
    obtain ⟨a0, ha0⟩ := List.exists_mem_of_ne_nil _ hne
    -- down-revision edges
    have topD : ∀ a ∈ m.ids, ∃ h ∈ m.heads, Reach m.downOf h a := by
      intro a ha
      obtain ⟨h, h1, h2, h3⟩ := exists_top m.downOf rank hrankd m.ids a ha
      exact ⟨h, (G.heads_def h).mpr ⟨h1, h2⟩, h3⟩
    have botD : ∀ a ∈ m.ids, ∃ b ∈ m.bases, Reach m.nextrev b a := by
      intro a ha
      obtain ⟨b, hb, hr⟩ := exists_bottom m.downOf rank hrankd a
      have hbids : b ∈ m.ids := reach_in_ids G ha (reach_mono G.down_sub_all hr)
      exact ⟨b, (G.bases_def b).mpr ⟨hbids, hb⟩, reach_inv_down G hr⟩
    have topA : ∀ a ∈ m.ids, ∃ h ∈ m.realHeads, Reach m.allDownOf h a := by
      intro a ha
      obtain ⟨h, h1, h2, h3⟩ := exists_top m.allDownOf rank hrank m.ids a ha
      exact ⟨h, (G.realHeads_def h).mpr ⟨h1, h2⟩, h3⟩
    have botA : ∀ a ∈ m.ids, ∃ b ∈ m.realBases, Reach m.allNextrev b a := by
      intro a ha
      obtain ⟨b, hb, hr⟩ := exists_bottom m.allDownOf rank hrank a
      exact ⟨b, (G.realBases_def b).mpr ⟨reach_in_ids G ha hr, hb⟩, reach_inv_all G hr⟩
    have c1 : ¬ (m.heads.isEmpty = true ∨ m.bases.isEmpty = true) := by
      obtain ⟨h, hh, _⟩ := topD a0 ha0
      obtain ⟨b, hb, _⟩ := botD a0 ha0
      intro hc
      rcases hc with hc | hc
      · rw [List.isEmpty_iff.mp hc] at hh; simp at hh
      · rw [List.isEmpty_iff.mp hc] at hb; simp at hb
    have c2 : ¬ (m.ids.any fun i => decide ¬(i ∈ m.closure m.downOf m.heads ∧ i ∈ m.closure m.nextrev m.bases)) = true := by
      simp only [List.any_eq_true, decide_eq_true_eq, not_exists, not_and]
      intro i hi hh
      exact hh ((mem_closureOf_iff m.downOf m.ids m.heads (downOf_nil m) i).mpr (topD i hi))
        ((mem_closureOf_iff m.nextrev m.ids m.bases (nextrev_nil' G) i).mpr (botD i hi))
    have c3 : ¬ (m.realHeads.isEmpty = true ∨ m.realBases.isEmpty = true) := by
      obtain ⟨h, hh, _⟩ := topA a0 ha0
      obtain ⟨b, hb, _⟩ := botA a0 ha0
      intro hc
      rcases hc with hc | hc
      · rw [List.isEmpty_iff.mp hc] at hh; simp at hh
      · rw [List.isEmpty_iff.mp hc] at hb; simp at hb
    have c4 : ¬ (m.ids.any fun i => decide ¬(i ∈ m.closure m.allDownOf m.realHeads ∧ i ∈ m.closure m.allNextrev m.realBases)) = true := by
      simp only [List.any_eq_true, decide_eq_true_eq, not_exists, not_and]
      intro i hi hh
      exact hh ((mem_closureOf_iff m.allDownOf m.ids m.realHeads (allDownOf_nil m) i).mpr (topA i hi))
        ((mem_closureOf_iff m.allNextrev m.ids m.realBases (allNextrev_nil' G) i).mpr (botA i hi))
    have c5 : peel m.downOf m.ids.length m.ids = [] :=
      peel_of_ranked m.downOf rank _ _ (Nat.le_refl _) (fun x _ p hp _ => hrankd x p hp)
    have c6 : peel m.allDownOf m.ids.length m.ids = [] :=
      peel_of_ranked m.allDownOf rank _ _ (Nat.le_refl _) (fun x _ p hp _ => hrank x p hp)
    simp only [c1, c2, c3, c4, c5, c6, if_false, List.isEmpty_nil, Bool.not_true, Bool.false_eq_true]

theorem phase1_heads {h : Hist} {m1 : LMap} (h1 : loadPhase1 h = .ok m1) :
    m1.heads = (m1.ids.filter (fun i => (m1.nextrev i).isEmpty)) ∧
    m1.realHeads = (m1.ids.filter (fun i => (m1.allNextrev i).isEmpty)) ∧
    m1.bases = (h.filter (fun r => r.down.isEmpty)).map (·.id) ∧
    m1.realBases = (h.filter (fun r => r.down.isEmpty ∧ r.deps.isEmpty)).map (·.id) := by
  unfold loadPhase1 at h1
  simp only [bind, Except.bind] at h1
  split at h1
  · simp at h1
  · split at h1
    · simp at h1
    · rename_i lk' hlk'
      split at h1
      · simp [throw, throwThe, MonadExceptOf.throw] at h1
      · simp only [pure, Except.pure, Except.ok.injEq] at h1
        subst h1
        refine ⟨?_, ?_, rfl, rfl⟩
        · simp only [LMap.ids, List.filter_map, Function.comp_def]; rfl
        · simp only [LMap.ids, List.filter_map, Function.comp_def]; rfl

/-- the graph of the phase-1 map, read off the history -/
theorem phase1_graph {h : Hist} {m1 : LMap} (h1 : loadPhase1 h = .ok m1)
    (hu : (h.map (·.id)).Nodup) :
    ∃ lk, mapBranchLabels (h.map (·.id)) (h.filter (fun r => r.labels ≠ [])) [] = .ok lk ∧
      m1.revs = phase1Revs h lk ∧ (∀ e ∈ lk, e.2 ∈ h.map (·.id)) ∧
      (∀ r ∈ h, ∀ d ∈ r.down ++ r.deps, (lookupKey (h.map (·.id)) lk d).isSome) ∧
      m1.ids = h.map (·.id) ∧
      (∀ r ∈ h, m1.get? r.id = some (p1Rev h lk r)) := by
  obtain ⟨lk, hlk, hchk, hrevs, _⟩ := phase1_ok h1
  have hids1 : m1.ids = h.map (·.id) := by
    simp [LMap.ids, hrevs, phase1Revs, List.map_map, Function.comp_def]
  have hlkv : ∀ e ∈ lk, e.2 ∈ h.map (·.id) :=
    mapBranchLabels_vals (h.map (·.id)) _ [] lk
      (fun r hr => List.mem_map.mpr ⟨r, (List.mem_filter.mp hr).1, rfl⟩) (by simp) hlk
  refine ⟨lk, hlk, hrevs, hlkv, hchk, hids1, ?_⟩
  intro r hr
  have hmem : p1Rev h lk r ∈ m1.revs := by
    rw [hrevs, phase1Revs_eq]; exact List.mem_map.mpr ⟨r, hr, rfl⟩
  have := get?_of_mem m1 (by rw [hids1]; exact hu) hmem
  simpa [p1Rev] using this

theorem resolveDeps_nil_iff {ids : List Id} {lk : List (String × Id)} {deps : List String}
    (h : ∀ d ∈ deps, (lookupKey ids lk d).isSome) : resolveDeps ids lk deps = [] ↔ deps = [] := by
  constructor
  · intro he
    cases deps with
    | nil => rfl
    | cons d ds =>
      have := h d List.mem_cons_self
      cases hq : lookupKey ids lk d with
      | none => simp [hq] at this
      | some i => simp [resolveDeps, hq] at he
  · intro he; subst he; rfl

theorem dedupe_nil_iff (l : List String) : dedupe l = [] ↔ l = [] := by
  cases l <;> simp [dedupe]

/-- `GraphFacts` for the map `_detect_cycles` is run on -/
theorem graphFacts_of_phase1 {h : Hist} {m1 : LMap} (o : LoadOpts) (h1 : loadPhase1 h = .ok m1)
    (hu : (h.map (·.id)).Nodup) (hd : ∀ r ∈ h, ∀ d ∈ r.down, d ∈ h.map (·.id)) :
    GraphFacts (withNorm o m1) := by
  obtain ⟨lk, _, hrevs, hlkv, hchk, hids1, hget⟩ := phase1_graph h1 hu
  obtain ⟨hH, hRH, hB, hRB⟩ := phase1_heads h1
  have hk2 := withNorm_keeps o m1
  have hids : (withNorm o m1).ids = m1.ids := ids_mapRevs m1 _ (fun r => (hk2 r).1)
  have hdown : ∀ i, (withNorm o m1).downOf i = m1.downOf i := downOf_mapRevs m1 _ hk2
  have hall : ∀ i, (withNorm o m1).allDownOf i = m1.allDownOf i := allDownOf_mapRevs m1 _ hk2
  have hnodup : (withNorm o m1).ids.Nodup := by rw [hids, hids1]; exact hu
  -- shape of the edges for a revision of the history
  have hdownr : ∀ r ∈ h, m1.downOf r.id = r.down := by
    intro r hr; simp [LMap.downOf, hget r hr, p1Rev]
  have hallr : ∀ r ∈ h, m1.allDownOf r.id = dedupe (r.down ++ resolveDeps (h.map (·.id)) lk r.deps) := by
    intro r hr; simp [LMap.allDownOf, hget r hr, p1Rev, LRev.allDown]
  have hmemids : ∀ i, i ∈ m1.ids → ∃ r ∈ h, r.id = i := by
    intro i hi; rw [hids1] at hi; exact List.mem_map.mp hi
  have hrefs : ∀ i, ∀ p ∈ (withNorm o m1).allDownOf i, p ∈ (withNorm o m1).ids := by
    intro i p hp
    rw [hall i] at hp
    rw [hids, hids1]
    by_cases hi : i ∈ m1.ids
    · obtain ⟨r, hr, e⟩ := hmemids i hi
      subst e
      rw [hallr r hr, mem_dedupe] at hp
      rcases List.mem_append.mp hp with hp | hp
      · exact hd r hr p hp
      · simp only [resolveDeps, List.mem_filterMap] at hp
        obtain ⟨k, _, hk⟩ := hp
        exact lookupKey_mem _ lk hlkv k p hk
    · rw [allDownOf_nil m1 i hi] at hp; simp at hp
  have hsub : ∀ i, ∀ p ∈ (withNorm o m1).downOf i, p ∈ (withNorm o m1).allDownOf i := by
    intro i p hp
    rw [hdown i] at hp; rw [hall i]
    by_cases hi : i ∈ m1.ids
    · obtain ⟨r, hr, e⟩ := hmemids i hi
      subst e
      rw [hdownr r hr] at hp
      rw [hallr r hr, mem_dedupe]; exact List.mem_append_left _ hp
    · rw [downOf_nil m1 i hi] at hp; simp at hp
  have hnx : ∀ i, (withNorm o m1).nextrev i = m1.nextrev i := nextrev_mapRevs m1 _ hk2
  have hanx : ∀ i, (withNorm o m1).allNextrev i = m1.allNextrev i := allNextrev_mapRevs m1 _ hk2
  have hnd1 : m1.ids.Nodup := by rw [hids1]; exact hu
  refine
    { ids_nodup := hnodup, refs_closed := hrefs, down_sub_all := hsub
      heads_def := ?_, realHeads_def := ?_, bases_def := ?_, realBases_def := ?_ }
  · intro x
    show x ∈ m1.heads ↔ _
    rw [hH, List.mem_filter, hids]
    simp only [List.isEmpty_iff]
    constructor
    · rintro ⟨hx, hn⟩
      refine ⟨hx, ?_⟩
      intro c hc hxc
      rw [hdown c] at hxc
      have : c ∈ m1.nextrev x := (nextrev_iff m1 hnd1 x c).mpr ⟨hc, hxc⟩
      rw [hn] at this; simp at this
    · rintro ⟨hx, hn⟩
      refine ⟨hx, ?_⟩
      apply List.eq_nil_iff_forall_not_mem.mpr
      intro c hc
      have := (nextrev_iff m1 hnd1 x c).mp hc
      exact hn c this.1 (by rw [hdown c]; exact this.2)
  · intro x
    show x ∈ m1.realHeads ↔ _
    rw [hRH, List.mem_filter, hids]
    simp only [List.isEmpty_iff]
    constructor
    · rintro ⟨hx, hn⟩
      refine ⟨hx, ?_⟩
      intro c hc hxc
      rw [hall c] at hxc
      have : c ∈ m1.allNextrev x := (allNextrev_iff m1 hnd1 x c).mpr ⟨hc, hxc⟩
      rw [hn] at this; simp at this
    · rintro ⟨hx, hn⟩
      refine ⟨hx, ?_⟩
      apply List.eq_nil_iff_forall_not_mem.mpr
      intro c hc
      have := (allNextrev_iff m1 hnd1 x c).mp hc
      exact hn c this.1 (by rw [hall c]; exact this.2)
  · intro x
    show x ∈ m1.bases ↔ _
    rw [hB, hids, hids1, hdown x]
    simp only [List.mem_map, List.mem_filter, List.isEmpty_iff]
    constructor
    · rintro ⟨r, ⟨hr, hdn⟩, e⟩
      subst e
      exact ⟨⟨r, hr, rfl⟩, by rw [hdownr r hr]; exact hdn⟩
    · rintro ⟨⟨r, hr, e⟩, hdn⟩
      subst e
      exact ⟨r, ⟨hr, by rw [hdownr r hr] at hdn; exact hdn⟩, rfl⟩
  · intro x
    show x ∈ m1.realBases ↔ _
    rw [hRB, hids, hids1, hall x]
    simp only [List.mem_map, List.mem_filter, List.isEmpty_iff, decide_eq_true_eq]
    constructor
    · rintro ⟨r, ⟨hr, hdn, hdp⟩, e⟩
      subst e
      refine ⟨⟨r, hr, rfl⟩, ?_⟩
      rw [hallr r hr, dedupe_nil_iff, hdn, hdp]; rfl
    · rintro ⟨⟨r, hr, e⟩, hdn⟩
      subst e
      rw [hallr r hr, dedupe_nil_iff] at hdn
      have h1' := List.append_eq_nil_iff.mp hdn
      refine ⟨r, ⟨hr, h1'.1, ?_⟩, rfl⟩
      exact (resolveDeps_nil_iff (fun d hd' => hchk r hr d (List.mem_append_right _ hd'))).mp h1'.2

end Lemmas.Rev
