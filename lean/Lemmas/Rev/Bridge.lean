import Lemmas.Rev.Cycles
/-!
# The loaded map's links are the links of the history as written

`m.allDownOf` (down revisions + dependencies as `load` resolved them) has the same members
as `Spec.Rev.parents h` (down revisions + dependencies resolved against the files: a revision
id, else the revision carrying that branch label).
-/
namespace Lemmas.Rev
open Model.Rev Spec.Rev

/-- the label keys in file order -/
def labelPairs (h : Hist) : List (String × Id) := h.flatMap (fun r => r.labels.map (fun l => (l, r.id)))

theorem addLabels_eq (ids : List Id) (r : Rev) : ∀ (ls : List String) (acc out : List (String × Id)),
    mapBranchLabels.addLabels ids r ls acc = .ok out → out = acc ++ ls.map (fun l => (l, r.id)) := by
  intro ls
  induction ls with
  | nil => intro acc out h; simp [mapBranchLabels.addLabels] at h; simp [h]
  | cons l ls ih =>
    intro acc out h
    simp only [mapBranchLabels.addLabels] at h
    split at h
    · simp at h
    · have := ih _ _ h
      rw [this]; simp

theorem mapBranchLabels_eq (ids : List Id) : ∀ (revs : List Rev) (acc out : List (String × Id)),
    mapBranchLabels ids revs acc = .ok out → out = acc ++ labelPairs revs := by
  intro revs
  induction revs with
  | nil => intro acc out h; simp [mapBranchLabels] at h; simp [h, labelPairs]
  | cons r rest ih =>
    intro acc out h
    simp only [mapBranchLabels] at h
    split at h
    · simp at h
    · rename_i acc' hadd
      have h1 := addLabels_eq ids r _ _ _ hadd
      have h2 := ih _ _ h
      rw [h2, h1]; simp [labelPairs]

theorem labelPairs_filter (h : Hist) (p : Rev → Bool) (hp : ∀ r, p r = false → r.labels = []) :
    labelPairs (h.filter p) = labelPairs h := by
  induction h with
  | nil => rfl
  | cons r rest ih =>
    cases hpr : p r
    · have := hp r hpr
      simp [List.filter_cons, hpr, labelPairs, this] at ih ⊢; exact ih
    · simp [List.filter_cons, hpr, labelPairs] at ih ⊢; rw [ih]

theorem find_map_pair (rid : Id) (d : String) : ∀ (ls : List String),
    (ls.map (fun l => (l, rid))).find? (·.1 == d) = if d ∈ ls then some (d, rid) else none
  | [] => by simp
  | a :: ls => by
    have ih := find_map_pair rid d ls
    by_cases e : a = d
    · subst e; simp
    · have hne : ¬ d = a := fun h => e h.symm
      simp only [List.map_cons, List.find?_cons, List.mem_cons, hne, false_or]
      have : ((a, rid).1 == d) = false := by simpa using e
      simp only [this]; exact ih

theorem find_labelPairs (h : Hist) (d : String) :
    ((labelPairs h).find? (·.1 == d)).map (·.2) = (h.find? (fun r => d ∈ r.labels)).map (·.id) := by
  induction h with
  | nil => rfl
  | cons r rest ih =>
    have hsplit : labelPairs (r :: rest) = r.labels.map (fun l => (l, r.id)) ++ labelPairs rest := by
      simp [labelPairs]
    rw [hsplit, List.find?_append, find_map_pair]
    by_cases hd : d ∈ r.labels
    · simp [hd, List.find?_cons]
    · simp [hd, List.find?_cons, ih]

/-- how `load` resolves a name is how the specification resolves it -/
theorem lookupKey_eq_resolveDep {h : Hist} {lk : List (String × Id)}
    (hlk : mapBranchLabels (h.map (·.id)) (h.filter (fun r => r.labels ≠ [])) [] = .ok lk) (d : String) :
    lookupKey (h.map (·.id)) lk d = resolveDep h d := by
  have hlk' : lk = labelPairs h := by
    have := mapBranchLabels_eq _ _ _ _ hlk
    rw [labelPairs_filter h _ (by intro r hr; simpa using hr)] at this
    simpa using this
  unfold lookupKey resolveDep
  by_cases hd : d ∈ h.map (·.id)
  · have : h.any (·.id == d) = true := by
      simp only [List.any_eq_true, beq_iff_eq]
      obtain ⟨r, hr, e⟩ := List.mem_map.mp hd
      exact ⟨r, hr, e⟩
    simp [hd, this]
  · have : h.any (·.id == d) = false := by
      simp only [List.any_eq_false, beq_iff_eq]
      intro r hr e; exact hd (List.mem_map.mpr ⟨r, hr, e⟩)
    simp only [hd, if_false, this, Bool.false_eq_true]
    rw [hlk']; exact find_labelPairs h d

/-- **The links of the loaded map are the links written in the files.** -/
theorem allDownOf_mem_iff_parents {h : Hist} {o : LoadOpts} {m : LMap} (hl : load h o = .ok m)
    (hu : (h.map (·.id)).Nodup) (i p : Id) : p ∈ m.allDownOf i ↔ p ∈ parents h i := by
  obtain ⟨m1, _, h1, _, _, _, _, hids, _, hall, _⟩ := load_graph hl
  obtain ⟨lk, hlk, hrevs, hlkv, hchk, hids1, hget⟩ := phase1_graph h1 hu
  rw [hall i]
  unfold parents revOf
  by_cases hi : i ∈ h.map (·.id)
  · obtain ⟨r, hr, e⟩ := List.mem_map.mp hi
    subst e
    have hfind : h.find? (·.id == r.id) = some r := by
      -- unique ids: looking `r.id` up finds `r`
      have key : ∀ (l : List Rev), (l.map (·.id)).Nodup → r ∈ l → l.find? (·.id == r.id) = some r := by
        intro l
        induction l with
        | nil => intro _ h'; simp at h'
        | cons x rest ih =>
          intro hn hx
          simp only [List.map_cons, List.nodup_cons] at hn
          rcases List.mem_cons.mp hx with e | hx'
          · subst e; simp
          · have hne : x.id ≠ r.id := by
              intro e; apply hn.1; rw [e]; exact List.mem_map.mpr ⟨r, hx', rfl⟩
            simp [hne, ih hn.2 hx']
      exact key h hu hr
    simp only [hfind]
    simp only [LMap.allDownOf, hget r hr, Option.map_some, Option.getD_some, LRev.allDown, p1Rev, mem_dedupe,
      List.mem_append, resolveDeps, List.mem_filterMap]
    constructor
    · rintro (h' | ⟨d, hd, hk⟩)
      · exact Or.inl h'
      · exact Or.inr ⟨d, hd, by rw [← lookupKey_eq_resolveDep hlk d]; exact hk⟩
    · rintro (h' | ⟨d, hd, hk⟩)
      · exact Or.inl h'
      · exact Or.inr ⟨d, hd, by rw [lookupKey_eq_resolveDep hlk d]; exact hk⟩
  · have hnone : h.find? (·.id == i) = none := by
      rw [List.find?_eq_none]; intro r hr; simp; intro e; exact hi (List.mem_map.mpr ⟨r, hr, e⟩)
    have : i ∉ m1.ids := by rw [hids1]; exact hi
    simp [hnone, allDownOf_nil m1 i this]

/-- the down-revisions of the loaded map are the `down_revision` entries written in the files -/
theorem downOf_eq_downParents {h : Hist} {o : LoadOpts} {m : LMap} (hl : load h o = .ok m)
    (hu : (h.map (·.id)).Nodup) (i : Id) : m.downOf i = downParents h i := by
  obtain ⟨m1, _, h1, _, _, _, _, hids, hdown, _⟩ := load_graph hl
  obtain ⟨lk, hlk, hrevs, hlkv, hchk, hids1, hget⟩ := phase1_graph h1 hu
  rw [hdown i]
  unfold downParents revOf
  by_cases hi : i ∈ h.map (·.id)
  · obtain ⟨r, hr, e⟩ := List.mem_map.mp hi
    subst e
    have hfind : h.find? (·.id == r.id) = some r := by
      have key : ∀ (l : List Rev), (l.map (·.id)).Nodup → r ∈ l → l.find? (·.id == r.id) = some r := by
        intro l
        induction l with
        | nil => intro _ h'; simp at h'
        | cons x rest ih =>
          intro hn hx
          simp only [List.map_cons, List.nodup_cons] at hn
          rcases List.mem_cons.mp hx with e | hx'
          · subst e; simp
          · have hne : x.id ≠ r.id := by
              intro e; apply hn.1; rw [e]; exact List.mem_map.mpr ⟨r, hx', rfl⟩
            simp [hne, ih hn.2 hx']
      exact key h hu hr
    simp [hfind, LMap.downOf, hget r hr, p1Rev]
  · have hnone : h.find? (·.id == i) = none := by
      rw [List.find?_eq_none]; intro r hr; simp; intro e; exact hi (List.mem_map.mpr ⟨r, hr, e⟩)
    have hni : i ∉ m1.ids := by rw [hids1]; exact hi
    have : m1.get? i = none := by
      unfold LMap.get?
      rw [List.find?_eq_none]
      intro r hr
      simp only [beq_iff_eq]
      intro e
      exact hni (List.mem_map.mpr ⟨r, hr, e⟩)
    simp [hnone, LMap.downOf, this]

/-- reachability in the loaded map is reachability in the history as written -/
theorem reach_allDown_iff_parents {h : Hist} {o : LoadOpts} {m : LMap} (hl : load h o = .ok m)
    (hu : (h.map (·.id)).Nodup) (x y : Id) : Reach m.allDownOf x y ↔ Reach (parents h) x y :=
  ⟨reach_mono (fun i p hp => (allDownOf_mem_iff_parents hl hu i p).mp hp),
   reach_mono (fun i p hp => (allDownOf_mem_iff_parents hl hu i p).mpr hp)⟩

/-- the oracle's ancestor set decides the specification's `IsAnc` -/
theorem mem_ancSet_iff (h : Hist) (roots : List Id) (x : Id) : x ∈ ancSet h roots ↔ IsAnc h roots x := by
  unfold ancSet closure IsAnc
  apply mem_closureOf_iff
  intro i hi
  unfold parents revOf
  have : h.find? (·.id == i) = none := by
    rw [List.find?_eq_none]; intro r hr; simp; intro e; exact hi (by unfold ids; exact List.mem_map.mpr ⟨r, hr, e⟩)
  simp [this]

theorem nodupB_iff : ∀ (l : List Id), nodupB l = true ↔ l.Nodup
  | [] => by simp [nodupB]
  | x :: r => by simp [nodupB, nodupB_iff r]

/-- the oracle's descendant set decides `IsDesc` when every referenced revision exists -/
theorem mem_descSet_iff (h : Hist) (hd : ∀ c ∈ ids h, ∀ p ∈ parents h c, p ∈ ids h) (roots : List Id) (x : Id) :
    x ∈ descSet h roots ↔ IsDesc h roots x := by
  unfold descSet Spec.Rev.closure IsDesc
  apply mem_closureOf_iff
  intro i hi
  unfold children
  apply List.filter_eq_nil_iff.mpr
  intro c hc
  simp only [decide_eq_true_eq]
  exact fun hp => hi (hd c hc i hp)


end Lemmas.Rev
