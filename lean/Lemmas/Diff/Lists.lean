import Spec.Diff
/-! Generic list facts used by the C06/C07 proofs. -/
namespace Lemmas.Diff

theorem flatMap_nil_of_forall {α β : Type} (l : List α) (f : α → List β) (h : ∀ x ∈ l, f x = []) :
    l.flatMap f = [] := by
  induction l with
  | nil => rfl
  | cons a r ih =>
    simp only [List.flatMap_cons]
    rw [h a (List.mem_cons_self), ih (fun x hx => h x (List.mem_cons_of_mem _ hx))]
    rfl

theorem filter_nil_of_forall {α : Type} (l : List α) (p : α → Bool) (h : ∀ x ∈ l, p x = false) :
    l.filter p = [] := by
  induction l with
  | nil => rfl
  | cons a r ih =>
    simp [List.filter_cons, h a (List.mem_cons_self), ih (fun x hx => h x (List.mem_cons_of_mem _ hx))]

/-- on a list with pairwise distinct keys, looking an element's key up finds that element -/
theorem find?_key_of_nodup {α : Type} (key : α → String) :
    ∀ (l : List α), (l.map key).Nodup → ∀ x ∈ l, l.find? (fun y => key y == key x) = some x := by
  intro l
  induction l with
  | nil => intro _ x hx; cases hx
  | cons a r ih =>
    intro hnd x hx
    simp only [List.map_cons, List.nodup_cons] at hnd
    rcases List.mem_cons.mp hx with h | h
    · subst h; simp
    · have hne : key a ≠ key x := by
        intro e
        exact hnd.1 (e ▸ List.mem_map_of_mem (f := key) h)
      simp only [List.find?_cons]
      have : (key a == key x) = false := by simpa using hne
      rw [this]
      exact ih hnd.2 x h

theorem find?_map_key {α β : Type} (g : α → β) (ka : α → String) (kb : β → String)
    (hk : ∀ a, kb (g a) = ka a) (n : String) (l : List α) :
    (l.map g).find? (fun y => kb y == n) = (l.find? (fun y => ka y == n)).map g := by
  induction l with
  | nil => rfl
  | cons a r ih =>
    simp only [List.map_cons, List.find?_cons, hk]
    cases h : (ka a == n) <;> simp [ih]

theorem contains_of_mem (l : List String) (x : String) (h : x ∈ l) : l.contains x = true := by
  simpa using h

end Lemmas.Diff

namespace Lemmas.Diff

theorem filter_all {α : Type} (l : List α) (p : α → Bool) (h : ∀ x ∈ l, p x = true) : l.filter p = l := by
  induction l with
  | nil => rfl
  | cons a r ih =>
    simp [h a (List.mem_cons_self), ih (fun x hx => h x (List.mem_cons_of_mem _ hx))]

theorem map_id_of_forall {α : Type} (l : List α) (f : α → α) (h : ∀ x ∈ l, f x = x) : l.map f = l := by
  induction l with
  | nil => rfl
  | cons a r ih =>
    simp [h a (List.mem_cons_self), ih (fun x hx => h x (List.mem_cons_of_mem _ hx))]

/-- splitting a list with pairwise distinct keys at one of its elements -/
theorem split_at_key {α : Type} (key : α → String) (l : List α) (hnd : (l.map key).Nodup) (x : α) (hx : x ∈ l) :
    ∃ s t, l = s ++ x :: t ∧ (∀ i ∈ s, key i ≠ key x) ∧ (∀ i ∈ t, key i ≠ key x) := by
  obtain ⟨s, t, rfl⟩ := List.append_of_mem hx
  refine ⟨s, t, rfl, ?_, ?_⟩
  · intro i hi e
    simp only [List.map_append, List.map_cons] at hnd
    rw [List.nodup_append] at hnd
    exact hnd.2.2 _ (List.mem_map_of_mem (f := key) hi) _ (List.mem_cons_self) e
  · intro i hi e
    simp only [List.map_append, List.map_cons] at hnd
    rw [List.nodup_append] at hnd
    have := (List.nodup_cons.mp hnd.2.1).1
    exact this (e ▸ List.mem_map_of_mem (f := key) hi)

theorem filter_ne_split {α : Type} (key : α → String) (s t : List α) (x : α)
    (hs : ∀ i ∈ s, key i ≠ key x) (ht : ∀ i ∈ t, key i ≠ key x) :
    (s ++ x :: t).filter (fun i => key i != key x) = s ++ t := by
  rw [List.filter_append, List.filter_cons]
  rw [filter_all s _ (fun i hi => by simpa using hs i hi), filter_all t _ (fun i hi => by simpa using ht i hi)]
  simp

theorem map_upd_split {α : Type} (key : α → String) (s t : List α) (x : α) (g : α → α)
    (hs : ∀ i ∈ s, key i ≠ key x) (ht : ∀ i ∈ t, key i ≠ key x) :
    (s ++ x :: t).map (fun i => if key i == key x then g i else i) = s ++ g x :: t := by
  rw [List.map_append, List.map_cons]
  rw [map_id_of_forall s _ (fun i hi => by simp [hs i hi]), map_id_of_forall t _ (fun i hi => by simp [ht i hi])]
  simp

end Lemmas.Diff

namespace Lemmas.Diff

theorem nodup_of_map {α β : Type} (f : α → β) (l : List α) (h : (l.map f).Nodup) : l.Nodup := by
  induction l with
  | nil => exact List.nodup_nil
  | cons a r ih =>
    simp only [List.map_cons, List.nodup_cons] at h ⊢
    exact ⟨fun hm => h.1 (List.mem_map_of_mem (f := f) hm), ih h.2⟩

end Lemmas.Diff
