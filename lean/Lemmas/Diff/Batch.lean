import Model.Diff.Batch
/-! The batch recreate decision is an `any`: independent of the order of the operations. -/
namespace Lemmas.Diff
open Model.Diff

theorem batchRecreates_append (l1 l2 : List Op) :
    batchRecreates (l1 ++ l2) = (batchRecreates l1 || batchRecreates l2) := by
  simp [batchRecreates, List.any_append]

theorem batchRecreates_iff (ops : List Op) : batchRecreates ops = true ↔ ∃ o ∈ ops, needsRecreate o = true := by
  simp [batchRecreates, List.any_eq_true]

/-- permuting the operations of a batch block does not change whether the table is recreated -/
theorem batchRecreates_perm {l1 l2 : List Op} (h : l1.Perm l2) : batchRecreates l1 = batchRecreates l2 := by
  have key : ∀ l : List Op, ∀ l' : List Op, l.Perm l' → (batchRecreates l = true → batchRecreates l' = true) := by
    intro l l' hp hl
    obtain ⟨o, ho, hn⟩ := (batchRecreates_iff l).mp hl
    exact (batchRecreates_iff l').mpr ⟨o, hp.mem_iff.mp ho, hn⟩
  cases h1 : batchRecreates l1 <;> cases h2 : batchRecreates l2
  · rfl
  · have := key l2 l1 h.symm h2; rw [h1] at this; cases this
  · have := key l1 l2 h h1; rw [h2] at this; cases this
  · rfl

/-- no early exit: an operation that needs the recreate decides it wherever it stands, in
particular after any number of added columns with plain (string / no) defaults -/
theorem batchRecreates_of_mem (pre post : List Op) (o : Op) (h : needsRecreate o = true) :
    batchRecreates (pre ++ o :: post) = true :=
  (batchRecreates_iff _).mpr ⟨o, by simp, h⟩

end Lemmas.Diff
