import Lemmas.Diff.ConvergeNamed
/-! Schema-level assembly of C06.converge. -/
namespace Lemmas.Diff
open Model.Diff Spec.Diff

/-! ## a newly created table -/

/-- the database table after `create_table` + the `create_index` ops that follow it -/
def newTable (t : Table) : DTable :=
  (compareIxUq t.name true [] (namedOf t.uqs t.ixs)).foldl applyT { createTable t with ixs := [] }

theorem foldl_named_fields (ops : List Op) (x : DTable) (h : ∀ op ∈ ops, isNamedOp op = true) :
    (ops.foldl applyT x).cols = x.cols ∧ (ops.foldl applyT x).fks = x.fks := by
  induction ops generalizing x with
  | nil => exact ⟨rfl, rfl⟩
  | cons o r ih =>
    simp only [List.foldl_cons]
    have ho := h o (List.mem_cons_self)
    obtain ⟨h1, h2⟩ := ih (applyT x o) (fun op hop => h op (List.mem_cons_of_mem _ hop))
    have : (applyT x o).cols = x.cols ∧ (applyT x o).fks = x.fks := by
      cases o <;> first | exact ⟨rfl, rfl⟩ | cases ho
    rw [h1, h2]; exact this

theorem newTable_named (t : Table) (hm : ((namedOf t.uqs t.ixs).map (·.name)).Nodup) (n : String) :
    findNamed (namedOf (newTable t).uqs (newTable t).ixs) n = findNamed (namedOf t.uqs t.ixs) n := by
  have hnil : (([] : List Named).map (·.name)).Nodup := by simp
  have hU : uqOf (newTable t).uqs n = uqOf t.uqs n := by
    unfold newTable
    rw [uqOf_foldl, foldl_compareIxUq (stepU n) n (fun op s h => stepU_ne n op s h) t.name true [] _ hnil hm]
    have : findNamed [] n = none := rfl
    rw [this]
    cases hf : findNamed (namedOf t.uqs t.ixs) n with
    | none => rfl
    | some m => cases m <;> simp [objAdded, stepU, createTable]
  have hI : ixOf (newTable t).ixs n = (match findNamed (namedOf t.uqs t.ixs) n with
      | some (.ix i) => some i
      | _ => none) := by
    unfold newTable
    rw [ixOf_foldl, foldl_compareIxUq (stepI n) n (fun op s h => stepI_ne n op s h) t.name true [] _ hnil hm]
    have : findNamed [] n = none := rfl
    rw [this]
    cases hf : findNamed (namedOf t.uqs t.ixs) n with
    | none => simp [ixOf]
    | some m =>
      have hn := findNamed_name _ _ _ hf
      cases m with
      | ix i => simp [objAdded, stepI, ixOf, Named.name] at hn ⊢; exact hn
      | uq u => simp [objAdded, ixOf]
  rw [findNamed_namedOf (newTable t).uqs (newTable t).ixs n, hU, hI, findNamed_namedOf t.uqs t.ixs n]
  cases hu : uqOf t.uqs n with
  | some u => rfl
  | none => cases hi : ixOf t.ixs n <;> simp

/-- a newly created table compares equal to its model -/
theorem newTable_quiet (cfg : Cfg) (t : Table) (hcols : (t.cols.map (·.name)).Nodup)
    (hok : ∀ c ∈ t.cols, colOk cfg c = true) (hm : ((namedOf t.uqs t.ixs).map (·.name)).Nodup) :
    compareTable cfg (reflectTable (newTable t)) t = [] := by
  have hf := foldl_named_fields (compareIxUq t.name true [] (namedOf t.uqs t.ixs)) { createTable t with ixs := [] }
    (fun op hop => (compareIxUq_ops _ _ _ _ op hop).1)
  have hc : (newTable t).cols = t.cols.map createCol := hf.1
  have hk : (newTable t).fks = t.fks := hf.2
  have h4 : compareIxUq t.name false (namedOf (newTable t).uqs (newTable t).ixs) (namedOf t.uqs t.ixs) = [] := by
    apply compareIxUq_nil_of
    · intro n hn; rw [newTable_named t hm n]; exact hn
    · intro n m hn; exact ⟨m, by rw [newTable_named t hm n]; exact hn, compareNamed_self _ _⟩
  unfold compareTable
  show addedCols t.name ((newTable t).cols.map reflectCol) t.cols ++
      alteredCols cfg t.name ((newTable t).cols.map reflectCol) t.cols ++
      compareIxUq t.name false (namedOf (newTable t).uqs (newTable t).ixs) (namedOf t.uqs t.ixs) ++
      compareFks t.name (newTable t).fks t.fks ++
      removedCols t.name ((newTable t).cols.map reflectCol) t.cols = []
  have hmap : (newTable t).cols.map reflectCol = t.cols.map (fun k => reflectCol (createCol k)) := by
    rw [hc, List.map_map]; rfl
  rw [hmap, hk, addedCols_self, alteredCols_self cfg _ _ hcols hok, removedCols_self, h4, compareFks_self]
  rfl

theorem newTable_name (t : Table) : (newTable t).name = t.name := by
  unfold newTable; rw [foldl_applyT_name]; rfl

end Lemmas.Diff

namespace Lemmas.Diff
open Model.Diff Spec.Diff

/-! ## per-name lookup of a table in the database and how each op moves it -/

def tblOf (db : Db) (n : String) : Option DTable := db.find? (fun x => x.name == n)

def stepT (n : String) : Option DTable → Op → Option DTable
  | o, .addTable t =>
    match o with
    | some x => some x
    | none => if t.name == n then some { createTable t with ixs := [] } else none
  | o, .removeTable t => if t == n then none else o
  | o, op => if opTable op == n then o.map (fun x => applyT x op) else o

theorem tblOf_updTable (db : Db) (t n : String) (f : DTable → DTable) (hf : ∀ x, (f x).name = x.name) :
    tblOf (updTable db t f) n = if t == n then (tblOf db n).map f else tblOf db n := by
  unfold tblOf updTable
  rw [find?_map_key (fun x => if x.name == t then f x else x) (·.name) (·.name)
    (by intro x; split <;> simp [hf]) n db]
  cases hfind : db.find? (fun y => y.name == n) with
  | none => simp
  | some k =>
    have hk : k.name = n := by simpa using List.find?_some hfind
    by_cases hc : t = n
    · subst hc; simp [hk]
    · have h1 : (t == n) = false := by simpa using hc
      have hne : k.name ≠ t := by rw [hk]; exact fun e => hc e.symm
      simp [h1, hne]

theorem tblOf_apply (db : Db) (op : Op) (n : String) : tblOf (apply db op) n = stepT n (tblOf db n) op := by
  cases op with
  | addTable t =>
    simp only [apply, stepT, tblOf, List.find?_append]
    cases h : db.find? (fun k => k.name == n) with
    | some k => simp
    | none =>
      simp only [Option.none_or, List.find?_cons, List.find?_nil]
      have : ({ createTable t with ixs := [] } : DTable).name = t.name := rfl
      rw [this]
      split <;> simp_all
  | removeTable t =>
    simp only [apply, stepT, tblOf]
    exact find?_filter_ne (·.name) db t n
  | addColumn t c => exact tblOf_updTable db t n _ (fun _ => rfl)
  | removeColumn t c => exact tblOf_updTable db t n _ (fun _ => rfl)
  | modifyType t c ty => exact tblOf_updTable db t n _ (fun _ => rfl)
  | modifyNullable t c b => exact tblOf_updTable db t n _ (fun _ => rfl)
  | modifyDefault t c d => exact tblOf_updTable db t n _ (fun _ => rfl)
  | addIndex t ix => exact tblOf_updTable db t n _ (fun _ => rfl)
  | removeIndex t ix => exact tblOf_updTable db t n _ (fun _ => rfl)
  | addUq t u => exact tblOf_updTable db t n _ (fun _ => rfl)
  | removeUq t u => exact tblOf_updTable db t n _ (fun _ => rfl)
  | addFk t f => exact tblOf_updTable db t n _ (fun _ => rfl)
  | removeFk t f => exact tblOf_updTable db t n _ (fun _ => rfl)

theorem tblOf_applyAll (ops : List Op) (db : Db) (n : String) :
    tblOf (applyAll db ops) n = ops.foldl (stepT n) (tblOf db n) := by
  induction ops generalizing db with
  | nil => rfl
  | cons o r ih =>
    simp only [applyAll, List.foldl_cons] at ih ⊢
    rw [ih, tblOf_apply]

theorem stepT_other (n : String) (op : Op) (s : Option DTable) (h : opTable op ≠ n) : stepT n s op = s := by
  cases op <;> cases s <;> simp_all [stepT, opTable]

/-- local ops on table `n` act inside the looked-up table -/
theorem foldl_stepT_local (n : String) (ops : List Op) (h : ∀ op ∈ ops, isLocal op = true ∧ opTable op = n) (s : Option DTable) :
    ops.foldl (stepT n) s = s.map (fun x => ops.foldl applyT x) := by
  induction ops generalizing s with
  | nil => cases s <;> rfl
  | cons o r ih =>
    simp only [List.foldl_cons]
    have ho := h o (List.mem_cons_self)
    rw [ih (fun op hop => h op (List.mem_cons_of_mem _ hop))]
    have : stepT n s o = s.map (fun x => applyT x o) := by
      cases o with
      | addTable t => cases ho.1
      | removeTable t => cases ho.1
      | _ => simp [stepT, opTable] at ho ⊢; simp [ho]
    rw [this]
    cases s <;> rfl

/-- folding over per-key blocks: blocks of other keys do not move the lookup -/
theorem foldl_flatMap_none {α σ : Type} (step : σ → Op → σ) (f : α → List Op) (L : List α)
    (h : ∀ a ∈ L, ∀ s, (f a).foldl step s = s) (s : σ) : (L.flatMap f).foldl step s = s := by
  induction L generalizing s with
  | nil => rfl
  | cons a r ih =>
    simp only [List.flatMap_cons, List.foldl_append]
    rw [h a (List.mem_cons_self), ih (fun b hb => h b (List.mem_cons_of_mem _ hb))]

theorem foldl_flatMap_mem {α σ : Type} (step : σ → Op → σ) (f : α → List Op) (L : List α) (a : α) (ha : a ∈ L)
    (h : ∀ b ∈ L, b ≠ a → ∀ s, (f b).foldl step s = s) (hnd : L.Nodup) (s : σ) :
    (L.flatMap f).foldl step s = (f a).foldl step s := by
  obtain ⟨l1, l2, rfl⟩ := List.append_of_mem ha
  have hn1 : a ∉ l1 := by
    intro hm
    rw [List.nodup_append] at hnd
    exact hnd.2.2 a hm a (List.mem_cons_self) rfl
  have hn2 : a ∉ l2 := by
    rw [List.nodup_append] at hnd
    exact (List.nodup_cons.mp hnd.2.1).1
  simp only [List.flatMap_append, List.flatMap_cons, List.foldl_append]
  rw [foldl_flatMap_none step f l1 (fun b hb s' => h b (List.mem_append.mpr (Or.inl hb)) (fun e => hn1 (e ▸ hb)) s')]
  rw [foldl_flatMap_none step f l2 (fun b hb s' => h b (List.mem_append.mpr (Or.inr (List.mem_cons_of_mem _ hb))) (fun e => hn2 (e ▸ hb)) s')]

end Lemmas.Diff

namespace Lemmas.Diff
open Model.Diff Spec.Diff

theorem findTable_some_iff (a : Schema) (hnd : (a.map (·.name)).Nodup) (n : String) (t : Table) :
    findTable a n = some t ↔ t ∈ a ∧ t.name = n := by
  unfold findTable
  constructor
  · intro h
    exact ⟨List.mem_of_find?_eq_some h, by simpa using List.find?_some h⟩
  · rintro ⟨ht, rfl⟩
    exact find?_key_of_nodup (·.name) a hnd t ht

theorem findTable_none_iff (a : Schema) (n : String) : findTable a n = none ↔ n ∉ a.map (·.name) := by
  unfold findTable
  rw [List.find?_eq_none]
  constructor
  · intro h hm
    obtain ⟨k, hk, hkn⟩ := List.mem_map.mp hm
    exact h k hk (by simpa using hkn)
  · intro h k hk e
    exact h (List.mem_map.mpr ⟨k, hk, by simpa using e⟩)

/-- the `create_table` blocks, seen from table name `n` -/
theorem foldl_created (n : String) (cn : List String) (b : Schema) (hnd : (b.map (·.name)).Nodup) (s : Option DTable) :
    ((b.filter (fun t => !cn.contains t.name)).flatMap
        (fun t => Op.addTable t :: compareIxUq t.name true [] (namedOf t.uqs t.ixs))).foldl (stepT n) s =
      match findTable b n with
      | some tb => if cn.contains n then s else
          (match s with
           | some x => some ((compareIxUq tb.name true [] (namedOf tb.uqs tb.ixs)).foldl applyT x)
           | none => some (newTable tb))
      | none => s := by
  have hother : ∀ t : Table, t.name ≠ n → ∀ s' : Option DTable,
      (Op.addTable t :: compareIxUq t.name true [] (namedOf t.uqs t.ixs)).foldl (stepT n) s' = s' := by
    intro t hne s'
    apply foldl_id_of
    intro op hop s''
    apply stepT_other
    rcases List.mem_cons.mp hop with rfl | h
    · exact hne
    · rw [(compareIxUq_ops _ _ _ _ op h).2]; exact hne
  cases hf : findTable b n with
  | none =>
    apply foldl_flatMap_none
    intro t ht s'
    apply hother
    intro e
    have : n ∈ b.map (·.name) := e ▸ List.mem_map_of_mem (f := (·.name)) (List.mem_filter.mp ht).1
    exact (findTable_none_iff b n).mp hf this
  | some tb =>
    obtain ⟨htb, htn⟩ := (findTable_some_iff b hnd n tb).mp hf
    by_cases hc : cn.contains n = true
    · simp only [hc, if_true]
      apply foldl_flatMap_none
      intro t ht s'
      apply hother
      intro e
      have := (List.mem_filter.mp ht).2
      rw [e, hc] at this
      cases this
    · have hc' : cn.contains n = false := by simpa using hc
      simp only [hc', Bool.false_eq_true, if_false]
      have hmem : tb ∈ b.filter (fun t => !cn.contains t.name) := by
        apply List.mem_filter.mpr
        exact ⟨htb, by rw [htn, hc']; rfl⟩
      rw [foldl_flatMap_mem (stepT n) _ _ tb hmem _ ((nodup_of_map (·.name) b hnd).filter _)]
      · simp only [List.foldl_cons]
        have hloc : ∀ op ∈ compareIxUq tb.name true [] (namedOf tb.uqs tb.ixs), isLocal op = true ∧ opTable op = n := by
          intro op hop
          have := compareIxUq_ops _ _ _ _ op hop
          refine ⟨?_, by rw [this.2, htn]⟩
          cases op <;> first | rfl | cases this.1
        rw [foldl_stepT_local n _ hloc]
        cases s with
        | some x => simp [stepT]
        | none => simp [stepT, htn, newTable]
      · intro t ht hne s'
        apply hother
        intro e
        apply hne
        have ht' := (List.mem_filter.mp ht).1
        have h1 := find?_key_of_nodup (·.name) b hnd t ht'
        have h2 := find?_key_of_nodup (·.name) b hnd tb htb
        rw [e, ← htn] at h1
        rw [h1] at h2
        exact Option.some.inj h2

end Lemmas.Diff

namespace Lemmas.Diff
open Model.Diff Spec.Diff

/-- the `drop_table` blocks, seen from table name `n` -/
theorem foldl_dropped (n : String) (mn : List String) (r : List RTable) (hnd : (r.map (·.name)).Nodup) (s : Option DTable) :
    ((r.filter (fun t => !mn.contains t.name)).flatMap
        (fun t => compareIxUq t.name true (namedOf [] t.ixs) [] ++ [Op.removeTable t.name])).foldl (stepT n) s =
      if mn.contains n then s else if n ∈ r.map (·.name) then none else s := by
  have hother : ∀ t : RTable, t.name ≠ n → ∀ s' : Option DTable,
      (compareIxUq t.name true (namedOf [] t.ixs) [] ++ [Op.removeTable t.name]).foldl (stepT n) s' = s' := by
    intro t hne s'
    apply foldl_id_of
    intro op hop s''
    apply stepT_other
    rcases List.mem_append.mp hop with h | h
    · rw [(compareIxUq_ops _ _ _ _ op h).2]; exact hne
    · simp only [List.mem_singleton] at h; subst h; exact hne
  by_cases hc : mn.contains n = true
  · simp only [hc, if_true]
    apply foldl_flatMap_none
    intro t ht s'
    apply hother
    intro e
    have := (List.mem_filter.mp ht).2
    rw [e, hc] at this
    cases this
  · have hc' : mn.contains n = false := by simpa using hc
    simp only [hc', Bool.false_eq_true, if_false]
    by_cases hin : n ∈ r.map (·.name)
    · simp only [hin, if_true]
      obtain ⟨rt, hrt, hrn⟩ := List.mem_map.mp hin
      have hmem : rt ∈ r.filter (fun t => !mn.contains t.name) :=
        List.mem_filter.mpr ⟨hrt, by rw [hrn, hc']; rfl⟩
      rw [foldl_flatMap_mem (stepT n) _ _ rt hmem _ ((nodup_of_map (·.name) r hnd).filter _)]
      · rw [List.foldl_append]
        simp [stepT, hrn]
      · intro t ht hne s'
        apply hother
        intro e
        apply hne
        have ht' := (List.mem_filter.mp ht).1
        have h1 := find?_key_of_nodup (·.name) r hnd t ht'
        have h2 := find?_key_of_nodup (·.name) r hnd rt hrt
        rw [e, ← hrn] at h1
        rw [h1] at h2
        exact Option.some.inj h2
    · simp only [hin, if_false]
      apply foldl_flatMap_none
      intro t ht s'
      apply hother
      intro e
      exact hin (e ▸ List.mem_map_of_mem (f := (·.name)) (List.mem_filter.mp ht).1)

theorem nodup_pairs (r : List RTable) (b : Schema) (hnd : (r.map (·.name)).Nodup) :
    (r.filterMap (fun ct => (findTable b ct.name).map (fun mt => (ct, mt)))).Nodup := by
  have hr := nodup_of_map (·.name) r hnd
  clear hnd
  induction r with
  | nil => simp
  | cons a l ih =>
    rw [List.nodup_cons] at hr
    simp only [List.filterMap_cons]
    cases hf : findTable b a.name with
    | none => simpa [hf] using ih hr.2
    | some mt =>
      simp only [Option.map_some]
      rw [List.nodup_cons]
      refine ⟨?_, ih hr.2⟩
      intro hm
      obtain ⟨ct, hct, hg⟩ := List.mem_filterMap.mp hm
      cases hf2 : findTable b ct.name with
      | none => rw [hf2] at hg; cases hg
      | some mt2 =>
        rw [hf2] at hg
        simp only [Option.map_some, Option.some.injEq, Prod.mk.injEq] at hg
        exact hr.1 (hg.1 ▸ hct)

/-- the per-table blocks of existing tables, seen from table name `n` -/
theorem foldl_existing (cfg : Cfg) (n : String) (r : List RTable) (b : Schema)
    (hr : (r.map (·.name)).Nodup) (hb : (b.map (·.name)).Nodup) (s : Option DTable) :
    ((sortTablesByName (r.filterMap (fun ct => (findTable b ct.name).map (fun mt => (ct, mt))))).flatMap
        (fun p => compareTable cfg p.1 p.2)).foldl (stepT n) s =
      match r.find? (fun x => x.name == n), findTable b n with
      | some ct, some tb => s.map (fun x => (compareTable cfg ct tb).foldl applyT x)
      | _, _ => s := by
  have hother : ∀ p : RTable × Table, p.2.name ≠ n → ∀ s' : Option DTable,
      (compareTable cfg p.1 p.2).foldl (stepT n) s' = s' := by
    intro p hne s'
    apply foldl_id_of
    intro op hop s''
    apply stepT_other
    rw [(compareTable_local cfg p.1 p.2 op hop).2]; exact hne
  have hmemL : ∀ p : RTable × Table, p ∈ sortTablesByName (r.filterMap (fun ct => (findTable b ct.name).map (fun mt => (ct, mt)))) ↔
      p.1 ∈ r ∧ findTable b p.1.name = some p.2 := by
    intro p
    unfold sortTablesByName
    rw [List.mem_mergeSort, List.mem_filterMap]
    constructor
    · rintro ⟨ct, hct, hg⟩
      cases hf : findTable b ct.name with
      | none => rw [hf] at hg; cases hg
      | some mt =>
        rw [hf] at hg
        simp only [Option.map_some, Option.some.injEq] at hg
        subst hg
        exact ⟨hct, hf⟩
    · rintro ⟨h1, h2⟩
      exact ⟨p.1, h1, by rw [h2]; rfl⟩
  have hLnd : (sortTablesByName (r.filterMap (fun ct => (findTable b ct.name).map (fun mt => (ct, mt))))).Nodup := by
    unfold sortTablesByName
    exact (List.mergeSort_perm _ _).nodup_iff.mpr (nodup_pairs r b hr)
  cases hfr : r.find? (fun x => x.name == n) with
  | none =>
    simp only
    apply foldl_flatMap_none
    intro p hp s'
    apply hother
    obtain ⟨h1, h2⟩ := (hmemL p).mp hp
    have hn2 := ((findTable_some_iff b hb _ _).mp h2).2
    intro e
    rw [List.find?_eq_none] at hfr
    have hp1n : p.1.name = n := hn2.symm.trans e
    exact hfr p.1 h1 (by simpa using hp1n)
  | some ct =>
    have hct := List.mem_of_find?_eq_some hfr
    have hctn : ct.name = n := by simpa using List.find?_some hfr
    cases hfb : findTable b n with
    | none =>
      simp only
      apply foldl_flatMap_none
      intro p hp s'
      apply hother
      obtain ⟨h1, h2⟩ := (hmemL p).mp hp
      have hn2 := ((findTable_some_iff b hb _ _).mp h2)
      intro e
      have : n ∈ b.map (·.name) := e ▸ List.mem_map_of_mem (f := (·.name)) hn2.1
      exact (findTable_none_iff b n).mp hfb this
    | some tb =>
      simp only
      have htbn := ((findTable_some_iff b hb _ _).mp hfb).2
      have hp : (ct, tb) ∈ sortTablesByName (r.filterMap (fun ct => (findTable b ct.name).map (fun mt => (ct, mt)))) :=
        (hmemL (ct, tb)).mpr ⟨hct, by rw [hctn]; exact hfb⟩
      rw [foldl_flatMap_mem (stepT n) _ _ (ct, tb) hp _ hLnd]
      · apply foldl_stepT_local
        intro op hop
        have := compareTable_local cfg ct tb op hop
        exact ⟨this.1, by rw [this.2, htbn]⟩
      · intro p hpm hne s'
        apply hother
        obtain ⟨h1, h2⟩ := (hmemL p).mp hpm
        have hn2 := ((findTable_some_iff b hb _ _).mp h2)
        intro e
        apply hne
        have hp1n : p.1.name = n := hn2.2.symm.trans e
        have hp1 : p.1 = ct := by
          have h1' := find?_key_of_nodup (·.name) r hr p.1 h1
          have h2' := find?_key_of_nodup (·.name) r hr ct hct
          rw [hp1n] at h1'
          rw [hctn, h1'] at h2'
          exact Option.some.inj h2'
        have hp2 : p.2 = tb := by
          rw [hp1n, hfb] at h2
          exact (Option.some.inj h2).symm
        cases p
        simp only at hp1 hp2
        rw [hp1, hp2]

end Lemmas.Diff

namespace Lemmas.Diff
open Model.Diff Spec.Diff

theorem tblOf_createAll (a : Schema) (n : String) : tblOf (createAll a) n = (findTable a n).map createTable := by
  unfold tblOf createAll findTable
  exact find?_map_key createTable (·.name) (·.name) (fun _ => rfl) n a

theorem find?_reflect (a : Schema) (n : String) :
    (reflect (createAll a)).find? (fun x => x.name == n) = (findTable a n).map (fun t => reflectTable (createTable t)) := by
  unfold reflect createAll findTable
  rw [List.map_map]
  exact find?_map_key (fun t => reflectTable (createTable t)) (·.name) (·.name) (fun _ => rfl) n a

/-- **where each table name ends up after the upgrade** -/
theorem tblOf_final (cfg : Cfg) (a b : Schema) (hwfA : WF a) (hwfB : WF b) (n : String) :
    tblOf (applyAll (createAll a) (diff cfg (reflect (createAll a)) b)) n =
      match findTable b n with
      | some tb => some (match findTable a n with
                         | some ta => transform cfg (createTable ta) tb
                         | none => newTable tb)
      | none => none := by
  have hR : ((reflect (createAll a)).map (·.name)).Nodup := by rw [reflect_names']; exact hwfA.tables_nodup
  rw [tblOf_applyAll]
  unfold diff
  simp only [List.foldl_append]
  rw [foldl_created n _ b hwfB.tables_nodup, foldl_dropped n _ _ hR, foldl_existing cfg n _ b hR hwfB.tables_nodup,
      tblOf_createAll, find?_reflect, reflect_names']
  cases hb : findTable b n with
  | some tb =>
    have hmn : (b.map (·.name)).contains n = true := by
      apply contains_of_mem
      have := (findTable_some_iff b hwfB.tables_nodup n tb).mp hb
      exact this.2 ▸ List.mem_map_of_mem (f := (·.name)) this.1
    cases ha : findTable a n with
    | some ta =>
      have hcn : (a.map (·.name)).contains n = true := by
        apply contains_of_mem
        have := (findTable_some_iff a hwfA.tables_nodup n ta).mp ha
        exact this.2 ▸ List.mem_map_of_mem (f := (·.name)) this.1
      simp only [hcn, hmn, if_true, Option.map_some]
      rfl
    | none =>
      have hcn : (a.map (·.name)).contains n = false :=
        contains_false_of_not_mem _ _ ((findTable_none_iff a n).mp ha)
      simp only [hcn, hmn, if_true, Bool.false_eq_true, if_false, Option.map_none]
  | none =>
    have hmn : (b.map (·.name)).contains n = false :=
      contains_false_of_not_mem _ _ ((findTable_none_iff b n).mp hb)
    cases ha : findTable a n with
    | some ta =>
      have hin : n ∈ a.map (·.name) := by
        have := (findTable_some_iff a hwfA.tables_nodup n ta).mp ha
        exact this.2 ▸ List.mem_map_of_mem (f := (·.name)) this.1
      simp only [hmn, hin, if_true, Bool.false_eq_true, if_false, Option.map_some]
    | none =>
      have hin : n ∉ a.map (·.name) := (findTable_none_iff a n).mp ha
      simp only [hmn, hin, if_true, Bool.false_eq_true, if_false, Option.map_none]

end Lemmas.Diff

namespace Lemmas.Diff
open Model.Diff Spec.Diff

/-! ## the table names of the database after the upgrade -/

def namesStep (l : List String) : Op → List String
  | .addTable t => l ++ [t.name]
  | .removeTable t => l.filter (fun x => x != t)
  | _ => l

theorem updTable_names (db : Db) (t : String) (f : DTable → DTable) (hf : ∀ x, (f x).name = x.name) :
    (updTable db t f).map (·.name) = db.map (·.name) := by
  simp only [updTable, List.map_map]
  apply List.map_congr_left
  intro x _
  simp only [Function.comp_apply]
  split <;> simp [hf]

theorem names_apply (db : Db) (op : Op) : (apply db op).map (·.name) = namesStep (db.map (·.name)) op := by
  cases op with
  | addTable t => simp [apply, namesStep, createTable]
  | removeTable t =>
    simp only [apply, namesStep]
    induction db with
    | nil => rfl
    | cons x r ih =>
      simp only [List.filter_cons, List.map_cons]
      by_cases h : (x.name != t) = true
      · simp [h, ih]
      · simp [h, ih]
  | addColumn t c => exact updTable_names db t _ (fun _ => rfl)
  | removeColumn t c => exact updTable_names db t _ (fun _ => rfl)
  | modifyType t c ty => exact updTable_names db t _ (fun _ => rfl)
  | modifyNullable t c b => exact updTable_names db t _ (fun _ => rfl)
  | modifyDefault t c d => exact updTable_names db t _ (fun _ => rfl)
  | addIndex t ix => exact updTable_names db t _ (fun _ => rfl)
  | removeIndex t ix => exact updTable_names db t _ (fun _ => rfl)
  | addUq t u => exact updTable_names db t _ (fun _ => rfl)
  | removeUq t u => exact updTable_names db t _ (fun _ => rfl)
  | addFk t f => exact updTable_names db t _ (fun _ => rfl)
  | removeFk t f => exact updTable_names db t _ (fun _ => rfl)

theorem names_applyAll (ops : List Op) (db : Db) :
    (applyAll db ops).map (·.name) = ops.foldl namesStep (db.map (·.name)) := by
  induction ops generalizing db with
  | nil => rfl
  | cons o r ih =>
    simp only [applyAll, List.foldl_cons] at ih ⊢
    rw [ih, names_apply]

theorem namesStep_local (l : List String) (op : Op) (h : isLocal op = true) : namesStep l op = l := by
  cases op <;> first | rfl | cases h

theorem foldl_namesStep_local (ops : List Op) (l : List String) (h : ∀ op ∈ ops, isLocal op = true) :
    ops.foldl namesStep l = l := by
  induction ops generalizing l with
  | nil => rfl
  | cons o r ih =>
    simp only [List.foldl_cons]
    rw [namesStep_local l o (h o (List.mem_cons_self)), ih _ (fun op hop => h op (List.mem_cons_of_mem _ hop))]

theorem isLocal_of_named (op : Op) (h : isNamedOp op = true) : isLocal op = true := by
  cases op <;> first | rfl | cases h

theorem names_created (news : List Table) (l : List String) :
    (news.flatMap (fun t => Op.addTable t :: compareIxUq t.name true [] (namedOf t.uqs t.ixs))).foldl namesStep l =
      l ++ news.map (·.name) := by
  induction news generalizing l with
  | nil => simp
  | cons t r ih =>
    simp only [List.flatMap_cons, List.foldl_append, List.foldl_cons]
    rw [foldl_namesStep_local _ _ (fun op hop => isLocal_of_named op (compareIxUq_ops _ _ _ _ op hop).1), ih]
    simp [namesStep]

theorem names_dropped (drops : List RTable) (l : List String) :
    (drops.flatMap (fun t => compareIxUq t.name true (namedOf [] t.ixs) [] ++ [Op.removeTable t.name])).foldl namesStep l =
      l.filter (fun x => !(drops.map (·.name)).contains x) := by
  induction drops generalizing l with
  | nil => simp [filter_all]
  | cons t r ih =>
    simp only [List.flatMap_cons, List.foldl_append, List.foldl_cons, List.foldl_nil]
    rw [foldl_namesStep_local _ _ (fun op hop => isLocal_of_named op (compareIxUq_ops _ _ _ _ op hop).1), ih]
    simp only [namesStep, List.filter_filter]
    apply List.filter_congr
    intro x _
    by_cases h : x = t.name <;> simp [h, List.contains_cons]

/-- the table names stay pairwise distinct through the upgrade -/
theorem names_final_nodup (cfg : Cfg) (a b : Schema) (hwfA : WF a) (hwfB : WF b) :
    ((applyAll (createAll a) (diff cfg (reflect (createAll a)) b)).map (·.name)).Nodup := by
  rw [names_applyAll]
  unfold diff
  simp only [List.foldl_append]
  rw [names_created, names_dropped,
      foldl_namesStep_local _ _ (fun op hop => by
        obtain ⟨p, _, hp⟩ := List.mem_flatMap.mp hop
        exact (compareTable_local cfg p.1 p.2 op hp).1)]
  refine List.Pairwise.filter _ ?_
  show (List.map (fun x => x.name) (createAll a) ++ _).Nodup
  have hca : (createAll a).map (·.name) = a.map (·.name) := by
    simp [createAll, List.map_map, Function.comp_def, createTable]
  rw [hca, reflect_names', List.nodup_append]
  refine ⟨hwfA.tables_nodup, ?_, ?_⟩
  · exact (List.filter_sublist.map _).nodup hwfB.tables_nodup
  · intro x hx y hy e
    obtain ⟨t, ht, htn⟩ := List.mem_map.mp hy
    have := (List.mem_filter.mp ht).2
    rw [htn, ← e, contains_of_mem _ _ hx] at this
    cases this

end Lemmas.Diff
