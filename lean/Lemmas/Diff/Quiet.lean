import Lemmas.Diff.Lists
import Lemmas.Diff.Defaults
/-! Column / table level "no difference against one's own reflection" lemmas (C06, reused by C07). -/
namespace Lemmas.Diff
open Model.Diff Spec.Diff

theorem compareType_self (d : DTy) : compareType d d = false := by
  simp [compareType, typesMatch, argsMatch]

/-- the compiled type text of a model type against its own declared type: equal first word
and arguments; a `COLLATE <name>` suffix only changes the *number* of extra words, which
`_column_args_match` then does not compare -/
theorem compareType_decl_ddl (t : MdTy) : compareType (declTy t) (ddlTy t) = false := by
  cases hc : t.coll with
  | none => simp [ddlTy, hc, compareType, typesMatch, argsMatch]
  | some c => simp [ddlTy, hc, compareType, typesMatch, argsMatch]

theorem compareType_refl_known (t : MdTy) (h : known (declTy t) = true) :
    compareType (reflTy (declTy t)) (ddlTy t) = false := by
  simp [reflTy, h, compareType_decl_ddl]

/-- a column of the class is never reported against the database created from it -/
theorem compareCol_quiet (cfg : Cfg) (t : String) (c : Col) (h : colOk cfg c = true) :
    compareCol cfg t (reflectCol (createCol c)) c = [] := by
  simp only [colOk, Bool.and_eq_true, Bool.or_eq_true, Bool.not_eq_true'] at h
  obtain ⟨ht, hd⟩ := h
  have h1 : (cfg.compareType && compareType (reflectCol (createCol c)).ty (ddlTy c.ty)) = false := by
    rcases ht with ht | ht
    · simp [ht]
    · simp [reflectCol, createCol, compareType_refl_known c.ty ht]
  have h2 : ((reflectCol (createCol c)).nullable != c.nullable) = false := by
    simp [reflectCol, createCol]
  have h3 : (cfg.compareDefault && compareDefault (reflectCol (createCol c)).dflt c.dflt) = false := by
    rcases hd with hd | hd
    · simp [hd]
    · simp only [reflectCol, createCol, compareDefault_quiet c.dflt hd, Bool.and_false]
  simp only [compareCol, h1, h2, h3]
  rfl

theorem rcol_name (c : Col) : (reflectCol (createCol c)).name = c.name := rfl

theorem findRCol_self (cols : List Col) (hnd : (cols.map (·.name)).Nodup) (c : Col) (hc : c ∈ cols) :
    findRCol (cols.map (fun k => reflectCol (createCol k))) c.name = some (reflectCol (createCol c)) := by
  unfold findRCol
  rw [find?_map_key (fun k => reflectCol (createCol k)) (·.name) (·.name) rcol_name c.name cols]
  rw [find?_key_of_nodup (·.name) cols hnd c hc]
  rfl

theorem names_reflect (cols : List Col) :
    (cols.map (fun k => reflectCol (createCol k))).map (·.name) = cols.map (·.name) := by
  simp [List.map_map, Function.comp_def, rcol_name]

theorem addedCols_self (t : String) (cols : List Col) :
    addedCols t (cols.map (fun k => reflectCol (createCol k))) cols = [] := by
  unfold addedCols
  rw [names_reflect, filter_nil_of_forall]
  · rfl
  · intro c hc
    have : (cols.map (·.name)).contains c.name = true := contains_of_mem _ _ (List.mem_map_of_mem (f := (·.name)) hc)
    simp only [this, Bool.not_true]

theorem removedCols_self (t : String) (cols : List Col) :
    removedCols t (cols.map (fun k => reflectCol (createCol k))) cols = [] := by
  unfold removedCols
  rw [filter_nil_of_forall]
  · rfl
  · intro c hc
    obtain ⟨k, hk, rfl⟩ := List.mem_map.mp hc
    have : (cols.map (·.name)).contains k.name = true := contains_of_mem _ _ (List.mem_map_of_mem (f := (·.name)) hk)
    simp only [rcol_name, this, Bool.not_true]

theorem alteredCols_self (cfg : Cfg) (t : String) (cols : List Col) (hnd : (cols.map (·.name)).Nodup)
    (hok : ∀ c ∈ cols, colOk cfg c = true) :
    alteredCols cfg t (cols.map (fun k => reflectCol (createCol k))) cols = [] := by
  unfold alteredCols
  apply flatMap_nil_of_forall
  intro c hc
  rw [findRCol_self cols hnd c hc]
  exact compareCol_quiet cfg t c (hok c hc)

theorem compareNamed_self (t : String) (x : Named) : compareNamed t x x = [] := by
  cases x <;> simp [compareNamed]

theorem mem_sortNames (l : List String) (x : String) : x ∈ sortNames l ↔ x ∈ l := by
  unfold sortNames; exact List.mem_mergeSort

theorem findNamed_some_of_mem (l : List Named) (n : String) (h : n ∈ l.map (·.name)) :
    ∃ x, findNamed l n = some x := by
  unfold findNamed
  obtain ⟨y, hy, hyn⟩ := List.mem_map.mp h
  cases hf : l.find? (fun x => x.name == n) with
  | some x => exact ⟨x, rfl⟩
  | none =>
    rw [List.find?_eq_none] at hf
    have := hf y hy
    simp [hyn] at this

theorem compareIxUq_self (t : String) (b : Bool) (l : List Named) : compareIxUq t b l l = [] := by
  unfold compareIxUq
  have h1 : (l.map (·.name)).filter (fun n => !(l.map (·.name)).contains n) = [] := by
    apply filter_nil_of_forall
    intro n hn
    simp only [contains_of_mem _ _ hn, Bool.not_true]
  simp only [h1]
  have hs : sortNames [] = [] := by simp [sortNames]
  rw [hs]
  simp only [List.flatMap_nil, List.nil_append, List.append_nil]
  apply flatMap_nil_of_forall
  intro n hn
  have hn' : n ∈ l.map (·.name) := by
    have := (mem_sortNames _ _).mp hn
    exact (List.mem_filter.mp this).1
  obtain ⟨x, hx⟩ := findNamed_some_of_mem l n hn'
  simp [hx, compareNamed_self]

theorem compareFks_self (t : String) (l : List Fk) : compareFks t l l = [] := by
  unfold compareFks
  have h : l.filter (fun c => !(l.map (fkSig t)).contains (fkSig t c)) = [] := by
    apply filter_nil_of_forall
    intro f hf
    have : (l.map (fkSig t)).contains (fkSig t f) = true := by
      simp only [List.contains_iff_mem]
      exact List.mem_map_of_mem (f := fkSig t) hf
    simp only [this, Bool.not_true]
  have h2 : (l.map (fkSig t)) = (l.map (fkSig t)) := rfl
  simp only [h, List.map_nil, List.nil_append]

/-- **table level**: a table of the class is never reported against the database created from it -/
theorem compareTable_self (cfg : Cfg) (t : Table) (hnd : (t.cols.map (·.name)).Nodup)
    (hok : ∀ c ∈ t.cols, colOk cfg c = true) :
    compareTable cfg (reflectTable (createTable t)) t = [] := by
  have hc : (reflectTable (createTable t)).cols = t.cols.map (fun k => reflectCol (createCol k)) := by
    simp [reflectTable, createTable, List.map_map, Function.comp_def]
  unfold compareTable
  rw [hc, addedCols_self, alteredCols_self cfg _ _ hnd hok, removedCols_self]
  simp [reflectTable, createTable, compareIxUq_self, compareFks_self]

end Lemmas.Diff
