import Model.Diff.DiffV
import Spec.Diff
/-! A comparison callable that always answers `None` ("defer to the default comparison") changes nothing. -/
namespace Lemmas.Diff
open Model.Diff

theorem verdict_nil (t c : String) (d : Bool) : verdict [] t c d = d := rfl

theorem compareColV_nil (cfg : Cfg) (t : String) (cc : RCol) (mc : Col) :
    compareColV {} cfg t cc mc = compareCol cfg t cc mc := by
  unfold compareColV compareCol
  simp only [verdict_nil]
  cases h1 : cc.dflt <;> cases h2 : mc.dflt <;> simp [compareDefault]

theorem alteredColsV_nil (cfg : Cfg) (t : String) (cc : List RCol) (mc : List Col) :
    alteredColsV {} cfg t cc mc = alteredCols cfg t cc mc := by
  unfold alteredColsV alteredCols
  congr 1
  funext c
  cases findRCol cc c.name <;> simp [compareColV_nil]

theorem compareTableV_nil (cfg : Cfg) (ct : RTable) (mt : Table) :
    compareTableV {} cfg ct mt = compareTable cfg ct mt := by
  unfold compareTableV compareTable
  rw [alteredColsV_nil]

/-- **deferring callables**: with `compare_type` / `compare_server_default` callables that return
`None` for every column, autogenerate computes exactly the default diff -/
theorem diffV_nil (cfg : Cfg) (conn : List RTable) (md : Schema) : diffV {} cfg conn md = diff cfg conn md := by
  unfold diffV diff
  simp only [compareTableV_nil]

end Lemmas.Diff
