import Lemmas.Diff.Quiet
/-! Localisation: a change confined to one table (resp. one column) only produces the ops of
comparing that table (resp. column) with its own reflection.  Backbone of C07. -/
namespace Lemmas.Diff
open Model.Diff Spec.Diff

theorem reflect_names' (a : Schema) : (reflect (createAll a)).map (·.name) = a.map (·.name) := by
  simp [reflect, createAll, List.map_map, Function.comp_def, reflectTable, createTable]

theorem updT_names (a : Schema) (t : String) (f : Table → Table) (hf : ∀ x, (f x).name = x.name) :
    (updT a t f).map (·.name) = a.map (·.name) := by
  simp only [updT, List.map_map]
  apply List.map_congr_left
  intro x _
  simp only [Function.comp_apply]
  split <;> simp [hf]

theorem findTable_updT (a : Schema) (t : String) (f : Table → Table) (hf : ∀ x, (f x).name = x.name) (n : String) :
    findTable (updT a t f) n = (findTable a n).map (fun x => if x.name == t then f x else x) := by
  unfold findTable updT
  exact find?_map_key (fun x => if x.name == t then f x else x) (·.name) (·.name)
    (by intro x; split <;> simp [hf]) n a

/-- ops of a table-local change = ops of comparing that table -/
theorem mem_diff_updT (cfg : Cfg) (a : Schema) (hwf : WF a) (hok : SchemaOk cfg a)
    (t0 : Table) (ht0 : t0 ∈ a) (f : Table → Table) (hf : ∀ x, (f x).name = x.name) (op : Op) :
    op ∈ diff cfg (reflect (createAll a)) (updT a t0.name f) ↔
    op ∈ compareTable cfg (reflectTable (createTable t0)) (f t0) := by
  unfold diff
  rw [reflect_names', updT_names a t0.name f hf]
  have h1 : (updT a t0.name f).filter (fun t => !(a.map (·.name)).contains t.name) = [] := by
    apply filter_nil_of_forall
    intro t ht
    have : t.name ∈ (updT a t0.name f).map (·.name) := List.mem_map_of_mem (f := (·.name)) ht
    rw [updT_names a t0.name f hf] at this
    simp only [contains_of_mem _ _ this, Bool.not_true]
  have h2 : (reflect (createAll a)).filter (fun t => !(a.map (·.name)).contains t.name) = [] := by
    apply filter_nil_of_forall
    intro t ht
    have : t.name ∈ (reflect (createAll a)).map (·.name) := List.mem_map_of_mem (f := (·.name)) ht
    rw [reflect_names'] at this
    simp only [contains_of_mem _ _ this, Bool.not_true]
  simp only [h1, h2, List.flatMap_nil, List.nil_append]
  constructor
  · intro h
    obtain ⟨p, hp, hop⟩ := List.mem_flatMap.mp h
    have hp' := by unfold sortTablesByName at hp; exact List.mem_mergeSort.mp hp
    obtain ⟨ct, hct, hfm⟩ := List.mem_filterMap.mp hp'
    simp only [reflect, createAll, List.map_map, List.mem_map, Function.comp_apply] at hct
    obtain ⟨t1, ht1, rfl⟩ := hct
    have hfind : findTable a (reflectTable (createTable t1)).name = some t1 := by
      unfold findTable
      exact find?_key_of_nodup (·.name) a hwf.tables_nodup t1 ht1
    rw [findTable_updT a t0.name f hf, hfind] at hfm
    simp only [Option.map_some, Option.some.injEq] at hfm
    subst hfm
    by_cases hn : t1.name = t0.name
    · -- the changed table
      have : t1 = t0 := by
        have h1 := find?_key_of_nodup (·.name) a hwf.tables_nodup t1 ht1
        have h2 := find?_key_of_nodup (·.name) a hwf.tables_nodup t0 ht0
        simp only [hn] at h1
        rw [h1] at h2
        exact Option.some.inj h2
      subst this
      simpa using hop
    · have hne : (t1.name == t0.name) = false := by simpa using hn
      simp only [hne, Bool.false_eq_true, ↓reduceIte] at hop
      rw [compareTable_self cfg t1 (hwf.table_wf t1 ht1).cols_nodup (hok t1 ht1)] at hop
      cases hop
  · intro h
    apply List.mem_flatMap.mpr
    refine ⟨(reflectTable (createTable t0), f t0), ?_, h⟩
    unfold sortTablesByName
    apply List.mem_mergeSort.mpr
    apply List.mem_filterMap.mpr
    refine ⟨reflectTable (createTable t0), ?_, ?_⟩
    · simp only [reflect, createAll, List.map_map, List.mem_map, Function.comp_apply]
      exact ⟨t0, ht0, rfl⟩
    · have hfind : findTable a (reflectTable (createTable t0)).name = some t0 := by
        unfold findTable
        exact find?_key_of_nodup (·.name) a hwf.tables_nodup t0 ht0
      rw [findTable_updT a t0.name f hf, hfind]
      simp

/-! ### column-local changes -/

theorem updC_names (cols : List Col) (c : String) (g : Col → Col) (hg : ∀ x, (g x).name = x.name) :
    (updC cols c g).map (·.name) = cols.map (·.name) := by
  simp only [updC, List.map_map]
  apply List.map_congr_left
  intro x _
  simp only [Function.comp_apply]
  split <;> simp [hg]

/-- every op of one column comparison names that column -/
theorem compareCol_obj (cfg : Cfg) (t : String) (rc : RCol) (mc : Col) (op : Op)
    (h : op ∈ compareCol cfg t rc mc) : (summary op).obj = .column t mc.name := by
  simp only [compareCol, List.mem_append] at h
  rcases h with (h | h) | h
  · split at h
    · simp at h; subst h; rfl
    · cases h
  · split at h
    · simp at h; subst h; rfl
    · cases h
  · split at h
    · simp at h; subst h; rfl
    · cases h

/-- ops of a column-local change of table `t0` = ops of comparing that column -/
theorem mem_compareTable_updC (cfg : Cfg) (t0 : Table) (hnd : (t0.cols.map (·.name)).Nodup)
    (hok : ∀ c ∈ t0.cols, colOk cfg c = true) (c0 : Col) (hc0 : c0 ∈ t0.cols)
    (g : Col → Col) (hg : ∀ x, (g x).name = x.name) (op : Op) :
    op ∈ compareTable cfg (reflectTable (createTable t0)) { t0 with cols := updC t0.cols c0.name g } ↔
    op ∈ compareCol cfg t0.name (reflectCol (createCol c0)) (g c0) := by
  have hc : (reflectTable (createTable t0)).cols = t0.cols.map (fun k => reflectCol (createCol k)) := by
    simp [reflectTable, createTable, List.map_map, Function.comp_def]
  unfold compareTable
  simp only [hc]
  have ha : addedCols t0.name (t0.cols.map (fun k => reflectCol (createCol k))) (updC t0.cols c0.name g) = [] := by
    unfold addedCols
    rw [names_reflect, filter_nil_of_forall]
    · rfl
    · intro c hc
      have : c.name ∈ (updC t0.cols c0.name g).map (·.name) := List.mem_map_of_mem (f := (·.name)) hc
      rw [updC_names _ _ g hg] at this
      simp only [contains_of_mem _ _ this, Bool.not_true]
  have hr : removedCols t0.name (t0.cols.map (fun k => reflectCol (createCol k))) (updC t0.cols c0.name g) = [] := by
    unfold removedCols
    rw [updC_names _ _ g hg, filter_nil_of_forall]
    · rfl
    · intro c hc
      obtain ⟨k, hk, rfl⟩ := List.mem_map.mp hc
      have : (t0.cols.map (·.name)).contains k.name = true := contains_of_mem _ _ (List.mem_map_of_mem (f := (·.name)) hk)
      simp only [rcol_name, this, Bool.not_true]
  have hi : compareIxUq t0.name false (namedOf (reflectTable (createTable t0)).uqs (reflectTable (createTable t0)).ixs)
      (namedOf t0.uqs t0.ixs) = [] := by
    simp [reflectTable, createTable, compareIxUq_self]
  have hfk : compareFks t0.name (reflectTable (createTable t0)).fks t0.fks = [] := by
    simp [reflectTable, createTable, compareFks_self]
  simp only [ha, hr, hi, hfk, List.nil_append, List.append_nil]
  unfold alteredCols
  constructor
  · intro h
    obtain ⟨k, hk, hop⟩ := List.mem_flatMap.mp h
    simp only [updC, List.mem_map] at hk
    obtain ⟨k0, hk0, rfl⟩ := hk
    by_cases hn : k0.name = c0.name
    · have : k0 = c0 := by
        have h1 := find?_key_of_nodup (·.name) t0.cols hnd k0 hk0
        have h2 := find?_key_of_nodup (·.name) t0.cols hnd c0 hc0
        simp only [hn] at h1
        rw [h1] at h2
        exact Option.some.inj h2
      subst this
      simp only [beq_self_eq_true, if_true, hg] at hop
      rw [findRCol_self t0.cols hnd k0 hk0] at hop
      exact hop
    · have hne : (k0.name == c0.name) = false := by simpa using hn
      simp only [hne, Bool.false_eq_true, ↓reduceIte] at hop
      rw [findRCol_self t0.cols hnd k0 hk0] at hop
      simp only at hop
      rw [compareCol_quiet cfg t0.name k0 (hok k0 hk0)] at hop
      cases hop
  · intro h
    apply List.mem_flatMap.mpr
    refine ⟨g c0, ?_, ?_⟩
    · simp only [updC, List.mem_map]
      exact ⟨c0, hc0, by simp⟩
    · rw [hg, findRCol_self t0.cols hnd c0 hc0]
      exact h

end Lemmas.Diff

namespace Lemmas.Diff
open Model.Diff Spec.Diff

theorem contains_false_of_not_mem (l : List String) (x : String) (h : x ∉ l) : l.contains x = false := by
  cases hc : l.contains x
  · rfl
  · exact absurd (by simpa using hc) h

theorem findRCol_none (cols : List Col) (n : String) (h : n ∉ cols.map (·.name)) :
    findRCol (cols.map (fun k => reflectCol (createCol k))) n = none := by
  unfold findRCol
  rw [List.find?_eq_none]
  intro x hx
  obtain ⟨k, hk, rfl⟩ := List.mem_map.mp hx
  simp only [rcol_name, beq_iff_eq]
  intro e
  exact h (e ▸ List.mem_map_of_mem (f := (·.name)) hk)

/-- adding a column to a table yields exactly one op -/
theorem compareTable_addColumn (cfg : Cfg) (t0 : Table) (hnd : (t0.cols.map (·.name)).Nodup)
    (hok : ∀ c ∈ t0.cols, colOk cfg c = true) (c : Col) (hc : c.name ∉ t0.cols.map (·.name)) :
    compareTable cfg (reflectTable (createTable t0)) { t0 with cols := t0.cols ++ [c] } = [Op.addColumn t0.name c] := by
  have hcols : (reflectTable (createTable t0)).cols = t0.cols.map (fun k => reflectCol (createCol k)) := by
    simp [reflectTable, createTable, List.map_map, Function.comp_def]
  unfold compareTable
  simp only [hcols]
  have ha : addedCols t0.name (t0.cols.map (fun k => reflectCol (createCol k))) (t0.cols ++ [c]) = [Op.addColumn t0.name c] := by
    unfold addedCols
    rw [names_reflect, List.filter_append, filter_nil_of_forall]
    · have := contains_false_of_not_mem _ _ hc
      simp only [List.filter_cons, this, Bool.not_false, if_true, List.filter_nil, List.nil_append, List.map_cons, List.map_nil]
    · intro k hk
      simp only [contains_of_mem _ _ (List.mem_map_of_mem (f := (·.name)) hk), Bool.not_true]
  have hal : alteredCols cfg t0.name (t0.cols.map (fun k => reflectCol (createCol k))) (t0.cols ++ [c]) = [] := by
    unfold alteredCols
    apply flatMap_nil_of_forall
    intro k hk
    rcases List.mem_append.mp hk with h | h
    · rw [findRCol_self t0.cols hnd k h]
      exact compareCol_quiet cfg t0.name k (hok k h)
    · simp only [List.mem_singleton] at h
      subst h
      rw [findRCol_none t0.cols _ hc]
  have hr : removedCols t0.name (t0.cols.map (fun k => reflectCol (createCol k))) (t0.cols ++ [c]) = [] := by
    unfold removedCols
    rw [filter_nil_of_forall]
    · rfl
    · intro r hr
      obtain ⟨k, hk, rfl⟩ := List.mem_map.mp hr
      have : ((t0.cols ++ [c]).map (·.name)).contains k.name = true := by
        apply contains_of_mem
        simp only [List.map_append, List.mem_append]
        exact Or.inl (List.mem_map_of_mem (f := (·.name)) hk)
      simp only [rcol_name, this, Bool.not_true]
  have hi : compareIxUq t0.name false (namedOf (reflectTable (createTable t0)).uqs (reflectTable (createTable t0)).ixs)
      (namedOf t0.uqs t0.ixs) = [] := by
    simp [reflectTable, createTable, compareIxUq_self]
  have hfk : compareFks t0.name (reflectTable (createTable t0)).fks t0.fks = [] := by
    simp [reflectTable, createTable, compareFks_self]
  simp only [ha, hal, hr, hi, hfk, List.nil_append, List.append_nil]

/-- dropping a column yields exactly the removal of that column -/
theorem mem_compareTable_dropColumn (cfg : Cfg) (t0 : Table) (hnd : (t0.cols.map (·.name)).Nodup)
    (hok : ∀ c ∈ t0.cols, colOk cfg c = true) (c0 : Col) (hc0 : c0 ∈ t0.cols) (op : Op) :
    op ∈ compareTable cfg (reflectTable (createTable t0)) { t0 with cols := t0.cols.filter (fun k => k.name != c0.name) } ↔
    op = Op.removeColumn t0.name c0.name := by
  have hcols : (reflectTable (createTable t0)).cols = t0.cols.map (fun k => reflectCol (createCol k)) := by
    simp [reflectTable, createTable, List.map_map, Function.comp_def]
  unfold compareTable
  simp only [hcols]
  have ha : addedCols t0.name (t0.cols.map (fun k => reflectCol (createCol k))) (t0.cols.filter (fun k => k.name != c0.name)) = [] := by
    unfold addedCols
    rw [names_reflect, filter_nil_of_forall]
    · rfl
    · intro k hk
      have hk' := (List.mem_filter.mp hk).1
      simp only [contains_of_mem _ _ (List.mem_map_of_mem (f := (·.name)) hk'), Bool.not_true]
  have hal : alteredCols cfg t0.name (t0.cols.map (fun k => reflectCol (createCol k))) (t0.cols.filter (fun k => k.name != c0.name)) = [] := by
    unfold alteredCols
    apply flatMap_nil_of_forall
    intro k hk
    have hk' := (List.mem_filter.mp hk).1
    rw [findRCol_self t0.cols hnd k hk']
    exact compareCol_quiet cfg t0.name k (hok k hk')
  have hi : compareIxUq t0.name false (namedOf (reflectTable (createTable t0)).uqs (reflectTable (createTable t0)).ixs)
      (namedOf t0.uqs t0.ixs) = [] := by
    simp [reflectTable, createTable, compareIxUq_self]
  have hfk : compareFks t0.name (reflectTable (createTable t0)).fks t0.fks = [] := by
    simp [reflectTable, createTable, compareFks_self]
  simp only [ha, hal, hi, hfk, List.nil_append]
  unfold removedCols
  simp only [List.mem_map, List.mem_filter]
  constructor
  · rintro ⟨r, ⟨hr, hnot⟩, rfl⟩
    obtain ⟨k, hk, rfl⟩ := hr
    simp only [rcol_name] at hnot ⊢
    by_cases hn : k.name = c0.name
    · rw [hn]
    · exfalso
      have : k.name ∈ (t0.cols.filter (fun k => k.name != c0.name)).map (·.name) := by
        exact List.mem_map.mpr ⟨k, List.mem_filter.mpr ⟨hk, by simpa using hn⟩, rfl⟩
      rw [contains_of_mem _ _ this] at hnot
      cases hnot
  · intro h
    refine ⟨reflectCol (createCol c0), ⟨⟨c0, hc0, rfl⟩, ?_⟩, by simp [rcol_name, h]⟩
    have : c0.name ∉ (t0.cols.filter (fun k => k.name != c0.name)).map (·.name) := by
      intro hm
      obtain ⟨k, hk, hkn⟩ := List.mem_map.mp hm
      have := (List.mem_filter.mp hk).2
      simp [hkn] at this
    simp only [rcol_name, contains_false_of_not_mem _ _ this, Bool.not_false]

end Lemmas.Diff
