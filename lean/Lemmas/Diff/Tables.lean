import Lemmas.Diff.Local
/-! Table-level changes (add / drop a table) for C07. -/
namespace Lemmas.Diff
open Model.Diff Spec.Diff

/-- every op of an index / unique comparison of table `t` names an object of table `t` -/
theorem compareIxUq_table (t : String) (b : Bool) (conn md : List Named) (op : Op)
    (h : op ∈ compareIxUq t b conn md) : (summary op).obj.tableName = t := by
  have hadd : ∀ x o, o ∈ objAdded t b x → (summary o).obj.tableName = t := by
    intro x o ho
    cases x with
    | ix i => simp [objAdded] at ho; subst ho; rfl
    | uq u =>
      simp only [objAdded] at ho
      split at ho
      · cases ho
      · simp at ho; subst ho; rfl
  have hrem : ∀ x o, o ∈ objRemoved t b x → (summary o).obj.tableName = t := by
    intro x o ho
    cases x with
    | ix i => simp [objRemoved] at ho; subst ho; rfl
    | uq u =>
      simp only [objRemoved] at ho
      split at ho
      · cases ho
      · simp at ho; subst ho; rfl
  have hadd' : ∀ x o, o ∈ objAdded t false x → (summary o).obj.tableName = t := by
    intro x o ho
    cases x with
    | ix i => simp [objAdded] at ho; subst ho; rfl
    | uq u => simp [objAdded] at ho; subst ho; rfl
  have hrem' : ∀ x o, o ∈ objRemoved t false x → (summary o).obj.tableName = t := by
    intro x o ho
    cases x with
    | ix i => simp [objRemoved] at ho; subst ho; rfl
    | uq u => simp [objRemoved] at ho; subst ho; rfl
  simp only [compareIxUq, List.mem_append, List.mem_flatMap] at h
  rcases h with (⟨n, _, hn⟩ | ⟨n, _, hn⟩) | ⟨n, _, hn⟩
  · split at hn
    · exact hrem _ _ hn
    · cases hn
  · split at hn
    · rename_i c m _ _
      cases c <;> cases m <;> simp only [compareNamed] at hn
      · split at hn
        · simp at hn; rcases hn with rfl | rfl <;> rfl
        · cases hn
      · rcases List.mem_append.mp hn with h | h
        · exact hrem' _ _ h
        · exact hadd' _ _ h
      · rcases List.mem_append.mp hn with h | h
        · exact hrem' _ _ h
        · exact hadd' _ _ h
      · split at hn
        · simp at hn; rcases hn with rfl | rfl <;> rfl
        · cases hn
    · cases hn
  · split at hn
    · exact hadd _ _ hn
    · cases hn

theorem findTable_append_left (a : Schema) (t : Table) (n : String) (x : Table) (h : findTable a n = some x) :
    findTable (a ++ [t]) n = some x := by
  unfold findTable at *
  rw [List.find?_append, h]
  rfl

/-- ops of adding table `t`: the create-table op followed by ops on `t`'s own indexes -/
theorem mem_diff_addTable (cfg : Cfg) (a : Schema) (hwf : WF a) (hok : SchemaOk cfg a)
    (t : Table) (ht : t.name ∉ a.map (·.name)) (op : Op) :
    op ∈ diff cfg (reflect (createAll a)) (a ++ [t]) ↔
    op = Op.addTable t ∨ op ∈ compareIxUq t.name true [] (namedOf t.uqs t.ixs) := by
  unfold diff
  rw [reflect_names']
  have h1 : (a ++ [t]).filter (fun x => !(a.map (·.name)).contains x.name) = [t] := by
    rw [List.filter_append, filter_nil_of_forall]
    · have := contains_false_of_not_mem _ _ ht
      simp only [List.filter_cons, this, Bool.not_false, if_true, List.filter_nil, List.nil_append]
    · intro x hx
      simp only [contains_of_mem _ _ (List.mem_map_of_mem (f := (·.name)) hx), Bool.not_true]
  have h2 : (reflect (createAll a)).filter (fun x => !((a ++ [t]).map (·.name)).contains x.name) = [] := by
    apply filter_nil_of_forall
    intro x hx
    have : x.name ∈ (reflect (createAll a)).map (·.name) := List.mem_map_of_mem (f := (·.name)) hx
    rw [reflect_names'] at this
    have : x.name ∈ (a ++ [t]).map (·.name) := by
      simp only [List.map_append, List.mem_append]; exact Or.inl this
    simp only [contains_of_mem _ _ this, Bool.not_true]
  have h3 : (sortTablesByName ((reflect (createAll a)).filterMap
      (fun ct => (findTable (a ++ [t]) ct.name).map (fun mt => (ct, mt))))).flatMap
      (fun p => compareTable cfg p.1 p.2) = [] := by
    apply flatMap_nil_of_forall
    intro p hp
    have hp' := by unfold sortTablesByName at hp; exact List.mem_mergeSort.mp hp
    obtain ⟨ct, hct, hfm⟩ := List.mem_filterMap.mp hp'
    simp only [reflect, createAll, List.map_map, List.mem_map, Function.comp_apply] at hct
    obtain ⟨t1, ht1, rfl⟩ := hct
    have hfind : findTable a (reflectTable (createTable t1)).name = some t1 := by
      unfold findTable
      exact find?_key_of_nodup (·.name) a hwf.tables_nodup t1 ht1
    rw [findTable_append_left a t _ t1 hfind] at hfm
    simp only [Option.map_some, Option.some.injEq] at hfm
    subst hfm
    exact compareTable_self cfg t1 (hwf.table_wf t1 ht1).cols_nodup (hok t1 ht1)
  simp only [h1, h2, h3, List.flatMap_cons, List.flatMap_nil, List.append_nil, List.mem_cons]

end Lemmas.Diff

namespace Lemmas.Diff
open Model.Diff Spec.Diff

theorem eq_of_name_eq (a : Schema) (hnd : (a.map (·.name)).Nodup) (x y : Table) (hx : x ∈ a) (hy : y ∈ a)
    (h : x.name = y.name) : x = y := by
  have h1 := find?_key_of_nodup (·.name) a hnd x hx
  have h2 := find?_key_of_nodup (·.name) a hnd y hy
  simp only [h] at h1
  rw [h1] at h2
  exact Option.some.inj h2

/-- ops of dropping table `t0`: the removal of its indexes and of the table -/
theorem mem_diff_dropTable (cfg : Cfg) (a : Schema) (hwf : WF a) (hok : SchemaOk cfg a)
    (t0 : Table) (ht0 : t0 ∈ a) (op : Op) :
    op ∈ diff cfg (reflect (createAll a)) (a.filter (fun x => x.name != t0.name)) ↔
    op ∈ compareIxUq t0.name true (namedOf [] t0.ixs) [] ∨ op = Op.removeTable t0.name := by
  unfold diff
  rw [reflect_names']
  have h1 : (a.filter (fun x => x.name != t0.name)).filter (fun x => !(a.map (·.name)).contains x.name) = [] := by
    apply filter_nil_of_forall
    intro x hx
    have hx' := (List.mem_filter.mp hx).1
    simp only [contains_of_mem _ _ (List.mem_map_of_mem (f := (·.name)) hx'), Bool.not_true]
  have h3 : (sortTablesByName ((reflect (createAll a)).filterMap
      (fun ct => (findTable (a.filter (fun x => x.name != t0.name)) ct.name).map (fun mt => (ct, mt))))).flatMap
      (fun p => compareTable cfg p.1 p.2) = [] := by
    apply flatMap_nil_of_forall
    intro p hp
    have hp' := by unfold sortTablesByName at hp; exact List.mem_mergeSort.mp hp
    obtain ⟨ct, hct, hfm⟩ := List.mem_filterMap.mp hp'
    simp only [reflect, createAll, List.map_map, List.mem_map, Function.comp_apply] at hct
    obtain ⟨t1, ht1, rfl⟩ := hct
    cases hf : findTable (a.filter (fun x => x.name != t0.name)) (reflectTable (createTable t1)).name with
    | none => rw [hf] at hfm; cases hfm
    | some mt =>
      rw [hf] at hfm
      simp only [Option.map_some, Option.some.injEq] at hfm
      subst hfm
      unfold findTable at hf
      have hm := List.mem_of_find?_eq_some hf
      have hn := List.find?_some hf
      have hma := (List.mem_filter.mp hm).1
      have : mt = t1 := eq_of_name_eq a hwf.tables_nodup mt t1 hma ht1 (by simpa [reflectTable, createTable] using hn)
      subst this
      exact compareTable_self cfg mt (hwf.table_wf mt hma).cols_nodup (hok mt hma)
  simp only [h1, h3, List.flatMap_nil, List.nil_append, List.append_nil, List.mem_flatMap, List.mem_filter,
    List.mem_append, List.mem_singleton]
  constructor
  · rintro ⟨x, ⟨hx, hnot⟩, hop⟩
    simp only [reflect, createAll, List.map_map, List.mem_map, Function.comp_apply] at hx
    obtain ⟨t1, ht1, rfl⟩ := hx
    have hname : t1.name = t0.name := by
      apply Classical.byContradiction
      intro hne
      have : t1.name ∈ (a.filter (fun x => x.name != t0.name)).map (·.name) :=
        List.mem_map.mpr ⟨t1, List.mem_filter.mpr ⟨ht1, by simpa using hne⟩, rfl⟩
      have hc := contains_of_mem _ _ this
      simp only [reflectTable, createTable] at hnot
      rw [hc] at hnot
      cases hnot
    have : t1 = t0 := eq_of_name_eq a hwf.tables_nodup t1 t0 ht1 ht0 hname
    subst this
    simpa [reflectTable, createTable] using hop
  · intro h
    refine ⟨reflectTable (createTable t0), ⟨?_, ?_⟩, by simpa [reflectTable, createTable] using h⟩
    · simp only [reflect, createAll, List.map_map, List.mem_map, Function.comp_apply]
      exact ⟨t0, ht0, rfl⟩
    · have : t0.name ∉ (a.filter (fun x => x.name != t0.name)).map (·.name) := by
        intro hm
        obtain ⟨k, hk, hkn⟩ := List.mem_map.mp hm
        have := (List.mem_filter.mp hk).2
        simp [hkn] at this
      simp only [reflectTable, createTable, contains_false_of_not_mem _ _ this, Bool.not_false]

end Lemmas.Diff
