import Lemmas.Diff.Tables
/-! Constraint-level changes (foreign key / index / unique added) for C07. -/
namespace Lemmas.Diff
open Model.Diff Spec.Diff

/-- a change that leaves the columns alone only produces index/unique and foreign-key ops -/
theorem compareTable_sameCols (cfg : Cfg) (t0 : Table) (hnd : (t0.cols.map (·.name)).Nodup)
    (hok : ∀ c ∈ t0.cols, colOk cfg c = true) (uqs : List Uq) (ixs : List Ix) (fks : List Fk) :
    compareTable cfg (reflectTable (createTable t0)) { t0 with uqs := uqs, ixs := ixs, fks := fks } =
    compareIxUq t0.name false (namedOf t0.uqs t0.ixs) (namedOf uqs ixs) ++ compareFks t0.name t0.fks fks := by
  have hcols : (reflectTable (createTable t0)).cols = t0.cols.map (fun k => reflectCol (createCol k)) := by
    simp [reflectTable, createTable, List.map_map, Function.comp_def]
  unfold compareTable
  simp only [hcols]
  rw [addedCols_self, alteredCols_self cfg _ _ hnd hok, removedCols_self]
  simp [reflectTable, createTable]

/-- a foreign key with a new signature: exactly one `add_fk` -/
theorem compareFks_add (t : String) (fks : List Fk) (f : Fk) (hf : fkSig t f ∉ fks.map (fkSig t)) :
    compareFks t fks (fks ++ [f]) = [Op.addFk t f] := by
  unfold compareFks
  have h1 : fks.filter (fun c => !((fks ++ [f]).map (fkSig t)).contains (fkSig t c)) = [] := by
    apply filter_nil_of_forall
    intro c hc
    have : ((fks ++ [f]).map (fkSig t)).contains (fkSig t c) = true := by
      simp only [List.contains_iff_mem, List.map_append, List.mem_append]
      exact Or.inl (List.mem_map_of_mem (f := fkSig t) hc)
    simp only [this, Bool.not_true]
  have h2 : (fks ++ [f]).filter (fun m => !(fks.map (fkSig t)).contains (fkSig t m)) = [f] := by
    rw [List.filter_append, filter_nil_of_forall]
    · have : (fks.map (fkSig t)).contains (fkSig t f) = false := by
        cases hc : (fks.map (fkSig t)).contains (fkSig t f)
        · rfl
        · exact absurd (by simpa using hc) hf
      simp only [List.filter_cons, this, Bool.not_false, if_true, List.filter_nil, List.nil_append]
    · intro c hc
      have : (fks.map (fkSig t)).contains (fkSig t c) = true := by
        simp only [List.contains_iff_mem]
        exact List.mem_map_of_mem (f := fkSig t) hc
      simp only [this, Bool.not_true]
  simp only [h1, h2, List.map_nil, List.nil_append, List.map_cons]

theorem findNamed_insert_ne (l1 l2 : List Named) (x : Named) (n : String) (h : x.name ≠ n) :
    findNamed (l1 ++ x :: l2) n = findNamed (l1 ++ l2) n := by
  unfold findNamed
  have hx : (x.name == n) = false := by simpa using h
  simp only [List.find?_append, List.find?_cons, hx]

theorem findNamed_insert_self (l1 l2 : List Named) (x : Named) (h : x.name ∉ l1.map (·.name)) :
    findNamed (l1 ++ x :: l2) x.name = some x := by
  unfold findNamed
  have h1 : l1.find? (fun y => y.name == x.name) = none := by
    rw [List.find?_eq_none]
    intro y hy
    simp only [beq_iff_eq]
    intro e
    exact h (e ▸ List.mem_map_of_mem (f := (·.name)) hy)
  simp [List.find?_append, h1]

/-- a new index / unique constraint (inserted anywhere in the metadata collection) with a fresh
name: exactly the corresponding add op -/
theorem compareIxUq_insert (t : String) (l1 l2 : List Named) (x : Named)
    (hx : x.name ∉ (l1 ++ l2).map (·.name)) :
    compareIxUq t false (l1 ++ l2) (l1 ++ x :: l2) = objAdded t false x := by
  have hx1 : x.name ∉ l1.map (·.name) := by
    intro h; apply hx; simp only [List.map_append, List.mem_append]; exact Or.inl h
  unfold compareIxUq
  have hmn : (l1 ++ x :: l2).map (·.name) = l1.map (·.name) ++ x.name :: l2.map (·.name) := by simp
  have hcn : (l1 ++ l2).map (·.name) = l1.map (·.name) ++ l2.map (·.name) := by simp
  -- removed: nothing
  have h1 : ((l1 ++ l2).map (·.name)).filter (fun n => !((l1 ++ x :: l2).map (·.name)).contains n) = [] := by
    apply filter_nil_of_forall
    intro n hn
    have : n ∈ (l1 ++ x :: l2).map (·.name) := by
      rw [hmn]; rw [hcn] at hn
      rcases List.mem_append.mp hn with h | h
      · exact List.mem_append.mpr (Or.inl h)
      · exact List.mem_append.mpr (Or.inr (List.mem_cons_of_mem _ h))
    simp only [contains_of_mem _ _ this, Bool.not_true]
  -- added: exactly the new name
  have h3 : ((l1 ++ x :: l2).map (·.name)).filter (fun n => !((l1 ++ l2).map (·.name)).contains n) = [x.name] := by
    rw [hmn, List.filter_append, List.filter_cons]
    have hx' := contains_false_of_not_mem _ _ hx
    rw [filter_nil_of_forall, filter_nil_of_forall]
    · simp only [hx', Bool.not_false, if_true, List.nil_append]
    · intro n hn
      have : n ∈ (l1 ++ l2).map (·.name) := by rw [hcn]; exact List.mem_append.mpr (Or.inr hn)
      simp only [contains_of_mem _ _ this, Bool.not_true]
    · intro n hn
      have : n ∈ (l1 ++ l2).map (·.name) := by rw [hcn]; exact List.mem_append.mpr (Or.inl hn)
      simp only [contains_of_mem _ _ this, Bool.not_true]
  -- existing: every common name finds the same object on both sides
  have h2 : (sortNames (((l1 ++ x :: l2).map (·.name)).filter (fun n => ((l1 ++ l2).map (·.name)).contains n))).flatMap
      (fun n => match findNamed (l1 ++ l2) n, findNamed (l1 ++ x :: l2) n with
        | some c, some m => compareNamed t c m
        | _, _ => []) = [] := by
    apply flatMap_nil_of_forall
    intro n hn
    have hn' := (List.mem_filter.mp ((mem_sortNames _ _).mp hn)).2
    have hmem : n ∈ (l1 ++ l2).map (·.name) := by simpa using hn'
    have hne : x.name ≠ n := by intro e; exact hx (e ▸ hmem)
    rw [findNamed_insert_ne l1 l2 x n hne]
    obtain ⟨y, hy⟩ := findNamed_some_of_mem (l1 ++ l2) n hmem
    simp [hy, compareNamed_self]
  have hs1 : sortNames [] = [] := by simp [sortNames]
  have hs2 : sortNames [x.name] = [x.name] := by simp [sortNames]
  simp only [h1, h3, hs1, hs2, List.flatMap_nil, List.nil_append, List.flatMap_cons, List.append_nil,
    findNamed_insert_self l1 l2 x hx1]
  have h2' : ∀ (r : List Op), r = [] → r ++ objAdded t false x = objAdded t false x := by
    intro r hr; rw [hr]; rfl
  exact h2' _ h2

end Lemmas.Diff

namespace Lemmas.Diff
open Model.Diff Spec.Diff

theorem nodup_insert_not_mem (l1 l2 : List Named) (x : Named)
    (hnd : ((l1 ++ x :: l2).map (·.name)).Nodup) : x.name ∉ (l1 ++ l2).map (·.name) := by
  simp only [List.map_append, List.map_cons] at hnd ⊢
  rw [List.nodup_append] at hnd
  obtain ⟨_, h2, h3⟩ := hnd
  rw [List.nodup_cons] at h2
  intro hm
  rcases List.mem_append.mp hm with h | h
  · exact h3 _ h _ (List.mem_cons_self) rfl
  · exact h2.1 h

/-- an index / unique constraint removed from the metadata collection: exactly its drop op -/
theorem compareIxUq_remove (t : String) (l1 l2 : List Named) (x : Named)
    (hnd : ((l1 ++ x :: l2).map (·.name)).Nodup) :
    compareIxUq t false (l1 ++ x :: l2) (l1 ++ l2) = objRemoved t false x := by
  have hx := nodup_insert_not_mem l1 l2 x hnd
  have hx1 : x.name ∉ l1.map (·.name) := by
    intro h; apply hx; simp only [List.map_append, List.mem_append]; exact Or.inl h
  unfold compareIxUq
  have hcn : (l1 ++ x :: l2).map (·.name) = l1.map (·.name) ++ x.name :: l2.map (·.name) := by simp
  have hmn : (l1 ++ l2).map (·.name) = l1.map (·.name) ++ l2.map (·.name) := by simp
  have h1 : ((l1 ++ x :: l2).map (·.name)).filter (fun n => !((l1 ++ l2).map (·.name)).contains n) = [x.name] := by
    rw [hcn, List.filter_append, List.filter_cons]
    have hx' := contains_false_of_not_mem _ _ hx
    rw [filter_nil_of_forall, filter_nil_of_forall]
    · simp only [hx', Bool.not_false, if_true, List.nil_append]
    · intro n hn
      have : n ∈ (l1 ++ l2).map (·.name) := by rw [hmn]; exact List.mem_append.mpr (Or.inr hn)
      simp only [contains_of_mem _ _ this, Bool.not_true]
    · intro n hn
      have : n ∈ (l1 ++ l2).map (·.name) := by rw [hmn]; exact List.mem_append.mpr (Or.inl hn)
      simp only [contains_of_mem _ _ this, Bool.not_true]
  have h3 : ((l1 ++ l2).map (·.name)).filter (fun n => !((l1 ++ x :: l2).map (·.name)).contains n) = [] := by
    apply filter_nil_of_forall
    intro n hn
    have : n ∈ (l1 ++ x :: l2).map (·.name) := by
      rw [hcn]; rw [hmn] at hn
      rcases List.mem_append.mp hn with h | h
      · exact List.mem_append.mpr (Or.inl h)
      · exact List.mem_append.mpr (Or.inr (List.mem_cons_of_mem _ h))
    simp only [contains_of_mem _ _ this, Bool.not_true]
  have h2 : (sortNames (((l1 ++ l2).map (·.name)).filter (fun n => ((l1 ++ x :: l2).map (·.name)).contains n))).flatMap
      (fun n => match findNamed (l1 ++ x :: l2) n, findNamed (l1 ++ l2) n with
        | some c, some m => compareNamed t c m
        | _, _ => []) = [] := by
    apply flatMap_nil_of_forall
    intro n hn
    have hmem : n ∈ (l1 ++ l2).map (·.name) := (List.mem_filter.mp ((mem_sortNames _ _).mp hn)).1
    have hne : x.name ≠ n := by intro e; exact hx (e ▸ hmem)
    rw [findNamed_insert_ne l1 l2 x n hne]
    obtain ⟨y, hy⟩ := findNamed_some_of_mem (l1 ++ l2) n hmem
    simp [hy, compareNamed_self]
  have hs1 : sortNames [] = [] := by simp [sortNames]
  have hs2 : sortNames [x.name] = [x.name] := by simp [sortNames]
  simp only [h1, h3, hs1, hs2, List.flatMap_nil, List.flatMap_cons, List.append_nil,
    findNamed_insert_self l1 l2 x hx1]
  have h2' : ∀ (r : List Op), r = [] → objRemoved t false x ++ r = objRemoved t false x := by
    intro r hr; rw [hr]; simp
  exact h2' _ h2

/-- an index / unique constraint replaced by another object of the same name: the ops of
comparing the two -/
theorem mem_compareIxUq_change (t : String) (l1 l2 : List Named) (x y : Named) (hxy : y.name = x.name)
    (hnd : ((l1 ++ x :: l2).map (·.name)).Nodup) (op : Op) :
    op ∈ compareIxUq t false (l1 ++ x :: l2) (l1 ++ y :: l2) ↔ op ∈ compareNamed t x y := by
  have hx := nodup_insert_not_mem l1 l2 x hnd
  have hx1 : x.name ∉ l1.map (·.name) := by
    intro h; apply hx; simp only [List.map_append, List.mem_append]; exact Or.inl h
  have hy1 : y.name ∉ l1.map (·.name) := by rw [hxy]; exact hx1
  have hnames : (l1 ++ y :: l2).map (·.name) = (l1 ++ x :: l2).map (·.name) := by simp [hxy]
  unfold compareIxUq
  rw [hnames]
  have h1 : ((l1 ++ x :: l2).map (·.name)).filter (fun n => !((l1 ++ x :: l2).map (·.name)).contains n) = [] := by
    apply filter_nil_of_forall
    intro n hn
    simp only [contains_of_mem _ _ hn, Bool.not_true]
  have hs1 : sortNames [] = [] := by simp [sortNames]
  simp only [h1, hs1, List.flatMap_nil, List.nil_append, List.append_nil, List.mem_flatMap]
  constructor
  · rintro ⟨n, hn, hop⟩
    have hmem : n ∈ (l1 ++ x :: l2).map (·.name) := (List.mem_filter.mp ((mem_sortNames _ _).mp hn)).1
    by_cases hne : x.name = n
    · subst hne
      rw [findNamed_insert_self l1 l2 x hx1] at hop
      have := findNamed_insert_self l1 l2 y hy1
      rw [hxy] at this
      rw [this] at hop
      exact hop
    · rw [findNamed_insert_ne l1 l2 x n hne, findNamed_insert_ne l1 l2 y n (by rw [hxy]; exact hne)] at hop
      cases hf : findNamed (l1 ++ l2) n with
      | none => rw [hf] at hop; cases hop
      | some z => rw [hf] at hop; simp only [compareNamed_self] at hop; cases hop
  · intro hop
    refine ⟨x.name, ?_, ?_⟩
    · apply (mem_sortNames _ _).mpr
      apply List.mem_filter.mpr
      have : x.name ∈ (l1 ++ x :: l2).map (·.name) := by simp
      exact ⟨this, contains_of_mem _ _ this⟩
    · rw [findNamed_insert_self l1 l2 x hx1]
      have := findNamed_insert_self l1 l2 y hy1
      rw [hxy] at this
      rw [this]
      exact hop

end Lemmas.Diff

namespace Lemmas.Diff
open Model.Diff Spec.Diff

/-- a foreign key removed from the metadata collection (signatures pairwise distinct): exactly
its drop op -/
theorem compareFks_remove (t : String) (s r : List Fk) (f : Fk)
    (hnd : ((s ++ f :: r).map (fkSig t)).Nodup) :
    compareFks t (s ++ f :: r) (s ++ r) = [Op.removeFk t f] := by
  have hsplit := hnd
  simp only [List.map_append, List.map_cons] at hsplit
  rw [List.nodup_append] at hsplit
  obtain ⟨_, h2, h3⟩ := hsplit
  have hf : fkSig t f ∉ (s ++ r).map (fkSig t) := by
    intro hm
    simp only [List.map_append] at hm
    rcases List.mem_append.mp hm with h | h
    · exact h3 _ h _ (List.mem_cons_self) rfl
    · exact (List.nodup_cons.mp h2).1 h
  unfold compareFks
  have h1 : (s ++ f :: r).filter (fun c => !((s ++ r).map (fkSig t)).contains (fkSig t c)) = [f] := by
    rw [List.filter_append, List.filter_cons]
    have hc : ((s ++ r).map (fkSig t)).contains (fkSig t f) = false := by
      cases hc : ((s ++ r).map (fkSig t)).contains (fkSig t f)
      · rfl
      · exact absurd (by simpa using hc) hf
    rw [filter_nil_of_forall, filter_nil_of_forall]
    · simp only [hc, Bool.not_false, if_true, List.nil_append]
    · intro c hc'
      have : ((s ++ r).map (fkSig t)).contains (fkSig t c) = true := by
        simp only [List.contains_iff_mem, List.map_append, List.mem_append]
        exact Or.inr (List.mem_map_of_mem (f := fkSig t) hc')
      simp only [this, Bool.not_true]
    · intro c hc'
      have : ((s ++ r).map (fkSig t)).contains (fkSig t c) = true := by
        simp only [List.contains_iff_mem, List.map_append, List.mem_append]
        exact Or.inl (List.mem_map_of_mem (f := fkSig t) hc')
      simp only [this, Bool.not_true]
  have h2' : (s ++ r).filter (fun m => !((s ++ f :: r).map (fkSig t)).contains (fkSig t m)) = [] := by
    apply filter_nil_of_forall
    intro c hc'
    have : ((s ++ f :: r).map (fkSig t)).contains (fkSig t c) = true := by
      simp only [List.contains_iff_mem, List.map_append, List.map_cons, List.mem_append, List.mem_cons]
      rcases List.mem_append.mp hc' with h | h
      · exact Or.inl (List.mem_map_of_mem (f := fkSig t) h)
      · exact Or.inr (Or.inr (List.mem_map_of_mem (f := fkSig t) h))
    simp only [this, Bool.not_true]
  simp only [h1, h2', List.map_cons, List.map_nil, List.append_nil]

theorem named_nodup_parts (uqs : List Uq) (ixs : List Ix) (h : ((namedOf uqs ixs).map (·.name)).Nodup) :
    (uqs.map (·.name)).Nodup ∧ (ixs.map (·.name)).Nodup := by
  have e : (namedOf uqs ixs).map (·.name) = uqs.map (·.name) ++ ixs.map (·.name) := by
    simp [namedOf, List.map_map, Function.comp_def, Named.name]
  rw [e, List.nodup_append] at h
  exact ⟨h.1, h.2.1⟩

end Lemmas.Diff
