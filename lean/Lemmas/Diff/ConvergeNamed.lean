import Lemmas.Diff.Converge
/-! Indexes / unique constraints / foreign keys after the upgrade of one table (C06.converge). -/
namespace Lemmas.Diff
open Model.Diff Spec.Diff

def ixOf (ixs : List Ix) (n : String) : Option Ix := ixs.find? (fun i => i.name == n)
def uqOf (uqs : List Uq) (n : String) : Option Uq := uqs.find? (fun i => i.name == n)

def stepI (n : String) : Option Ix → Op → Option Ix
  | o, .addIndex _ ix =>
    match o with
    | some k => some k
    | none => if ix.name == n then some ix else none
  | o, .removeIndex _ ix => if ix.name == n then none else o
  | o, _ => o

def stepU (n : String) : Option Uq → Op → Option Uq
  | o, .addUq _ u =>
    match o with
    | some k => some k
    | none => if u.name == n then some u else none
  | o, .removeUq _ u => if u.name == n then none else o
  | o, _ => o

theorem find?_filter_ne {α : Type} (key : α → String) (l : List α) (c n : String) :
    (l.filter (fun k => key k != c)).find? (fun k => key k == n) =
      if c == n then none else l.find? (fun k => key k == n) := by
  rw [List.find?_filter]
  by_cases hc : c = n
  · subst hc
    simp only [beq_self_eq_true, if_true]
    rw [List.find?_eq_none]
    intro k _
    simp
  · have h1 : (c == n) = false := by simpa using hc
    simp only [h1]
    apply find?_congr'
    intro k _
    by_cases hk : key k = n
    · have : n ≠ c := fun e => hc e.symm
      simp [hk, this]
    · simp [hk]

theorem ixOf_applyT (x : DTable) (op : Op) (n : String) :
    ixOf (applyT x op).ixs n = stepI n (ixOf x.ixs n) op := by
  cases op with
  | addIndex t ix =>
    simp only [applyT, stepI, ixOf, List.find?_append]
    cases h : x.ixs.find? (fun k => k.name == n) with
    | some k => simp
    | none =>
      simp only [Option.none_or, List.find?_cons, List.find?_nil]
      split <;> simp_all
  | removeIndex t ix =>
    simp only [applyT, stepI, ixOf]
    exact find?_filter_ne (·.name) x.ixs ix.name n
  | _ => rfl

theorem uqOf_applyT (x : DTable) (op : Op) (n : String) :
    uqOf (applyT x op).uqs n = stepU n (uqOf x.uqs n) op := by
  cases op with
  | addUq t u =>
    simp only [applyT, stepU, uqOf, List.find?_append]
    cases h : x.uqs.find? (fun k => k.name == n) with
    | some k => simp
    | none =>
      simp only [Option.none_or, List.find?_cons, List.find?_nil]
      split <;> simp_all
  | removeUq t u =>
    simp only [applyT, stepU, uqOf]
    exact find?_filter_ne (·.name) x.uqs u.name n
  | _ => rfl

theorem ixOf_foldl (ops : List Op) (x : DTable) (n : String) :
    ixOf (ops.foldl applyT x).ixs n = ops.foldl (stepI n) (ixOf x.ixs n) := by
  induction ops generalizing x with
  | nil => rfl
  | cons o r ih => simp only [List.foldl_cons]; rw [ih, ixOf_applyT]

theorem uqOf_foldl (ops : List Op) (x : DTable) (n : String) :
    uqOf (ops.foldl applyT x).uqs n = ops.foldl (stepU n) (uqOf x.uqs n) := by
  induction ops generalizing x with
  | nil => rfl
  | cons o r ih => simp only [List.foldl_cons]; rw [ih, uqOf_applyT]

/-- lookup in the joint namespace: unique constraints first, then indexes -/
theorem findNamed_namedOf (uqs : List Uq) (ixs : List Ix) (n : String) :
    findNamed (namedOf uqs ixs) n =
      match uqOf uqs n with
      | some u => some (.uq u)
      | none => (ixOf ixs n).map .ix := by
  unfold findNamed namedOf uqOf ixOf
  rw [List.find?_append]
  have h1 := find?_map_key Named.uq (·.name) (·.name) (fun _ => rfl) n uqs
  have h2 := find?_map_key Named.ix (·.name) (·.name) (fun _ => rfl) n ixs
  rw [h1, h2]
  cases uqs.find? (fun y => y.name == n) <;> simp

theorem findNamed_name (l : List Named) (n : String) (x : Named) (h : findNamed l n = some x) : x.name = n := by
  unfold findNamed at h
  simpa using List.find?_some h

/-- folding over the ops of a list of distinct names: only the entry of name `n` can move the
lookup at `n` -/
theorem foldl_flatMap_single {σ : Type} (step : σ → Op → σ) (f : String → List Op) (n : String) :
    ∀ (L : List String), L.Nodup → (∀ n' ∈ L, n' ≠ n → ∀ s, (f n').foldl step s = s) → ∀ s : σ,
      (L.flatMap f).foldl step s = if n ∈ L then (f n).foldl step s else s := by
  intro L
  induction L with
  | nil => intro _ _ s; rfl
  | cons a r ih =>
    intro hnd hother s
    rw [List.nodup_cons] at hnd
    simp only [List.flatMap_cons, List.foldl_append]
    have hr := ih hnd.2 (fun n' hn' hne => hother n' (List.mem_cons_of_mem _ hn') hne)
    by_cases ha : a = n
    · subst ha
      have : a ∉ r := hnd.1
      rw [hr]
      simp [this]
    · rw [hother a (List.mem_cons_self) ha s, hr]
      have : ¬ n = a := fun e => ha e.symm
      simp [this]

end Lemmas.Diff

namespace Lemmas.Diff
open Model.Diff Spec.Diff

def opObjName : Op → Option String
  | .addIndex _ ix => some ix.name
  | .removeIndex _ ix => some ix.name
  | .addUq _ u => some u.name
  | .removeUq _ u => some u.name
  | _ => none

theorem objRemoved_name (t : String) (b : Bool) (x : Named) (op : Op) (h : op ∈ objRemoved t b x) :
    opObjName op = some x.name := by
  cases x with
  | ix i => simp [objRemoved] at h; subst h; rfl
  | uq u =>
    simp only [objRemoved] at h
    split at h
    · cases h
    · simp at h; subst h; rfl

theorem objAdded_name (t : String) (b : Bool) (x : Named) (op : Op) (h : op ∈ objAdded t b x) :
    opObjName op = some x.name := by
  cases x with
  | ix i => simp [objAdded] at h; subst h; rfl
  | uq u =>
    simp only [objAdded] at h
    split at h
    · cases h
    · simp at h; subst h; rfl

theorem compareNamed_name (t : String) (c m : Named) (op : Op) (h : op ∈ compareNamed t c m) :
    opObjName op = some c.name ∨ opObjName op = some m.name := by
  cases c <;> cases m <;> simp only [compareNamed] at h
  · split at h
    · simp at h; rcases h with rfl | rfl
      · exact Or.inl rfl
      · exact Or.inr rfl
    · cases h
  · rcases List.mem_append.mp h with h | h
    · exact Or.inl (objRemoved_name _ _ _ _ h)
    · exact Or.inr (objAdded_name _ _ _ _ h)
  · rcases List.mem_append.mp h with h | h
    · exact Or.inl (objRemoved_name _ _ _ _ h)
    · exact Or.inr (objAdded_name _ _ _ _ h)
  · split at h
    · simp at h; rcases h with rfl | rfl
      · exact Or.inl rfl
      · exact Or.inr rfl
    · cases h

theorem foldl_id_of {σ : Type} (step : σ → Op → σ) (ops : List Op) (s : σ) (h : ∀ op ∈ ops, ∀ s', step s' op = s') :
    ops.foldl step s = s := by
  induction ops generalizing s with
  | nil => rfl
  | cons a r ih =>
    simp only [List.foldl_cons]
    rw [h a (List.mem_cons_self), ih _ (fun op hop => h op (List.mem_cons_of_mem _ hop))]

theorem mem_names_iff_findNamed (l : List Named) (n : String) : n ∈ l.map (·.name) ↔ ∃ x, findNamed l n = some x := by
  constructor
  · exact findNamed_some_of_mem l n
  · rintro ⟨x, hx⟩
    unfold findNamed at hx
    exact List.mem_map.mpr ⟨x, List.mem_of_find?_eq_some hx, by simpa using List.find?_some hx⟩

theorem nodup_sortNames (l : List String) (h : l.Nodup) : (sortNames l).Nodup := by
  unfold sortNames
  exact (List.mergeSort_perm l _).nodup_iff.mpr h

/-- the index / unique ops seen from one name `n`: only the entry of `n` matters -/
theorem foldl_compareIxUq {σ : Type} (step : σ → Op → σ) (n : String)
    (hst : ∀ op s, opObjName op ≠ some n → step s op = s)
    (t : String) (b : Bool) (conn md : List Named) (hc : (conn.map (·.name)).Nodup) (hm : (md.map (·.name)).Nodup) (s : σ) :
    (compareIxUq t b conn md).foldl step s =
      match findNamed conn n, findNamed md n with
      | some c, none => (objRemoved t b c).foldl step s
      | some c, some m => (compareNamed t c m).foldl step s
      | none, some m => (objAdded t b m).foldl step s
      | none, none => s := by
  unfold compareIxUq
  simp only [List.foldl_append]
  -- other names never move the lookup at `n` (outermost fold first: added, existing, removed)
  rw [foldl_flatMap_single step _ n _ (nodup_sortNames _ (hm.filter _)) ?hA,
      foldl_flatMap_single step _ n _ (nodup_sortNames _ (hm.filter _)) ?hE,
      foldl_flatMap_single step _ n _ (nodup_sortNames _ (hc.filter _)) ?hR]
  case hR =>
    intro n' _ hne s'
    apply foldl_id_of
    intro op hop s''
    apply hst
    cases hf : findNamed conn n' with
    | none => rw [hf] at hop; cases hop
    | some c =>
      rw [hf] at hop
      rw [objRemoved_name _ _ _ _ hop, findNamed_name _ _ _ hf]
      intro e; exact hne (Option.some.inj e)
  case hE =>
    intro n' _ hne s'
    apply foldl_id_of
    intro op hop s''
    apply hst
    cases hf : findNamed conn n' with
    | none => rw [hf] at hop; cases hop
    | some c =>
      cases hg : findNamed md n' with
      | none => rw [hf, hg] at hop; cases hop
      | some m =>
        rw [hf, hg] at hop
        rcases compareNamed_name _ _ _ _ hop with h | h
        · rw [h, findNamed_name _ _ _ hf]; intro e; exact hne (Option.some.inj e)
        · rw [h, findNamed_name _ _ _ hg]; intro e; exact hne (Option.some.inj e)
  case hA =>
    intro n' _ hne s'
    apply foldl_id_of
    intro op hop s''
    apply hst
    cases hf : findNamed md n' with
    | none => rw [hf] at hop; cases hop
    | some c =>
      rw [hf] at hop
      rw [objAdded_name _ _ _ _ hop, findNamed_name _ _ _ hf]
      intro e; exact hne (Option.some.inj e)
  simp only [mem_sortNames, List.mem_filter, Bool.not_eq_true', List.contains_iff_mem]
  cases hf : findNamed conn n with
  | none =>
    have h1 : n ∉ conn.map (·.name) := by
      intro h; obtain ⟨x, hx⟩ := (mem_names_iff_findNamed conn n).mp h; rw [hf] at hx; cases hx
    cases hg : findNamed md n with
    | none =>
      have h2 : n ∉ md.map (·.name) := by
        intro h; obtain ⟨x, hx⟩ := (mem_names_iff_findNamed md n).mp h; rw [hg] at hx; cases hx
      simp [h1, h2]
    | some m =>
      have h2 : n ∈ md.map (·.name) := (mem_names_iff_findNamed md n).mpr ⟨m, hg⟩
      simp [h1, h2, contains_false_of_not_mem _ _ h1]
  | some c =>
    have h1 : n ∈ conn.map (·.name) := (mem_names_iff_findNamed conn n).mpr ⟨c, hf⟩
    cases hg : findNamed md n with
    | none =>
      have h2 : n ∉ md.map (·.name) := by
        intro h; obtain ⟨x, hx⟩ := (mem_names_iff_findNamed md n).mp h; rw [hg] at hx; cases hx
      simp [h1, h2, contains_false_of_not_mem _ _ h2]
    | some m =>
      have h2 : n ∈ md.map (·.name) := (mem_names_iff_findNamed md n).mpr ⟨m, hg⟩
      simp [h1, h2, contains_of_mem _ _ h1, contains_of_mem _ _ h2]

end Lemmas.Diff

namespace Lemmas.Diff
open Model.Diff Spec.Diff

theorem stepI_ne (n : String) (op : Op) (s : Option Ix) (h : opObjName op ≠ some n) : stepI n s op = s := by
  cases op <;> cases s <;> simp_all [stepI, opObjName]

theorem stepU_ne (n : String) (op : Op) (s : Option Uq) (h : opObjName op ≠ some n) : stepU n s op = s := by
  cases op <;> cases s <;> simp_all [stepU, opObjName]

theorem opObjName_none_of (op : Op) (h : isColOp op = true ∨ isFkOp op = true) : opObjName op = none := by
  cases op <;> first | rfl | (rcases h with h | h <;> cases h)

/-- only the index / unique ops of a table comparison move index / unique lookups -/
theorem foldl_compareTable_named {σ : Type} (step : σ → Op → σ)
    (hst : ∀ op s, opObjName op = none → step s op = s)
    (cfg : Cfg) (ct : RTable) (mt : Table) (s : σ) :
    (compareTable cfg ct mt).foldl step s =
      (compareIxUq mt.name false (namedOf ct.uqs ct.ixs) (namedOf mt.uqs mt.ixs)).foldl step s := by
  simp only [compareTable, List.foldl_append]
  have h1 : ∀ s, (addedCols mt.name ct.cols mt.cols).foldl step s = s := fun s =>
    foldl_id_of step _ s (fun op hop s' => hst op s' (opObjName_none_of op (Or.inl (colOps_ops cfg _ _ _ op (Or.inl hop)).1)))
  have h2 : ∀ s, (alteredCols cfg mt.name ct.cols mt.cols).foldl step s = s := fun s =>
    foldl_id_of step _ s (fun op hop s' => hst op s' (opObjName_none_of op (Or.inl (colOps_ops cfg _ _ _ op (Or.inr (Or.inl hop))).1)))
  have h5 : ∀ s, (removedCols mt.name ct.cols mt.cols).foldl step s = s := fun s =>
    foldl_id_of step _ s (fun op hop s' => hst op s' (opObjName_none_of op (Or.inl (colOps_ops cfg _ _ _ op (Or.inr (Or.inr hop))).1)))
  have h4 : ∀ s, (compareFks mt.name ct.fks mt.fks).foldl step s = s := fun s =>
    foldl_id_of step _ s (fun op hop s' => hst op s' (opObjName_none_of op (Or.inr (compareFks_ops _ _ _ op hop).1)))
  rw [h1, h2, h4, h5]

theorem not_both_named (uqs : List Uq) (ixs : List Ix) (h : ((namedOf uqs ixs).map (·.name)).Nodup) (n : String)
    (u : Uq) (i : Ix) (hu : uqOf uqs n = some u) (hi : ixOf ixs n = some i) : False := by
  have e : (namedOf uqs ixs).map (·.name) = uqs.map (·.name) ++ ixs.map (·.name) := by
    simp [namedOf, List.map_map, Function.comp_def, Named.name]
  rw [e, List.nodup_append] at h
  have hun : u.name = n := by simpa using List.find?_some hu
  have hin : i.name = n := by simpa using List.find?_some hi
  exact h.2.2 _ (List.mem_map_of_mem (f := (·.name)) (List.mem_of_find?_eq_some hu)) _
    (List.mem_map_of_mem (f := (·.name)) (List.mem_of_find?_eq_some hi)) (by simp [hun, hin])

theorem ixOf_transform (cfg : Cfg) (da : DTable) (tb : Table)
    (hc : ((namedOf da.uqs da.ixs).map (·.name)).Nodup) (hm : ((namedOf tb.uqs tb.ixs).map (·.name)).Nodup) (n : String) :
    ixOf (transform cfg da tb).ixs n =
      match findNamed (namedOf da.uqs da.ixs) n, findNamed (namedOf tb.uqs tb.ixs) n with
      | some c, none => (objRemoved tb.name false c).foldl (stepI n) (ixOf da.ixs n)
      | some c, some m => (compareNamed tb.name c m).foldl (stepI n) (ixOf da.ixs n)
      | none, some m => (objAdded tb.name false m).foldl (stepI n) (ixOf da.ixs n)
      | none, none => ixOf da.ixs n := by
  unfold transform
  rw [ixOf_foldl, foldl_compareTable_named (stepI n) (fun op s h => stepI_ne n op s (by rw [h]; simp))]
  show (compareIxUq tb.name false (namedOf da.uqs da.ixs) (namedOf tb.uqs tb.ixs)).foldl (stepI n) (ixOf da.ixs n) = _
  rw [foldl_compareIxUq (stepI n) n (fun op s h => stepI_ne n op s h) tb.name false _ _ hc hm]

theorem uqOf_transform (cfg : Cfg) (da : DTable) (tb : Table)
    (hc : ((namedOf da.uqs da.ixs).map (·.name)).Nodup) (hm : ((namedOf tb.uqs tb.ixs).map (·.name)).Nodup) (n : String) :
    uqOf (transform cfg da tb).uqs n =
      match findNamed (namedOf da.uqs da.ixs) n, findNamed (namedOf tb.uqs tb.ixs) n with
      | some c, none => (objRemoved tb.name false c).foldl (stepU n) (uqOf da.uqs n)
      | some c, some m => (compareNamed tb.name c m).foldl (stepU n) (uqOf da.uqs n)
      | none, some m => (objAdded tb.name false m).foldl (stepU n) (uqOf da.uqs n)
      | none, none => uqOf da.uqs n := by
  unfold transform
  rw [uqOf_foldl, foldl_compareTable_named (stepU n) (fun op s h => stepU_ne n op s (by rw [h]; simp))]
  show (compareIxUq tb.name false (namedOf da.uqs da.ixs) (namedOf tb.uqs tb.ixs)).foldl (stepU n) (uqOf da.uqs n) = _
  rw [foldl_compareIxUq (stepU n) n (fun op s h => stepU_ne n op s h) tb.name false _ _ hc hm]

/-- **indexes / uniques converge, per name**: after the upgrade of one table, looking a name up
in the table's joint index / unique namespace finds nothing if the model has nothing of that
name, and otherwise an object that compares equal to the model's -/
theorem named_transform (cfg : Cfg) (da : DTable) (tb : Table)
    (hc : ((namedOf da.uqs da.ixs).map (·.name)).Nodup) (hm : ((namedOf tb.uqs tb.ixs).map (·.name)).Nodup) (n : String) :
    (findNamed (namedOf tb.uqs tb.ixs) n = none →
        findNamed (namedOf (transform cfg da tb).uqs (transform cfg da tb).ixs) n = none) ∧
    (∀ m, findNamed (namedOf tb.uqs tb.ixs) n = some m →
        ∃ x, findNamed (namedOf (transform cfg da tb).uqs (transform cfg da tb).ixs) n = some x ∧
             compareNamed tb.name x m = []) := by
  have hI := ixOf_transform cfg da tb hc hm n
  have hU := uqOf_transform cfg da tb hc hm n
  rw [findNamed_namedOf (transform cfg da tb).uqs (transform cfg da tb).ixs n, hI, hU]
  rw [findNamed_namedOf da.uqs da.ixs n, findNamed_namedOf tb.uqs tb.ixs n]
  cases hu0 : uqOf da.uqs n with
  | some u =>
    have hun : u.name = n := by simpa using List.find?_some hu0
    cases hi0 : ixOf da.ixs n with
    | some i => exact absurd (not_both_named da.uqs da.ixs hc n u i hu0 hi0) id
    | none =>
      cases hum : uqOf tb.uqs n with
      | some um =>
        have humn : um.name = n := by simpa using List.find?_some hum
        by_cases hs : (uqSig u != uqSig um) = true
        · simp [compareNamed, hs, stepI, stepU, hun, humn, compareNamed_self]
        · have hse : uqSig u = uqSig um := by simpa using hs
          simp [compareNamed, hse, stepI, stepU]
      | none =>
        cases him : ixOf tb.ixs n with
        | some im =>
          have himn : im.name = n := by simpa using List.find?_some him
          simp [compareNamed, objRemoved, objAdded, stepI, stepU, hun, himn, compareNamed_self]
        | none => simp [objRemoved, stepI, stepU, hun]
  | none =>
    cases hi0 : ixOf da.ixs n with
    | some i =>
      have hin : i.name = n := by simpa using List.find?_some hi0
      cases hum : uqOf tb.uqs n with
      | some um =>
        have humn : um.name = n := by simpa using List.find?_some hum
        simp [compareNamed, objRemoved, objAdded, stepI, stepU, hin, humn, compareNamed_self]
      | none =>
        cases him : ixOf tb.ixs n with
        | some im =>
          have himn : im.name = n := by simpa using List.find?_some him
          by_cases hs : (i.unique != im.unique || i.cols != im.cols) = true
          · simp [compareNamed, hs, stepI, stepU, hin, himn, compareNamed_self]
          · have hse : i.unique = im.unique ∧ i.cols = im.cols := by simpa using hs
            simp [compareNamed, hse.1, hse.2, stepI, stepU]
        | none => simp [objRemoved, stepI, stepU, hin]
    | none =>
      cases hum : uqOf tb.uqs n with
      | some um =>
        have humn : um.name = n := by simpa using List.find?_some hum
        simp [objAdded, stepI, stepU, humn, compareNamed_self]
      | none =>
        cases him : ixOf tb.ixs n with
        | some im =>
          have himn : im.name = n := by simpa using List.find?_some him
          simp [objAdded, stepI, stepU, himn, compareNamed_self]
        | none => simp

end Lemmas.Diff

namespace Lemmas.Diff
open Model.Diff Spec.Diff

theorem compareIxUq_nil_of (t : String) (conn md : List Named)
    (h1 : ∀ n, findNamed md n = none → findNamed conn n = none)
    (h2 : ∀ n m, findNamed md n = some m → ∃ x, findNamed conn n = some x ∧ compareNamed t x m = []) :
    compareIxUq t false conn md = [] := by
  unfold compareIxUq
  have hR : (conn.map (·.name)).filter (fun n => !(md.map (·.name)).contains n) = [] := by
    apply filter_nil_of_forall
    intro n hn
    obtain ⟨x, hx⟩ := (mem_names_iff_findNamed conn n).mp hn
    have : n ∈ md.map (·.name) := by
      cases hm : findNamed md n with
      | none => rw [h1 n hm] at hx; cases hx
      | some m => exact (mem_names_iff_findNamed md n).mpr ⟨m, hm⟩
    simp only [contains_of_mem _ _ this, Bool.not_true]
  have hA : (md.map (·.name)).filter (fun n => !(conn.map (·.name)).contains n) = [] := by
    apply filter_nil_of_forall
    intro n hn
    obtain ⟨m, hm⟩ := (mem_names_iff_findNamed md n).mp hn
    obtain ⟨x, hx, _⟩ := h2 n m hm
    have : n ∈ conn.map (·.name) := (mem_names_iff_findNamed conn n).mpr ⟨x, hx⟩
    simp only [contains_of_mem _ _ this, Bool.not_true]
  have hs : sortNames [] = [] := by simp [sortNames]
  simp only [hR, hA, hs, List.flatMap_nil, List.nil_append, List.append_nil]
  apply flatMap_nil_of_forall
  intro n _
  cases hc : findNamed conn n with
  | none => rfl
  | some c =>
    cases hm : findNamed md n with
    | none => rfl
    | some m =>
      obtain ⟨x, hx, hcmp⟩ := h2 n m hm
      rw [hc] at hx
      cases hx
      exact hcmp

/-! ## foreign keys -/

def applyF (fks : List Fk) : Op → List Fk
  | .addFk _ f => fks ++ [f]
  | .removeFk _ f => fks.filter (fun i => i.name != f.name)
  | _ => fks

theorem applyT_fks (x : DTable) (op : Op) : (applyT x op).fks = applyF x.fks op := by
  cases op <;> rfl

theorem foldl_fks (ops : List Op) (x : DTable) : (ops.foldl applyT x).fks = ops.foldl applyF x.fks := by
  induction ops generalizing x with
  | nil => rfl
  | cons o r ih => simp only [List.foldl_cons]; rw [ih, applyT_fks]

theorem foldl_applyF_id (ops : List Op) (l : List Fk) (h : ∀ op ∈ ops, isFkOp op = false) : ops.foldl applyF l = l := by
  induction ops generalizing l with
  | nil => rfl
  | cons o r ih =>
    simp only [List.foldl_cons]
    have ho := h o (List.mem_cons_self)
    have : applyF l o = l := by cases o <;> first | rfl | cases ho
    rw [this, ih _ (fun op hop => h op (List.mem_cons_of_mem _ hop))]

theorem foldl_applyF_remove (t : String) (rem : List Fk) (l : List Fk) :
    (rem.map (Op.removeFk t)).foldl applyF l = l.filter (fun f => !(rem.map (·.name)).contains f.name) := by
  induction rem generalizing l with
  | nil => simp [filter_all]
  | cons a r ih =>
    simp only [List.map_cons, List.foldl_cons, applyF]
    rw [ih, List.filter_filter]
    apply List.filter_congr
    intro f _
    by_cases h : f.name = a.name <;> simp [h, List.contains_cons]

theorem foldl_applyF_add (t : String) (add : List Fk) (l : List Fk) :
    (add.map (Op.addFk t)).foldl applyF l = l ++ add := by
  induction add generalizing l with
  | nil => simp
  | cons a r ih =>
    simp only [List.map_cons, List.foldl_cons, applyF]
    rw [ih]; simp

theorem isFkOp_false_of (op : Op) (h : isColOp op = true ∨ isNamedOp op = true) : isFkOp op = false := by
  cases op <;> first | rfl | (rcases h with h | h <;> cases h)

/-- the foreign keys of a table after its upgrade -/
theorem fks_transform (cfg : Cfg) (da : DTable) (tb : Table) :
    (transform cfg da tb).fks =
      da.fks.filter (fun f => !((da.fks.filter (fun c => !(tb.fks.map (fkSig tb.name)).contains (fkSig tb.name c))).map (·.name)).contains f.name)
      ++ tb.fks.filter (fun m => !(da.fks.map (fkSig tb.name)).contains (fkSig tb.name m)) := by
  unfold transform
  rw [foldl_fks]
  simp only [compareTable, List.foldl_append]
  have h1 : ∀ l, (addedCols tb.name (reflectTable da).cols tb.cols).foldl applyF l = l := fun l =>
    foldl_applyF_id _ l (fun op hop => isFkOp_false_of op (Or.inl (colOps_ops cfg _ _ _ op (Or.inl hop)).1))
  have h2 : ∀ l, (alteredCols cfg tb.name (reflectTable da).cols tb.cols).foldl applyF l = l := fun l =>
    foldl_applyF_id _ l (fun op hop => isFkOp_false_of op (Or.inl (colOps_ops cfg _ _ _ op (Or.inr (Or.inl hop))).1))
  have h5 : ∀ l, (removedCols tb.name (reflectTable da).cols tb.cols).foldl applyF l = l := fun l =>
    foldl_applyF_id _ l (fun op hop => isFkOp_false_of op (Or.inl (colOps_ops cfg _ _ _ op (Or.inr (Or.inr hop))).1))
  have h3 : ∀ l, (compareIxUq tb.name false (namedOf (reflectTable da).uqs (reflectTable da).ixs) (namedOf tb.uqs tb.ixs)).foldl applyF l = l := fun l =>
    foldl_applyF_id _ l (fun op hop => isFkOp_false_of op (Or.inr (compareIxUq_ops _ _ _ _ op hop).1))
  rw [h1, h2, h3, h5]
  show (compareFks tb.name da.fks tb.fks).foldl applyF da.fks = _
  unfold compareFks
  rw [List.foldl_append, foldl_applyF_remove, foldl_applyF_add]

/-- **foreign keys converge** (foreign key names of the database table pairwise distinct) -/
theorem converge_fks (cfg : Cfg) (da : DTable) (tb : Table) (hnd : (da.fks.map (·.name)).Nodup) :
    compareFks tb.name (transform cfg da tb).fks tb.fks = [] := by
  rw [fks_transform]
  unfold compareFks
  have hA : (da.fks.filter (fun f => !((da.fks.filter (fun c => !(tb.fks.map (fkSig tb.name)).contains (fkSig tb.name c))).map (·.name)).contains f.name)
      ++ tb.fks.filter (fun m => !(da.fks.map (fkSig tb.name)).contains (fkSig tb.name m))).filter
      (fun c => !(tb.fks.map (fkSig tb.name)).contains (fkSig tb.name c)) = [] := by
    apply filter_nil_of_forall
    intro f hf
    have : fkSig tb.name f ∈ tb.fks.map (fkSig tb.name) := by
      rcases List.mem_append.mp hf with h | h
      · obtain ⟨hfd, hkeep⟩ := List.mem_filter.mp h
        apply Classical.byContradiction
        intro hnot
        have hrem : f ∈ da.fks.filter (fun c => !(tb.fks.map (fkSig tb.name)).contains (fkSig tb.name c)) := by
          apply List.mem_filter.mpr
          refine ⟨hfd, ?_⟩
          have : (tb.fks.map (fkSig tb.name)).contains (fkSig tb.name f) = false := by
            cases hc : (tb.fks.map (fkSig tb.name)).contains (fkSig tb.name f)
            · rfl
            · exact absurd (by simpa using hc) hnot
          simp only [this, Bool.not_false]
        have := contains_of_mem _ _ (List.mem_map_of_mem (f := (·.name)) hrem)
        rw [this] at hkeep
        cases hkeep
      · exact List.mem_map_of_mem (f := fkSig tb.name) (List.mem_filter.mp h).1
    have hc : (tb.fks.map (fkSig tb.name)).contains (fkSig tb.name f) = true := by simpa using this
    simp only [hc, Bool.not_true]
  have hB : tb.fks.filter (fun m => !((da.fks.filter (fun f => !((da.fks.filter (fun c => !(tb.fks.map (fkSig tb.name)).contains (fkSig tb.name c))).map (·.name)).contains f.name)
      ++ tb.fks.filter (fun m => !(da.fks.map (fkSig tb.name)).contains (fkSig tb.name m))).map (fkSig tb.name)).contains (fkSig tb.name m)) = [] := by
    apply filter_nil_of_forall
    intro m hm
    have : fkSig tb.name m ∈ (da.fks.filter (fun f => !((da.fks.filter (fun c => !(tb.fks.map (fkSig tb.name)).contains (fkSig tb.name c))).map (·.name)).contains f.name)
        ++ tb.fks.filter (fun m => !(da.fks.map (fkSig tb.name)).contains (fkSig tb.name m))).map (fkSig tb.name) := by
      rw [List.map_append, List.mem_append]
      by_cases hin : fkSig tb.name m ∈ da.fks.map (fkSig tb.name)
      · left
        obtain ⟨f, hfd, hfs⟩ := List.mem_map.mp hin
        apply List.mem_map.mpr
        refine ⟨f, List.mem_filter.mpr ⟨hfd, ?_⟩, hfs⟩
        have hnotrem : f.name ∉ (da.fks.filter (fun c => !(tb.fks.map (fkSig tb.name)).contains (fkSig tb.name c))).map (·.name) := by
          intro hmem
          obtain ⟨g, hg, hgn⟩ := List.mem_map.mp hmem
          obtain ⟨hgd, hgs⟩ := List.mem_filter.mp hg
          have hfg : g = f := by
            have h1 := find?_key_of_nodup (·.name) da.fks hnd g hgd
            have h2 := find?_key_of_nodup (·.name) da.fks hnd f hfd
            simp only [hgn] at h1
            rw [h1] at h2
            exact Option.some.inj h2
          subst hfg
          have : (tb.fks.map (fkSig tb.name)).contains (fkSig tb.name g) = true := by
            simp only [List.contains_iff_mem]
            rw [hfs]; exact List.mem_map_of_mem (f := fkSig tb.name) hm
          rw [this] at hgs
          cases hgs
        simp only [contains_false_of_not_mem _ _ hnotrem, Bool.not_false]
      · right
        apply List.mem_map_of_mem (f := fkSig tb.name)
        apply List.mem_filter.mpr
        refine ⟨hm, ?_⟩
        have : (da.fks.map (fkSig tb.name)).contains (fkSig tb.name m) = false := by
          cases hc : (da.fks.map (fkSig tb.name)).contains (fkSig tb.name m)
          · rfl
          · exact absurd (by simpa using hc) hin
        simp only [this, Bool.not_false]
    have hc : ((da.fks.filter (fun f => !((da.fks.filter (fun c => !(tb.fks.map (fkSig tb.name)).contains (fkSig tb.name c))).map (·.name)).contains f.name)
        ++ tb.fks.filter (fun m => !(da.fks.map (fkSig tb.name)).contains (fkSig tb.name m))).map (fkSig tb.name)).contains (fkSig tb.name m) = true := by
      simpa using this
    simp only [hc, Bool.not_true]
  rw [hA, hB]
  rfl

end Lemmas.Diff

namespace Lemmas.Diff
open Model.Diff Spec.Diff

/-- **one pass is enough for a table**: apply the ops autogenerate emits for (database table
`da`, model table `tb`) to `da`; comparing the result with `tb` again yields nothing. -/
theorem converge_table (cfg : Cfg) (da : DTable) (tb : Table)
    (hcols : (tb.cols.map (·.name)).Nodup) (hok : ∀ c ∈ tb.cols, colOk cfg c = true)
    (hc : ((namedOf da.uqs da.ixs).map (·.name)).Nodup) (hm : ((namedOf tb.uqs tb.ixs).map (·.name)).Nodup)
    (hfk : (da.fks.map (·.name)).Nodup) :
    compareTable cfg (reflectTable (transform cfg da tb)) tb = [] := by
  obtain ⟨h1, h2, h3⟩ := converge_cols cfg da tb hcols hok
  have h4 : compareIxUq tb.name false (namedOf (transform cfg da tb).uqs (transform cfg da tb).ixs) (namedOf tb.uqs tb.ixs) = [] :=
    compareIxUq_nil_of tb.name _ _
      (fun n hn => (named_transform cfg da tb hc hm n).1 hn)
      (fun n m hn => (named_transform cfg da tb hc hm n).2 m hn)
  have h5 := converge_fks cfg da tb hfk
  unfold compareTable
  show addedCols tb.name ((transform cfg da tb).cols.map reflectCol) tb.cols ++
      alteredCols cfg tb.name ((transform cfg da tb).cols.map reflectCol) tb.cols ++
      compareIxUq tb.name false (namedOf (transform cfg da tb).uqs (transform cfg da tb).ixs) (namedOf tb.uqs tb.ixs) ++
      compareFks tb.name (transform cfg da tb).fks tb.fks ++
      removedCols tb.name ((transform cfg da tb).cols.map reflectCol) tb.cols = []
  rw [h1, h2, h3, h4, h5]
  rfl

end Lemmas.Diff
