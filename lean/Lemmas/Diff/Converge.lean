import Lemmas.Diff.Constraints
/-! Table-local view of `apply` and per-name lookups: groundwork for C06.converge. -/
namespace Lemmas.Diff
open Model.Diff Spec.Diff

/-- the effect of a table-local op on the table it names -/
def applyT (x : DTable) : Op → DTable
  | .addColumn _ c => { x with cols := x.cols ++ [createCol c] }
  | .removeColumn _ c => { x with cols := x.cols.filter (fun k => k.name != c) }
  | .modifyType _ c ty => { x with cols := updCol x.cols c (fun k => { k with ty := declTy ty }) }
  | .modifyNullable _ c b => { x with cols := updCol x.cols c (fun k => { k with nullable := b }) }
  | .modifyDefault _ c d =>
    { x with cols := updCol x.cols c (fun k => { k with dflt := d.map (fun v => sqliteStore (ddlDefault v)) }) }
  | .addIndex _ ix => { x with ixs := x.ixs ++ [ix] }
  | .removeIndex _ ix => { x with ixs := x.ixs.filter (fun i => i.name != ix.name) }
  | .addUq _ u => { x with uqs := x.uqs ++ [u] }
  | .removeUq _ u => { x with uqs := x.uqs.filter (fun i => i.name != u.name) }
  | .addFk _ f => { x with fks := x.fks ++ [f] }
  | .removeFk _ f => { x with fks := x.fks.filter (fun i => i.name != f.name) }
  | .addTable _ => x
  | .removeTable _ => x

def opTable : Op → String
  | .addTable t => t.name
  | .removeTable t => t
  | .addColumn t _ => t
  | .removeColumn t _ => t
  | .modifyType t _ _ => t
  | .modifyNullable t _ _ => t
  | .modifyDefault t _ _ => t
  | .addIndex t _ => t
  | .removeIndex t _ => t
  | .addUq t _ => t
  | .removeUq t _ => t
  | .addFk t _ => t
  | .removeFk t _ => t

def isLocal : Op → Bool
  | .addTable _ => false
  | .removeTable _ => false
  | _ => true

theorem applyT_name (x : DTable) (op : Op) : (applyT x op).name = x.name := by
  cases op <;> rfl

theorem foldl_applyT_name (ops : List Op) (x : DTable) : (ops.foldl applyT x).name = x.name := by
  induction ops generalizing x with
  | nil => rfl
  | cons o r ih => simp only [List.foldl_cons]; rw [ih, applyT_name]

theorem apply_local (db : Db) (op : Op) (h : isLocal op = true) :
    apply db op = updTable db (opTable op) (fun x => applyT x op) := by
  cases op <;> first | rfl | cases h

theorem updTable_comp (db : Db) (n : String) (f g : DTable → DTable) (hf : ∀ x, (f x).name = x.name) :
    updTable (updTable db n f) n g = updTable db n (fun x => g (f x)) := by
  simp only [updTable, List.map_map]
  apply List.map_congr_left
  intro x _
  simp only [Function.comp_apply]
  by_cases h : (x.name == n) = true
  · simp [h, hf]
  · simp [h]

theorem updTable_id (db : Db) (n : String) : updTable db n (fun x => x) = db := by
  simp [updTable]

/-- a run of table-local ops on one table = one in-place update of that table -/
theorem applyAll_local (ops : List Op) (db : Db) (n : String)
    (h : ∀ op ∈ ops, isLocal op = true ∧ opTable op = n) :
    applyAll db ops = updTable db n (fun x => ops.foldl applyT x) := by
  induction ops generalizing db with
  | nil => simp [applyAll, updTable_id]
  | cons o r ih =>
    have ho := h o (List.mem_cons_self)
    have hr : ∀ op ∈ r, isLocal op = true ∧ opTable op = n := fun op hop => h op (List.mem_cons_of_mem _ hop)
    simp only [applyAll, List.foldl_cons] at ih ⊢
    rw [ih _ hr, apply_local db o ho.1, ho.2, updTable_comp db n _ _ (fun x => applyT_name x o)]

theorem find?_congr' {α : Type} (l : List α) (p q : α → Bool) (h : ∀ x ∈ l, p x = q x) : l.find? p = l.find? q := by
  induction l with
  | nil => rfl
  | cons a r ih =>
    simp only [List.find?_cons, h a (List.mem_cons_self)]
    rw [ih (fun x hx => h x (List.mem_cons_of_mem _ hx))]

/-! ## per-name lookup of a column and how each op moves it -/

def colOf (cols : List DCol) (n : String) : Option DCol := cols.find? (fun k => k.name == n)

def stepC (n : String) : Option DCol → Op → Option DCol
  | o, .addColumn _ c =>
    match o with
    | some k => some k
    | none => if c.name == n then some (createCol c) else none
  | o, .removeColumn _ c => if c == n then none else o
  | o, .modifyType _ c ty => if c == n then o.map (fun k => { k with ty := declTy ty }) else o
  | o, .modifyNullable _ c b => if c == n then o.map (fun k => { k with nullable := b }) else o
  | o, .modifyDefault _ c d =>
    if c == n then o.map (fun k => { k with dflt := d.map (fun v => sqliteStore (ddlDefault v)) }) else o
  | o, _ => o

theorem colOf_updCol (cols : List DCol) (c n : String) (f : DCol → DCol) (hf : ∀ k, (f k).name = k.name) :
    colOf (updCol cols c f) n = if c == n then (colOf cols n).map f else colOf cols n := by
  unfold colOf updCol
  rw [find?_map_key (fun x => if x.name == c then f x else x) (·.name) (·.name)
    (by intro x; split <;> simp [hf]) n cols]
  cases hfind : cols.find? (fun y => y.name == n) with
  | none => simp
  | some k =>
    have hk : k.name = n := by simpa using List.find?_some hfind
    by_cases hc : c = n
    · subst hc; simp [hk]
    · have h1 : (c == n) = false := by simpa using hc
      have hne : k.name ≠ c := by rw [hk]; exact fun e => hc e.symm
      simp [h1, hne]

theorem colOf_applyT (x : DTable) (op : Op) (n : String) :
    colOf (applyT x op).cols n = stepC n (colOf x.cols n) op := by
  cases op with
  | addColumn t c =>
    simp only [applyT, stepC, colOf, List.find?_append]
    cases h : x.cols.find? (fun k => k.name == n) with
    | some k => simp
    | none =>
      simp only [Option.none_or, List.find?_cons, List.find?_nil]
      have : (createCol c).name = c.name := rfl
      rw [this]
      split <;> simp_all
  | removeColumn t c =>
    simp only [applyT, stepC, colOf, List.find?_filter]
    by_cases hc : c = n
    · subst hc
      simp only [beq_self_eq_true, if_true]
      rw [List.find?_eq_none]
      intro k _
      simp
    · have h1 : (c == n) = false := by simpa using hc
      simp only [h1]
      apply find?_congr'
      intro k _
      by_cases hk : k.name = n
      · have : n ≠ c := fun e => hc e.symm
        simp [hk, this]
      · simp [hk]
  | modifyType t c ty => exact colOf_updCol x.cols c n _ (fun _ => rfl)
  | modifyNullable t c b => exact colOf_updCol x.cols c n _ (fun _ => rfl)
  | modifyDefault t c d => exact colOf_updCol x.cols c n _ (fun _ => rfl)
  | addTable t => rfl
  | removeTable t => rfl
  | addIndex t ix => rfl
  | removeIndex t ix => rfl
  | addUq t u => rfl
  | removeUq t u => rfl
  | addFk t f => rfl
  | removeFk t f => rfl

theorem colOf_foldl (ops : List Op) (x : DTable) (n : String) :
    colOf (ops.foldl applyT x).cols n = ops.foldl (stepC n) (colOf x.cols n) := by
  induction ops generalizing x with
  | nil => rfl
  | cons o r ih => simp only [List.foldl_cons]; rw [ih, colOf_applyT]

end Lemmas.Diff

namespace Lemmas.Diff
open Model.Diff Spec.Diff

/-- the column after the alter ops autogenerate emits for (reflected `r`, model `c`) -/
def alter (cfg : Cfg) (r : RCol) (c : Col) (k : DCol) : DCol :=
  { k with
    ty := if cfg.compareType && compareType r.ty (ddlTy c.ty) then declTy c.ty else k.ty
    nullable := if r.nullable != c.nullable then c.nullable else k.nullable
    dflt := if cfg.compareDefault && compareDefault r.dflt c.dflt
            then c.dflt.map (fun v => sqliteStore (ddlDefault v)) else k.dflt }

theorem stepC_compareCol (cfg : Cfg) (t n : String) (r : RCol) (c : Col) (o : Option DCol) :
    (compareCol cfg t r c).foldl (stepC n) o = if c.name == n then o.map (alter cfg r c) else o := by
  simp only [compareCol]
  by_cases hn : (c.name == n) = true
  · by_cases h1 : (cfg.compareType && compareType r.ty (ddlTy c.ty)) = true <;>
    by_cases h2 : (r.nullable != c.nullable) = true <;>
    by_cases h3 : (cfg.compareDefault && compareDefault r.dflt c.dflt) = true <;>
    cases o <;> simp [h1, h2, h3, hn, stepC, alter]
  · by_cases h1 : (cfg.compareType && compareType r.ty (ddlTy c.ty)) = true <;>
    by_cases h2 : (r.nullable != c.nullable) = true <;>
    by_cases h3 : (cfg.compareDefault && compareDefault r.dflt c.dflt) = true <;>
    simp [h1, h2, h3, hn, stepC]

/-- one pass is enough for a column: after the alter ops, comparing again yields nothing -/
theorem compareCol_alter (cfg : Cfg) (t : String) (k : DCol) (c : Col) (hc : colOk cfg c = true) :
    compareCol cfg t (reflectCol (alter cfg (reflectCol k) c k)) c = [] := by
  simp only [colOk, Bool.and_eq_true, Bool.or_eq_true, Bool.not_eq_true'] at hc
  obtain ⟨hty, hdf⟩ := hc
  have e1 : (cfg.compareType && compareType (reflectCol (alter cfg (reflectCol k) c k)).ty (ddlTy c.ty)) = false := by
    simp only [reflectCol, alter]
    by_cases h1 : (cfg.compareType && compareType (reflTy k.ty) (ddlTy c.ty)) = true
    · simp only [h1, if_true]
      rcases hty with h | h
      · simp [h] at h1
      · simp [compareType_refl_known c.ty h]
    · simp only [h1]
      simpa using h1
  have e2 : ((reflectCol (alter cfg (reflectCol k) c k)).nullable != c.nullable) = false := by
    simp only [reflectCol, alter]
    by_cases h2 : (k.nullable != c.nullable) = true
    · simp [h2]
    · simp only [h2]; simpa using h2
  have e3 : (cfg.compareDefault && compareDefault (reflectCol (alter cfg (reflectCol k) c k)).dflt c.dflt) = false := by
    simp only [reflectCol, alter]
    by_cases h3 : (cfg.compareDefault && compareDefault (k.dflt.map autogenReflect) c.dflt) = true
    · simp only [h3, if_true]
      rcases hdf with h | h
      · simp [h] at h3
      · simp only [compareDefault_quiet c.dflt h, Bool.and_false]
    · simp only [h3]
      simpa using h3
  simp only [compareCol, e1, e2, e3]
  rfl

theorem foldl_stepC_id (n : String) (ops : List Op) (o : Option DCol) (h : ∀ op ∈ ops, ∀ o', stepC n o' op = o') :
    ops.foldl (stepC n) o = o := by
  induction ops generalizing o with
  | nil => rfl
  | cons a r ih =>
    simp only [List.foldl_cons]
    rw [h a (List.mem_cons_self), ih _ (fun op hop => h op (List.mem_cons_of_mem _ hop))]

/-- added columns: the first new column with that name appears if the name was free -/
theorem stepC_added (t n : String) (news : List Col) (o : Option DCol) :
    (news.map (Op.addColumn t)).foldl (stepC n) o =
      match o with
      | some k => some k
      | none => (news.find? (fun c => c.name == n)).map createCol := by
  induction news generalizing o with
  | nil => cases o <;> rfl
  | cons a r ih =>
    simp only [List.map_cons, List.foldl_cons]
    rw [ih]
    cases o with
    | some k => simp [stepC]
    | none =>
      by_cases ha : (a.name == n) = true
      · simp [stepC, ha]
      · simp [stepC, ha]

/-- removed columns -/
theorem stepC_removed (t n : String) (names : List String) (o : Option DCol) :
    (names.map (Op.removeColumn t)).foldl (stepC n) o = if names.contains n then none else o := by
  induction names generalizing o with
  | nil => rfl
  | cons a r ih =>
    simp only [List.map_cons, List.foldl_cons]
    rw [ih]
    by_cases ha : a = n
    · subst ha; simp [stepC]
    · have h1 : (a == n) = false := by simpa using ha
      have h2 : (n == a) = false := by simpa using (fun e => ha e.symm)
      have h3 : ¬ n = a := fun e => ha e.symm
      simp [stepC, h1, h3]

/-- altered columns: only the model column of that name matters -/
theorem stepC_altered (cfg : Cfg) (t n : String) (rc : List RCol) (mc : List Col) (hnd : (mc.map (·.name)).Nodup)
    (o : Option DCol) :
    (alteredCols cfg t rc mc).foldl (stepC n) o =
      match mc.find? (fun c => c.name == n) with
      | some c =>
        (match findRCol rc c.name with
         | some r => o.map (alter cfg r c)
         | none => o)
      | none => o := by
  unfold alteredCols
  induction mc generalizing o with
  | nil => rfl
  | cons a r ih =>
    simp only [List.map_cons, List.nodup_cons] at hnd
    simp only [List.flatMap_cons, List.foldl_append, List.find?_cons]
    by_cases ha : (a.name == n) = true
    · simp only [ha]
      have hrest : r.find? (fun c => c.name == n) = none := by
        rw [List.find?_eq_none]
        intro x hx
        have : a.name = n := by simpa using ha
        intro e
        have : x.name = a.name := by rw [this]; simpa using e
        exact hnd.1 (this ▸ List.mem_map_of_mem (f := (·.name)) hx)
      rw [ih hnd.2, hrest]
      cases hf : findRCol rc a.name with
      | some rr => simp only [stepC_compareCol, ha, if_true]
      | none => simp
    · have ha' : (a.name == n) = false := by simpa using ha
      simp only [ha']
      rw [ih hnd.2]
      cases hf : findRCol rc a.name with
      | some rr => simp only [stepC_compareCol, ha']; simp
      | none => simp

end Lemmas.Diff

namespace Lemmas.Diff
open Model.Diff Spec.Diff

def isNamedOp : Op → Bool
  | .addIndex _ _ | .removeIndex _ _ | .addUq _ _ | .removeUq _ _ => true
  | _ => false

def isFkOp : Op → Bool
  | .addFk _ _ | .removeFk _ _ => true
  | _ => false

def isColOp : Op → Bool
  | .addColumn _ _ | .removeColumn _ _ | .modifyType _ _ _ | .modifyNullable _ _ _ | .modifyDefault _ _ _ => true
  | _ => false

/-- every op of an index / unique comparison is an index / unique op on that table -/
theorem compareIxUq_ops (t : String) (b : Bool) (conn md : List Named) (op : Op)
    (h : op ∈ compareIxUq t b conn md) : isNamedOp op = true ∧ opTable op = t := by
  have hadd : ∀ b x o, o ∈ objAdded t b x → isNamedOp o = true ∧ opTable o = t := by
    intro b x o ho
    cases x with
    | ix i => simp [objAdded] at ho; subst ho; exact ⟨rfl, rfl⟩
    | uq u =>
      simp only [objAdded] at ho
      split at ho
      · cases ho
      · simp at ho; subst ho; exact ⟨rfl, rfl⟩
  have hrem : ∀ b x o, o ∈ objRemoved t b x → isNamedOp o = true ∧ opTable o = t := by
    intro b x o ho
    cases x with
    | ix i => simp [objRemoved] at ho; subst ho; exact ⟨rfl, rfl⟩
    | uq u =>
      simp only [objRemoved] at ho
      split at ho
      · cases ho
      · simp at ho; subst ho; exact ⟨rfl, rfl⟩
  simp only [compareIxUq, List.mem_append, List.mem_flatMap] at h
  rcases h with (⟨n, _, hn⟩ | ⟨n, _, hn⟩) | ⟨n, _, hn⟩
  · split at hn
    · exact hrem _ _ _ hn
    · cases hn
  · split at hn
    · rename_i c m _ _
      cases c <;> cases m <;> simp only [compareNamed] at hn
      · split at hn
        · simp at hn; rcases hn with rfl | rfl <;> exact ⟨rfl, rfl⟩
        · cases hn
      · rcases List.mem_append.mp hn with h | h
        · exact hrem _ _ _ h
        · exact hadd _ _ _ h
      · rcases List.mem_append.mp hn with h | h
        · exact hrem _ _ _ h
        · exact hadd _ _ _ h
      · split at hn
        · simp at hn; rcases hn with rfl | rfl <;> exact ⟨rfl, rfl⟩
        · cases hn
    · cases hn
  · split at hn
    · exact hadd _ _ _ hn
    · cases hn

theorem compareFks_ops (t : String) (conn md : List Fk) (op : Op) (h : op ∈ compareFks t conn md) :
    isFkOp op = true ∧ opTable op = t := by
  simp only [compareFks, List.mem_append, List.mem_map] at h
  rcases h with ⟨f, _, rfl⟩ | ⟨f, _, rfl⟩ <;> exact ⟨rfl, rfl⟩

theorem colOps_ops (cfg : Cfg) (t : String) (rc : List RCol) (mc : List Col) (op : Op)
    (h : op ∈ addedCols t rc mc ∨ op ∈ alteredCols cfg t rc mc ∨ op ∈ removedCols t rc mc) :
    isColOp op = true ∧ opTable op = t := by
  rcases h with h | h | h
  · simp only [addedCols, List.mem_map] at h
    obtain ⟨c, _, rfl⟩ := h; exact ⟨rfl, rfl⟩
  · simp only [alteredCols, List.mem_flatMap] at h
    obtain ⟨c, _, hc⟩ := h
    split at hc
    · simp only [compareCol, List.mem_append] at hc
      rcases hc with (h | h) | h <;> (split at h <;> first | (simp at h; subst h; exact ⟨rfl, rfl⟩) | cases h)
    · cases hc
  · simp only [removedCols, List.mem_map] at h
    obtain ⟨c, _, rfl⟩ := h; exact ⟨rfl, rfl⟩

theorem stepC_nonCol (n : String) (o : Option DCol) (op : Op) (h : isNamedOp op = true ∨ isFkOp op = true) :
    stepC n o op = o := by
  cases op <;> first | rfl | (rcases h with h | h <;> cases h)

/-- every op of a table comparison is local to the model table's name -/
theorem compareTable_local (cfg : Cfg) (ct : RTable) (mt : Table) (op : Op) (h : op ∈ compareTable cfg ct mt) :
    isLocal op = true ∧ opTable op = mt.name := by
  simp only [compareTable, List.mem_append] at h
  have loc : ∀ o, isColOp o = true ∨ isNamedOp o = true ∨ isFkOp o = true → isLocal o = true := by
    intro o ho; cases o <;> first | rfl | (rcases ho with h | h | h <;> cases h)
  rcases h with (((h | h) | h) | h) | h
  · have := colOps_ops cfg mt.name ct.cols mt.cols op (Or.inl h); exact ⟨loc _ (Or.inl this.1), this.2⟩
  · have := colOps_ops cfg mt.name ct.cols mt.cols op (Or.inr (Or.inl h)); exact ⟨loc _ (Or.inl this.1), this.2⟩
  · have := compareIxUq_ops _ _ _ _ _ h; exact ⟨loc _ (Or.inr (Or.inl this.1)), this.2⟩
  · have := compareFks_ops _ _ _ _ h; exact ⟨loc _ (Or.inr (Or.inr this.1)), this.2⟩
  · have := colOps_ops cfg mt.name ct.cols mt.cols op (Or.inr (Or.inr h)); exact ⟨loc _ (Or.inl this.1), this.2⟩

end Lemmas.Diff

namespace Lemmas.Diff
open Model.Diff Spec.Diff

/-- the database table after the ops autogenerate emits for (database table, model table) -/
def transform (cfg : Cfg) (da : DTable) (tb : Table) : DTable :=
  (compareTable cfg (reflectTable da) tb).foldl applyT da

theorem rcol_name' (k : DCol) : (reflectCol k).name = k.name := rfl

theorem findRCol_reflect (cols : List DCol) (n : String) :
    findRCol (cols.map reflectCol) n = (colOf cols n).map reflectCol := by
  unfold findRCol colOf
  exact find?_map_key reflectCol (·.name) (·.name) rcol_name' n cols

theorem colOf_none_iff (cols : List DCol) (n : String) : colOf cols n = none ↔ n ∉ cols.map (·.name) := by
  unfold colOf
  rw [List.find?_eq_none]
  constructor
  · intro h hm
    obtain ⟨k, hk, hkn⟩ := List.mem_map.mp hm
    exact h k hk (by simpa using hkn)
  · intro h k hk e
    exact h (List.mem_map.mpr ⟨k, hk, by simpa using e⟩)

theorem find?_name (mc : List Col) (n : String) (c : Col) (h : mc.find? (fun c => c.name == n) = some c) :
    c ∈ mc ∧ c.name = n := ⟨List.mem_of_find?_eq_some h, by simpa using List.find?_some h⟩

/-- where each column name ends up after the upgrade of one table -/
theorem colOf_transform (cfg : Cfg) (da : DTable) (tb : Table) (hnd : (tb.cols.map (·.name)).Nodup) (n : String) :
    colOf (transform cfg da tb).cols n =
      match tb.cols.find? (fun c => c.name == n) with
      | some c => some (match colOf da.cols n with
                        | some k0 => alter cfg (reflectCol k0) c k0
                        | none => createCol c)
      | none => none := by
  unfold transform
  rw [colOf_foldl]
  have hrc : (reflectTable da).cols = da.cols.map reflectCol := rfl
  simp only [compareTable, List.foldl_append, hrc]
  -- groups 3 and 4 do not move columns
  have h3 : ∀ o, (compareIxUq tb.name false (namedOf (reflectTable da).uqs (reflectTable da).ixs) (namedOf tb.uqs tb.ixs)).foldl (stepC n) o = o := by
    intro o
    apply foldl_stepC_id
    intro op hop o'
    exact stepC_nonCol n o' op (Or.inl (compareIxUq_ops _ _ _ _ _ hop).1)
  have h4 : ∀ o, (compareFks tb.name (reflectTable da).fks tb.fks).foldl (stepC n) o = o := by
    intro o
    apply foldl_stepC_id
    intro op hop o'
    exact stepC_nonCol n o' op (Or.inr (compareFks_ops _ _ _ _ hop).1)
  rw [h3, h4]
  have hrm : removedCols tb.name (da.cols.map reflectCol) tb.cols =
      (((da.cols.map reflectCol).filter (fun c => !(tb.cols.map (·.name)).contains c.name)).map (·.name)).map (Op.removeColumn tb.name) := by
    simp [removedCols, List.map_map, Function.comp_def]
  rw [hrm, stepC_removed, stepC_altered cfg tb.name n _ tb.cols hnd]
  unfold addedCols
  rw [stepC_added]
  have hnames : (da.cols.map reflectCol).map (·.name) = da.cols.map (·.name) := by
    simp [List.map_map, Function.comp_def, rcol_name']
  cases hfind : tb.cols.find? (fun c => c.name == n) with
  | some c =>
    obtain ⟨hcm, hcn⟩ := find?_name _ _ _ hfind
    -- not among the removed names
    have hnr : (((da.cols.map reflectCol).filter (fun c => !(tb.cols.map (·.name)).contains c.name)).map (·.name)).contains n = false := by
      apply contains_false_of_not_mem
      intro hm
      obtain ⟨r, hr, hrn⟩ := List.mem_map.mp hm
      have := (List.mem_filter.mp hr).2
      have hin : (tb.cols.map (·.name)).contains r.name = true := by
        apply contains_of_mem
        rw [hrn, ← hcn]
        exact List.mem_map_of_mem (f := (·.name)) hcm
      rw [hin] at this
      cases this
    simp only [hnr, Bool.false_eq_true, if_false]
    rw [hcn, findRCol_reflect]
    cases h0 : colOf da.cols n with
    | some k0 => simp
    | none =>
      have hnot : n ∉ da.cols.map (·.name) := (colOf_none_iff _ _).mp h0
      have hnew : (tb.cols.filter (fun c => !((da.cols.map reflectCol).map (·.name)).contains c.name)).find? (fun c => c.name == n) = some c := by
        rw [List.find?_filter, ← hfind]
        apply find?_congr'
        intro a _
        by_cases ha : a.name = n
        · rw [hnames, ha, contains_false_of_not_mem _ _ hnot]; simp
        · simp [ha]
      simp only [hnew, Option.map_some]
      simp
  | none =>
    have hnm : n ∉ tb.cols.map (·.name) := by
      intro hm
      obtain ⟨c, hc, hcn⟩ := List.mem_map.mp hm
      rw [List.find?_eq_none] at hfind
      exact hfind c hc (by simpa using hcn)
    have hnew : (tb.cols.filter (fun c => !((da.cols.map reflectCol).map (·.name)).contains c.name)).find? (fun c => c.name == n) = none := by
      rw [List.find?_eq_none]
      intro a ha
      rw [List.find?_eq_none] at hfind
      exact hfind a (List.mem_filter.mp ha).1
    simp only [hnew, Option.map_none]
    cases h0 : colOf da.cols n with
    | none => simp
    | some k0 =>
      have hk := List.mem_of_find?_eq_some h0
      have hkn : k0.name = n := by simpa using List.find?_some h0
      have : (((da.cols.map reflectCol).filter (fun c => !(tb.cols.map (·.name)).contains c.name)).map (·.name)).contains n = true := by
        apply contains_of_mem
        apply List.mem_map.mpr
        refine ⟨reflectCol k0, List.mem_filter.mpr ⟨List.mem_map_of_mem hk, ?_⟩, by simp [rcol_name', hkn]⟩
        simp only [rcol_name', hkn, contains_false_of_not_mem _ _ hnm, Bool.not_false]
      simp only [this, if_true]

end Lemmas.Diff

namespace Lemmas.Diff
open Model.Diff Spec.Diff

theorem find?_self_of_nodup (mc : List Col) (hnd : (mc.map (·.name)).Nodup) (c : Col) (hc : c ∈ mc) :
    mc.find? (fun k => k.name == c.name) = some c := find?_key_of_nodup (·.name) mc hnd c hc

/-- **columns converge**: after the upgrade of one table, the three column comparisons of
`_compare_columns` against the model table are empty -/
theorem converge_cols (cfg : Cfg) (da : DTable) (tb : Table) (hnd : (tb.cols.map (·.name)).Nodup)
    (hok : ∀ c ∈ tb.cols, colOk cfg c = true) :
    addedCols tb.name ((transform cfg da tb).cols.map reflectCol) tb.cols = [] ∧
    alteredCols cfg tb.name ((transform cfg da tb).cols.map reflectCol) tb.cols = [] ∧
    removedCols tb.name ((transform cfg da tb).cols.map reflectCol) tb.cols = [] := by
  have hnames : ((transform cfg da tb).cols.map reflectCol).map (·.name) = (transform cfg da tb).cols.map (·.name) := by
    simp [List.map_map, Function.comp_def, rcol_name']
  refine ⟨?_, ?_, ?_⟩
  · unfold addedCols
    rw [filter_nil_of_forall]; · rfl
    intro c hc
    have h := colOf_transform cfg da tb hnd c.name
    rw [find?_self_of_nodup tb.cols hnd c hc] at h
    have hin : c.name ∈ (transform cfg da tb).cols.map (·.name) := by
      apply Classical.byContradiction
      intro hnot
      rw [(colOf_none_iff _ _).mpr hnot] at h
      cases h
    rw [hnames, contains_of_mem _ _ hin]
    rfl
  · unfold alteredCols
    apply flatMap_nil_of_forall
    intro c hc
    have h := colOf_transform cfg da tb hnd c.name
    rw [find?_self_of_nodup tb.cols hnd c hc] at h
    rw [findRCol_reflect, h]
    simp only [Option.map_some]
    cases h0 : colOf da.cols c.name with
    | some k0 => exact compareCol_alter cfg tb.name k0 c (hok c hc)
    | none => exact compareCol_quiet cfg tb.name c (hok c hc)
  · unfold removedCols
    rw [filter_nil_of_forall]; · rfl
    intro r hr
    obtain ⟨k, hk, rfl⟩ := List.mem_map.mp hr
    have hsome : colOf (transform cfg da tb).cols k.name ≠ none := by
      intro hnone
      exact (colOf_none_iff _ _).mp hnone (List.mem_map_of_mem (f := (·.name)) hk)
    have h := colOf_transform cfg da tb hnd k.name
    cases hf : tb.cols.find? (fun c => c.name == k.name) with
    | none => rw [hf] at h; exact absurd h hsome
    | some c =>
      obtain ⟨hcm, hcn⟩ := find?_name _ _ _ hf
      have : k.name ∈ tb.cols.map (·.name) := hcn ▸ List.mem_map_of_mem (f := (·.name)) hcm
      simp only [rcol_name', contains_of_mem _ _ this, Bool.not_true]

end Lemmas.Diff
