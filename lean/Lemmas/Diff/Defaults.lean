import Spec.Diff
/-! The default-text normalisation lemmas behind `C06.defaults_quiet`. -/
namespace Lemmas.Diff
open Model.Diff Spec.Diff

theorem dblQuotes_of_noquote (v : List Char) (h : v.contains '\'' = false) : dblQuotes v = v := by
  induction v with
  | nil => rfl
  | cons c r ih =>
    simp only [List.contains_cons, Bool.or_eq_false_iff] at h
    have hc : (c == '\'') = false := by
      have := h.1
      rw [Bool.eq_false_iff] at this ⊢
      intro e; apply this; simp at e ⊢; exact e.symm
    simp [dblQuotes, hc, ih h.2]

/-- a text whose first and last characters are not white space is its own `trim` -/
theorem trim_ends (a b : Char) (m : List Char) (ha : isWs a = false) (hb : isWs b = false) :
    trim (a :: (m ++ [b])) = a :: (m ++ [b]) := by
  simp [trim, List.dropWhile_cons, ha, hb]

theorem getLast?_q (a b : Char) (m : List Char) : (a :: (m ++ [b])).getLast? = some b := by
  have : a :: (m ++ [b]) = (a :: m) ++ [b] := rfl
  rw [this, List.getLast?_concat]

theorem dropLast_q (a b : Char) (m : List Char) : (a :: (m ++ [b])).dropLast = a :: m := by
  have : a :: (m ++ [b]) = (a :: m) ++ [b] := rfl
  rw [this, List.dropLast_concat]

theorem core_of_last (s : List Char) (b : Char) (h : s.getLast? = some b) (hb : b ≠ '\n') : core s = s := by
  simp [core, h, hb]

theorem tailNl_of_last (s : List Char) (b : Char) (h : s.getLast? = some b) (hb : b ≠ '\n') : tailNl s = [] := by
  simp [tailNl, h, hb]

theorem wrapped_q (o c : Char) (m : List Char) (hm : m ≠ []) (hn : noNl m = true) :
    wrapped o c (o :: (m ++ [c])) = some m := by
  simp [wrapped, List.getLast?_concat, List.dropLast_concat, hm, hn]

theorem wrapped_head_ne (o c h : Char) (r : List Char) (hne : h ≠ o) : wrapped o c (h :: r) = none := by
  simp [wrapped, hne]

end Lemmas.Diff

namespace Lemmas.Diff
open Model.Diff Spec.Diff

/-- quoted literal `'v'` -/
def q (v : List Char) : List Char := '\'' :: (v ++ ['\''])

theorem strPlain_iff (v : List Char) (h : strPlain v = true) :
    v ≠ [] ∧ v.contains '\'' = false ∧ noNl v = true ∧ wrapped '(' ')' v = none := by
  simp only [strPlain, Bool.and_eq_true, Bool.not_eq_true', List.isEmpty_eq_false_iff, Option.isNone_iff_eq_none] at h
  exact ⟨h.1.1.1, h.1.1.2, h.1.2, h.2⟩

theorem core_of_noNl (v : List Char) (h : noNl v = true) : core v = v := by
  unfold core
  split
  · rename_i hl
    exfalso
    have hm : '\n' ∈ v := by
      have : v.getLast? = some '\n' := by simpa using hl
      exact List.mem_of_getLast? this
    simp [noNl] at h
    exact h hm
  · rfl

theorem tailNl_of_noNl (v : List Char) (h : noNl v = true) : tailNl v = [] := by
  unfold tailNl
  split
  · rename_i hl
    exfalso
    have hm : '\n' ∈ v := by
      have : v.getLast? = some '\n' := by simpa using hl
      exact List.mem_of_getLast? this
    simp [noNl] at h
    exact h hm
  · rfl

/-- the reflected default of a plain string default is the quoted literal itself -/
theorem reflectDefault_str (v : List Char) (h : strPlain v = true) :
    reflectDefault (.str v) = q v := by
  obtain ⟨hne, hq, hn, _⟩ := strPlain_iff v h
  have hstore : sqliteStore (ddlDefault (.str v)) = q v := by
    simp only [ddlDefault, dblQuotes_of_noquote v hq, sqliteStore, List.cons_append]
    rw [trim_ends '\'' '\'' v (by decide) (by decide)]
    rfl
  have hcore : core (q v) = q v := core_of_last _ '\'' (getLast?_q _ _ _) (by decide)
  have hw : wrapped '\'' '\'' (q v) = some v := wrapped_q '\'' '\'' v hne hn
  have hguess : guessUnparen (q v) = false := by
    simp [guessUnparen, hcore, hw]
  simp [reflectDefault, hstore, autogenReflect, hguess]

theorem normDefault_q (v : List Char) (hne : v ≠ []) (hn : noNl v = true) : normDefault (q v) = v := by
  have hcore : core (q v) = q v := core_of_last _ '\'' (getLast?_q _ _ _) (by decide)
  have htail : tailNl (q v) = [] := tailNl_of_last _ '\'' (getLast?_q _ _ _) (by decide)
  have hp : stripParens (q v) = q v := by
    unfold stripParens
    rw [hcore]
    have : wrapped '(' ')' (q v) = none := wrapped_head_ne '(' ')' '\'' _ (by decide)
    rw [this]
  have hd : dropDq (q v) = q v := by
    simp [dropDq, dropLeadDq, dropTrailDq, q, getLast?_q]
  unfold normDefault
  rw [hp]
  unfold stripQuotes
  have hw : wrapped '\'' '\'' (q v) = some v := wrapped_q '\'' '\'' v hne hn
  rw [hcore, hd, hw, htail]
  simp

end Lemmas.Diff

namespace Lemmas.Diff
open Model.Diff Spec.Diff

theorem wrapped_none_of_not_mem (o c : Char) (x : List Char) (h : o ∉ x) : wrapped o c x = none := by
  cases x with
  | nil => rfl
  | cons a r =>
    have : a ≠ o := by
      intro e; apply h; simp [e]
    simp [wrapped, this]

theorem not_mem_dropDq (x : List Char) (h : '\'' ∉ x) : '\'' ∉ dropDq x := by
  intro hm
  apply h
  have h1 : '\'' ∈ dropLeadDq x := by
    unfold dropDq dropTrailDq at hm
    split at hm
    · exact List.Sublist.subset (List.dropLast_sublist _) hm
    · exact hm
  unfold dropLeadDq at h1
  split at h1
  · exact List.mem_cons_of_mem _ h1
  · exact h1

/-- the metadata side of a plain string default is left alone by both substitutions -/
theorem normDefault_plain (v : List Char) (h : strPlain v = true) : normDefault v = v := by
  obtain ⟨_, hq, hn, hw⟩ := strPlain_iff v h
  have hnm : '\'' ∉ v := by simpa using hq
  unfold normDefault stripParens
  rw [core_of_noNl v hn, hw]
  unfold stripQuotes
  rw [core_of_noNl v hn, wrapped_none_of_not_mem '\'' '\'' _ (not_mem_dropDq v hnm)]

/-- **F9 core, positive half**: a plain string default compares equal to its own reflection -/
theorem compareDefault_str (v : List Char) (h : strPlain v = true) :
    compareDefault (some (reflectDefault (.str v))) (some (.str v)) = false := by
  obtain ⟨hne, _, hn, _⟩ := strPlain_iff v h
  simp [compareDefault, reflectDefault_str v h, normDefault_q v hne hn, renderMeta, normDefault_plain v h]

theorem stripParens_paren (m : List Char) (hne : m ≠ []) (hn : noNl m = true) :
    stripParens ('(' :: (m ++ [')'])) = m := by
  unfold stripParens
  rw [core_of_last _ ')' (getLast?_q _ _ _) (by decide), wrapped_q '(' ')' m hne hn,
      tailNl_of_last _ ')' (getLast?_q _ _ _) (by decide)]
  simp

theorem stripParens_of_none (s : List Char) (h : wrapped '(' ')' (core s) = none) : stripParens s = s := by
  unfold stripParens; rw [h]

theorem guess_true_not_wrapped (e : List Char) (h : guessUnparen e = true) : wrapped '(' ')' (core e) = none := by
  simp only [guessUnparen, Bool.and_eq_true, Bool.not_eq_true', Option.isSome_eq_false_iff, Option.isNone_iff_eq_none] at h
  exact h.2

theorem eq_dropLast_concat (r : List Char) (c : Char) (h : r.getLast? = some c) : r = r.dropLast ++ [c] := by
  have hne : r ≠ [] := by intro e; simp [e] at h
  have h1 := List.dropLast_concat_getLast hne
  have hc : r.getLast hne = c := by
    rw [List.getLast?_eq_some_getLast hne] at h; exact Option.some.inj h
  rw [hc] at h1; exact h1.symm

theorem noNl_of_append (a : Char) (m : List Char) (b : Char) (h : noNl (a :: (m ++ [b])) = true) : noNl m = true := by
  simp [noNl] at h ⊢
  intro hm
  exact h.2.1 hm

theorem parenInner_some (e m : List Char) (h : parenInner e = some m) : e = '(' :: (m ++ [')']) := by
  unfold parenInner at h
  split at h
  · rename_i r
    split at h
    · rename_i hl
      have hl' : r.getLast? = some ')' := by simpa using hl
      have := eq_dropLast_concat r ')' hl'
      cases h
      rw [← this]
    · cases h
  · cases h

/-- reflection does not blur an expression default: both sides normalise to the same text -/
theorem norm_reflect_expr (e : List Char) (h : exprPlain e = true) :
    normDefault (reflectDefault (.expr e)) = normDefault e := by
    simp only [exprPlain, Bool.and_eq_true, Bool.not_eq_true', List.isEmpty_eq_false_iff, beq_iff_eq] at h
    obtain ⟨⟨⟨hne, hn⟩, htrim⟩, hshape⟩ := h
    simp only [reflectDefault, ddlDefault, sqliteStore, htrim]
    cases hpi : parenInner e with
    | some m =>
      -- e = ( m ): SQLite stores the inside
      rw [hpi] at hshape
      simp only [Bool.and_eq_true, Bool.not_eq_true', List.isEmpty_eq_false_iff, beq_iff_eq,
        Option.isNone_iff_eq_none] at hshape
      obtain ⟨⟨hmne, hmtrim⟩, hmw⟩ := hshape
      have he := parenInner_some e m hpi
      have hnm : noNl m = true := by rw [he] at hn; exact noNl_of_append _ _ _ hn
      simp only [hmtrim]
      have hmeta : normDefault e = stripQuotes m := by
        unfold normDefault
        rw [he, stripParens_paren _ hmne hnm]
      rw [hmeta]
      unfold autogenReflect
      split
      · show normDefault ('(' :: (m ++ [')'])) = _
        unfold normDefault
        rw [stripParens_paren _ hmne hnm]
      · unfold normDefault
        rw [stripParens_of_none _ (by rw [core_of_noNl _ hnm]; exact hmw)]
    | none =>
      simp only []
      unfold autogenReflect
      split
      · rename_i hg
        have := guess_true_not_wrapped _ hg
        unfold normDefault
        show stripQuotes (stripParens ('(' :: (e ++ [')']))) = _
        rw [stripParens_paren _ hne hn, stripParens_of_none _ this]
      · rfl

/-- an expression default in stored form compares equal to its own reflection -/
theorem compareDefault_expr (e : List Char) (h : exprPlain e = true) :
    compareDefault (some (reflectDefault (.expr e))) (some (.expr e)) = false := by
  simp [compareDefault, norm_reflect_expr e h, renderMeta]

/-- for every plain default, the reflected text and the metadata text have the same normal form -/
theorem norm_reflect (d : Dflt) (h : dfltPlain (some d) = true) :
    normDefault (reflectDefault d) = normDefault (renderMeta d) := by
  cases d with
  | str v =>
    obtain ⟨hne, _, hn, _⟩ := strPlain_iff v h
    rw [reflectDefault_str v h, normDefault_q v hne hn]
    exact (normDefault_plain v h).symm
  | expr e => exact norm_reflect_expr e h

/-- **C06 default part**: a column's default never differs from its own reflection, for every
plain default (string or expression) -/
theorem compareDefault_quiet (d : Option Dflt) (h : dfltPlain d = true) :
    compareDefault ((d.map (fun x => sqliteStore (ddlDefault x))).map autogenReflect) d = false := by
  cases d with
  | none => rfl
  | some x =>
    cases x with
    | str v => exact compareDefault_str v h
    | expr e => exact compareDefault_expr e h

end Lemmas.Diff
