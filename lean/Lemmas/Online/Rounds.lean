import Lemmas.Online.Loop
/-! Several configure()/begin_transaction()/run_migrations() rounds on ONE connection, and identity statements. -/
namespace Model.Online
open Spec.Online

variable {α σ : Type} (ap : α → σ → σ)

/-- `MigrationContext.__init__` computes `_in_external_transaction` from the connection it is handed -/
def roundCfg (c : Cfg) (st : St σ) : Cfg := { c with external := st.sa }

/-- one round on a connection in state `st` (the connection is NOT closed afterwards):
    `configure(connection=conn, ...)`, `with begin_transaction(): run_migrations()` -/
def roundOutcome (c : Cfg) (pre : List (Stmt α)) (progs : List (List (Atom α))) (st : St σ) : Outcome σ :=
  match runMigrations ap (roundCfg c st) pre progs (beginTransaction (roundCfg c st) false st).2 with
  | .ok s => .ok (exitIf (beginTransaction (roundCfg c st) false st).1 false s)
  | .raised s => .raised (exitIf (beginTransaction (roundCfg c st) false st).1 true s)

/-- a connection outside any transaction, on database `db` -/
def freshSt (db : σ) : St σ :=
  { committed := db, working := db, inTxn := false, sa := false, txn := false, auto := none }

theorem initSt_fresh (c : Cfg) (h : c.external = false) (db : σ) : initSt c db = freshSt db := by
  simp [initSt, freshSt, h]

theorem roundCfg_fresh (c : Cfg) (h : c.external = false) (db : σ) : roundCfg c (freshSt db) = c := by
  cases c; simp_all [roundCfg, freshSt]

/-- per-migration regime: a complete migration is committed and leaves the connection outside a transaction -/
theorem runLoop_cons_perMig_fresh (c : Cfg) (h : PerMigRegime c) (m : Mig α) (r : List (List (Atom α))) (st : St σ)
    (ha : st.auto = none) (ht : st.txn = false) :
    runLoop ap c (migAtoms m :: r) st =
      runLoop ap c r (freshSt (applyAll ap (migActs m) st.working)) := by
  rw [runLoop_cons, begin_step_perMig c h st ht]
  have hg : Good ({ autobegin c.mode st with txn := true } : St σ) := ⟨by simp, rfl, by simp [ha]⟩
  obtain ⟨s', e, g, w⟩ := runAtoms_mig_good ap c.mode m _ hg
  simp only [e]
  congr 1
  simp [exitIf, proxyExit, g.2.1, commit, freshSt, g.2.2, w]

theorem runLoop_complete_perMig (c : Cfg) (h : PerMigRegime c) (m : Mig α) (rest : List (Mig α)) (st : St σ)
    (ha : st.auto = none) (ht : st.txn = false) :
    runLoop ap c ((m :: rest).map migAtoms) st = .ok (freshSt (applyAll ap (planActs (m :: rest)) st.working)) := by
  induction rest generalizing m st with
  | nil =>
    simp only [List.map_cons, List.map_nil]
    rw [runLoop_cons_perMig_fresh ap c h m [] st ha ht]
    simp [runLoop, planActs, applyAll]
  | cons m' r ih =>
    simp only [List.map_cons] at ih ⊢
    rw [runLoop_cons_perMig_fresh ap c h m _ st ha ht, ih m' (freshSt _) rfl rfl]
    simp [freshSt, planActs, applyAll]

/-! ### identity statements -/

/-- `l'` is `l` with statements whose effect is the identity inserted anywhere -/
inductive InsertId : List α → List α → Prop where
  | nil : InsertId [] []
  | cons (a : α) {l l' : List α} : InsertId l l' → InsertId (a :: l) (a :: l')
  | skip (a : α) {l l' : List α} : (∀ x, ap a x = x) → InsertId l l' → InsertId l (a :: l')

theorem applyAll_insertId {l l' : List α} (h : InsertId ap l l') (x : σ) : applyAll ap l' x = applyAll ap l x := by
  induction h generalizing x with
  | nil => rfl
  | cons a _ ih => simp only [applyAll, List.foldl_cons] at ih ⊢; exact ih _
  | skip a ha _ ih => simp only [applyAll, List.foldl_cons] at ih ⊢; rw [ha]; exact ih _

theorem insertId_refl (l : List α) : InsertId ap l l := by
  induction l with
  | nil => exact .nil
  | cons a r ih => exact .cons a ih

theorem insertId_append {l₁ l₁' l₂ l₂' : List α} (h₁ : InsertId ap l₁ l₁') (h₂ : InsertId ap l₂ l₂') :
    InsertId ap (l₁ ++ l₂) (l₁' ++ l₂') := by
  induction h₁ with
  | nil => simpa using h₂
  | cons a _ ih => exact .cons a ih
  | skip a ha _ ih => exact .skip a ha ih

end Model.Online
